/-
  C12 — helper lemmas, part 3: cascade = product, parallel = sum; evaluation is a ring hom
  (polynomial product of coefficient lists ↦ product of values).
-/
import ALV.Lemmas.C12

set_option linter.unusedSectionVars false
set_option linter.unusedSimpArgs false

namespace ALV.C12
variable {K : Type} [Field K]

theorem combine_assoc (op : K → K → K) (h : ∀ x y z, op (op x y) z = op x (op y z))
    (r s t : Resp K) :
    Resp.combine op (Resp.combine op r s) t = Resp.combine op r (Resp.combine op s t) := by
  cases r <;> cases s <;> cases t <;> simp [Resp.combine, h]

theorem foldl_combine (op : K → K → K) (h : ∀ x y z, op (op x y) z = op x (op y z))
    (rs : List (Resp K)) (r s : Resp K) :
    rs.foldl (Resp.combine op) (Resp.combine op r s) = Resp.combine op r (rs.foldl (Resp.combine op) s) := by
  induction rs generalizing s with
  | nil => rfl
  | cons t ts ih => simp only [List.foldl_cons]; rw [combine_assoc op h, ih]

theorem reduceResp_mul (rs : List (Resp K)) : reduceResp (· * ·) rs = prodResp rs := by
  induction rs with
  | nil => rfl
  | cons r rs ih =>
    cases rs with
    | nil => rfl
    | cons s ss =>
      have : reduceResp (· * ·) (r :: s :: ss)
          = Resp.combine (· * ·) r (reduceResp (· * ·) (s :: ss)) := by
        simp only [reduceResp, List.foldl_cons]
        exact foldl_combine _ (fun x y z => mul_assoc x y z) ss r s
      rw [this, ih]; rfl

theorem reduceResp_add (rs : List (Resp K)) : reduceResp (· + ·) rs = sumResp rs := by
  induction rs with
  | nil => rfl
  | cons r rs ih =>
    cases rs with
    | nil => rfl
    | cons s ss =>
      have : reduceResp (· + ·) (r :: s :: ss)
          = Resp.combine (· + ·) r (reduceResp (· + ·) (s :: ss)) := by
        simp only [reduceResp, List.foldl_cons]
        exact foldl_combine _ (fun x y z => add_assoc x y z) ss r s
      rw [this, ih]; rfl

theorem prodResp_vals (v : K) (vs : List K) :
    prodResp ((v :: vs).map Resp.val) = Resp.val (v :: vs).prod := by
  induction vs generalizing v with
  | nil => simp [prodResp]
  | cons u us ih =>
    have := ih u
    simp only [List.map_cons] at this ⊢
    simp only [prodResp, this, Resp.combine, List.prod_cons]

theorem sumResp_vals (v : K) (vs : List K) :
    sumResp ((v :: vs).map Resp.val) = Resp.val (v :: vs).sum := by
  induction vs generalizing v with
  | nil => simp [sumResp]
  | cons u us ih =>
    have := ih u
    simp only [List.map_cons] at this ⊢
    simp only [sumResp, this, Resp.combine, List.sum_cons]

variable [DecidableEq K]

theorem cascadeResp_eq_spec (bank : List (List K × List K)) (w : K) (hw : w ≠ 0) :
    cascadeResp bank w = cascadeSpec bank w := by
  simp only [cascadeResp, cascadeSpec, reduceResp_mul, respOfFilter_eq_spec _ _ _ hw]

theorem parallelResp_eq_spec (bank : List (List K × List K)) (w : K) (hw : w ≠ 0) :
    parallelResp bank w = parallelSpec bank w := by
  simp only [parallelResp, parallelSpec, reduceResp_add, respOfFilter_eq_spec _ _ _ hw]

mutual
theorem Bank.resp_eq_spec (w : K) (hw : w ≠ 0) : ∀ t : Bank K, Bank.resp w t = Bank.spec w t
  | .filt b a => by simp only [Bank.resp, Bank.spec, respOfFilter_eq_spec b a w hw]
  | .cascade ms => by
    simp only [Bank.resp, Bank.spec, reduceResp_mul, Bank.respList_eq_specList w hw ms]
  | .parallel ms => by
    simp only [Bank.resp, Bank.spec, reduceResp_add, Bank.respList_eq_specList w hw ms]
theorem Bank.respList_eq_specList (w : K) (hw : w ≠ 0) :
    ∀ ms : List (Bank K), Bank.respList w ms = Bank.specList w ms
  | [] => by simp only [Bank.respList, Bank.specList]
  | m :: ms => by
    simp only [Bank.respList, Bank.specList, Bank.resp_eq_spec w hw m,
      Bank.respList_eq_specList w hw ms]
end

/-! #### evaluation is a ring homomorphism on coefficient lists -/

theorem evalFrom_scaleL (w : K) (i : Nat) (c : K) (q : List K) :
    evalFrom w i (scaleL c q) = c * evalFrom w i q := by
  induction q generalizing i with
  | nil => simp [scaleL, evalFrom]
  | cons x xs ih =>
    have ih' : evalFrom w (i + 1) (List.map (fun x => c * x) xs) = c * evalFrom w (i + 1) xs := ih (i + 1)
    simp only [scaleL, List.map_cons, evalFrom, ih']
    ring

theorem evalFrom_addL (w : K) (i : Nat) (p q : List K) :
    evalFrom w i (addL p q) = evalFrom w i p + evalFrom w i q := by
  induction p generalizing i q with
  | nil => simp [addL, evalFrom]
  | cons x xs ih =>
    cases q with
    | nil => simp [addL, evalFrom]
    | cons y ys =>
      simp only [addL, evalFrom, ih]
      ring

theorem evalDirect_cons (w : K) (c : K) (p : List K) :
    evalDirect (c :: p) w = c + w * evalDirect p w := by
  simp only [evalDirect, evalFrom, pw]
  rw [evalFrom_eq_pow w (0 + 1)]
  ring

theorem evalDirect_convL (p q : List K) (w : K) :
    evalDirect (convL p q) w = evalDirect p w * evalDirect q w := by
  induction p with
  | nil => simp [convL, evalDirect, evalFrom]
  | cons c p ih =>
    have h1 : evalDirect (addL (scaleL c q) (0 :: convL p q)) w
        = c * evalDirect q w + evalDirect (0 :: convL p q) w := by
      simp only [evalDirect, evalFrom_addL, evalFrom_scaleL]
    simp only [convL]
    rw [h1, evalDirect_cons, evalDirect_cons, ih]
    ring

theorem evalDirect_addL (p q : List K) (w : K) :
    evalDirect (addL p q) w = evalDirect p w + evalDirect q w := evalFrom_addL w 0 p q

/-- option-level product / sum with an absorbing `none` (nan) -/
def optMul : Option K → Option K → Option K
  | some x, some y => some (x * y)
  | _, _ => none

def optAdd : Option K → Option K → Option K
  | some x, some y => some (x + y)
  | _, _ => none

theorem Hspec_conv (b₁ a₁ b₂ a₂ : List K) (w : K) :
    Hspec (convL b₁ b₂) (convL a₁ a₂) w = optMul (Hspec b₁ a₁ w) (Hspec b₂ a₂ w) := by
  simp only [Hspec, evalDirect_convL]
  by_cases h1 : evalDirect a₁ w = 0
  · simp [h1, optMul]
  · by_cases h2 : evalDirect a₂ w = 0
    · simp [h1, h2, optMul]
    · simp [h1, h2, optMul, mul_div_mul_comm]

theorem Hspec_par (b₁ a₁ b₂ a₂ : List K) (w : K) :
    Hspec (addL (convL b₁ a₂) (convL b₂ a₁)) (convL a₁ a₂) w
      = optAdd (Hspec b₁ a₁ w) (Hspec b₂ a₂ w) := by
  simp only [Hspec, evalDirect_convL, evalDirect_addL]
  by_cases h1 : evalDirect a₁ w = 0
  · simp [h1, optAdd]
  · by_cases h2 : evalDirect a₂ w = 0
    · simp [h1, h2, optAdd]
    · simp only [h1, h2, optAdd, mul_eq_zero, or_self, if_false]
      congr 1
      field_simp

end ALV.C12
