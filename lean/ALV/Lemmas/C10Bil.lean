/-
  C10 — helper lemmas, part 5: a bilinear form given by a table, `⟨u,v⟩ = Σ_{i,j<n} φ i j · u_i · v_j`,
  on coefficient functions; expansion along unit vectors and the triangular (Gram–Schmidt) lemma.
-/
import ALV.Lemmas.C10

namespace ALV.C10
open Finset
variable {K : Type} [Field K]

/-- the inner product of `lpc.kcovar` on coefficient functions -/
def bil (φ : ℕ → ℕ → K) (n : ℕ) (u v : ℕ → K) : K :=
  ∑ i ∈ range n, ∑ j ∈ range n, φ i j * u i * v j

/-- coefficient function of `z ** -m` -/
def unitv (m : ℕ) : ℕ → K := fun i => if i = m then 1 else 0

theorem bil_symm (φ : ℕ → ℕ → K) (hs : ∀ i j, φ i j = φ j i) (n : ℕ) (u v : ℕ → K) :
    bil φ n u v = bil φ n v u := by
  unfold bil
  rw [Finset.sum_comm]
  refine Finset.sum_congr rfl fun i _ => Finset.sum_congr rfl fun j _ => ?_
  rw [hs]; ring

theorem bil_unit_right (φ : ℕ → ℕ → K) (n : ℕ) (u : ℕ → K) (m : ℕ) (hm : m < n) :
    bil φ n u (unitv m) = ∑ i ∈ range n, φ i m * u i := by
  unfold bil
  refine Finset.sum_congr rfl fun i _ => ?_
  rw [Finset.sum_eq_single m]
  · simp [unitv]
  · intro j _ hj; simp [unitv, hj]
  · intro h; exact absurd (by simpa using hm) h

theorem bil_expand_right (φ : ℕ → ℕ → K) (n : ℕ) (u v : ℕ → K) :
    bil φ n u v = ∑ l ∈ range n, v l * bil φ n u (unitv l) := by
  have : ∀ l ∈ range n, v l * bil φ n u (unitv l) = ∑ i ∈ range n, φ i l * u i * v l := by
    intro l hl
    rw [bil_unit_right φ n u l (by simpa using hl), Finset.mul_sum]
    exact Finset.sum_congr rfl fun i _ => by ring
  rw [Finset.sum_congr rfl this, Finset.sum_comm]
  rfl

theorem bil_axpy_left (φ : ℕ → ℕ → K) (n : ℕ) (u w v : ℕ → K) (c : K) :
    bil φ n (fun i => u i + c * w i) v = bil φ n u v + c * bil φ n w v := by
  unfold bil
  rw [Finset.mul_sum, ← Finset.sum_add_distrib]
  refine Finset.sum_congr rfl fun i _ => ?_
  rw [Finset.mul_sum, ← Finset.sum_add_distrib]
  exact Finset.sum_congr rfl fun j _ => by ring

theorem bil_sub_sum_left (φ : ℕ → ℕ → K) (n : ℕ) (u v : ℕ → K) (m : ℕ) (g : ℕ → K)
    (b : ℕ → ℕ → K) :
    bil φ n (fun i => u i - ∑ q ∈ range m, g q * b q i) v =
      bil φ n u v - ∑ q ∈ range m, g q * bil φ n (b q) v := by
  induction m with
  | zero => simp
  | succ m ih =>
    have : (fun i => u i - ∑ q ∈ range (m + 1), g q * b q i) =
        fun i => (u i - ∑ q ∈ range m, g q * b q i) + (-g m) * b m i := by
      funext i; rw [Finset.sum_range_succ]; ring
    rw [this, bil_axpy_left, ih, Finset.sum_range_succ]
    ring

/-- expansion of the second argument when it is supported on `1..q+1` with leading coefficient 1
    and the first argument is orthogonal to the units `1..q` -/
theorem bil_right_lead (φ : ℕ → ℕ → K) (n : ℕ) (u w : ℕ → K) (q : ℕ) (hq : q + 1 < n)
    (hw0 : w 0 = 0) (hw1 : w (q + 1) = 1) (hwz : ∀ l, q + 1 < l → w l = 0)
    (horth : ∀ i, 1 ≤ i → i ≤ q → bil φ n u (unitv i) = 0) :
    bil φ n u w = bil φ n u (unitv (q + 1)) := by
  rw [bil_expand_right, Finset.sum_eq_single (q + 1)]
  · rw [hw1, one_mul]
  · intro l _ hl
    rcases Nat.lt_or_ge l (q + 1) with h | h
    · rcases Nat.eq_zero_or_pos l with h0 | h0
      · subst h0; simp [hw0]
      · rw [horth l h0 (by omega), mul_zero]
    · rw [hwz l (by omega), zero_mul]
  · intro h; exact absurd (by simpa using hq) h

/-- second argument supported on `1..q+1`, first argument orthogonal to all those units -/
theorem bil_right_zero (φ : ℕ → ℕ → K) (n : ℕ) (u w : ℕ → K) (q : ℕ)
    (hw0 : w 0 = 0) (hwz : ∀ l, q + 1 < l → w l = 0)
    (horth : ∀ i, 1 ≤ i → i ≤ q + 1 → bil φ n u (unitv i) = 0) :
    bil φ n u w = 0 := by
  rw [bil_expand_right]
  refine Finset.sum_eq_zero fun l _ => ?_
  rcases Nat.lt_or_ge (q + 1) l with h | h
  · rw [hwz l h, zero_mul]
  · rcases Nat.eq_zero_or_pos l with h0 | h0
    · subst h0; simp [hw0]
    · rw [horth l h0 h, mul_zero]

/-- **triangular lemma**: orthogonal to a unitriangular family `b_0..b_{m-1}` (b_q supported on
    `1..q+1`, leading coefficient 1) ⇒ orthogonal to the delays `1..m` -/
theorem orth_units_of_orth_basis (φ : ℕ → ℕ → K) (n : ℕ) (u : ℕ → K) (m : ℕ) (hm : m < n)
    (b : ℕ → ℕ → K) (hb0 : ∀ q, q < m → b q 0 = 0) (hb1 : ∀ q, q < m → b q (q + 1) = 1)
    (hbz : ∀ q, q < m → ∀ l, q + 1 < l → b q l = 0)
    (h : ∀ q, q < m → bil φ n u (b q) = 0) :
    ∀ i, 1 ≤ i → i ≤ m → bil φ n u (unitv i) = 0 := by
  intro i
  induction i using Nat.strong_induction_on with
  | _ i ih =>
    intro h1 h2
    obtain ⟨q, rfl⟩ : ∃ q, i = q + 1 := ⟨i - 1, by omega⟩
    rw [← bil_right_lead φ n u (b q) q (by omega) (hb0 q (by omega)) (hb1 q (by omega))
      (hbz q (by omega)) (fun l hl1 hl2 => ih l (by omega) hl1 (by omega))]
    exact h q (by omega)

/-- `⟨u,u⟩` of a monic `u` orthogonal to the delays `1..n-1` is `⟨u, 1⟩` -/
theorem bil_self_of_orth (φ : ℕ → ℕ → K) (n : ℕ) (hn : 0 < n) (u : ℕ → K) (h0 : u 0 = 1)
    (horth : ∀ i, 1 ≤ i → i < n → bil φ n u (unitv i) = 0) :
    bil φ n u u = bil φ n u (unitv 0) := by
  rw [bil_expand_right, Finset.sum_eq_single 0]
  · rw [h0, one_mul]
  · intro l hl h; rw [horth l (by omega) (by simpa using hl), mul_zero]
  · intro h; exact absurd (by simpa using hn) h

end ALV.C10
