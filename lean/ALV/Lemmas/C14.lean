/-
  C14 — real-analysis lemmas: the generated formulas equal the documented closed forms, the
  closed forms are symmetric, stay in [0,1], and have constant hop-shifted sums.
-/
import ALV.Lemmas.TrigFieldReal
import ALV.Lemmas.C14Core
import Mathlib.Tactic.Ring
import Mathlib.Tactic.Linarith
import Mathlib.Tactic.FieldSimp
import Mathlib.Tactic.Positivity
namespace ALV.C14
open ALV ALV.Gen.Windows

/-! ### generated formula = documented closed form (sample level, all real arguments) -/

theorem genFormula_eq_sample (k : Kind) (a N n : ℝ) : genFormula k N n a = sample k a N n := by
  -- `ring_nf` also normalises inside `cos`/`sin`/`|·|`, so commutative re-orderings of a formula in the
  -- repo (e.g. `2 * n * pi / size`) do not break this obligation
  cases k
  · simp [genFormula, hann, sample] <;> ring_nf
  · simp [genFormula, hamming, sample] <;> ring_nf
  · simp [genFormula, rect, sample] <;> ring_nf
  · simp [genFormula, bartlett, sample] <;> ring_nf
  · simp only [genFormula, triangular, sample, TrigField.real_ofInt, TrigField.real_abs, Int.cast_ofNat, Int.cast_one]
    rw [div_div_eq_mul_div]; ring_nf
  · simp [genFormula, blackman, sample] <;> ring_nf
  · simp only [genFormula, Gen.Windows.cos, sample, TrigField.real_pi, TrigField.real_sin, TrigField.real_pow] <;>
      ring_nf

/-! ### symmetry of the closed forms about the middle of the span -/

theorem sample_symm (k : Kind) (a N n : ℝ) (hN : N ≠ 0) : sample k a N (N - n) = sample k a N n := by
  have e2 : 2 * Real.pi * (N - n) / N = 2 * Real.pi - 2 * Real.pi * n / N := by field_simp
  have e4 : 4 * Real.pi * (N - n) / N = (2 : ℕ) * (2 * Real.pi) - 4 * Real.pi * n / N := by
    push_cast; field_simp; ring
  have e1 : Real.pi * (N - n) / N = Real.pi - Real.pi * n / N := by field_simp
  cases k <;> simp only [sample, TrigField.real_ofInt, TrigField.real_ofRat, TrigField.real_pi, TrigField.real_cos,
    TrigField.real_sin, TrigField.real_abs, TrigField.real_pow, Int.cast_ofNat, Int.cast_one]
  · rw [e2, Real.cos_two_pi_sub]
  · rw [e2, Real.cos_two_pi_sub]
  · rw [show N - n - N / 2 = -(n - N / 2) by ring, abs_neg]
  · rw [show N - n - N / 2 = -(n - N / 2) by ring, abs_neg]
  · rw [e2, e4, Real.cos_two_pi_sub, Real.cos_nat_mul_two_pi_sub]
  · rw [e1, Real.sin_pi_sub]

/-! ### range -/

/-- the parameter range for which the property claims samples in [0,1] (forced by the proof:
    outside it the blackman closed form really becomes negative / exceeds 1) -/
def rangeOK (k : Kind) (a : ℝ) : Prop :=
  match k with
  | .blackman => -1/4 ≤ a ∧ a ≤ 1/4
  | .cos => 0 ≤ a
  | _ => True

theorem sample_range (k : Kind) (a N n : ℝ) (ha : rangeOK k a) (hN : 0 < N) (h0 : 0 ≤ n) (h1 : n ≤ N) :
    0 ≤ sample k a N n ∧ sample k a N n ≤ 1 := by
  cases k <;> simp only [sample, TrigField.real_ofInt, TrigField.real_ofRat, TrigField.real_pi, TrigField.real_cos,
    TrigField.real_sin, TrigField.real_abs, TrigField.real_pow, Int.cast_ofNat, Int.cast_one, Nat.cast_ofNat]
  · have := Real.cos_le_one (2 * Real.pi * n / N); have := Real.neg_one_le_cos (2 * Real.pi * n / N)
    constructor <;> linarith
  · have := Real.cos_le_one (2 * Real.pi * n / N); have := Real.neg_one_le_cos (2 * Real.pi * n / N)
    constructor <;> linarith
  · constructor <;> norm_num
  · have hab : |n - N / 2| ≤ N / 2 := abs_le.mpr ⟨by linarith, by linarith⟩
    have hN2 : 0 < N / 2 := by positivity
    have : |n - N / 2| / (N / 2) ≤ 1 := (div_le_one hN2).mpr hab
    have : 0 ≤ |n - N / 2| / (N / 2) := div_nonneg (abs_nonneg _) hN2.le
    constructor <;> linarith
  · have hab : |n - N / 2| ≤ N / 2 := abs_le.mpr ⟨by linarith, by linarith⟩
    have hN2 : 0 < (N + 2) / 2 := by positivity
    have : |n - N / 2| / ((N + 2) / 2) ≤ 1 := (div_le_one hN2).mpr (by linarith)
    have : 0 ≤ |n - N / 2| / ((N + 2) / 2) := div_nonneg (abs_nonneg _) hN2.le
    constructor <;> linarith
  · obtain ⟨ha1, ha2⟩ := ha
    have hc1 := Real.cos_le_one (2 * Real.pi * n / N); have hc0 := Real.neg_one_le_cos (2 * Real.pi * n / N)
    have e : Real.cos (4 * Real.pi * n / N) = 2 * Real.cos (2 * Real.pi * n / N) ^ 2 - 1 := by
      rw [← Real.cos_two_mul]; congr 1; ring
    rw [e]
    set c := Real.cos (2 * Real.pi * n / N)
    constructor
    · have : (1 - a) / 2 - 1 / 2 * c + a / 2 * (2 * c ^ 2 - 1) = (1 - c) * (1 / 2 - a * (1 + c)) := by ring
      rw [this]
      apply mul_nonneg (by linarith)
      nlinarith [mul_nonneg (by linarith : (0:ℝ) ≤ 1/4 - a) (by linarith : (0:ℝ) ≤ 1 + c)]
    · have : (1 - a) / 2 - 1 / 2 * c + a / 2 * (2 * c ^ 2 - 1) = 1 - (1 + c) * (1 / 2 + a * (1 - c)) := by ring
      rw [this]
      have : 0 ≤ (1 + c) * (1 / 2 + a * (1 - c)) := by
        apply mul_nonneg (by linarith)
        nlinarith [mul_nonneg (by linarith : (0:ℝ) ≤ 1/4 + a) (by linarith : (0:ℝ) ≤ 1 - c)]
      linarith
  · have hx0 : 0 ≤ Real.pi * n / N := by positivity
    have hx1 : Real.pi * n / N ≤ Real.pi := by
      rw [div_le_iff₀ hN]; nlinarith [Real.pi_pos]
    have hs0 := Real.sin_nonneg_of_nonneg_of_le_pi hx0 hx1
    have hs1 := Real.sin_le_one (Real.pi * n / N)
    exact ⟨Real.rpow_nonneg hs0 a, Real.rpow_le_one hs0 hs1 ha⟩

/-! ### constant overlap-add, sample level -/

/-- hop = size/2: two overlapping blocks -/
theorem sample_cola_half (k : Kind) (a H j : ℝ) (hH : 0 < H) (h0 : 0 ≤ j) (h1 : j ≤ H)
    (hk : k = .hann ∨ k = .hamming ∨ k = .bartlett ∨ k = .rect) :
    some (sample k a (2 * H) j + sample k a (2 * H) (j + H)) = colaConst k a 2 := by
  have hH' : H ≠ 0 := hH.ne'
  have e : 2 * Real.pi * (j + H) / (2 * H) = 2 * Real.pi * j / (2 * H) + Real.pi := by field_simp
  rcases hk with rfl | rfl | rfl | rfl <;>
    simp only [sample, colaConst, TrigField.real_ofInt, TrigField.real_ofRat, TrigField.real_pi, TrigField.real_cos,
      TrigField.real_abs, Int.cast_ofNat, Int.cast_one, Nat.cast_ofNat, Option.some.injEq]
  · rw [e, Real.cos_add_pi]; ring
  · rw [e, Real.cos_add_pi]; ring
  · rw [show j + H - 2 * H / 2 = j by ring, show j - 2 * H / 2 = -(H - j) by ring, abs_neg,
      abs_of_nonneg h0, abs_of_nonneg (by linarith : 0 ≤ H - j)]
    field_simp; ring
  · norm_num

/-- hop = size/4: four overlapping blocks -/
theorem sample_cola_quarter (k : Kind) (a H j : ℝ) (hH : 0 < H) (h0 : 0 ≤ j) (h1 : j ≤ H)
    (hk : k = .hann ∨ k = .hamming ∨ k = .blackman ∨ k = .bartlett ∨ k = .rect) :
    some (sample k a (4 * H) j + sample k a (4 * H) (j + H) + sample k a (4 * H) (j + 2 * H)
          + sample k a (4 * H) (j + 3 * H)) = colaConst k a 4 := by
  have hH' : H ≠ 0 := hH.ne'
  have e1 : 2 * Real.pi * (j + H) / (4 * H) = 2 * Real.pi * j / (4 * H) + Real.pi / 2 := by field_simp; ring
  have e2 : 2 * Real.pi * (j + 2 * H) / (4 * H) = 2 * Real.pi * j / (4 * H) + Real.pi := by field_simp; ring
  have e3 : 2 * Real.pi * (j + 3 * H) / (4 * H) = 2 * Real.pi * j / (4 * H) + Real.pi / 2 + Real.pi := by
    field_simp; ring
  have f1 : 4 * Real.pi * (j + H) / (4 * H) = 4 * Real.pi * j / (4 * H) + Real.pi := by field_simp
  have f2 : 4 * Real.pi * (j + 2 * H) / (4 * H) = 4 * Real.pi * j / (4 * H) + 2 * Real.pi := by field_simp
  have f3 : 4 * Real.pi * (j + 3 * H) / (4 * H) = 4 * Real.pi * j / (4 * H) + Real.pi + 2 * Real.pi := by
    field_simp; ring
  rcases hk with rfl | rfl | rfl | rfl | rfl <;>
    simp only [sample, colaConst, TrigField.real_ofInt, TrigField.real_ofRat, TrigField.real_pi, TrigField.real_cos,
      TrigField.real_abs, Int.cast_ofNat, Int.cast_one, Nat.cast_ofNat, Option.some.injEq]
  · rw [e1, e2, e3, Real.cos_add_pi, Real.cos_add_pi, Real.cos_add_pi_div_two]; ring
  · rw [e1, e2, e3, Real.cos_add_pi, Real.cos_add_pi, Real.cos_add_pi_div_two]; ring
  · rw [e1, e2, e3, f1, f2, f3, Real.cos_add_two_pi, Real.cos_add_two_pi, Real.cos_add_pi, Real.cos_add_pi,
      Real.cos_add_pi, Real.cos_add_pi_div_two]; ring
  · rw [show j - 4 * H / 2 = -(2 * H - j) by ring, show j + H - 4 * H / 2 = -(H - j) by ring,
      show j + 2 * H - 4 * H / 2 = j by ring, show j + 3 * H - 4 * H / 2 = j + H by ring, abs_neg, abs_neg,
      abs_of_nonneg h0, abs_of_nonneg (by linarith : 0 ≤ H - j), abs_of_nonneg (by linarith : 0 ≤ 2 * H - j),
      abs_of_nonneg (by linarith : 0 ≤ j + H)]
    field_simp; ring
  · norm_num

/-! ### list level -/

theorem periodic_getD (k : Kind) (a : ℝ) (size i : ℕ) (hi : i < size) (d : ℝ) :
    (periodic k a size).getD i d = sample k a (size : ℝ) (i : ℝ) := by
  simp [periodic, List.getD, List.getElem?_map, List.getElem?_range hi]

theorem periodic_length (k : Kind) (a : ℝ) (size : ℕ) : (periodic k a size).length = size := by
  simp [periodic]

/-- the generated periodic builder with the generated formula = the specified periodic window -/
theorem periodicT_eq_spec (k : Kind) (a : ℝ) (size : ℕ) :
    periodicT (fun s n => genFormula k s n a) (size : Int) = periodic k a size := by
  rw [periodicT_nat]
  simp [periodic, genFormula_eq_sample]

/-- the generated symmetric builder with the generated formula = the specified symmetric window -/
theorem symmT_eq_spec (k : Kind) (a : ℝ) (size : ℕ) :
    symmT (fun s n => genFormula k s n a) (size : Int) = symmetric k a size := by
  rcases size with _ | _ | m
  · simp [symmT_zero, symmetric]
  · simp [symmT_one, symmetric]
  · rw [symmT_succ _ (m + 1) (by omega)]
    simp [symmetric, genFormula_eq_sample]

theorem symmetric_reverse (k : Kind) (a : ℝ) (size : ℕ) :
    (symmetric k a size).reverse = symmetric k a size := by
  unfold symmetric
  split
  · simp
  · next h =>
    apply List.ext_getElem (by simp)
    intro i h1 h2
    simp only [List.length_reverse, List.length_map, List.length_range] at h1
    rw [List.getElem_reverse]
    simp only [List.getElem_map, List.getElem_range, List.length_map, List.length_range, TrigField.real_ofNat]
    have hN : ((size - 1 : ℕ) : ℝ) ≠ 0 := by
      have : size - 1 ≠ 0 := by omega
      exact_mod_cast this
    rw [show ((size - 1 - i : ℕ) : ℝ) = ((size - 1 : ℕ) : ℝ) - (i : ℝ) from Nat.cast_sub (by omega)]
    exact sample_symm k a _ _ hN

theorem periodic_range (k : Kind) (a : ℝ) (ha : rangeOK k a) (size : ℕ) :
    ∀ x ∈ periodic k a size, 0 ≤ x ∧ x ≤ 1 := by
  intro x hx
  simp only [periodic, List.mem_map, List.mem_range, TrigField.real_ofNat] at hx
  obtain ⟨n, hn, rfl⟩ := hx
  have hs : (0 : ℝ) < size := by exact_mod_cast (by omega : 0 < size)
  exact sample_range k a _ _ ha hs (by positivity) (by exact_mod_cast hn.le)

theorem symmetric_range (k : Kind) (a : ℝ) (ha : rangeOK k a) (size : ℕ) :
    ∀ x ∈ symmetric k a size, 0 ≤ x ∧ x ≤ 1 := by
  intro x hx
  unfold symmetric at hx
  split at hx
  · simp at hx; subst hx; norm_num
  · next h =>
    simp only [List.mem_map, List.mem_range, TrigField.real_ofNat] at hx
    obtain ⟨n, hn, rfl⟩ := hx
    have hs : (0 : ℝ) < ((size - 1 : ℕ) : ℝ) := by exact_mod_cast (by omega : 0 < size - 1)
    exact sample_range k a _ _ ha hs (by positivity) (by exact_mod_cast (by omega : n ≤ size - 1))

theorem cola_half (k : Kind) (hk : k = .hann ∨ k = .hamming ∨ k = .bartlett ∨ k = .rect) (a : ℝ)
    (h j : ℕ) (hj : j < h) : some (hopSum (periodic k a (2 * h)) h j) = colaConst k a 2 := by
  have hh : 0 < h := by omega
  have hdiv : 2 * h / h = 2 := Nat.mul_div_cancel _ hh
  rw [← sample_cola_half k a (h : ℝ) (j : ℝ) (by exact_mod_cast hh) (by positivity) (by exact_mod_cast hj.le) hk]
  simp only [hopSum, periodic_length, hdiv, List.range_succ, List.range_zero, List.nil_append, List.map_cons,
    List.map_nil, List.cons_append, List.foldl_cons, List.foldl_nil, Nat.zero_mul, Nat.one_mul, Nat.add_zero]
  rw [periodic_getD k a _ _ (by omega), periodic_getD k a _ _ (by omega)]
  simp
  
theorem cola_quarter (k : Kind) (hk : k = .hann ∨ k = .hamming ∨ k = .blackman ∨ k = .bartlett ∨ k = .rect) (a : ℝ)
    (h j : ℕ) (hj : j < h) : some (hopSum (periodic k a (4 * h)) h j) = colaConst k a 4 := by
  have hh : 0 < h := by omega
  have hdiv : 4 * h / h = 4 := Nat.mul_div_cancel _ hh
  rw [← sample_cola_quarter k a (h : ℝ) (j : ℝ) (by exact_mod_cast hh) (by positivity) (by exact_mod_cast hj.le) hk]
  simp only [hopSum, periodic_length, hdiv, List.range_succ, List.range_zero, List.nil_append, List.map_cons,
    List.map_nil, List.cons_append, List.foldl_cons, List.foldl_nil, Nat.zero_mul, Nat.one_mul, Nat.add_zero]
  rw [periodic_getD k a _ _ (by omega), periodic_getD k a _ _ (by omega), periodic_getD k a _ _ (by omega),
    periodic_getD k a _ _ (by omega)]
  simp

theorem periodic_rect_reverse (a : ℝ) (size : ℕ) : (periodic .rect a size).reverse = periodic .rect a size := by
  apply List.ext_getElem (by simp)
  intro i h1 h2
  rw [List.getElem_reverse]
  simp [periodic, sample]

theorem symmetric_rect (a : ℝ) (size : ℕ) : symmetric .rect a size = periodic .rect a size := by
  unfold symmetric
  split
  · next h => subst h; simp [periodic, sample]
  · simp [periodic, sample]

end ALV.C14
