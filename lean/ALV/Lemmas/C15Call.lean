/-
  C15 — lemmas about the call layer (`Call.toOp`, `SCall.toOp`): classification of key arguments,
  raising operations, the constructor, iteration order.
-/
import ALV.Lemmas.C15SD
namespace ALV.C15
set_option linter.unusedSectionVars false
variable {K V : Type} [DecidableEq K] [DecidableEq V]

/-! ## key arguments -/

theorem allOk_eq_none_iff {is : List (KeyItem K)} : allOk is = none ↔ KeyItem.unhashable ∈ is := by
  induction is with
  | nil => simp [allOk]
  | cons i r ih =>
    cases i with
    | ok k => simp [allOk, ih]
    | unhashable => simp [allOk]

theorem allOk_map_ok (ks : List K) : allOk (ks.map KeyItem.ok) = some ks := by
  induction ks with
  | nil => rfl
  | cons k r ih => simp [allOk, ih]

theorem allOk_eq_some_iff {is : List (KeyItem K)} {ks : List K} :
    allOk is = some ks ↔ is = ks.map KeyItem.ok := by
  constructor
  · induction is generalizing ks with
    | nil => intro h; simp [allOk] at h; subst h; rfl
    | cons i r ih =>
      cases i with
      | ok k =>
        intro h
        simp only [allOk, Option.map_eq_some_iff] at h
        obtain ⟨t, ht, rfl⟩ := h
        simp [ih ht]
      | unhashable => intro h; simp [allOk] at h
  · rintro rfl; exact allOk_map_ok ks

theorem classifyNames_map_ok (ks : List K) : classifyNames (ks.map SKeyItem.ok) = .names ks := by
  induction ks with
  | nil => rfl
  | cons k r ih => simp [classifyNames, ih]

/-- the key argument is a tuple of names exactly when every item is a string -/
theorem classifyNames_names_iff {is : List (SKeyItem K)} {ks : List K} :
    classifyNames is = .names ks ↔ is = ks.map SKeyItem.ok := by
  constructor
  · induction is generalizing ks with
    | nil => intro h; simp [classifyNames] at h; subst h; rfl
    | cons i r ih =>
      cases i with
      | ok k =>
        intro h
        simp only [classifyNames] at h
        cases hc : classifyNames r with
        | names t =>
          rw [hc] at h
          simp only [Names.names.injEq] at h
          subst h
          simp [ih hc]
        | hasNonStr => rw [hc] at h; cases h
        | hasUnhashable => rw [hc] at h; cases h
      | nonStr =>
        intro h
        simp only [classifyNames] at h
        cases hc : classifyNames r <;> rw [hc] at h <;> cases h
      | unhashable => intro h; cases h
  · rintro rfl; exact classifyNames_map_ok ks

/-! ## an operation that raises leaves no trace -/

def Res.raised : Res K V → Prop
  | .keyError | .attrError | .rejected => True
  | _ => False

theorem step_raised_noop (s : St K V) (op : Op K V) (h : Res.raised (step s op).2) : (step s op).1 = s := by
  cases op with
  | set keys v =>
    simp only [step] at h ⊢
    cases hs : setitem s keys v with
    | none => rfl
    | some s' => rw [hs] at h; exact absurd h (by simp [Res.raised])
  | del k =>
    simp only [step] at h ⊢
    cases hs : delitem s k with
    | none => rfl
    | some s' => rw [hs] at h; exact absurd h (by simp [Res.raised])
  | _ => rfl

theorem sdStep_raised_noop (s : SD K V) (op : SOp K V) (h : Res.raised (sdStep s op).2) :
    (sdStep s op).1 = s := by
  cases op with
  | set keys v =>
    simp only [sdStep] at h ⊢
    cases hs : sdSetitem s keys v with
    | none => rfl
    | some s' => rw [hs] at h; exact absurd h (by simp [Res.raised])
  | del k =>
    simp only [sdStep] at h ⊢
    cases hs : sdDelitem s k with
    | none => rfl
    | some s' => rw [hs] at h; exact absurd h (by simp [Res.raised])
  | setattr a v => simp only [sdStep] at h; exact absurd h (by simp [Res.raised])
  | delattr a =>
    simp only [sdStep] at h ⊢
    cases hs : sdDelattr s a with
    | ok s' => rw [hs] at h; exact absurd h (by simp [Res.ofExcept, Res.raised])
    | error e => cases e <;> rfl
  | _ => rfl

/-! ## iteration order -/

theorem Inv.iter_order {s : St K V} (h : Inv s) :
    storeValues s = iterValues s ∧ keyTuples s = (iterValues s).map (value2keys s) := by
  constructor
  · simp only [storeValues, iterValues, h.storeEq, List.map_map]; rfl
  · simp only [keyTuples, iterValues, h.storeEq, List.map_map]
    apply List.map_congr_left
    intro e he
    simp only [Function.comp]
    exact (h.v2k_of_mem (v := e.1) (t := e.2) he).symm

/-! ## the constructor -/

theorem keys_dictOf_nodup {A B : Type} [DecidableEq A] (pairs : List (A × B)) :
    ((dictOf pairs).map (·.1)).Nodup := by
  unfold dictOf
  have : ∀ (d : Dict A B), (d.map (·.1)).Nodup →
      ((pairs.foldl (fun d e => dset d e.1 e.2) d).map (·.1)).Nodup := by
    induction pairs with
    | nil => intro d hd; exact hd
    | cons e r ih => intro d hd; exact ih _ (nodup_keys_dset e.1 e.2 hd)
  exact this [] List.nodup_nil

theorem mem_keys_foldl_dset {A B : Type} [DecidableEq A] (pairs : List (A × B)) (d : Dict A B) (a : A) :
    a ∈ (pairs.foldl (fun d e => dset d e.1 e.2) d).map (·.1) ↔ a ∈ d.map (·.1) ∨ a ∈ pairs.map (·.1) := by
  induction pairs generalizing d with
  | nil => simp
  | cons e r ih =>
    simp only [List.foldl_cons, ih, List.map_cons, List.mem_cons]
    have hk : a ∈ (dset d e.1 e.2).map (·.1) ↔ a ∈ d.map (·.1) ∨ a = e.1 := by
      rw [keys_dset]
      by_cases hd : dhas d e.1 <;> simp [hd]
      · intro hae; subst hae
        obtain ⟨v, hv⟩ := dhas_eq_true_iff.mp hd
        exact ⟨v, dget_some_mem hv⟩
    rw [hk]
    constructor
    · rintro ((h | h) | h)
      · exact Or.inl h
      · exact Or.inr (Or.inl h)
      · exact Or.inr (Or.inr h)
    · rintro (h | h | h)
      · exact Or.inl (Or.inl h)
      · exact Or.inl (Or.inr h)
      · exact Or.inr h

theorem ctorOps_valid {pairs : List (List K × V)} (h : ∀ e ∈ pairs, e.1 ≠ []) :
    ∀ op ∈ ctorOps pairs, Op.valid op := by
  intro op hop
  obtain ⟨e, he, rfl⟩ := List.mem_map.mp hop
  have : e.1 ∈ (dictOf pairs).map (·.1) := List.mem_map.mpr ⟨e, he, rfl⟩
  unfold dictOf at this
  rw [mem_keys_foldl_dset] at this
  rcases this with h0 | h0
  · simp at h0
  · obtain ⟨e', he', h1⟩ := List.mem_map.mp h0
    simp only [Op.valid]
    rw [← h1]; exact h e' he'

/-- the value of the LAST pair with key `k` -/
def lastValue {A B : Type} [DecidableEq A] (pairs : List (A × B)) (k : A) : Option B :=
  pairs.foldl (fun cur e => if e.1 = k then some e.2 else cur) none

theorem dget_foldl_dset_pairs {A B : Type} [DecidableEq A] (pairs : List (A × B)) (d : Dict A B) (k : A) :
    dget (pairs.foldl (fun d e => dset d e.1 e.2) d) k
      = pairs.foldl (fun cur e => if e.1 = k then some e.2 else cur) (dget d k) := by
  induction pairs generalizing d with
  | nil => rfl
  | cons e r ih =>
    simp only [List.foldl_cons, ih, dget_dset]
    by_cases h : e.1 = k
    · simp [h]
    · have : ¬ k = e.1 := fun h' => h h'.symm
      simp [h, this]

/-- `dict(pairs)[k]` is the value of the last pair with key `k` -/
theorem dget_dictOf {A B : Type} [DecidableEq A] (pairs : List (A × B)) (k : A) :
    dget (dictOf pairs) k = lastValue pairs k := by
  unfold dictOf lastValue
  rw [dget_foldl_dset_pairs]; rfl

/-- assignments of single keys, every key once: the last value assigned to `k` is its entry -/
theorem lastAssigned_singles (d : Dict K V) (hn : (d.map (·.1)).Nodup) (k : K) (cur : Option V) :
    lastAssigned k (d.map fun e => Op.set [e.1] e.2) cur
      = match dget d k with
        | some v => some v
        | none => cur := by
  induction d generalizing cur with
  | nil => rfl
  | cons e r ih =>
    obtain ⟨a, b⟩ := e
    simp only [List.map_cons, List.nodup_cons] at hn
    simp only [List.map_cons, lastAssigned, dget_cons, List.mem_singleton]
    rw [ih hn.2]
    by_cases hak : a = k
    · subst hak
      have : dget r a = none := dget_eq_none_iff.mpr (fun e he h => hn.1 (List.mem_map.mpr ⟨e, he, h⟩))
      simp [this]
    · have : ¬ k = a := fun h => hak h.symm
      simp [hak, this]

theorem map_dset_single (d : Dict K V) (a : K) (b : V) :
    (dset d a b).map (fun e => ([e.1], e.2)) = dset (d.map (fun e => ([e.1], e.2))) [a] b := by
  induction d with
  | nil => rfl
  | cons e r ih =>
    obtain ⟨x, y⟩ := e
    by_cases h : x = a
    · simp [dset, h]
    · have : ¬ [x] = [a] := by simpa using h
      simp only [dset, h, if_false, List.map_cons, this, ih]

theorem dictOf_map_single (pairs : List (K × V)) :
    dictOf (pairs.map fun e => ([e.1], e.2)) = (dictOf pairs).map (fun e => ([e.1], e.2)) := by
  unfold dictOf
  have : ∀ (d : Dict K V), (pairs.map fun e => ([e.1], e.2)).foldl (fun d e => dset d e.1 e.2) (d.map fun e => ([e.1], e.2))
      = (pairs.foldl (fun d e => dset d e.1 e.2) d).map (fun e => ([e.1], e.2)) := by
    induction pairs with
    | nil => intro d; rfl
    | cons e r ih =>
      intro d
      simp only [List.map_cons, List.foldl_cons]
      rw [← map_dset_single, ih]
  exact this []

end ALV.C15
