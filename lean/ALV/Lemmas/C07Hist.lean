/-
  C07 — histories of mutable Poly objects: the representation invariant is kept by
  every step (also the failing ones and `p[k] = 0`), results are new objects (except the
  `p ** 1` case that returns `self`), a step touches no object but its target, a hashed
  object never changes again.  Core Lean only.
-/
import ALV.Model.C07Hist
import ALV.Lemmas.C07Basic

set_option linter.unusedSectionVars false

namespace ALV.C07
variable {α : Type}

/-- every object of the heap satisfies the representation invariant -/
def HWF [OfNat α 0] (st : HState α) : Prop := ∀ o ∈ st.heap, WF o.data

/-- every variable refers to an object of the heap -/
def PoolOK (st : HState α) : Prop := ∀ a ∈ st.pool, a < st.heap.length

theorem obj_some {st : HState α} {i a : Nat} {o : Obj α} (h : st.obj i = some (a, o)) :
    st.pool[i]? = some a ∧ st.heap[a]? = some o := by
  unfold HState.obj at h
  split at h
  · exact absurd h (by simp)
  · rename_i a' ha
    split at h
    · exact absurd h (by simp)
    · rename_i o' ho
      simp only [Option.some.injEq, Prod.mk.injEq] at h
      obtain ⟨rfl, rfl⟩ := h
      exact ⟨ha, ho⟩

theorem obj_mem {st : HState α} {i a : Nat} {o : Obj α} (h : st.obj i = some (a, o)) :
    o ∈ st.heap ∧ a < st.heap.length ∧ a ∈ st.pool := by
  obtain ⟨h1, h2⟩ := obj_some h
  exact ⟨List.mem_of_getElem? h2, (List.getElem?_eq_some_iff.1 h2).1, List.mem_of_getElem? h1⟩

section Arith
variable [Add α] [Mul α] [Sub α] [Neg α] [Div α] [OfNat α 0] [OfNat α 1] [DecidableEq α]

theorem wf_unOp (u : UnOp) (p : MPoly α) : WF (unOp u p) := by
  cases u <;> first | exact wf_neg _ | exact wf_pos _ | exact wf_mk _

theorem wf_binOp (b : BinOp) (p q : MPoly α) : WF (binOp b p q) := by
  cases b <;> first | exact wf_add _ _ | exact wf_sub _ _ | exact wf_mul _ _

theorem wf_scalOp (s : ScalOp) (p : MPoly α) (c : α) : WF (scalOp s p c) := by
  cases s <;> first | exact wf_add _ _ | exact wf_sub _ _ | exact wf_mul _ _

theorem actOfExcept_alloc {e : Except PyErr (MPoly α)} {p : MPoly α} (h : actOfExcept e = .alloc p) :
    e = .ok p := by
  cases e with
  | ok q => simp only [actOfExcept, Act.alloc.injEq] at h; rw [h]
  | error e => simp [actOfExcept] at h

/-- whatever a step allocates satisfies the invariant -/
theorem act_alloc_wf {st : HState α} (hw : HWF st) {op : HOp α} {p : MPoly α}
    (h : act st op = .alloc p) : WF p := by
  cases op with
  | mk ps => simp only [act, Act.alloc.injEq] at h; subst h; exact wf_mk _
  | ofList cs => simp only [act, Act.alloc.injEq] at h; subst h; exact wf_ofList _
  | const c => simp only [act, Act.alloc.injEq] at h; subst h; exact wf_ofScalar _
  | fromSrc s =>
    simp only [act] at h
    split at h
    · simp only [Act.alloc.injEq] at h; subst h; exact wf_mk _
    · exact absurd h (by simp)
  | srcSet s k c => simp only [act] at h; split at h <;> exact absurd h (by simp)
  | un u i =>
    simp only [act] at h
    split at h
    · simp only [Act.alloc.injEq] at h; subst h; exact wf_unOp _ _
    · exact absurd h (by simp)
  | bin b i j =>
    simp only [act] at h
    split at h
    · simp only [Act.alloc.injEq] at h; subst h; exact wf_binOp _ _ _
    · exact absurd h (by simp)
  | scal s i c =>
    simp only [act] at h
    split at h
    · simp only [Act.alloc.injEq] at h; subst h; exact wf_scalOp _ _ _
    · exact absurd h (by simp)
  | divs i c =>
    simp only [act] at h
    split at h
    · exact wf_divScalar (actOfExcept_alloc h)
    · exact absurd h (by simp)
  | div i j =>
    simp only [act] at h
    split at h
    · exact wf_divPoly (actOfExcept_alloc h)
    · exact absurd h (by simp)
  | pow i n fl =>
    simp only [act] at h
    split at h
    · rename_i a o ho
      split at h
      · exact absurd h (by simp)
      · split at h
        · exact absurd h (by simp)
        · simp only [Act.alloc.injEq] at h; subst h
          exact wf_pow (hw _ (obj_mem ho).1) _
    · exact absurd h (by simp)
  | comp i j =>
    simp only [act] at h
    split at h
    · simp only [Act.alloc.injEq] at h; subst h; exact wf_compose _ _
    · exact absurd h (by simp)
  | call i v hh => simp only [act] at h; split at h <;> exact absurd h (by simp)
  | diff i n =>
    simp only [act] at h
    split at h
    · rename_i a o ho
      simp only [Act.alloc.injEq] at h; subst h
      exact wf_diff _ _ (hw _ (obj_mem ho).1).1
    · exact absurd h (by simp)
  | integ i =>
    simp only [act] at h
    split at h
    · exact wf_integrate (actOfExcept_alloc h)
    · exact absurd h (by simp)
  | setitem i k c =>
    simp only [act] at h
    split at h
    · split at h <;> exact absurd h (by simp)
    · exact absurd h (by simp)
  | setzero i =>
    simp only [act] at h
    split at h
    · split at h <;> exact absurd h (by simp)
    · exact absurd h (by simp)
  | hash i => simp only [act] at h; split at h <;> exact absurd h (by simp)
  | eq i j => simp only [act] at h; split at h <;> exact absurd h (by simp)
  | ne i j => simp only [act] at h; split at h <;> exact absurd h (by simp)
  | eqs i c => simp only [act] at h; split at h <;> exact absurd h (by simp)

/-- what an in-place step does: it is `p[k] = c` or `p.zero = 0` on an un-hashed object that a variable
    refers to, and the new contents are `setItem` / `compact` of the old ones -/
theorem act_store {st : HState α} {op : HOp α} {a : Nat} {o' : Obj α} (h : act st op = .store a o') :
    ∃ i o, st.obj i = some (a, o) ∧ o.hashed = false ∧ o'.hashed = false ∧
      ((∃ k c, op = .setitem i k c ∧ o'.data = setItem o.data k c) ∨ (op = .setzero i ∧ o'.data = compact o.data)) := by
  cases op with
  | mk ps => simp [act] at h
  | ofList cs => simp [act] at h
  | const c => simp [act] at h
  | fromSrc s => simp only [act] at h; split at h <;> exact absurd h (by simp)
  | srcSet s k c => simp only [act] at h; split at h <;> exact absurd h (by simp)
  | un u i => simp only [act] at h; split at h <;> exact absurd h (by simp)
  | bin b i j => simp only [act] at h; split at h <;> exact absurd h (by simp)
  | scal s i c => simp only [act] at h; split at h <;> exact absurd h (by simp)
  | divs i c =>
    simp only [act] at h
    split at h
    · unfold actOfExcept at h; split at h <;> exact absurd h (by simp)
    · exact absurd h (by simp)
  | div i j =>
    simp only [act] at h
    split at h
    · unfold actOfExcept at h; split at h <;> exact absurd h (by simp)
    · exact absurd h (by simp)
  | pow i n fl =>
    simp only [act] at h
    split at h
    · split at h
      · exact absurd h (by simp)
      · split at h <;> exact absurd h (by simp)
    · exact absurd h (by simp)
  | comp i j => simp only [act] at h; split at h <;> exact absurd h (by simp)
  | call i v hh => simp only [act] at h; split at h <;> exact absurd h (by simp)
  | diff i n => simp only [act] at h; split at h <;> exact absurd h (by simp)
  | integ i =>
    simp only [act] at h
    split at h
    · unfold actOfExcept at h; split at h <;> exact absurd h (by simp)
    · exact absurd h (by simp)
  | setitem i k c =>
    simp only [act] at h
    split at h
    · rename_i a0 o ho
      split at h
      · exact absurd h (by simp)
      · rename_i hh
        simp only [Act.store.injEq] at h
        obtain ⟨rfl, rfl⟩ := h
        exact ⟨i, o, ho, by simpa using hh, by simpa using hh, Or.inl ⟨k, c, rfl, rfl⟩⟩
    · exact absurd h (by simp)
  | setzero i =>
    simp only [act] at h
    split at h
    · rename_i a0 o ho
      split at h
      · exact absurd h (by simp)
      · rename_i hh
        simp only [Act.store.injEq] at h
        obtain ⟨rfl, rfl⟩ := h
        exact ⟨i, o, ho, by simpa using hh, by simpa using hh, Or.inr ⟨rfl, rfl⟩⟩
    · exact absurd h (by simp)
  | hash i => simp only [act] at h; split at h <;> exact absurd h (by simp)
  | eq i j => simp only [act] at h; split at h <;> exact absurd h (by simp)
  | ne i j => simp only [act] at h; split at h <;> exact absurd h (by simp)
  | eqs i c => simp only [act] at h; split at h <;> exact absurd h (by simp)

/-- `hash(p)` only sets `_hash`: the contents stay -/
theorem act_frozen {st : HState α} {op : HOp α} {a : Nat} {o' : Obj α} {key : MPoly α}
    (h : act st op = .frozen a o' key) :
    ∃ i o, op = .hash i ∧ st.obj i = some (a, o) ∧ o'.data = o.data ∧ o'.hashed = true ∧ key = hashKey o.data := by
  cases op with
  | mk ps => simp [act] at h
  | ofList cs => simp [act] at h
  | const c => simp [act] at h
  | fromSrc s => simp only [act] at h; split at h <;> exact absurd h (by simp)
  | srcSet s k c => simp only [act] at h; split at h <;> exact absurd h (by simp)
  | un u i => simp only [act] at h; split at h <;> exact absurd h (by simp)
  | bin b i j => simp only [act] at h; split at h <;> exact absurd h (by simp)
  | scal s i c => simp only [act] at h; split at h <;> exact absurd h (by simp)
  | divs i c =>
    simp only [act] at h
    split at h
    · unfold actOfExcept at h; split at h <;> exact absurd h (by simp)
    · exact absurd h (by simp)
  | div i j =>
    simp only [act] at h
    split at h
    · unfold actOfExcept at h; split at h <;> exact absurd h (by simp)
    · exact absurd h (by simp)
  | pow i n fl =>
    simp only [act] at h
    split at h
    · split at h
      · exact absurd h (by simp)
      · split at h <;> exact absurd h (by simp)
    · exact absurd h (by simp)
  | comp i j => simp only [act] at h; split at h <;> exact absurd h (by simp)
  | call i v hh => simp only [act] at h; split at h <;> exact absurd h (by simp)
  | diff i n => simp only [act] at h; split at h <;> exact absurd h (by simp)
  | integ i =>
    simp only [act] at h
    split at h
    · unfold actOfExcept at h; split at h <;> exact absurd h (by simp)
    · exact absurd h (by simp)
  | setitem i k c =>
    simp only [act] at h
    split at h
    · split at h <;> exact absurd h (by simp)
    · exact absurd h (by simp)
  | setzero i =>
    simp only [act] at h
    split at h
    · split at h <;> exact absurd h (by simp)
    · exact absurd h (by simp)
  | hash i =>
    simp only [act] at h
    split at h
    · rename_i a0 o ho
      simp only [Act.frozen.injEq] at h
      obtain ⟨rfl, rfl, rfl⟩ := h
      exact ⟨i, o, rfl, ho, rfl, rfl, rfl⟩
    · exact absurd h (by simp)
  | eq i j => simp only [act] at h; split at h <;> exact absurd h (by simp)
  | ne i j => simp only [act] at h; split at h <;> exact absurd h (by simp)
  | eqs i c => simp only [act] at h; split at h <;> exact absurd h (by simp)

/-- the only step that returns an existing object is `p ** n` on `p` itself -/
theorem act_alias {st : HState α} {op : HOp α} {a : Nat} (h : act st op = .alias a) :
    ∃ i n fl o, op = .pow i n fl ∧ st.obj i = some (a, o) ∧ powIsSelf o.data n = true := by
  cases op with
  | mk ps => simp [act] at h
  | ofList cs => simp [act] at h
  | const c => simp [act] at h
  | fromSrc s => simp only [act] at h; split at h <;> exact absurd h (by simp)
  | srcSet s k c => simp only [act] at h; split at h <;> exact absurd h (by simp)
  | un u i => simp only [act] at h; split at h <;> exact absurd h (by simp)
  | bin b i j => simp only [act] at h; split at h <;> exact absurd h (by simp)
  | scal s i c => simp only [act] at h; split at h <;> exact absurd h (by simp)
  | divs i c =>
    simp only [act] at h
    split at h
    · unfold actOfExcept at h; split at h <;> exact absurd h (by simp)
    · exact absurd h (by simp)
  | div i j =>
    simp only [act] at h
    split at h
    · unfold actOfExcept at h; split at h <;> exact absurd h (by simp)
    · exact absurd h (by simp)
  | pow i n fl =>
    simp only [act] at h
    split at h
    · rename_i a0 o ho
      split at h
      · exact absurd h (by simp)
      · split at h
        · rename_i hs
          simp only [Act.alias.injEq] at h
          subst h
          exact ⟨i, n, fl, o, rfl, ho, hs⟩
        · exact absurd h (by simp)
    · exact absurd h (by simp)
  | comp i j => simp only [act] at h; split at h <;> exact absurd h (by simp)
  | call i v hh => simp only [act] at h; split at h <;> exact absurd h (by simp)
  | diff i n => simp only [act] at h; split at h <;> exact absurd h (by simp)
  | integ i =>
    simp only [act] at h
    split at h
    · unfold actOfExcept at h; split at h <;> exact absurd h (by simp)
    · exact absurd h (by simp)
  | setitem i k c =>
    simp only [act] at h
    split at h
    · split at h <;> exact absurd h (by simp)
    · exact absurd h (by simp)
  | setzero i =>
    simp only [act] at h
    split at h
    · split at h <;> exact absurd h (by simp)
    · exact absurd h (by simp)
  | hash i => simp only [act] at h; split at h <;> exact absurd h (by simp)
  | eq i j => simp only [act] at h; split at h <;> exact absurd h (by simp)
  | ne i j => simp only [act] at h; split at h <;> exact absurd h (by simp)
  | eqs i c => simp only [act] at h; split at h <;> exact absurd h (by simp)

/-! ### the invariants are kept by every step -/

theorem hwf_hstep {st : HState α} (hw : HWF st) (op : HOp α) : HWF (hstep st op) := by
  unfold hstep
  cases hact : act st op with
  | alloc p =>
    intro o ho
    simp only [apply, List.mem_append, List.mem_singleton] at ho
    rcases ho with ho | rfl
    · exact hw o ho
    · exact act_alloc_wf hw hact
  | alias a => exact hw
  | store a o' =>
    obtain ⟨i, o, ho, _, _, hd⟩ := act_store hact
    have hwo : WF o.data := hw _ (obj_mem ho).1
    intro o2 ho2
    simp only [apply] at ho2
    rcases List.mem_or_eq_of_mem_set ho2 with h | rfl
    · exact hw _ h
    · rcases hd with ⟨k, c, _, hd⟩ | ⟨_, hd⟩
      · rw [hd]; exact wf_setItem hwo k c
      · rw [hd, compact_of_wf hwo]; exact hwo
  | frozen a o' key =>
    obtain ⟨i, o, _, ho, hd, _, _⟩ := act_frozen hact
    intro o2 ho2
    simp only [apply] at ho2
    rcases List.mem_or_eq_of_mem_set ho2 with h | rfl
    · exact hw _ h
    · rw [hd]; exact hw _ (obj_mem ho).1
  | num v => exact hw
  | bool b => exact hw
  | srcSet s l => exact hw
  | fail e => exact hw
  | bad => exact hw

theorem poolOK_hstep {st : HState α} (hp : PoolOK st) (op : HOp α) : PoolOK (hstep st op) := by
  unfold hstep
  cases hact : act st op with
  | alloc p =>
    intro a ha
    simp only [apply, List.mem_append, List.mem_singleton, List.length_append, List.length_cons,
      List.length_nil] at ha ⊢
    rcases ha with ha | rfl
    · have := hp a ha; omega
    · omega
  | alias a =>
    obtain ⟨i, n, fl, o, _, ho, _⟩ := act_alias hact
    intro a' ha
    simp only [apply, List.mem_append, List.mem_singleton] at ha ⊢
    rcases ha with ha | rfl
    · exact hp _ ha
    · exact (obj_mem ho).2.1
  | store a o' =>
    intro a' ha
    simp only [apply, List.length_set] at ha ⊢
    exact hp _ ha
  | frozen a o' key =>
    intro a' ha
    simp only [apply, List.length_set] at ha ⊢
    exact hp _ ha
  | num v => exact hp
  | bool b => exact hp
  | srcSet s l => exact hp
  | fail e => exact hp
  | bad => exact hp

theorem hwf_hrun {st : HState α} (hw : HWF st) (ops : List (HOp α)) : HWF (hrun st ops) := by
  unfold hrun
  induction ops generalizing st with
  | nil => exact hw
  | cons op t ih => exact ih (hwf_hstep hw op)

theorem poolOK_hrun {st : HState α} (hp : PoolOK st) (ops : List (HOp α)) : PoolOK (hrun st ops) := by
  unfold hrun
  induction ops generalizing st with
  | nil => exact hp
  | cons op t ih => exact ih (poolOK_hstep hp op)

theorem hwf_init {objs : List (MPoly α)} (h : ∀ p ∈ objs, WF p) (srcs : List (List (Int × α))) :
    HWF (HState.init objs srcs) := by
  intro o ho
  simp only [HState.init, List.mem_map] at ho
  obtain ⟨p, hp, rfl⟩ := ho
  exact h p hp

theorem poolOK_init (objs : List (MPoly α)) (srcs : List (List (Int × α))) :
    PoolOK (HState.init objs srcs) := by
  intro a ha
  simpa [HState.init] using ha

/-! ### frame: what a step leaves alone -/

/-- a step changes no existing object except the target of `p[k] = c` / `p.zero = z` / `hash(p)` -/
theorem heap_frame (st : HState α) (op : HOp α) {a : Nat} (ha : a < st.heap.length)
    (ht : target st op ≠ some a) : (hstep st op).heap[a]? = st.heap[a]? := by
  unfold hstep
  cases hact : act st op with
  | alloc p => simp only [apply]; exact List.getElem?_append_left ha
  | alias a' => rfl
  | store a' o' =>
    obtain ⟨i, o, ho, _, _, hd⟩ := act_store hact
    have hne : a' ≠ a := by
      rintro rfl
      apply ht
      rcases hd with ⟨k, c, rfl, _⟩ | ⟨rfl, _⟩ <;> simp [target, ho]
    simp only [apply]
    exact List.getElem?_set_ne hne
  | frozen a' o' key =>
    obtain ⟨i, o, rfl, ho, _, _, _⟩ := act_frozen hact
    have hne : a' ≠ a := by
      rintro rfl
      apply ht
      simp [target, ho]
    simp only [apply]
    exact List.getElem?_set_ne hne
  | num v => rfl
  | bool b => rfl
  | srcSet s l => rfl
  | fail e => rfl
  | bad => rfl

/-- the variables already there keep referring to the same objects -/
theorem pool_frame (st : HState α) (op : HOp α) {i : Nat} (hi : i < st.pool.length) :
    (hstep st op).pool[i]? = st.pool[i]? := by
  unfold hstep
  cases hact : act st op <;> simp only [apply] <;> first | rfl | exact List.getElem?_append_left hi

/-- a hashed object never changes again, whatever the step -/
theorem hashed_frame (st : HState α) (op : HOp α) {a : Nat} {o : Obj α} (ho : st.heap[a]? = some o)
    (hh : o.hashed = true) : (hstep st op).heap[a]? = some { data := o.data, hashed := true } := by
  have ha : a < st.heap.length := (List.getElem?_eq_some_iff.1 ho).1
  have hoo : o = { data := o.data, hashed := true } := by cases o; simp_all
  unfold hstep
  cases hact : act st op with
  | alloc p => simp only [apply]; rw [List.getElem?_append_left ha, ho, ← hoo]
  | alias a' => simp only [apply]; rw [ho, ← hoo]
  | store a' o' =>
    obtain ⟨i, o1, ho1, hf, _, _⟩ := act_store hact
    have hne : a' ≠ a := by
      rintro rfl
      have := (obj_some ho1).2
      rw [ho] at this
      simp only [Option.some.injEq] at this
      subst this
      rw [hh] at hf
      exact absurd hf (by simp)
    simp only [apply]
    rw [List.getElem?_set_ne hne, ho, ← hoo]
  | frozen a' o' key =>
    obtain ⟨i, o1, _, ho1, hd, hhh, _⟩ := act_frozen hact
    simp only [apply]
    by_cases hne : a' = a
    · subst hne
      have := (obj_some ho1).2
      rw [ho] at this
      simp only [Option.some.injEq] at this
      subst this
      rw [List.getElem?_set_self ha]
      obtain ⟨d, hb⟩ := o'
      simp only at hd hhh
      subst hd hhh
      rfl
    · rw [List.getElem?_set_ne hne, ho, ← hoo]
  | num v => simp only [apply]; rw [ho, ← hoo]
  | bool b => simp only [apply]; rw [ho, ← hoo]
  | srcSet s l => simp only [apply]; rw [ho, ← hoo]
  | fail e => simp only [apply]; rw [ho, ← hoo]
  | bad => simp only [apply]; rw [ho, ← hoo]

theorem hashed_frame_hrun (st : HState α) (ops : List (HOp α)) {a : Nat} {o : Obj α}
    (ho : st.heap[a]? = some o) (hh : o.hashed = true) :
    (hrun st ops).heap[a]? = some { data := o.data, hashed := true } := by
  unfold hrun
  induction ops generalizing st o with
  | nil =>
    simp only [List.foldl_nil]
    rw [ho]; cases o; simp_all
  | cons op t ih =>
    simp only [List.foldl_cons]
    exact ih (hstep st op) (o := { data := o.data, hashed := true }) (hashed_frame st op ho hh) rfl

/-- the caller's containers are changed by nobody but the caller (`srcSet`) -/
theorem srcs_frame (st : HState α) (op : HOp α) (h : ∀ s k c, op ≠ .srcSet s k c) :
    (hstep st op).srcs = st.srcs := by
  unfold hstep
  cases hact : act st op with
  | srcSet s l =>
    exfalso
    cases op with
    | srcSet s' k c => exact h s' k c rfl
    | mk ps => simp [act] at hact
    | ofList cs => simp [act] at hact
    | const c => simp [act] at hact
    | fromSrc s => simp only [act] at hact; split at hact <;> exact absurd hact (by simp)
    | un u i => simp only [act] at hact; split at hact <;> exact absurd hact (by simp)
    | bin b i j => simp only [act] at hact; split at hact <;> exact absurd hact (by simp)
    | scal s i c => simp only [act] at hact; split at hact <;> exact absurd hact (by simp)
    | divs i c =>
      simp only [act] at hact
      split at hact
      · unfold actOfExcept at hact; split at hact <;> exact absurd hact (by simp)
      · exact absurd hact (by simp)
    | div i j =>
      simp only [act] at hact
      split at hact
      · unfold actOfExcept at hact; split at hact <;> exact absurd hact (by simp)
      · exact absurd hact (by simp)
    | pow i n fl =>
      simp only [act] at hact
      split at hact
      · split at hact
        · exact absurd hact (by simp)
        · split at hact <;> exact absurd hact (by simp)
      · exact absurd hact (by simp)
    | comp i j => simp only [act] at hact; split at hact <;> exact absurd hact (by simp)
    | call i v hh => simp only [act] at hact; split at hact <;> exact absurd hact (by simp)
    | diff i n => simp only [act] at hact; split at hact <;> exact absurd hact (by simp)
    | integ i =>
      simp only [act] at hact
      split at hact
      · unfold actOfExcept at hact; split at hact <;> exact absurd hact (by simp)
      · exact absurd hact (by simp)
    | setitem i k c =>
      simp only [act] at hact
      split at hact
      · split at hact <;> exact absurd hact (by simp)
      · exact absurd hact (by simp)
    | setzero i =>
      simp only [act] at hact
      split at hact
      · split at hact <;> exact absurd hact (by simp)
      · exact absurd hact (by simp)
    | hash i => simp only [act] at hact; split at hact <;> exact absurd hact (by simp)
    | eq i j => simp only [act] at hact; split at hact <;> exact absurd hact (by simp)
    | ne i j => simp only [act] at hact; split at hact <;> exact absurd hact (by simp)
    | eqs i c => simp only [act] at hact; split at hact <;> exact absurd hact (by simp)
  | alloc p => rfl
  | alias a => rfl
  | store a o => rfl
  | frozen a o key => rfl
  | num v => rfl
  | bool b => rfl
  | fail e => rfl
  | bad => rfl

/-! ### results are new objects -/

/-- an allocating step returns a NEW object: its address is no variable's address, the new variable is the
    only one that refers to it, and every existing object is left as it was -/
theorem alloc_fresh {st : HState α} (hp : PoolOK st) {op : HOp α} {p : MPoly α} (h : act st op = .alloc p) :
    (hstep st op).pool = st.pool ++ [st.heap.length] ∧ st.heap.length ∉ st.pool ∧
      (hstep st op).heap[st.heap.length]? = some { data := p, hashed := false } ∧
      ∀ a, a < st.heap.length → (hstep st op).heap[a]? = st.heap[a]? := by
  refine ⟨?_, ?_, ?_, ?_⟩
  · unfold hstep; rw [h]; rfl
  · intro hm; exact Nat.lt_irrefl _ (hp _ hm)
  · unfold hstep; rw [h]; simp [apply]
  · intro a ha
    unfold hstep; rw [h]; simp only [apply]
    exact List.getElem?_append_left ha

/-- `obj` of a variable after a step that allocates -/
theorem obj_after_alloc {st : HState α} (hp : PoolOK st) {op : HOp α} {p : MPoly α}
    (h : act st op = .alloc p) :
    (hstep st op).obj st.pool.length = some (st.heap.length, { data := p, hashed := false }) ∧
      ∀ i, i < st.pool.length → (hstep st op).obj i = st.obj i := by
  obtain ⟨h1, _, h3, h4⟩ := alloc_fresh hp h
  constructor
  · unfold HState.obj
    rw [h1]
    simp [h3]
  · intro i hi
    unfold HState.obj
    rw [pool_frame st op hi]
    cases hpi : st.pool[i]? with
    | none => rfl
    | some a =>
      have : a < st.heap.length := hp _ (List.mem_of_getElem? hpi)
      simp only [h4 a this]

/-! ### `p[k] = c` is the point update of the coefficient function -/

theorem find?_del {p : MPoly α} (hn : (keys p).Nodup) (k k' : Int) :
    find? (del p k) k' = if k = k' then none else find? p k' := by
  induction p with
  | nil => simp [del]
  | cons a t ih =>
    obtain ⟨k0, v0⟩ := a
    simp only [keys_cons, List.nodup_cons] at hn
    by_cases h : k0 = k
    · subst h
      simp only [del, if_true, find?_cons]
      by_cases h1 : k0 = k'
      · subst h1; simp only [if_true]; exact find?_eq_none.2 hn.1
      · simp [h1]
    · simp only [del, h, if_false, find?_cons, ih hn.2]
      by_cases h1 : k0 = k'
      · have : k ≠ k' := fun e => h (h1.trans e.symm)
        simp [h1, this]
      · simp [h1]

/-- **the specification of `__setitem__`**: afterwards `p[k]` is `c` and every other coefficient is
    what it was — also for `c = 0` (the term is removed, not stored) -/
theorem getD_setItem {p : MPoly α} (hp : WF p) (k : Int) (c : α) (k' : Int) :
    getD (setItem p k c) k' = if k' = k then c else getD p k' := by
  unfold setItem getD
  by_cases hc : c = 0
  · subst hc
    simp only [ne_eq, not_true_eq_false, if_false]
    by_cases hh : has p k = true
    · simp only [hh, if_true, find?_del hp.1]
      by_cases h1 : k = k'
      · subst h1; simp
      · have : ¬ k' = k := fun e => h1 e.symm
        simp [h1, this]
    · simp only [hh]
      by_cases h1 : k' = k
      · subst h1
        have : find? p k' = none := by
          rw [find?_eq_none]; intro hm; exact hh (has_iff.2 hm)
        simp [this]
      · simp [h1]
  · simp only [ne_eq, hc, not_false_eq_true, if_true, find?_set]
    by_cases h1 : k = k'
    · subst h1; simp
    · have : ¬ k' = k := fun e => h1 e.symm
      simp [h1, this]

/-- assigning zero never stores a term -/
theorem setItem_zero_not_mem {p : MPoly α} (hp : WF p) (k : Int) : k ∉ keys (setItem p k 0) := by
  intro hm
  have hw := wf_setItem hp k (0 : α)
  obtain ⟨kv, hkv, hk⟩ := List.mem_map.1 hm
  have h1 := find?_of_mem hw.1 (k := kv.1) (v := kv.2) hkv
  have h2 := getD_setItem hp k (0 : α) k
  unfold getD at h2
  rw [hk] at h1
  rw [h1] at h2
  simp only [Option.getD_some, if_true] at h2
  exact hw.2 kv hkv h2

/-! ### mutation of a result / of an operand afterwards -/

theorem length_heap_alloc {st : HState α} {op : HOp α} {p : MPoly α} (h : act st op = .alloc p) :
    (hstep st op).heap.length = st.heap.length + 1 := by
  unfold hstep; rw [h]; simp [apply]

/-- after `r = op(…)` (a new object), `r[k] = c` changes no object that existed before the operation,
    and `v[k] = c` on any earlier variable `v` does not change `r` -/
theorem mutation_isolated {st : HState α} (hp : PoolOK st) {op : HOp α} {p : MPoly α}
    (h : act st op = .alloc p) (k : Int) (c : α) :
    (∀ a, a < st.heap.length →
        (hstep (hstep st op) (.setitem st.pool.length k c)).heap[a]? = st.heap[a]?) ∧
    (∀ i, i < st.pool.length →
        (hstep (hstep st op) (.setitem i k c)).heap[st.heap.length]? = some { data := p, hashed := false }) := by
  obtain ⟨_, _, h3, h4⟩ := alloc_fresh hp h
  obtain ⟨o1, o2⟩ := obj_after_alloc hp h
  have hl := length_heap_alloc h
  constructor
  · intro a ha
    rw [heap_frame (hstep st op) _ (by omega), h4 a ha]
    simp only [target, o1, Option.map_some]
    intro e
    simp only [Option.some.injEq] at e
    omega
  · intro i hi
    rw [heap_frame (hstep st op) _ (by omega), h3]
    simp only [target, o2 i hi]
    cases hoi : st.obj i with
    | none => simp
    | some ao =>
      obtain ⟨a, o⟩ := ao
      have := (obj_mem hoi).2.1
      simp only [Option.map_some, ne_eq, Option.some.injEq]
      omega

/-- a step is a function of the current contents of the variables (and of the caller's containers): two
    states in which every variable denotes the same object contents answer every step alike -/
theorem act_congr {st st' : HState α} (h : ∀ i, st.obj i = st'.obj i) (hs : st.srcs = st'.srcs)
    (op : HOp α) : act st op = act st' op := by
  cases op <;> simp only [act, h, hs]

theorem fail_changes_nothing {st : HState α} {op : HOp α} {e : PyErr} (h : act st op = .fail e) :
    hstep st op = st := by
  unfold hstep; rw [h]; rfl

theorem setitem_hashed_fails {st : HState α} {i a : Nat} {o : Obj α} (ho : st.obj i = some (a, o))
    (hh : o.hashed = true) (k : Int) (c : α) :
    act st (.setitem i k c) = .fail .type ∧ act st (.setzero i) = .fail .type := by
  simp [act, ho, hh]

end Arith
end ALV.C07
