/-
  C01 — helper lemmas: the iterator model (`Iter.step`, `Iter.run`) refines the pointwise reading
  (`Iter.get`, `Iter.len`), and the evaluation of Python-level expressions with a class whose
  dunders agree with the specification table refines `Py.at` / `Py.len`.  Core Lean only.
-/
import ALV.Spec.C01
namespace ALV.C01

/-! ### lengths -/

def Len.succ : Len → Len
  | .fin n => .fin (n + 1)
  | .inf => .inf

@[simp] theorem Len.gt_inf (i : Nat) : Len.inf.gt i = true := rfl
@[simp] theorem Len.gt_fin (n i : Nat) : (Len.fin n).gt i = decide (i < n) := rfl

theorem getElem?_isSome {α} (xs : List α) (i : Nat) : xs[i]?.isSome = decide (i < xs.length) := by
  by_cases h : i < xs.length
  · simp [h]
  · simp [h]

theorem Len.gt_min (a b : Len) (i : Nat) : (a.min b).gt i = (a.gt i && b.gt i) := by
  cases a <;> cases b <;> simp [Len.min, Len.gt, Nat.lt_min]

@[simp] theorem Len.min_inf (a : Len) : a.min .inf = a := by cases a <;> rfl
@[simp] theorem Len.inf_min (a : Len) : Len.inf.min a = a := by cases a <;> rfl
@[simp] theorem Len.zero_add (a : Len) : (Len.fin 0).add a = a := by cases a <;> simp [Len.add]
@[simp] theorem Len.inf_add (a : Len) : Len.inf.add a = .inf := by cases a <;> rfl
@[simp] theorem Len.add_inf (a : Len) : a.add .inf = .inf := by cases a <;> rfl

theorem Len.succ_add (a b : Len) : a.succ.add b = (a.add b).succ := by
  cases a <;> cases b <;> simp [Len.add, Len.succ]; omega

theorem Len.succ_min (a b : Len) : a.succ.min b.succ = (a.min b).succ := by
  cases a <;> cases b <;> simp [Len.min, Len.succ, Nat.succ_min_succ]

theorem Len.gt_succ (a : Len) (i : Nat) : a.succ.gt (i + 1) = a.gt i := by
  cases a <;> simp [Len.succ]

theorem Len.eq_zero_of_not_gt {a : Len} (h : a.gt 0 = false) : a = .fin 0 := by
  cases a with
  | inf => simp at h
  | fin n => simp at h; simp [h]

/-! ### `get` is defined exactly below `len` -/

theorem Iter.get_isSome (e : Iter) : ∀ i, (e.get i).isSome = e.len.gt i := by
  induction e with
  | list t xs => intro i; simp [Iter.get, Iter.len, getElem?_isSome]
  | rep c => intro i; simp [Iter.get, Iter.len]
  | cycle cur all =>
    intro i
    cases all with
    | nil =>
      simp only [Iter.get, Iter.len, Len.gt_fin]
      by_cases h : i < cur.length <;> simp [h]
    | cons x r =>
      simp only [Iter.get, Iter.len, Len.gt_inf]
      by_cases h : i < cur.length
      · simp [h]
      · simp only [h, if_false]
        have : (i - cur.length) % (x :: r).length < (x :: r).length := Nat.mod_lt _ (by simp)
        simpa [getElem?_isSome] using this
  | chain a b iha ihb =>
    intro i
    simp only [Iter.get, Iter.len, chainAt]
    cases hl : a.len with
    | inf => simp [iha, hl]
    | fin L =>
      by_cases h : i < L
      · simp only [h, if_true, iha, hl]
        cases b.len <;> simp [Len.add, h]; omega
      · simp only [h, if_false, ihb]
        cases b.len <;> simp [Len.add]; omega
  | mapc g f pre post a ih => intro i; simp [Iter.get, Iter.len, ih]
  | dead a _ => intro i; simp [Iter.get, Iter.len]
  | map2 f a b iha ihb =>
    intro i
    simp only [Iter.get, Iter.len, Len.gt_min, ← iha, ← ihb]
    cases a.get i <;> cases b.get i <;> simp

theorem Iter.get_eq_none_of_len_zero {e : Iter} (h : e.get 0 = none) (i : Nat) : e.get i = none := by
  have h0 : e.len.gt 0 = false := by rw [← Iter.get_isSome, h]; rfl
  have hl := Len.eq_zero_of_not_gt h0
  have : (e.get i).isSome = false := by rw [Iter.get_isSome, hl]; simp
  cases hg : e.get i <;> simp_all

/-! ### one `next` -/

/-- what one call of `next` does, in terms of the pointwise reading -/
structure StepOK (e : Iter) : Prop where
  head : e.step.1 = e.get 0
  tail : ∀ x, e.step.1 = some x → (∀ i, e.step.2.get i = e.get (i + 1)) ∧ e.len = e.step.2.len.succ

theorem Iter.len_zero_of_step_none {e : Iter} (h : StepOK e) (hn : e.step.1 = none) : e.len = .fin 0 := by
  have h0 : e.get 0 = none := by rw [← h.head, hn]
  have : e.len.gt 0 = false := by rw [← Iter.get_isSome, h0]; rfl
  exact Len.eq_zero_of_not_gt this

theorem Iter.stepOK (e : Iter) : StepOK e := by
  induction e with
  | list t xs =>
    cases xs with
    | nil => exact ⟨rfl, fun x h => by simp [Iter.step] at h⟩
    | cons y ys =>
      refine ⟨by simp [Iter.step, Iter.get], fun x _ => ⟨fun i => by simp [Iter.step, Iter.get], ?_⟩⟩
      simp [Iter.step, Iter.len, Len.succ]
  | rep c => exact ⟨rfl, fun x _ => ⟨fun i => rfl, rfl⟩⟩
  | cycle cur all =>
    cases cur with
    | cons y ys =>
      refine ⟨by simp [Iter.step, Iter.get], fun x _ => ⟨fun i => ?_, ?_⟩⟩
      · simp only [Iter.step, Iter.get, List.length_cons]
        by_cases h : i < ys.length
        · simp [h]
        · have h' : ¬ (i + 1 < ys.length + 1) := by omega
          simp only [h, h', if_false]
          congr 2; omega
      · cases all <;> simp [Iter.step, Iter.len, Len.succ]
    | nil =>
      cases all with
      | nil => exact ⟨rfl, fun x h => by simp [Iter.step] at h⟩
      | cons y ys =>
        refine ⟨by simp [Iter.step, Iter.get], fun x _ => ⟨fun i => ?_, by simp [Iter.step, Iter.len, Len.succ]⟩⟩
        simp only [Iter.step, Iter.get, List.length_cons, List.length_nil, Nat.not_lt_zero, if_false, Nat.sub_zero]
        by_cases h : i < ys.length
        · have h1 : (i + 1) % (ys.length + 1) = i + 1 := Nat.mod_eq_of_lt (by omega)
          simp [h, h1]
        · simp only [h, if_false]
          have h2 : i + 1 = (i - ys.length) + (ys.length + 1) := by omega
          rw [h2, Nat.add_mod_right]
  | chain a b iha ihb =>
    cases hs : a.step with
    | mk o a' =>
      cases o with
      | some x =>
        have hh := iha.head; rw [hs] at hh
        have ht := iha.tail x (by rw [hs]); rw [hs] at ht
        obtain ⟨htg, htl⟩ := ht
        simp only at hh htg htl
        have hstep : (Iter.chain a b).step = (some x, Iter.chain a' b) := by simp [Iter.step, hs]
        refine ⟨?_, fun y _ => ⟨fun i => ?_, ?_⟩⟩
        · rw [hstep]
          simp only [Iter.get, chainAt, htl]
          cases a'.len <;> simp [Len.succ, hh]
        · rw [hstep]
          simp only [Iter.get, chainAt, htl]
          cases a'.len with
          | inf => simp [Len.succ, htg]
          | fin L =>
            simp only [Len.succ]
            by_cases h : i < L
            · have h' : i + 1 < L + 1 := by omega
              simp [h, h', htg]
            · have h' : ¬ (i + 1 < L + 1) := by omega
              simp only [h, h', if_false]
              congr 1; omega
        · rw [hstep]; simp only [Iter.len, htl, Len.succ_add]
      | none =>
        have hl : a.len = .fin 0 := Iter.len_zero_of_step_none iha (by rw [hs])
        have hstep : (Iter.chain a b).step = b.step := by simp [Iter.step, hs]
        have hget : ∀ i, (Iter.chain a b).get i = b.get i := by
          intro i; simp [Iter.get, chainAt, hl]
        have hlen : (Iter.chain a b).len = b.len := by simp [Iter.len, hl]
        refine ⟨?_, fun y hy => ?_⟩
        · rw [hstep, hget]; exact ihb.head
        · rw [hstep] at hy ⊢
          obtain ⟨h1, h2⟩ := ihb.tail y hy
          exact ⟨fun i => by rw [h1, hget], by rw [hlen, h2]⟩
  | dead a _ => exact ⟨rfl, fun x h => by simp [Iter.step] at h⟩
  | mapc g f pre post a ih =>
    cases hs : a.step with
    | mk o a' =>
      have hh := ih.head; rw [hs] at hh
      cases o with
      | none =>
        refine ⟨?_, fun y hy => ?_⟩
        · simp only [Iter.step, hs, Iter.get, ← hh]; rfl
        · simp [Iter.step, hs] at hy
      | some x =>
        obtain ⟨htg, htl⟩ := ih.tail x (by rw [hs])
        rw [hs] at htg htl
        simp only at hh htg htl
        refine ⟨?_, fun y _ => ⟨fun i => ?_, ?_⟩⟩
        · simp only [Iter.step, hs, Iter.get, ← hh]; rfl
        · simp only [Iter.step, hs, Iter.get, htg]
        · simp only [Iter.step, hs, Iter.len, htl]
  | map2 f a b iha ihb =>
    cases hsa : a.step with
    | mk oa a' =>
      have hha := iha.head; rw [hsa] at hha
      cases oa with
      | none =>
        refine ⟨?_, fun y hy => ?_⟩
        · simp only [Iter.step, hsa, Iter.get, ← hha]
        · simp [Iter.step, hsa] at hy
      | some x =>
        obtain ⟨htga, htla⟩ := iha.tail x (by rw [hsa])
        rw [hsa] at htga htla
        cases hsb : b.step with
        | mk ob b' =>
          have hhb := ihb.head; rw [hsb] at hhb
          cases ob with
          | none =>
            refine ⟨?_, fun y hy => ?_⟩
            · simp only [Iter.step, hsa, hsb, Iter.get, ← hha, ← hhb]
            · simp [Iter.step, hsa, hsb] at hy
          | some z =>
            obtain ⟨htgb, htlb⟩ := ihb.tail z (by rw [hsb])
            rw [hsb] at htgb htlb
            simp only at hha hhb htga htla htgb htlb
            refine ⟨?_, fun y _ => ⟨fun i => ?_, ?_⟩⟩
            · simp only [Iter.step, hsa, hsb, Iter.get, ← hha, ← hhb]
            · simp only [Iter.step, hsa, hsb, Iter.get, htga, htgb]
            · simp only [Iter.step, hsa, hsb, Iter.len, htla, htlb, Len.succ_min]

/-! ### `run` (= `take(n)` / `list(...)`) -/

theorem Iter.run_zero (e : Iter) : e.run 0 = [] := rfl

theorem Iter.run_succ (n : Nat) (e : Iter) :
    e.run (n + 1) = match e.step.1 with
      | none => []
      | some x => x :: e.step.2.run n := by
  cases hs : e.step with
  | mk o e' => cases o <;> simp [Iter.run, Iter.runS, hs]

theorem Iter.run_getElem? : ∀ (n : Nat) (e : Iter) (i : Nat),
    (e.run n)[i]? = if i < n then e.get i else none := by
  intro n
  induction n with
  | zero => intro e i; simp [Iter.run_zero]
  | succ n ih =>
    intro e i
    have hok := Iter.stepOK e
    rw [Iter.run_succ]
    cases ho : e.step.1 with
    | none =>
      have h0 : e.get 0 = none := by rw [← hok.head, ho]
      simp [Iter.get_eq_none_of_len_zero h0 i]
    | some x =>
      obtain ⟨hg, _⟩ := hok.tail x ho
      cases i with
      | zero => simp [← hok.head, ho]
      | succ j => simp [ih, hg]

theorem Iter.run_length : ∀ (n : Nat) (e : Iter),
    Len.fin (e.run n).length = (Len.fin n).min e.len := by
  intro n
  induction n with
  | zero => intro e; cases e.len <;> simp [Iter.run_zero, Len.min]
  | succ n ih =>
    intro e
    have hok := Iter.stepOK e
    rw [Iter.run_succ]
    cases ho : e.step.1 with
    | none =>
      have hl := Iter.len_zero_of_step_none hok ho
      simp [hl, Len.min]
    | some x =>
      obtain ⟨_, hl⟩ := hok.tail x ho
      have := ih e.step.2
      simp only [List.length_cons, hl]
      rw [show Len.fin (n + 1) = (Len.fin n).succ from rfl, Len.succ_min, ← this]
      rfl

end ALV.C01
