/-
  C12 — helper lemmas, part 5: histories of list operations and uses of mutable banks.
  A use reads the snapshot of the bank at that moment and leaves the heap alone; model and
  specification agree on every step of every history.
-/
import ALV.Lemmas.C12Bank
import ALV.Lemmas.C12Time

set_option linter.unusedSectionVars false
set_option linter.unusedSimpArgs false

namespace ALV.C12

section anyType
variable {α : Type} [Add α] [Mul α] [Sub α] [Neg α] [Div α] [OfNat α 0] [OfNat α 1] [DecidableEq α]
variable {φ : Type}

/-- a use never changes the heap -/
theorem stepH_use_heap (pt : φ → α) (R : α → Bank α → Resp α) (fir : List α → List α → List α)
    (heap : List (Obj α)) (t : Nat) (q : Query φ α) :
    (stepH pt R fir heap (.use t q)).1 = heap := rfl

/-- a list operation changes the heap in the same way whatever evaluator the uses have -/
theorem stepH_heap_indep (pt : φ → α) (R R' : α → Bank α → Resp α)
    (fir fir' : List α → List α → List α) (heap : List (Obj α)) (op : HOp φ α) :
    (stepH pt R fir heap op).1 = (stepH pt R' fir' heap op).1 := by
  cases op with
  | use t q => rfl
  | upd t op => rfl

def HOp.isMut : HOp φ α → Bool
  | .upd _ _ => true
  | .use _ _ => false

/-- the heap after a history is the heap after its list operations alone -/
theorem finalHeap_filter (pt : φ → α) (R : α → Bank α → Resp α) (fir : List α → List α → List α)
    (heap : List (Obj α)) (ops : List (HOp φ α)) :
    finalHeap pt R fir heap ops = finalHeap pt R fir heap (ops.filter HOp.isMut) := by
  induction ops generalizing heap with
  | nil => rfl
  | cons op ops ih =>
    cases op with
    | use t q => simpa [finalHeap, HOp.isMut, List.filter, stepH] using ih heap
    | upd t o => simp only [finalHeap, HOp.isMut, List.filter]; exact ih _

/-- the observations of `ops` followed by one more step -/
theorem runH_append (pt : φ → α) (R : α → Bank α → Resp α) (fir : List α → List α → List α)
    (heap : List (Obj α)) (ops : List (HOp φ α)) (op : HOp φ α) :
    runH pt R fir heap (ops ++ [op])
      = runH pt R fir heap ops ++ [(stepH pt R fir (finalHeap pt R fir heap ops) op).2] := by
  induction ops generalizing heap with
  | nil => simp [runH, finalHeap]
  | cons o ops ih => simp [runH, finalHeap, ih]

/-- the answer of a use is a function of the snapshot alone -/
theorem answer_of_snap (pt : φ → α) (R : α → Bank α → Resp α) (fir : List α → List α → List α)
    (h₁ h₂ : List (Obj α)) (t₁ t₂ : Nat) (q : Query φ α)
    (hs : snap h₁ (h₁.length + 1) t₁ = snap h₂ (h₂.length + 1) t₂) :
    answer pt R fir h₁ t₁ q = answer pt R fir h₂ t₂ q := by
  unfold answer
  rw [hs]

end anyType

section field
variable {K : Type} [Field K] [DecidableEq K] {φ : Type}

theorem firRun_eq_firSpec_fun : (firRun : List K → List K → List K) = firSpec := by
  funext b xs
  exact firRun_eq_firSpec b xs

/-- every use of every tree: as coded = as specified, at non-zero points -/
theorem answerTree_eq_spec (pt : φ → K) (hpt : ∀ f, pt f ≠ 0) (tree : Bank K) (q : Query φ K) :
    answerTree pt (fun w t => Bank.resp w t) firRun tree q
      = answerTree pt (fun w t => Bank.spec w t) firSpec tree q := by
  cases q with
  | freq fs => simp only [answerTree, Bank.resp_eq_spec _ (hpt _)]
  | polys fs => simp only [answerTree, Bank.resp_eq_spec _ (hpt _)]
  | isLti => rfl
  | call xs => simp only [answerTree, firRun_eq_firSpec_fun]

theorem stepH_eq_spec (pt : φ → K) (hpt : ∀ f, pt f ≠ 0) (heap : List (Obj K)) (op : HOp φ K) :
    stepH pt (fun w t => Bank.resp w t) firRun heap op
      = stepH pt (fun w t => Bank.spec w t) firSpec heap op := by
  cases op with
  | upd t o => rfl
  | use t q =>
    simp only [stepH, answer]
    cases snap heap (heap.length + 1) t with
    | none => rfl
    | some tree => simp only [answerTree_eq_spec pt hpt]

theorem histModel_eq_histSpec (pt : φ → K) (hpt : ∀ f, pt f ≠ 0) (heap : List (Obj K))
    (ops : List (HOp φ K)) : histModel pt heap ops = histSpec pt heap ops := by
  unfold histModel histSpec
  induction ops generalizing heap with
  | nil => rfl
  | cons op ops ih => simp only [runH, stepH_eq_spec pt hpt, ih]

end field
end ALV.C12
