/-
  C05 — the system-algebra laws on finite input lists (`apply` = C04's difference equation),
  derived from the laws of the response to the input continued by zeros.
-/
import ALV.Lemmas.C05Laws
import ALV.Lemmas.C05Normal

set_option linter.unusedSectionVars false
set_option linter.unusedSimpArgs false

open PowerSeries

namespace ALV.C05
open ALV.C07
variable {K : Type} [Field K] [DecidableEq K]

theorem apply_getElem (f : ZF K) (xs : List K) (i : ℕ) (h : i < (apply f xs).length) :
    (apply f xs)[i] = resp f (ext xs) i := by
  have := apply_eq_resp f xs
  simp only [this, List.getElem_map, List.getElem_range]

theorem apply_congr {f g : ZF K} (hf : Causal f) (hg : Causal g) (h : val f = val g) (xs : List K) :
    apply f xs = apply g xs := by
  rw [apply_eq_resp, apply_eq_resp, resp_congr_val hf hg h]

theorem apply_add {f g h : ZF K} (hf : Causal f) (hg : Causal g) (hh : Causal h) (e : val h = val f + val g)
    (xs : List K) : apply h xs = addSig (apply f xs) (apply g xs) := by
  apply List.ext_getElem
  · simp [addSig, apply_length]
  · intro i h1 h2
    simp only [addSig, List.getElem_zipWith, apply_getElem]
    exact resp_add hf hg hh e _ i

theorem apply_mul {f g h : ZF K} (hf : Causal f) (hg : Causal g) (hh : Causal h) (e : val h = val f * val g)
    (xs : List K) : apply h xs = apply f (apply g xs) := by
  apply List.ext_getElem
  · simp [apply_length]
  · intro i h1 h2
    have hi : i < xs.length := by simpa [apply_length] using h1
    rw [apply_getElem, apply_getElem, resp_mul hf hg hh e]
    apply resp_congr
    intro j hj
    rw [apply_eq_resp g xs, ext_map_range _ _ (by omega)]

/-- the constant filter `c` (numerator `ZFilter([c])`'s polynomial over the denominator 1) -/
theorem resp_const {s : ZF K} (hs : Causal s) (c : K) (e : val s = ι (LaurentPolynomial.C c)) (x : ℕ → K) (n : ℕ) :
    resp s x n = c * x n := by
  have e' : val s = ι (Polynomial.toLaurent (Polynomial.C c)) := by rw [Polynomial.toLaurent_C]; exact e
  rw [resp_poly hs _ e', Polynomial.coe_C, PowerSeries.coeff_C_mul, PowerSeries.coeff_mk]

theorem apply_scale {f h s : ZF K} (hf : Causal f) (hh : Causal h) (hs : Causal s) (c : K)
    (es : val s = ι (LaurentPolynomial.C c)) (e : val h = val f * ι (LaurentPolynomial.C c)) (xs : List K) :
    apply h xs = scaleSig c (apply f xs) := by
  apply List.ext_getElem
  · simp [scaleSig, apply_length]
  · intro i h1 h2
    simp only [scaleSig, List.getElem_map, apply_getElem]
    rw [resp_mul hs hf hh (by rw [e, es, mul_comm]), resp_const hs c es]

theorem apply_one {h : ZF K} (hh : Causal h) (e : val h = 1) (xs : List K) : apply h xs = xs := by
  apply List.ext_getElem
  · simp [apply_length]
  · intro i h1 h2
    rw [apply_getElem]
    have e' : val h = ι (LaurentPolynomial.C (1 : K)) := by rw [e, map_one, map_one]
    rw [resp_const hh 1 e', one_mul]
    simp [ext, List.getD_eq_getElem?_getD, List.getElem?_eq_getElem h2]

/-- `z⁻ᵏ` delays by `k` samples -/
theorem apply_delay {h : ZF K} (hh : Causal h) (k : ℕ) (e : val h = ι (LaurentPolynomial.T (k : ℤ))) (xs : List K) :
    apply h xs = delay k xs := by
  have e' : val h = ι (Polynomial.toLaurent ((Polynomial.X : Polynomial K) ^ k)) := by
    rw [Polynomial.toLaurent_X_pow]; exact e
  apply List.ext_getElem
  · simp [delay, apply_length]
  · intro i h1 h2
    have hi : i < xs.length := by simpa [apply_length] using h1
    rw [apply_getElem, resp_poly hh _ e', Polynomial.coe_pow, Polynomial.coe_X, PowerSeries.coeff_X_pow_mul']
    simp only [delay, List.getElem_take, PowerSeries.coeff_mk]
    by_cases hk : k ≤ i
    · rw [if_pos hk, List.getElem_append_right (by simpa using hk)]
      simp [ext, List.getD_eq_getElem?_getD, List.getElem?_eq_getElem (show i - k < xs.length by omega)]
    · rw [if_neg hk, List.getElem_append_left (by simpa using not_le.1 hk)]
      simp

theorem apply_const {s : ZF K} (hs : Causal s) (c : K) (e : val s = ι (LaurentPolynomial.C c)) (xs : List K) :
    apply s xs = scaleSig c xs := by
  apply List.ext_getElem
  · simp [scaleSig, apply_length]
  · intro i h1 h2
    have hi : i < xs.length := by simpa [apply_length] using h1
    rw [apply_getElem, resp_const hs c e]
    simp [scaleSig, ext, List.getD_eq_getElem?_getD, List.getElem?_eq_getElem hi]

theorem den_causal {r : Except PyErr (ZF K)} {v : Q K} (h1 : Den r v) (h2 : ∃ h, r = .ok h ∧ Causal h) :
    ∃ h, r = .ok h ∧ Causal h ∧ val h = v := by
  obtain ⟨h, e, _, ev⟩ := h1
  obtain ⟨h', e', hc⟩ := h2
  obtain rfl : h = h' := by rw [e] at e'; exact Except.ok.inj e'
  exact ⟨h, e, hc, ev⟩

/-! ### every operator ends in the constructor: normalised denominators -/

theorem mul_normal {f g h : ZF K} (e : mul f g = .ok h) : IsPoly h.den ∧ C07.coeff h.den 0 ≠ 0 :=
  ofPolys_normal (wf_mul _ _) (wf_mul _ _) e

theorem truediv_normal {f g h : ZF K} (e : truediv f g = .ok h) : IsPoly h.den ∧ C07.coeff h.den 0 ≠ 0 :=
  ofPolys_normal (wf_mul _ _) (wf_mul _ _) e

theorem pow_normal {f h : ZF K} (hf : Valid f) (n : ℤ) (e : pow f n = .ok h) :
    IsPoly h.den ∧ C07.coeff h.den 0 ≠ 0 := by
  unfold pow at e
  split at e
  · cases hr : ofPolys f.den f.num with
    | error err => rw [hr] at e; cases e
    | ok r =>
      rw [hr] at e
      have hrv : WF r.num ∧ WF r.den := by
        by_cases h0 : f.num = []
        · rw [h0] at hr
          unfold ofPolys at hr
          simp [C07.mk, ofPairs, compact, C04.minKey] at hr
        · obtain ⟨r', _, hok, hv, _, _⟩ := ofPolys_spec hf.2.1 hf.1 h0
          rw [hr] at hok
          obtain rfl := Except.ok.inj hok
          exact ⟨hv.1, hv.2.1⟩
      exact ofPolys_normal (wf_pow hrv.1 _) (wf_pow hrv.2 _) e
  · exact ofPolys_normal (wf_pow hf.1 _) (wf_pow hf.2.1 _) e

/-- the explicit delay filter `z⁻ᵏ / 1` -/
theorem causal_delay (k : ℕ) : Causal (⟨[((k : ℤ), (1 : K))], [((0 : ℤ), (1 : K))]⟩ : ZF K) ∧
    val (⟨[((k : ℤ), (1 : K))], [((0 : ℤ), (1 : K))]⟩ : ZF K) = ι (LaurentPolynomial.T (k : ℤ)) := by
  have w1 : WF ([((k : ℤ), (1 : K))] : MPoly K) := ⟨by simp [keys], by simp⟩
  have w0 : WF ([((0 : ℤ), (1 : K))] : MPoly K) := ⟨by simp [keys], by simp⟩
  refine ⟨⟨⟨w1, w0, by simp⟩, ?_, ?_, ?_⟩, ?_⟩
  · intro kv hkv; simp at hkv; rw [hkv]; simp
  · intro kv hkv; simp at hkv; rw [hkv]
  · simp [C07.coeff]
  · unfold val N D
    simp only [toLaurent_cons, toLaurent_nil, add_zero]
    have : (AddMonoidAlgebra.single (0 : ℤ) (1 : K) : LaurentPolynomial K) = 1 := rfl
    rw [this, map_one, div_one]
    rfl

/-! ### cascade and parallel -/

theorem cascadeCall_eq (fs : List (ZF K)) (hc : ∀ f ∈ fs, Causal f) (xs : List K) :
    cascadeCall fs xs = .ok (cascadeApply fs xs) := by
  unfold cascadeCall cascadeApply
  induction fs generalizing xs with
  | nil => rfl
  | cons f t ih =>
    rw [List.foldlM_cons, call_eq_apply (hc f List.mem_cons_self)]
    exact ih (fun g hg => hc g (List.mem_cons_of_mem _ hg)) (apply f xs)

/-- the running product `((f0·g1)·g2)…` is causal and acts as the cascade `f0` first, then `g1`, … -/
theorem foldlM_mul_spec (t : List (ZF K)) (hc : ∀ f ∈ t, Causal f) {f0 : ZF K} (h0 : Causal f0) :
    ∃ h, t.foldlM mul f0 = .ok h ∧ Causal h ∧ val h = val f0 * (t.map val).prod ∧
      ∀ xs, apply h xs = t.foldl (fun d f => apply f d) (apply f0 xs) := by
  induction t generalizing f0 with
  | nil => exact ⟨f0, rfl, h0, by simp, fun _ => rfl⟩
  | cons g t ih =>
    have hg := hc g List.mem_cons_self
    obtain ⟨h1, e1, c1, v1⟩ := den_causal (mul_den h0.1 hg.1) (mul_causal h0 hg)
    obtain ⟨h, e, c, v, a⟩ := ih (fun f hf => hc f (List.mem_cons_of_mem _ hf)) c1
    refine ⟨h, by rw [List.foldlM_cons, e1]; exact e, c, by rw [v, v1]; simp [mul_assoc], fun xs => ?_⟩
    rw [a xs, apply_mul hg h0 c1 (by rw [v1, mul_comm])]
    rfl

theorem addSig_length (a b : List K) : (addSig a b).length = min a.length b.length := by
  simp [addSig]

/-- the running sum `((f0+g1)+g2)…` (with the shortcut of `__add__` wherever it fires) is causal
and its output is the sum of the outputs -/
theorem foldlM_add_spec (t : List (ZF K)) (hc : ∀ f ∈ t, Causal f) {f0 : ZF K} (h0 : Causal f0) :
    ∃ h, t.foldlM add f0 = .ok h ∧ Causal h ∧ val h = val f0 + (t.map val).sum ∧
      ∀ xs, apply h xs = t.foldl (fun acc g => addSig acc (apply g xs)) (apply f0 xs) := by
  induction t generalizing f0 with
  | nil => exact ⟨f0, rfl, h0, by simp, fun _ => rfl⟩
  | cons g t ih =>
    have hg := hc g List.mem_cons_self
    obtain ⟨h1, e1, c1, v1⟩ := den_causal (add_den h0.1 hg.1) (add_causal h0 hg)
    obtain ⟨h, e, c, v, a⟩ := ih (fun f hf => hc f (List.mem_cons_of_mem _ hf)) c1
    refine ⟨h, by rw [List.foldlM_cons, e1]; exact e, c, by rw [v, v1]; simp [add_assoc], fun xs => ?_⟩
    rw [a xs, apply_add h0 hg c1 v1]
    rfl

theorem parallelFold_eq (t : List (ZF K)) (hc : ∀ f ∈ t, Causal f) (xs y : List K) :
    t.foldlM (fun acc g => do
      let yg ← call g xs
      pure (addSig acc yg)) y = Except.ok (t.foldl (fun acc g => addSig acc (apply g xs)) y) := by
  induction t generalizing y with
  | nil => rfl
  | cons g t ih =>
    rw [List.foldlM_cons, call_eq_apply (hc g List.mem_cons_self)]
    exact ih (fun f hf => hc f (List.mem_cons_of_mem _ hf)) _

theorem addSig_zeros (xs ys : List K) (h : ys.length = xs.length) : addSig (xs.map fun _ => (0 : K)) ys = ys := by
  apply List.ext_getElem
  · simp [addSig, h]
  · intro i h1 h2
    simp [addSig]

theorem parallelApply_cons (f : ZF K) (t : List (ZF K)) (xs : List K) :
    parallelApply (f :: t) xs = t.foldl (fun acc g => addSig acc (apply g xs)) (apply f xs) := by
  unfold parallelApply
  rw [List.foldl_cons, addSig_zeros xs _ (apply_length f xs)]

/-! ### ParallelFilter.denpoly as coded: right as long as `__add__` never takes its shortcut -/

/-- what the constructor guarantees of every filter object: valid, denominator a polynomial in
`z⁻¹` with non-zero constant term -/
def Norm (f : ZF K) : Prop := Valid f ∧ IsPoly f.den ∧ C07.coeff f.den 0 ≠ 0

/-- no step of `reduce(operator.add, [f0] + t)` finds equal denominators -/
def NoShortcut : ZF K → List (ZF K) → Prop
  | _, [] => True
  | f0, g :: t => C07.eq f0.den g.den = false ∧ ∀ h, add f0 g = .ok h → NoShortcut h t

theorem foldlM_add_den (t : List (ZF K)) : ∀ (f0 : ZF K), Norm f0 → (∀ g ∈ t, Norm g) → NoShortcut f0 t →
    ∃ h, t.foldlM add f0 = .ok h ∧ Norm h ∧ h.den = t.foldl (fun acc g => C07.mul acc g.den) f0.den := by
  induction t with
  | nil => intro f0 h0 _ _; exact ⟨f0, rfl, h0, rfl⟩
  | cons g t ih =>
    intro f0 h0 hgs hns
    obtain ⟨hne, hrest⟩ := hns
    have hg := hgs g List.mem_cons_self
    have hd0 : C07.coeff (C07.mul f0.den g.den) 0 ≠ 0 := by
      rw [coeff_mul_zero h0.2.1 hg.2.1 h0.1.2.1.1 hg.1.2.1.1]; exact mul_ne_zero h0.2.2 hg.2.2
    have hadd : add f0 g = .ok ⟨C07.add (C07.mul f0.num g.den) (C07.mul g.num f0.den), C07.mul f0.den g.den⟩ := by
      unfold add
      rw [if_neg (by rw [hne]; simp)]
      exact ofPolys_causal (wf_add _ _) (wf_mul _ _) (isPoly_mul h0.2.1 hg.2.1) hd0
    have hnorm : Norm (⟨C07.add (C07.mul f0.num g.den) (C07.mul g.num f0.den), C07.mul f0.den g.den⟩ : ZF K) :=
      ⟨⟨wf_add _ _, wf_mul _ _, causal_ne_nil hd0⟩, isPoly_mul h0.2.1 hg.2.1, hd0⟩
    obtain ⟨h, e, hn, hd⟩ := ih _ hnorm (fun x hx => hgs x (List.mem_cons_of_mem _ hx)) (hrest _ hadd)
    exact ⟨h, by rw [List.foldlM_cons, hadd]; exact e, hn, by rw [hd]; rfl⟩

end ALV.C05
