/-
  C18 — helper lemmas: integer codecs and the WAV sample path.  Core Lean only.
-/
import ALV.Model.C18
import ALV.Spec.C18
namespace ALV.C18

/-! ### bytes of an integer -/

theorem byte_toNat (n : Int) : ((UInt8.ofNat (n % 256).toNat).toNat : Int) = n % 256 := by
  rw [UInt8.toNat_ofNat']
  omega

theorem emod_256_mul (v m : Int) (hm : 0 < m) : v % (256 * m) = v % 256 + 256 * (v / 256 % m) := by
  have h1 := Int.mul_ediv_add_emod v 256
  have h2 := Int.mul_ediv_add_emod (v / 256) m
  have hr := Int.emod_nonneg v (b := 256) (by omega)
  have hr' := Int.emod_lt_of_pos v (b := 256) (by omega)
  have hq := Int.emod_nonneg (v / 256) (b := m) (by omega)
  have hq' := Int.emod_lt_of_pos (v / 256) hm
  have hv : v = (v % 256 + 256 * (v / 256 % m)) + (256 * m) * (v / 256 / m) := by
    have : 256 * (m * (v / 256 / m)) = (256 * m) * (v / 256 / m) := by rw [Int.mul_assoc]
    omega
  conv => lhs; rw [hv]
  rw [Int.add_mul_emod_self_left]
  apply Int.emod_eq_of_lt <;> omega

/-- the unsigned value of the `w` low bytes of `v` is `v mod 256^w` — any width -/
theorem leValue_leBytes : ∀ (w : Nat) (v : Int), leValue (leBytes w v) = v % 256 ^ w := by
  intro w
  induction w with
  | zero => intro v; simp [leBytes, leValue]
  | succ n ih =>
    intro v
    simp only [leBytes, leValue, ih, byte_toNat]
    rw [Int.pow_succ, Int.mul_comm (256 ^ n) 256, emod_256_mul v (256 ^ n) (Int.pow_pos (by omega))]

theorem leBytes_length (w : Nat) : ∀ v, (leBytes w v).length = w := by
  induction w with
  | zero => intro v; rfl
  | succ n ih => intro v; simp [leBytes, ih]

theorem leValue_nonneg : ∀ bs : Bytes, 0 ≤ leValue bs := by
  intro bs
  induction bs with
  | nil => simp [leValue]
  | cons b bs ih => simp only [leValue]; omega

theorem leValue_lt : ∀ bs : Bytes, leValue bs < 256 ^ bs.length := by
  intro bs
  induction bs with
  | nil => simp [leValue]
  | cons b bs ih =>
    simp only [leValue, List.length_cons, Int.pow_succ]
    have hb := b.toNat_lt
    generalize (256 : Int) ^ bs.length = P at *
    omega

theorem pow256 (w : Nat) : (256 : Int) ^ w = 2 ^ (8 * w) := by
  rw [Int.pow_mul]; rfl

theorem toSigned_emod (bits : Nat) (hb : 0 < bits) (v : Int)
    (h1 : -(2 ^ (bits - 1)) ≤ v) (h2 : v < 2 ^ (bits - 1)) : toSigned bits (v % 2 ^ bits) = v := by
  have hp : (2:Int) ^ bits = 2 * 2 ^ (bits - 1) := by
    rw [← Int.pow_succ']; congr 1; omega
  have hpos : (0:Int) < 2 ^ (bits - 1) := Int.pow_pos (by omega)
  unfold toSigned
  generalize (2:Int) ^ (bits - 1) = P at *
  rw [hp]
  by_cases hv : 0 ≤ v
  · have : v % (2 * P) = v := Int.emod_eq_of_lt hv (by omega)
    rw [this, if_pos h2]
  · have : v % (2 * P) = v + 2 * P := by
      have h := Int.add_mul_emod_self_left v (2 * P) 1
      rw [Int.mul_one] at h
      rw [← h]
      exact Int.emod_eq_of_lt (by omega) (by omega)
    rw [this, if_neg (by omega)]
    omega

/-- the result of `toSigned` lies in the signed range -/
theorem toSigned_range (bits : Nat) (hb : 0 < bits) (u : Int) (h0 : 0 ≤ u) (h1 : u < 2 ^ bits) :
    -(2 ^ (bits - 1)) ≤ toSigned bits u ∧ toSigned bits u < 2 ^ (bits - 1) := by
  have hp : (2:Int) ^ bits = 2 * 2 ^ (bits - 1) := by
    rw [← Int.pow_succ']; congr 1; omega
  unfold toSigned
  generalize (2:Int) ^ (bits - 1) = P at *
  split <;> omega

theorem orderBytes_length (o : Order) (bs : Bytes) : (orderBytes o bs).length = bs.length := by
  cases o <;> simp [orderBytes]

theorem orderBytes_orderBytes (o : Order) (bs : Bytes) : orderBytes o (orderBytes o bs) = bs := by
  cases o <;> simp [orderBytes]

/-- decode ∘ encode = id on the full signed range, any width ≥ 1, both byte orders -/
theorem unpackInt_orderBytes_leBytes (w : Nat) (hw : 0 < w) (o : Order) (v : Int) (h : inRange w v) :
    unpackInt w o (orderBytes o (leBytes w v)) = some v := by
  unfold unpackInt
  rw [orderBytes_length, leBytes_length, if_pos rfl, orderBytes_orderBytes, leValue_leBytes, pow256,
    toSigned_emod (8 * w) (by omega) v h.1 h.2]

/-! ### model codec = closed form of the spec -/

theorem byteAt_div (v : Int) (k : Nat) : byteAt (v / 256) k = byteAt v (k + 1) := by
  unfold byteAt
  rw [Int.ediv_ediv_of_nonneg (by omega), ← Int.pow_succ']

theorem leBytes_eq_twosLE : ∀ (w : Nat) (v : Int), leBytes w v = twosLE w v := by
  intro w
  induction w with
  | zero => intro v; rfl
  | succ n ih =>
    intro v
    unfold twosLE
    rw [List.range_succ_eq_map, List.map_cons, List.map_map, leBytes, ih]
    congr 1
    · simp [byteAt]
    · unfold twosLE
      apply List.map_congr_left
      intro k _
      exact byteAt_div v k

/-! ### the four WAV unpackers -/

theorem unpack8_pcm (n : Int) (h0 : 0 ≤ n) (h1 : n < 256) : unpack8 (leBytes 1 n) = .ok n := by
  have : ((UInt8.ofNat (n % 256).toNat).toNat : Int) = n := by rw [byte_toNat]; omega
  simp only [leBytes, unpack8, this]

theorem unpack16_pcm (n : Int) (h : inRange 2 n) : unpack16 (leBytes 2 n) = .ok n := by
  have := unpackInt_orderBytes_leBytes 2 (by omega) .little n h
  simp only [orderBytes] at this
  simp [unpack16, this, ofOpt]

theorem unpack32_pcm (n : Int) (h : inRange 4 n) : unpack32 (leBytes 4 n) = .ok n := by
  have := unpackInt_orderBytes_leBytes 4 (by omega) .little n h
  simp only [orderBytes] at this
  simp [unpack32, this, ofOpt]

/-- the zero-prefixed 32-bit read shifted right by 8 is the sign-extended 24-bit value, for
    EVERY three-byte string -/
theorem unpack24_eq (bs : Bytes) (h : bs.length = 3) :
    unpack24 bs = .ok (toSigned 24 (leValue bs)) := by
  have h0 := leValue_nonneg bs
  have h1 := leValue_lt bs
  rw [h] at h1
  have hv : leValue ((0 : UInt8) :: bs) = 256 * leValue bs := by simp [leValue]
  simp only [unpack24, unpackInt, List.length_cons, h, orderBytes, hv, ofOpt, if_pos,
    Except.map, Int.shiftRight_eq_div_pow, toSigned]
  generalize leValue bs = u at *
  simp only [Nat.reduceMul, Nat.reduceSub, Nat.reducePow, Int.reducePow] at *
  congr 1
  split <;> split <;> omega

theorem unpack24_wrong_length (bs : Bytes) (h : bs.length ≠ 3) : unpack24 bs = .error .structLen := by
  have : ¬ (bs.length + 1 = 4) := by omega
  simp [unpack24, unpackInt, ofOpt, this, Except.map]

theorem unpack24_pcm (n : Int) (h : inRange 3 n) : unpack24 (leBytes 3 n) = .ok n := by
  rw [unpack24_eq _ (leBytes_length 3 n), leValue_leBytes, pow256]
  rw [toSigned_emod 24 (by omega) n h.1 h.2]

end ALV.C18
