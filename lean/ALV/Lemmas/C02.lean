/-
  C02 — per-stage `need` lemmas (core Lean only).
  `HasNeed S f`: on every source with at least `f k` items, producing `k` outputs of `S`
  reads exactly `f k` items.
-/
import ALV.Lemmas.Stage
import ALV.Spec.C02
namespace ALV.C02
open ALV ALV.Stage
variable {ι ο π σ τ α β : Type}

def HasNeed (S : Stage ι ο σ) (f : Nat → Nat) : Prop :=
  ∀ (xs : List ι) (k : Nat), f k ≤ xs.length → S.need xs k = some (f k)

theorem needFrom_zero (S : Stage ι ο σ) (s : σ) (xs : List ι) : S.needFrom s 0 xs = some 0 := by
  cases xs <;> simp [needFrom]

/-! ### chains and fan-out -/

theorem HasNeed.comp {S : Stage ι π σ} {T : Stage π ο τ} {f g : Nat → Nat}
    (hS : HasNeed S f) (hT : HasNeed T g) : HasNeed (S ▷ T) (fun k => f (g k)) := by
  intro xs k hlen
  have h1 : S.need xs (g k) = some (f (g k)) := hS xs (g k) hlen
  have h2 : g k ≤ (S.emit xs).length := by
    have := (need_isSome_iff S xs (g k)).1 (by rw [h1]; rfl)
    exact this
  rw [need_comp, hT (S.emit xs) k h2]
  exact h1

theorem zip_append_min : ∀ (a : List α) (b : List β) (A : List α) (B : List β),
    List.zip (a ++ A) (b ++ B) =
      List.zip a b ++ List.zip (a.drop (min a.length b.length) ++ A)
        (b.drop (min a.length b.length) ++ B) := by
  intro a
  induction a with
  | nil => intro b A B; simp
  | cons x a ih =>
    intro b A B
    cases b with
    | nil => simp
    | cons y b =>
      simp only [List.cons_append, List.zip_cons_cons, List.length_cons]
      rw [ih b A B]
      have : min (a.length + 1) (b.length + 1) = min a.length b.length + 1 := by omega
      rw [this, List.drop_succ_cons, List.drop_succ_cons]

theorem emitFrom_par (S : Stage ι α σ) (T : Stage ι β τ) : ∀ (xs : List ι) (st : ParSt σ τ α β),
    (st.qa = [] ∨ st.qb = []) →
    (par S T).emitFrom st xs =
      List.zip (st.qa ++ S.emitFrom st.s xs) (st.qb ++ T.emitFrom st.t xs) := by
  intro xs
  induction xs with
  | nil =>
    intro st h
    rcases h with h | h <;> simp [emitFrom, h]
  | cons x xs ih =>
    intro st _
    rw [emitFrom]
    have hinv : ((par S T).onItem st x).1.qa = [] ∨ ((par S T).onItem st x).1.qb = [] := by
      show List.drop _ _ = [] ∨ List.drop _ _ = []
      by_cases hle : (st.qa ++ (S.onItem st.s x).2).length ≤ (st.qb ++ (T.onItem st.t x).2).length
      · left; apply List.drop_of_length_le; omega
      · right; apply List.drop_of_length_le; omega
    rw [ih _ hinv]
    show List.zip (st.qa ++ (S.onItem st.s x).2) (st.qb ++ (T.onItem st.t x).2) ++
        List.zip (List.drop _ (st.qa ++ (S.onItem st.s x).2) ++ S.emitFrom (S.onItem st.s x).1 xs)
          (List.drop _ (st.qb ++ (T.onItem st.t x).2) ++ T.emitFrom (T.onItem st.t x).1 xs) = _
    rw [← zip_append_min]
    simp only [emitFrom, List.append_assoc]

/-- tee + zip: the lock-step product emits exactly the zip of the two branches' outputs -/
theorem emit_par (S : Stage ι α σ) (T : Stage ι β τ) (xs : List ι) :
    (par S T).emit xs = List.zip (S.emit xs) (T.emit xs) := by
  unfold emit
  have hinv : (par S T).init.qa = [] ∨ (par S T).init.qb = [] := by
    show List.drop _ _ = [] ∨ List.drop _ _ = []
    by_cases hle : S.pre.length ≤ T.pre.length
    · left; apply List.drop_of_length_le; omega
    · right; apply List.drop_of_length_le; omega
  rw [emitFrom_par S T xs _ hinv]
  show List.zip S.pre T.pre ++ List.zip (List.drop _ S.pre ++ _) (List.drop _ T.pre ++ _) = _
  rw [← zip_append_min]
  rfl

/-- a shared (tee'd) source is read as far as the more demanding branch needs -/
theorem need_par (S : Stage ι α σ) (T : Stage ι β τ) (xs : List ι) (k ja jb : Nat)
    (ha : S.need xs k = some ja) (hb : T.need xs k = some jb) :
    (par S T).need xs k = some (max ja jb) := by
  obtain ⟨a1, a2, a3⟩ := (need_spec S xs k ja).1 ha
  obtain ⟨b1, b2, b3⟩ := (need_spec T xs k jb).1 hb
  rw [need_spec]
  refine ⟨by omega, ?_, ?_⟩
  · rw [emit_par, List.length_zip]
    have := emit_length_mono S xs (Nat.le_max_left ja jb)
    have := emit_length_mono T xs (Nat.le_max_right ja jb)
    omega
  · intro j' hj'
    rw [emit_par, List.length_zip]
    by_cases h : j' < ja
    · have := a3 j' h; omega
    · have := b3 j' (by omega); omega

theorem HasNeed.par {S : Stage ι α σ} {T : Stage ι β τ} {f g : Nat → Nat}
    (hS : HasNeed S f) (hT : HasNeed T g) : HasNeed (par S T) (fun k => max (f k) (g k)) := by
  intro xs k hlen
  have hlen' : max (f k) (g k) ≤ xs.length := hlen
  exact need_par S T xs k _ _ (hS xs k (by have := Nat.le_max_left (f k) (g k); omega))
    (hT xs k (by have := Nat.le_max_right (f k) (g k); omega))

/-! ### sample-wise stages: one output per item -/

theorem needFrom_unit (S : Stage ι ο σ) (Inv : σ → Prop)
    (hstep : ∀ s x, Inv s → Inv (S.onItem s x).1 ∧ (S.onItem s x).2.length = 1) :
    ∀ (xs : List ι) (s : σ) (k : Nat), Inv s → k ≤ xs.length → S.needFrom s k xs = some k := by
  intro xs
  induction xs with
  | nil =>
    intro s k _ hk
    have : k = 0 := by simpa using hk
    subst this
    exact needFrom_zero S s []
  | cons x xs ih =>
    intro s k hinv hk
    cases k with
    | zero => exact needFrom_zero S s _
    | succ k =>
      obtain ⟨hi, hl⟩ := hstep s x hinv
      rw [needFrom, hl, ih _ _ hi (by simp at hk ⊢; omega)]
      simp

theorem hasNeed_unit (S : Stage ι ο σ) (n : Nat) (hpre : S.pre.length = n)
    (hstep : ∀ s x, (S.onItem s x).2.length = 1) : HasNeed S (fun k => k - n) := by
  intro xs k hk
  unfold need
  rw [hpre]
  exact needFrom_unit S (fun _ => True) (fun s x _ => ⟨trivial, hstep s x⟩) xs _ _ trivial hk

theorem hasNeed_mapS (f : α → β) : HasNeed (mapS f) (fun k => k) :=
  hasNeed_unit (mapS f) 0 rfl (fun _ _ => rfl)

theorem hasNeed_scanS (f : σ → α → σ × β) (s0 : σ) : HasNeed (scanS f s0) (fun k => k) :=
  hasNeed_unit (scanS f s0) 0 rfl (fun _ _ => rfl)

theorem hasNeed_firstThenS (f0 : α → σ × β) (f : σ → α → σ × β) :
    HasNeed (firstThenS f0 f) (fun k => k) :=
  hasNeed_unit (firstThenS f0 f) 0 rfl (fun s _ => by cases s <;> rfl)

theorem hasNeed_zcrossS (outside sgn : α → Bool) (crosses : Bool → α → Bool) (first : Option Bool) :
    HasNeed (zcrossS outside sgn crosses first) (fun k => k) :=
  hasNeed_unit _ 0 rfl (fun s x => by
    cases s with
    | none => rfl
    | some sg => simp only [zcrossS]; split <;> rfl)

theorem hasNeed_padS (pre post : List α) : HasNeed (padS pre post) (fun k => k - pre.length) :=
  hasNeed_unit (padS pre post) pre.length rfl (fun _ _ => rfl)

theorem hasNeed_smixS (delta : Rat) (zero : α) :
    HasNeed (smixS delta zero) (fun k => k - smixStart delta) :=
  hasNeed_unit (smixS delta zero) _ (by simp [smixS]) (fun _ _ => rfl)

/-! ### skip, islice -/

theorem needFrom_skipS (n : Nat) : ∀ (xs : List α) (c k : Nat), k + 1 + c ≤ xs.length →
    (skipS n : Stage α α Nat).needFrom c (k + 1) xs = some (k + 1 + c) := by
  intro xs
  induction xs with
  | nil => intro c k h; simp at h
  | cons x xs ih =>
    intro c k h
    cases c with
    | zero =>
      rw [needFrom]
      show Option.map _ ((skipS n : Stage α α Nat).needFrom 0 (k + 1 - 1) xs) = _
      cases k with
      | zero => rw [needFrom_zero]; rfl
      | succ k =>
        rw [show k + 1 + 1 - 1 = k + 1 from rfl, ih 0 k (by simp at h ⊢; omega)]
        simp
    | succ c =>
      rw [needFrom]
      show Option.map _ ((skipS n : Stage α α Nat).needFrom c (k + 1 - 0) xs) = _
      rw [Nat.sub_zero, ih c k (by simp at h ⊢; omega)]
      simp; omega

theorem hasNeed_skipS (n : Nat) :
    HasNeed (skipS n : Stage α α Nat) (fun k => if k = 0 then 0 else k + n) := by
  intro xs k hk
  cases k with
  | zero => exact needFrom_zero _ _ _
  | succ k =>
    simp only [Nat.succ_ne_zero, if_false] at hk ⊢
    exact needFrom_skipS n xs n k hk

theorem needFrom_isliceS (start step : Nat) (hstep : 0 < step) :
    ∀ (xs : List α) (c k : Nat), c + k * step + 1 ≤ xs.length →
      (isliceS start step : Stage α α Nat).needFrom c (k + 1) xs = some (c + k * step + 1) := by
  intro xs
  induction xs with
  | nil => intro c k h; simp at h
  | cons x xs ih =>
    intro c k h
    cases c with
    | zero =>
      rw [needFrom]
      show Option.map _ ((isliceS start step : Stage α α Nat).needFrom (step - 1) (k + 1 - 1) xs) = _
      cases k with
      | zero => rw [needFrom_zero]; simp
      | succ k =>
        have hm : (k + 1) * step = k * step + step := Nat.succ_mul k step
        rw [show k + 1 + 1 - 1 = k + 1 from rfl, ih (step - 1) k (by simp at h ⊢; omega)]
        simp; omega
    | succ c =>
      rw [needFrom]
      show Option.map _ ((isliceS start step : Stage α α Nat).needFrom c (k + 1 - 0) xs) = _
      rw [Nat.sub_zero, ih c k (by simp at h ⊢; omega)]
      simp; omega

theorem hasNeed_isliceS (start step : Nat) (hstep : 0 < step) :
    HasNeed (isliceS start step : Stage α α Nat)
      (fun k => if k = 0 then 0 else start + (k - 1) * step + 1) := by
  intro xs k hk
  cases k with
  | zero => exact needFrom_zero _ _ _
  | succ k =>
    simp only [Nat.succ_ne_zero, if_false, Nat.add_sub_cancel] at hk ⊢
    exact needFrom_isliceS start step hstep xs start k hk

/-! ### filter with a pass pattern -/

theorem nthPass_nil (k : Nat) : nthPass [] k = k := by cases k <;> rfl

theorem nthPass_zero (l : List Bool) : nthPass l 0 = 0 := by
  cases l with
  | nil => rfl
  | cons b r => cases b <;> rfl

theorem needFrom_filterS (pat : List Bool) : ∀ (xs : List α) (n k : Nat),
    nthPass (pat.drop n) k ≤ xs.length →
      (filterS (fun n (_ : α) => patAt pat n)).needFrom n k xs = some (nthPass (pat.drop n) k) := by
  intro xs
  induction xs with
  | nil =>
    intro n k h
    cases k with
    | zero => rw [nthPass_zero]; exact needFrom_zero _ _ _
    | succ k =>
      exfalso
      cases hd : pat.drop n with
      | nil => rw [hd] at h; simp [nthPass] at h
      | cons b r => rw [hd] at h; cases b <;> simp [nthPass] at h
  | cons x xs ih =>
    intro n k h
    cases k with
    | zero => rw [nthPass_zero]; exact needFrom_zero _ _ _
    | succ k =>
      rw [needFrom]
      show Option.map _ ((filterS (fun n (_ : α) => patAt pat n)).needFrom (n + 1)
        (k + 1 - (if patAt pat n then [x] else []).length) xs) = _
      cases hd : pat.drop n with
      | nil =>
        have hn : pat.length ≤ n := by simpa using hd
        have hp : patAt pat n = true := by
          unfold patAt; rw [List.getD_eq_getElem?_getD, List.getElem?_eq_none hn]; rfl
        have hd' : pat.drop (n + 1) = [] := by simp; omega
        rw [hd] at h
        rw [hp, nthPass_nil] at *
        have := ih (n + 1) k (by rw [hd', nthPass_nil]; simp at h; omega)
        rw [hd', nthPass_nil] at this
        simp only [if_true, List.length_singleton, Nat.add_sub_cancel]
        rw [this]; rfl
      | cons b r =>
        have hlt : n < pat.length := by
          apply Nat.lt_of_not_le; intro hle
          have : pat.drop n = [] := by simp; omega
          rw [this] at hd; cases hd
        have hcons := List.drop_eq_getElem_cons hlt
        rw [hd] at hcons
        injection hcons with hb hr
        have hp : patAt pat n = b := by
          unfold patAt; rw [List.getD_eq_getElem?_getD, List.getElem?_eq_getElem hlt]; simp [hb]
        rw [hd] at h
        rw [hp]
        cases b with
        | true =>
          simp only [nthPass] at h ⊢
          simp only [if_true, List.length_singleton, Nat.add_sub_cancel]
          rw [ih (n + 1) k (by rw [← hr]; simp at h; omega), ← hr]; rfl
        | false =>
          simp only [nthPass] at h ⊢
          simp only [Bool.false_eq_true, if_false, List.length_nil, Nat.sub_zero]
          rw [ih (n + 1) (k + 1) (by rw [← hr]; simp at h; omega), ← hr]; rfl

theorem hasNeed_filterS (pat : List Bool) :
    HasNeed (filterS (fun n (_ : α) => patAt pat n)) (nthPass pat) := by
  intro xs k hk
  have := needFrom_filterS (α := α) pat xs 0 k (by simpa using hk)
  simpa [need, filterS] using this

/-! ### blocks -/

theorem needFrom_blocksS (size hop : Nat) (hs : 0 < size) (hh : 0 < hop) (pad : α) :
    ∀ (xs : List α) (s : C08.BState α) (k : Nat), s.idx < size →
      ((size : Int) - s.idx).toNat + k * hop ≤ xs.length →
      (blocksS size hop pad).needFrom s (k + 1) xs = some (((size : Int) - s.idx).toNat + k * hop) := by
  intro xs
  induction xs with
  | nil => intro s k hi h; simp at h; omega
  | cons x xs ih =>
    intro s k hi h
    rw [needFrom]
    show Option.map _ ((blocksS size hop pad).needFrom (C08.bstep size hop s x).1
      (k + 1 - (C08.bstep size hop s x).2.toList.length) xs) = _
    unfold C08.bstep
    by_cases hneg : s.idx < 0
    · simp only [if_pos hneg, Option.toList_none, List.length_nil, Nat.sub_zero]
      rw [ih _ k (show s.idx + 1 < size by omega) (by
        show ((size : Int) - (s.idx + 1)).toNat + k * hop ≤ xs.length
        simp at h; omega)]
      show some (((size : Int) - (s.idx + 1)).toNat + k * hop + 1) = _
      congr 1; omega
    · simp only [if_neg hneg]
      by_cases hy : s.idx = (size : Int) - 1
      · simp only [if_pos hy, Option.toList_some, List.length_singleton, Nat.add_sub_cancel]
        cases k with
        | zero =>
          rw [needFrom_zero]
          show some (0 + 1) = _
          congr 1; omega
        | succ k =>
          have hm : (k + 1) * hop = k * hop + hop := Nat.succ_mul k hop
          rw [ih _ k (show (size : Int) - hop < size by omega) (by
            show ((size : Int) - ((size : Int) - hop)).toNat + k * hop ≤ xs.length
            simp at h; omega)]
          show some (((size : Int) - ((size : Int) - hop)).toNat + k * hop + 1) = _
          congr 1; omega
      · simp only [if_neg hy, Option.toList_none, List.length_nil, Nat.sub_zero]
        rw [ih _ k (show s.idx + 1 < size by omega) (by
          show ((size : Int) - (s.idx + 1)).toNat + k * hop ≤ xs.length
          simp at h; omega)]
        show some (((size : Int) - (s.idx + 1)).toNat + k * hop + 1) = _
        congr 1; omega

theorem hasNeed_blocksS (size hop : Nat) (hs : 0 < size) (hh : 0 < hop) (pad : α) :
    HasNeed (blocksS size hop pad) (needBlocks size hop) := by
  intro xs k hk
  cases k with
  | zero => exact needFrom_zero _ _ _
  | succ k =>
    unfold needBlocks at hk ⊢
    simp only [Nat.succ_ne_zero, if_false, Nat.add_sub_cancel] at hk ⊢
    have := needFrom_blocksS size hop hs hh pad xs ⟨[], 0⟩ k (by simpa using hs)
      (by show ((size : Int) - 0).toNat + k * hop ≤ xs.length; simp; omega)
    show (blocksS size hop pad).needFrom ⟨[], 0⟩ (k + 1 - 0) xs = _
    rw [Nat.sub_zero, this]
    show some (((size : Int) - 0).toNat + k * hop) = _
    congr 1; simp; omega

/-- the read count at each block of `blocksS` is C08's `bloopReads` -/
theorem readsFrom_blocksS (size hop : Nat) (pad : α) : ∀ (xs : List α) (s : C08.BState α) (n : Nat),
    (blocksS size hop pad).readsFrom s n xs = C08.bloopReads size hop s n xs := by
  intro xs
  induction xs with
  | nil => intro s n; rfl
  | cons x xs ih =>
    intro s n
    rw [readsFrom, C08.bloopReads, ih]
    congr 1
    show List.replicate (C08.bstep size hop s x).2.toList.length (n + 1) = _
    cases (C08.bstep size hop s x).2 <;> rfl

theorem run_blocksS (size hop : Nat) (pad : α) (xs : List α) :
    (blocksS size hop pad).run xs = C08.blocks size hop pad xs := by
  have h : ∀ (xs : List α) (s : C08.BState α),
      (blocksS size hop pad).emitFrom s xs = (C08.bloop size hop s xs).1 ∧
      (blocksS size hop pad).stateFrom s xs = (C08.bloop size hop s xs).2 := by
    intro xs
    induction xs with
    | nil => intro s; exact ⟨rfl, rfl⟩
    | cons x xs ih =>
      intro s
      rw [emitFrom, stateFrom, C08.bloop]
      exact ⟨by rw [(ih _).1]; rfl, by rw [(ih _).2]; rfl⟩
  unfold run emit C08.blocks
  rw [(h xs _).1, (h xs _).2]
  rfl

/-! ### overlap-add -/

theorem ceilDiv_zero (hop : Nat) (hh : 0 < hop) : ceilDiv 0 hop = 0 := by
  unfold ceilDiv
  apply Nat.div_eq_of_lt
  omega

theorem ceilDiv_succ (k hop : Nat) (hh : 0 < hop) :
    ceilDiv (k + 1) hop = ceilDiv (k + 1 - hop) hop + 1 := by
  unfold ceilDiv
  have e1 : k + 1 + hop - 1 = k + hop := by omega
  rw [e1, Nat.add_div_right _ hh]
  congr 1
  by_cases hle : k + 1 ≤ hop
  · have e2 : k + 1 - hop + hop - 1 = hop - 1 := by omega
    rw [e2, Nat.div_eq_of_lt (by omega), Nat.div_eq_of_lt (by omega)]
  · have e2 : k + 1 - hop + hop - 1 = k := by omega
    rw [e2]

theorem needFrom_olaS (size hop : Nat) (hh : 0 < hop) (mk : β → Nat → α) (fin : Nat → α) :
    ∀ (xs : List β) (k : Nat), ceilDiv k hop ≤ xs.length →
      (olaS size hop mk fin).needFrom () k xs = some (ceilDiv k hop) := by
  intro xs
  induction xs with
  | nil =>
    intro k h
    cases k with
    | zero => rw [needFrom_zero, ceilDiv_zero hop hh]
    | succ k => rw [ceilDiv_succ k hop hh] at h; simp at h
  | cons x xs ih =>
    intro k h
    cases k with
    | zero => rw [needFrom_zero, ceilDiv_zero hop hh]
    | succ k =>
      rw [needFrom]
      show Option.map _ ((olaS size hop mk fin).needFrom ()
        (k + 1 - ((List.range hop).map (mk x)).length) xs) = _
      rw [List.length_map, List.length_range, ceilDiv_succ k hop hh] at *
      rw [ih _ (by simp at h; omega)]
      rfl

theorem hasNeed_olaS (size hop : Nat) (hh : 0 < hop) (mk : β → Nat → α) (fin : Nat → α) :
    HasNeed (olaS size hop mk fin) (fun k => ceilDiv k hop) := by
  intro xs k hk
  exact needFrom_olaS size hop hh mk fin xs k hk

theorem hasNeed_stftS (size hop : Nat) (hs : 0 < size) (hh : 0 < hop) (pad : α)
    (process : List α → β) (mk : β → Nat → α) (fin : Nat → α) :
    HasNeed (stftS size hop pad process mk fin) (fun k => needBlocks size hop (ceilDiv k hop)) :=
  HasNeed.comp (HasNeed.comp (hasNeed_blocksS size hop hs hh pad) (hasNeed_mapS process))
    (hasNeed_olaS size hop hh mk fin)

theorem hasNeed_stftBlkS (size hop : Nat) (hs : 0 < size) (hh : 0 < hop) (pad : α)
    (process : List α → β) :
    HasNeed (stftBlkS size hop pad process) (fun k => needBlocks size hop k) :=
  HasNeed.comp (hasNeed_blocksS size hop hs hh pad) (hasNeed_mapS process)

/-! ### n parallel / n cascaded sample-wise branches -/

theorem hasNeed_parN : ∀ n, HasNeed (parN n).st (fun k => k)
  | 0 => hasNeed_mapS _
  | 1 => hasNeed_scanS _ _
  | n + 2 => by
    have h := HasNeed.comp (HasNeed.par (hasNeed_scanS (fun (_ : Unit) (_ : Unit) => ((), ())) ())
      (hasNeed_parN (n + 1))) (hasNeed_mapS (fun (_ : Unit × Unit) => ()))
    intro xs k hk
    have := h xs k (by simpa using hk)
    simp only [Nat.max_self] at this
    exact this

theorem hasNeed_cascadeN : ∀ n, HasNeed (cascadeN n).st (fun k => k)
  | 0 => hasNeed_mapS _
  | n + 1 => HasNeed.comp (hasNeed_scanS (fun (_ : Unit) (_ : Unit) => ((), ())) ()) (hasNeed_cascadeN n)

end ALV.C02
