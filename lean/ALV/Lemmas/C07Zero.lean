/-
  C07 — the zero / spelling model (`Model/C07Zero.lean`): Python's `==` / `hash` law on tagged numbers,
  `p == q → hash p = hash q` for Polys with any zeros, the invariant of histories.
-/
import ALV.Lemmas.C07Hash
import ALV.Model.C07Zero

set_option linter.unusedSectionVars false
set_option linter.unusedVariables false

namespace ALV.C07

/-! ## numbers -/

namespace PyNum

theorem eq_iff (a b : PyNum) : a.eq b = true ↔ a.re = b.re ∧ a.im = b.im := by
  simp [PyNum.eq]

theorem eq_refl (a : PyNum) : a.eq a = true := (eq_iff a a).2 ⟨rfl, rfl⟩

theorem eq_symm {a b : PyNum} (h : a.eq b = true) : b.eq a = true := by
  rw [eq_iff] at *; exact ⟨h.1.symm, h.2.symm⟩

theorem eq_trans {a b c : PyNum} (h : a.eq b = true) (h' : b.eq c = true) : a.eq c = true := by
  rw [eq_iff] at *; exact ⟨h.1.trans h'.1, h.2.trans h'.2⟩

theorem P61_val : P61 = 2305843009213693951 := by decide

theorem hashRat_zero : hashRat 0 = 0 := by
  simp [hashRat, P61_val]

theorem hashRat_bounds (q : Rat) :
    -2305843009213693952 < hashRat q ∧ hashRat q < 2305843009213693952 ∧ hashRat q ≠ -1 := by
  unfold hashRat
  simp only [P61_val]
  generalize hh : (if q.den % 2305843009213693951 = 0 then 314159
    else q.num.natAbs % 2305843009213693951 * powMod q.den (2305843009213693951 - 2) 2305843009213693951 %
      2305843009213693951 : Nat) = h
  have hb : h < 2305843009213693951 := by
    rw [← hh]
    split
    · omega
    · exact Nat.mod_lt _ (by omega)
  refine ⟨?_, ?_, ?_⟩ <;> (split <;> split <;> omega)

theorem wrap64_small {x : Int} (h1 : -9223372036854775808 ≤ x) (h2 : x < 9223372036854775808) : wrap64 x = x := by
  unfold wrap64
  have e : x.emod (2 ^ 64) = x % 18446744073709551616 := rfl
  simp only [e]
  have e63 : (2 : Int) ^ 63 = 9223372036854775808 := by decide
  have e64 : (2 : Int) ^ 64 = 18446744073709551616 := by decide
  rw [e63, e64]
  split <;> omega

theorem hashCplx_zero {h : Int} (h1 : -2305843009213693952 < h) (h2 : h < 2305843009213693952) (h3 : h ≠ -1) :
    hashCplx h 0 = h := by
  unfold hashCplx
  simp only [Int.mul_zero, Int.add_zero]
  rw [wrap64_small (by omega) (by omega)]
  simp [h3]

/-- a number with no imaginary part hashes like the rational it is — whatever its kind -/
theorem hash_of_im_zero {a : PyNum} (h : a.im = 0) : a.hash = hashRat a.re := by
  cases a with
  | cplx r i e =>
    simp only [im] at h
    subst h
    simp only [PyNum.hash, re, hashRat_zero]
    obtain ⟨b1, b2, b3⟩ := hashRat_bounds r
    exact hashCplx_zero b1 b2 b3
  | _ => rfl

theorem cplx_of_im_ne {a : PyNum} (h : a.im ≠ 0) : ∃ r i e, a = .cplx r i e := by
  cases a with
  | cplx r i e => exact ⟨r, i, e, rfl⟩
  | _ => exact absurd rfl h

/-- **Python's hash law**: numbers that compare equal — of whatever kinds — have equal hashes -/
theorem hash_eq_of_eq {a b : PyNum} (h : a.eq b = true) : a.hash = b.hash := by
  rw [eq_iff] at h
  by_cases ha : a.im = 0
  · have hb : b.im = 0 := by rw [← h.2]; exact ha
    rw [hash_of_im_zero ha, hash_of_im_zero hb, h.1]
  · have hb : b.im ≠ 0 := by rw [← h.2]; exact ha
    obtain ⟨r, i, e, rfl⟩ := cplx_of_im_ne ha
    obtain ⟨r', i', e', rfl⟩ := cplx_of_im_ne hb
    simp only [re, im] at h
    simp only [PyNum.hash, h.1, h.2]

end PyNum

namespace PyVal

theorem eq_refl (a : PyVal) : a.eq a = true := by
  cases a <;> simp [PyVal.eq, PyNum.eq_refl]

theorem eq_symm {a b : PyVal} (h : a.eq b = true) : b.eq a = true := by
  cases a <;> cases b <;> simp_all [PyVal.eq]
  exact PyNum.eq_symm h

theorem eq_trans {a b c : PyVal} (h : a.eq b = true) (h' : b.eq c = true) : a.eq c = true := by
  cases a <;> cases b <;> cases c <;> simp_all [PyVal.eq]
  exact PyNum.eq_trans h h'

/-- equal values hash alike — or are both unhashable (TypeError) -/
theorem hash_eq_of_eq {a b : PyVal} (h : a.eq b = true) : a.hash = b.hash := by
  cases a <;> cases b <;> simp_all [PyVal.eq, PyVal.hash]
  exact PyNum.hash_eq_of_eq h

end PyVal

/-! ## dictionaries: generic facts (any value type) -/

section Generic
variable {β : Type}

theorem mem_iff_find?' {p : MPoly β} (hn : (keys p).Nodup) {k : Int} {v : β} :
    (k, v) ∈ p ↔ find? p k = some v := ⟨find?_of_mem hn, find?_some_mem⟩

theorem perm_of_find? {p q : MPoly β} (hp : (keys p).Nodup) (hq : (keys q).Nodup)
    (h : ∀ k, find? p k = find? q k) : p.Perm q := by
  rw [List.perm_ext_iff_of_nodup (List.Nodup.of_map _ hp) (List.Nodup.of_map _ hq)]
  rintro ⟨k, v⟩
  rw [mem_iff_find?' hp, mem_iff_find?' hq, h k]

theorem sortAsc_eq_of_perm' {p q : MPoly β} (hp : (keys p).Nodup) (h : p.Perm q) :
    sortAsc p = sortAsc q := by
  unfold sortAsc
  have hperm1 := List.mergeSort_perm p (fun a b => decide (a.1 ≤ b.1))
  have hperm2 := List.mergeSort_perm q (fun a b => decide (a.1 ≤ b.1))
  apply List.Perm.eq_of_pairwise (le := fun a b => decide (a.1 ≤ b.1) = true)
  · intro a b ha hb hab hba
    have ha' : a ∈ p := hperm1.subset ha
    have hb' : b ∈ p := h.symm.subset (hperm2.subset hb)
    have hk : a.1 = b.1 := by
      have h1 : a.1 ≤ b.1 := by simpa using hab
      have h2 : b.1 ≤ a.1 := by simpa using hba
      omega
    obtain ⟨ka, va⟩ := a
    obtain ⟨kb, vb⟩ := b
    simp only at hk
    subst hk
    have e1 := (mem_iff_find?' hp).1 ha'
    have e2 := (mem_iff_find?' hp).1 hb'
    rw [e1] at e2
    cases e2
    rfl
  · exact List.pairwise_mergeSort (fun a b c hab hbc => by
      simp only [decide_eq_true_eq] at *; omega) (fun a b => by
      simp only [Bool.or_eq_true, decide_eq_true_eq]; omega) p
  · exact List.pairwise_mergeSort (fun a b c hab hbc => by
      simp only [decide_eq_true_eq] at *; omega) (fun a b => by
      simp only [Bool.or_eq_true, decide_eq_true_eq]; omega) q
  · exact hperm1.trans (h.trans hperm2.symm)

theorem sortAsc_eq_of_find? {p q : MPoly β} (hp : (keys p).Nodup) (hq : (keys q).Nodup)
    (h : ∀ k, find? p k = find? q k) : sortAsc p = sortAsc q :=
  sortAsc_eq_of_perm' hp (perm_of_find? hp hq h)

end Generic

/-! ## `==` and `hash` of Polys with zeros -/

theorem keys_hmap (d : MPoly PyNum) : keys (hmap d) = keys d := by
  simp [hmap, keys, List.map_map, Function.comp_def]

theorem find?_hmap (d : MPoly PyNum) (k : Int) : find? (hmap d) k = (find? d k).map PyNum.hash := by
  induction d with
  | nil => rfl
  | cons a t ih =>
    obtain ⟨k', v⟩ := a
    simp only [hmap, List.map_cons, find?] at *
    split
    · rfl
    · exact ih

/-- `dicts_equal(a, b)`: the two dictionaries have the same powers and `==` coefficients -/
theorem dictsEq_find? {a b : MPoly PyNum} (ha : (keys a).Nodup) (hb : (keys b).Nodup)
    (h : dictsEq a b = true) (k : Int) :
    (find? a k = none ∧ find? b k = none) ∨
      ∃ v w, find? a k = some v ∧ find? b k = some w ∧ v.eq w = true := by
  unfold dictsEq at h
  rw [Bool.and_eq_true, List.all_eq_true] at h
  obtain ⟨hl, hall⟩ := h
  have hl : a.length = b.length := by simpa using hl
  have hsub : ∀ kv ∈ a, ∃ w, find? b kv.1 = some w ∧ kv.2.eq w = true := by
    intro kv hkv
    have := hall kv hkv
    cases hf : find? b kv.1 with
    | none => simp [hf] at this
    | some w => simp [hf] at this; exact ⟨w, rfl, this⟩
  have hks : keys a ⊆ keys b := by
    intro k hk
    obtain ⟨kv, hkv, rfl⟩ := List.mem_map.1 hk
    obtain ⟨w, hw, _⟩ := hsub kv hkv
    exact mem_keys_of_mem (find?_some_mem hw)
  have hperm : (keys a).Perm (keys b) := by
    apply (List.subperm_of_subset ha hks).perm_of_length_le
    simp [keys, hl]
  cases h1 : find? a k with
  | some v =>
    obtain ⟨w, hw, hvw⟩ := hsub (k, v) (find?_some_mem h1)
    exact Or.inr ⟨v, w, rfl, hw, hvw⟩
  | none =>
    have : k ∉ keys b := fun hk => (find?_eq_none.1 h1) (hperm.symm.subset hk)
    exact Or.inl ⟨rfl, find?_eq_none.2 this⟩

theorem dictsEq_refl {a : MPoly PyNum} (ha : (keys a).Nodup) : dictsEq a a = true := by
  unfold dictsEq
  rw [Bool.and_eq_true, List.all_eq_true]
  refine ⟨by simp, ?_⟩
  rintro ⟨k, v⟩ hkv
  rw [find?_of_mem ha hkv]
  exact PyNum.eq_refl v

def NodupKeys (p : ZPoly) : Prop := (keys p.data).Nodup

/-- **`p == q → hash(p) == hash(q)`** for Polys with any zeros and coefficients of any kinds: the hash is a
function of the set of `(power, hash(coefficient))` and of `hash(zero)`, and `==` numbers have equal hashes.
For unhashable zeros both sides raise TypeError. -/
theorem hashZ_eq_of_eqZ {p q : ZPoly} (hp : NodupKeys p) (hq : NodupKeys q) (h : eqZ p q = true) :
    hashZ p = hashZ q := by
  unfold eqZ at h
  rw [Bool.and_eq_true] at h
  obtain ⟨hz, hd⟩ := h
  have hkeys : sortAsc (hmap p.data) = sortAsc (hmap q.data) := by
    apply sortAsc_eq_of_find? (by rw [keys_hmap]; exact hp) (by rw [keys_hmap]; exact hq)
    intro k
    rw [find?_hmap, find?_hmap]
    rcases dictsEq_find? hp hq hd k with ⟨h1, h2⟩ | ⟨v, w, h1, h2, hvw⟩
    · rw [h1, h2]
    · rw [h1, h2]; simp [PyNum.hash_eq_of_eq hvw]
  unfold hashZ
  rw [PyVal.hash_eq_of_eq hz, hkeys]

theorem eqZ_refl {p : ZPoly} (hp : NodupKeys p) : eqZ p p = true := by
  unfold eqZ
  rw [PyVal.eq_refl, dictsEq_refl hp]; rfl

theorem neZ_eq_not (p q : ZPoly) : neZ p q = !eqZ p q := rfl

theorem hashZ_ok_iff (p : ZPoly) : (∃ k, hashZ p = .ok k) ↔ ∃ x, p.zero = .num x := by
  unfold hashZ
  cases hz : p.zero <;> simp [PyVal.hash, bind, Except.bind, pure, Except.pure]


/-! ## the representation invariant, for any zero: distinct powers, no coefficient `==` the zero stored -/

def Good (p : ZPoly) : Prop := (keys p.data).Nodup ∧ ∀ kv ∈ p.data, stored p.zero kv.2 = true

theorem keys_compactZ_sublist (z : PyVal) (d : MPoly PyNum) : (keys (compactZ z d)).Sublist (keys d) := by
  unfold compactZ keys
  exact List.Sublist.map _ List.filter_sublist

theorem good_compactZ {d : MPoly PyNum} (h : (keys d).Nodup) (z : PyVal) : Good ⟨compactZ z d, z⟩ :=
  ⟨(keys_compactZ_sublist z d).nodup h, fun kv hkv => by
    simp only [compactZ, List.mem_filter] at hkv; exact hkv.2⟩

theorem good_normZ (l : List (Int × PyNum)) (z : PyVal) : Good (normZ l z) :=
  good_compactZ (nodup_keys_ofPairs l) z

theorem good_mulZ (p q : ZPoly) : Good (mulZ p q) := good_compactZ (nodup_keys_mulLoop _ _) _

theorem good_powLoopZ (p : ZPoly) (m : Nat) : Good (powLoopZ p m) := by
  cases m with
  | zero => exact good_normZ _ _
  | succ m => exact good_mulZ _ _

theorem good_setZeroZ {p : ZPoly} (h : Good p) (z : PyVal) : Good (setZeroZ p z) := good_compactZ h.1 z

theorem good_setItemZ {p : ZPoly} (h : Good p) (k : Int) (c : PyNum) : Good (setItemZ p k c) := by
  unfold setItemZ
  split
  · rename_i hs
    refine ⟨nodup_keys_set h.1 k c, ?_⟩
    intro kv hkv
    rcases mem_set hkv with hm | rfl
    · exact h.2 kv hm
    · exact hs
  · split
    · exact ⟨(List.Sublist.map _ (del_sublist p.data k)).nodup h.1,
        fun kv hkv => h.2 kv ((del_sublist p.data k).subset hkv)⟩
    · exact h

theorem good_powZ {p : ZPoly} {n : Int} {ek : ExpKind} {r : ZPoly} (h : powZ p n ek = .new r) : Good r := by
  unfold powZ at h
  split at h
  · cases h; exact good_normZ _ _
  · split at h
    · cases h; exact good_normZ _ _
    · split at h
      · cases h; exact good_normZ _ _
      · split at h
        · cases h
        · cases h; exact good_normZ _ _
    · split at h
      · cases h
      · split at h
        · cases h
        · cases h; exact good_powLoopZ _ _

theorem good_powPolyZ {p q r : ZPoly} (h : powPolyZ p q = .new r) : Good r := by
  unfold powPolyZ at h
  split at h
  · cases h
  · split at h
    · split at h
      · exact good_powZ h
      · cases h
    · cases h

theorem good_composeZ {p q r : ZPoly} (h : composeZ p q = .ok r) : Good r := by
  unfold composeZ at h
  split at h
  · cases h
  · cases h; exact good_normZ _ _
  · cases h; exact good_normZ _ _

theorem good_divsZ {p r : ZPoly} {c : PyNum} (h : divsZ p c = .ok r) : Good r := by
  unfold divsZ at h
  split at h
  · cases h; exact good_normZ _ _
  · split at h
    · cases h
    · cases h; exact good_normZ _ _

theorem good_divZ {p q r : ZPoly} (h : divZ p q = .ok r) : Good r := by
  unfold divZ at h
  split at h
  · cases h
  · split at h
    · cases h; exact good_normZ _ _
    · split at h
      · cases h
      · cases h; exact good_normZ _ _
  · cases h

theorem good_integrateZ {p r : ZPoly} (h : integrateZ p = .ok r) : Good r := by
  unfold integrateZ at h
  split at h
  · cases h
  · cases h; exact good_normZ _ _

theorem good_scalZ (s : ScalOp) (p : ZPoly) (c : PyNum) : Good (scalZ s p c) := by
  cases s <;> first | exact good_normZ _ _ | exact good_mulZ _ _

theorem good_binZ (b : BinOp) (p q : ZPoly) : Good (binZ b p q) := by
  cases b <;> first | exact good_normZ _ _ | exact good_mulZ _ _

theorem zactOfExcept_alloc {e : Except PyErr ZPoly} {p : ZPoly} (h : zactOfExcept e = .alloc p) : e = .ok p := by
  cases e <;> simp [zactOfExcept] at h; rw [h]

theorem zactOfPow_alloc {a : Nat} {r : PowRes} {p : ZPoly} (h : zactOfPow a r = .alloc p) : r = .new p := by
  cases r <;> simp [zactOfPow] at h; rw [h]

/-- every object a step returns is well formed — whatever the operands were -/
theorem good_alloc {st : ZState} {op : ZOp} {p : ZPoly} (h : zact st op = .alloc p) : Good p := by
  cases op <;> simp only [zact] at h
  case ctorDict => cases h; exact good_normZ _ _
  case ctorList => cases h; exact good_normZ _ _
  case ctorNum => cases h; exact good_normZ _ _
  case ctorNone => cases h; exact good_normZ _ _
  case ctorPoly => split at h <;> cases h; exact good_normZ _ _
  case copy => split at h <;> cases h; exact good_normZ _ _
  case neg => split at h <;> cases h; exact good_normZ _ _
  case pos => split at h <;> cases h; exact good_normZ _ _
  case bin => split at h <;> cases h; exact good_binZ _ _ _
  case scal => split at h <;> cases h; exact good_scalZ _ _ _
  case divs =>
    split at h
    · exact good_divsZ (zactOfExcept_alloc h)
    · cases h
  case div =>
    split at h
    · exact good_divZ (zactOfExcept_alloc h)
    · cases h
  case pow =>
    split at h
    · exact good_powZ (zactOfPow_alloc h)
    · cases h
  case powPoly =>
    split at h
    · exact good_powPolyZ (zactOfPow_alloc h)
    · cases h
  case comp =>
    split at h
    · exact good_composeZ (zactOfExcept_alloc h)
    · cases h
  case call => split at h <;> cases h
  case diff => split at h <;> cases h; exact good_normZ _ _
  case integ =>
    split at h
    · exact good_integrateZ (zactOfExcept_alloc h)
    · cases h
  case setitem => split at h <;> (try split at h) <;> cases h
  case setzero => split at h <;> (try split at h) <;> cases h
  case hash => split at h <;> (try split at h) <;> cases h
  case eq => split at h <;> cases h
  case ne => split at h <;> cases h
  case eqs => split at h <;> cases h


/-! ## histories -/

def ZInv (st : ZState) : Prop := ∀ o ∈ st.heap, Good o.p

theorem zobj_mem {st : ZState} {i a : Nat} {o : ZObj} (h : st.obj i = some (a, o)) :
    o ∈ st.heap ∧ st.heap[a]? = some o := by
  unfold ZState.obj at h
  split at h
  · cases h
  · split at h
    · cases h
    · rename_i a' _ o' ho
      simp only [Option.some.injEq, Prod.mk.injEq] at h
      obtain ⟨rfl, rfl⟩ := h
      exact ⟨List.mem_of_getElem? ho, ho⟩

theorem zactOfExcept_store {e : Except PyErr ZPoly} {a : Nat} {o : ZObj} (h : zactOfExcept e = .store a o) : False := by
  cases e <;> simp [zactOfExcept] at h

theorem zactOfPow_store {a' : Nat} {r : PowRes} {a : Nat} {o : ZObj} (h : zactOfPow a' r = .store a o) : False := by
  cases r <;> simp [zactOfPow] at h

theorem zactOfExcept_frozen {e : Except PyErr ZPoly} {a : Nat} {o : ZObj} {k} (h : zactOfExcept e = .frozen a o k) : False := by
  cases e <;> simp [zactOfExcept] at h

theorem zactOfPow_frozen {a' : Nat} {r : PowRes} {a : Nat} {o : ZObj} {k} (h : zactOfPow a' r = .frozen a o k) : False := by
  cases r <;> simp [zactOfPow] at h

theorem good_store {st : ZState} (hi : ZInv st) {op : ZOp} {a : Nat} {o : ZObj}
    (h : zact st op = .store a o) : Good o.p := by
  cases op <;> simp only [zact] at h
  case setitem i k c =>
    split at h
    · rename_i a' o' ho
      split at h
      · cases h
      · cases h; exact good_setItemZ (hi _ (zobj_mem ho).1) k c
    · cases h
  case setzero i z =>
    split at h
    · rename_i a' o' ho
      split at h
      · cases h
      · cases h; exact good_setZeroZ (hi _ (zobj_mem ho).1) z
    · cases h
  case divs => split at h <;> first | cases h | exact (zactOfExcept_store h).elim
  case div => split at h <;> first | cases h | exact (zactOfExcept_store h).elim
  case pow => split at h <;> first | cases h | exact (zactOfPow_store h).elim
  case powPoly => split at h <;> first | cases h | exact (zactOfPow_store h).elim
  case comp => split at h <;> first | cases h | exact (zactOfExcept_store h).elim
  case integ => split at h <;> first | cases h | exact (zactOfExcept_store h).elim
  case hash => split at h <;> (try split at h) <;> cases h
  all_goals (first | cases h | (split at h <;> cases h))


theorem good_frozen {st : ZState} (hi : ZInv st) {op : ZOp} {a : Nat} {o : ZObj} {key}
    (h : zact st op = .frozen a o key) : Good o.p ∧ o.hashed = true := by
  cases op <;> simp only [zact] at h
  case hash i =>
    split at h
    · rename_i a' o' ho
      split at h
      · cases h; exact ⟨hi o' (zobj_mem ho).1, rfl⟩
      · cases h
    · cases h
  case divs => split at h <;> first | cases h | exact (zactOfExcept_frozen h).elim
  case div => split at h <;> first | cases h | exact (zactOfExcept_frozen h).elim
  case pow => split at h <;> first | cases h | exact (zactOfPow_frozen h).elim
  case powPoly => split at h <;> first | cases h | exact (zactOfPow_frozen h).elim
  case comp => split at h <;> first | cases h | exact (zactOfExcept_frozen h).elim
  case integ => split at h <;> first | cases h | exact (zactOfExcept_frozen h).elim
  case setitem => split at h <;> (try split at h) <;> cases h
  case setzero => split at h <;> (try split at h) <;> cases h
  all_goals (first | cases h | (split at h <;> cases h))

theorem zinv_set {st : ZState} (hi : ZInv st) (a : Nat) {o : ZObj} (ho : Good o.p) :
    ∀ o' ∈ st.heap.set a o, Good o'.p := by
  intro o' hm
  rcases List.mem_or_eq_of_mem_set hm with h | h
  · exact hi _ h
  · rw [h]; exact ho

theorem zinv_zstep {st : ZState} (hi : ZInv st) (op : ZOp) : ZInv (zstep st op) := by
  unfold zstep
  cases ha : zact st op
  · rename_i p
    intro o ho
    simp only [zapply, List.mem_append, List.mem_singleton] at ho
    rcases ho with ho | rfl
    · exact hi _ ho
    · exact good_alloc ha
  · exact hi
  · exact zinv_set hi _ (good_store hi ha)
  · exact zinv_set hi _ (good_frozen hi ha).1
  · exact hi
  · exact hi
  · exact hi
  · exact hi

theorem zinv_zrun {st : ZState} (hi : ZInv st) (ops : List ZOp) : ZInv (zrun st ops) := by
  induction ops generalizing st with
  | nil => exact hi
  | cons op ops ih => exact ih (zinv_zstep hi op)

theorem zinv_empty : ZInv ZState.empty := by intro o ho; simp [ZState.empty] at ho

theorem zval_good {st : ZState} (hi : ZInv st) {i : Nat} {p : ZPoly} (h : st.val i = some p) : Good p := by
  unfold ZState.val at h
  cases ho : st.obj i with
  | none => rw [ho] at h; simp at h
  | some ao =>
    obtain ⟨a, o⟩ := ao
    rw [ho] at h
    simp only [Option.map_some, Option.some.injEq] at h
    subst h
    exact hi _ (zobj_mem ho).1

theorem zfail_unchanged {st : ZState} {op : ZOp} {e : PyErr} (h : zact st op = .fail e) : zstep st op = st := by
  unfold zstep; rw [h]; rfl

/-! ## arithmetic is blind to the spelling -/

namespace PyNum

theorem asInt?_re {a : PyNum} {m : Int} (h : a.asInt? = some m) : a.re = (m : Rat) ∧ a.im = 0 := by
  cases a <;> simp [asInt?] at h
  · rename_i b; subst h; cases b <;> simp [re, im]
  · subst h; simp [re, im]

theorem ofRank_re (k : Nat) (r i : Rat) (ok : Bool) (h : k ≤ 3 → i = 0) :
    (ofRank k r i ok).re = r ∧ (ofRank k r i ok).im = i := by
  unfold ofRank mkFloat mkCplx
  split
  · simp [re, im, h (by omega)]
  · split
    · simp [re, im, h (by omega)]
    · simp [re, im]

theorem im_zero_of_rank {a : PyNum} (h : a.rank ≤ 3) : a.im = 0 := by
  cases a <;> simp [rank] at h <;> rfl

theorem add_val (a b : PyNum) : (a + b).re = a.re + b.re ∧ (a + b).im = a.im + b.im := by
  show (add a b).re = _ ∧ (add a b).im = _
  unfold add
  split
  · rename_i m n hm hn
    obtain ⟨h1, h2⟩ := asInt?_re hm
    obtain ⟨h3, h4⟩ := asInt?_re hn
    refine ⟨?_, ?_⟩
    · rw [h1, h3]; simp [re]
    · rw [h2, h4]; simp [im]
  · apply ofRank_re
    intro hk
    rw [im_zero_of_rank (by omega), im_zero_of_rank (by omega)]; simp

theorem sub_val (a b : PyNum) : (a - b).re = a.re - b.re ∧ (a - b).im = a.im - b.im := by
  show (sub a b).re = _ ∧ (sub a b).im = _
  unfold sub
  split
  · rename_i m n hm hn
    obtain ⟨h1, h2⟩ := asInt?_re hm
    obtain ⟨h3, h4⟩ := asInt?_re hn
    refine ⟨?_, ?_⟩
    · rw [h1, h3]; simp [re]
    · rw [h2, h4]; simp [im]
  · apply ofRank_re
    intro hk
    rw [im_zero_of_rank (by omega), im_zero_of_rank (by omega)]; simp

theorem neg_val (a : PyNum) : (-a).re = -a.re ∧ (-a).im = -a.im := by
  show (neg a).re = _ ∧ (neg a).im = _
  cases a <;> simp [neg, re, im]
  rename_i b; cases b <;> simp

theorem mul_val (a b : PyNum) :
    (a * b).re = a.re * b.re - a.im * b.im ∧ (a * b).im = a.re * b.im + a.im * b.re := by
  show (mul a b).re = _ ∧ (mul a b).im = _
  unfold mul
  split
  · rename_i m n hm hn
    obtain ⟨h1, h2⟩ := asInt?_re hm
    obtain ⟨h3, h4⟩ := asInt?_re hn
    refine ⟨?_, ?_⟩
    · rw [h1, h3, h2, h4]; simp [re]
    · rw [h2, h4]; simp [im]
  · simp only
    split
    · rename_i hk
      have ha := im_zero_of_rank (a := a) (by omega)
      have hb := im_zero_of_rank (a := b) (by omega)
      have := ofRank_re (max a.rank b.rank) (a.re * b.re) 0 (a.convExact && b.convExact) (fun _ => rfl)
      rw [this.1, this.2, ha, hb]; simp
    · simp [mkCplx, re, im]

/-- **arithmetic is blind to the spelling**: `+ - * neg` map `==` operands to `==` results -/
theorem arith_congr {a a' b b' : PyNum} (ha : a.eq a' = true) (hb : b.eq b' = true) :
    (a + b).eq (a' + b') = true ∧ (a - b).eq (a' - b') = true ∧ (a * b).eq (a' * b') = true ∧
      (-a).eq (-a') = true := by
  rw [eq_iff] at ha hb
  refine ⟨?_, ?_, ?_, ?_⟩ <;> rw [eq_iff] <;>
    simp only [(add_val _ _).1, (add_val _ _).2, (sub_val _ _).1, (sub_val _ _).2, (mul_val _ _).1, (mul_val _ _).2,
      (neg_val _).1, (neg_val _).2, ha.1, ha.2, hb.1, hb.2, and_self]

end PyNum


end ALV.C07
