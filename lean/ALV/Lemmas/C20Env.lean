/-
  C20 — the envelope through the C13 design: `lowpass(cutoff)` (`ALV.C13.lowpassPole`) read at `ℝ`
  is the one-pole section `(1 − R)/(1 − R z⁻¹)`, and the direct-form loop on its coefficient lists is
  the recursion `y[n] = (1 − R)·u[n] + R·y[n−1]`.
-/
import ALV.Lemmas.C13Shape
import ALV.Lemmas.C20Amdf
import ALV.Spec.C20

namespace ALV.C20
open ALV ALV.TrigField ALV.C13
set_option linter.unusedSectionVars false
set_option linter.unusedSimpArgs false

/-! ### the direct-form loop of a one-pole filter is the one-pole recursion -/
section field
variable {K : Type} [Field K]

theorem floop_onePole (g r : K) (us : List K) (m : K) :
    floop [g] [-r] ⟨[], [m]⟩ us = onePoleFrom g r m us := by
  induction us generalizing m with
  | nil => rfl
  | cons u us ih =>
    have hy : dot [g] (u :: ([] : List K)) - dot [-r] [m] = g * u + r * m := by
      simp only [dot]; ring
    simp only [floop, fstep, onePoleFrom, hy, List.length_nil, List.take_zero, List.length_cons,
      List.take_succ_cons]
    rw [ih]

/-- an empty numerator (the zero polynomial: `1 − R = 0` is not stored) gives gain `0` -/
theorem floop_onePole_nil (r : K) (us : List K) (m : K) :
    floop ([] : List K) [-r] ⟨[], [m]⟩ us = onePoleFrom 0 r m us := by
  induction us generalizing m with
  | nil => rfl
  | cons u us ih =>
    have hy : dot ([] : List K) (u :: ([] : List K)) - dot [-r] [m] = 0 * u + r * m := by
      simp only [dot]; ring
    simp only [floop, fstep, onePoleFrom, hy, List.length_nil, List.take_zero, List.length_cons,
      List.take_succ_cons]
    rw [ih]

theorem frun_onePole (g r : K) (us : List K) : frun [g] [-r] 0 us = onePoleFrom g r 0 us := by
  simpa [frun, finit] using floop_onePole g r us 0

theorem frun_onePole_nil (r : K) (us : List K) :
    frun ([] : List K) [-r] 0 us = onePoleFrom 0 r 0 us := by
  simpa [frun, finit] using floop_onePole_nil r us 0

/-- step response: a constant input `u` gives `u·(1 − R^(n+1))` at output `n` (unit DC gain: the
factor tends to 1 for `|R| < 1`) -/
theorem onePoleFrom_const (r u : K) (n : Nat) (p : Nat) :
    onePoleFrom (1 - r) r (u * (1 - r ^ p)) (List.replicate n u) =
      (List.range n).map fun k => u * (1 - r ^ (p + k + 1)) := by
  induction n generalizing p with
  | zero => rfl
  | succ n ih =>
    have h : (1 - r) * u + r * (u * (1 - r ^ p)) = u * (1 - r ^ (p + 1)) := by ring
    simp only [List.replicate_succ, onePoleFrom, h, List.range_succ_eq_map, List.map_cons,
      List.map_map]
    rw [ih (p + 1)]
    congr 1
    apply List.map_congr_left
    intro k _
    simp only [Function.comp]
    congr 3
    omega

/-- the one-pole recursion is causal and linear in its gain: closed form
`y[n] = g · Σ_{k ≤ n} r^k · u[n−k]` is the recursion unrolled — stated as the two-step identity -/
theorem onePoleFrom_length (g r m : K) (us : List K) : (onePoleFrom g r m us).length = us.length := by
  induction us generalizing m with
  | nil => rfl
  | cons u us ih => simp [onePoleFrom, ih]

/-! ### a non-zero memory value: the window starts full of `zero`, the running sum starts at `zero` -/

/-- the window recursion on a constant input equal to the memory value stays at that value -/
theorem mavgFrom_const (size : Nat) (hs : 0 < size) (h0 : (size : K) ≠ 0) (zero : K) (n : Nat) :
    mavgFrom size (List.replicate size zero) (List.replicate n zero) = List.replicate n zero := by
  have hw : (List.replicate size zero).drop 1 ++ [zero] = List.replicate size zero := by
    rw [List.drop_replicate, ← List.replicate_succ']
    congr 1; omega
  induction n with
  | zero => rfl
  | succ n ih =>
    simp only [List.replicate_succ, mavgFrom]
    rw [← List.replicate_succ, hw, ih, sumL_replicate]
    congr 1
    field_simp

/-- the first output: the window holds `size − 1` copies of `zero` and the first sample -/
theorem mavgFrom_first (size : Nat) (zero x : K) (xs : List K) :
    (mavgFrom size (List.replicate size zero) (x :: xs)).head? =
      some ((((size - 1 : Nat) : K) * zero + x) / (size : K)) := by
  simp only [mavgFrom, List.head?_cons, List.drop_replicate, sumL_append, sumL_replicate,
    sumL_cons, sumL_nil, add_zero]

theorem accLoop_shift (z s : K) (xs : List K) :
    accLoop (z + s) xs = (accLoop s xs).map (z + ·) := by
  induction xs generalizing s with
  | nil => rfl
  | cons x xs ih =>
    simp only [accLoop, List.map_cons, add_assoc]
    rw [← ih]

end field

/-! ### the C13 design at `ℝ` -/

/-- `x = 2 − cos c ≥ 1`, so the pole `R = x − sqrt(x² − 1)` is positive for EVERY cutoff -/
theorem envPole_pos (c : ℝ) : 0 < poleR (2 - Real.cos c) :=
  poleR_pos _ (by linarith [Real.cos_le_one c])

theorem envPole_le_one (c : ℝ) : poleR (2 - Real.cos c) ≤ 1 := by
  unfold poleR
  have hx : 1 ≤ 2 - Real.cos c := by linarith [Real.cos_le_one c]
  have h : 2 - Real.cos c - 1 ≤ Real.sqrt ((2 - Real.cos c) ^ 2 - 1) := by
    apply Real.le_sqrt_of_sq_le
    nlinarith
  linarith

theorem envPole_lt_one (c : ℝ) (h0 : 0 < c) (h1 : c < Real.pi) : poleR (2 - Real.cos c) < 1 :=
  poleR_lt_one _ (by linarith [cos_lt_one_of_mem c h0 h1])

/-- the generic `poleRadius` of the specification, read at `ℝ` -/
theorem poleRadius_real (c : ℝ) : poleRadius c = poleR (2 - Real.cos c) := by
  simp only [poleRadius, poleR, real_ofInt, real_cos, real_sqrt]
  norm_num
  ring_nf

/-- `lowpass(c)` as `(b, a)`: `b = [1 − R]` (nothing when `1 − R = 0`), `a = [−R]` -/
theorem poleDesign_real (c : ℝ) :
    poleDesign c = (if 1 - poleR (2 - Real.cos c) = 0 then [] else [1 - poleR (2 - Real.cos c)],
      [-poleR (2 - Real.cos c)]) := by
  have hR := (envPole_pos c).ne'
  have hnR : -poleR (2 - Real.cos c) ≠ 0 := neg_ne_zero.mpr hR
  unfold poleDesign
  rw [lowpassPole_eq]
  simp only [onePoleLP, C13.mk, trim_cons_real, C13.trim]
  simp [hnR]

/-! ### a cutoff per sample -/

theorem polePoint_real (c : ℝ) : polePoint c = poleR (2 - Real.cos c) := by
  simp [polePoint, poleR]

theorem envVarLoop_real (m : ℝ) (cs us : List ℝ) :
    envVarLoop m cs us = onePoleVarFrom m (cs.map poleRadius) us := by
  induction cs generalizing m us with
  | nil => cases us <;> rfl
  | cons c cs ih =>
    cases us with
    | nil => rfl
    | cons u us =>
      have hy : (C13.c1 - polePoint c) * u - (-polePoint c) * m =
          (TrigField.ofInt 1 - poleRadius c) * u + poleRadius c * m := by
        rw [polePoint_real, poleRadius_real]
        simp only [c1_real, real_ofInt, Int.cast_one]
        ring
      simp only [envVarLoop, onePoleVarFrom, List.map_cons, hy]
      rw [ih]

/-- a cutoff that does not change (and lasts as long as the input) gives the constant-cutoff recursion -/
theorem onePoleVarFrom_const (r m : ℝ) (n : Nat) (us : List ℝ) (h : us.length ≤ n) :
    onePoleVarFrom m (List.replicate n r) us = onePoleFrom (1 - r) r m us := by
  induction us generalizing m n with
  | nil => cases n <;> rfl
  | cons u us ih =>
    cases n with
    | zero => simp at h
    | succ n =>
      simp only [List.replicate_succ, onePoleVarFrom, onePoleFrom, real_ofInt, Int.cast_one]
      rw [ih _ n (by simpa using h)]

theorem onePoleVarFrom_length (m : ℝ) (rs us : List ℝ) :
    (onePoleVarFrom m rs us).length = min rs.length us.length := by
  induction rs generalizing m us with
  | nil => cases us <;> simp [onePoleVarFrom]
  | cons r rs ih =>
    cases us with
    | nil => simp [onePoleVarFrom]
    | cons u us => simp [onePoleVarFrom, ih, Nat.succ_min_succ]

end ALV.C20
