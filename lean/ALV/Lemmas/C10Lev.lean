/-
  C10 — helper lemmas, part 2: the Levinson–Durbin recursion as coded solves the Yule–Walker
  equations.  `Nf r a n i = Σ_{j<n} a_j · r|i−j|` is the left side of equation i,
  `bilT r n u v = Σ_{i<n} Σ_{j<n} r|i−j| · u_i · v_j` the inner product of the code.
-/
import ALV.Lemmas.C10

namespace ALV.C10
open Finset
variable {K : Type} [Field K]

theorem adiff_comm (i j : ℕ) : adiff i j = adiff j i := by
  unfold adiff; split <;> split <;> omega

theorem adiff_zero_left (j : ℕ) : adiff 0 j = j := by simp [adiff]

theorem adiff_reflect (m i j : ℕ) (hi : i ≤ m) (hj : j ≤ m) : adiff (m - i) (m - j) = adiff i j := by
  unfold adiff; split <;> split <;> omega

theorem adiff_shift (m i j : ℕ) (hi : i ≤ m) (hj : j ≤ m) : adiff i (m - j) = adiff (m - i) j := by
  unfold adiff; split <;> split <;> omega

/-- left side of the i-th normal equation, for a coefficient function -/
def Nf (r : List K) (a : ℕ → K) (n i : ℕ) : K := ∑ j ∈ range n, a j * coef r (adiff i j)

/-- the inner product of `levinson_durbin` on coefficient functions -/
def bilT (r : List K) (n : ℕ) (u v : ℕ → K) : K :=
  ∑ i ∈ range n, ∑ j ∈ range n, coef r (adiff i j) * u i * v j

theorem bilT_eq_sum_Nf (r : List K) (n : ℕ) (u v : ℕ → K) :
    bilT r n u v = ∑ i ∈ range n, u i * Nf r v n i := by
  unfold bilT Nf
  refine Finset.sum_congr rfl fun i _ => ?_
  rw [Finset.mul_sum]
  refine Finset.sum_congr rfl fun j _ => ?_
  ring

theorem bilT_symm (r : List K) (n : ℕ) (u v : ℕ → K) : bilT r n u v = bilT r n v u := by
  unfold bilT
  rw [Finset.sum_comm]
  refine Finset.sum_congr rfl fun i _ => Finset.sum_congr rfl fun j _ => ?_
  rw [adiff_comm]; ring

/-- if `u` is monic and every equation 1..n-1 either holds or carries a zero weight, then
    `⟨u,u⟩ = Σ_j u_j r_j` -/
theorem bilT_self_of_normal (r : List K) (n : ℕ) (u : ℕ → K) (hn : 0 < n) (h0 : u 0 = 1)
    (h : ∀ i, 1 ≤ i → i < n → u i = 0 ∨ Nf r u n i = 0) : bilT r n u u = Nf r u n 0 := by
  obtain ⟨k, rfl⟩ : ∃ k, n = k + 1 := ⟨n - 1, by omega⟩
  rw [bilT_eq_sum_Nf, Finset.sum_range_succ', h0, one_mul]
  rw [Finset.sum_eq_zero, zero_add]
  intro i hi
  rcases h (i + 1) (by omega) (by simpa using hi) with h1 | h1 <;> simp [h1]

theorem bilT_reflect (r : List K) (m : ℕ) (a b : ℕ → K) (hb : ∀ j, j ≤ m → b j = a (m - j)) :
    bilT r (m + 1) b b = bilT r (m + 1) a a := by
  unfold bilT
  rw [← Finset.sum_range_reflect]
  refine Finset.sum_congr rfl fun i hi => ?_
  rw [← Finset.sum_range_reflect]
  refine Finset.sum_congr rfl fun j hj => ?_
  have hi' : i ≤ m := by simpa [Nat.lt_succ_iff] using hi
  have hj' : j ≤ m := by simpa [Nat.lt_succ_iff] using hj
  simp only [Nat.add_sub_cancel]
  rw [adiff_reflect m i j hi' hj', hb (m - i) (by omega), hb (m - j) (by omega)]
  congr 2 <;> congr 1 <;> omega

theorem Nf_reflect (r : List K) (m : ℕ) (a b : ℕ → K) (hb : ∀ j, j ≤ m → b j = a (m - j))
    (i : ℕ) (hi : i ≤ m) : Nf r b (m + 1) i = Nf r a (m + 1) (m - i) := by
  unfold Nf
  rw [← Finset.sum_range_reflect]
  refine Finset.sum_congr rfl fun j hj => ?_
  have hj' : j ≤ m := by simpa [Nat.lt_succ_iff] using hj
  simp only [Nat.add_sub_cancel]
  rw [hb (m - j) (by omega), adiff_shift m i j hi hj']
  congr 2; omega

theorem Nf_sub_smul (r : List K) (a b : ℕ → K) (c : K) (n i : ℕ) :
    Nf r (fun j => a j - c * b j) n i = Nf r a n i - c * Nf r b n i := by
  unfold Nf
  rw [Finset.mul_sum, ← Finset.sum_sub_distrib]
  refine Finset.sum_congr rfl fun j _ => ?_
  ring

theorem Nf_succ_of_zero (r : List K) (a : ℕ → K) (n i : ℕ) (h : a n = 0) :
    Nf r a (n + 1) i = Nf r a n i := by
  unfold Nf; rw [Finset.sum_range_succ, h]; simp

theorem Nf_congr (r : List K) (a b : ℕ → K) (n i : ℕ) (h : ∀ j, j < n → a j = b j) :
    Nf r a n i = Nf r b n i := by
  unfold Nf
  exact Finset.sum_congr rfl fun j hj => by rw [h j (by simpa using hj)]

/-- the zero extension makes every read `acdata[abs(i-j)]` (i, j ≤ order) an in-range read -/
theorem zeroExt_length (r : List K) (p : ℕ) : p + 1 ≤ (zeroExt r p).length := by
  unfold zeroExt
  split
  · simp; omega
  · omega

theorem adiff_le_max (i j : ℕ) : adiff i j ≤ max i j := by
  unfold adiff; split <;> omega

/-! ### the list-level inner product -/

theorem inner_eq_sum (r a b : List K) :
    inner r a b = ∑ i ∈ range a.length, ∑ j ∈ range b.length,
      coef r (adiff i j) * coef a i * coef b j := by
  unfold inner
  exact sumL_flatMap_range _ _ _

theorem inner_eq_bilT (r a b : List K) (n : ℕ) (ha : a.length ≤ n) (hb : b.length ≤ n) :
    inner r a b = bilT r n (coef a) (coef b) := by
  rw [inner_eq_sum]
  unfold bilT
  rw [← Finset.sum_subset (Finset.range_mono ha)]
  · refine Finset.sum_congr rfl fun i _ => ?_
    refine Finset.sum_subset (Finset.range_mono hb) fun j _ hj => ?_
    rw [coef_of_length_le b j (by simpa using hj)]; ring
  · intro i _ hi
    rw [coef_of_length_le a i (by simpa using hi)]
    simp

section dec
variable [DecidableEq K]

omit [DecidableEq K] in
/-- `⟨A, z^-m⟩` is the left side of equation m -/
theorem inner_delay (r A : List K) (m : ℕ) (hA : A.length ≤ m + 1) :
    inner r A (delay m) = Nf r (coef A) (m + 1) m := by
  rw [inner_eq_bilT r A (delay m) (m + 1) hA (by rw [delay_length])]
  unfold bilT Nf
  refine Finset.sum_congr rfl fun i _ => ?_
  rw [Finset.sum_eq_single m]
  · rw [coef_delay, if_pos rfl, adiff_comm]; ring
  · intro j _ hj; rw [coef_delay, if_neg hj]; ring
  · intro h; exact absurd (by simp) h

/-- invariant of the `for m` loop after the passes 1..m -/
structure LevInv (r : List K) (m : ℕ) (A : List K) : Prop where
  a0 : coef A 0 = 1
  len : A.length ≤ m + 1
  ne : ∀ i, 1 ≤ i → i ≤ m → Nf r (coef A) (m + 1) i = 0

omit [DecidableEq K] in
theorem LevInv.coef_top {r : List K} {m : ℕ} {A : List K} (h : LevInv r m A) (j : ℕ)
    (hj : m + 1 ≤ j) : coef A j = 0 := coef_of_length_le A j (h.len.trans hj)

omit [DecidableEq K] in
/-- the value of `inner(A, A)`: the error the normal equations assign -/
theorem LevInv.inner_self {r : List K} {m : ℕ} {A : List K} (h : LevInv r m A) :
    inner r A A = Nf r (coef A) (m + 1) 0 := by
  rw [inner_eq_bilT r A A (m + 1) h.len h.len]
  exact bilT_self_of_normal r (m + 1) (coef A) (by omega) h.a0
    fun i h1 h2 => Or.inr (h.ne i h1 (by omega))

/-- Toeplitz symmetry: the divisor `⟨B,B⟩` of pass m+1 is the current prediction error -/
theorem LevInv.inner_rev {r : List K} {m : ℕ} {A : List K} (h : LevInv r m A) :
    inner r (revShift (m + 1) A) (revShift (m + 1) A) = Nf r (coef A) (m + 1) 0 := by
  rw [inner_eq_bilT r _ _ (m + 2) (revShift_length _ _) (revShift_length _ _)]
  rw [bilT_reflect r (m + 1) (coef A) (coef (revShift (m + 1) A))
    (fun j hj => by rw [coef_revShift, if_pos hj])]
  rw [bilT_self_of_normal r (m + 2) (coef A) (by omega) h.a0, Nf_succ_of_zero _ _ _ _ (h.coef_top _ le_rfl)]
  intro i h1 h2
  by_cases hi : i ≤ m
  · right; rw [Nf_succ_of_zero _ _ _ _ (h.coef_top _ le_rfl)]; exact h.ne i h1 hi
  · left; exact h.coef_top i (by omega)

theorem levStep_inv {r : List K} {m : ℕ} {A A' : List K} (h : LevInv r m A)
    (hs : levStep r (m + 1) A = .ok A') : LevInv r (m + 1) A' := by
  unfold levStep at hs
  simp only at hs
  split at hs
  · cases hs
  · next hden =>
    injection hs with hs
    subst hs
    have htop : coef A (m + 1) = 0 := h.coef_top _ le_rfl
    have hB : ∀ j, j ≤ m + 1 → coef (revShift (m + 1) A) j = coef A (m + 1 - j) :=
      fun j hj => by rw [coef_revShift, if_pos hj]
    rw [h.inner_rev] at hden ⊢
    rw [inner_delay r A (m + 1) (h.len.trans (by omega))]
    set E := Nf r (coef A) (m + 1) 0 with hE
    set D := Nf r (coef A) (m + 1 + 1) (m + 1) with hD
    refine ⟨?_, ?_, ?_⟩
    · rw [coef_subScaled, hB 0 (by omega), h.a0, Nat.sub_zero, htop]; ring
    · refine (subScaled_length _ _ _).trans ?_
      have := revShift_length (m + 1) A
      have := h.len
      omega
    · intro i h1 h2
      have hfun : coef (subScaled A (D / E) (revShift (m + 1) A)) =
          fun j => coef A j - D / E * coef (revShift (m + 1) A) j :=
        funext fun j => coef_subScaled _ _ _ _
      rw [hfun, Nf_sub_smul, Nf_reflect r (m + 1) (coef A) _ hB i h2]
      by_cases hi : i ≤ m
      · rw [Nf_succ_of_zero _ _ _ _ htop, Nf_succ_of_zero _ _ _ _ htop, h.ne i h1 hi,
          h.ne (m + 1 - i) (by omega) (by omega)]
        ring
      · have : i = m + 1 := by omega
        subst this
        rw [Nat.sub_self, Nf_succ_of_zero r (coef A) (m + 1) 0 htop, ← hE, ← hD]
        field_simp
        ring

theorem levInv_zero (r : List K) : LevInv r 0 ([1] : List K) := by
  refine ⟨by simp [coef], by simp, ?_⟩
  intro i h1 h2; omega

theorem levIter_inv (r : List K) (m : ℕ) (A : List K) (h : levIter r m = .ok A) : LevInv r m A := by
  induction m generalizing A with
  | zero =>
    simp only [levIter] at h
    injection h with h; subst h; exact levInv_zero r
  | succ m ih =>
    simp only [levIter] at h
    cases hA : levIter r m with
    | error e => rw [hA] at h; cases h
    | ok A0 =>
      rw [hA] at h
      exact levStep_inv (ih A0 hA) h

/-! ### the spec-level sums -/

omit [DecidableEq K] in
theorem neResidual_eq (r a : List K) (p i : ℕ) : neResidual r a p i = Nf r (coef a) (p + 1) i := by
  unfold neResidual Nf; rw [sumL_map_range]

omit [DecidableEq K] in
theorem predError_eq (r a : List K) (p : ℕ) : predError r a p = Nf r (coef a) (p + 1) 0 := by
  unfold predError Nf; rw [sumL_map_range]
  exact Finset.sum_congr rfl fun j _ => by rw [adiff_zero_left]

omit [DecidableEq K] in
theorem Nf_congr_r (r r' : List K) (a : ℕ → K) (n i : ℕ) (h : ∀ k, coef r k = coef r' k) :
    Nf r a n i = Nf r' a n i := by
  unfold Nf; exact Finset.sum_congr rfl fun j _ => by rw [h]

omit [DecidableEq K] in
theorem IsYuleWalker_of_inv {r : List K} {p : ℕ} {A : List K} (h : LevInv r p A) :
    IsYuleWalker r A p :=
  ⟨h.a0, h.len, fun i h1 h2 => by rw [neResidual_eq]; exact h.ne i h1 h2⟩

/-- unfolding of `levinson` for a definite order -/
theorem levinson_some_ok {r : List K} {p : ℕ} {a : List K} {e : K}
    (h : levinson r (some p) = .ok (a, e)) :
    levIter (zeroExt r p) p = .ok a ∧ e = inner (zeroExt r p) a a := by
  simp only [levinson] at h
  cases hA : levIter (zeroExt r p) p with
  | error e' => rw [hA] at h; cases h
  | ok A0 =>
    rw [hA] at h
    injection h with h
    injection h with h1 h2
    subst h1
    exact ⟨rfl, h2.symm⟩

theorem levinson_none_ok {r : List K} {a : List K} {e : K}
    (h : levinson r none = .ok (a, e)) :
    r.length ≠ 0 ∧ levIter r (r.length - 1) = .ok a ∧ e = inner r a a := by
  simp only [levinson] at h
  split at h
  · cases h
  · next hl =>
    cases hA : levIter r (r.length - 1) with
    | error e' => rw [hA] at h; cases h
    | ok A0 =>
      rw [hA] at h
      injection h with h
      injection h with h1 h2
      subst h1
      exact ⟨hl, rfl, h2.symm⟩

omit [DecidableEq K] in
theorem levInv_zeroExt {r : List K} {p q : ℕ} {A : List K} (h : LevInv (zeroExt r q) p A) :
    LevInv r p A :=
  ⟨h.a0, h.len, fun i h1 h2 => by
    rw [← Nf_congr_r (zeroExt r q) r _ _ _ (coef_zeroExt r q)]; exact h.ne i h1 h2⟩

end dec
end ALV.C10
