/-
  C10 — helper lemmas, part 12: the model parameterised by `sum` (`ALV/Model/C10Float.lean`)
  * with `S = sumL` IS the model of `ALV/Model/C10.lean`, for any carrier with the operations (no
    law of arithmetic is used: `Rat`, a field, `F64`);
  * CPython's compensated float `sum` (`sumN`) over exact operations (a ring) is the plain `sum`,
    whatever the comparison `fabs(f) >= fabs(x)` and the finiteness test answer.
-/
import Mathlib.Tactic.Abel
import Mathlib.Algebra.Field.Basic
import ALV.Model.C10Float

set_option linter.unusedSectionVars false

namespace ALV.C10

section carrier
variable {α : Type} [Add α] [Mul α] [Sub α] [Neg α] [Div α] [OfNat α 0] [OfNat α 1]

theorem acorrS_sumL (blk : List α) (o : Option Nat) : acorrS sumL blk o = acorr blk o := rfl

theorem lagTableS_sumL (blk : List α) (L : Nat) : lagTableS sumL blk L = lagTable blk L := rfl

theorem lagMatrixS_sumL (blk : List α) (o : Option Nat) : lagMatrixS sumL blk o = lagMatrix blk o := rfl

variable [DecidableEq α]

theorem innerS_sumL (r a b : List α) : innerS sumL r a b = inner r a b := rfl

theorem levStepS_sumL (r : List α) (m : Nat) (A : List α) : levStepS sumL r m A = levStep r m A := rfl

theorem levIterS_sumL (r : List α) : ∀ n, levIterS sumL r n = levIter r n
  | 0 => rfl
  | n + 1 => by
    unfold levIterS levIter
    rw [levIterS_sumL r n]
    rfl

theorem levinsonS_sumL (r : List α) (o : Option Nat) : levinsonS sumL r o = levinson r o := by
  cases o with
  | none => unfold levinsonS levinson; simp only [levIterS_sumL]; rfl
  | some p => unfold levinsonS levinson; simp only [levIterS_sumL]; rfl

theorem kautocorS_sumL (blk : List α) (o : Option Nat) : kautocorS sumL blk o = kautocor blk o := by
  unfold kautocorS kautocor
  rw [levinsonS_sumL, acorrS_sumL]

theorem innerMS_sumL (phi : List (List α)) (a b : List α) : innerMS sumL phi a b = innerM phi a b := rfl

theorem kcUpdateS_sumL (phi : List (List α)) (u : α → Bool) (m : Nat) (s : KState α) :
    kcUpdateS sumL phi u m s = kcUpdate phi u m s := rfl

theorem kcExtendS_sumL (phi : List (List α)) (m : Nat) (s : KState α) :
    kcExtendS sumL phi m s = kcExtend phi m s := rfl

theorem kcIterS_sumL (phi : List (List α)) (u : α → Bool) : ∀ n, kcIterS sumL phi u n = kcIter phi u n
  | 0 => rfl
  | n + 1 => by
    unfold kcIterS kcIter
    rw [kcIterS_sumL phi u n]
    rfl

theorem kcovarOnS_sumL (phi : List (List α)) (u : α → Bool) : kcovarOnS sumL phi u = kcovarOn phi u := by
  unfold kcovarOnS kcovarOn
  simp only [kcIterS_sumL]
  rfl

theorem kcovarWithS_sumL (u : α → Bool) (blk : List α) (o : Option Nat) :
    kcovarWithS sumL u blk o = kcovarWith u blk o := by
  unfold kcovarWithS kcovarWith
  simp only [kcovarOnS_sumL, lagMatrixS_sumL]

end carrier

/-! ### the compensated sum over exact operations -/

section ring
variable {K : Type} [Ring K]

theorem neuStep_exact (ge : K → K → Bool) (f x : K) : neuStep ge (f, 0) x = (f + x, 0) := by
  unfold neuStep
  simp only []
  split <;> (congr 1; abel)

theorem foldl_neuStep_exact (ge : K → K → Bool) (l : List K) (f : K) :
    l.foldl (neuStep ge) (f, 0) = (l.foldl (· + ·) f, 0) := by
  induction l generalizing f with
  | nil => rfl
  | cons x xs ih => rw [List.foldl_cons, neuStep_exact, ih, List.foldl_cons]

/-- over a ring the correction term stays zero: CPython's float `sum` is the plain left fold -/
theorem sumN_exact [DecidableEq K] (ge : K → K → Bool) (fin : K → Bool) (l : List K) :
    sumN ge fin l = sumL l := by
  unfold sumN sumL
  rw [foldl_neuStep_exact]
  simp

theorem sumN_exact_fun [DecidableEq K] (ge : K → K → Bool) (fin : K → Bool) :
    (sumN ge fin : List K → K) = sumL := funext (sumN_exact ge fin)

end ring

end ALV.C10
