/-
  C11 — helper lemmas, part 3: Schur–Cohn.  Real coefficients, complex roots.

  For `a = stepUp ks` write  Q(z) = Σ a_i z^i  (`evalC a z`)  and  P(z) = Σ a_i z^(n-i)
  (`evalC a.reverse z`, the polynomial whose roots are the poles of 1/A(z⁻¹)).  One order update
  with a real `k` gives          P' = z·P + k·Q,      Q' = Q + k·z·P,
  hence  |P'|² − |Q'|² = (1 − k²)(|z|²|P|² − |Q|²).  By induction, if every |k| < 1 then for all
  |z| ≥ 1:  |Q(z)| ≤ |P(z)|  and  P(z) ≠ 0  — all poles lie strictly inside the unit circle.
  (No Rouché needed for this direction.)
-/
import ALV.Lemmas.C11Coded
import Mathlib.Data.Complex.Basic
import Mathlib.Tactic.Linarith
import Mathlib.Tactic.Positivity

set_option linter.unusedSectionVars false
set_option linter.unusedVariables false

namespace ALV.C11
open Complex

/-- value at `z ∈ ℂ` of the polynomial with real coefficient list `a` (index = power of `z`) -/
noncomputable def evalC (a : List ℝ) (z : ℂ) : ℂ := evalPoly (a.map Complex.ofReal) z

@[simp] theorem evalC_nil (z : ℂ) : evalC [] z = 0 := rfl
@[simp] theorem evalC_cons (c : ℝ) (t : List ℝ) (z : ℂ) : evalC (c :: t) z = (c : ℂ) + z * evalC t z := rfl

theorem evalC_append_zero (a : List ℝ) (z : ℂ) : evalC (a ++ [0]) z = evalC a z := by
  induction a with
  | nil => simp
  | cons c t ih => simp [ih]

theorem evalC_append (a b : List ℝ) (z : ℂ) :
    evalC (a ++ b) z = evalC a z + z ^ a.length * evalC b z := by
  induction a with
  | nil => simp
  | cons c t ih => simp [ih, pow_succ]; ring

theorem evalC_zipWith (k : ℝ) : ∀ (u v : List ℝ), u.length = v.length → ∀ z : ℂ,
    evalC (List.zipWith (fun x y => x + k * y) u v) z = evalC u z + (k : ℂ) * evalC v z
  | [], [], _, z => by simp
  | [], _ :: _, h, _ => by simp at h
  | _ :: _, [], h, _ => by simp at h
  | x :: u, y :: v, h, z => by
    simp only [List.zipWith_cons_cons, evalC_cons, evalC_zipWith k u v (by simpa using h) z]
    push_cast
    ring

theorem evalC_scale (c : ℝ) (a : List ℝ) (z : ℂ) : evalC (scale c a) z = (c : ℂ) * evalC a z := by
  induction a with
  | nil => simp [scale]
  | cons x t ih =>
    simp only [scale, List.map_cons, evalC_cons] at ih ⊢
    rw [ih]; push_cast; ring

theorem evalC_map_div (g : ℝ) (a : List ℝ) (z : ℂ) :
    evalC (a.map (fun x => x / g)) z = evalC a z / (g : ℂ) := by
  induction a with
  | nil => simp
  | cons x t ih =>
    simp only [List.map_cons, evalC_cons, ih]
    push_cast
    ring

/-- the two polynomials after one order update -/
theorem evalC_stepUp1 (a : List ℝ) (k : ℝ) (z : ℂ) :
    evalC (stepUp1 a k) z = evalC a z + (k : ℂ) * (z * evalC a.reverse z) := by
  unfold stepUp1
  rw [evalC_zipWith k _ _ (by simp), evalC_append_zero, evalC_cons]
  simp

theorem evalC_stepUp1_reverse (a : List ℝ) (k : ℝ) (z : ℂ) :
    evalC (stepUp1 a k).reverse z = z * evalC a.reverse z + (k : ℂ) * evalC a z := by
  rw [stepUp1_eq, reverse_zipWith_self, evalC_zipWith k _ _ (by simp)]
  rw [List.reverse_append, List.reverse_singleton, List.singleton_append, evalC_cons,
    evalC_append_zero]
  simp

/-- the algebraic heart: `|w + kq|² − |q + kw|² = (1 − k²)(|w|² − |q|²)` for real `k` -/
theorem normSq_update (w q : ℂ) (k : ℝ) :
    normSq (w + (k : ℂ) * q) - normSq (q + (k : ℂ) * w) = (1 - k * k) * (normSq w - normSq q) := by
  simp only [normSq_apply, add_re, add_im, mul_re, mul_im, ofReal_re, ofReal_im]
  ring

/-- **Schur–Cohn, sufficiency, every order**: if all reflection coefficients satisfy `|k| < 1`, then
on and outside the unit circle `|Q| ≤ |P|` and `P` has no zero. -/
theorem stepUp_no_root_outside (ks : List ℝ) (hk : ∀ k ∈ ks, -1 < k ∧ k < 1) (z : ℂ)
    (hz : 1 ≤ normSq z) :
    normSq (evalC (stepUp ks) z) ≤ normSq (evalC (stepUp ks).reverse z) ∧
      evalC (stepUp ks).reverse z ≠ 0 := by
  induction ks using List.reverseRecOn with
  | nil => simp [stepUp, evalC, evalPoly]
  | append_singleton ks k ih =>
    obtain ⟨ihle, ihne⟩ := ih (fun x hx => hk x (by simp [hx]))
    obtain ⟨hk1, hk2⟩ := hk k (by simp)
    have hkk : 0 < 1 - k * k := by nlinarith
    set P := evalC (stepUp ks).reverse z with hP
    set Q := evalC (stepUp ks) z with hQ
    rw [stepUp_append, evalC_stepUp1, evalC_stepUp1_reverse, ← hP, ← hQ]
    have hPpos : 0 < normSq P := normSq_pos.mpr ihne
    have hzP : normSq (z * P) = normSq z * normSq P := map_mul normSq z P
    have key := normSq_update (z * P) Q k
    constructor
    · have : 0 ≤ (1 - k * k) * (normSq (z * P) - normSq Q) := by
        apply mul_nonneg hkk.le
        rw [hzP]; nlinarith
      linarith
    · intro h0
      -- z P = -k Q, so |z|²|P|² = k²|Q|² ≤ k²|P|² < |P|²
      have h1 : z * P = -((k : ℂ) * Q) := by linear_combination h0
      have h2 : normSq (z * P) = k * k * normSq Q := by
        rw [h1, normSq_neg, map_mul, normSq_ofReal]
      rw [hzP] at h2
      have hQnn : 0 ≤ normSq Q := normSq_nonneg Q
      nlinarith

/-! ### from the stability verdict to the pole polynomial -/

theorem exists_stripZeros_append (f : List ℝ) : ∃ j, f = stripZeros f ++ List.replicate j 0 := by
  refine ⟨(f.reverse.takeWhile (fun x => decide (x = 0))).length, ?_⟩
  have h := List.takeWhile_append_dropWhile (p := fun x : ℝ => decide (x = 0)) (l := f.reverse)
  have ht : f.reverse.takeWhile (fun x => decide (x = 0))
      = List.replicate (f.reverse.takeWhile (fun x => decide (x = 0))).length 0 := by
    rw [List.eq_replicate_iff]
    refine ⟨rfl, fun b hb => ?_⟩
    have hall := List.all_takeWhile (p := fun x : ℝ => decide (x = 0)) (l := f.reverse)
    rw [List.all_eq_true] at hall
    simpa using hall b hb
  have : f = (f.reverse.dropWhile (fun x => decide (x = 0))).reverse
      ++ (f.reverse.takeWhile (fun x => decide (x = 0))).reverse := by
    rw [← List.reverse_append, h, List.reverse_reverse]
  conv_lhs => rw [this]
  unfold stripZeros
  congr 1
  rw [ht, List.reverse_replicate, List.length_replicate]

theorem evalC_replicate_zero (j : Nat) (z : ℂ) : evalC (List.replicate j 0) z = 0 := by
  induction j with
  | zero => simp
  | succ j ih => simp [List.replicate_succ, ih]

/-- reading the verdict of the specification -/
theorem parcorStableSpec_true_iff (den : List ℝ) :
    parcorStableSpec den = true ↔
      (parcorSpec den).2 = false ∧ ∀ k ∈ (parcorSpec den).1, -1 < k ∧ k < 1 := by
  unfold parcorStableSpec
  simp [List.all_eq_true]

/-- **all |k| < 1 ⇒ every pole strictly inside the unit circle** (every order; the poles are the
roots of `Σ den_i z^(n-i)` = `evalC den.reverse`) -/
theorem stableSpec_poles_inside (den t : List ℝ) (g : ℝ) (hg : g ≠ 0) (hs : stripZeros den = g :: t)
    (h : parcorStableSpec den = true) (z : ℂ) (hz : evalC den.reverse z = 0) : normSq z < 1 := by
  by_contra hcon
  have hz1 : 1 ≤ normSq z := not_lt.mp hcon
  obtain ⟨hr, hk⟩ := (parcorStableSpec_true_iff den).mp h
  -- rebuild the monic filter from the coefficients
  obtain ⟨ks, hks⟩ : ∃ ks, parcorSpec den = (ks, false) := ⟨_, Prod.ext rfl hr⟩
  rw [hks] at hk
  have hsd : parcorSpec den = sdLoop t.length (1 :: t.map (fun x => x / g)) := by
    unfold parcorSpec
    rw [hs, monic_cons g t hg]
    simp
  have hreb : stepUp ks.reverse = monic (g :: t) := by
    rw [monic_cons g t hg]
    exact stepUp_sdLoop t.length _ _ (by simp) (by rw [← hsd]; exact hks)
  have hno := (stepUp_no_root_outside ks.reverse
    (fun k hk' => hk k (by simpa using hk')) z hz1).2
  rw [hreb] at hno
  -- the monic filter is the stripped one divided by g; den is the stripped one plus zeros
  have hm : monic (g :: t) = (g :: t).map (fun x => x / g) := by simp [monic]
  rw [hm, ← List.map_reverse, evalC_map_div] at hno
  obtain ⟨j, hj⟩ := exists_stripZeros_append den
  rw [hs] at hj
  rw [hj, List.reverse_append, List.reverse_replicate, evalC_append, evalC_replicate_zero,
    List.length_replicate, zero_add] at hz
  have hz0 : z ≠ 0 := by
    intro h0; rw [h0] at hz1; simp at hz1; linarith
  have : evalC (g :: t).reverse z = 0 := by
    rcases mul_eq_zero.mp hz with h1 | h1
    · exact absurd (pow_eq_zero_iff (n := j) (by
        intro hj0; subst hj0; simp at h1) |>.mp h1) hz0
    · exact h1
  apply hno
  rw [this, zero_div]

end ALV.C11
