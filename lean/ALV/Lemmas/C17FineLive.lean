/-
  C17 — liveness of the fine-grained system (no iterable raises): a thread is enabled in the fine
  system exactly when it is in the coarse state it carries (so terminal states correspond), and
  every fine step decreases the rank `phiF` = coarse rank + samples of the calls still to be issued
  + samples still to be pulled.  Every fine run is therefore finite and the liveness theorems of
  the coarse system (`ALV.Lemmas.C17Shutdown/Paused/Wait`) carry over.  Core Lean only.
-/
import ALV.Lemmas.C17Fine
import ALV.Lemmas.C17Shutdown
namespace ALV.C17

/-! ### enabledness -/

theorem enabledF_eq (fc : FCfg) (fs : FState) (inv : AllF genView fs (Ref fc)) (t : Tid) :
    enabledF fc fs t = enabled fc.cfg fs.base t := by
  cases t with
  | main => simp [enabledF, enabled, stepF, step, stepMainF]
  | player i =>
    simp only [enabledF, enabled, stepF, step]
    unfold stepPlayerF
    cases hp : fs.base.players[i]? with
    | none => simp [stepPlayer, hp]
    | some p =>
      cases ha : fs.asm[i]? with
      | none =>
        exfalso
        have h1 := lt_of_getElem? hp
        rw [List.getElem?_eq_none_iff] at ha
        have := inv.1
        omega
      | some a =>
        have hR := inv.2 i p a hp ha
        simp only
        cases hpc : p.pc
        case write =>
          -- the coarse step needs a chunk in `todo`
          have hw : atW p = true := by simp [atW, hpc]
          have hne := hR.busy hw
          have ht := hR.todo
          have hfl := hR.fl
          simp only [genView, core] at ht hfl
          cases hf : a.fail with
          | true =>
            -- an iterable that raises: the coarse `write` step is a write or the exception
            have hpf : p.fail = true := by rw [← hfl]; exact hf
            simp only [stepPlayer, hp, hpc]
            cases hh : p.todo with
            | nil => simp only [hpf, if_true, Option.isSome_some]; split <;> (try split) <;> rfl
            | cons c tl => simp only [Option.isSome_some]; split <;> (try split) <;> rfl
          | false =>
          have hne : a.buf ++ a.rest ≠ [] := by
            rcases hne with h | h
            · exact h
            · rw [hf] at h; cases h
          rw [hf, playChunks_false] at ht
          have hiso := chunksOf_nil_iff p.cs hR.pos (a.buf ++ a.rest)
          rw [← ht] at hiso
          have htne : p.todo ≠ [] := by
            intro e; rw [e] at hiso
            simp only [List.isEmpty_nil] at hiso
            exact hne (List.isEmpty_iff.mp hiso.symm)
          have h1 : ∃ c tl, p.todo = c :: tl := by
            cases hh : p.todo with
            | nil => exact absurd hh htne
            | cons c tl => exact ⟨c, tl, rfl⟩
          obtain ⟨c, tl, hct⟩ := h1
          simp only [stepPlayer, hp, hpc, hct, Option.isSome_some]
          split
          · rfl
          · split <;> rfl
        all_goals (simp [stepPlayer, hp, hpc]; try (split <;> rfl))

theorem terminalF_eq (fc : FCfg) (fs : FState) (inv : AllF genView fs (Ref fc)) :
    terminalF fc fs = terminal fc.cfg fs.base := by
  unfold terminalF terminal
  congr 1
  funext t
  rw [enabledF_eq fc fs inv t]

/-! ### the rank -/

/-- samples of the `play` calls still to be issued -/
def audW : List Cmd → Nat
  | [] => 0
  | .play a _ :: l => a.length + audW l
  | .ctl _ _ :: l => audW l
  | .join _ :: l => audW l
  | .close :: l => audW l

def curA : MPc → Nat
  | .pAcq a _ => a.length
  | _ => 0

def pendA (s : State) : Nat := curA s.mpc + audW s.script

def phiF (fc : FCfg) (fs : FState) : Nat := phi fc.cfg fs.base + pendA fs.base + restSum fs.asm

theorem pendA_nextCmd (sc : List Cmd) : ∀ (X : State), pendA (nextCmd X sc) = audW sc := by
  induction sc with
  | nil => intro X; simp [nextCmd, pendA, curA, audW]
  | cons c rest ih =>
    intro X
    cases c with
    | play a c => simp [nextCmd, pendA, curA, audW]
    | close => simp [nextCmd, pendA, curA, audW]
    | ctl k i =>
      simp only [nextCmd]; split
      · simp [pendA, curA, audW]
      · rw [ih]; simp [audW]
    | join i =>
      simp only [nextCmd]; split
      · simp [pendA, curA, audW]
      · rw [ih]; simp [audW]

/-- a step of the control script consumes the samples of the call it completes (`play`: they move
    to the new player's iterable, or are dropped when `play` raises) -/
theorem pendA_stepMain (cfg : Cfg) (s s' : State) (h : stepMain cfg s = some s') :
    pendA s' + curA s.mpc = pendA s := by
  unfold stepMain at h
  cases hm : s.mpc <;> simp only [hm] at h <;>
    (try split at h) <;> (try split at h) <;> (try split at h) <;> (try cases h) <;>
  (first
    | (simp only [pendA, curA, hm, setP]; omega)
    | (rw [pendA_nextCmd]; simp only [pendA, curA, hm]; omega)
    | (unfold State.next; rw [pendA_nextCmd]; simp only [pendA, curA, hm, setP]; omega)
    | (simp only [pendA, hm, setP]; split <;> simp only [curA] <;> omega))

theorem restSum_append (asm : List Asm) (a : Asm) :
    restSum (asm ++ [a]) = restSum asm + a.rest.length := by
  simp [restSum]

theorem phiF_stepMainF (fc : FCfg) (script : List Cmd) (fs fs' : FState)
    (h : stepMainF fc fs = some fs') (hr : Reach fc.cfg script fs.base)
    (inv : AllF genView fs (Ref fc)) : phiF fc fs' < phiF fc fs := by
  unfold stepMainF at h
  cases hs : stepMain fc.cfg fs.base with
  | none => rw [hs] at h; cases h
  | some s' =>
    rw [hs] at h
    cases h
    have hphi : phi fc.cfg s' < phi fc.cfg fs.base := phi_step (t := .main) hr hs
    have hpend := pendA_stepMain fc.cfg fs.base s' hs
    unfold phiF
    simp only
    rcases stepMain_core fc.cfg fs.base s' hs with hm | ⟨a, c, hpa, hm⟩
    · have hlen : s'.players.length = fs.base.players.length := by
        have := congrArg List.length hm; simpa using this
      have hnone : s'.players[fs.asm.length]? = none := by
        rw [List.getElem?_eq_none]; have := inv.1; omega
      have hsync : syncAsm fc s'.players fs.asm = fs.asm := by simp [syncAsm, hnone]
      rw [hsync]; omega
    · generalize (fc.cfg.fails.getD fs.base.players.length false) = f at hm
      have hsome : s'.players[fs.asm.length]? = some (freshPlayer a c f) := by
        rw [hm, inv.1]; simp
      have hsync : syncAsm fc s'.players fs.asm =
          fs.asm ++ [newAsm fc fs.asm.length (freshPlayer a c f)] := by simp [syncAsm, hsome]
      rw [hsync, restSum_append]
      have : (newAsm fc fs.asm.length (freshPlayer a c f)).rest.length = a.length := by
        simp [newAsm, freshPlayer]
      rw [this]
      rw [hpa] at hpend
      simp only [curA] at hpend
      omega

theorem phiF_stepPlayerF (fc : FCfg) (script : List Cmd) (fs fs' : FState) (i : Nat)
    (h : stepPlayerF fc fs i = some fs') (hr : Reach fc.cfg script fs.base)
    (inv : AllF genView fs (Ref fc)) : phiF fc fs' < phiF fc fs := by
  obtain ⟨h1, _⟩ := sim_stepPlayerF fc fs fs' i h inv
  unfold phiF
  rcases h1 with ⟨h1, h2⟩ | ⟨h1, h2⟩
  · have hphi : phi fc.cfg fs'.base < phi fc.cfg fs.base := phi_step (t := .player i) hr h1
    obtain ⟨hm, hsc, _⟩ := stepPlayer_frame fc.cfg fs.base fs'.base i h1
    have : pendA fs'.base = pendA fs.base := by simp [pendA, hm, hsc]
    omega
  · rw [h1]; omega

/-- **every step of every thread of the fine system decreases the rank** -/
theorem phiF_step {fc : FCfg} {script : List Cmd} {fs fs' : FState} {t : Tid} (hnf : Sound fc)
    (hpos : PosCs script) (hr : ReachF fc script fs) (h : stepF fc fs t = some fs') :
    phiF fc fs' < phiF fc fs := by
  obtain ⟨hb, inv⟩ := sim_reach hnf hpos hr
  cases t with
  | main => exact phiF_stepMainF fc script fs fs' h hb inv
  | player i => exact phiF_stepPlayerF fc script fs fs' i h hb inv

theorem reachF_runSchedF {fc : FCfg} {script : List Cmd} : ∀ (sched : List Tid) {fs : FState},
    ReachF fc script fs → ReachF fc script (runSchedF fc fs sched).1 := by
  intro sched
  induction sched with
  | nil => intro fs hr; exact hr
  | cons t ts ih =>
    intro fs hr
    simp only [runSchedF]
    cases hs : stepF fc fs t with
    | none => exact hr
    | some fs' => exact ih (ReachF.step hr hs)

theorem runSchedF_phiF {fc : FCfg} {script : List Cmd} (hnf : Sound fc) (hpos : PosCs script) :
    ∀ (sched : List Tid) {fs : FState}, ReachF fc script fs → (runSchedF fc fs sched).2 = [] →
    sched.length + phiF fc (runSchedF fc fs sched).1 ≤ phiF fc fs := by
  intro sched
  induction sched with
  | nil => intro fs _ _; simp [runSchedF]
  | cons t ts ih =>
    intro fs hr hrun
    simp only [runSchedF] at hrun ⊢
    cases hs : stepF fc fs t with
    | none => rw [hs] at hrun; simp at hrun
    | some fs' =>
      rw [hs] at hrun
      simp only
      have h1 := ih (ReachF.step hr hs) hrun
      have h2 := phiF_step hnf hpos hr hs
      simp only [List.length_cons]
      omega

/-- bound on the length of every fine run: the coarse bound plus one step per sample played -/
def stepBoundF (fc : FCfg) (script : List Cmd) : Nat := stepBound fc.cfg script + audW script

theorem phiF_init (fc : FCfg) (script : List Cmd) : phiF fc (initF script) = stepBoundF fc script := by
  simp [phiF, initF, stepBoundF, stepBound, pendA, curA, init, restSum]

theorem runSchedF_append (fc : FCfg) : ∀ (a : List Tid) (fs : FState) (b : List Tid),
    (runSchedF fc fs a).2 = [] →
    runSchedF fc fs (a ++ b) = runSchedF fc (runSchedF fc fs a).1 b := by
  intro a
  induction a with
  | nil => intro fs b _; rfl
  | cons t ts ih =>
    intro fs b h
    simp only [runSchedF, List.cons_append] at h ⊢
    cases hs : stepF fc fs t with
    | none => rw [hs] at h; simp at h
    | some fs' => rw [hs] at h; simp only; exact ih fs' b h

/-- every fine run can be continued to a state where nobody is enabled -/
theorem exists_maximalF {fc : FCfg} {script : List Cmd} (hnf : Sound fc) (hpos : PosCs script) :
    ∀ (n : Nat) (fs : FState), ReachF fc script fs → phiF fc fs ≤ n →
    ∃ ext, (runSchedF fc fs ext).2 = [] ∧ terminalF fc (runSchedF fc fs ext).1 = true := by
  intro n
  induction n with
  | zero =>
    intro fs hr hle
    refine ⟨[], rfl, ?_⟩
    simp only [runSchedF, terminalF, List.all_eq_true]
    intro t _
    cases hs : stepF fc fs t with
    | none => simp [enabledF, hs]
    | some fs' => have := phiF_step hnf hpos hr hs; omega
  | succ n ih =>
    intro fs hr hle
    by_cases ht : terminalF fc fs = true
    · exact ⟨[], rfl, ht⟩
    · simp only [terminalF, List.all_eq_true, Bool.not_eq_eq_eq_not, Bool.not_true] at ht
      have : ∃ t, t ∈ tids fs.base ∧ enabledF fc fs t = true := by
        apply Classical.byContradiction
        intro hno
        apply ht
        intro t hmem
        cases he : enabledF fc fs t with
        | false => rfl
        | true => exact absurd ⟨t, hmem, he⟩ hno
      obtain ⟨t, _, he⟩ := this
      cases hs : stepF fc fs t with
      | none => simp [enabledF, hs] at he
      | some fs' =>
        have hlt := phiF_step hnf hpos hr hs
        obtain ⟨ext, h1, h2⟩ := ih fs' (ReachF.step hr hs) (by omega)
        refine ⟨t :: ext, ?_, ?_⟩ <;> simp only [runSchedF, hs]
        · exact h1
        · exact h2

/-! ### `close` over a dead thread that is still in `_threads` (iterables that raise, D21) -/

/-- `close(wait=True)` is at the head of its loop, the manager lock is free, and the first thread
    of `_threads` has finished (without having removed itself) -/
structure Spinning (fc : FCfg) (fs : FState) (i : Nat) : Prop where
  wait : fc.cfg.wait = true
  mpc : fs.base.mpc = .kMAcq
  free : fs.base.mlock = none
  head : fs.base.threads.head? = some i
  dead : isDone fs.base i = true
  len : fs.asm.length = fs.base.players.length

/-- one round of the loop (`with self.lock: thread = self._threads[0]`, release, `thread.join()`)
    is always possible and changes nothing -/
theorem spin_round {fc : FCfg} {fs : FState} {i : Nat} (h : Spinning fc fs i) :
    ∃ fs', runSchedF fc fs [Tid.main, .main, .main] = (fs', []) ∧ Spinning fc fs' i ∧
      fs'.base.players = fs.base.players ∧ fs'.base.log = fs.base.log := by
  obtain ⟨hw, hm, hf, hh, hd, hl⟩ := h
  have hnone : fs.base.players[fs.asm.length]? = none := by
    rw [List.getElem?_eq_none]; omega
  have hd' : isDone { fs.base with mlock := none, mpc := MPc.kJoin i } i = true := by
    simpa [isDone] using hd
  refine ⟨{ base := { fs.base with mlock := none, mpc := .kMAcq }, asm := fs.asm }, ?_, ?_, rfl, rfl⟩
  · simp [runSchedF, stepF, stepMainF, stepMain, hm, hf, hh, hw, syncAsm, hnone, isDone] at hd ⊢
    simp [hd, hnone]
  · exact ⟨hw, rfl, rfl, hh, by simpa [isDone] using hd, hl⟩

theorem spin_forever {fc : FCfg} {i : Nat} : ∀ (n : Nat) {fs : FState}, Spinning fc fs i →
    ∃ fs', runSchedF fc fs (List.replicate n [Tid.main, .main, .main]).flatten = (fs', []) ∧
      fs'.base.mpc = .kMAcq ∧ fs'.base.log = fs.base.log := by
  intro n
  induction n with
  | zero => intro fs h; exact ⟨fs, rfl, h.mpc, rfl⟩
  | succ n ih =>
    intro fs h
    obtain ⟨fs1, h1, hs1, _, hlog1⟩ := spin_round h
    obtain ⟨fs2, h2, hm2, hlog2⟩ := ih hs1
    refine ⟨fs2, ?_, hm2, by rw [hlog2, hlog1]⟩
    have e : (List.replicate (n + 1) [Tid.main, Tid.main, Tid.main]).flatten =
        [Tid.main, .main, .main] ++ (List.replicate n [Tid.main, .main, .main]).flatten := by
      simp [List.replicate_succ]
    rw [e, runSchedF_append fc _ fs _ (by rw [h1]), h1]
    exact h2

end ALV.C17
