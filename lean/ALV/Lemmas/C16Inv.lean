/-
  C16 — the `count` invariant of the Streamix model, proved on the model alone:
  after any history,  count = delivered + 1/2 − (accepted time − time still queued).
-/
import ALV.Lemmas.C16

namespace ALV.C16
variable {α β : Type}

theorem qsum_append (q : List (Rat × List α)) (p : Rat × List α) : qsum (q ++ [p]) = qsum q + p.1 := by
  induction q with
  | nil => simp [qsum]
  | cons a q ih => simp only [List.cons_append, qsum, ih]; ring

theorem startLoop_count : ∀ (q : List (Rat × List α)) (c : Rat) (pl : List (List α)),
    (startLoop c q pl).1 = c - (qsum q - qsum (startLoop c q pl).2.1)
  | [], c, pl => by simp [startLoop, qsum]
  | (d, x) :: q, c, pl => by
    by_cases h : c ≥ d
    · rw [startLoop, if_pos h, startLoop_count q (c - d) (pl ++ [x])]
      simp only [qsum]; ring
    · rw [startLoop, if_neg h]; simp

/-- the invariant, as a relation between a model state, the number of samples delivered so far
    and the time accepted so far -/
def CountInv (m : MState α) (k : Nat) (A : Rat) : Prop :=
  m.count = (k : Rat) + 1/2 - (A - qsum m.notPlaying)

theorem countInv_step [Add α] (zero : α) (m : MState α) (k : Nat) (A : Rat) (h : CountInv m k A)
    (op : Op α) :
    CountInv (mstep zero m op).1 (k + delivered [(mstep zero m op).2]) (A + acceptedTime [op]) := by
  unfold CountInv at *
  cases op with
  | add d x =>
    by_cases hd : d < 0
    · simp only [mstep, madd, if_pos hd, delivered, acceptedTime]
      rw [h]; push_cast; ring
    · simp only [mstep, madd, if_neg hd, delivered, acceptedTime, qsum_append]
      rw [h]; push_cast; ring
  | setKeep b =>
    simp only [mstep, delivered, acceptedTime]
    rw [h]; push_cast; ring
  | next =>
    simp only [mstep, mnext, acceptedTime]
    by_cases he : m.ended = true
    · simp only [he, if_true, delivered]
      rw [h]; push_cast; ring
    · simp only [he, Bool.false_eq_true, if_false]
      split
      · simp only [delivered]
        rw [startLoop_count, h]; push_cast; ring
      · simp only [delivered]
        rw [startLoop_count, h]; push_cast; ring

theorem delivered_cons (o : Obs α) (os : List (Obs α)) : delivered (o :: os) = delivered [o] + delivered os := by
  cases o <;> simp [delivered]; omega

theorem acceptedTime_cons (op : Op α) (ops : List (Op α)) :
    acceptedTime (op :: ops) = acceptedTime [op] + acceptedTime ops := by
  cases op <;> simp [acceptedTime]

theorem countInv_run [Add α] (zero : α) : ∀ (ops : List (Op α)) (m : MState α) (k : Nat) (A : Rat),
    CountInv m k A →
    CountInv (mrun zero m ops).1 (k + delivered (mrun zero m ops).2) (A + acceptedTime ops)
  | [], m, k, A, h => by simpa [mrun, delivered, acceptedTime] using h
  | op :: ops, m, k, A, h => by
    have h1 := countInv_step zero m k A h op
    have h2 := countInv_run zero ops _ _ _ h1
    simp only [mrun]
    rw [delivered_cons, acceptedTime_cons, ← Nat.add_assoc, ← add_assoc]
    exact h2

end ALV.C16
