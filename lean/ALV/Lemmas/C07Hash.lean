/-
  C07 — `==` and `hash`: equal Polys have the same set of items, hence the same
  `hash((frozenset(items), zero))`.  The model's `hashKey` is the canonical
  representative (items sorted by power) of that set.
-/
import ALV.Lemmas.C07Laurent

set_option linter.unusedSectionVars false

namespace ALV.C07
variable {K : Type} [Field K] [DecidableEq K]

theorem mem_iff_find? {p : MPoly K} (hn : (keys p).Nodup) {k : ℤ} {v : K} :
    (k, v) ∈ p ↔ find? p k = some v := ⟨find?_of_mem hn, find?_some_mem⟩

theorem nodup_of_nodup_keys {p : MPoly K} (h : (keys p).Nodup) : p.Nodup :=
  List.Nodup.of_map _ h

/-- `p == q` ⇒ the two dictionaries hold the same set of items -/
theorem perm_of_eq {p q : MPoly K} (hp : (keys p).Nodup) (hq : (keys q).Nodup)
    (h : eq p q = true) : p.Perm q := by
  rw [List.perm_ext_iff_of_nodup (nodup_of_nodup_keys hp) (nodup_of_nodup_keys hq)]
  rintro ⟨k, v⟩
  rw [mem_iff_find? hp, mem_iff_find? hq, find?_of_eq hp hq h k]

theorem eq_of_perm {p q : MPoly K} (hp : (keys p).Nodup) (hq : (keys q).Nodup)
    (h : p.Perm q) : eq p q = true := by
  apply eq_of_find? hp hq
  intro k
  cases h1 : find? p k with
  | some v => exact ((mem_iff_find? hq).1 (h.subset (find?_some_mem h1))).symm
  | none =>
    cases h2 : find? q k with
    | none => rfl
    | some w =>
      have := (mem_iff_find? hp).1 (h.symm.subset (find?_some_mem h2))
      rw [h1] at this
      cases this

theorem hashKey_eq_of_perm {p q : MPoly K} (hp : (keys p).Nodup) (h : p.Perm q) :
    hashKey p = hashKey q := by
  unfold hashKey sortAsc
  have hperm1 := List.mergeSort_perm p (fun a b => decide (a.1 ≤ b.1))
  have hperm2 := List.mergeSort_perm q (fun a b => decide (a.1 ≤ b.1))
  apply List.Perm.eq_of_pairwise (le := fun a b => decide (a.1 ≤ b.1) = true)
  · intro a b ha hb hab hba
    have ha' : a ∈ p := hperm1.subset ha
    have hb' : b ∈ p := h.symm.subset (hperm2.subset hb)
    have hk : a.1 = b.1 := by
      have h1 : a.1 ≤ b.1 := by simpa using hab
      have h2 : b.1 ≤ a.1 := by simpa using hba
      omega
    obtain ⟨ka, va⟩ := a
    obtain ⟨kb, vb⟩ := b
    simp only at hk
    subst hk
    have e1 := (mem_iff_find? hp).1 ha'
    have e2 := (mem_iff_find? hp).1 hb'
    rw [e1] at e2
    cases e2
    rfl
  · exact List.pairwise_mergeSort (fun a b c hab hbc => by
      simp only [decide_eq_true_eq] at *; omega) (fun a b => by
      simp only [Bool.or_eq_true, decide_eq_true_eq]; omega) p
  · exact List.pairwise_mergeSort (fun a b c hab hbc => by
      simp only [decide_eq_true_eq] at *; omega) (fun a b => by
      simp only [Bool.or_eq_true, decide_eq_true_eq]; omega) q
  · exact hperm1.trans (h.trans hperm2.symm)

/-- equal Polys have equal hash keys, and conversely: the key is exactly as fine as `==` -/
theorem hashKey_eq_iff {p q : MPoly K} (hp : (keys p).Nodup) (hq : (keys q).Nodup) :
    hashKey p = hashKey q ↔ eq p q = true := by
  constructor
  · intro h
    apply eq_of_perm hp hq
    unfold hashKey sortAsc at h
    have h1 := List.mergeSort_perm p (fun a b => decide (a.1 ≤ b.1))
    have h2 := List.mergeSort_perm q (fun a b => decide (a.1 ≤ b.1))
    exact h1.symm.trans (h ▸ h2)
  · intro h
    exact hashKey_eq_of_perm hp (perm_of_eq hp hq h)

end ALV.C07
