/-
  C11 — helper lemmas, part 11 (round 4):
  * `⟨B, B⟩ = r₀ · Π (1 − k²)` under the Levinson loop invariant, hence `levinson_durbin` raises
    `ParCorError` exactly when the prediction error of a completed prefix of the recursion is zero;
  * `stripZeros` keeps a non-zero head (any field), `g · monic f = f`.
-/
import ALV.Lemmas.C11Lev
import ALV.Lemmas.C11LevFloat
import ALV.Lemmas.C11Coded

set_option linter.unusedSectionVars false
set_option linter.unusedVariables false

namespace ALV.C11
variable {K : Type} [Field K] [DecidableEq K]
open Finset

/-- Toeplitz symmetry: `⟨B, B⟩ = ⟨A, A⟩ = r₀ Π (1 − k²)` for `B = z^-m A(1/z)` -/
theorem inner_bb (r : List K) (r0 : K) (s : LevState K) (h : LInv r r0 s) :
    inner r ((0 : K) :: s.a.reverse) ((0 : K) :: s.a.reverse) = errorSpec r0 s.ks := by
  rw [← inner_self r r0 s h, inner_eq_corr, inner_eq_corr, List.length_cons,
    List.length_reverse, sum_range_succ']
  have h0 : cf ((0 : K) :: s.a.reverse) 0 = 0 := by simp [cf]
  rw [h0, zero_mul, add_zero, ← sum_range_reflect]
  apply sum_congr rfl
  intro i hi
  rw [mem_range] at hi
  rw [cf_zero_cons_reverse s.a _ (by omega), if_neg (by omega), corr_reverse r s.a _ (by omega)]
  have e1 : s.a.length - (s.a.length - 1 - i + 1) = i := by omega
  rw [e1]

theorem levStep_none_iff (r : List K) (r0 : K) (s : LevState K) (h : LInv r r0 s) :
    levStep r s = none ↔ errorSpec r0 s.ks = 0 := by
  rw [← levStepG_lsum, levStepG_none_iff, innerG_lsum, inner_bb r r0 s h]

/-- the loop from a state satisfying the invariant raises exactly when, after some `m < n`
    completed steps, the prediction error `r₀ Π (1 − k²)` is zero -/
theorem levLoop_none_iff (r : List K) (r0 : K) (n : Nat) (s : LevState K) (h : LInv r r0 s) :
    levLoop r n s = none ↔
      ∃ m, m < n ∧ ∃ s', levLoop r m s = some s' ∧ errorSpec r0 s'.ks = 0 := by
  rw [← levLoopG_lsum, levLoopG_none_iff]
  constructor
  · rintro ⟨m, hm, s', hl, hs⟩
    rw [levLoopG_lsum] at hl
    rw [levStepG_lsum] at hs
    exact ⟨m, hm, s', hl, (levStep_none_iff r r0 s' (levLoop_inv r r0 m s s' h hl)).mp hs⟩
  · rintro ⟨m, hm, s', hl, hs⟩
    refine ⟨m, hm, s', by rw [levLoopG_lsum]; exact hl, ?_⟩
    rw [levStepG_lsum]
    exact (levStep_none_iff r r0 s' (levLoop_inv r r0 m s s' h hl)).mpr hs

/-! ### `stripZeros` keeps a non-zero head -/

theorem dropWhile_append_last (p : K → Bool) (g : K) (hg : p g = false) :
    ∀ l : List K, ∃ l', (l ++ [g]).dropWhile p = l' ++ [g]
  | [] => ⟨[], by simp [hg]⟩
  | x :: l => by
    by_cases hx : p x = true
    · obtain ⟨l', hl'⟩ := dropWhile_append_last p g hg l
      exact ⟨l', by simp [hx, hl']⟩
    · exact ⟨x :: l, by simp [hx]⟩

theorem stripZeros_head_ne (g : K) (hg : g ≠ 0) (t : List K) :
    ∃ t', stripZeros (g :: t) = g :: t' := by
  unfold stripZeros
  rw [List.reverse_cons]
  obtain ⟨l', hl'⟩ := dropWhile_append_last (fun x => decide (x = 0)) g (by simp [hg]) t.reverse
  exact ⟨l'.reverse, by rw [hl']; simp⟩

theorem scale_monic (g : K) (hg : g ≠ 0) (t : List K) : scale g (monic (g :: t)) = g :: t := by
  rw [monic_cons g t hg]
  simp only [scale, List.map_cons, mul_one, List.map_map, List.cons.injEq, true_and]
  conv_rhs => rw [← List.map_id t]
  apply List.map_congr_left
  intro x _
  simp only [Function.comp, id]
  field_simp

end ALV.C11
