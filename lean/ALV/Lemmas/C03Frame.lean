/-
  C03 — frame lemmas of the list specification: an operation changes only the pool entries
  it names (and appends the objects it creates).  Together with `step_refines` this is the
  independence of copies, tee outputs and thub uses.
-/
import ALV.Lemmas.C03Refine

namespace ALV.C03
variable {α : Type}

def Src.idx : Src α → List Nat
  | .obj j => [j]
  | .mixed _ j _ => [j]
  | _ => []

/-- the pool entries an operation may change (`peek` and `copy`: none) -/
def Op.touched : Op α → List Nat
  | .new s => s.idx
  | .take i _ => [i]
  | .peek _ _ => []
  | .skip i _ => [i]
  | .limit i _ => [i]
  | .append i s => i :: s.idx
  | .map i _ => [i]
  | .filter i _ => [i]
  | .copy _ => []
  | .next i => [i]
  | .drain i => [i]
  | .thub s _ => s.idx
  | .tee i _ => [i]

theorem specSrc_frame {sp sp' : SPool α} {s : Src α} {x : LSeq α} (h : specSrc sp s = .ok (sp', x)) :
    sp'.length = sp.length ∧ ∀ j, j ∉ s.idx → sp'[j]? = sp[j]? := by
  cases s with
  | obj k =>
    simp only [specSrc] at h
    split at h
    · cases h; exact ⟨by simp, fun j hj => by simp [Src.idx] at hj; simp [List.getElem?_set, Ne.symm hj]⟩
    · cases h; exact ⟨by simp, fun j hj => by simp [Src.idx] at hj; simp [List.getElem?_set, Ne.symm hj]⟩
    · cases h
    · cases h
  | mixed pre k post =>
    simp only [specSrc] at h
    split at h
    · cases h; exact ⟨by simp, fun j hj => by simp [Src.idx] at hj; simp [List.getElem?_set, Ne.symm hj]⟩
    · cases h; exact ⟨by simp, fun j hj => by simp [Src.idx] at hj; simp [List.getElem?_set, Ne.symm hj]⟩
    · cases h
    · cases h
  | list xs => cases h; exact ⟨rfl, fun _ _ => rfl⟩
  | cyc xs => cases h; exact ⟨rfl, fun _ _ => rfl⟩
  | chain xss => cases h; exact ⟨rfl, fun _ _ => rfl⟩
  | const v => cases h; exact ⟨rfl, fun _ _ => rfl⟩

theorem specTarget_frame {sp sp' : SPool α} {i k : Nat} {s : LSeq α}
    (h : specTarget sp i = .ok (sp', k, s)) :
    sp.length ≤ sp'.length ∧ (k = i ∨ sp.length ≤ k) ∧
      ∀ j, j ≠ i → j < sp.length → sp'[j]? = sp[j]? := by
  simp only [specTarget] at h
  split at h
  · cases h; exact ⟨Nat.le_refl _, .inl rfl, fun _ _ _ => rfl⟩
  · cases h
    refine ⟨by simp, .inr (Nat.le_refl _), fun j hj hl => ?_⟩
    rw [List.getElem?_append_left (by simpa using hl)]
    simp [List.getElem?_set, Ne.symm hj]
  · cases h
  · cases h

theorem specRebind_frame (sp : SPool α) (i k : Nat) (s : LSeq α) (j : Nat) (hj : j ≠ k) :
    (specRebind sp i k s).1[j]? = sp[j]? := by
  simp [specRebind, List.getElem?_set, Ne.symm hj]

/-- shape shared by skip / limit / map / filter -/
theorem frame_wrap {sp sp' : SPool α} {i : Nat} {o : Obs α} (w : LSeq α → LSeq α)
    (h : (match specTarget sp i with
      | .error e => some (sp, Obs.err e)
      | .ok (sp1, k, s) => some (specRebind sp1 i k (w s))) = some (sp', o)) :
    ∀ j, j ≠ i → j < sp.length → sp'[j]? = sp[j]? := by
  intro j hj hl
  cases ht : specTarget sp i with
  | error e => rw [ht] at h; cases h; rfl
  | ok r =>
    obtain ⟨sp1, k, s⟩ := r
    rw [ht] at h; cases h
    obtain ⟨_, hk, fr⟩ := specTarget_frame ht
    have := specRebind_frame sp1 i k (w s) j (by rcases hk with rfl | hk <;> omega)
    simp only [specRebind] at this
    rw [this]
    exact fr j hj hl

/-- **frame of the specification** -/
theorem spec_frame {sp sp' : SPool α} {op : Op α} {o : Obs α} (h : specStep sp op = some (sp', o)) :
    ∀ j, j ∉ op.touched → j < sp.length → sp'[j]? = sp[j]? := by
  intro j hj hl
  cases op with
  | new s =>
    simp only [specStep] at h
    cases hs : specSrc sp s with
    | error e => rw [hs] at h; cases h; rfl
    | ok r =>
      obtain ⟨sp1, x⟩ := r
      rw [hs] at h; cases h
      obtain ⟨l, fr⟩ := specSrc_frame hs
      rw [List.getElem?_append_left (l ▸ hl)]; exact fr j hj
  | take i c =>
    have hne : j ≠ i := by simpa [Op.touched] using hj
    simp only [specStep] at h
    split at h
    · cases hx : specTake _ c with
      | none => rw [hx] at h; cases h
      | some r => rw [hx] at h; cases h; simp [List.getElem?_set, Ne.symm hne]
    · cases h; rfl
    · cases h; rfl
  | peek i c =>
    simp only [specStep] at h
    split at h
    · cases hx : specTake _ c with
      | none => rw [hx] at h; cases h
      | some r => rw [hx] at h; cases h; rfl
    · cases hx : specTake _ c with
      | none => rw [hx] at h; cases h
      | some r => rw [hx] at h; cases h; rfl
    · cases h; rfl
    · cases h; rfl
  | skip i c =>
    have hne : j ≠ i := by simpa [Op.touched] using hj
    simp only [specStep] at h
    cases hc : roundCount c with
    | error e =>
      rw [hc] at h
      cases ht : specTarget sp i with
      | error e => rw [ht] at h; cases h; rfl
      | ok r => rw [ht] at h; cases h; rfl
    | ok n => rw [hc] at h; exact frame_wrap _ h j hne hl
  | limit i c =>
    have hne : j ≠ i := by simpa [Op.touched] using hj
    simp only [specStep] at h
    cases hc : roundCount c with
    | error e =>
      rw [hc] at h
      cases ht : specTarget sp i with
      | error e => rw [ht] at h; cases h; rfl
      | ok r =>
        obtain ⟨sp1, k, s⟩ := r
        rw [ht] at h; cases h
        exact (specTarget_frame ht).2.2 j hne hl
    | ok n => rw [hc] at h; exact frame_wrap _ h j hne hl
  | map i g =>
    have hne : j ≠ i := by simpa [Op.touched] using hj
    simp only [specStep] at h
    exact frame_wrap _ h j hne hl
  | filter i p =>
    have hne : j ≠ i := by simpa [Op.touched] using hj
    simp only [specStep] at h
    exact frame_wrap _ h j hne hl
  | append i s =>
    have hne : j ≠ i ∧ j ∉ s.idx := by simpa [Op.touched] using hj
    simp only [specStep] at h
    cases ht : specTarget sp i with
    | error e => rw [ht] at h; cases h; rfl
    | ok r =>
      obtain ⟨sp1, k, x⟩ := r
      rw [ht] at h
      simp only [] at h
      obtain ⟨l1, hk, fr1⟩ := specTarget_frame ht
      cases hs : specSrc sp1 s with
      | error e => rw [hs] at h; cases h; exact fr1 j hne.1 hl
      | ok r2 =>
        obtain ⟨sp2, y⟩ := r2
        rw [hs] at h; cases h
        obtain ⟨l2, fr2⟩ := specSrc_frame hs
        have := specRebind_frame sp2 i k (x.append y) j (by rcases hk with rfl | hk <;> omega)
        simp only [specRebind] at this
        rw [this, fr2 j hne.2]
        exact fr1 j hne.1 hl
  | copy i =>
    simp only [specStep] at h
    split at h
    · cases h; exact List.getElem?_append_left hl
    · cases h; exact List.getElem?_append_left hl
    · cases h; rfl
    · cases h; rfl
  | next i =>
    have hne : j ≠ i := by simpa [Op.touched] using hj
    simp only [specStep] at h
    split at h
    · cases hx : specTake _ Cnt.none with
      | none => rw [hx] at h; cases h
      | some r => rw [hx] at h; cases h; simp [List.getElem?_set, Ne.symm hne]
    · cases hx : specTake _ Cnt.none with
      | none => rw [hx] at h; cases h
      | some r => rw [hx] at h; cases h; simp [List.getElem?_set, Ne.symm hne]
    · cases h; rfl
    · cases h; rfl
  | drain i =>
    have hne : j ≠ i := by simpa [Op.touched] using hj
    simp only [specStep] at h
    split at h
    · cases hx : specTake _ Cnt.inf with
      | none => rw [hx] at h; cases h
      | some r => rw [hx] at h; cases h; simp [List.getElem?_set, Ne.symm hne]
    · cases hx : specTake _ Cnt.inf with
      | none => rw [hx] at h; cases h
      | some r => rw [hx] at h; cases h; simp [List.getElem?_set, Ne.symm hne]
    · cases h; rfl
    · cases h; rfl
  | thub s n =>
    have key : ∀ s : Src α, j ∉ s.idx → (match specSrc sp s with
        | .error e => some (sp, Obs.err e)
        | .ok (sp1, q) => some (sp1 ++ [SObj.hub q n], Obs.new sp1.length)) = some (sp', o) →
        sp'[j]? = sp[j]? := by
      intro s hj h
      cases hs : specSrc sp s with
      | error e => rw [hs] at h; cases h; rfl
      | ok r =>
        obtain ⟨sp1, x⟩ := r
        rw [hs] at h; cases h
        obtain ⟨l, fr⟩ := specSrc_frame hs
        rw [List.getElem?_append_left (l ▸ hl)]; exact fr j hj
    cases s with
    | const v => cases h; rfl
    | list xs => exact key (.list xs) hj h
    | cyc xs => exact key (.cyc xs) hj h
    | chain xss => exact key (.chain xss) hj h
    | obj k => exact key (.obj k) hj h
    | mixed pre k post => exact key (.mixed pre k post) hj h
  | tee i n =>
    simp only [specStep] at h
    cases hs : specSrc sp (.obj i) with
    | error e => rw [hs] at h; cases h; rfl
    | ok r =>
      obtain ⟨sp1, x⟩ := r
      rw [hs] at h; cases h
      obtain ⟨l, fr⟩ := specSrc_frame hs
      rw [List.getElem?_append_left (l ▸ hl)]; exact fr j hj

end ALV.C03
