/-
  C12 — lemmas about the call of `freq_response` (the `elementwise` wrapper, python's binding) and
  of `dft`.  Core Lean only.
-/
import ALV.Model.C12Call
import ALV.Spec.C12Call
namespace ALV.C12
section generic
variable {α φ : Type}

theorem Arg.ofElem_self (x : Elem φ) : (Arg.ofElem x).self = x := by cases x <;> rfl

theorem kwGet_kwSet_same (n : String) (x : Arg φ) : ∀ kw : KwArgs φ, kwGet n (kwSet n x kw) = some x := by
  intro kw
  induction kw with
  | nil => simp [kwSet, kwGet]
  | cons kv r ih =>
    obtain ⟨k, v⟩ := kv
    by_cases h : k = n
    · simp [kwSet, kwGet, h]
    · simp [kwSet, kwGet, h, ih]

theorem kwGet_kwSet_other (m n : String) (x : Arg φ) (h : m ≠ n) :
    ∀ kw : KwArgs φ, kwGet m (kwSet n x kw) = kwGet m kw := by
  intro kw
  induction kw with
  | nil => simp [kwSet, kwGet, Ne.symm h]
  | cons kv r ih =>
    obtain ⟨k, v⟩ := kv
    by_cases hk : k = n
    · subst hk
      simp [kwSet, kwGet, Ne.symm h]
    · by_cases hm : k = m
      · subst hm
        simp [kwSet, kwGet, hk]
      · simp [kwSet, kwGet, hk, hm, ih]

/-- replacing the value of a key that is there keeps the keys -/
theorem kwSet_keys (n : String) (x : Arg φ) :
    ∀ kw : KwArgs φ, kwGet n kw ≠ none → (kwSet n x kw).map Prod.fst = kw.map Prod.fst := by
  intro kw
  induction kw with
  | nil => intro h; simp [kwGet] at h
  | cons kv r ih =>
    obtain ⟨k, v⟩ := kv
    intro h
    by_cases hk : k = n
    · simp [kwSet, hk]
    · have : kwGet n r ≠ none := by simpa [kwGet, hk] using h
      simp [kwSet, hk, ih this]

theorem any_keys (q : String → Bool) (kw : KwArgs φ) :
    kw.any (fun kv => q kv.1) = (kw.map Prod.fst).any q := by
  induction kw with
  | nil => rfl
  | cons kv r ih => simp [ih]

theorem any_kwSet (q : String → Bool) (n : String) (x : Arg φ) (kw : KwArgs φ) (h : kwGet n kw ≠ none) :
    (kwSet n x kw).any (fun kv => q kv.1) = kw.any (fun kv => q kv.1) := by
  rw [any_keys, any_keys, kwSet_keys n x kw h]

/-- a keyword that is no parameter name makes the binding fail, whatever else is passed -/
theorem bindParams_unexpected (ps : List String) (args : List (Arg φ)) (kw : KwArgs φ)
    (h : ∃ kv ∈ kw, kv.1 ∉ ps) : bindParams ps args kw = none := by
  obtain ⟨kv, hm, hn⟩ := h
  unfold bindParams
  by_cases hl : ps.length < args.length
  · rw [if_pos hl]
  · have : kw.any (fun kv => !(ps.drop args.length).contains kv.1) = true := by
      rw [List.any_eq_true]
      refine ⟨kv, hm, ?_⟩
      have : kv.1 ∉ ps.drop args.length := fun hc => hn (List.mem_of_mem_drop hc)
      simpa using this
    rw [if_neg hl, if_pos this]

theorem kwSet_mem_key (n : String) (x : Arg φ) (k : String) :
    ∀ kw : KwArgs φ, (∃ kv ∈ kw, kv.1 = k) → ∃ kv ∈ kwSet n x kw, kv.1 = k := by
  intro kw
  induction kw with
  | nil => intro h; simp at h
  | cons kv r ih =>
    obtain ⟨k0, v⟩ := kv
    intro h
    by_cases hk : k0 = n
    · by_cases hkk : k0 = k
      · exact ⟨(k0, x), by simp [kwSet, hk], hkk⟩
      · obtain ⟨kv, hm, he⟩ := h
        simp only [List.mem_cons] at hm
        rcases hm with rfl | hm
        · exact absurd he hkk
        · exact ⟨kv, by simp [kwSet, hk, hm], he⟩
    · by_cases hkk : k0 = k
      · exact ⟨(k0, v), by simp [kwSet, hk], hkk⟩
      · obtain ⟨kv, hm, he⟩ := h
        simp only [List.mem_cons] at hm
        rcases hm with rfl | hm
        · exact absurd he hkk
        · obtain ⟨kv', hm', he'⟩ := ih ⟨kv, hm, he⟩
          exact ⟨kv', by simp [kwSet, hk, hm'], he'⟩

theorem allSome_map_some {β γ : Type} (g : β → γ) (l : List β) : allSome (l.map fun x => some (g x)) = some (l.map g) := by
  induction l with
  | nil => rfl
  | cons x r ih => simp [allSome, ih]

theorem allSome_congr {β γ : Type} (f g : β → Option γ) (l : List β) (h : ∀ x, f x = g x) :
    allSome (l.map f) = allSome (l.map g) := by
  have : f = g := funext h
  rw [this]

/-! ### the binding of `freq_response(self, freq)` -/

/-- the raw method only depends on the bound parameters -/
theorem rawFreqBy_of_bound (R : φ → Resp α) (leaf : Bool) (args : List (Arg φ)) (kw : KwArgs φ) (s a : Arg φ)
    (h : bindParams ["self", "freq"] args kw = some [s, a]) :
    rawFreqBy R leaf args kw = respElem R leaf a.self := by
  simp [rawFreqBy, h]

theorem rawFreqBy_of_unbound (R : φ → Resp α) (leaf : Bool) (args : List (Arg φ)) (kw : KwArgs φ)
    (h : bindParams ["self", "freq"] args kw = none) :
    rawFreqBy R leaf args kw = some .typeError := by
  simp [rawFreqBy, h]



theorem bind_nil (kw : KwArgs φ) (s a : Arg φ) (h : bindParams ["self", "freq"] [] kw = some [s, a]) :
    kw.any (fun kv => !(["self", "freq"] : List String).contains kv.1) = false ∧
    kwGet "self" kw = some s ∧ kwGet "freq" kw = some a := by
  unfold bindParams at h
  simp only [List.length_nil, List.length_cons, Nat.not_lt_zero, if_false, List.drop_zero, List.nil_append] at h
  split at h
  · exact absurd h (by simp)
  · rename_i hany
    refine ⟨by simpa using hany, ?_⟩
    unfold kwGetAll kwGetAll kwGetAll at h
    cases hs : kwGet "self" kw <;> cases ha : kwGet "freq" kw <;> simp [hs, ha] at h
    exact ⟨by rw [h.1], by rw [h.2]⟩

theorem bind_nil_mk (kw : KwArgs φ) (s a : Arg φ)
    (h1 : kw.any (fun kv => !(["self", "freq"] : List String).contains kv.1) = false)
    (h2 : kwGet "self" kw = some s) (h3 : kwGet "freq" kw = some a) :
    bindParams ["self", "freq"] [] kw = some [s, a] := by
  unfold bindParams
  simp only [List.length_nil, List.length_cons, Nat.not_lt_zero, if_false, List.drop_zero, List.nil_append]
  rw [if_neg (by rw [h1]; simp)]
  simp [kwGetAll, h2, h3]

theorem bind_one (kw : KwArgs φ) (s' s a : Arg φ) (h : bindParams ["self", "freq"] [s'] kw = some [s, a]) :
    kw.any (fun kv => !(["freq"] : List String).contains kv.1) = false ∧ s' = s ∧ kwGet "freq" kw = some a := by
  unfold bindParams at h
  simp only [List.length_cons, List.length_nil, List.drop_succ_cons, List.drop_zero] at h
  rw [if_neg (by decide)] at h
  split at h
  · exact absurd h (by simp)
  · rename_i hany
    refine ⟨by simpa using hany, ?_⟩
    unfold kwGetAll kwGetAll at h
    cases ha : kwGet "freq" kw <;> simp [ha] at h
    exact ⟨h.1, by rw [h.2]⟩

theorem bind_one_mk (kw : KwArgs φ) (s a : Arg φ)
    (h1 : kw.any (fun kv => !(["freq"] : List String).contains kv.1) = false) (h3 : kwGet "freq" kw = some a) :
    bindParams ["self", "freq"] [s] kw = some [s, a] := by
  unfold bindParams
  simp only [List.length_cons, List.length_nil, List.drop_succ_cons, List.drop_zero]
  rw [if_neg (by decide), if_neg (by rw [h1]; simp)]
  simp [kwGetAll, h3]

theorem bind_two (kw : KwArgs φ) (s' a' s a : Arg φ) (h : bindParams ["self", "freq"] [s', a'] kw = some [s, a]) :
    kw = [] ∧ s' = s ∧ a' = a := by
  unfold bindParams at h
  simp only [List.length_cons, List.length_nil, List.drop_succ_cons, List.drop_nil] at h
  rw [if_neg (by decide)] at h
  split at h
  · exact absurd h (by simp)
  · rename_i hany
    cases kw with
    | nil => simp [kwGetAll] at h; exact ⟨rfl, h.1, h.2⟩
    | cons kv r => simp at hany

theorem bind_long (kw : KwArgs φ) (x y z : Arg φ) (r : List (Arg φ)) :
    bindParams ["self", "freq"] (x :: y :: z :: r) kw = none := by
  unfold bindParams
  rw [if_pos (by simp only [List.length_cons, List.length_nil]; omega)]

theorem wrapper_kw_shape (R : φ → Resp α) (leaf : Bool) (args : List (Arg φ)) (kw : KwArgs φ) (a : Arg φ)
    (hlen : args.length ≤ 1)
    (h3 : kwGet "freq" kw = some a)
    (h0 : rawFreqBy R leaf args kw = respElem R leaf a.self)
    (hb : ∀ y, rawFreqBy R leaf args (kwSet "freq" y kw) = respElem R leaf y.self) :
    wrapper "freq" (some 1) (rawFreqBy R leaf) args kw = broadcast (respElem R leaf) a := by
  have hp : ¬ (1 < args.length) := by omega
  unfold wrapper broadcast
  simp [hp, h3, hb, Arg.ofElem_self, h0]
  rfl


theorem wrapper_pos_shape (R : φ → Resp α) (leaf : Bool) (s a : Arg φ) :
    wrapper "freq" (some 1) (rawFreqBy R leaf) [s, a] [] = broadcast (respElem R leaf) a := by
  have hb : ∀ y : Arg φ, rawFreqBy R leaf [s, y] [] = respElem R leaf y.self := fun y =>
    rawFreqBy_of_bound R leaf _ _ s y (by simp [bindParams, kwGetAll])
  unfold wrapper broadcast
  simp [hb, Arg.ofElem_self]
  rfl

/-- THE CALL-SHAPE THEOREM: whenever python can bind the call to `(self, freq)` — frequency by
    position, by keyword, `self` by keyword, keywords in any order — the decorated method is the
    broadcast of the raw method over the object bound to `freq`. -/
theorem wrapper_freq_of_bound (R : φ → Resp α) (leaf : Bool) (args : List (Arg φ)) (kw : KwArgs φ) (s a : Arg φ)
    (h : bindParams ["self", "freq"] args kw = some [s, a]) :
    wrapper "freq" (some 1) (rawFreqBy R leaf) args kw = broadcast (respElem R leaf) a := by
  match args, h with
  | [], h =>
    obtain ⟨h1, h2, h3⟩ := bind_nil kw s a h
    refine wrapper_kw_shape R leaf [] kw a (by simp) h3 (rawFreqBy_of_bound R leaf _ _ s a h) (fun y => ?_)
    refine rawFreqBy_of_bound R leaf _ _ s y (bind_nil_mk _ s y ?_ ?_ (kwGet_kwSet_same _ _ _))
    · exact (any_kwSet (fun k => !(["self", "freq"] : List String).contains k) "freq" y kw (by simp [h3])).trans h1
    · rw [kwGet_kwSet_other _ _ _ (by decide)]; exact h2
  | [s'], h =>
    obtain ⟨h1, h2, h3⟩ := bind_one kw s' s a h
    subst h2
    refine wrapper_kw_shape R leaf [s'] kw a (by simp) h3 (rawFreqBy_of_bound R leaf _ _ s' a h) (fun y => ?_)
    refine rawFreqBy_of_bound R leaf _ _ s' y (bind_one_mk _ s' y ?_ (kwGet_kwSet_same _ _ _))
    exact (any_kwSet (fun k => !(["freq"] : List String).contains k) "freq" y kw (by simp [h3])).trans h1
  | [s', a'], h =>
    obtain ⟨h1, h2, h3⟩ := bind_two kw s' a' s a h
    subst h1 h2 h3
    exact wrapper_pos_shape R leaf s' a'
  | x :: y :: z :: r, h => rw [bind_long] at h; exact absurd h (by simp)


/-! ### a call python cannot bind -/

theorem kwGet_isSome (p : String) (kw : KwArgs φ) : (kwGet p kw).isSome = (kw.map Prod.fst).contains p := by
  induction kw with
  | nil => rfl
  | cons kv r ih =>
    obtain ⟨k, v⟩ := kv
    by_cases h : k = p
    · simp [kwGet, h]
    · have h' : ¬ p = k := fun e => h e.symm
      simp [kwGet, h, ih, h']

theorem kwGetAll_isSome (kw : KwArgs φ) (ps : List String) :
    (kwGetAll kw ps).isSome = ps.all (fun p => (kw.map Prod.fst).contains p) := by
  induction ps with
  | nil => rfl
  | cons p r ih =>
    have hp := kwGet_isSome p kw
    unfold kwGetAll
    cases h1 : kwGet p kw <;> cases h2 : kwGetAll kw r <;> simp [h1, h2] at hp ih ⊢ <;> simp_all

/-- whether python can bind a call depends only on the number of positional arguments and on the
    keyword NAMES -/
theorem bindParams_isSome (ps : List String) (args : List (Arg φ)) (kw : KwArgs φ) :
    (bindParams ps args kw).isSome =
      (!(decide (ps.length < args.length)) &&
       !((kw.map Prod.fst).any (fun k => !(ps.drop args.length).contains k)) &&
       (ps.drop args.length).all (fun p => (kw.map Prod.fst).contains p)) := by
  unfold bindParams
  by_cases h1 : ps.length < args.length
  · simp [h1]
  · rw [if_neg h1, any_keys (fun k => !(ps.drop args.length).contains k)]
    cases h2 : (kw.map Prod.fst).any (fun k => !(ps.drop args.length).contains k)
    · have := kwGetAll_isSome kw (ps.drop args.length)
      cases h3 : kwGetAll kw (ps.drop args.length) <;> simp [h3, h1] at this ⊢ <;> simp_all
    · simp [h1]

theorem bindParams_none_congr (ps : List String) (args args' : List (Arg φ)) (kw kw' : KwArgs φ)
    (hl : args'.length = args.length) (hk : kw'.map Prod.fst = kw.map Prod.fst)
    (h : bindParams ps args kw = none) : bindParams ps args' kw' = none := by
  have h1 := bindParams_isSome ps args kw
  have h2 := bindParams_isSome ps args' kw'
  rw [hl, hk, ← h1, h] at h2
  cases h3 : bindParams ps args' kw' with
  | none => rfl
  | some v => simp [h3] at h2

/-- a call that python cannot bind: every element computation is the TypeError of the binding —
    the wrapper behaves as around a function that always raises TypeError -/
theorem wrapper_freq_of_unbound (R : φ → Resp α) (leaf : Bool) (args : List (Arg φ)) (kw : KwArgs φ)
    (h : bindParams ["self", "freq"] args kw = none) :
    wrapper "freq" (some 1) (rawFreqBy R leaf) args kw =
      wrapper "freq" (some 1) (fun _ _ => some .typeError) args kw := by
  have h0 := rawFreqBy_of_unbound R leaf args kw h
  by_cases hp : 1 < args.length
  · have hb : ∀ y : Arg φ, rawFreqBy R leaf (args.take 1 ++ y :: args.drop 2) kw = some .typeError := fun y =>
      rawFreqBy_of_unbound R leaf _ _
        (bindParams_none_congr _ args _ kw kw (by simp [List.length_take]; omega) rfl h)
    unfold wrapper
    simp [hp, hb, h0]
  · cases hk : kwGet "freq" kw with
    | none => unfold wrapper; simp [hp, hk]
    | some a =>
      have hb : ∀ y : Arg φ, rawFreqBy R leaf args (kwSet "freq" y kw) = some .typeError := fun y =>
        rawFreqBy_of_unbound R leaf _ _
          (bindParams_none_congr _ args _ kw _ rfl (kwSet_keys _ _ _ (by simp [hk])) h)
      unfold wrapper
      simp [hp, hk, hb, h0]

/-- the wrapper around a constant function: the located argument decides everything -/
theorem wrapper_const (c : Resp α) (args : List (Arg φ)) (kw : KwArgs φ) :
    wrapper "freq" (some 1) (fun _ _ => some c) args kw =
      match (if 1 < args.length then args[1]? else kwGet "freq" kw) with
      | none => .raised .keyError
      | some a => broadcast (fun _ => some c) a := by
  unfold wrapper broadcast
  by_cases hp : 1 < args.length <;> simp [hp] <;> first | rfl | (cases kwGet "freq" kw <;> rfl)


theorem kwGetAll_length (kw : KwArgs φ) : ∀ (ps : List String) (vs : List (Arg φ)),
    kwGetAll kw ps = some vs → vs.length = ps.length := by
  intro ps
  induction ps with
  | nil => intro vs h; simp [kwGetAll] at h; simp [← h]
  | cons p r ih =>
    intro vs h
    unfold kwGetAll at h
    cases h1 : kwGet p kw <;> cases h2 : kwGetAll kw r <;> simp [h1, h2] at h
    rw [← h, List.length_cons, ih _ h2, List.length_cons]

/-- a bound call has one value per parameter -/
theorem bindParams_length (ps : List String) (args : List (Arg φ)) (kw : KwArgs φ) (vs : List (Arg φ))
    (h : bindParams ps args kw = some vs) : vs.length = ps.length := by
  unfold bindParams at h
  by_cases h1 : ps.length < args.length
  · simp [h1] at h
  · rw [if_neg h1] at h
    split at h
    · simp at h
    · cases h3 : kwGetAll kw (ps.drop args.length) with
      | none => simp [h3] at h
      | some ws =>
        simp [h3] at h
        rw [← h, List.length_append, kwGetAll_length kw _ _ h3, List.length_drop]
        omega

/-! ### what the broadcast delivers -/

/-- an element that is a number (`some f`) or not (`none`: None, a str) -/
def Elem.ofOpt : Option φ → Elem φ
  | some f => .num f
  | none => .bad

/-- the outcome of the element computation -/
def optResp (R : φ → Resp α) : Option φ → Resp α
  | some f => R f
  | none => .typeError

theorem respElem_ofOpt (R : φ → Resp α) (leaf : Bool) (x : Option φ) :
    respElem R leaf (Elem.ofOpt x) = some (optResp R x) := by cases x <;> rfl

theorem allSome_respElem (R : φ → Resp α) (leaf : Bool) (xs : List (Option φ)) :
    allSome ((xs.map Elem.ofOpt).map (respElem R leaf)) = some (xs.map (optResp R)) := by
  induction xs with
  | nil => rfl
  | cons x r ih => simp only [List.map_cons, allSome, respElem_ofOpt, ih]

theorem allSome_respElem' (R : φ → Resp α) (leaf : Bool) (xs : List (Option φ)) :
    allSome (xs.map (respElem R leaf ∘ Elem.ofOpt)) = some (xs.map (optResp R)) := by
  rw [← allSome_respElem R leaf xs, List.map_map]

theorem optResp_some (R : φ → Resp α) (fs : List φ) : (fs.map some).map (optResp R) = fs.map R := by
  simp [optResp]

theorem broadcast_cont (g : Elem φ → Option (Resp α)) (k : Kind) (xs : List (Elem φ)) (outs : List (Resp α))
    (h : allSome (xs.map g) = some outs) (hi : k.isIterable = true) (hs : k.isStr = false) :
    broadcast g (Arg.cont k xs) =
      if k.isSomeGen then .lazy .someGen outs else if k.isStream then .lazy .stream outs else typeCast k outs := by
  unfold broadcast Arg.cont
  simp only [hi, hs, h]
  rfl

/-- generators & co, Streams, chains: a lazy result, one pending computation per element, NOTHING
    evaluated by the call -/
theorem broadcast_lazy (R : φ → Resp α) (leaf : Bool) (k : Kind) (hk : k = .someGen ∨ k = .stream ∨ k = .chain)
    (xs : List (Option φ)) :
    broadcast (respElem R leaf) (Arg.cont k (xs.map Elem.ofOpt)) = .lazy k (xs.map (optResp R)) := by
  rcases hk with rfl | rfl | rfl <;>
    rw [broadcast_cont _ _ _ _ (allSome_respElem R leaf xs) rfl rfl] <;> rfl

/-- list / tuple / deque / set / frozenset: the same kind of container of the pointwise responses;
    the first exception of an element computation is the exception of the call -/
theorem broadcast_eager (R : φ → Resp α) (leaf : Bool) (k : Kind) (hk : k = .seq ∨ k = .hash)
    (xs : List (Option φ)) :
    broadcast (respElem R leaf) (Arg.cont k (xs.map Elem.ofOpt)) =
      match firstExc (xs.map (optResp R)) with
      | some e => .raised e
      | none => .cast k (xs.map (optResp R)) := by
  rcases hk with rfl | rfl <;>
    rw [broadcast_cont _ _ _ _ (allSome_respElem R leaf xs) rfl rfl] <;> rfl

/-- dict / bytes: only the empty one comes back; list_iterator & co: never -/
theorem broadcast_uncastable (R : φ → Resp α) (leaf : Bool) (xs : List (Option φ)) :
    broadcast (respElem R leaf) (Arg.cont .noCtor (xs.map Elem.ofOpt)) = .raised .typeError ∧
    broadcast (respElem R leaf) (Arg.cont .emptyOnly (xs.map Elem.ofOpt)) =
      match xs with
      | [] => .cast .emptyOnly []
      | x :: _ => .raised (((optResp R x).exc).getD .typeError) := by
  constructor
  · rw [broadcast_cont _ _ _ _ (allSome_respElem R leaf xs) rfl rfl]; rfl
  · rw [broadcast_cont _ _ _ _ (allSome_respElem R leaf xs) rfl rfl]
    cases xs <;> rfl

/-- a scalar (number or None) or a str: the raw method on the object itself -/
theorem broadcast_scalar (R : φ → Resp α) (leaf : Bool) (k : Kind) (hk : k = .scalar ∨ k = .str) (x : Option φ) :
    broadcast (respElem R leaf) ⟨k, Elem.ofOpt x, []⟩ = Out.ofResp (optResp R x) := by
  unfold broadcast
  rcases hk with rfl | rfl <;> simp [Kind.isIterable, Kind.isStr, respElem_ofOpt]

theorem firstExc_const_error : ∀ xs : List (Elem φ), xs ≠ [] →
    firstExc (xs.map fun _ => (Resp.typeError : Resp α)) = some .typeError := by
  intro xs h
  cases xs with
  | nil => exact absurd rfl h
  | cons x r => rfl

/-- around a function that always raises TypeError: lazy kinds give a lazy result (the error shows
    only when it is read), an eager container raises at once — unless it is empty -/
theorem broadcast_const_error (k : Kind) (xs : List (Elem φ)) :
    broadcast (fun _ => some (Resp.typeError : Resp α)) (Arg.cont k xs) =
      match k with
      | .scalar | .str | .noCtor => .raised .typeError
      | .someGen | .stream | .chain => .lazy k (xs.map fun _ => .typeError)
      | .seq | .hash | .emptyOnly => if xs = [] then .cast k [] else .raised .typeError := by
  have h : allSome (xs.map fun _ => some (Resp.typeError : Resp α)) = some (xs.map fun _ => .typeError) :=
    allSome_map_some _ _
  cases k
  case scalar => rfl
  case str => rfl
  all_goals rw [broadcast_cont _ _ _ _ h rfl rfl]
  case someGen => rfl
  case stream => rfl
  case chain => rfl
  case noCtor => rfl
  all_goals cases xs <;> rfl

/-! ### reading a lazy result -/

theorem firstExc_none_goodPrefix : ∀ outs : List (Resp α), firstExc outs = none → goodPrefix outs = outs := by
  intro outs
  induction outs with
  | nil => intro _; rfl
  | cons r rs ih =>
    intro h
    unfold firstExc at h
    unfold goodPrefix
    cases he : r.exc with
    | some e => simp [he] at h
    | none => simp only [he] at h ⊢; rw [ih h]

theorem genReads_nil (n : Nat) : genReads n ([] : List (Resp α)) = List.replicate n NextObs.stop := by
  induction n with
  | zero => rfl
  | succ n ih => simp [genReads, genNext, ih, List.replicate_succ]

/-- everything a reader of the lazy result sees before StopIteration: the items before the first
    exception, then that exception -/
def trace : List (Resp α) → List (NextObs α)
  | [] => []
  | r :: rs => match r.exc with
    | some e => [NextObs.exc e]
    | none => NextObs.item r :: trace rs

theorem trace_eq (outs : List (Resp α)) :
    trace outs = (goodPrefix outs).map NextObs.item ++
      (match firstExc outs with | some e => [NextObs.exc e] | none => []) := by
  induction outs with
  | nil => rfl
  | cons r rs ih =>
    unfold trace goodPrefix firstExc
    cases he : r.exc with
    | some e => simp
    | none => simp [ih]

/-- closed form of `n` reads in a row: the trace, then StopIteration for ever (a generator that
    raised is finished) -/
theorem genReads_spec : ∀ (outs : List (Resp α)) (n : Nat),
    genReads n outs = (trace outs).take n ++ List.replicate (n - (trace outs).length) NextObs.stop := by
  intro outs
  induction outs with
  | nil => intro n; simp [genReads_nil, trace]
  | cons r rs ih =>
    intro n
    cases n with
    | zero => simp [genReads]
    | succ n =>
      cases he : r.exc with
      | some e => simp [genReads, genNext, he, trace, genReads_nil]
      | none => simp [genReads, genNext, he, trace, ih n]

end generic
end ALV.C12
