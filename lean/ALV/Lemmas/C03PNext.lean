/-
  C03 — every source, finite or periodic: what a *terminating* `next` returns.

  `pden E it` is the eventually periodic sequence (`LSeq`) an iterator denotes, built with the
  operations of the specification itself; `E` lists, for every tee hub, the sequence that hub
  distributes.  `next_sound` (induction on the fuel): whenever `next f h it` returns — whatever
  the fuel — it returns the head of `pden E it`, the new iterator denotes the tail (up to
  re-folding, `LSeq.Eqv`), the hub invariant survives.  Nothing is claimed when the fuel runs
  out (Python would not return either: e.g. a `filter` that rejects a whole period).
-/
import ALV.Lemmas.C03PSeq

namespace ALV.C03
variable {α : Type} {L : Bool}
open LSeq

def penvAt (E : List (LSeq α)) (k : Nat) : LSeq α := (E[k]?).getD LSeq.nil

def pden (E : List (LSeq α)) : It α → LSeq α
  | .src xs => ⟨xs, []⟩
  | .cyc per rest => ⟨rest, per⟩
  | .tee k pos => (penvAt E k).drop pos
  | .map f it => (pden E it).map f
  | .filter p it => (pden E it).filter p
  | .chain a b => (pden E a).append (pden E b)
  | .skipper n it => (pden E it).drop n
  | .limiter n it => ⟨(pden E it).take n, []⟩

/-- a filter over this sequence finds an item or the end: the sequence is finite, or its period
    has an item that passes -/
def Hits (p : α → Bool) (s : LSeq α) : Prop := s.per = [] ∨ ∃ x, x ∈ s.per ∧ p x = true

theorem Hits.nil (p : α → Bool) : Hits p (LSeq.nil : LSeq α) := .inl rfl

theorem Hits.eqv {p : α → Bool} {s t : LSeq α} (e : Eqv s t) (hs : Hits p s) : Hits p t := by
  have := Eqv.inv (fun s => Hits p s) (fun pre x r => by
    apply propext
    simp only [Hits]
    constructor
    · rintro (h | ⟨y, hy, py⟩)
      · cases h
      · exact .inr ⟨y, by simp at hy ⊢; exact hy.symm, py⟩
    · rintro (h | ⟨y, hy, py⟩)
      · simp at h
      · exact .inr ⟨y, by simp at hy ⊢; exact hy.symm, py⟩) e
  exact this ▸ hs

theorem Hits.of_cons {p : α → Bool} {v : α} {s : LSeq α} (h : Hits p (cons v s)) : Hits p s := h

/-- every tee leaf points at an existing hub, not beyond its buffer (`cycle` leaves allowed);
    with `L = true` moreover every `filter` node sits over a sequence it `Hits` (no `filter` that
    rejects a whole period: `next` always returns) -/
def WF (L : Bool) (E : List (LSeq α)) (h : Heap α) : It α → Prop
  | .src _ => True
  | .cyc _ _ => True
  | .tee j pos => ∃ hub, h[j]? = some hub ∧ pos ≤ hub.buf.length
  | .map _ it => WF L E h it
  | .filter p it => WF L E h it ∧ (L = true → Hits p (pden E it))
  | .chain a b => WF L E h a ∧ WF L E h b
  | .skipper _ it => WF L E h it
  | .limiter _ it => WF L E h it

/-- the hub invariant: hub `k` still distributes `E[k]` = what it buffered, then its parent -/
def PHeapOK (L : Bool) (E : List (LSeq α)) (h : Heap α) : Prop :=
  E.length = h.length ∧
  ∀ (k : Nat) (hub : Hub α), h[k]? = some hub →
    Below k hub.parent ∧ WF L E h hub.parent ∧ Eqv (penvAt E k) (prepend hub.buf (pden E hub.parent))

theorem WF.grow {E : List (LSeq α)} {h h' : Heap α} (g : Grow h h') : ∀ {it : It α}, WF L E h it → WF L E h' it
  | .src _, _ => trivial
  | .cyc _ _, _ => trivial
  | .tee j pos, ⟨hub, hj, hp⟩ => by
      obtain ⟨hub', hj', hl⟩ := g.2 j hub hj
      exact ⟨hub', hj', Nat.le_trans hp hl⟩
  | .map _ it, hx => WF.grow (it := it) g hx
  | .filter _ it, hx => ⟨WF.grow (it := it) g hx.1, hx.2⟩
  | .chain a b, hx => ⟨WF.grow (it := a) g hx.1, WF.grow (it := b) g hx.2⟩
  | .skipper _ it, hx => WF.grow (it := it) g hx
  | .limiter _ it, hx => WF.grow (it := it) g hx

theorem WF.below {E : List (LSeq α)} {h : Heap α} : ∀ {it : It α}, WF L E h it → Below h.length it
  | .src _, _ => trivial
  | .cyc _ _, _ => trivial
  | .tee _ _, ⟨_, hj, _⟩ => getElem?_lt hj
  | .map _ it, hx => WF.below (it := it) hx
  | .filter _ it, hx => WF.below (it := it) hx.1
  | .chain a b, hx => ⟨WF.below (it := a) hx.1, WF.below (it := b) hx.2⟩
  | .skipper _ it, hx => WF.below (it := it) hx
  | .limiter _ it, hx => WF.below (it := it) hx

theorem PHeapOK.set {E : List (LSeq α)} {h : Heap α} {k : Nat} {hub : Hub α} (hH : PHeapOK L E h)
    (hk : h[k]? = some hub) {p : It α} {nb : List α} (hl : hub.buf.length ≤ nb.length)
    (hB : Below k p) (hO : WF L E h p) (hE : Eqv (penvAt E k) (prepend nb (pden E p))) :
    PHeapOK L E (h.set k ⟨p, nb⟩) := by
  have g := Grow.set hk p nb hl
  refine ⟨by simpa using hH.1, fun j hj hjk => ?_⟩
  by_cases e : k = j
  · subst e
    have hlt := getElem?_lt hk
    simp [hlt] at hjk
    subst hjk
    exact ⟨hB, WF.grow g hO, hE⟩
  · have hjk' : h[j]? = some hj := by simpa [List.getElem?_set, e] using hjk
    obtain ⟨b, o, ev⟩ := hH.2 j hj hjk'
    exact ⟨b, WF.grow g o, ev⟩

/-- `r` is the head of `s` and `s'` its tail (`none`: `s` is empty) -/
def Nx (s : LSeq α) : Option α → LSeq α → Prop
  | none, s' => s = nil ∧ s' = nil
  | some v, s' => Eqv s (cons v s')

theorem Nx.congr {s t : LSeq α} {r : Option α} {s' : LSeq α} (e : Eqv t s) (hx : Nx s r s') : Nx t r s' := by
  cases r with
  | none => exact ⟨(hx.1 ▸ e).eq_nil, hx.2⟩
  | some v => exact e.trans hx

/-- what a terminating `next` achieves -/
structure Sound (L : Bool) (E : List (LSeq α)) (h : Heap α) (it : It α) (h' : Heap α) (it' : It α) (r : Option α) : Prop where
  nx : Nx (pden E it) r (pden E it')
  hok : PHeapOK L E h'
  wf : WF L E h' it'
  grow : Grow h h'
  below : ∀ k, Below k it → Below k it' ∧ ∀ j, k ≤ j → h'[j]? = h[j]?

theorem nil_drop (n : Nat) : (nil : LSeq α).drop n = nil := by simp [nil]
theorem nil_take (n : Nat) : (nil : LSeq α).take n = [] := by simp [nil]

/-- **a terminating `next` returns the head and leaves the tail**, for every iterator (finite
    or periodic leaves) over every heap that satisfies the hub invariant, whatever the fuel -/
theorem next_sound {E : List (LSeq α)} : ∀ (f : Nat) (h : Heap α) (it : It α) (h' : Heap α) (it' : It α)
    (r : Option α), next f h it = some (h', it', r) → PHeapOK L E h → WF L E h it → Sound L E h it h' it' r := by
  intro f
  induction f with
  | zero => intro h it h' it' r hr; simp [next] at hr
  | succ f ih =>
    intro h it h' it' r hr hH hW
    cases it with
    | src xs =>
      cases xs with
      | nil =>
        simp only [next] at hr; cases hr
        exact ⟨⟨rfl, rfl⟩, hH, trivial, Grow.refl h, fun k _ => ⟨trivial, fun _ _ => rfl⟩⟩
      | cons x xs =>
        simp only [next] at hr; cases hr
        exact ⟨Eqv.refl _, hH, trivial, Grow.refl h, fun k _ => ⟨trivial, fun _ _ => rfl⟩⟩
    | cyc per rest =>
      cases rest with
      | cons x rest =>
        simp only [next] at hr; cases hr
        exact ⟨Eqv.refl _, hH, trivial, Grow.refl h, fun k _ => ⟨trivial, fun _ _ => rfl⟩⟩
      | nil =>
        cases per with
        | nil =>
          simp only [next] at hr; cases hr
          exact ⟨⟨rfl, rfl⟩, hH, trivial, Grow.refl h, fun k _ => ⟨trivial, fun _ _ => rfl⟩⟩
        | cons x per =>
          simp only [next] at hr; cases hr
          refine ⟨?_, hH, trivial, Grow.refl h, fun k _ => ⟨trivial, fun _ _ => rfl⟩⟩
          show Eqv (LSeq.mk [] (x :: per)) (cons x ⟨per, x :: per⟩)
          have := Eqv.unfold_per [] (x :: per)
          simpa [cons] using this
    | tee k pos =>
      obtain ⟨hub, hk, hp⟩ := hW
      obtain ⟨hBp, hWp, hE⟩ := hH.2 k hub hk
      rw [next] at hr
      simp only [hk] at hr
      by_cases hlt : pos < hub.buf.length
      · simp only [hlt, if_true] at hr; cases hr
        have hv : hub.buf[pos]? = some hub.buf[pos] := List.getElem?_eq_getElem hlt
        refine ⟨?_, hH, ⟨hub, hk, hlt⟩, Grow.refl h, fun k' hb => ⟨hb, fun _ _ => rfl⟩⟩
        rw [hv]
        show Eqv ((penvAt E k).drop pos) (cons _ ((penvAt E k).drop (pos + 1)))
        exact ((Eqv.drop pos hE).trans (drop_prepend_lt _ _ pos _ hv)).trans
          (Eqv.cons _ (Eqv.drop (pos + 1) hE).symm)
      · simp only [hlt, if_false] at hr
        have hpos : pos = hub.buf.length := Nat.le_antisymm hp (Nat.le_of_not_lt hlt)
        subst hpos
        cases hx : next f h hub.parent with
        | none => simp [hx] at hr
        | some x =>
          obtain ⟨h1, p1, r1⟩ := x
          have S := ih h hub.parent h1 p1 r1 hx hH hWp
          obtain ⟨hBp1, hfr⟩ := S.below k hBp
          have hk1 : h1[k]? = some hub := by rw [hfr k (Nat.le_refl _)]; exact hk
          have hden : Eqv (pden E (.tee k hub.buf.length)) (pden E hub.parent) :=
            (Eqv.drop _ hE).trans (drop_prepend _ _)
          have frame : ∀ (nh : Hub α) (k' : Nat), Below k' (.tee k hub.buf.length : It α) → ∀ j, k' ≤ j →
              (h1.set k nh)[j]? = h[j]? := by
            intro nh k' hb j hj
            have hkj : k ≠ j := Nat.ne_of_lt (Nat.lt_of_lt_of_le hb hj)
            rw [List.getElem?_set_ne hkj]
            exact hfr j (Nat.le_of_lt (Nat.lt_of_lt_of_le hb hj))
          cases r1 with
          | none =>
            simp only [hx] at hr; cases hr
            have hP : pden E hub.parent = nil := S.nx.1
            have hP1 : pden E p1 = nil := S.nx.2
            have hnil : pden E (.tee k hub.buf.length) = nil := by rw [hP] at hden; exact hden.eq_nil
            exact ⟨⟨hnil, hnil⟩,
              PHeapOK.set S.hok hk1 (Nat.le_refl _) hBp1 S.wf (by rw [hP1, ← hP]; exact hE),
              ⟨⟨p1, hub.buf⟩, by simp [getElem?_lt hk1], Nat.le_refl _⟩,
              S.grow.trans (Grow.set hk1 _ _ (Nat.le_refl _)), fun k' hb => ⟨hb, frame _ k' hb⟩⟩
          | some v =>
            simp only [hx] at hr; cases hr
            have hE' : Eqv (penvAt E k) (prepend (hub.buf ++ [v]) (pden E p1)) := by
              rw [prepend_snoc]; exact hE.trans (Eqv.prepend _ S.nx)
            have hv : (hub.buf ++ [v])[hub.buf.length]? = some v := by simp
            refine ⟨?_, PHeapOK.set S.hok hk1 (by simp) hBp1 S.wf hE',
              ⟨⟨p1, hub.buf ++ [v]⟩, by simp [getElem?_lt hk1], by simp⟩,
              S.grow.trans (Grow.set hk1 _ _ (by simp)), fun k' hb => ⟨hb, frame _ k' hb⟩⟩
            show Eqv ((penvAt E k).drop hub.buf.length) (cons v ((penvAt E k).drop (hub.buf.length + 1)))
            exact ((Eqv.drop _ hE').trans (drop_prepend_lt _ _ _ _ hv)).trans
              (Eqv.cons _ (Eqv.drop _ hE').symm)
    | map g c =>
      rw [next] at hr
      cases hx : next f h c with
      | none => simp [hx] at hr
      | some x =>
        obtain ⟨h1, c1, r1⟩ := x
        have S := ih h c h1 c1 r1 hx hH hW
        simp only [hx] at hr; cases hr
        refine ⟨?_, S.hok, S.wf, S.grow, fun k hb => S.below k hb⟩
        cases r1 with
        | none =>
          obtain ⟨a, b⟩ := S.nx
          exact ⟨by simp only [pden, a]; rfl, by simp only [pden, b]; rfl⟩
        | some v => exact Eqv.map g S.nx
    | filter p c =>
      rw [next] at hr
      cases hx : next f h c with
      | none => simp [hx] at hr
      | some x =>
        obtain ⟨h1, c1, r1⟩ := x
        have S := ih h c h1 c1 r1 hx hH hW.1
        cases r1 with
        | none =>
          have hits : L = true → Hits p (pden E c1) := fun _ => S.nx.2 ▸ Hits.nil p
          simp only [hx] at hr; cases hr
          obtain ⟨a, b⟩ := S.nx
          exact ⟨⟨by simp only [pden, a]; rfl, by simp only [pden, b]; rfl⟩, S.hok, ⟨S.wf, hits⟩, S.grow,
            fun k hb => S.below k hb⟩
        | some v =>
          have hn : Eqv (pden E c) (cons v (pden E c1)) := S.nx
          have hits : L = true → Hits p (pden E c1) := fun hl => Hits.of_cons (Hits.eqv hn (hW.2 hl))
          simp only [hx] at hr
          by_cases hv : p v = true
          · simp only [hv, if_true] at hr; cases hr
            refine ⟨?_, S.hok, ⟨S.wf, hits⟩, S.grow, fun k hb => S.below k hb⟩
            show Eqv ((pden E c).filter p) (cons v ((pden E c1).filter p))
            rw [← filter_cons_pos p _ hv]; exact Eqv.filter p S.nx
          · simp only [hv] at hr
            have S2 := ih h1 (.filter p c1) h' it' r hr S.hok ⟨S.wf, hits⟩
            refine ⟨Nx.congr ?_ S2.nx, S2.hok, S2.wf, S.grow.trans S2.grow, fun k hb => ?_⟩
            · show Eqv ((pden E c).filter p) ((pden E c1).filter p)
              exact (Eqv.filter p S.nx).trans (Eqv.of_eq (filter_cons_neg p _ hv))
            · obtain ⟨b1, f1⟩ := S.below k hb
              obtain ⟨b2, f2⟩ := S2.below k b1
              exact ⟨b2, fun j hj => (f2 j hj).trans (f1 j hj)⟩
    | chain a b =>
      rw [next] at hr
      cases hx : next f h a with
      | none => simp [hx] at hr
      | some x =>
        obtain ⟨h1, a1, r1⟩ := x
        have S := ih h a h1 a1 r1 hx hH hW.1
        have hWb : WF L E h1 b := WF.grow S.grow hW.2
        cases r1 with
        | some v =>
          simp only [hx] at hr; cases hr
          refine ⟨?_, S.hok, ⟨S.wf, hWb⟩, S.grow, fun k hb => ?_⟩
          · show Eqv ((pden E a).append (pden E b)) (cons v ((pden E a1).append (pden E b)))
            rw [← append_cons]; exact Eqv.append_left _ S.nx
          · obtain ⟨b1, f1⟩ := S.below k hb.1
            exact ⟨⟨b1, hb.2⟩, f1⟩
        | none =>
          simp only [hx] at hr
          have S2 := ih h1 b h' it' r hr S.hok hWb
          refine ⟨?_, S2.hok, S2.wf, S.grow.trans S2.grow, fun k hb => ?_⟩
          · have e : pden E (.chain a b) = pden E b := by
              show (pden E a).append (pden E b) = _
              rw [S.nx.1, append_nil_left]
            rw [e]; exact S2.nx
          · obtain ⟨_, f1⟩ := S.below k hb.1
            obtain ⟨b2, f2⟩ := S2.below k hb.2
            exact ⟨b2, fun j hj => (f2 j hj).trans (f1 j hj)⟩
    | skipper n c =>
      cases n with
      | zero =>
        rw [next] at hr
        have S := ih h c h' it' r hr hH hW
        refine ⟨?_, S.hok, S.wf, S.grow, S.below⟩
        show Nx ((pden E c).drop 0) r _
        rw [drop_zero]; exact S.nx
      | succ n =>
        rw [next] at hr
        cases hx : next f h c with
        | none => simp [hx] at hr
        | some x =>
          obtain ⟨h1, c1, r1⟩ := x
          have S := ih h c h1 c1 r1 hx hH hW
          cases r1 with
          | none =>
            simp only [hx] at hr; cases hr
            refine ⟨⟨?_, rfl⟩, S.hok, trivial, S.grow, fun k hb => ⟨trivial, (S.below k hb).2⟩⟩
            show (pden E c).drop (n + 1) = nil
            rw [S.nx.1, nil_drop]
          | some v =>
            simp only [hx] at hr
            have S2 := ih h1 (.skipper n c1) h' it' r hr S.hok S.wf
            refine ⟨Nx.congr ?_ S2.nx, S2.hok, S2.wf, S.grow.trans S2.grow, fun k hb => ?_⟩
            · show Eqv ((pden E c).drop (n + 1)) ((pden E c1).drop n)
              exact (Eqv.drop _ S.nx).trans (drop_cons _ _ _)
            · obtain ⟨b1, f1⟩ := S.below k hb
              obtain ⟨b2, f2⟩ := S2.below k b1
              exact ⟨b2, fun j hj => (f2 j hj).trans (f1 j hj)⟩
    | limiter n c =>
      cases n with
      | zero =>
        simp only [next] at hr; cases hr
        refine ⟨⟨?_, rfl⟩, hH, trivial, Grow.refl h, fun k _ => ⟨trivial, fun _ _ => rfl⟩⟩
        show LSeq.mk ((pden E c).take 0) [] = nil
        rw [take_zero]; rfl
      | succ n =>
        rw [next] at hr
        cases hx : next f h c with
        | none => simp [hx] at hr
        | some x =>
          obtain ⟨h1, c1, r1⟩ := x
          have S := ih h c h1 c1 r1 hx hH hW
          cases r1 with
          | none =>
            simp only [hx] at hr; cases hr
            refine ⟨⟨?_, rfl⟩, S.hok, trivial, S.grow, fun k hb => ⟨trivial, (S.below k hb).2⟩⟩
            show LSeq.mk ((pden E c).take (n + 1)) [] = nil
            rw [S.nx.1, nil_take]; rfl
          | some v =>
            simp only [hx] at hr; cases hr
            refine ⟨?_, S.hok, S.wf, S.grow, fun k hb => S.below k hb⟩
            show Eqv (LSeq.mk ((pden E c).take (n + 1)) []) (cons v ⟨(pden E c1).take n, []⟩)
            have hn : Eqv (pden E c) (cons v (pden E c1)) := S.nx
            rw [hn.take, take_cons]; exact Eqv.refl _

/-! ### take / list() -/

/-- a terminating multi-item read: the items read, then what the new iterator denotes, is what
    the old one denoted -/
structure PRead (L : Bool) (E : List (LSeq α)) (h : Heap α) (it : It α) (h' : Heap α) (it' : It α) (vs : List α) : Prop where
  den : Eqv (pden E it) (prepend vs (pden E it'))
  hok : PHeapOK L E h'
  wf : WF L E h' it'
  grow : Grow h h'

theorem takeN_sound {E : List (LSeq α)} (f : Nat) : ∀ (n : Nat) (h : Heap α) (it : It α) (h' : Heap α)
    (it' : It α) (vs : List α), takeN f n h it = some (h', it', vs) → PHeapOK L E h → WF L E h it →
    PRead L E h it h' it' vs ∧ (vs.length = n ∨ (vs.length ≤ n ∧ pden E it' = nil)) := by
  intro n
  induction n with
  | zero =>
    intro h it h' it' vs hr hH hW
    simp only [takeN] at hr; cases hr
    exact ⟨⟨Eqv.refl _, hH, hW, Grow.refl h⟩, .inl rfl⟩
  | succ n ihn =>
    intro h it h' it' vs hr hH hW
    rw [takeN] at hr
    cases hx : next f h it with
    | none => simp [hx] at hr
    | some x =>
      obtain ⟨h1, it1, r1⟩ := x
      have S := next_sound f h it h1 it1 r1 hx hH hW
      cases r1 with
      | none =>
        simp only [hx] at hr; cases hr
        exact ⟨⟨by rw [S.nx.1, S.nx.2]; exact Eqv.refl _, S.hok, S.wf, S.grow⟩, .inr ⟨Nat.zero_le _, S.nx.2⟩⟩
      | some v =>
        simp only [hx] at hr
        cases hy : takeN f n h1 it1 with
        | none => simp [hy] at hr
        | some y =>
          obtain ⟨h2, it2, ws⟩ := y
          obtain ⟨R2, hl⟩ := ihn h1 it1 h2 it2 ws hy S.hok S.wf
          simp only [hy] at hr; cases hr
          refine ⟨⟨?_, R2.hok, R2.wf, S.grow.trans R2.grow⟩, ?_⟩
          · rw [prepend_cons]
            have hn : Eqv (pden E it) (cons v (pden E it1)) := S.nx
            exact hn.trans (Eqv.cons v R2.den)
          · rcases hl with e | ⟨l, z⟩
            · exact .inl (by simp [e])
            · exact .inr ⟨by simpa using l, z⟩

theorem drainIt_sound {E : List (LSeq α)} (f : Nat) : ∀ (g : Nat) (h : Heap α) (it : It α) (h' : Heap α)
    (it' : It α) (vs : List α), drainIt f g h it = some (h', it', vs) → PHeapOK L E h → WF L E h it →
    PRead L E h it h' it' vs ∧ pden E it' = nil := by
  intro g
  induction g with
  | zero => intro h it h' it' vs hr; simp [drainIt] at hr
  | succ g ihg =>
    intro h it h' it' vs hr hH hW
    rw [drainIt] at hr
    cases hx : next f h it with
    | none => simp [hx] at hr
    | some x =>
      obtain ⟨h1, it1, r1⟩ := x
      have S := next_sound f h it h1 it1 r1 hx hH hW
      cases r1 with
      | none =>
        simp only [hx] at hr; cases hr
        exact ⟨⟨by rw [S.nx.1, S.nx.2]; exact Eqv.refl _, S.hok, S.wf, S.grow⟩, S.nx.2⟩
      | some v =>
        simp only [hx] at hr
        cases hy : drainIt f g h1 it1 with
        | none => simp [hy] at hr
        | some y =>
          obtain ⟨h2, it2, ws⟩ := y
          obtain ⟨R2, z⟩ := ihg h1 it1 h2 it2 ws hy S.hok S.wf
          simp only [hy] at hr; cases hr
          refine ⟨⟨?_, R2.hok, R2.wf, S.grow.trans R2.grow⟩, z⟩
          rw [prepend_cons]
          have hn : Eqv (pden E it) (cons v (pden E it1)) := S.nx
          exact hn.trans (Eqv.cons v R2.den)

/-- **`Stream.take` (every kind of count), whenever it returns, = `specTake`** on any
    representation `s` of the sequence the iterator denotes -/
theorem takeIt_sound {E : List (LSeq α)} {f : Nat} {h : Heap α} {it : It α} {c : Cnt} {h' : Heap α}
    {it' : It α} {o : Obs α} (hr : takeIt f h it c = some (h', it', o)) (hH : PHeapOK L E h) (hW : WF L E h it)
    {s : LSeq α} (hs : Eqv s (pden E it)) :
    ∃ s', specTake s c = some (s', o) ∧ Eqv s' (pden E it') ∧ PHeapOK L E h' ∧ WF L E h' it' ∧ Grow h h' := by
  simp only [takeIt] at hr
  cases hm : takeMode c with
  | one =>
    simp only [hm] at hr
    cases hx : next f h it with
    | none => simp [hx] at hr
    | some x =>
      obtain ⟨h1, it1, r1⟩ := x
      have S := next_sound f h it h1 it1 r1 hx hH hW
      cases r1 with
      | none =>
        simp only [hx] at hr; cases hr
        have hs0 : s = nil := by rw [S.nx.1] at hs; exact hs.eq_nil
        refine ⟨s, ?_, by rw [hs0, S.nx.2]; exact Eqv.refl _, S.hok, S.wf, S.grow⟩
        simp [specTake, hm, hs0, nil_take]
      | some v =>
        have hn : Eqv s (cons v (pden E it1)) := hs.trans S.nx
        simp only [hx] at hr; cases hr
        refine ⟨s.drop 1, ?_, ?_, S.hok, S.wf, S.grow⟩
        · simp only [specTake, hm, hn.take, take_cons]
        · refine (Eqv.drop 1 hn).trans ((drop_cons _ _ 0).trans ?_)
          rw [drop_zero]; exact Eqv.refl _
  | all =>
    simp only [hm] at hr
    cases hx : drainIt f f h it with
    | none => simp [hx] at hr
    | some x =>
      obtain ⟨h1, it1, vs⟩ := x
      obtain ⟨R, z⟩ := drainIt_sound f f h it h1 it1 vs hx hH hW
      simp only [hx] at hr; cases hr
      have hfin : Eqv (LSeq.mk vs []) s := by
        have := hs.trans R.den
        rw [z, prepend_to_nil] at this
        exact this.symm
      have hsv : s = ⟨vs, []⟩ := (hfin.fin rfl).symm
      refine ⟨⟨[], []⟩, ?_, by rw [z]; exact Eqv.refl _, R.hok, R.wf, R.grow⟩
      simp [specTake, hm, hsv, LSeq.endless]
  | n k =>
    simp only [hm] at hr
    cases hx : takeN f k h it with
    | none => simp [hx] at hr
    | some x =>
      obtain ⟨h1, it1, vs⟩ := x
      obtain ⟨R, hl⟩ := takeN_sound f k h it h1 it1 vs hx hH hW
      have hn : Eqv s (prepend vs (pden E it1)) := hs.trans R.den
      simp only [hx] at hr; cases hr
      refine ⟨s.drop k, ?_, ?_, R.hok, R.wf, R.grow⟩
      · rcases hl with e | ⟨l, z⟩
        · simp only [specTake, hm, hn.take, ← e, take_prepend]
        · rw [z, prepend_to_nil] at hn
          have hsv : s = ⟨vs, []⟩ := (hn.symm.fin rfl).symm
          simp [specTake, hm, hsv, List.take_of_length_le l]
      · rcases hl with e | ⟨l, z⟩
        · rw [← e]; exact (Eqv.drop _ hn).trans (drop_prepend _ _)
        · rw [z, prepend_to_nil] at hn
          have hsv : s = ⟨vs, []⟩ := (hn.symm.fin rfl).symm
          rw [hsv, z]
          simp [List.drop_eq_nil_of_le l]
          exact Eqv.refl _

end ALV.C03
