/-
  C03 — the counts: `rint` (take / peek) is "nearest, ties up"; `round` (skip / limit) is
  "nearest, ties to even".  Core `Rat` only.
-/
import ALV.Model.C03
open ALV.C03
namespace ALV.C03
theorem roundHalfEven_nearest (x : Rat) :
    (roundHalfEven x : Rat) - 1/2 ≤ x ∧ x ≤ (roundHalfEven x : Rat) + 1/2 ∧
      ((x = (roundHalfEven x : Rat) + 1/2 ∨ x = (roundHalfEven x : Rat) - 1/2) → roundHalfEven x % 2 = 0) := by
  have h1 := Rat.floor_le x
  have h2 := Rat.lt_floor_add_one x
  simp only [roundHalfEven]
  split
  · rename_i h
    push_cast at *
    refine ⟨by grind, by grind, fun ht => ?_⟩
    rcases ht with ht | ht <;> grind
  · split
    · rename_i h h'
      push_cast at *
      refine ⟨by grind, by grind, fun ht => ?_⟩
      rcases ht with ht | ht <;> grind
    · split
      · rename_i h h' he
        push_cast at *
        exact ⟨by grind, by grind, fun _ => he⟩
      · rename_i h h' he
        push_cast at *
        refine ⟨by grind, by grind, fun _ => by omega⟩

theorem takeMode_flt_pos (x : Rat) (hx : x > 0) : takeMode (.flt x) = .n (rintPos x).toNat := by
  simp [takeMode, hx]

theorem rintPos_nearest (x : Rat) : (rintPos x : Rat) - 1/2 ≤ x ∧ x < (rintPos x : Rat) + 1/2 := by
  have h1 := Rat.floor_le x
  have h2 := Rat.lt_floor_add_one x
  simp only [rintPos]
  split
  · rename_i h
    constructor
    · push_cast at *; grind
    · push_cast at *; grind
  · rename_i h
    constructor <;> grind

/-- exactly on a tie `k + 1/2`: `rint` goes away from zero -/
theorem rint_tie (k : Int) : rintPos ((k : Rat) + 1/2) = k + 1 := by
  have h := rintPos_nearest ((k : Rat) + 1/2)
  obtain ⟨h1, h2⟩ := h
  have a : ((rintPos ((k : Rat) + 1/2) : Int) : Rat) ≤ ((k + 1 : Int) : Rat) := by push_cast; grind
  have b : ((k : Int) : Rat) < ((rintPos ((k : Rat) + 1/2) : Int) : Rat) := by grind
  have a' := Rat.intCast_le_intCast.1 a
  have b' := Rat.intCast_lt_intCast.1 b
  omega
theorem round_tie (k : Int) : roundHalfEven ((k : Rat) + 1/2) % 2 = 0 ∧
    (roundHalfEven ((k : Rat) + 1/2) = k ∨ roundHalfEven ((k : Rat) + 1/2) = k + 1) := by
  obtain ⟨h1, h2, h3⟩ := roundHalfEven_nearest ((k : Rat) + 1/2)
  have a : ((roundHalfEven ((k : Rat) + 1/2) : Int) : Rat) ≤ ((k + 1 : Int) : Rat) := by push_cast; grind
  have b : ((k : Int) : Rat) ≤ ((roundHalfEven ((k : Rat) + 1/2) : Int) : Rat) := by grind
  have a' := Rat.intCast_le_intCast.1 a
  have b' := Rat.intCast_le_intCast.1 b
  have c : roundHalfEven ((k : Rat) + 1/2) = k ∨ roundHalfEven ((k : Rat) + 1/2) = k + 1 := by omega
  refine ⟨h3 ?_, c⟩
  rcases c with c | c
  · left; rw [c]
  · right; rw [c]; push_cast; grind

end ALV.C03
