/-
  C03 — the counts: `rint` (take / peek) is "nearest, ties up"; `round` (skip / limit) is
  "nearest, ties to even".  Core `Rat` only.
-/
import ALV.Model.C03
open ALV.C03
namespace ALV.C03
theorem roundHalfEven_nearest (x : Rat) :
    (roundHalfEven x : Rat) - 1/2 ≤ x ∧ x ≤ (roundHalfEven x : Rat) + 1/2 ∧
      ((x = (roundHalfEven x : Rat) + 1/2 ∨ x = (roundHalfEven x : Rat) - 1/2) → roundHalfEven x % 2 = 0) := by
  have h1 := Rat.floor_le x
  have h2 := Rat.lt_floor_add_one x
  simp only [roundHalfEven]
  split
  · rename_i h
    push_cast at *
    refine ⟨by grind, by grind, fun ht => ?_⟩
    rcases ht with ht | ht <;> grind
  · split
    · rename_i h h'
      push_cast at *
      refine ⟨by grind, by grind, fun ht => ?_⟩
      rcases ht with ht | ht <;> grind
    · split
      · rename_i h h' he
        push_cast at *
        exact ⟨by grind, by grind, fun _ => he⟩
      · rename_i h h' he
        push_cast at *
        refine ⟨by grind, by grind, fun _ => by omega⟩

theorem takeMode_flt_pos (x : Rat) (hx : x > 0) : takeMode (.flt x) = .n (rintPos x).toNat := by
  simp [takeMode, hx]

theorem rintPos_nearest (x : Rat) : (rintPos x : Rat) - 1/2 ≤ x ∧ x < (rintPos x : Rat) + 1/2 := by
  have h1 := Rat.floor_le x
  have h2 := Rat.lt_floor_add_one x
  simp only [rintPos]
  split
  · rename_i h
    constructor
    · push_cast at *; grind
    · push_cast at *; grind
  · rename_i h
    constructor <;> grind

end ALV.C03
