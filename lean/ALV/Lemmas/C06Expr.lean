/-
  C06 — helper lemmas, part 8: `__call__` on a filter object built by an expression
  (`evalTree`): the polynomials the arithmetic leaves are NOT sorted by power (insertion order of
  the `Poly` double loops); with a constant gain the call needs no sortedness at all.
-/
import ALV.Lemmas.C06Tree
import ALV.Lemmas.C06Corner

set_option linter.unusedSectionVars false
set_option linter.unusedSimpArgs false
set_option linter.unusedVariables false
namespace ALV.C06
open ALV.C04
variable {K : Type} [Field K] [DecidableEq K]

/-- `reads_once` for a constant-gain filter object whose polynomials are in ANY order -/
theorem callTV_const_take (num den : Terms (Coef K)) (mem : Mem K) (zero : K) (xs : List K) (g : K)
    (hc : ∀ kv ∈ num ++ den, 0 ≤ kv.1) (h0 : coefAt den 0 = Coef.const g) (hg : g ≠ 0)
    (k : Nat) (ys : List K) (its : Its K)
    (hr : callTV num den mem zero xs = .ok (ys, its)) (hk : k ≤ ys.length) :
    callTV num den mem zero (xs.take k)
      = .ok (ys.take k, ⟨(dense num).map (fun c => c.items.drop k),
                          (dense den).tail.map (fun c => c.items.drop k)⟩) := by
  rw [callTV_const_unfold num den mem zero _ g hc h0 hg] at hr ⊢
  simp only [Except.ok.injEq] at hr
  have h1 : ys = (evalTV (compileTV (dense num) (Coef.const g :: (dense den).tail) zero)
      (memoryOf zero (dense den).tail.length mem) zero (itsOf (dense num) (dense den).tail) xs).1 := by
    rw [hr]
  rw [h1] at hk ⊢
  rw [evalTV_take _ _ _ zero _ xs k hk]

end ALV.C06
