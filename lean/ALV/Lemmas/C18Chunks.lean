/-
  C18 — helper lemmas for `chunks`: both strategies refine `chunksSpec`.  Core Lean only.
-/
import ALV.Model.C18
import ALV.Spec.C18
import ALV.Lemmas.C08
namespace ALV.C18
open ALV.C08
variable {α ε : Type}

/-! ### padding arithmetic and `splitEvery` -/

theorem padLen_zero (size : Nat) : padLen size 0 = 0 := by simp [padLen]

theorem padLen_lt (size len : Nat) (h0 : 0 < len) (h : len < size) : padLen size len = size - len := by
  unfold padLen
  rw [Nat.mod_eq_of_lt h, Nat.mod_eq_of_lt (by omega)]

theorem padLen_add (size len : Nat) : padLen size (size + len) = padLen size len := by
  unfold padLen
  rw [Nat.add_mod_left]

theorem padLen_sub (size len : Nat) (h : size ≤ len) : padLen size (len - size) = padLen size len := by
  have : len = size + (len - size) := by omega
  conv => rhs; rw [this, padLen_add]

/-- the padded length is a multiple of `size` -/
theorem padLen_dvd (size len : Nat) (hs : 0 < size) : size ∣ len + padLen size len := by
  unfold padLen
  have hm := Nat.mod_lt len hs
  by_cases h0 : len % size = 0
  · rw [h0, Nat.sub_zero, Nat.mod_self, Nat.add_zero]
    exact Nat.dvd_of_mod_eq_zero h0
  · rw [Nat.mod_eq_of_lt (by omega)]
    have h := Nat.div_add_mod len size
    refine ⟨len / size + 1, ?_⟩
    rw [Nat.mul_add, Nat.mul_one]
    omega

theorem splitEvery_nil (n : Nat) : splitEvery n ([] : List α) = [] := by
  rw [splitEvery]; simp

theorem splitEvery_cons_block (n : Nat) (hn : 0 < n) (blk rest : List α) (h : blk.length = n) :
    splitEvery n (blk ++ rest) = blk :: splitEvery n rest := by
  rw [splitEvery]
  have hne : ¬ (blk ++ rest = [] ∨ n = 0) := by
    intro hh
    rcases hh with hh | hh
    · have := congrArg List.length hh
      rw [List.length_append, List.length_nil] at this; omega
    · omega
  rw [dif_neg hne, List.take_left' h, List.drop_left' h]

theorem splitEvery_short (n : Nat) (l : List α) (h0 : l ≠ []) (h : l.length ≤ n) :
    splitEvery n l = [l] := by
  rw [splitEvery]
  have hne : ¬ (l = [] ∨ n = 0) := by
    intro hh
    rcases hh with hh | hh
    · exact h0 hh
    · subst hh; exact h0 (List.eq_nil_of_length_eq_zero (by omega))
  rw [dif_neg hne, List.take_of_length_le h, List.drop_of_length_le h, splitEvery_nil]

theorem splitEvery_flatten (n : Nat) (hn : 0 < n) : ∀ (k : Nat) (l : List α), l.length = k →
    (splitEvery n l).flatten = l := by
  intro k
  induction k using Nat.strongRecOn with
  | ind k ih =>
    intro l hl
    rw [splitEvery]
    by_cases h : l = [] ∨ n = 0
    · rw [dif_pos h]
      rcases h with h | h
      · simp [h]
      · omega
    · rw [dif_neg h, List.flatten_cons]
      have hne : l.length ≠ 0 := fun h0 => h (Or.inl (List.eq_nil_of_length_eq_zero h0))
      rw [ih (l.drop n).length (by rw [List.length_drop]; omega) _ rfl, List.take_append_drop]

theorem splitEvery_lengths (n : Nat) (hn : 0 < n) : ∀ (k : Nat) (l : List α), l.length = k → n ∣ k →
    ∀ b ∈ splitEvery n l, b.length = n := by
  intro k
  induction k using Nat.strongRecOn with
  | ind k ih =>
    intro l hl hd b hb
    rw [splitEvery] at hb
    by_cases h : l = [] ∨ n = 0
    · rw [dif_pos h] at hb; simp at hb
    · rw [dif_neg h] at hb
      have hne : l.length ≠ 0 := fun h0 => h (Or.inl (List.eq_nil_of_length_eq_zero h0))
      have hle : n ≤ l.length := by
        rw [hl]; exact Nat.le_of_dvd (by omega) hd
      rcases List.mem_cons.mp hb with hb | hb
      · rw [hb, List.length_take]; omega
      · refine ih (l.drop n).length (by rw [List.length_drop]; omega) _ rfl ?_ b hb
        rw [List.length_drop, hl]
        exact Nat.dvd_sub hd (Nat.dvd_refl n)

/-! ### `blocks` with hop = size is `splitEvery` of the padded sequence -/

theorem blocksSpec_eq_split (size : Nat) (hs : 0 < size) (pad : α) : ∀ (k : Nat) (xs : List α),
    xs.length = k → blocksSpec size size pad xs = splitEvery size (padded size pad xs) := by
  intro k
  induction k using Nat.strongRecOn with
  | ind k ih =>
    intro xs hl
    rw [blocksSpec]
    by_cases h : xs.length < size ∨ size = 0 ∨ size = 0
    · rw [dif_pos h]
      have hlt : xs.length < size := by omega
      by_cases h0 : xs.length = 0
      · have : xs = [] := List.eq_nil_of_length_eq_zero h0
        subst this
        rw [if_neg (by simp)]
        simp [padded, padLen_zero, splitEvery_nil]
      · rw [if_pos (by omega)]
        unfold padded
        rw [padLen_lt size xs.length (by omega) hlt, splitEvery_short]
        · intro hh
          have := congrArg List.length hh
          simp at this; omega
        · simp; omega
    · rw [dif_neg h]
      have hge : size ≤ xs.length := by omega
      rw [ih (xs.drop size).length (by rw [List.length_drop]; omega) _ rfl]
      unfold padded
      rw [List.length_drop, padLen_sub size xs.length hge]
      have hx : xs ++ List.replicate (padLen size xs.length) pad =
          xs.take size ++ (xs.drop size ++ List.replicate (padLen size xs.length) pad) := by
        rw [← List.append_assoc, List.take_append_drop]
      rw [hx, splitEvery_cons_block size hs (xs.take size) _ (by rw [List.length_take]; omega)]

/-! ### struct strategy = spec -/

theorem packBlock_eq_packSeq (enc : α → Except ε Bytes) : ∀ l, packBlock enc l = packSeq enc l := by
  intro l
  induction l with
  | nil => rfl
  | cons x xs ih =>
    have hs : packSeq enc (x :: xs) =
        (match enc x, packSeq enc xs with
          | .error e, _ => .error e
          | .ok _, .error e => .error e
          | .ok a, .ok b => .ok (a ++ b)) := rfl
    rw [hs, packBlock, ih]
    cases enc x <;> cases packSeq enc xs <;> rfl

theorem chunksStruct_eq_spec (order : Order) (le : α → Except ε Bytes) (size : Nat) (hs : 0 < size)
    (pad : α) (xs : List α) :
    chunksStruct order le size pad xs = chunksSpec (encOrder order le) size pad xs := by
  have inv : BInv size (⟨[], 0⟩ : BState α) := ⟨by simpa using hs, by simp, fun _ => by simp⟩
  have hb : blocks size size pad xs = blocksSpec size size pad xs := by
    have := bloop_spec size size hs hs pad xs ⟨[], 0⟩ inv
    simpa [blocks, virt, lastN] using this
  unfold chunksStruct chunksSpec
  rw [hb, blocksSpec_eq_split size hs pad _ xs rfl]
  congr 1
  funext l
  exact packBlock_eq_packSeq _ l

/-! ### array strategy = spec -/

theorem packSeq_cons (enc : α → Except ε Bytes) (x : α) (xs : List α) :
    packSeq enc (x :: xs) =
      (match enc x, packSeq enc xs with
        | .error e, _ => .error e
        | .ok _, .error e => .error e
        | .ok a, .ok b => .ok (a ++ b)) := rfl

/-- a prefix whose items all encode contributes its bytes -/
theorem packSeq_ok_prefix (enc : α → Except ε Bytes) : ∀ (cur : List α) (curB : List Bytes) (rest : List α),
    cur.map enc = curB.map Except.ok →
    packSeq enc (cur ++ rest) =
      (match packSeq enc rest with
        | .error e => .error e
        | .ok r => .ok (curB.flatten ++ r)) := by
  intro cur
  induction cur with
  | nil =>
    intro curB rest h
    cases curB with
    | nil => simp; cases packSeq enc rest <;> rfl
    | cons b bs => simp at h
  | cons x cur ih =>
    intro curB rest h
    cases curB with
    | nil => simp at h
    | cons b bs =>
      simp only [List.map_cons, List.cons.injEq] at h
      rw [List.cons_append, packSeq_cons, ih bs rest h.2, h.1]
      cases packSeq enc rest <;> simp

/-- the first item that fails decides, whatever follows -/
theorem packSeq_err (enc : α → Except ε Bytes) (cur : List α) (curB : List Bytes) (x : α) (e : ε)
    (rest : List α) (h : cur.map enc = curB.map Except.ok) (hx : enc x = .error e) :
    packSeq enc (cur ++ x :: rest) = .error e := by
  rw [packSeq_ok_prefix enc cur curB _ h, packSeq_cons, hx]

theorem set_at_prefix {β : Type} (pre : List β) (j c : β) (js : List β) :
    (pre ++ j :: js).set pre.length c = pre ++ c :: js := by
  induction pre with
  | nil => rfl
  | cons p ps ih => simp [ih]

theorem aFill_ok (encN : α → Except ε Bytes) (pad : α) (c : Bytes) (hc : encN pad = .ok c) :
    ∀ (k : Nat) (pre junk : List Bytes), junk.length = k →
      aFill encN pad k pre.length (pre ++ junk) = .ok (pre ++ List.replicate k c) := by
  intro k
  induction k with
  | zero =>
    intro pre junk hj
    have : junk = [] := List.eq_nil_of_length_eq_zero hj
    simp [aFill, this]
  | succ k ih =>
    intro pre junk hj
    cases junk with
    | nil => simp at hj
    | cons j js =>
      rw [aFill, hc]
      simp only
      rw [set_at_prefix]
      have h := ih (pre ++ [c]) js (by simpa using hj)
      simp only [List.length_append, List.length_cons, List.length_nil, List.append_assoc,
        List.cons_append, List.nil_append, Nat.zero_add] at h
      rw [h, List.replicate_succ]

theorem aFill_err (encN : α → Except ε Bytes) (pad : α) (e : ε) (he : encN pad = .error e)
    (k idx : Nat) (cells : List Bytes) : aFill encN pad (k + 1) idx cells = .error e := by
  rw [aFill, he]

theorem swap_orderBytes (native order : Order) (b : Bytes) :
    (if order = native then orderBytes native b else (orderBytes native b).reverse) = orderBytes order b := by
  cases native <;> cases order <;> simp [orderBytes]

/-- the exported working array is the struct image of the same items -/
theorem exportCells_map (native order : Order) (bs : List Bytes) :
    exportCells native order (bs.map (orderBytes native)) = (bs.map (orderBytes order)).flatten := by
  unfold exportCells
  congr 1
  by_cases h : order = native
  · rw [if_pos h, h]
  · rw [if_neg h, List.map_map]
    apply List.map_congr_left
    intro b _
    have := swap_orderBytes native order b
    rw [if_neg h] at this
    exact this

theorem map_encOrder (o : Order) (le : α → Except ε Bytes) (cur : List α) (curB : List Bytes)
    (h : cur.map le = curB.map Except.ok) :
    cur.map (encOrder o le) = (curB.map (orderBytes o)).map Except.ok := by
  induction cur generalizing curB with
  | nil => cases curB <;> simp at h ⊢
  | cons x xs ih =>
    cases curB with
    | nil => simp at h
    | cons b bs =>
      simp only [List.map_cons, List.cons.injEq] at h ⊢
      exact ⟨by simp [encOrder, h.1, Except.map], ih bs h.2⟩

theorem padded_length_pos (size : Nat) (pad : α) (l : List α) (h : l ≠ []) : padded size pad l ≠ [] := by
  unfold padded
  intro hh
  have := congrArg List.length hh
  rw [List.length_append, List.length_nil] at this
  exact h (List.eq_nil_of_length_eq_zero (by omega))

/-- first group of the padded sequence when the sequence starts with `cur ++ [x]`, `|cur| < size` -/
theorem split_first (size : Nat) (pad : α) (cur : List α) (x : α) (xs : List α) (h : cur.length < size) :
    ∃ rest tl, splitEvery size (padded size pad (cur ++ x :: xs)) = (cur ++ x :: rest) :: tl := by
  rw [splitEvery]
  have hne : ¬ (padded size pad (cur ++ x :: xs) = [] ∨ size = 0) := by
    intro hh
    rcases hh with hh | hh
    · exact padded_length_pos size pad _ (by simp) hh
    · omega
  rw [dif_neg hne]
  obtain ⟨m, hm⟩ : ∃ m, size - cur.length = m + 1 := ⟨size - cur.length - 1, by omega⟩
  refine ⟨List.take m (xs ++ List.replicate (padLen size (cur ++ x :: xs).length) pad),
    splitEvery size (List.drop size (padded size pad (cur ++ x :: xs))), ?_⟩
  congr 1
  unfold padded
  rw [List.append_assoc, List.take_append, List.take_of_length_le (by omega), List.cons_append, hm,
    List.take_succ_cons]

theorem aLoop_spec (native order : Order) (le : α → Except ε Bytes) (size : Nat) (pad : α) :
    ∀ (xs cur : List α) (curB junk : List Bytes),
      cur.map le = curB.map Except.ok → cur.length + junk.length = size → cur.length < size →
      aLoop (encOrder native le) (exportCells native order) size pad
          (curB.map (orderBytes native) ++ junk) cur.length xs
        = chunksSpec (encOrder order le) size pad (cur ++ xs) := by
  intro xs
  induction xs with
  | nil =>
    intro cur curB junk hc hlen hlt
    have hcb : curB.length = cur.length := by
      have := congrArg List.length hc; simpa using this.symm
    rw [List.append_nil, aLoop]
    unfold chunksSpec
    by_cases h0 : cur.length = 0
    · have : cur = [] := List.eq_nil_of_length_eq_zero h0
      subst this
      simp [padded, padLen_zero, splitEvery_nil, genMap]
    · rw [if_pos h0]
      have hpl : padLen size cur.length = size - cur.length := padLen_lt size _ (by omega) hlt
      have hsp : splitEvery size (padded size pad cur) = [padded size pad cur] := by
        apply splitEvery_short
        · exact padded_length_pos size pad cur (fun h => h0 (by simp [h]))
        · unfold padded; rw [List.length_append, List.length_replicate, hpl]; omega
      rw [hsp]
      simp only [genMap]
      unfold padded
      rw [hpl]
      have hpre : (curB.map (orderBytes native)).length = cur.length := by simp [hcb]
      cases hp : le pad with
      | error e =>
        have hk : size - cur.length = (size - cur.length - 1) + 1 := by omega
        rw [hk, aFill_err _ _ e (by simp [encOrder, hp, Except.map]), List.replicate_succ]
        rw [packSeq_err (encOrder order le) cur (curB.map (orderBytes order)) pad e _
          (map_encOrder order le cur curB hc) (by simp [encOrder, hp, Except.map])]
      | ok pb =>
        have hf := aFill_ok (encOrder native le) pad (orderBytes native pb)
          (by simp [encOrder, hp, Except.map]) (size - cur.length) (curB.map (orderBytes native)) junk (by omega)
        rw [hpre] at hf
        rw [hf]
        have hall : (cur ++ List.replicate (size - cur.length) pad).map le =
            (curB ++ List.replicate (size - cur.length) pb).map Except.ok := by
          simp [hc, hp]
        have hps := packSeq_ok_prefix (encOrder order le) _ _ []
          (map_encOrder order le _ _ hall)
        simp only [List.append_nil] at hps
        have hnil : packSeq (encOrder order le) ([] : List α) = .ok [] := rfl
        rw [hnil] at hps
        rw [hps]
        simp only [List.append_nil, Gen.cons]
        have : curB.map (orderBytes native) ++ List.replicate (size - cur.length) (orderBytes native pb) =
            (curB ++ List.replicate (size - cur.length) pb).map (orderBytes native) := by simp
        rw [this, exportCells_map]
  | cons x xs ih =>
    intro cur curB junk hc hlen hlt
    have hcb : curB.length = cur.length := by
      have := congrArg List.length hc; simpa using this.symm
    have hpre : (curB.map (orderBytes native)).length = cur.length := by simp [hcb]
    rw [aLoop]
    cases hx : le x with
    | error e =>
      have hxe : encOrder native le x = .error e := by simp [encOrder, hx, Except.map]
      rw [hxe]
      simp only
      unfold chunksSpec
      obtain ⟨rest, tl, hsp⟩ := split_first size pad cur x xs hlt
      rw [hsp, genMap, packSeq_err (encOrder order le) cur (curB.map (orderBytes order)) x e rest
        (map_encOrder order le cur curB hc) (by simp [encOrder, hx, Except.map])]
    | ok b =>
      have hxe : encOrder native le x = .ok (orderBytes native b) := by simp [encOrder, hx, Except.map]
      rw [hxe]
      simp only
      cases junk with
      | nil => simp at hlen; omega
      | cons j js =>
        have hset : (curB.map (orderBytes native) ++ j :: js).set cur.length (orderBytes native b) =
            (curB ++ [b]).map (orderBytes native) ++ js := by
          rw [← hpre, set_at_prefix]; simp
        rw [hset]
        have hc' : (cur ++ [x]).map le = (curB ++ [b]).map Except.ok := by simp [hc, hx]
        by_cases hfull : cur.length + 1 = size
        · rw [if_pos hfull]
          have hjs : js = [] := List.eq_nil_of_length_eq_zero (by simp at hlen; omega)
          subst hjs
          rw [List.append_nil, exportCells_map]
          -- next block starts with an empty partial block; the whole array is junk
          have hih := ih [] [] ((curB ++ [b]).map (orderBytes native)) rfl
            (by simp [hcb]; omega) (by simp; omega)
          simp only [List.map_nil, List.nil_append, List.length_nil] at hih
          rw [hih]
          unfold chunksSpec
          have hpad : padded size pad (cur ++ x :: xs) = (cur ++ [x]) ++ padded size pad xs := by
            unfold padded
            have : (cur ++ x :: xs).length = size + xs.length := by simp; omega
            rw [this, padLen_add]; simp
          rw [hpad, splitEvery_cons_block size (by omega) _ _ (by simp; omega), genMap]
          have hps := packSeq_ok_prefix (encOrder order le) _ _ [] (map_encOrder order le _ _ hc')
          simp only [List.append_nil] at hps
          have hnil : packSeq (encOrder order le) ([] : List α) = .ok [] := rfl
          rw [hnil] at hps
          rw [hps]
          simp
        · rw [if_neg hfull]
          have hih := ih (cur ++ [x]) (curB ++ [b]) js hc' (by simp at hlen ⊢; omega) (by simp; omega)
          simp only [List.length_append, List.length_cons, List.length_nil, Nat.zero_add,
            List.append_assoc, List.cons_append, List.nil_append] at hih
          rw [← hih]

theorem chunksArray_eq_spec (native order : Order) (le : α → Except ε Bytes) (zero : α) (z : Bytes)
    (hz : le zero = .ok z) (size : Nat) (hs : 0 < size) (pad : α) (xs : List α) :
    chunksArray native order le zero size pad xs = chunksSpec (encOrder order le) size pad xs := by
  unfold chunksArray
  have : encOrder native le zero = .ok (orderBytes native z) := by simp [encOrder, hz, Except.map]
  rw [this]
  have h := aLoop_spec native order le size pad xs [] [] (List.replicate size (orderBytes native z)) rfl
    (by simp) (by simpa using hs)
  simpa using h

end ALV.C18
