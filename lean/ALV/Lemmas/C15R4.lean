/-
  C15 — lemmas of round 4: the last strategy assigned to a name read off a StrategyDict history,
  key arguments of every shape for deletions, a refused call anywhere in a history.
-/
import ALV.Lemmas.C15Call
namespace ALV.C15
set_option linter.unusedSectionVars false
variable {K V : Type} [DecidableEq K] [DecidableEq V]

/-! ## `sd[k]` is the last strategy assigned to `k` -/

/-- the operation is not `del sd.k` (deletion of the name `k` through its attribute) -/
def SOp.notDelattrOf (k : K) : SOp K V → Prop
  | .delattr (some k') => k' ≠ k
  | _ => True

theorem sdSpecDel_log {g g' : SDSpec K V} {k' : K} (hd : sdSpecDel g k' = some g') (k : K) :
    dget g'.log k = if k' = k then none else dget g.log k := by
  unfold sdSpecDel at hd
  cases hl : dget g.log k' with
  | none => simp [hl] at hd
  | some w =>
    simp only [hl, Option.some.injEq] at hd
    subst hd
    simp only
    rw [dget_filter_key g.log (fun x => decide (x ≠ k'))]
    by_cases hkk : k' = k
    · subst hkk; simp
    · have : ¬ k = k' := fun h => hkk h.symm
      simp [hkk, this]

theorem sdSpecDel_none_log {g : SDSpec K V} {k' : K} (hd : sdSpecDel g k' = none) : dget g.log k' = none := by
  unfold sdSpecDel at hd
  cases hl : dget g.log k' with
  | none => rfl
  | some w => simp [hl] at hd

theorem sdSpecStep_log (g : SDSpec K V) (op : SOp K V) (k : K) (hop : SOp.notDelattrOf k op) :
    dget (sdSpecStep g op).1.log k = sdLastAssigned k [op] (dget g.log k) := by
  cases op with
  | set keys v => simp only [sdSpecStep, sdSpecSet, sdLastAssigned, dget_specSet]
  | del k' =>
    simp only [sdSpecStep, sdLastAssigned]
    cases hd : sdSpecDel g k' with
    | some g' => exact sdSpecDel_log hd k
    | none =>
      by_cases hkk : k' = k
      · subst hkk; simp [sdSpecDel_none_log hd]
      · simp [hkk]
  | delattr attr =>
    cases attr with
    | none =>
      simp only [sdSpecStep, sdSpecDelattr, sdLastAssigned]
      cases g.default <;> rfl
    | some k' =>
      simp only [SOp.notDelattrOf] at hop
      simp only [sdSpecStep, sdSpecDelattr, sdLastAssigned]
      cases hl : dget g.log k' with
      | none => cases ha : dget g.attr k' <;> rfl
      | some w =>
        cases ha : dget g.attr k' with
        | none => rfl
        | some a =>
          by_cases hwa : w = a
          · simp only [hwa, if_true]
            cases hd : sdSpecDel g k' with
            | none => rfl
            | some g' =>
              show dget g'.log k = dget g.log k
              rw [sdSpecDel_log hd k]; simp [hop]
          · simp only [hwa, if_false]; rfl
  | setattr attr v => cases attr <;> rfl
  | get _ => rfl
  | getattr _ => rfl
  | default => rfl
  | call => rfl
  | len => rfl
  | setRefused _ => rfl
  | rejected => rfl
  | const _ => rfl
  | getT _ => rfl
  | contains _ => rfl
  | dictGet _ => rfl

theorem sdLastAssigned_cons (k : K) (op : SOp K V) (ops : List (SOp K V)) (cur : Option V) :
    sdLastAssigned k (op :: ops) cur = sdLastAssigned k ops (sdLastAssigned k [op] cur) := by
  cases op <;> rfl

theorem sd_last_assigned_spec (k : K) (ops : List (SOp K V)) : ∀ g : SDSpec K V,
    (∀ op ∈ ops, SOp.notDelattrOf k op) →
    dget (sdSpecRun g ops).1.log k = sdLastAssigned k ops (dget g.log k) := by
  induction ops with
  | nil => intro g _; rfl
  | cons op r ih =>
    intro g h
    rw [sdLastAssigned_cons, ← sdSpecStep_log g op k (h op List.mem_cons_self)]
    exact ih _ (fun o ho => h o (List.mem_cons_of_mem _ ho))

/-! ## key arguments of every shape: deletions -/

theorem classifyNames_hasUnhashable_iff {is : List (SKeyItem K)} :
    classifyNames is = .hasUnhashable ↔ SKeyItem.unhashable ∈ is := by
  induction is with
  | nil => simp [classifyNames]
  | cons i r ih =>
    cases i with
    | ok k =>
      simp only [classifyNames, List.mem_cons, reduceCtorEq, false_or, ← ih]
      cases classifyNames r <;> simp
    | nonStr =>
      simp only [classifyNames, List.mem_cons, reduceCtorEq, false_or, ← ih]
      cases classifyNames r <;> simp
    | unhashable => simp [classifyNames]

/-- the key argument of a deletion names a stored name: it is a single string (not a tuple) that is bound -/
def SKeyArg.boundIn (s : SD K V) : SKeyArg K → Prop
  | .single (.ok k) => getitem s.mkd k ≠ none
  | _ => False

def KeyArg.boundIn (s : St K V) : KeyArg K → Prop
  | .single (.ok k) => getitem s k ≠ none
  | _ => False

/-! ## runs over concatenated histories -/

theorem sdRun_append (a b : List (SOp K V)) : ∀ s : SD K V,
    sdRun s (a ++ b) = ((sdRun (sdRun s a).1 b).1, (sdRun s a).2 ++ (sdRun (sdRun s a).1 b).2) := by
  induction a with
  | nil => intro s; rfl
  | cons op r ih => intro s; simp only [List.cons_append, sdRun, ih]

theorem run_append (a b : List (Op K V)) : ∀ s : St K V,
    run s (a ++ b) = ((run (run s a).1 b).1, (run s a).2 ++ (run (run s a).1 b).2) := by
  induction a with
  | nil => intro s; rfl
  | cons op r ih => intro s; simp only [List.cons_append, run, ih]

end ALV.C15
