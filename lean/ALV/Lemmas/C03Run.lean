/-
  C03 — histories: the refinement of one step lifted to runs; the run of `k` hub requests.
-/
import ALV.Lemmas.C03Frame

namespace ALV.C03
variable {α : Type}

theorem rel_empty : Rel ([] : List (List α)) St.empty [] :=
  ⟨⟨rfl, fun k hub hk => by simp [St.empty] at hk⟩, fun i => by simp [St.empty]; exact trivial⟩


theorem run_refines_from {E : List (List α)} {st : St α} {sp : SPool α} (R : Rel E st sp)
    (ops : List (Op α)) (hops : ∀ op, op ∈ ops → op.Fin) :
    ∃ F, ∀ f, F ≤ f → run f st ops = specRun sp ops := by
  induction ops generalizing E st sp with
  | nil => exact ⟨0, fun f _ => rfl⟩
  | cons op ops ih =>
    obtain ⟨E', F1, st', sp', o, S⟩ := step_refines R op (hops op (by simp))
    obtain ⟨F2, h2⟩ := ih S.rel (fun x hx => hops x (by simp [hx]))
    refine ⟨max F1 F2, fun f hf => ?_⟩
    have r1 := S.run f (Nat.le_trans (Nat.le_max_left _ _) hf)
    have r2 := h2 f (Nat.le_trans (Nat.le_max_right _ _) hf)
    simp [run, specRun, r1, S.spec, r2]


theorem specRun_uses (s : LSeq α) : ∀ (k m : Nat) (rest : SPool α),
    specRun (.hub s m :: rest) (List.replicate k (.new (.obj 0))) =
      (List.range k).map (fun j => some (if j < m then Obs.new (rest.length + 1 + j) else .err "IndexError")) := by
  intro k
  induction k with
  | zero => intro m rest; rfl
  | succ k ih =>
    intro m rest
    rw [List.range_succ_eq_map, List.replicate_succ]
    cases m with
    | zero =>
      have := ih 0 rest
      simp [specRun, specStep, specSrc, this]
    | succ u =>
      have := ih u (rest ++ [.stream s])
      simp [specRun, specStep, specSrc, this]
      intro a _
      have e : rest.length + 1 + 1 + a = rest.length + 1 + (a + 1) := by omega
      rw [e]


end ALV.C03
