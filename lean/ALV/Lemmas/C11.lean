/-
  C11 — helper lemmas, part 1: step-up and step-down are mutually inverse; the
  break-down flag; scaling.  (Spec level, any field.)
-/
import ALV.Spec.C11
import Mathlib.Algebra.Field.Basic
import Mathlib.Tactic.Ring
import Mathlib.Tactic.FieldSimp
import Mathlib.Tactic.LinearCombination
import Mathlib.Data.List.Induction

set_option linter.unusedSectionVars false

namespace ALV.C11
variable {K : Type} [Field K] [DecidableEq K]

/-! ### generic list facts -/

theorem zipWith_zipWith_swap {α β γ : Type} (φ : α → α → β) (ψ : β → β → γ) :
    ∀ (u v : List α), List.zipWith ψ (List.zipWith φ u v) (List.zipWith φ v u)
      = List.zipWith (fun x y => ψ (φ x y) (φ y x)) u v
  | [], _ => by simp
  | _ :: _, [] => by simp
  | x :: u, y :: v => by simp [zipWith_zipWith_swap φ ψ u v]

theorem zipWith_fst {α β : Type} : ∀ (u : List α) (v : List β), u.length ≤ v.length →
    List.zipWith (fun x _ => x) u v = u
  | [], _, _ => by simp
  | _ :: _, [], h => by simp at h
  | x :: u, y :: v, h => by
    simp only [List.zipWith_cons_cons, List.cons.injEq, true_and]
    exact zipWith_fst u v (by simpa using h)

/-- symmetric combination of a list with its own reversal, reversed -/
theorem reverse_zipWith_self {α β : Type} (φ : α → α → β) (u : List α) :
    (List.zipWith φ u u.reverse).reverse = List.zipWith φ u.reverse u := by
  rw [List.reverse_zipWith (by simp), List.reverse_reverse]

/-! ### step-up -/

theorem stepUp1_length (a : List K) (k : K) : (stepUp1 a k).length = a.length + 1 := by
  simp [stepUp1]

theorem stepUp_length (ks : List K) : (stepUp ks).length = ks.length + 1 := by
  induction ks using List.reverseRecOn with
  | nil => simp [stepUp]
  | append_singleton ks k ih =>
    simp only [stepUp, List.foldl_append, List.foldl_cons, List.foldl_nil] at ih ⊢
    rw [stepUp1_length, ih]; simp

theorem stepUp_append (ks : List K) (k : K) : stepUp (ks ++ [k]) = stepUp1 (stepUp ks) k := by
  simp [stepUp]

/-- `stepUp1` written with `u = a ++ [0]` and its reversal -/
theorem stepUp1_eq (a : List K) (k : K) :
    stepUp1 a k = List.zipWith (fun x y => x + k * y) (a ++ [0]) (a ++ [0]).reverse := by
  simp [stepUp1]

theorem stepUp1_cons (x : K) (t : List K) (k : K) :
    ∃ t', stepUp1 (x :: t) k = x :: t' := by
  refine ⟨List.zipWith (fun x y => x + k * y) (t ++ [0]) (t.reverse ++ [x]), ?_⟩
  simp [stepUp1]

theorem stepUp_head (ks : List K) : ∃ t, stepUp ks = 1 :: t := by
  induction ks using List.reverseRecOn with
  | nil => exact ⟨[], rfl⟩
  | append_singleton ks k ih =>
    obtain ⟨t, ht⟩ := ih
    rw [stepUp_append, ht]
    exact stepUp1_cons 1 t k

theorem stepUp1_getLast (x : K) (t : List K) (k : K) :
    (stepUp1 (x :: t) k).getLastD 0 = k * x := by
  have h : stepUp1 (x :: t) k
      = (List.zipWith (fun x y => x + k * y) ((0 : K) :: (x :: t).reverse) (x :: t ++ [0])).reverse := by
    rw [List.reverse_zipWith (by simp)]
    simp [stepUp1]
  rw [h]
  simp

theorem reverse_of_getLastD (f : List K) (hne : f ≠ []) (k : K) (hl : f.getLastD 0 = k) :
    f.reverse = k :: f.dropLast.reverse := by
  have h2 : f.getLast hne = k := by
    rw [← hl]; simp [List.getLastD_eq_getLast?, List.getLast?_eq_some_getLast hne]
  conv_lhs => rw [← List.dropLast_concat_getLast hne]
  simp [h2]

/-- step-down undoes step-up (for any list, when `k² ≠ 1`) -/
theorem stepDown1_stepUp1 (a : List K) (k : K) (hk : k * k ≠ 1) :
    stepDown1 (stepUp1 a k) k = a := by
  have h1 : (1 : K) - k * k ≠ 0 := fun h => hk (by linear_combination -h)
  unfold stepDown1
  rw [stepUp1_eq, reverse_zipWith_self, zipWith_zipWith_swap]
  have : (fun x y : K => (x + k * y - k * (y + k * x)) / (1 - k * k)) = fun x _ => x := by
    funext x y; rw [div_eq_iff h1]; ring
  rw [this, zipWith_fst _ _ (by simp)]
  simp

/-- step-up undoes step-down on a list whose first coefficient is 1 and last is `k` -/
theorem stepUp1_stepDown1 (t : List K) (k : K) (hk : k * k ≠ 1)
    (hl : (1 :: t).getLastD 0 = k) :
    stepUp1 (stepDown1 (1 :: t) k) k = 1 :: t := by
  have h1 : (1 : K) - k * k ≠ 0 := fun h => hk (by linear_combination -h)
  set f : List K := 1 :: t with hf
  set G := List.zipWith (fun x y => (x - k * y) / (1 - k * k)) f f.reverse with hG
  have hrev : G.reverse = List.zipWith (fun x y => (x - k * y) / (1 - k * k)) f.reverse f :=
    reverse_zipWith_self _ f
  have hfne : f ≠ [] := by simp [hf]
  have hr := reverse_of_getLastD f hfne k hl
  -- the last entry of G vanishes
  have hlast : G.getLast? = some 0 := by
    rw [List.getLast?_eq_head?_reverse, hrev, hr, hf]
    simp
  have hsplit : G.dropLast ++ [0] = G := List.dropLast_append_getLast? 0 (by simp [hlast])
  unfold stepDown1
  rw [← hG, stepUp1_eq, hsplit, hrev, hG, zipWith_zipWith_swap]
  have : (fun x y : K => (x - k * y) / (1 - k * k) + k * ((y - k * x) / (1 - k * k))) = fun x _ => x := by
    funext x y; rw [mul_div_assoc', ← add_div, div_eq_iff h1]; ring
  rw [this, zipWith_fst _ _ (by simp)]

theorem stepDown1_length (f : List K) (k : K) : (stepDown1 f k).length = f.length - 1 := by
  simp [stepDown1]

/-- the first coefficient stays 1 through a step-down -/
theorem stepDown1_head (t : List K) (k : K) (hk : k * k ≠ 1) (hl : (1 :: t).getLastD 0 = k)
    (hlen : 1 ≤ t.length) : ∃ t', stepDown1 (1 :: t) k = 1 :: t' := by
  have h1 : (1 : K) - k * k ≠ 0 := fun h => hk (by linear_combination -h)
  have hr := reverse_of_getLastD (1 :: t) (by simp) k hl
  obtain ⟨y, t2, rfl⟩ : ∃ y t2, t = y :: t2 := by
    cases t with
    | nil => simp at hlen
    | cons y t2 => exact ⟨y, t2, rfl⟩
  unfold stepDown1
  rw [hr]
  have hs : ∃ y' s2, ((1 : K) :: y :: t2).dropLast.reverse = y' :: s2 := by
    cases h : ((1 : K) :: y :: t2).dropLast.reverse with
    | nil => simp at h
    | cons y' s2 => exact ⟨y', s2, rfl⟩
  obtain ⟨y', s2, hs⟩ := hs
  rw [hs]
  refine ⟨(List.zipWith (fun x y => (x - k * y) / (1 - k * k)) (y :: t2) (y' :: s2)).dropLast, ?_⟩
  simp only [List.zipWith_cons_cons, List.dropLast_cons_cons]
  congr 1
  rw [div_eq_iff h1]; ring

/-! ### the step-down loop -/

theorem sdLoop_succ (n : Nat) (f : List K) :
    sdLoop (n + 1) f = if f.getLastD 0 * f.getLastD 0 = 1 then ([f.getLastD 0], true)
      else (f.getLastD 0 :: (sdLoop n (stepDown1 f (f.getLastD 0))).1,
            (sdLoop n (stepDown1 f (f.getLastD 0))).2) := rfl

/-- step-down of a stepped-up filter returns the reflection coefficients, last first -/
theorem sdLoop_stepUp (ks : List K) (h : ∀ k ∈ ks, k * k ≠ 1) :
    sdLoop ks.length (stepUp ks) = (ks.reverse, false) := by
  induction ks using List.reverseRecOn with
  | nil => simp [sdLoop]
  | append_singleton ks k ih =>
    have hk : k * k ≠ 1 := h k (by simp)
    have ih' := ih (fun x hx => h x (by simp [hx]))
    obtain ⟨t, ht⟩ := stepUp_head ks
    have hlast : (stepUp1 (stepUp ks) k).getLastD 0 = k := by
      rw [ht, stepUp1_getLast]; ring
    rw [stepUp_append, List.length_append, List.length_singleton, sdLoop_succ, hlast, if_neg hk,
      stepDown1_stepUp1 _ _ hk, ih']
    simp

/-- step-up of the yielded coefficients rebuilds the (monic) filter -/
theorem stepUp_sdLoop : ∀ (n : Nat) (t ks : List K), t.length = n →
    sdLoop n (1 :: t) = (ks, false) → stepUp ks.reverse = 1 :: t
  | 0, t, ks, hn, h => by
    have : t = [] := List.length_eq_zero_iff.mp hn
    subst this
    simp only [sdLoop, Prod.mk.injEq] at h
    rw [← h.1]; rfl
  | n + 1, t, ks, hn, h => by
    rw [sdLoop_succ] at h
    generalize hkk : (1 :: t).getLastD 0 = k at h
    by_cases hk : k * k = 1
    · rw [if_pos hk] at h; simp at h
    · rw [if_neg hk] at h
      simp only [Prod.mk.injEq] at h
      obtain ⟨hks, hr⟩ := h
      obtain ⟨t', ht'⟩ := stepDown1_head t _ hk hkk (by omega)
      have hlen : t'.length = n := by
        have := stepDown1_length (1 :: t) k
        rw [ht'] at this; simp at this; omega
      rw [ht'] at hks hr
      have ih := stepUp_sdLoop n t' (sdLoop n (1 :: t')).1 hlen (Prod.ext rfl hr)
      rw [← hks, List.reverse_cons, stepUp_append, ih, ← ht']
      exact stepUp1_stepDown1 t _ hk hkk

/-- the recursion breaks down exactly when it meets a coefficient with `k² = 1` -/
theorem sdLoop_raised_iff : ∀ (n : Nat) (f : List K),
    (sdLoop n f).2 = true ↔ ∃ k ∈ (sdLoop n f).1, k * k = 1
  | 0, f => by simp [sdLoop]
  | n + 1, f => by
    rw [sdLoop_succ]
    generalize f.getLastD 0 = k
    by_cases hk : k * k = 1
    · simp [hk]
    · rw [if_neg hk]
      simp only [List.mem_cons, exists_eq_or_imp, hk, false_or]
      exact sdLoop_raised_iff n _

theorem sdLoop_length_le : ∀ (n : Nat) (f : List K), (sdLoop n f).1.length ≤ n
  | 0, f => by simp [sdLoop]
  | n + 1, f => by
    rw [sdLoop_succ]
    split
    · simp
    · simpa using sdLoop_length_le n _

/-- without break-down exactly `n` coefficients are yielded -/
theorem sdLoop_length : ∀ (n : Nat) (f : List K), (sdLoop n f).2 = false → (sdLoop n f).1.length = n
  | 0, f, _ => by simp [sdLoop]
  | n + 1, f, h => by
    rw [sdLoop_succ] at h ⊢
    split at h
    · simp at h
    · rename_i hk
      rw [if_neg hk]
      simpa using sdLoop_length n _ h

/-! ### a gain does not change anything -/

theorem stripZeros_scale (c : K) (hc : c ≠ 0) (f : List K) :
    stripZeros (scale c f) = scale c (stripZeros f) := by
  unfold stripZeros scale
  rw [← List.map_reverse, List.dropWhile_map, List.map_reverse]
  congr 2
  congr 1
  funext x
  simp [hc]

theorem monic_scale (c : K) (hc : c ≠ 0) (g : List K) : monic (scale c g) = monic g := by
  cases g with
  | nil => simp [monic, scale]
  | cons x t =>
    simp only [monic, scale, List.map_cons, List.headD_cons, List.map_map, List.cons.injEq]
    refine ⟨mul_div_mul_left _ _ hc, ?_⟩
    apply List.map_congr_left
    intro y _
    exact mul_div_mul_left _ _ hc

theorem parcorSpec_scale (c : K) (hc : c ≠ 0) (f : List K) :
    parcorSpec (scale c f) = parcorSpec f := by
  unfold parcorSpec
  rw [stripZeros_scale c hc, monic_scale c hc]

end ALV.C11
