/-
  C13 — helper lemmas, part 9: the region of (freq, bandwidth) where `resonator.z_exp` has the
  documented pole radius `R = e^{-bw/2}`, in terms of `freq` and `bandwidth`:
  `(1 + R²)/(2R) = cosh(bw/2)`, so `|cos f|·(1+R²) ≤ 2R ⇔ |cos f| ≤ 1/cosh(bw/2)
  ⇔ arccos(1/cosh(bw/2)) ≤ f ≤ π - arccos(1/cosh(bw/2))` (for `f ∈ [0, π]`).
-/
import ALV.Lemmas.C13Res
import Mathlib.Analysis.SpecialFunctions.Trigonometric.Inverse

set_option linter.unusedSectionVars false
set_option linter.unusedSimpArgs false

namespace ALV.C13
open ALV ALV.TrigField Complex

/-- `(1 + R²)/(2R) = cosh(bw/2)` for `R = e^{-bw/2}` -/
theorem resR_cosh (bw : ℝ) :
    (1 + Real.exp (-(bw / 2)) ^ 2) / (2 * Real.exp (-(bw / 2))) = Real.cosh (bw / 2) := by
  have he := Real.exp_pos (bw / 2)
  rw [Real.cosh_eq, Real.exp_neg]
  field_simp

theorem one_le_cosh' (x : ℝ) : 1 ≤ Real.cosh x := by
  have he := Real.exp_pos x
  rw [Real.cosh_eq, Real.exp_neg, le_div_iff₀ (by norm_num)]
  have : Real.exp x + (Real.exp x)⁻¹ - 2 = (Real.exp x - 1) ^ 2 / Real.exp x := by
    field_simp; ring
  have h2 : 0 ≤ (Real.exp x - 1) ^ 2 / Real.exp x := by positivity
  linarith

/-- the hypothesis of `resonator_pole_radius` in terms of `freq` and `bandwidth` -/
theorem zexp_region_iff (f bw : ℝ) :
    |Real.cos f| * (1 + Real.exp (-(bw / 2)) ^ 2) ≤ 2 * Real.exp (-(bw / 2))
      ↔ |Real.cos f| ≤ 1 / Real.cosh (bw / 2) := by
  have hR := Real.exp_pos (-(bw / 2))
  rw [← resR_cosh, one_div_div, le_div_iff₀ (by positivity)]

theorem ctZ_sq_le_one_iff (f R : ℝ) (hR : 0 < R) :
    ctZ f R ^ 2 ≤ 1 ↔ |Real.cos f| * (1 + R ^ 2) ≤ 2 * R := by
  rw [sq_le_one_iff_abs_le_one]
  unfold ctZ
  rw [abs_div, abs_mul, abs_of_pos (by positivity : (0:ℝ) < 1 + R ^ 2),
    abs_of_pos (by positivity : (0:ℝ) < 2 * R), div_le_one (by positivity)]

/-- the mirror image of `res_real_pole`: for `cost < -1` the number `R·(cost - sqrt(cost²-1))` is a
(real, negative) pole of modulus `> R` -/
theorem res_real_pole_neg (b : List ℝ) (R ct : ℝ) (hR0 : 0 < R) (hct : ct < -1) :
    IsPole (mk b [1, -(2 * R * ct), R ^ 2]) ((R * (ct - Real.sqrt (ct ^ 2 - 1)) : ℝ) : ℂ)
      ∧ R * (ct - Real.sqrt (ct ^ 2 - 1)) < -R := by
  have hs0 : 0 ≤ ct ^ 2 - 1 := by nlinarith
  have hs := Real.sq_sqrt hs0
  have hsn := Real.sqrt_nonneg (ct ^ 2 - 1)
  have hgt : R * (ct - Real.sqrt (ct ^ 2 - 1)) < -R := by nlinarith
  refine ⟨?_, hgt⟩
  rw [isPole_second]
  constructor
  · have : R * (ct - Real.sqrt (ct ^ 2 - 1)) ≠ 0 := by nlinarith
    exact_mod_cast this
  · have hq : (R * (ct - Real.sqrt (ct ^ 2 - 1))) ^ 2 + -(2 * R * ct) * (R * (ct - Real.sqrt (ct ^ 2 - 1)))
        + R ^ 2 = 0 := by nlinarith
    exact_mod_cast hq

/-- outside the region (either sign of `cos f`) there is a REAL pole of modulus `> R` -/
theorem res_zexp_wrong_radius (b : List ℝ) (f R : ℝ) (hR0 : 0 < R)
    (h : 2 * R < |Real.cos f| * (1 + R ^ 2)) :
    ∃ x : ℝ, IsPole (mk b [1, -(2 * R * ctZ f R), R ^ 2]) (x : ℂ) ∧ R < |x| := by
  have hct : 1 < |ctZ f R| := by
    unfold ctZ
    rw [abs_div, abs_mul, abs_of_pos (by positivity : (0:ℝ) < 1 + R ^ 2),
      abs_of_pos (by positivity : (0:ℝ) < 2 * R), lt_div_iff₀ (by positivity)]
    linarith
  rcases lt_abs.1 hct with h' | h'
  · obtain ⟨hp, hgt⟩ := res_real_pole b R _ hR0 h'
    exact ⟨_, hp, by rw [abs_of_pos (by linarith)]; exact hgt⟩
  · obtain ⟨hp, hgt⟩ := res_real_pole_neg b R _ hR0 (by linarith)
    exact ⟨_, hp, by rw [abs_of_neg (by linarith)]; linarith⟩

/-- `|cos f| ≤ c ⇔ arccos c ≤ f ≤ π - arccos c` on `[0, π]` -/
theorem abs_cos_le_iff (f c : ℝ) (h0 : 0 ≤ f) (h1 : f ≤ Real.pi) (hc0 : 0 ≤ c) (hc1 : c ≤ 1) :
    |Real.cos f| ≤ c ↔ Real.arccos c ≤ f ∧ f ≤ Real.pi - Real.arccos c := by
  rw [abs_le, ← Real.arccos_neg]
  constructor
  · rintro ⟨ha, hb⟩
    constructor
    · have := Real.arccos_le_arccos hb
      rwa [Real.arccos_cos h0 h1] at this
    · have := Real.arccos_le_arccos ha
      rwa [Real.arccos_cos h0 h1] at this
  · rintro ⟨ha, hb⟩
    constructor
    · have := Real.cos_le_cos_of_nonneg_of_le_pi h0 (Real.arccos_le_pi _) hb
      rwa [Real.cos_arccos (by linarith) (by linarith)] at this
    · have := Real.cos_le_cos_of_nonneg_of_le_pi (Real.arccos_nonneg _) h1 ha
      rwa [Real.cos_arccos (by linarith) hc1] at this

end ALV.C13
