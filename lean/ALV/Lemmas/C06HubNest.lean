/-
  C06 — reads-once for NESTED hubs (core Lean only): the lockstep invariant.

  Tokens: what one `next` on an iterator touches DIRECTLY (outside every upstream): a source, or one
  copy of a tee group (`It.expo`).  A "pull site" is the coefficient list of the loop, or the upstream
  `up g` of a group.  Linearity (`Lin`, `Stat`): every token sits in ONE site, once; every group has
  ONE upstream.  Then, in round `n`, every object is at `n` (fresh) or `n + 1` (advanced), a group's
  buffer is at `n + 1` exactly when its upstream's tokens are (`GI`), and one successful round moves
  everything reachable from `n` to `n + 1` (`round_lock`, `rounds_lock`).
-/
import ALV.Lemmas.C06Hub

set_option linter.unusedSectionVars false
set_option linter.unusedVariables false
set_option linter.unusedSimpArgs false
namespace ALV.C06.Hub
variable {α : Type} [Add α] [Sub α] [Mul α] [Div α]

/-- what a `next` touches directly: a source or a copy of a group -/
inductive Tok where
  | s (k : Nat)
  | c (g i : Nat)
  deriving DecidableEq, Repr

def It.expo : It α → List Tok
  | .src k => [.s k]
  | .tee g i _ => [.c g i]
  | .map2 _ a b => a.expo ++ b.expo
  | .bl _ _ a => a.expo
  | .br _ a _ => a.expo

/-- every occurrence of group `g` (at any depth) sits over the one upstream `up g` -/
def It.Cons (up : Nat → It α) : It α → Prop
  | .src _ => True
  | .tee g _ u => u = up g ∧ u.Cons up
  | .map2 _ a b => a.Cons up ∧ b.Cons up
  | .bl _ _ a => a.Cons up
  | .br _ a _ => a.Cons up

def tokVal (st : St α) : Tok → Nat
  | .s k => st.pulls k
  | .c g i => st.pos g i

def AllAt (st : St α) (n : Nat) (l : List Tok) : Prop := ∀ τ ∈ l, tokVal st τ = n

/-- group `g` in round `n`: not pulled yet (buffer `n`, upstream tokens fresh) or pulled (`n + 1`) -/
def GI (up : Nat → It α) (n : Nat) (st : St α) (g : Nat) : Prop :=
  ((st.buf g).length = n ∧ AllAt st n (up g).expo ∧ ∀ i, st.pos g i ≤ n)
  ∨ ((st.buf g).length = n + 1 ∧ AllAt st (n + 1) (up g).expo ∧ ∀ i, st.pos g i ≤ n + 1)

/-- the groups `G` are linear: acyclic, one upstream each, no token in two upstreams or twice in one -/
structure Lin (up : Nat → It α) (G : Nat → Prop) : Prop where
  wf : ∀ g, G g → (up g).WF ∧ (up g).Cons up ∧ g ∉ (up g).groups ∧ (∀ h ∈ (up g).groups, G h)
    ∧ (up g).expo.Nodup
  disj : ∀ g h, G g → G h → g ≠ h → ∀ τ ∈ (up g).expo, τ ∉ (up h).expo

def Stat (up : Nat → It α) (G : Nat → Prop) (grp : List Nat) (ex : List Tok) : Prop :=
  (∀ g ∈ grp, G g) ∧ ex.Nodup ∧ (∀ g ∈ grp, ∀ τ ∈ ex, τ ∉ (up g).expo)

def Pre (up : Nat → It α) (n : Nat) (grp : List Nat) (ex : List Tok) (st : St α) : Prop :=
  (∀ g ∈ grp, GI up n st g) ∧ AllAt st n ex

def Step (up : Nat → It α) (n : Nat) (grp : List Nat) (ex : List Tok) (st st' : St α) : Prop :=
  (∀ g ∈ grp, GI up n st' g) ∧ AllAt st' (n + 1) ex
  ∧ (∀ τ, τ ∉ ex → (∀ g ∈ grp, τ ∉ (up g).expo) → tokVal st' τ = tokVal st τ)
  ∧ (∀ g, g ∉ grp → st'.buf g = st.buf g ∧ st'.pos g = st.pos g)

theorem GI_congr {up : Nat → It α} {n : Nat} {st st' : St α} {g : Nat} (h : GI up n st g)
    (hb : st'.buf g = st.buf g) (hp : st'.pos g = st.pos g)
    (ht : ∀ τ ∈ (up g).expo, tokVal st' τ = tokVal st τ) : GI up n st' g := by
  unfold GI AllAt at *
  rw [hb, hp]
  rcases h with ⟨h1, h2, h3⟩ | ⟨h1, h2, h3⟩
  · exact Or.inl ⟨h1, fun τ hτ => (ht τ hτ).trans (h2 τ hτ), h3⟩
  · exact Or.inr ⟨h1, fun τ hτ => (ht τ hτ).trans (h2 τ hτ), h3⟩

theorem step_seq {up : Nat → It α} {G : Nat → Prop} (L : Lin up G) {n : Nat} {ga gb : List Nat}
    {ea eb : List Tok} {st st1 st2 : St α}
    (hs : Stat up G (ga ++ gb) (ea ++ eb)) (hp : Pre up n (ga ++ gb) (ea ++ eb) st)
    (h1 : Step up n ga ea st st1) (h2 : Pre up n gb eb st1 → Step up n gb eb st1 st2) :
    Step up n (ga ++ gb) (ea ++ eb) st st2 := by
  obtain ⟨hG, hnd, hsep⟩ := hs
  obtain ⟨hgi, hat⟩ := hp
  obtain ⟨a1, a2, a3, a4⟩ := h1
  have hdis : ∀ x ∈ ea, ∀ y ∈ eb, x ≠ y := (List.nodup_append.mp hnd).2.2
  have hGa : ∀ g ∈ ga, G g := fun g hg => hG g (List.mem_append_left _ hg)
  have hGb : ∀ g ∈ gb, G g := fun g hg => hG g (List.mem_append_right _ hg)
  have pre2 : Pre up n gb eb st1 := by
    refine ⟨fun g hg => ?_, fun τ hτ => ?_⟩
    · by_cases hga : g ∈ ga
      · exact a1 g hga
      · refine GI_congr (hgi g (List.mem_append_right _ hg)) (a4 g hga).1 (a4 g hga).2 (fun τ hτ => ?_)
        refine a3 τ (fun hin => hsep g (List.mem_append_right _ hg) τ (List.mem_append_left _ hin) hτ)
          (fun h hh hτh => ?_)
        exact L.disj g h (hGb g hg) (hGa h hh) (fun e => hga (e ▸ hh)) τ hτ hτh
    · refine (a3 τ (fun hin => hdis τ hin τ hτ rfl) (fun h hh => ?_)).trans
        (hat τ (List.mem_append_right _ hτ))
      exact hsep h (List.mem_append_left _ hh) τ (List.mem_append_right _ hτ)
  obtain ⟨b1, b2, b3, b4⟩ := h2 pre2
  refine ⟨fun g hg => ?_, fun τ hτ => ?_, fun τ hτ hτg => ?_, fun g hg => ?_⟩
  · by_cases hgb : g ∈ gb
    · exact b1 g hgb
    · have hga : g ∈ ga := by
        rcases List.mem_append.mp hg with h | h
        · exact h
        · exact absurd h hgb
      refine GI_congr (a1 g hga) (b4 g hgb).1 (b4 g hgb).2 (fun τ hτ => ?_)
      refine b3 τ (fun hin => hsep g hg τ (List.mem_append_right _ hin) hτ) (fun h hh hτh => ?_)
      exact L.disj g h (hGa g hga) (hGb h hh) (fun e => hgb (e ▸ hh)) τ hτ hτh
  · rcases List.mem_append.mp hτ with h | h
    · refine (b3 τ (fun hin => hdis τ h τ hin rfl) (fun g hg => ?_)).trans (a2 τ h)
      exact hsep g (List.mem_append_right _ hg) τ hτ
    · exact b2 τ h
  · have n1 : τ ∉ ea := fun h => hτ (List.mem_append_left _ h)
    have n2 : τ ∉ eb := fun h => hτ (List.mem_append_right _ h)
    exact (b3 τ n2 (fun g hg => hτg g (List.mem_append_right _ hg))).trans
      (a3 τ n1 (fun g hg => hτg g (List.mem_append_left _ hg)))
  · have n1 : g ∉ ga := fun h => hg (List.mem_append_left _ h)
    have n2 : g ∉ gb := fun h => hg (List.mem_append_right _ h)
    exact ⟨(b4 g n2).1.trans (a4 g n1).1, (b4 g n2).2.trans (a4 g n1).2⟩

theorem tokVal_updPos (st : St α) (g i x : Nat) (b : Nat → List α) (τ : Tok) (h : τ ≠ .c g i) :
    tokVal ({ pulls := st.pulls, buf := b, pos := upd st.pos g (upd (st.pos g) i x) } : St α) τ
      = tokVal st τ := by
  cases τ with
  | s k => rfl
  | c g' i' =>
    simp only [tokVal, upd]
    by_cases hg : g' = g
    · subst hg
      have : i' ≠ i := fun e => h (by rw [e])
      simp [this, upd]
    · simp [hg]

theorem tokVal_updPulls (st : St α) (k x : Nat) (τ : Tok) (h : τ ≠ .s k) :
    tokVal ({ st with pulls := upd st.pulls k x } : St α) τ = tokVal st τ := by
  cases τ with
  | c g i => rfl
  | s k' =>
    simp only [tokVal, upd]
    have : k' ≠ k := fun e => h (by rw [e])
    simp [this]

/-- the tee step, given what the upstream did (or that the buffer was ahead) -/
theorem tee_finish {up : Nat → It α} {G : Nat → Prop} (L : Lin up G) {n g i : Nat} {u : It α}
    (hu : u = up g) (hs : Stat up G (g :: u.groups) [.c g i]) (st st1 : St α) (b : List α)
    (hb : b.length = n + 1)
    (hpos : st1.pos g = st.pos g) (hi : st.pos g i = n) (hle : ∀ j, st.pos g j ≤ n + 1)
    (hgi : ∀ h ∈ u.groups, GI up n st1 h) (hat : AllAt st1 (n + 1) u.expo)
    (hg : g ∉ u.groups)
    (htok : ∀ τ, τ ∉ u.expo → (∀ h ∈ u.groups, τ ∉ (up h).expo) → tokVal st1 τ = tokVal st τ)
    (hfr : ∀ h, h ∉ u.groups → h ≠ g → st1.buf h = st.buf h ∧ st1.pos h = st.pos h) :
    Step up n (g :: u.groups) [.c g i] st
      ({ pulls := st1.pulls, buf := upd st1.buf g b,
         pos := upd st1.pos g (upd (st1.pos g) i (st1.pos g i + 1)) } : St α) := by
  subst hu
  obtain ⟨hG, _, hsep⟩ := hs
  have sepc : ∀ h ∈ g :: (up g).groups, Tok.c g i ∉ (up h).expo := fun h hh =>
    hsep h hh _ (List.mem_singleton.mpr rfl)
  have tv : ∀ τ, τ ≠ Tok.c g i → tokVal ({ pulls := st1.pulls, buf := upd st1.buf g b,
                                           pos := upd st1.pos g (upd (st1.pos g) i (st1.pos g i + 1)) } : St α) τ
      = tokVal st1 τ :=
    fun τ h => tokVal_updPos st1 g i _ _ τ h
  refine ⟨fun h hh => ?_, fun τ hτ => ?_, fun τ hτ hτg => ?_, fun h hh => ?_⟩
  · rcases List.mem_cons.mp hh with rfl | hh'
    · refine Or.inr ⟨by simp [upd, hb], fun τ hτ => ?_, fun j => ?_⟩
      · rw [tv τ (fun e => sepc h hh (e ▸ hτ))]
        exact hat τ hτ
      · show upd st1.pos h (upd (st1.pos h) i (st1.pos h i + 1)) h j ≤ n + 1
        rw [upd_same, hpos]
        by_cases hj : j = i
        · subst hj; rw [upd_same, hi]; exact Nat.le_refl _
        · rw [upd_other _ _ _ _ hj]; exact hle j
    · have hne : h ≠ g := fun e => hg (e ▸ hh')
      refine GI_congr (hgi h hh') (by simp [upd, hne]) (by simp [upd, hne]) (fun τ hτ => ?_)
      exact tv τ (fun e => sepc h hh (e ▸ hτ))
  · rw [List.mem_singleton.mp hτ]
    show upd st1.pos g (upd (st1.pos g) i (st1.pos g i + 1)) g i = n + 1
    rw [upd_same, upd_same, hpos, hi]
  · have hne : τ ≠ Tok.c g i := fun e => hτ (List.mem_singleton.mpr e)
    rw [tv τ hne]
    refine htok τ ?_ (fun h hh => hτg h (List.mem_cons_of_mem _ hh))
    exact hτg g (List.mem_cons_self ..)
  · have hne : h ≠ g := fun e => hh (e ▸ List.mem_cons_self ..)
    have hnu : h ∉ (up g).groups := fun e => hh (List.mem_cons_of_mem _ e)
    have := hfr h hnu hne
    exact ⟨by simp [upd, hne, this.1], by simp [upd, hne, this.2]⟩

theorem upd_self {β : Type} (f : Nat → β) (g : Nat) : upd f g (f g) = f := by
  funext j; simp only [upd]; split
  · next h => rw [h]
  · rfl

/-- **lockstep**: in round `n`, a successful `next` on a fresh iterator of a linear forest advances
exactly its tokens and, through every group whose buffer was behind, that group's upstream -/
theorem next_lock (srcs : Nat → Src α) {up : Nat → It α} {G : Nat → Prop} (L : Lin up G) (n : Nat)
    (t : It α) : ∀ (st st' : St α) (v : α), t.WF → t.Cons up → Stat up G t.groups t.expo →
    Pre up n t.groups t.expo st → next srcs t st = (st', .ok v) → Step up n t.groups t.expo st st' := by
  induction t with
  | src k =>
    intro st st' v _ _ _ hp hn
    have hk : st.pulls k = n := hp.2 (.s k) (List.mem_singleton.mpr rfl)
    simp only [next] at hn
    cases h : (srcs k).items[st.pulls k]? with
    | none =>
      rw [h] at hn
      cases hr : (srcs k).raises <;> simp [hr] at hn
    | some w =>
      rw [h] at hn
      simp only [Prod.mk.injEq, Res.ok.injEq] at hn
      obtain ⟨rfl, _⟩ := hn
      refine ⟨fun g hg => absurd hg (by simp [It.groups]), fun τ hτ => ?_, fun τ hτ _ => ?_,
        fun g _ => ⟨rfl, rfl⟩⟩
      · have hτ' : τ ∈ [Tok.s k] := hτ
        rw [List.mem_singleton.mp hτ']
        show upd st.pulls k (st.pulls k + 1) k = n + 1
        rw [upd_same, hk]
      · exact tokVal_updPulls st k _ τ (fun e => hτ (List.mem_singleton.mpr e))
  | tee g i u ih =>
    intro st st' v wf cons hs hp hn
    obtain ⟨hgu, wfu⟩ := wf
    obtain ⟨hu, consu⟩ := cons
    subst hu
    have hs' : Stat up G (g :: (up g).groups) [.c g i] := hs
    obtain ⟨hG, _, hsep⟩ := hs
    obtain ⟨hgi, hat⟩ := hp
    have hi : st.pos g i = n := hat (.c g i) (List.mem_singleton.mpr rfl)
    have hGg : G g := hG g (List.mem_cons_self ..)
    obtain ⟨_, _, _, hsub, hnd⟩ := L.wf g hGg
    simp only [next] at hn
    rcases hgi g (List.mem_cons_self ..) with ⟨hb, hfresh, hle⟩ | ⟨hb, hadv, hle⟩
    · have hnone : (st.buf g)[st.pos g i]? = none := by
        rw [hi]; exact List.getElem?_eq_none (by omega)
      rw [hnone] at hn
      cases hr : next srcs (up g) st with
      | mk st1 r =>
        rw [hr] at hn
        cases r with
        | stop => simp at hn
        | raise => simp at hn
        | ok w =>
          simp only [Prod.mk.injEq, Res.ok.injEq] at hn
          obtain ⟨rfl, _⟩ := hn
          have su : Stat up G (up g).groups (up g).expo :=
            ⟨fun h hh => hG h (List.mem_cons_of_mem _ hh), hnd, fun h hh τ hτ =>
              L.disj g h hGg (hsub h hh) (fun e => hgu (e ▸ hh)) τ hτ⟩
          obtain ⟨c1, c2, c3, c4⟩ := ih st st1 w wfu consu su
            ⟨fun h hh => hgi h (List.mem_cons_of_mem _ hh), hfresh⟩ hr
          have fr : st1.buf g = st.buf g ∧ st1.pos g = st.pos g := by
            have := (next_frame srcs (up g) st).2 g hgu
            rw [hr] at this; exact this
          exact tee_finish L rfl hs' st st1 _ (by simp [fr.1, hb]) fr.2 hi
            (fun j => Nat.le_succ_of_le (hle j)) c1 c2 hgu c3 (fun h hh _ => c4 h hh)
    · have hsome : (st.buf g)[st.pos g i]? = some ((st.buf g)[n]'(by omega)) := by
        rw [hi]; exact List.getElem?_eq_getElem (by omega)
      rw [hsome] at hn
      simp only [Prod.mk.injEq, Res.ok.injEq] at hn
      obtain ⟨rfl, _⟩ := hn
      have := tee_finish L rfl hs' st st (st.buf g) hb rfl hi hle
        (fun h hh => hgi h (List.mem_cons_of_mem _ hh)) hadv hgu (fun _ _ _ => rfl)
        (fun _ _ _ => ⟨rfl, rfl⟩)
      rw [upd_self] at this
      exact this
  | map2 f a b iha ihb =>
    intro st st' v wf cons hs hp hn
    simp only [next] at hn
    have hs0 : Stat up G (a.groups ++ b.groups) (a.expo ++ b.expo) := hs
    have hp0 : Pre up n (a.groups ++ b.groups) (a.expo ++ b.expo) st := hp
    obtain ⟨hG, hnd, hsep⟩ := hs0
    have sa : Stat up G a.groups a.expo :=
      ⟨fun g hg => hG g (List.mem_append_left _ hg), (List.nodup_append.mp hnd).1,
       fun g hg τ hτ => hsep g (List.mem_append_left _ hg) τ (List.mem_append_left _ hτ)⟩
    have sb : Stat up G b.groups b.expo :=
      ⟨fun g hg => hG g (List.mem_append_right _ hg), (List.nodup_append.mp hnd).2.1,
       fun g hg τ hτ => hsep g (List.mem_append_right _ hg) τ (List.mem_append_right _ hτ)⟩
    cases hr : next srcs a st with
    | mk st1 r =>
      rw [hr] at hn
      cases r with
      | stop => simp at hn
      | raise => simp at hn
      | ok x =>
        dsimp only at hn
        cases hr2 : next srcs b st1 with
        | mk st2 r2 =>
          rw [hr2] at hn
          cases r2 with
          | stop => simp at hn
          | raise => simp at hn
          | ok y =>
            simp only [Prod.mk.injEq, Res.ok.injEq] at hn
            obtain ⟨rfl, _⟩ := hn
            exact step_seq L hs hp0
              (iha st st1 x wf.1 cons.1 sa ⟨fun g hg => hp0.1 g (List.mem_append_left _ hg),
                fun τ hτ => hp0.2 τ (List.mem_append_left _ hτ)⟩ hr)
              (fun p2 => ihb st1 st2 y wf.2 cons.2 sb p2 hr2)
  | bl f c a iha =>
    intro st st' v wf cons hs hp hn
    simp only [next] at hn
    cases hr : next srcs a st with
    | mk st1 r =>
      rw [hr] at hn
      cases r with
      | stop => simp at hn
      | raise => simp at hn
      | ok x =>
        simp only [Prod.mk.injEq, Res.ok.injEq] at hn
        obtain ⟨rfl, _⟩ := hn
        exact iha st st1 x wf cons hs hp hr
  | br f a c iha =>
    intro st st' v wf cons hs hp hn
    simp only [next] at hn
    cases hr : next srcs a st with
    | mk st1 r =>
      rw [hr] at hn
      cases r with
      | stop => simp at hn
      | raise => simp at hn
      | ok x =>
        simp only [Prod.mk.injEq, Res.ok.injEq] at hn
        obtain ⟨rfl, _⟩ := hn
        exact iha st st1 x wf cons hs hp hr

/-! ### the loop's coefficient list -/

def HC.groups : HC α → List Nat
  | .c _ => []
  | .s e => e.groups
def HC.expo : HC α → List Tok
  | .c _ => []
  | .s e => e.expo
def HC.srcs : HC α → List Nat
  | .c _ => []
  | .s e => e.srcs
def HC.Cons (up : Nat → It α) : HC α → Prop
  | .c _ => True
  | .s e => e.Cons up
def groupsR : List (HC α) → List Nat
  | [] => []
  | c :: cs => c.groups ++ groupsR cs
def expoR : List (HC α) → List Tok
  | [] => []
  | c :: cs => c.expo ++ expoR cs
def srcsR : List (HC α) → List Nat
  | [] => []
  | c :: cs => c.srcs ++ srcsR cs

/-- one successful evaluation of the generated expression, in lockstep -/
theorem round_lock (srcs : Nat → Src α) {up : Nat → It α} {G : Nat → Prop} (L : Lin up G) (n : Nat)
    (cs : List (HC α)) : ∀ (st st' : St α) (vs : List α), (∀ c ∈ cs, c.WF) → (∀ c ∈ cs, c.Cons up) →
    Stat up G (groupsR cs) (expoR cs) → Pre up n (groupsR cs) (expoR cs) st →
    round srcs cs st = (st', .ok vs) → Step up n (groupsR cs) (expoR cs) st st' := by
  induction cs with
  | nil =>
    intro st st' vs _ _ _ _ hr
    simp only [round, Prod.mk.injEq] at hr
    obtain ⟨rfl, _⟩ := hr
    exact ⟨fun g hg => absurd hg (by simp [groupsR]), fun τ hτ => absurd hτ (by simp [expoR]),
      fun _ _ _ => rfl, fun _ _ => ⟨rfl, rfl⟩⟩
  | cons c cs ih =>
    intro st st' vs wf cons hs hp hr
    have wf' : ∀ c ∈ cs, c.WF := fun c hc => wf c (List.mem_cons_of_mem _ hc)
    have cons' : ∀ c ∈ cs, c.Cons up := fun c hc => cons c (List.mem_cons_of_mem _ hc)
    cases c with
    | c x =>
      simp only [round] at hr
      cases hr' : round srcs cs st with
      | mk st2 r =>
        rw [hr'] at hr
        cases r with
        | stop => simp at hr
        | raise => simp at hr
        | ok ws =>
          simp only [Prod.mk.injEq, Res.ok.injEq] at hr
          obtain ⟨rfl, _⟩ := hr
          have hs1 : Stat up G (groupsR cs) (expoR cs) := hs
          have hp1 : Pre up n (groupsR cs) (expoR cs) st := hp
          exact ih st st2 ws wf' cons' hs1 hp1 hr'
    | s e =>
      simp only [round] at hr
      have wfe : e.WF := wf (.s e) (by simp)
      have conse : e.Cons up := cons (.s e) (by simp)
      have hs0 : Stat up G (e.groups ++ groupsR cs) (e.expo ++ expoR cs) := hs
      have hp0 : Pre up n (e.groups ++ groupsR cs) (e.expo ++ expoR cs) st := hp
      obtain ⟨hG, hnd, hsep⟩ := hs0
      have sa : Stat up G e.groups e.expo :=
        ⟨fun g hg => hG g (List.mem_append_left _ hg), (List.nodup_append.mp hnd).1,
         fun g hg τ hτ => hsep g (List.mem_append_left _ hg) τ (List.mem_append_left _ hτ)⟩
      have sb : Stat up G (groupsR cs) (expoR cs) :=
        ⟨fun g hg => hG g (List.mem_append_right _ hg), (List.nodup_append.mp hnd).2.1,
         fun g hg τ hτ => hsep g (List.mem_append_right _ hg) τ (List.mem_append_right _ hτ)⟩
      cases hn : next srcs e st with
      | mk st1 r =>
        rw [hn] at hr
        cases r with
        | stop => simp at hr
        | raise => simp at hr
        | ok x =>
          dsimp only at hr
          cases hr' : round srcs cs st1 with
          | mk st2 r2 =>
            rw [hr'] at hr
            cases r2 with
            | stop => simp at hr
            | raise => simp at hr
            | ok ws =>
              simp only [Prod.mk.injEq, Res.ok.injEq] at hr
              obtain ⟨rfl, _⟩ := hr
              exact step_seq L hs hp0
                (next_lock srcs L n e st st1 x wfe conse sa
                  ⟨fun g hg => hp0.1 g (List.mem_append_left _ hg),
                   fun τ hτ => hp0.2 τ (List.mem_append_left _ hτ)⟩ hn)
                (fun p2 => ih st1 st2 ws wf' cons' sb p2 hr')

/-- a group between two rounds: buffer, upstream tokens and copies all at `n` or behind -/
def GI1 (up : Nat → It α) (n : Nat) (st : St α) (g : Nat) : Prop :=
  (st.buf g).length = n ∧ AllAt st n (up g).expo ∧ ∀ i, st.pos g i ≤ n

/-- everything reachable from advanced tokens has been advanced -/
theorem adv_closure {up : Nat → It α} (n : Nat) (st : St α) (t : It α) : t.Cons up →
    AllAt st (n + 1) t.expo → (∀ g ∈ t.groups, GI up n st g) → ∀ g ∈ t.groups, GI1 up (n + 1) st g := by
  induction t with
  | src k => intro _ _ _ g hg; exact absurd hg (by simp [It.groups])
  | tee g i u ih =>
    intro cons hat hgi h hh
    obtain ⟨hu, consu⟩ := cons
    subst hu
    have hi : st.pos g i = n + 1 := hat (.c g i) (List.mem_singleton.mpr rfl)
    have hg1 : GI1 up (n + 1) st g := by
      rcases hgi g (List.mem_cons_self ..) with ⟨_, _, hle⟩ | h2
      · have := hle i; omega
      · exact h2
    rcases List.mem_cons.mp hh with rfl | hh'
    · exact hg1
    · exact ih consu hg1.2.1 (fun g' hg' => hgi g' (List.mem_cons_of_mem _ hg')) h hh'
  | map2 f a b iha ihb =>
    intro cons hat hgi g hg
    rcases List.mem_append.mp hg with h | h
    · exact iha cons.1 (fun τ hτ => hat τ (List.mem_append_left _ hτ))
        (fun g' hg' => hgi g' (List.mem_append_left _ hg')) g h
    · exact ihb cons.2 (fun τ hτ => hat τ (List.mem_append_right _ hτ))
        (fun g' hg' => hgi g' (List.mem_append_right _ hg')) g h
  | bl f c a iha => intro cons hat hgi g hg; exact iha cons hat hgi g hg
  | br f a c iha => intro cons hat hgi g hg; exact iha cons hat hgi g hg

theorem adv_closureR {up : Nat → It α} (n : Nat) (st : St α) (cs : List (HC α)) :
    (∀ c ∈ cs, c.Cons up) → AllAt st (n + 1) (expoR cs) → (∀ g ∈ groupsR cs, GI up n st g) →
    ∀ g ∈ groupsR cs, GI1 up (n + 1) st g := by
  induction cs with
  | nil => intro _ _ _ g hg; exact absurd hg (by simp [groupsR])
  | cons c cs ih =>
    intro cons hat hgi g hg
    have hat0 : AllAt st (n + 1) (c.expo ++ expoR cs) := hat
    have hgi0 : ∀ g ∈ c.groups ++ groupsR cs, GI up n st g := hgi
    have hg0 : g ∈ c.groups ++ groupsR cs := hg
    rcases List.mem_append.mp hg0 with h | h
    · cases c with
      | c x => exact absurd h (by simp [HC.groups])
      | s e =>
        exact adv_closure n st e (cons (.s e) (by simp))
          (fun τ hτ => hat0 τ (List.mem_append_left _ hτ))
          (fun g' hg' => hgi0 g' (List.mem_append_left _ hg')) g h
    · exact ih (fun c hc => cons c (List.mem_cons_of_mem _ hc))
        (fun τ hτ => hat0 τ (List.mem_append_right _ hτ))
        (fun g' hg' => hgi0 g' (List.mem_append_right _ hg')) g h

/-- every source reachable from tokens at `n` through groups at `n` is at `n` -/
theorem src_closure {up : Nat → It α} (n : Nat) (st : St α) (t : It α) : t.Cons up →
    AllAt st n t.expo → (∀ g ∈ t.groups, GI1 up n st g) → ∀ k ∈ t.srcs, st.pulls k = n := by
  induction t with
  | src k0 =>
    intro _ hat _ k hk
    have : k = k0 := List.mem_singleton.mp hk
    subst this
    exact hat (.s k) (List.mem_singleton.mpr rfl)
  | tee g i u ih =>
    intro cons hat hgi k hk
    obtain ⟨hu, consu⟩ := cons
    subst hu
    exact ih consu (hgi g (List.mem_cons_self ..)).2.1
      (fun g' hg' => hgi g' (List.mem_cons_of_mem _ hg')) k hk
  | map2 f a b iha ihb =>
    intro cons hat hgi k hk
    rcases List.mem_append.mp hk with h | h
    · exact iha cons.1 (fun τ hτ => hat τ (List.mem_append_left _ hτ))
        (fun g' hg' => hgi g' (List.mem_append_left _ hg')) k h
    · exact ihb cons.2 (fun τ hτ => hat τ (List.mem_append_right _ hτ))
        (fun g' hg' => hgi g' (List.mem_append_right _ hg')) k h
  | bl f c a iha => intro cons hat hgi k hk; exact iha cons hat hgi k hk
  | br f a c iha => intro cons hat hgi k hk; exact iha cons hat hgi k hk

theorem src_closureR {up : Nat → It α} (n : Nat) (st : St α) (cs : List (HC α)) :
    (∀ c ∈ cs, c.Cons up) → AllAt st n (expoR cs) → (∀ g ∈ groupsR cs, GI1 up n st g) →
    ∀ k ∈ srcsR cs, st.pulls k = n := by
  induction cs with
  | nil => intro _ _ _ k hk; exact absurd hk (by simp [srcsR])
  | cons c cs ih =>
    intro cons hat hgi k hk
    have hat0 : AllAt st n (c.expo ++ expoR cs) := hat
    have hgi0 : ∀ g ∈ c.groups ++ groupsR cs, GI1 up n st g := hgi
    have hk0 : k ∈ c.srcs ++ srcsR cs := hk
    rcases List.mem_append.mp hk0 with h | h
    · cases c with
      | c x => exact absurd h (by simp [HC.srcs])
      | s e =>
        exact src_closure n st e (cons (.s e) (by simp))
          (fun τ hτ => hat0 τ (List.mem_append_left _ hτ))
          (fun g' hg' => hgi0 g' (List.mem_append_left _ hg')) k h
    · exact ih (fun c hc => cons c (List.mem_cons_of_mem _ hc))
        (fun τ hτ => hat0 τ (List.mem_append_right _ hτ))
        (fun g' hg' => hgi0 g' (List.mem_append_right _ hg')) k h

/-- a round never touches a source that is not written in the coefficients -/
theorem round_frame_pulls (srcs : Nat → Src α) (k : Nat) (cs : List (HC α)) : ∀ st : St α,
    k ∉ srcsR cs → (round srcs cs st).1.pulls k = st.pulls k := by
  induction cs with
  | nil => intro st _; rfl
  | cons c cs ih =>
    intro st hk
    have hk0 : k ∉ c.srcs ++ srcsR cs := hk
    have hk2 : k ∉ srcsR cs := fun h => hk0 (List.mem_append_right _ h)
    cases c with
    | c x =>
      simp only [round]
      have := ih st hk2
      cases hr : round srcs cs st with
      | mk st' r => rw [hr] at this; cases r <;> exact this
    | s e =>
      simp only [round]
      have hk1 : k ∉ e.srcs := fun h => hk0 (List.mem_append_left _ h)
      have h1 := (next_frame srcs e st).1 k hk1
      cases hn : next srcs e st with
      | mk st1 r =>
        rw [hn] at h1
        cases r with
        | stop => exact h1
        | raise => exact h1
        | ok v =>
          dsimp only
          have := ih st1 hk2
          cases hr : round srcs cs st1 with
          | mk st' r => rw [hr] at this; cases r <;> exact (this.trans h1)

/-- **reads once, any nesting**: `n` successful rounds from a round boundary at `m` end at the round
boundary `m + n` -/
theorem rounds_lock (srcs : Nat → Src α) {up : Nat → It α} {G : Nat → Prop} (L : Lin up G)
    (cs : List (HC α)) (wf : ∀ c ∈ cs, c.WF) (cons : ∀ c ∈ cs, c.Cons up)
    (hs : Stat up G (groupsR cs) (expoR cs)) : ∀ (n m : Nat) (st st' : St α),
    (∀ g ∈ groupsR cs, GI1 up m st g) → AllAt st m (expoR cs) → roundsOk srcs cs n st st' →
    (∀ g ∈ groupsR cs, GI1 up (m + n) st' g) ∧ AllAt st' (m + n) (expoR cs)
      ∧ ∀ k, k ∉ srcsR cs → st'.pulls k = st.pulls k := by
  intro n
  induction n with
  | zero => intro m st st' h1 h2 h; cases h; exact ⟨h1, h2, fun _ _ => rfl⟩
  | succ n ih =>
    intro m st st' h1 h2 h
    obtain ⟨st1, vs, hr, hrest⟩ := h
    obtain ⟨c1, c2, _, _⟩ := round_lock srcs L m cs st st1 vs wf cons hs
      ⟨fun g hg => Or.inl (h1 g hg), h2⟩ hr
    have b1 := adv_closureR m st1 cs cons c2 c1
    obtain ⟨d1, d2, d3⟩ := ih (m + 1) st1 st' b1 c2 hrest
    have e : m + 1 + n = m + (n + 1) := by omega
    rw [e] at d1 d2
    refine ⟨d1, d2, fun k hk => (d3 k hk).trans ?_⟩
    have := round_frame_pulls srcs k cs st hk
    rw [hr] at this; exact this

/-- from the state `filt(x)` leaves: after `n` outputs every source written in the coefficients has
been pulled exactly `n` times, every other source never -/
theorem rounds_nested_reads_once (srcs : Nat → Src α) {up : Nat → It α} {G : Nat → Prop} (L : Lin up G)
    (cs : List (HC α)) (wf : ∀ c ∈ cs, c.WF) (cons : ∀ c ∈ cs, c.Cons up)
    (hs : Stat up G (groupsR cs) (expoR cs)) (n : Nat) (st' : St α)
    (h : roundsOk srcs cs n St.init st') :
    (∀ k ∈ srcsR cs, st'.pulls k = n) ∧ (∀ k, k ∉ srcsR cs → st'.pulls k = 0) := by
  have hinit : ∀ τ, tokVal (St.init : St α) τ = 0 := fun τ => by cases τ <;> rfl
  obtain ⟨a1, a2, a3⟩ := rounds_lock srcs L cs wf cons hs n 0 St.init st'
    (fun g _ => ⟨rfl, fun τ _ => hinit τ, fun _ => Nat.le_refl _⟩) (fun τ _ => hinit τ) h
  rw [Nat.zero_add] at a1 a2
  exact ⟨src_closureR n st' cs cons a2 a1, fun k hk => a3 k hk⟩

/-! ### the whole call -/
section call
variable [OfNat α 0] [OfNat α 1] [DecidableEq α]

/-- row `j` of the pull trace is the state after `j + 1` successful rounds -/
theorem loopH_trace (srcs : Nat → Src α) (nsrc : Nat) (b as : List (HC α)) (a0 zero : α) :
    ∀ (xs hx hy : List α) (st : St α) (j : Nat) (row : List Nat),
    (loopH srcs nsrc b as a0 zero xs hx hy st).2.1[j]? = some row →
    ∃ st1, roundsOk srcs (b ++ as) (j + 1) st st1 ∧ row = (List.range nsrc).map st1.pulls := by
  intro xs
  induction xs with
  | nil => intro hx hy st j row h; simp [loopH] at h
  | cons x xs ih =>
    intro hx hy st j row h
    obtain ⟨s1, s2, s3⟩ := loopH_step srcs nsrc b as a0 zero x xs hx hy st
    cases hr : round srcs (b ++ as) st with
    | mk st1 r =>
      cases r with
      | stop => rw [s2 st1 hr] at h; simp at h
      | raise => rw [s3 st1 hr] at h; simp at h
      | ok vs =>
        obtain ⟨y, hy'⟩ := s1 st1 vs hr
        rw [hy'] at h
        cases j with
        | zero =>
          simp only [List.getElem?_cons_zero, Option.some.injEq] at h
          exact ⟨st1, ⟨st1, vs, hr, rfl⟩, h.symm⟩
        | succ j =>
          simp only [List.getElem?_cons_succ] at h
          obtain ⟨st2, h2, h3⟩ := ih _ _ st1 j row h
          exact ⟨st2, ⟨st1, vs, hr, h2⟩, h3⟩

/-- the coefficient iterators `filt(x)` hands to the generated loop (numerator, then denominator
delays 1…) -/
def callCoefs (num den : PE α) : List (HC α) :=
  let (pn, g1) := num.build 0
  let (pd, g2) := den.build g1
  let (pn', pd', _) : HPoly α × HPoly α × Nat :=
    match findC pd 0 with
    | .s e0 => gainHub pn pd e0 g2
    | .c _ => (pn, pd, g2)
  denseH pn' ++ (denseH pd').tail

theorem callH_trace (srcs : Nat → Src α) (nsrc : Nat) (num den : PE α) (zero : α) (xs : List α)
    (j : Nat) (row : List Nat) (h : (callH srcs nsrc num den zero xs).trace[j]? = some row) :
    row = (List.range nsrc).map (fun _ => 0)
    ∨ ∃ st1, roundsOk srcs (callCoefs num den) (j + 1) St.init st1
        ∧ row = (List.range nsrc).map st1.pulls := by
  have zcase : ∀ (tr : List (List Nat)), tr = xs.map (fun _ => (List.range nsrc).map (St.init : St α).pulls) →
      tr[j]? = some row → row = (List.range nsrc).map (fun _ => 0) := by
    intro tr e h
    subst e
    simp only [List.getElem?_map] at h
    cases hx : xs[j]? with
    | none => rw [hx] at h; simp at h
    | some x => rw [hx] at h; simp only [Option.map_some, Option.some.injEq] at h; rw [← h]; rfl
  unfold callH at h
  unfold callCoefs
  simp only at h ⊢
  split at h <;> rename_i heq <;> simp only [heq] <;> split at h
  · exact Or.inl (zcase _ rfl h)
  · exact Or.inr (loopH_trace srcs nsrc _ _ _ zero xs _ _ St.init j row h)
  · exact Or.inl (zcase _ rfl h)
  · exact Or.inr (loopH_trace srcs nsrc _ _ _ zero xs _ _ St.init j row h)

end call

/-! ### linearity as a DECIDABLE property of a coefficient list (the upstream table is read off the
list itself) -/
section decide
variable [DecidableEq α]

def It.findUp (g : Nat) : It α → Option (It α)
  | .src _ => none
  | .tee g' _ u => if g' = g then some u else u.findUp g
  | .map2 _ a b =>
    match a.findUp g with
    | some u => some u
    | none => b.findUp g
  | .bl _ _ a => a.findUp g
  | .br _ a _ => a.findUp g

/-- the upstream of group `g`: the first one written in the list -/
def upOf (cs : List (HC α)) (g : Nat) : It α :=
  match cs.findSome? (fun c => match c with | .c _ => none | .s e => e.findUp g) with
  | some u => u
  | none => .src 0

def It.decWF : (t : It α) → Decidable t.WF
  | .src _ => isTrue trivial
  | .tee g _ u => letI := It.decWF u; inferInstanceAs (Decidable (g ∉ u.groups ∧ u.WF))
  | .map2 _ a b => letI := It.decWF a; letI := It.decWF b; inferInstanceAs (Decidable (a.WF ∧ b.WF))
  | .bl _ _ a => It.decWF a
  | .br _ a _ => It.decWF a
instance (t : It α) : Decidable t.WF := It.decWF t

def It.decCons (up : Nat → It α) : (t : It α) → Decidable (t.Cons up)
  | .src _ => isTrue trivial
  | .tee g _ u => letI := It.decCons up u; inferInstanceAs (Decidable (u = up g ∧ u.Cons up))
  | .map2 _ a b => letI := It.decCons up a; letI := It.decCons up b
                   inferInstanceAs (Decidable (a.Cons up ∧ b.Cons up))
  | .bl _ _ a => It.decCons up a
  | .br _ a _ => It.decCons up a
instance (up : Nat → It α) (t : It α) : Decidable (t.Cons up) := It.decCons up t

instance (c : HC α) : Decidable c.WF := by cases c <;> unfold HC.WF <;> infer_instance
instance (up : Nat → It α) (c : HC α) : Decidable (c.Cons up) := by
  cases c <;> unfold HC.Cons <;> infer_instance

/-- `Lin` over the groups of a list, every quantifier bounded -/
def LinL (up : Nat → It α) (gs : List Nat) : Prop :=
  (∀ g ∈ gs, (up g).WF ∧ (up g).Cons up ∧ g ∉ (up g).groups ∧ (∀ h ∈ (up g).groups, h ∈ gs)
    ∧ (up g).expo.Nodup)
  ∧ (∀ g ∈ gs, ∀ h ∈ gs, g ≠ h → ∀ τ ∈ (up g).expo, τ ∉ (up h).expo)
instance (up : Nat → It α) (gs : List Nat) : Decidable (LinL up gs) := by unfold LinL; infer_instance

theorem LinL.lin {up : Nat → It α} {gs : List Nat} (h : LinL up gs) : Lin up (· ∈ gs) :=
  ⟨fun g hg => h.1 g hg, fun g k hg hk => h.2 g hg k hk⟩

/-- the coefficient list is a linear forest (decidable: `decide` checks it on any concrete filter) -/
def Linear (cs : List (HC α)) : Prop :=
  (∀ c ∈ cs, c.WF ∧ c.Cons (upOf cs)) ∧ LinL (upOf cs) (groupsR cs) ∧ (expoR cs).Nodup
  ∧ (∀ g ∈ groupsR cs, ∀ τ ∈ expoR cs, τ ∉ (upOf cs g).expo)
instance (cs : List (HC α)) : Decidable (Linear cs) := by unfold Linear; infer_instance

theorem Linear.reads_once (srcs : Nat → Src α) (cs : List (HC α)) (hl : Linear cs) (n : Nat) (st' : St α)
    (h : roundsOk srcs cs n St.init st') :
    (∀ k ∈ srcsR cs, st'.pulls k = n) ∧ (∀ k, k ∉ srcsR cs → st'.pulls k = 0) :=
  rounds_nested_reads_once srcs hl.2.1.lin cs (fun c hc => (hl.1 c hc).1) (fun c hc => (hl.1 c hc).2)
    ⟨fun g hg => hg, hl.2.2.1, hl.2.2.2⟩ n st' h

end decide

/-! ### a concrete depth-2 forest (non-vacuity of the lockstep theorems) -/
/-- non-vacuity, depth 2 (`g * p * q`: hubs 1 and 2 sit over products of copies of hub 0) -/
def nestUp : Nat → It Rat
  | 0 => .src 0
  | 1 => .br .mul (.tee 0 0 (.src 0)) 1
  | _ => .br .mul (.tee 0 1 (.src 0)) 1
def nestCs : List (HC Rat) :=
  [.s (.br .mul (.tee 1 0 (nestUp 1)) 1),
   .s (.map2 .add (.br .mul (.tee 1 1 (nestUp 1)) 2) (.br .mul (.tee 2 0 (nestUp 2)) 1)),
   .s (.br .mul (.tee 2 1 (nestUp 2)) 2)]
theorem nestLin : Lin nestUp (fun g => g < 3) where
  wf := by
    intro g hg
    have : g = 0 ∨ g = 1 ∨ g = 2 := by omega
    rcases this with rfl | rfl | rfl <;> simp [nestUp, It.WF, It.Cons, It.groups, It.expo]
  disj := by
    intro g h hg hh hne τ
    have e1 : g = 0 ∨ g = 1 ∨ g = 2 := by omega
    have e2 : h = 0 ∨ h = 1 ∨ h = 2 := by omega
    rcases e1 with rfl | rfl | rfl <;> rcases e2 with rfl | rfl | rfl <;>
      simp [nestUp, It.expo] at hne ⊢ <;> intro e <;> simp [e]

end ALV.C06.Hub
