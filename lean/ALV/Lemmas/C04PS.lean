/-
  C04 — the power-series reading of the difference equation (bridge to C05):
  with zero memory and zero value 0, `A(X)·Y(X) = B(X)·X(X)` coefficient by coefficient.
-/
import ALV.Lemmas.C04Index
import Mathlib.RingTheory.PowerSeries.Basic

set_option linter.unusedSectionVars false
set_option linter.unusedSimpArgs false
namespace ALV.C04
open PowerSeries
variable {K : Type} [Field K]

/-- the formal series `Σ l[k]·X^k` of a finite list -/
noncomputable def seriesOf (l : List K) : K⟦X⟧ := PowerSeries.mk (fun k => l.getD k 0)

theorem sigma_eq_sum (n : Nat) (f : Nat → K) : sigma n f = ∑ k ∈ Finset.range n, f k := by
  induction n with
  | zero => simp [sigma]
  | succ n ih => rw [sigma, ih, Finset.sum_range_succ]

theorem sum_range_eq_of_zero (h : Nat → K) (N M : Nat)
    (hN : ∀ k, N ≤ k → h k = 0) (hM : ∀ k, M ≤ k → h k = 0) :
    ∑ k ∈ Finset.range N, h k = ∑ k ∈ Finset.range M, h k := by
  have e1 : ∑ k ∈ Finset.range N, h k = ∑ k ∈ Finset.range (max N M), h k :=
    Finset.sum_subset (Finset.range_subset_range.2 (le_max_left _ _))
      (fun k _ hk => hN k (by simpa using hk))
  have e2 : ∑ k ∈ Finset.range M, h k = ∑ k ∈ Finset.range (max N M), h k :=
    Finset.sum_subset (Finset.range_subset_range.2 (le_max_right _ _))
      (fun k _ hk => hM k (by simpa using hk))
  rw [e1, e2]

theorem getD_of_le (l : List K) (k : Nat) (h : l.length ≤ k) : l.getD k 0 = 0 := by
  simp [List.getD_eq_getElem?_getD, List.getElem?_eq_none h]

theorem replicate_getD_zero (m i : Nat) : (List.replicate m (0 : K)).getD i 0 = 0 := by
  simp only [List.getD_eq_getElem?_getD, List.getElem?_replicate]
  split <;> rfl

theorem coeff_mul_seriesOf (p q : List K) (n : Nat) :
    coeff n (seriesOf p * seriesOf q)
      = ∑ k ∈ Finset.range (n + 1), p.getD k 0 * q.getD (n - k) 0 := by
  rw [coeff_mul, Finset.Nat.sum_antidiagonal_eq_sum_range_succ_mk]
  simp [seriesOf, coeff_mk]

/-- a list satisfying the sentence of the property with zero memory and zero value 0 satisfies
`A·Y = B·X` up to the length of the input -/
theorem diffeq_ps (b as : List K) (a0 : K) (xs ys : List K)
    (h : DiffEq b a0 as 0 (List.replicate as.length 0) xs ys) (n : Nat) (hn : n < xs.length) :
    coeff n (seriesOf (a0 :: as) * seriesOf ys) = coeff n (seriesOf b * seriesOf xs) := by
  obtain ⟨hl, he⟩ := h
  have e := he n hn
  rw [coeff_mul_seriesOf, coeff_mul_seriesOf, Finset.sum_range_succ']
  simp only [List.getD_cons_zero, List.getD_cons_succ, Nat.sub_zero]
  -- the y-side of the difference equation as a sum over k < n
  have hy : sigma as.length
        (fun k => as.getD k 0 * yAt 0 (List.replicate as.length 0) ys ((n : Int) - ((k : Int) + 1)))
      = ∑ k ∈ Finset.range n, as.getD k 0 * ys.getD (n - (k + 1)) 0 := by
    rw [sigma_eq_sum]
    rw [sum_range_eq_of_zero _ as.length n
      (fun k hk => by rw [getD_of_le _ _ hk, zero_mul])
      (fun k hk => by
        have hneg : (n : Int) - ((k : Int) + 1) < 0 := by omega
        simp only [yAt, if_pos hneg, replicate_getD_zero, mul_zero])]
    apply Finset.sum_congr rfl
    intro k hk
    have hk' : k < n := by simpa using hk
    have hpos : ¬ ((n : Int) - ((k : Int) + 1) < 0) := by omega
    have ht : ((n : Int) - ((k : Int) + 1)).toNat = n - (k + 1) := by omega
    simp only [yAt, if_neg hpos, ht]
  -- the x-side as a sum over k ≤ n
  have hx : sigma b.length (fun k => b.getD k 0 * xAt 0 xs ((n : Int) - (k : Int)))
      = ∑ k ∈ Finset.range (n + 1), b.getD k 0 * xs.getD (n - k) 0 := by
    rw [sigma_eq_sum]
    rw [sum_range_eq_of_zero _ b.length (n + 1)
      (fun k hk => by rw [getD_of_le _ _ hk, zero_mul])
      (fun k hk => by
        have hneg : (n : Int) - (k : Int) < 0 := by omega
        simp only [xAt, if_pos hneg, mul_zero])]
    apply Finset.sum_congr rfl
    intro k hk
    have hk' : k < n + 1 := by simpa using hk
    have hpos : ¬ ((n : Int) - (k : Int) < 0) := by omega
    have ht : ((n : Int) - (k : Int)).toNat = n - k := by omega
    simp only [xAt, if_neg hpos, ht]
  have hy0 : yAt 0 (List.replicate as.length 0) ys (n : Int) = ys.getD n 0 := by
    have hpos : ¬ ((n : Int) < 0) := by omega
    simp only [yAt, if_neg hpos, Int.toNat_natCast]
  rw [hy, hx, hy0] at e
  rw [e]
  ring

/-! ### endless inputs -/

/-- outputs on a prefix of the input are a prefix of the outputs (causality of `fspec`) -/
theorem fspec_take (b as : List K) (a0 zero : K) (xs zs : List K) :
    ∀ hy hx : List K, (fspec b as a0 zero hy hx (xs ++ zs)).take xs.length = fspec b as a0 zero hy hx xs := by
  induction xs with
  | nil => intro hy hx; simp [fspec]
  | cons x xs ih => intro hy hx; simp [fspec, ih]

/-- response of the filter to an endless input (zero memory, zero value 0): sample `n` is the
last output on the first `n+1` input items -/
def response (b as : List K) (a0 : K) (x : Nat → K) (n : Nat) : K :=
  (fspec b as a0 0 (List.replicate as.length 0) [] ((List.range (n + 1)).map x)).getD n 0

theorem response_prefix (b as : List K) (a0 : K) (x : Nat → K) (n j : Nat) (hj : j ≤ n) :
    (fspec b as a0 0 (List.replicate as.length 0) [] ((List.range (n + 1)).map x)).getD j 0
      = response b as a0 x j := by
  have hsplit : (List.range (n + 1)).map x
      = (List.range (j + 1)).map x ++ ((List.range (n - j)).map (fun i => j + 1 + i)).map x := by
    have : n + 1 = (j + 1) + (n - j) := by omega
    rw [this, List.range_add, List.map_append]
  have ht := fspec_take b as a0 0 ((List.range (j + 1)).map x)
    (((List.range (n - j)).map (fun i => j + 1 + i)).map x) (List.replicate as.length 0) []
  rw [← hsplit] at ht
  simp only [List.length_map, List.length_range] at ht
  unfold response
  rw [← ht]
  simp only [List.getD_eq_getElem?_getD]
  rw [List.getElem?_take_of_lt (by omega)]

theorem coeff_mul_seriesOf_mk (p : List K) (f : Nat → K) (n : Nat) :
    coeff n (seriesOf p * PowerSeries.mk f) = ∑ k ∈ Finset.range (n + 1), p.getD k 0 * f (n - k) := by
  rw [coeff_mul, Finset.Nat.sum_antidiagonal_eq_sum_range_succ_mk]
  simp [seriesOf, coeff_mk]

/-- **`A(X)·Y(X) = B(X)·X(X)`** as formal power series, for every endless input -/
theorem response_ps (b as : List K) (a0 : K) (ha0 : a0 ≠ 0) (x : Nat → K) :
    seriesOf (a0 :: as) * PowerSeries.mk (response b as a0 x) = seriesOf b * PowerSeries.mk x := by
  ext n
  have hd := fspec_diffeq b as a0 0 (List.replicate as.length 0) ((List.range (n + 1)).map x) ha0
    (by simp)
  have hps := diffeq_ps b as a0 _ _ hd n (by simp)
  rw [coeff_mul_seriesOf, coeff_mul_seriesOf] at hps
  rw [coeff_mul_seriesOf_mk, coeff_mul_seriesOf_mk]
  have e1 : ∑ k ∈ Finset.range (n + 1), (a0 :: as).getD k 0 * response b as a0 x (n - k)
      = ∑ k ∈ Finset.range (n + 1), (a0 :: as).getD k 0 *
          (fspec b as a0 0 (List.replicate as.length 0) [] ((List.range (n + 1)).map x)).getD (n - k) 0 := by
    apply Finset.sum_congr rfl
    intro k _
    rw [response_prefix b as a0 x n (n - k) (by omega)]
  have e2 : ∑ k ∈ Finset.range (n + 1), b.getD k 0 * x (n - k)
      = ∑ k ∈ Finset.range (n + 1), b.getD k 0 * ((List.range (n + 1)).map x).getD (n - k) 0 := by
    apply Finset.sum_congr rfl
    intro k _
    have hlt : n - k < ((List.range (n + 1)).map x).length := by
      rw [List.length_map, List.length_range]; omega
    simp only [List.getD_eq_getElem?_getD]
    rw [List.getElem?_eq_getElem hlt]
    simp
  rw [e1, e2, hps]

end ALV.C04
