/-
  C05 — the executable canonical-form specification of rational functions (`Spec/C05.lean`:
  `rSum`, `rProd`, `rNorm`, `lowKey`, `rCausal`) denotes what its names say in the fraction field
  `Q K` of `K[T;T⁻¹]`, and its causality decision is the model's `is_causal` on normalised filters.
-/
import ALV.Lemmas.C05Spec
import ALV.Lemmas.C05Lists

set_option linter.unusedSectionVars false
set_option linter.unusedSimpArgs false
set_option linter.unusedVariables false

open LaurentPolynomial

namespace ALV.C05
open ALV.C07
variable {K : Type} [Field K] [DecidableEq K]

/-! ### `rSum` / `rProd` -/

theorem val_foldl_rAdd (fs : List (ZF K)) : ∀ acc : ZF K, RV acc → (∀ f ∈ fs, RV f) →
    RV (fs.foldl rAdd acc) ∧ val (fs.foldl rAdd acc) = val acc + (fs.map val).sum := by
  induction fs with
  | nil => intro acc h _; exact ⟨h, by simp⟩
  | cons f t ih =>
    intro acc h hfs
    obtain ⟨r1, v1⟩ := val_rAdd h (hfs f List.mem_cons_self)
    obtain ⟨r, v⟩ := ih (rAdd acc f) r1 (fun g hg => hfs g (List.mem_cons_of_mem _ hg))
    exact ⟨r, by rw [List.foldl_cons, v, v1]; simp [add_assoc]⟩

theorem val_foldl_rMul (fs : List (ZF K)) : ∀ acc : ZF K, RV acc → (∀ f ∈ fs, RV f) →
    RV (fs.foldl rMul acc) ∧ val (fs.foldl rMul acc) = val acc * (fs.map val).prod := by
  induction fs with
  | nil => intro acc h _; exact ⟨h, by simp⟩
  | cons f t ih =>
    intro acc h hfs
    obtain ⟨r1, v1⟩ := val_rMul h (hfs f List.mem_cons_self)
    obtain ⟨r, v⟩ := ih (rMul acc f) r1 (fun g hg => hfs g (List.mem_cons_of_mem _ hg))
    exact ⟨r, by rw [List.foldl_cons, v, v1]; simp [mul_assoc]⟩

theorem val_rSum (fs : List (ZF K)) (h : ∀ f ∈ fs, RV f) :
    RV (rSum fs) ∧ val (rSum fs) = (fs.map val).sum := by
  obtain ⟨r0, v0⟩ := val_rScalar (0 : K)
  obtain ⟨r, v⟩ := val_foldl_rAdd fs (rScalar 0) r0 h
  exact ⟨r, by unfold rSum; rw [v, v0]; simp⟩

theorem val_rProd (fs : List (ZF K)) (h : ∀ f ∈ fs, RV f) :
    RV (rProd fs) ∧ val (rProd fs) = (fs.map val).prod := by
  obtain ⟨r0, v0⟩ := val_rScalar (1 : K)
  obtain ⟨r, v⟩ := val_foldl_rMul fs (rScalar 1) r0 h
  exact ⟨r, by unfold rProd; rw [v, v0]; simp⟩

/-! ### `lowKey`: the order of a Laurent polynomial -/

theorem lowKey_canon_none (p : MPoly K) : lowKey (canon p) = none ↔ toLaurent p = 0 := by
  rw [← canon_eq_nil_iff]
  cases h : canon p with
  | nil => simp [lowKey]
  | cons a t => obtain ⟨k, v⟩ := a; simp [lowKey]

/-- `lowKey (canon p) = some k`: `k` is the lowest power with a non-zero coefficient -/
theorem lowKey_canon_some {p : MPoly K} {k : ℤ} (h : lowKey (canon p) = some k) :
    (toLaurent p).coeff k ≠ 0 ∧ ∀ j, j < k → (toLaurent p).coeff j = 0 := by
  have hw := wf_canon p
  have ha : Ascending (canon p) := ascending_canonOn _ _
  rw [← toLaurent_canon p]
  cases hc : canon p with
  | nil => rw [hc] at h; simp [lowKey] at h
  | cons a t =>
    obtain ⟨k', v⟩ := a
    rw [hc] at h hw ha
    obtain rfl : k' = k := by simpa [lowKey] using h
    constructor
    · exact (mem_keys_iff_coeff hw k').1 (by simp [keys])
    · intro j hj
      by_contra hne
      have hm := (mem_keys_iff_coeff hw j).2 hne
      unfold Ascending at ha
      simp only [keys, List.map_cons, List.pairwise_cons] at ha hm
      rcases List.mem_cons.1 hm with e | e
      · omega
      · have := ha.1 j e; omega

/-- the head of the canonical form of a normalised denominator is the delay 0 -/
theorem lowKey_canon_of_normal {d : MPoly K} (hd : WF d) (hp : IsPoly d) (h0 : C07.coeff d 0 ≠ 0) :
    lowKey (canon d) = some 0 := by
  cases h : lowKey (canon d) with
  | none =>
    have := (lowKey_canon_none d).1 h
    rw [← C07.coeff_toLaurent, this] at h0
    simp at h0
  | some k =>
    obtain ⟨h1, h2⟩ := lowKey_canon_some h
    have hk : k ∈ keys d := (mem_keys_iff_coeff hd k).2 h1
    obtain ⟨kv, hkv, rfl⟩ := List.mem_map.1 hk
    have hge := hp kv hkv
    rcases lt_or_eq_of_le hge with hlt | heq
    · have := h2 0 hlt
      rw [C07.coeff_toLaurent] at this
      exact absurd this h0
    · rw [← heq]

/-! ### `rNorm` -/

theorem toLaurent_map_shift (p : ℤ) (d : MPoly K) :
    toLaurent (d.map fun kv => (kv.1 - p, kv.2)) = toLaurent d * T (-p) :=
  toLaurent_shiftKeys p d

theorem coeff_map_shift (p : ℤ) (d : MPoly K) (j : ℤ) :
    C07.coeff (d.map fun kv => (kv.1 - p, kv.2)) j = C07.coeff d (j + p) := by
  induction d with
  | nil => simp [C07.coeff]
  | cons a t ih =>
    obtain ⟨k, c⟩ := a
    simp only [List.map_cons, C07.coeff, ih]
    by_cases e : k - p = j
    · have : k = j + p := by omega
      simp [e, this]
    · have : ¬ k = j + p := by omega
      simp [e, this]

theorem rNorm_none_iff (f : ZF K) : rNorm f = none ↔ D f = 0 := by
  unfold rNorm D
  rw [← lowKey_canon_none]
  cases lowKey (canon f.den) <;> simp

/-- `rNorm` writes the same element of the fraction field with the denominator starting at delay 0 -/
theorem rNorm_some {f g : ZF K} (h : rNorm f = some g) :
    RV f ∧ RV g ∧ val g = val f ∧ (D g).coeff 0 ≠ 0 ∧ ∀ j, j < 0 → (D g).coeff j = 0 := by
  unfold rNorm at h
  cases hk : lowKey (canon f.den) with
  | none => rw [hk] at h; simp at h
  | some p =>
    rw [hk] at h
    simp only [Option.some.injEq] at h
    obtain ⟨h1, h2⟩ := lowKey_canon_some hk
    have hf : RV f := by
      intro e; unfold D at e; rw [e] at h1; simp at h1
    have hN : N g = N f * T (-p) := by
      rw [← h]; unfold N; rw [toLaurent_map_shift, toLaurent_canon]
    have hD : D g = D f * T (-p) := by
      rw [← h]; unfold D; rw [toLaurent_map_shift, toLaurent_canon]
    have hT : (T (-p) : K[T;T⁻¹]) ≠ 0 := T_ne_zero _
    have hcoef : ∀ j : ℤ, (D g).coeff j = (D f).coeff (j + p) := by
      intro j
      rw [← h]; unfold D
      rw [C07.coeff_toLaurent, coeff_map_shift, ← C07.coeff_toLaurent, toLaurent_canon]
    refine ⟨hf, ?_, ?_, ?_, ?_⟩
    · intro e; rw [hD] at e; exact (mul_ne_zero hf hT) e
    · unfold val
      rw [hN, hD, map_mul, map_mul, mul_div_mul_right _ _ (fun e => hT (ι_eq_zero.1 e))]
    · rw [hcoef]; simpa [D] using h1
    · intro j hj; rw [hcoef]; exact h2 _ (by omega)

/-! ### `rCausal` / `isCausal` -/

theorem isCausal_iff (f : ZF K) : isCausal f = true ↔ IsPoly f.num := isPoly_iff f.num

theorem rCausal_iff (f : ZF K) : rCausal f = true ↔ ∃ g, rNorm f = some g ∧ IsPoly g.num := by
  unfold rCausal
  cases h : rNorm f with
  | none => simp
  | some g => simp [isPoly_iff]

/-- on a filter object with a normalised denominator (every object the constructor returns) the
specification's causality decision is the model's `is_causal`, and both decide `Causal` -/
theorem rCausal_rOf {f : ZF K} (hf : Norm f) : rCausal (rOf f) = isCausal f := by
  obtain ⟨hv, hp, h0⟩ := hf
  have hl : lowKey (canon (canon f.den)) = some 0 := by
    have : canon (canon f.den) = canon f.den := canon_inj.2 (toLaurent_canon _)
    rw [this]; exact lowKey_canon_of_normal hv.2.1 hp h0
  have hn : canon (canon f.num) = canon f.num := canon_inj.2 (toLaurent_canon _)
  unfold rCausal rNorm rOf
  simp only [hl, hn]
  unfold isCausal
  rw [Bool.eq_iff_iff, isPoly_iff, isPoly_iff]
  have hperm := canon_perm hv.1
  constructor
  · intro h kv hkv
    have := h (kv.1 - 0, kv.2) (List.mem_map.2 ⟨kv, hperm.symm.subset hkv, rfl⟩)
    simpa using this
  · intro h kv hkv
    obtain ⟨kv', hkv', rfl⟩ := List.mem_map.1 hkv
    have := h kv' (hperm.subset hkv')
    simpa using this

theorem causal_iff_isCausal {f : ZF K} (hf : Norm f) : Causal f ↔ isCausal f = true := by
  rw [isCausal_iff]
  exact ⟨fun h => h.2.1, fun h => ⟨hf.1, h, hf.2.1, hf.2.2⟩⟩

end ALV.C05
