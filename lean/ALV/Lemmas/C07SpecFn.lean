/-
  C07 — the remaining executable specification functions of `Spec/C07.lean` (those that the
  failing-input search compares the implementation with) denote the operations of `K[T;T⁻¹]`:
  `sDiffN` (n-fold derivative), `sInteg` (an antiderivative), `sDivMono` (division by a unit),
  `sPowZ` (integer powers, negative ones of monomials), `sComp` (substitution), `sEq` (equality of
  denotations) — and the model's results, once sorted, are *equal* to them.
-/
import ALV.Lemmas.C07Spec
import ALV.Lemmas.C07Eval
import ALV.Lemmas.C07LagrangePoly

set_option linter.unusedSectionVars false
set_option linter.unusedVariables false

open LaurentPolynomial

namespace ALV.C07
variable {K : Type} [Field K] [DecidableEq K]

/-! ### n-fold derivative -/

theorem canonical_sDiffN (p : MPoly K) (n : ℕ) : WF (sDiffN p n) ∧ Ascending (sDiffN p n) := by
  cases n <;> exact ⟨wf_canonOn _ _, ascending_canonOn _ _⟩

theorem toLaurent_sDiffN (p : MPoly K) (n : ℕ) : toLaurent (sDiffN p n) = D^[n] (toLaurent p) := by
  induction n with
  | zero => exact toLaurent_canon p
  | succ n ih => rw [sDiffN, toLaurent_sDiff, ih, Function.iterate_succ_apply']

theorem sortAsc_diff_eq_sDiffN {p : MPoly K} (hp : WF p) (n : ℕ) : sortAsc (diff p n) = sDiffN p n :=
  sortAsc_eq_of_toLaurent (wf_diff p n hp.1) (canonical_sDiffN p n).1 (canonical_sDiffN p n).2
    ((toLaurent_diff hp.1 n).trans (toLaurent_sDiffN p n).symm)

/-! ### antiderivative -/

theorem sInteg_eq_none_iff (p : MPoly K) : sInteg p = none ↔ coeff p (-1) ≠ 0 := by
  unfold sInteg
  split <;> simp_all

theorem coeff_sInteg {p s : MPoly K} (h : sInteg p = some s) (k : ℤ) :
    coeff s k = if k = 0 then 0 else coeff p (k - 1) / ofIntA k := by
  unfold sInteg at h
  split at h
  · cases h
    apply coeff_canonOn
    intro k hk
    split
    · rfl
    · have : k - 1 ∉ keys p := by
        intro hm
        apply hk
        exact List.mem_map.2 ⟨k - 1, hm, by ring⟩
      rw [coeff_eq_zero_of_not_mem this, zero_div]
  · cases h

/-- the specified integral is an antiderivative: `D (∫p) = p` -/
theorem D_toLaurent_sInteg [CharZero K] {p s : MPoly K} (h : sInteg p = some s) :
    D (toLaurent s) = toLaurent p := by
  have h0 : coeff p (-1) = 0 := by
    by_contra hne
    rw [(sInteg_eq_none_iff p).2 hne] at h
    cases h
  apply LaurentPolynomial.ext
  intro k
  rw [coeff_D, coeff_toLaurent, coeff_toLaurent, coeff_sInteg h, ofIntA_eq]
  by_cases hk : k + 1 = 0
  · have : k = -1 := by omega
    subst this
    simp [h0]
  · have hne : ((k + 1 : ℤ) : K) ≠ 0 := by exact_mod_cast hk
    simp only [hk, if_false, add_sub_cancel_right]
    rw [mul_div_cancel₀ _ hne]

theorem canonical_sInteg {p s : MPoly K} (h : sInteg p = some s) : WF s ∧ Ascending s := by
  unfold sInteg at h
  split at h
  · cases h; exact ⟨wf_canonOn _ _, ascending_canonOn _ _⟩
  · cases h

theorem coeff_integList (d : MPoly K) (k : ℤ) :
    coeff (d.map (fun kv => (kv.1 + 1, kv.2 / ofIntA (kv.1 + 1)))) k = coeff d (k - 1) / ofIntA k := by
  induction d with
  | nil => simp [coeff]
  | cons a t ih =>
    obtain ⟨k', c⟩ := a
    simp only [List.map_cons, coeff, ih]
    by_cases hk : k' + 1 = k
    · have hk' : k' = k - 1 := by omega
      simp [hk', add_div]
    · have hk' : ¬ k' = k - 1 := by omega
      simp [hk, hk']

/-- the model's `integrate` answers exactly when the specification does, with the specified terms -/
theorem integrate_eq_sInteg {p : MPoly K} (hp : WF p) :
    (∀ ip, integrate p = .ok ip → sInteg p = some (sortAsc ip)) ∧
      (integrate p = .error .value → sInteg p = none) := by
  constructor
  · intro ip h
    have hw := wf_integrate h
    unfold integrate at h
    split at h
    · cases h
    · rename_i hm
      cases h
      have hm' : (-1 : ℤ) ∉ keys p := fun e => hm (has_iff.2 e)
      have h0 : coeff p (-1) = 0 := coeff_eq_zero_of_not_mem hm'
      cases hs : sInteg p with
      | none => exact absurd h0 ((sInteg_eq_none_iff p).1 hs)
      | some s =>
        congr 1
        symm
        apply sortAsc_eq_of_toLaurent hw (canonical_sInteg hs).1 (canonical_sInteg hs).2
        have hn : (keys (p.map (fun kv => (kv.1 + 1, kv.2 / ofIntA (kv.1 + 1))))).Nodup := by
          have : keys (p.map (fun kv => (kv.1 + 1, kv.2 / ofIntA (kv.1 + 1)))) =
              (keys p).map (fun k => k + 1) := by
            simp [keys, List.map_map, Function.comp_def]
          rw [this]
          exact hp.1.map (fun a b e => by omega)
        rw [toLaurent_mk_of_nodup hn, toLaurent_eq_iff]
        intro k
        rw [coeff_integList, coeff_sInteg hs]
        split
        · rename_i hk; subst hk; simp [h0]
        · rfl
  · intro h
    rw [sInteg_eq_none_iff, coeff_eq_getD hp.1]
    have hm := (integrate_error_iff p).1 h
    obtain ⟨kv, hkv, hk⟩ := List.mem_map.1 hm
    have : find? p (-1) = some kv.2 := find?_of_mem hp.1 (by rw [← hk]; exact hkv)
    unfold getD
    rw [this]
    exact hp.2 kv hkv

/-! ### division by a monomial (a unit of the Laurent ring) -/

theorem toLaurent_sDivMono (p : MPoly K) (d : ℤ) (w : K) :
    toLaurent (sDivMono p d w) = toLaurent p * AddMonoidAlgebra.single (-d) w⁻¹ := by
  apply toLaurent_canonOn
  · intro k hk
    have : k + d ∉ keys p := by
      intro hm
      apply hk
      exact List.mem_map.2 ⟨k + d, hm, by ring⟩
    rw [coeff_eq_zero_of_not_mem this, zero_div]
  · intro k
    have : k = (k + d) + -d := by ring
    conv_lhs => rw [this]
    rw [AddMonoidAlgebra.coeff_mul_single_add, coeff_toLaurent, div_eq_mul_inv]

theorem divPoly_eq_sDivMono {p r : MPoly K} (hp : WF p) {d : ℤ} {w : K}
    (h : divPoly p [(d, w)] = .ok r) : sortAsc r = sDivMono p d w :=
  sortAsc_eq_of_toLaurent (wf_divPoly h) (wf_canonOn _ _) (ascending_canonOn _ _)
    ((toLaurent_divPoly hp.1 h).trans (toLaurent_sDivMono p d w).symm)

theorem divScalar_eq_sDivMono {p r : MPoly K} (hp : WF p) {c : K}
    (h : divScalar p c = .ok r) : sortAsc r = sDivMono p 0 c := by
  apply sortAsc_eq_of_toLaurent (wf_divScalar h) (wf_canonOn _ _) (ascending_canonOn _ _)
  show _ = toLaurent (sDivMono p 0 c)
  rw [toLaurent_divScalar hp.1 h, toLaurent_sDivMono, ← single_eq_C]
  simp

/-! ### `==` of the specification -/

theorem sEq_iff (p q : MPoly K) : sEq p q = true ↔ toLaurent p = toLaurent q := by
  unfold sEq
  rw [beq_iff_eq]
  constructor
  · intro h
    rw [← toLaurent_canon p, ← toLaurent_canon q, h]
  · intro h
    have h' : toLaurent (canon p) = toLaurent (canon q) := by
      rw [toLaurent_canon, toLaurent_canon, h]
    have := sortAsc_eq_of_toLaurent (wf_canonOn (keys p) (coeff p)) (wf_canonOn (keys q) (coeff q))
      (ascending_canonOn _ _) h'
    change canonOn (keys p) (coeff p) = canonOn (keys q) (coeff q)
    rw [← this]
    exact (sortAsc_of_ascending (ascending_canonOn _ _)).symm

theorem eq_eq_sEq {p q : MPoly K} (hp : WF p) (hq : WF q) : eq p q = sEq p q := by
  rw [Bool.eq_iff_iff, eq_iff_toLaurent hp hq, sEq_iff]

/-! ### integer powers -/

/-- `f^k` in the Laurent ring for an integer `k`: for `k < 0` the power of the inverse (`Ring.inverse`
is the inverse of a unit and `0` otherwise; the units that matter here are the monomials) -/
noncomputable def zpowL (f : K[T;T⁻¹]) (k : ℤ) : K[T;T⁻¹] :=
  if 0 ≤ k then f ^ k.toNat else Ring.inverse f ^ (-k).toNat

theorem zpowL_natCast (f : K[T;T⁻¹]) (n : ℕ) : zpowL f (n : ℤ) = f ^ n := by
  simp [zpowL]

/-- a non-zero monomial is a unit of `K[T;T⁻¹]` -/
noncomputable def monoUnit (d : ℤ) {c : K} (hc : c ≠ 0) : (K[T;T⁻¹])ˣ where
  val := AddMonoidAlgebra.single d c
  inv := AddMonoidAlgebra.single (-d) c⁻¹
  val_inv := by
    rw [AddMonoidAlgebra.single_mul_single, add_neg_cancel, mul_inv_cancel₀ hc]; rfl
  inv_val := by
    rw [AddMonoidAlgebra.single_mul_single, neg_add_cancel, inv_mul_cancel₀ hc]; rfl

theorem inverse_single (d : ℤ) {c : K} (hc : c ≠ 0) :
    Ring.inverse (AddMonoidAlgebra.single d c : K[T;T⁻¹]) = AddMonoidAlgebra.single (-d) c⁻¹ :=
  Ring.inverse_unit (monoUnit d hc)

theorem zpowL_single (d : ℤ) {c : K} (hc : c ≠ 0) (n : ℤ) :
    zpowL (AddMonoidAlgebra.single d c : K[T;T⁻¹]) n = AddMonoidAlgebra.single (d * n) (c ^ n) := by
  unfold zpowL
  split
  · rename_i h
    obtain ⟨m, rfl⟩ := Int.eq_ofNat_of_zero_le h
    rw [AddMonoidAlgebra.single_pow, zpow_natCast]
    have : m • d = d * (m : ℤ) := by rw [nsmul_eq_mul, mul_comm]
    simp only [Int.toNat_natCast, this]
  · rename_i h
    obtain ⟨m, hm⟩ := Int.exists_eq_neg_ofNat (le_of_lt (not_le.1 h))
    subst hm
    rw [inverse_single d hc, AddMonoidAlgebra.single_pow, zpow_neg, zpow_natCast, inv_pow]
    have : m • -d = d * -(m : ℤ) := by rw [nsmul_eq_mul]; ring
    simp only [neg_neg, Int.toNat_natCast, this]

/-- `zpowL` really is the inverse power: `f^(-m) · f^m = 1` for a monomial -/
theorem zpowL_neg_mul_pow (d : ℤ) {c : K} (hc : c ≠ 0) (m : ℕ) :
    zpowL (AddMonoidAlgebra.single d c : K[T;T⁻¹]) (-(m : ℤ)) * AddMonoidAlgebra.single d c ^ m = 1 := by
  rw [zpowL_single d hc, AddMonoidAlgebra.single_pow, AddMonoidAlgebra.single_mul_single]
  have h1 : d * -(m : ℤ) + m • d = 0 := by simp [mul_comm]
  have h2 : c ^ (-(m : ℤ)) * c ^ m = 1 := by
    rw [zpow_neg, zpow_natCast, inv_mul_cancel₀ (pow_ne_zero m hc)]
  rw [h1, h2]; rfl

/-- a canonical form with one term: the denoted Laurent polynomial is that (non-zero) monomial -/
theorem toLaurent_of_canon_single {p : MPoly K} {d : ℤ} {c : K} (h : canon p = [(d, c)]) :
    c ≠ 0 ∧ toLaurent p = AddMonoidAlgebra.single d c := by
  constructor
  · have := (wf_canonOn (keys p) (coeff p)).2 (d, c) (by rw [show canonOn (keys p) (coeff p) = canon p from rfl, h]; simp)
    exact this
  · rw [← toLaurent_canon p, h]; simp

theorem canonical_sPow (p : MPoly K) (n : ℕ) : WF (sPow p n) ∧ Ascending (sPow p n) := by
  cases n <;> exact ⟨wf_canonOn _ _, ascending_canonOn _ _⟩

/-- **`sPowZ` is the integer power of the Laurent ring** -/
theorem toLaurent_sPowZ {p r : MPoly K} {n : ℤ} (h : sPowZ p n = some r) :
    toLaurent r = zpowL (toLaurent p) n := by
  unfold sPowZ at h
  split at h
  · rename_i hn
    cases h
    rw [toLaurent_sPow]
    unfold zpowL
    rw [if_pos hn]
  · split at h
    · rename_i d c hc
      cases h
      obtain ⟨hc0, hp⟩ := toLaurent_of_canon_single hc
      rw [toLaurent_canon, hp, zpowL_single d hc0, powInt_eq]
      simp
    · cases h

theorem sPowZ_eq_none_iff (p : MPoly K) (n : ℤ) : sPowZ p n = none ↔ n < 0 ∧ (canon p).length ≠ 1 := by
  unfold sPowZ
  split
  · rename_i hn; simp; omega
  · rename_i hn
    split
    · rename_i d c hc; simp [hc]
    · rename_i hne
      simp only [true_iff]
      refine ⟨by omega, ?_⟩
      intro hl
      match hcp : canon p, hl with
      | [(d, c)], _ => exact hne d c hcp

theorem canonical_sPowZ {p r : MPoly K} {n : ℤ} (h : sPowZ p n = some r) : WF r ∧ Ascending r := by
  unfold sPowZ at h
  split at h
  · cases h; exact canonical_sPow _ _
  · split at h
    · cases h; exact ⟨wf_canonOn _ _, ascending_canonOn _ _⟩
    · cases h

/-- a well-formed Poly whose canonical form has one term IS that term -/
theorem eq_single_of_canon {p : MPoly K} (hp : WF p) {d : ℤ} {c : K} (h : canon p = [(d, c)]) :
    p = [(d, c)] := by
  have hs : sortAsc p = canon p :=
    sortAsc_eq_of_toLaurent hp (wf_canonOn _ _) (ascending_canonOn _ _) (toLaurent_canon p).symm
  have hperm := sortAsc_perm p
  rw [hs, h] at hperm
  exact List.perm_singleton.1 hperm.symm

/-- the model's `**` answers the specified power wherever the specification speaks (every natural
exponent; negative exponents of monomials) -/
theorem pow_eq_sPowZ {p r : MPoly K} (hp : WF p) {n : ℤ} (h : sPowZ p n = some r) :
    sortAsc (pow p n) = r := by
  apply sortAsc_eq_of_toLaurent (wf_pow hp n) (canonical_sPowZ h).1 (canonical_sPowZ h).2
  rw [toLaurent_sPowZ h]
  by_cases hn : 0 ≤ n
  · obtain ⟨m, rfl⟩ := Int.eq_ofNat_of_zero_le hn
    rw [toLaurent_pow, zpowL_natCast]
  · unfold sPowZ at h
    rw [if_neg hn] at h
    split at h
    · rename_i d c hc
      obtain ⟨hc0, hpl⟩ := toLaurent_of_canon_single hc
      have := eq_single_of_canon hp hc
      subst this
      rw [toLaurent_pow_mono, hpl, zpowL_single d hc0]
    · cases h

/-! ### composition -/

theorem toLaurent_perm' {p q : MPoly K} (h : p.Perm q) : toLaurent p = toLaurent q := by
  unfold toLaurent
  exact (h.map _).sum_eq

/-- the fold of `sComp` over a list of terms -/
theorem sComp_fold {q : MPoly K} (l : MPoly K) {r : MPoly K}
    (h : l.foldr (fun a acc => do
        let s ← acc
        let qk ← sPowZ q a.1
        pure (sAdd (sMul (sConst a.2) qk) s)) (some []) = some r) :
    toLaurent r = (l.map fun a => C a.2 * zpowL (toLaurent q) a.1).sum ∧
      ∀ a ∈ l, ∃ qk, sPowZ q a.1 = some qk := by
  induction l generalizing r with
  | nil =>
    simp only [List.foldr_nil, Option.some.injEq] at h
    subst h
    simp
  | cons a t ih =>
    rw [List.foldr_cons] at h
    cases hs : t.foldr (fun a acc => do
        let s ← acc
        let qk ← sPowZ q a.1
        pure (sAdd (sMul (sConst a.2) qk) s)) (some []) with
    | none => rw [hs] at h; simp at h
    | some s =>
      rw [hs] at h
      cases hq : sPowZ q a.1 with
      | none => rw [hq] at h; simp at h
      | some qk =>
        rw [hq] at h
        simp only [Option.bind_eq_bind, Option.bind_some, Option.pure_def, Option.some.injEq] at h
        subst h
        obtain ⟨ih1, ih2⟩ := ih hs
        refine ⟨?_, ?_⟩
        · rw [toLaurent_sAdd, toLaurent_sMul, toLaurent_sConst, toLaurent_sPowZ hq, ih1]
          simp
        · intro b hb
          rcases List.mem_cons.1 hb with rfl | hb
          · exact ⟨qk, hq⟩
          · exact ih2 b hb

/-- **`sComp` is substitution in the Laurent ring**: `p(q) = Σ c_k · q^k` over the canonical terms of `p`,
with integer powers (`zpowL`); it is defined iff every power it needs is. -/
theorem toLaurent_sComp {p q r : MPoly K} (h : sComp p q = some r) :
    toLaurent r = ((canon p).map fun a => C a.2 * zpowL (toLaurent q) a.1).sum ∧
      ∀ a ∈ canon p, ∃ qk, sPowZ q a.1 = some qk := sComp_fold (canon p) h

theorem canonical_sComp {p q r : MPoly K} (h : sComp p q = some r) : WF r ∧ Ascending r := by
  unfold sComp at h
  cases hc : canon p with
  | nil => rw [hc] at h; simp at h; subst h; exact ⟨wf_nil, by simp [Ascending, keys]⟩
  | cons a t =>
    rw [hc, List.foldr_cons] at h
    cases hs : t.foldr (fun a acc => do
        let s ← acc
        let qk ← sPowZ q a.1
        pure (sAdd (sMul (sConst a.2) qk) s)) (some []) with
    | none => rw [hs] at h; simp at h
    | some s =>
      rw [hs] at h
      cases hq : sPowZ q a.1 with
      | none => rw [hq] at h; simp at h
      | some qk =>
        rw [hq] at h
        simp only [Option.bind_eq_bind, Option.bind_some, Option.pure_def, Option.some.injEq] at h
        subst h
        exact ⟨wf_canonOn _ _, ascending_canonOn _ _⟩

/-- for a polynomial `p` the specification always speaks -/
theorem sComp_isSome_of_nonneg {p q : MPoly K} (hp : ∀ a ∈ canon p, 0 ≤ a.1) : (sComp p q).isSome = true := by
  unfold sComp
  generalize canon p = l at hp
  induction l with
  | nil => rfl
  | cons a t ih =>
    rw [List.foldr_cons]
    have := ih (fun b hb => hp b (List.mem_cons_of_mem _ hb))
    obtain ⟨s, hs⟩ := Option.isSome_iff_exists.1 this
    rw [hs]
    have h0 : 0 ≤ a.1 := hp a List.mem_cons_self
    simp [sPowZ, h0]

/-- the model's composition returns the specified Poly wherever the specification speaks -/
theorem compose_eq_sComp {p q r : MPoly K} (hp : WF p) (hq : WF q) (h : sComp p q = some r) :
    sortAsc (compose p q) = r := by
  obtain ⟨h1, h2⟩ := toLaurent_sComp h
  apply sortAsc_eq_of_toLaurent (wf_compose p q) (canonical_sComp h).1 (canonical_sComp h).2
  rw [toLaurent_compose, h1]
  have hs : sortAsc p = canon p :=
    sortAsc_eq_of_toLaurent hp (wf_canonOn _ _) (ascending_canonOn _ _) (toLaurent_canon p).symm
  have hperm : p.Perm (canon p) := by rw [← hs]; exact (sortAsc_perm p).symm
  rw [(hperm.map _).sum_eq]
  congr 1
  apply List.map_congr_left
  intro a ha
  obtain ⟨qk, hqk⟩ := h2 a ha
  have := pow_eq_sPowZ hq hqk
  have hl : toLaurent (pow q a.1) = toLaurent qk := by
    rw [← this]
    exact (toLaurent_perm' (sortAsc_perm _)).symm
  rw [hl, toLaurent_sPowZ hqk]

end ALV.C07
