/-
  C19 — the definitions regenerated from the source (`ALV.Gen.C19`, written by
  `harness/props/c19_tr.py`) equal the code shaped models.  Every proof here is re-checked against
  the regenerated file on every run; nothing depends on Mathlib.
-/
import ALV.Gen.C19Src
namespace ALV.C19
variable {α : Type}

theorem modChain_two (o : NumOps α) (a m : α) : modChain o a [m, m] = mod2G o a m := by
  simp only [modChain, mod2G]
  cases o.mod a m with
  | error e => rfl
  | ok r => simp only []; cases o.mod r m <;> rfl

theorem take_map_range_min {β : Type} (f : Nat → β) (k n : Nat) :
    List.take n ((List.range (min k n)).map f) = (List.range (min k n)).map f :=
  List.take_of_length_le (by simp; omega)

theorem map_const_range {β : Type} (s : β) (k : Nat) :
    (List.range k).map (fun _ => s) = List.replicate k s := by
  simp [List.map_const']

theorem whileG_const {σ : Type} (c : α) (st : σ) (n : Nat) :
    whileG (fun s : σ => Iter.yield c (.ok s)) n st = (List.replicate n c, none) := by
  induction n with
  | zero => rfl
  | succ k ih => simp [whileG, ih, rcons, List.replicate_succ]

/-- the guarded batch size, as the translator writes it -/
theorem runPre_steps (o : NumOps α) (m s : α) (k : Int → Run α) :
    runPre (if finiteG o (o.div m s) then o.trunc (o.div m s) else .ok 0) k = k (stepsNow o m s) := by
  unfold finiteG stepsNow runPre
  cases h : o.trunc (o.div m s) <;> simp

/-! ### the loops of `modulo_counter`: regenerated body under `forG` / `whileG` = recursive model loop -/

theorem loop_PSM (o : NumOps α) (k : Nat) (c lastp : α) (ps ms ss : List α) :
    forG (ALV.Gen.C19.mc_PSM o) k (c, lastp) (ps.zip (ms.zip ss)) = gPMS o k c lastp ps ms ss := by
  induction k generalizing c lastp ps ms ss with
  | zero => simp [forG, gPMS]
  | succ k ih =>
    rcases ps with _ | ⟨p, ps⟩ <;> rcases ms with _ | ⟨m, ms⟩ <;> rcases ss with _ | ⟨s, ss⟩ <;>
      simp only [forG, gPMS, List.zip_nil_left, List.zip_nil_right, List.zip_cons_cons]
    simp only [ALV.Gen.C19.mc_PSM, modChain_two, Iter.pre]
    cases mod2G o (o.add c (o.sub p lastp)) m with
    | error e => rfl
    | ok c1 => simp only [ih]

theorem loop_PSm (o : NumOps α) (m : α) (k : Nat) (c lastp : α) (ps ss : List α) :
    forG (ALV.Gen.C19.mc_PSm o m) k (c, lastp) (ps.zip ss) = gPS o m k c lastp ps ss := by
  induction k generalizing c lastp ps ss with
  | zero => simp [forG, gPS]
  | succ k ih =>
    rcases ps with _ | ⟨p, ps⟩ <;> rcases ss with _ | ⟨s, ss⟩ <;>
      simp only [forG, gPS, List.zip_nil_left, List.zip_nil_right, List.zip_cons_cons]
    simp only [ALV.Gen.C19.mc_PSm, modChain_two, Iter.pre]
    cases mod2G o (o.add c (o.sub p lastp)) m with
    | error e => rfl
    | ok c1 => simp only [ih]

theorem loop_PsM (o : NumOps α) (s : α) (k : Nat) (c lastp : α) (ps ms : List α) :
    forG (ALV.Gen.C19.mc_PsM o s) k (c, lastp) (ps.zip ms) = gPM o s k c lastp ps ms := by
  induction k generalizing c lastp ps ms with
  | zero => simp [forG, gPM]
  | succ k ih =>
    rcases ps with _ | ⟨p, ps⟩ <;> rcases ms with _ | ⟨m, ms⟩ <;>
      simp only [forG, gPM, List.zip_nil_left, List.zip_nil_right, List.zip_cons_cons]
    simp only [ALV.Gen.C19.mc_PsM, modChain_two, Iter.pre]
    cases mod2G o (o.add c (o.sub p lastp)) m with
    | error e => rfl
    | ok c1 => simp only [ih]

theorem loop_Psm0 (o : NumOps α) (m : α) (k : Nat) (ps : List α) :
    forG (ALV.Gen.C19.mc_Psm0 o m) k () ps = gP0 o m k ps := by
  induction k generalizing ps with
  | zero => simp [forG, gP0]
  | succ k ih =>
    rcases ps with _ | ⟨p, ps⟩ <;> simp only [forG, gP0]
    simp only [ALV.Gen.C19.mc_Psm0, modChain_two, Iter.pre]
    cases mod2G o p m with
    | error e => rfl
    | ok y => simp only [ih]

theorem loop_Psmxt (o : NumOps α) (m s : α) (steps : Int) (k : Nat) (c lastp : α) (n : Int) (ps : List α) :
    forG (ALV.Gen.C19.mc_Psmxt o m s steps) k (c, lastp, n) ps = gFastP o m s steps k c lastp n ps := by
  induction k generalizing c lastp n ps with
  | zero => simp [forG, gFastP]
  | succ k ih =>
    rcases ps with _ | ⟨p, ps⟩ <;> simp only [forG, gFastP]
    simp only [ALV.Gen.C19.mc_Psmxt, modChain_two, Iter.pre, post]
    cases mod2G o (o.add (o.add c (o.sub p lastp)) (o.mul (o.ofInt n) s)) m with
    | error e => rfl
    | ok y =>
      by_cases h : n + 1 = steps
      · simp only [h, if_true]
        cases mod2G o (o.add (o.add c (o.sub p lastp)) (o.mul (o.ofInt steps) s)) m with
        | error e => rfl
        | ok c2 => simp only [ih]
      · simp only [h, if_false, ih]

theorem loop_Psmxe (o : NumOps α) (m s : α) (k : Nat) (c lastp : α) (ps : List α) :
    forG (ALV.Gen.C19.mc_Psmxe o m s) k (c, lastp) ps = gP o m s k c lastp ps := by
  induction k generalizing c lastp ps with
  | zero => simp [forG, gP]
  | succ k ih =>
    rcases ps with _ | ⟨p, ps⟩ <;> simp only [forG, gP]
    simp only [ALV.Gen.C19.mc_Psmxe, modChain_two, Iter.pre]
    cases mod2G o (o.add c (o.sub p lastp)) m with
    | error e => rfl
    | ok c1 => simp only [ih]

theorem loop_pSM (o : NumOps α) (k : Nat) (c : α) (ms ss : List α) :
    forG (ALV.Gen.C19.mc_pSM o) k c (ms.zip ss) = gMS o k c ms ss := by
  induction k generalizing c ms ss with
  | zero => simp [forG, gMS]
  | succ k ih =>
    rcases ms with _ | ⟨m, ms⟩ <;> rcases ss with _ | ⟨s, ss⟩ <;>
      simp only [forG, gMS, List.zip_nil_left, List.zip_nil_right, List.zip_cons_cons]
    simp only [ALV.Gen.C19.mc_pSM, modChain_two, Iter.pre]
    cases mod2G o c m with
    | error e => rfl
    | ok c1 => simp only [ih]

theorem loop_pSm (o : NumOps α) (m : α) (k : Nat) (c : α) (ss : List α) :
    forG (ALV.Gen.C19.mc_pSm o m) k c ss = gS o m k c ss := by
  induction k generalizing c ss with
  | zero => simp [forG, gS]
  | succ k ih =>
    rcases ss with _ | ⟨s, ss⟩ <;> simp only [forG, gS]
    simp only [ALV.Gen.C19.mc_pSm, modChain_two, Iter.pre]
    cases mod2G o c m with
    | error e => rfl
    | ok c1 => simp only [ih]

theorem loop_psM (o : NumOps α) (s : α) (k : Nat) (c : α) (ms : List α) :
    forG (ALV.Gen.C19.mc_psM o s) k c ms = gM o s k c ms := by
  induction k generalizing c ms with
  | zero => simp [forG, gM]
  | succ k ih =>
    rcases ms with _ | ⟨m, ms⟩ <;> simp only [forG, gM]
    simp only [ALV.Gen.C19.mc_psM, modChain_two, Iter.pre]
    cases mod2G o c m with
    | error e => rfl
    | ok c1 => simp only [ih]

theorem loop_psmxt (o : NumOps α) (m s : α) (steps : Int) (k : Nat) (c : α) (n : Int) :
    whileG (ALV.Gen.C19.mc_psmxt o m s steps) k (n, c) = gFastN o m s steps k c n := by
  induction k generalizing c n with
  | zero => simp [whileG, gFastN]
  | succ k ih =>
    simp only [whileG, gFastN]
    simp only [ALV.Gen.C19.mc_psmxt, modChain_two, Iter.pre, post]
    cases mod2G o (o.add c (o.mul (o.ofInt n) s)) m with
    | error e => rfl
    | ok y =>
      by_cases h : n + 1 = steps
      · simp only [h, if_true]
        cases mod2G o (o.add c (o.mul (o.ofInt steps) s)) m with
        | error e => rfl
        | ok c2 => simp only [ih]
      · simp only [h, if_false, ih]

theorem loop_psmxe (o : NumOps α) (m s : α) (k : Nat) (c : α) :
    whileG (ALV.Gen.C19.mc_psmxe o m s) k c = gN o m s k c := by
  induction k generalizing c with
  | zero => simp [whileG, gN]
  | succ k ih =>
    simp only [whileG, gN]
    simp only [ALV.Gen.C19.mc_psmxe, modChain_two, Iter.pre]
    cases mod2G o c m with
    | error e => rfl
    | ok c1 => simp only [ih]

/-! ### whole functions -/

theorem gen_modulo_counter (o : NumOps α) (start modulo step : Arg α) (n : Nat) :
    ALV.Gen.C19.modulo_counter o start modulo step n = mcNow o start modulo step n := by
  rcases start with a | ps <;> rcases step with s | ss <;> rcases modulo with m | ms <;>
    simp only [ALV.Gen.C19.modulo_counter, mcNow, loop_PSM, loop_PSm, loop_PsM, loop_Psm0, loop_Psmxt,
      loop_Psmxe, loop_pSM, loop_pSm, loop_psM, loop_psmxt, loop_psmxe, runPre_steps]
  -- left: all three numbers, where the `step == 0` shortcut reduces `start` once
  by_cases h0 : o.isZero s = true
  · simp only [h0, if_true, modChain_two, runPre, takeRun]
    cases mod2G o a m with
    | error e => rfl
    | ok c => simp
  · simp only [h0]
    rfl

theorem gen_line (o : NumOps α) (dur b e : α) (fin : Bool) (n : Nat) :
    ALV.Gen.C19.line o dur b e fin n = lineG o dur b e fin n := by
  simp only [ALV.Gen.C19.line, lineG, runPre, takeRun, rangeG]
  cases o.trunc (o.add dur o.half) with
  | error x => rfl
  | ok k => cases h : o.isZero (o.sub dur (if fin then o.one else o.zero)) <;> simp [take_map_range_min]

theorem gen_adsr (o : NumOps α) (dur a d s r : α) (n : Nat) :
    ALV.Gen.C19.adsr o dur a d s r n = adsrG o dur a d s r n := by
  simp only [ALV.Gen.C19.adsr, adsrG, runPre, takeRun, rangeG, slopeG]
  cases o.trunc (o.add a o.half) <;> cases o.trunc (o.add d o.half) <;> cases o.trunc (o.add r o.half) <;>
    cases o.trunc (o.add dur o.half) <;> try rfl
  cases o.isZero a <;> cases o.isZero d <;> cases o.isZero r <;> simp [map_const_range]

theorem gen_attack (o : NumOps α) (a d : α) (s : Arg α) (n : Nat) :
    ALV.Gen.C19.attack o a d s n = attackNow o a d s n := by
  rcases s with x | xs
  · simp only [ALV.Gen.C19.attack, attackNow, attackG, runPre, takeRun, rangeG, slopeG]
    cases o.trunc (o.add a o.half) <;> cases o.trunc (o.add d o.half) <;> try rfl
    cases o.isZero a <;> cases o.isZero d <;> simp
  · rcases xs with _ | ⟨x, xs⟩
    · rfl
    · simp only [ALV.Gen.C19.attack, attackNow, attackG, nextOr, runPre, takeRun, rangeG, slopeG, List.head?]
      cases o.trunc (o.add a o.half) <;> cases o.trunc (o.add d o.half) <;> try rfl
      cases o.isZero a <;> cases o.isZero d <;> simp

/-! ### `ones` / `zeros` / `impulse`: the optional duration, the fall-through `while True` -/

theorem gen_const_some (o : NumOps α) (v d : α) (n : Nat) :
    (if (o.isInf d && o.lt o.zero d) = true then takeRun n (List.replicate n v)
      else runPre (o.trunc (o.add o.half d)) fun t0 => takeRun n (rangeG t0 n (fun (_ : Nat) => v)))
    = constG o v (some d) n := by
  simp only [constG, endlessG, runPre, takeRun, rangeG]
  by_cases h : (o.isInf d && o.lt o.zero d) = true
  · simp [h]
  · simp only [h]
    cases o.trunc (o.add o.half d) with
    | error x => rfl
    | ok k => simp [map_const_range, Nat.min_comm]

theorem gen_ones (o : NumOps α) (dur : Option α) (n : Nat) :
    ALV.Gen.C19.ones o dur n = constG o o.one dur n := by
  rcases dur with _ | d
  · simp [ALV.Gen.C19.ones, constG, takeRun]
  · simp only [ALV.Gen.C19.ones, gen_const_some]

theorem gen_zeros (o : NumOps α) (dur : Option α) (n : Nat) :
    ALV.Gen.C19.zeros o dur n = constG o o.zero dur n := by
  rcases dur with _ | d
  · simp [ALV.Gen.C19.zeros, constG, takeRun]
  · simp only [ALV.Gen.C19.zeros, gen_const_some]

theorem take_cons_replicate {β : Type} (a b : β) (n : Nat) :
    List.take n ([a] ++ List.replicate n b) = List.take n (a :: List.replicate (n - 1) b) := by
  cases n with
  | zero => rfl
  | succ k => simp [List.take_replicate]

theorem gen_impulse {β : Type} (o : NumOps α) (dur : Option α) (one zero : β) (n : Nat) :
    ALV.Gen.C19.impulse o dur one zero n = impulseG o dur one zero n := by
  rcases dur with _ | d
  · simp only [ALV.Gen.C19.impulse, impulseG, takeRun, take_cons_replicate]
  · simp only [ALV.Gen.C19.impulse, impulseG, endlessG, runPre, takeRun, rangeG, take_cons_replicate]
    by_cases h : (o.isInf d && o.lt o.zero d) = true
    · simp only [h, if_true]
    · simp only [h]
      by_cases h2 : o.le o.half d = true
      · simp only [h2, if_true]
        cases o.trunc (o.sub d o.half) with
        | error x => rfl
        | ok k => simp [map_const_range]
      · simp [h2]

theorem gen_sinusoid {β : Type} (o : NumOps α) (sin : α → β) (twoPi : α) (freq phase : Arg α) (n : Nat) :
    ALV.Gen.C19.sinusoid o sin twoPi freq phase n = sinusoidNow o sin twoPi freq phase n := by
  simp only [ALV.Gen.C19.sinusoid, sinusoidNow, gen_modulo_counter]

/-! ### `TableLookup.__call__` -/

theorem gen_table_sample (o : NumOps α) (tbl : List α) (idx : α) :
    (bindE (o.trunc idx) fun t0 =>
     bindE (indexG tbl t0) fun t1 =>
     bindE (o.trunc idx) fun t2 =>
     bindE (o.ceil idx) fun t3 =>
     bindE (indexG tbl (t3 - (tbl.length : Int))) fun t4 =>
     bindE (o.trunc idx) fun t5 =>
     (.ok (o.add (o.mul t1 (o.sub o.one (o.sub idx (o.ofInt t2)))) (o.mul t4 (o.sub idx (o.ofInt t5))))
       : Except String α))
    = lookupAtNow o tbl idx := by
  unfold lookupAtNow
  cases h : o.trunc idx with
  | error x => rfl
  | ok i =>
    simp only [bindE, indexG]
    cases pyIndex tbl i with
    | none => rfl
    | some x =>
      simp only []
      cases o.ceil idx with
      | error e => rfl
      | ok c =>
        simp only []
        cases pyIndex tbl (c - (tbl.length : Int)) <;> rfl

theorem gen_table_call (o : NumOps α) (tbl : List α) (den : α) (freq phase : Arg α) (n : Nat) :
    ALV.Gen.C19.table_call o tbl den freq phase n = tableCallNow o tbl den freq phase n := by
  simp only [ALV.Gen.C19.table_call, tableCallNow, gen_modulo_counter, mapRunG, gen_table_sample]

theorem gen_table_getitem (o : NumOps α) (floor : α → Except String Int) (tbl : List α) (idx : α) :
    ALV.Gen.C19.table_getitem o floor tbl idx = getItemNow o floor tbl idx := by
  simp only [ALV.Gen.C19.table_getitem, getItemNow, bindE, indexG, intModG]
  cases floor idx with
  | error e => rfl
  | ok left =>
    simp only []
    by_cases hL : (tbl.length : Int) = 0
    · simp only [hL, if_true]
    · simp only [hL, if_false]
      cases pyIndex tbl (left.fmod (tbl.length : Int)) with
      | none => rfl
      | some x =>
        simp only []
        cases o.ceil idx with
        | error e => rfl
        | ok c =>
          simp only []
          cases pyIndex tbl (c.fmod (tbl.length : Int)) <;> rfl

/-- where `ceil` raises nothing when `int()` raises nothing (exact numbers; binary64), Python's order of
    evaluation and the order of `lookupAtG` give the same sample or the same exception -/
theorem lookupAtNow_eq_G (o : NumOps α) (tbl : List α) (idx : α)
    (hc : ∀ i, o.trunc idx = .ok i → ∃ c, o.ceil idx = .ok c) :
    lookupAtNow o tbl idx = lookupAtG o tbl idx := by
  unfold lookupAtNow lookupAtG
  cases h : o.trunc idx with
  | error x => cases o.ceil idx <;> rfl
  | ok i =>
    obtain ⟨c, hc'⟩ := hc i h
    simp only [hc']
    cases pyIndex tbl i <;> cases pyIndex tbl (c - (tbl.length : Int)) <;> rfl

theorem mapRun_congr {β : Type} (f g : α → Except String β) (h : ∀ x, f x = g x) (xs : List α) (e : Option String) :
    mapRun f xs e = mapRun g xs e := by
  have : f = g := funext h
  rw [this]

/-! ### today's code against the models of the code before the repairs D28 / D23 -/


/-- where `int(modulo / step)` raises nothing (every exact number type; binary64 unless the quotient
    overflows), today's `modulo_counter` is `mcG` -/
theorem mcNow_eq_mcG (o : NumOps α) (start modulo step : Arg α) (n : Nat)
    (h : ∀ m s, modulo = .num m → step = .num s → o.isZero s = false → ∃ k, o.trunc (o.div m s) = .ok k) :
    mcNow o start modulo step n = mcG o start modulo step n := by
  rcases start with a | ps <;> rcases step with s | ss <;> rcases modulo with m | ms <;>
    simp only [mcNow, mcG]
  all_goals
    by_cases h0 : o.isZero s = true
    · simp only [h0, if_true]
      try rfl
    · have h0' : o.isZero s = false := by simpa using h0
      obtain ⟨k, hk⟩ := h m s rfl rfl h0'
      simp only [h0', stepsNow, hk]
      try rfl

/-- D28 as repaired: when `int(modulo / step)` raises, the all-numbers call runs the plain loop -/
theorem mcNow_overflow_plain (o : NumOps α) (a m s : α) (n : Nat) (e : String)
    (hs : o.isZero s = false) (he : o.trunc (o.div m s) = .error e) :
    mcNow o (.num a) (.num m) (.num s) n = gN o m s n a := by
  simp [mcNow, hs, stepsNow, he]

/-- today's `TableLookup.__call__` is `tableCallG` where `int(modulo / step)` raises nothing and `ceil` raises
    nothing when `int()` raises nothing -/
theorem tableCallNow_eq_G (o : NumOps α) (tbl : List α) (den : α) (freq phase : Arg α) (n : Nat)
    (hc : ∀ idx i, o.trunc idx = .ok i → ∃ c, o.ceil idx = .ok c)
    (hm : ∀ m s, o.isZero s = false → ∃ k, o.trunc (o.div m s) = .ok k) :
    tableCallNow o tbl den freq phase n = (tableCallG o tbl den freq phase n).1 := by
  simp only [tableCallNow, tableCallG]
  rw [mcNow_eq_mcG o _ _ _ n (fun m s _ _ h0 => hm m s h0)]
  exact mapRun_congr _ _ (fun idx => lookupAtNow_eq_G o tbl idx (hc idx)) _ _

end ALV.C19
