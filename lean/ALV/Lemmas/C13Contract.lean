/-
  C13 — what it means for a real filter to meet a `Contract` record (the record the driver returns
  as `spec` and the harness checks on the implementation).
-/
import ALV.Lemmas.C13Complex

set_option linter.unusedSimpArgs false

namespace ALV.C13
open ALV

/-- `s` meets the contract `c`: every promised value is attained, and `s` is stable. -/
def Meets (s : Coefs ℝ) (c : Contract ℝ) : Prop :=
  (∀ g ∈ c.dc, dcGain s = g) ∧
  (∀ g ∈ c.nyquist, nyquistGain s = g) ∧
  (∀ pt ∈ c.points, magSq s pt.1 = pt.2) ∧
  (∀ pt ∈ c.cosPoints, ∀ ω : ℝ, Real.cos ω = pt.1 → magSq s ω = pt.2) ∧
  (∀ r ∈ c.poleRadius, ∀ p : ℂ, IsPole s p → ‖p‖ = r) ∧
  (∀ pk ∈ c.peak, ∀ ω : ℝ, magSq s ω ≤ pk) ∧
  (c.mono = -1 → StrictAntiOn (fun ω => magSq s ω) (Set.Icc 0 Real.pi)) ∧
  (c.mono = 1 → StrictMonoOn (fun ω => magSq s ω) (Set.Icc 0 Real.pi)) ∧
  (∀ p : ℂ, IsPole s p → ‖p‖ < 1)

/-- a gammatone section: unit gain at `f`, all poles of modulus `A < 1` -/
theorem meets_section_radius (s : Coefs ℝ) (f bw : ℝ) (hg : magSq s f = 1)
    (hr : ∀ p : ℂ, IsPole s p → ‖p‖ = Real.exp (-bw)) (hA : Real.exp (-bw) < 1) :
    Meets s (gammatoneSectionContract f bw true) := by
  refine ⟨?_, ?_, ?_, ?_, ?_, ?_, ?_, ?_, fun p hp => by rw [hr p hp]; exact hA⟩ <;>
    simp [gammatoneSectionContract, hg]
  exact hr

/-- a gammatone section: unit gain at `f`, stable -/
theorem meets_section_stable (s : Coefs ℝ) (f bw : ℝ) (hg : magSq s f = 1)
    (hst : ∀ p : ℂ, IsPole s p → ‖p‖ < 1) :
    Meets s (gammatoneSectionContract f bw false) := by
  refine ⟨?_, ?_, ?_, ?_, ?_, ?_, ?_, ?_, hst⟩ <;> simp [gammatoneSectionContract, hg]

end ALV.C13
