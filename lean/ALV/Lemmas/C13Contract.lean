/-
  C13 — what it means for a real filter to meet a `Contract` record (the record the driver returns
  as `spec` and the harness checks on the implementation).
-/
import ALV.Lemmas.C13Complex
import ALV.Model.C13Hist

set_option linter.unusedSimpArgs false

namespace ALV.C13
open ALV

/-- `s` meets the contract `c`: every promised value is attained, and `s` is stable. -/
def Meets (s : Coefs ℝ) (c : Contract ℝ) : Prop :=
  (∀ g ∈ c.dc, dcGain s = g) ∧
  (∀ g ∈ c.nyquist, nyquistGain s = g) ∧
  (∀ pt ∈ c.points, magSq s pt.1 = pt.2) ∧
  (∀ pt ∈ c.cosPoints, ∀ ω : ℝ, Real.cos ω = pt.1 → magSq s ω = pt.2) ∧
  (∀ r ∈ c.poleRadius, ∀ p : ℂ, IsPole s p → ‖p‖ = r) ∧
  (∀ pk ∈ c.peak, ∀ ω : ℝ, magSq s ω ≤ pk) ∧
  (c.mono = -1 → StrictAntiOn (fun ω => magSq s ω) (Set.Icc 0 Real.pi)) ∧
  (c.mono = 1 → StrictMonoOn (fun ω => magSq s ω) (Set.Icc 0 Real.pi)) ∧
  (∀ p : ℂ, IsPole s p → ‖p‖ < 1)

/-- a gammatone section: unit gain at `f`, all poles of modulus `A < 1` -/
theorem meets_section_radius (s : Coefs ℝ) (f bw : ℝ) (hg : magSq s f = 1)
    (hr : ∀ p : ℂ, IsPole s p → ‖p‖ = Real.exp (-bw)) (hA : Real.exp (-bw) < 1) :
    Meets s (gammatoneSectionContract f bw true) := by
  refine ⟨?_, ?_, ?_, ?_, ?_, ?_, ?_, ?_, fun p hp => by rw [hr p hp]; exact hA⟩ <;>
    simp [gammatoneSectionContract, hg]
  exact hr

/-- a gammatone section: unit gain at `f`, stable -/
theorem meets_section_stable (s : Coefs ℝ) (f bw : ℝ) (hg : magSq s f = 1)
    (hst : ∀ p : ℂ, IsPole s p → ‖p‖ < 1) :
    Meets s (gammatoneSectionContract f bw false) := by
  refine ⟨?_, ?_, ?_, ?_, ?_, ?_, ?_, ?_, hst⟩ <;> simp [gammatoneSectionContract, hg]

/-! ### per design kind (histories, `ALV/Model/C13Hist.lean`) -/

/-- the parameter ranges of the property, per kind (`v1` = cut-off / centre frequency, resp. the
comb's alpha / tau; `v2` = bandwidth) -/
def ParOK : Kind → ℝ → ℝ → Prop
  | .lowpass _, v1, _ => 0 < v1 ∧ v1 < Real.pi
  | .highpass _, v1, _ => 0 < v1 ∧ v1 < Real.pi
  | .resonator st, v1, v2 => 0 < v1 ∧ v1 < Real.pi ∧ 0 < v2 ∧
      (st = .zExp → |Real.cos v1| * (1 + Real.exp (-(v2 / 2)) ^ 2) ≤ 2 * Real.exp (-(v2 / 2)))
  | .klapuri, v1, v2 => 0 < v1 ∧ v1 < Real.pi ∧ 0 < v2
  | _, _, _ => True

/-- what the sections of an instant must satisfy, per kind: the contract record of the constant
design (sections 1–7, 10); for the combs: being the comb of the drawn alpha / tau, whose
difference equation is section 6. -/
def KindMeets : Kind → ℝ → ℝ → List (Coefs ℝ) → Prop
  | .lowpass st, v1, _, secs => ∀ s ∈ secs, Meets s (lowpassSpec st v1)
  | .highpass st, v1, _, secs => ∀ s ∈ secs, Meets s (highpassSpec st v1)
  | .resonator st, v1, v2, secs => ∀ s ∈ secs, Meets s (resonatorSpec st v1 v2)
  | .klapuri, v1, v2, secs => ∀ s ∈ secs, Meets s (gammatoneSectionContract v1 v2 false)
  | .combFb d, v1, _, secs => secs = [combFb d v1]
  | .combTau d, v1, _, secs => secs = [combFb d (Real.exp (-(d : ℝ) / v1))]
  | .combFf d, v1, _, secs => secs = [combFf d v1]

end ALV.C13
