/-
  C17 — lock ownership: who can hold which lock, as a function of the program counters; from it
  the lock order `halting < thread lock < manager lock`.  Core Lean only.
-/
import ALV.Lemmas.C17Struct
namespace ALV.C17

/-- ownership invariant -/
structure LK (s : State) : Prop where
  hlO : ∀ t, s.hlock = some t → t = .main ∧ closeBody s.mpc = true
  mlM : s.mlock = some .main → mainHoldsM s.mpc = true
  mlP : ∀ i, s.mlock = some (.player i) → pcAt s i = some .tfRel
  tl : ∀ (i : Nat) (p : Player), s.players[i]? = some p → ∀ t, p.lk = some t →
        (t = .main ∧ mainHoldsT s.mpc i = true) ∨ (t = .player i ∧ selfHold p.pc = true)

theorem lk_init (script : List Cmd) : LK (init script) := by
  constructor <;> simp [init]

theorem tl_set {s : State} {i : Nat} {p p' : Player} (m' : MPc)
    (hp : s.players[i]? = some p)
    (old : ∀ (k : Nat) (q : Player), s.players[k]? = some q → ∀ t, q.lk = some t →
      (t = .main ∧ mainHoldsT s.mpc k = true) ∨ (t = .player k ∧ selfHold q.pc = true))
    (hm : ∀ k, k ≠ i → mainHoldsT s.mpc k = true → mainHoldsT m' k = true)
    (hi : ∀ t, p'.lk = some t →
      (t = .main ∧ mainHoldsT m' i = true) ∨ (t = .player i ∧ selfHold p'.pc = true)) :
    ∀ (k : Nat) (q : Player), (s.players.set i p')[k]? = some q → ∀ t, q.lk = some t →
      (t = .main ∧ mainHoldsT m' k = true) ∨ (t = .player k ∧ selfHold q.pc = true) := by
  intro k q hk
  rw [List.getElem?_set] at hk
  split at hk
  · split at hk
    · cases hk; subst_vars; exact hi
    · cases hk
  · rename_i hne
    intro t ht
    rcases old k q hk t ht with ⟨h1, h2⟩ | h
    · exact Or.inl ⟨h1, hm k (fun e => hne e.symm) h2⟩
    · exact Or.inr h

set_option maxHeartbeats 1600000 in
theorem lk_stepPlayer (cfg : Cfg) (s s' : State) (i : Nat) (h : stepPlayer cfg s i = some s')
    (inv : LK s) : LK s' := by
  obtain ⟨l1, l2, l3, l4⟩ := inv
  unfold stepPlayer at h
  split at h
  · cases h
  · rename_i p hp
    have hpc := pcAt_of_get hp
    have hl4 := l4 i p hp
    have hlt := lt_of_getElem? hp
    have hml : ∀ j, s.mlock = some (.player j) → p.pc ≠ .tfRel → j ≠ i := by
      intro j hj hne e; subst e
      have := l3 j hj; rw [hpc] at this; simp at this; exact hne this
    simp only at h
    cases hpcv : p.pc <;> simp only [hpcv] at h <;> (try split at h) <;> (try cases h) <;> (try split at h) <;> (try cases h) <;>
    (refine ⟨?_, ?_, ?_, ?_⟩
     · simpa [setP] using l1
     · simp_all [setP]
     · first
         | (intro j hj; simp_all [setP, pcAt, pcAt_set hp]; done)
         | (intro j hj
            have hji : i = j := by simpa [setP] using hj
            subst hji
            simp [pcAt, setP, List.getElem?_set, hlt])
     · simp only [setP]
       refine tl_set s.mpc hp l4 (fun _ _ h => h) ?_
       first | (simp_all [selfHold]; done) | (intro t ht; right; by_cases hin : i ∈ s.threads <;> simp_all [selfHold]))

theorem pcAt_nextCmd (X : State) (sc : List Cmd) (i : Nat) : pcAt (nextCmd X sc) i = pcAt X i := by
  unfold pcAt; rw [nextCmd_players]

/-- the control script moves on to its next call holding no lock -/
theorem lk_nextCmd (X : State) (sc : List Cmd)
    (h1 : ∀ t, X.hlock ≠ some t) (h2 : X.mlock ≠ some .main)
    (h3 : ∀ i, X.mlock = some (.player i) → pcAt X i = some .tfRel)
    (h4 : ∀ (i : Nat) (p : Player), X.players[i]? = some p → ∀ t, p.lk = some t →
        t = .player i ∧ selfHold p.pc = true) : LK (nextCmd X sc) := by
  constructor
  · intro t ht; rw [nextCmd_hlock] at ht; exact absurd ht (h1 t)
  · intro hm; rw [nextCmd_mlock] at hm; exact absurd hm h2
  · intro i hi; rw [nextCmd_mlock] at hi; rw [pcAt_nextCmd]; exact h3 i hi
  · intro i p hp t ht; rw [nextCmd_players] at hp; exact Or.inr (h4 i p hp t ht)


theorem lk_main_pGoSet (cfg : Cfg) (s s' : State) (i : Nat) (hm : s.mpc = .pGoSet i) (h : stepMain cfg s = some s')
    (si : SI s) (inv : LK s) : LK s' := by
  obtain ⟨l1, l2, l3, l4⟩ := inv
  unfold stepMain at h
  simp only [hm] at h
  split at h
  · rename_i p hp
    cases h
    have hpc := pcAt_of_get hp
    have hnew : p.pc = .new := by
      have := si.g.creat i (by rw [hm]; rfl); rw [hpc] at this; simpa using this
    refine ⟨?_, ?_, ?_, ?_⟩
    · intro t ht; have := l1 t (by simpa [setP] using ht); simp_all [closeBody]
    · simp_all [mainHoldsM, setP]
    · intro j hj
      have hj' : s.mlock = some (.player j) := by simpa [setP] using hj
      have := l3 j hj'
      simp only [setP]
      rw [pcAt_players_set (s := s) (p' := { p with go := true }) rfl hp j]
      split
      · subst_vars; rw [hpc] at this; simp_all
      · exact this
    · simp only [setP]
      have hold := l4 i p hp
      refine tl_set (.pOpen i) hp l4 ?_ ?_
      · intro k hk hh; simp_all [mainHoldsT]
      · intro t ht; simp_all [mainHoldsT, selfHold]
  · cases h

theorem lk_main_pOpen (cfg : Cfg) (s s' : State) (i : Nat) (hm : s.mpc = .pOpen i) (h : stepMain cfg s = some s')
    (si : SI s) (inv : LK s) : LK s' := by
  obtain ⟨l1, l2, l3, l4⟩ := inv
  unfold stepMain at h
  simp only [hm] at h
  split at h
  · rename_i p hp
    cases h
    have hpc := pcAt_of_get hp
    have hnew : p.pc = .new := by
      have := si.g.creat i (by rw [hm]; rfl); rw [hpc] at this; simpa using this
    refine ⟨?_, ?_, ?_, ?_⟩
    · intro t ht; have := l1 t (by simpa [setP] using ht); simp_all [closeBody]
    · simp_all [mainHoldsM, setP]
    · intro j hj
      have hj' : s.mlock = some (.player j) := by simpa [setP] using hj
      have := l3 j hj'
      simp only [setP]
      rw [pcAt_players_set (s := s) (p' := { p with sst := .active }) rfl hp j]
      split
      · subst_vars; rw [hpc] at this; simp_all
      · exact this
    · simp only [setP]
      have hold := l4 i p hp
      refine tl_set (.pStart i) hp l4 ?_ ?_
      · intro k hk hh; simp_all [mainHoldsT]
      · intro t ht; simp_all [mainHoldsT, selfHold]
  · cases h

theorem lk_main_pStart (cfg : Cfg) (s s' : State) (i : Nat) (hm : s.mpc = .pStart i) (h : stepMain cfg s = some s')
    (si : SI s) (inv : LK s) : LK s' := by
  obtain ⟨l1, l2, l3, l4⟩ := inv
  unfold stepMain at h
  simp only [hm] at h
  split at h
  · rename_i p hp
    cases h
    have hpc := pcAt_of_get hp
    have hnew : p.pc = .new := by
      have := si.g.creat i (by rw [hm]; rfl); rw [hpc] at this; simpa using this
    refine ⟨?_, ?_, ?_, ?_⟩
    · intro t ht; have := l1 t (by simpa [setP] using ht); simp_all [closeBody]
    · simp_all [mainHoldsM, setP]
    · intro j hj
      have hj' : s.mlock = some (.player j) := by simpa [setP] using hj
      have := l3 j hj'
      simp only [setP]
      rw [pcAt_players_set (s := s) (p' := { p with pc := .begin }) rfl hp j]
      split
      · subst_vars; rw [hpc] at this; simp_all
      · exact this
    · simp only [setP]
      have hold := l4 i p hp
      refine tl_set (.pRel) hp l4 ?_ ?_
      · intro k hk hh; simp_all [mainHoldsT]
      · intro t ht; simp_all [mainHoldsT, selfHold]
  · cases h

theorem lk_main_cAcq (cfg : Cfg) (s s' : State) (c : Ctl) (i : Nat) (hm : s.mpc = .cAcq c i) (h : stepMain cfg s = some s')
    (si : SI s) (inv : LK s) : LK s' := by
  obtain ⟨l1, l2, l3, l4⟩ := inv
  unfold stepMain at h
  simp only [hm] at h
  split at h
  · rename_i p hp
    split at h
    · cases h
    cases h
    have hpc := pcAt_of_get hp
    refine ⟨?_, ?_, ?_, ?_⟩
    · intro t ht; have := l1 t (by simpa [setP] using ht); simp_all [closeBody]
    · simp_all [mainHoldsM, setP]
    · intro j hj
      have hj' : s.mlock = some (.player j) := by simpa [setP] using hj
      have := l3 j hj'
      simp only [setP]
      rw [pcAt_players_set (s := s) (p' := { p with lk := some .main, halting := p.halting || (c == .stop) }) rfl hp j]
      split
      · subst_vars; rw [hpc] at this; simp_all
      · exact this
    · simp only [setP]
      have hold := l4 i p hp
      refine tl_set (.cEvt c i) hp l4 ?_ ?_
      · intro k hk hh; simp_all [mainHoldsT]
      · intro t ht; simp_all [mainHoldsT, selfHold]
  · cases h

theorem lk_main_cEvt (cfg : Cfg) (s s' : State) (c : Ctl) (i : Nat) (hm : s.mpc = .cEvt c i) (h : stepMain cfg s = some s')
    (si : SI s) (inv : LK s) : LK s' := by
  obtain ⟨l1, l2, l3, l4⟩ := inv
  unfold stepMain at h
  simp only [hm] at h
  split at h
  · rename_i p hp
    cases h
    have hpc := pcAt_of_get hp
    refine ⟨?_, ?_, ?_, ?_⟩
    · intro t ht; have := l1 t (by simpa [setP] using ht); simp_all [closeBody]
    · simp_all [mainHoldsM, setP]
    · intro j hj
      have hj' : s.mlock = some (.player j) := by simpa [setP] using hj
      have := l3 j hj'
      simp only [setP]
      rw [pcAt_players_set (s := s) (p' := { p with go := ctlGo cfg c }) rfl hp j]
      split
      · subst_vars; rw [hpc] at this; simp_all
      · exact this
    · simp only [setP]
      have hold := l4 i p hp
      refine tl_set (.cRel c i) hp l4 ?_ ?_
      · intro k hk hh; simp_all [mainHoldsT]
      · intro t ht; simp_all [mainHoldsT, selfHold]
  · cases h

theorem lk_main_cRel (cfg : Cfg) (s s' : State) (c : Ctl) (i : Nat) (hm : s.mpc = .cRel c i) (h : stepMain cfg s = some s')
    (si : SI s) (inv : LK s) : LK s' := by
  obtain ⟨l1, l2, l3, l4⟩ := inv
  unfold stepMain at h
  simp only [hm] at h
  split at h
  · rename_i p hp
    cases h
    have hpc := pcAt_of_get hp
    unfold State.next
    apply lk_nextCmd
    · intro t ht; have := l1 t (by simpa [setP] using ht); simp_all [closeBody]
    · intro hh; simp_all [setP, mainHoldsM]
    · intro j hj
      have hj' : s.mlock = some (.player j) := by simpa [setP] using hj
      have := l3 j hj'
      rw [pcAt_players_set (s := s) (p' := { p with lk := none }) rfl hp j]
      split
      · subst_vars; rw [hpc] at this; simpa using this
      · exact this
    · have := tl_set (p' := { p with lk := none }) .done hp l4 (fun k hk hh => by simp_all [mainHoldsT]) (by simp)
      intro k q hk t ht
      rcases this k q (by simpa [setP] using hk) t ht with ⟨_, hx⟩ | hx
      · simp [mainHoldsT] at hx
      · exact hx
  · cases h

theorem lk_main_kSAcq (cfg : Cfg) (s s' : State) (i : Nat) (hm : s.mpc = .kSAcq i) (h : stepMain cfg s = some s')
    (si : SI s) (inv : LK s) : LK s' := by
  obtain ⟨l1, l2, l3, l4⟩ := inv
  unfold stepMain at h
  simp only [hm] at h
  split at h
  · rename_i p hp
    split at h
    · cases h
    cases h
    have hpc := pcAt_of_get hp
    refine ⟨?_, ?_, ?_, ?_⟩
    · intro t ht; have := l1 t (by simpa [setP] using ht); simp_all [closeBody]
    · simp_all [mainHoldsM, setP]
    · intro j hj
      have hj' : s.mlock = some (.player j) := by simpa [setP] using hj
      have := l3 j hj'
      simp only [setP]
      rw [pcAt_players_set (s := s) (p' := { p with lk := some .main, halting := true }) rfl hp j]
      split
      · subst_vars; rw [hpc] at this; simp_all
      · exact this
    · simp only [setP]
      have hold := l4 i p hp
      refine tl_set (.kSEvt i) hp l4 ?_ ?_
      · intro k hk hh; simp_all [mainHoldsT]
      · intro t ht; simp_all [mainHoldsT, selfHold]
  · cases h

theorem lk_main_kSEvt (cfg : Cfg) (s s' : State) (i : Nat) (hm : s.mpc = .kSEvt i) (h : stepMain cfg s = some s')
    (si : SI s) (inv : LK s) : LK s' := by
  obtain ⟨l1, l2, l3, l4⟩ := inv
  unfold stepMain at h
  simp only [hm] at h
  split at h
  · rename_i p hp
    cases h
    have hpc := pcAt_of_get hp
    refine ⟨?_, ?_, ?_, ?_⟩
    · intro t ht; have := l1 t (by simpa [setP] using ht); simp_all [closeBody]
    · simp_all [mainHoldsM, setP]
    · intro j hj
      have hj' : s.mlock = some (.player j) := by simpa [setP] using hj
      have := l3 j hj'
      simp only [setP]
      rw [pcAt_players_set (s := s) (p' := { p with go := ctlGo cfg .stop }) rfl hp j]
      split
      · subst_vars; rw [hpc] at this; simp_all
      · exact this
    · simp only [setP]
      have hold := l4 i p hp
      refine tl_set (.kSRel i) hp l4 ?_ ?_
      · intro k hk hh; simp_all [mainHoldsT]
      · intro t ht; simp_all [mainHoldsT, selfHold]
  · cases h

theorem lk_main_kSRel (cfg : Cfg) (s s' : State) (i : Nat) (hm : s.mpc = .kSRel i) (h : stepMain cfg s = some s')
    (si : SI s) (inv : LK s) : LK s' := by
  obtain ⟨l1, l2, l3, l4⟩ := inv
  unfold stepMain at h
  simp only [hm] at h
  split at h
  · rename_i p hp
    cases h
    have hpc := pcAt_of_get hp
    refine ⟨?_, ?_, ?_, ?_⟩
    · intro t ht; have := l1 t (by simpa [setP] using ht); simp_all [closeBody]
    · simp_all [mainHoldsM, setP]
    · intro j hj
      have hj' : s.mlock = some (.player j) := by simpa [setP] using hj
      have := l3 j hj'
      simp only [setP]
      rw [pcAt_players_set (s := s) (p' := { p with lk := none }) rfl hp j]
      split
      · subst_vars; rw [hpc] at this; simp_all
      · exact this
    · simp only [setP]
      have hold := l4 i p hp
      refine tl_set (.kJoin i) hp l4 ?_ ?_
      · intro k hk hh; simp_all [mainHoldsT]
      · intro t ht; simp_all [mainHoldsT, selfHold]
  · cases h


theorem lk_main_pAcq (cfg : Cfg) (s s' : State) (a : List Int) (c : Nat) (hm : s.mpc = .pAcq a c)
    (h : stepMain cfg s = some s') (inv : LK s) : LK s' := by
  obtain ⟨l1, l2, l3, l4⟩ := inv
  unfold stepMain at h
  simp only [hm] at h
  split at h
  · cases h
  · rename_i hlk
    have hnone : s.mlock = none := by
      cases hml : s.mlock
      · rfl
      · rw [hml] at hlk; simp at hlk
    have hh : ∀ t, s.hlock ≠ some t := by
      intro t ht; have := (l1 t ht).2; rw [hm] at this; cases this
    have hold : ∀ (k : Nat) (q : Player), s.players[k]? = some q → ∀ t, q.lk = some t →
        t = .player k ∧ selfHold q.pc = true := by
      intro k q hk t ht
      rcases l4 k q hk t ht with ⟨_, hx⟩ | hx
      · rw [hm] at hx; cases hx
      · exact hx
    split at h
    · cases h
      refine ⟨?_, ?_, ?_, ?_⟩
      · intro t ht; exact absurd ht (hh t)
      · intro _; rfl
      · intro j hj; cases hj
      · intro k q hk t ht; exact Or.inr (hold k q hk t ht)
    · cases h
      refine ⟨?_, ?_, ?_, ?_⟩
      · intro t ht; exact absurd ht (hh t)
      · intro _; rfl
      · intro j hj; cases hj
      · refine forall_append (P := fun (k : Nat) (q : Player) => ∀ t, q.lk = some t →
            (t = Tid.main ∧ mainHoldsT (MPc.pGoSet s.players.length) k = true) ∨
            (t = Tid.player k ∧ selfHold q.pc = true)) ?_ ?_
        · intro k q hk t ht; exact Or.inr (hold k q hk t ht)
        · intro t ht; cases ht

set_option maxHeartbeats 3200000 in
theorem lk_stepMain (cfg : Cfg) (s s' : State) (h : stepMain cfg s = some s')
    (si : SI s) (inv : LK s) : LK s' := by
  obtain ⟨l1, l2, l3, l4⟩ := inv
  have hcreat := si.g.creat
  cases hm : s.mpc <;>
  (first
    | exact lk_main_pAcq cfg s s' _ _ hm h ⟨l1, l2, l3, l4⟩
    | exact lk_main_pGoSet cfg s s' _ hm h si ⟨l1, l2, l3, l4⟩
    | exact lk_main_pOpen cfg s s' _ hm h si ⟨l1, l2, l3, l4⟩
    | exact lk_main_pStart cfg s s' _ hm h si ⟨l1, l2, l3, l4⟩
    | exact lk_main_cAcq cfg s s' _ _ hm h si ⟨l1, l2, l3, l4⟩
    | exact lk_main_cEvt cfg s s' _ _ hm h si ⟨l1, l2, l3, l4⟩
    | exact lk_main_cRel cfg s s' _ _ hm h si ⟨l1, l2, l3, l4⟩
    | exact lk_main_kSAcq cfg s s' _ hm h si ⟨l1, l2, l3, l4⟩
    | exact lk_main_kSEvt cfg s s' _ hm h si ⟨l1, l2, l3, l4⟩
    | exact lk_main_kSRel cfg s s' _ hm h si ⟨l1, l2, l3, l4⟩
    | skip) <;>
  unfold stepMain at h <;> simp only [hm] at h <;> (try split at h) <;> (try split at h) <;>
    (try split at h) <;> (try cases h) <;>
  (first
    | ((try unfold State.next); apply lk_nextCmd
       · intro t ht; have := l1 t (by simpa [setP] using ht); simp_all [closeBody]
       · intro hh; simp_all [setP, mainHoldsM]
       · intro j hj
         first
           | (exact l3 j (by simpa [setP] using hj))
           | (simp [setP] at hj; done)
           | (rename_i p hp
              have hj' : s.mlock = some (.player j) := by simpa [setP] using hj
              have := l3 j hj'
              rw [pcAt_players_set (s := s) (p' := { p with lk := none }) rfl hp j]
              split
              · subst_vars; rw [pcAt_of_get hp] at this; simpa using this
              · exact this)
       · first
           | (intro k q hk t ht
              rcases l4 k q (by simpa [setP] using hk) t ht with ⟨_, hx⟩ | hx
              · simp [hm, mainHoldsT] at hx
              · exact hx)
           | (rename_i p hp
              simp only [setP]
              intro k q hk t ht
              have := tl_set (p' := { p with lk := none }) .done hp l4 (m' := .done)
              rw [List.getElem?_set] at hk
              split at hk
              · split at hk
                · cases hk; cases ht
                · cases hk
              · rename_i hne
                rcases l4 k q hk t ht with ⟨_, hx⟩ | hx
                · simp [hm, mainHoldsT] at hx; exact absurd hx hne
                · exact hx))
    | (refine ⟨?_, ?_, ?_, ?_⟩
       · intro t ht
         first
           | (have := l1 t (by simpa [setP] using ht); simp_all [closeBody]; done)
           | (simp_all [closeBody, setP]; done)
       · simp_all [mainHoldsM, setP]; done
       · intro j hj
         first
           | (exact l3 j (by simpa [setP] using hj))
           | (simp [setP] at hj; done)
       · intro k q hk t ht
         rcases l4 k q (by simpa [setP] using hk) t ht with ⟨hx1, hx⟩ | hx
         · simp [hm, mainHoldsT] at hx
         · exact Or.inr hx)
    )
theorem lk_reach {cfg : Cfg} {script : List Cmd} {s : State} (h : Reach cfg script s) : LK s := by
  induction h with
  | init => exact lk_init script
  | step hr hs ih =>
    rename_i s s' t
    cases t with
    | main => exact lk_stepMain cfg s s' hs (si_reach hr) ih
    | player i => exact lk_stepPlayer cfg s s' i hs ih

theorem mlock_holder_enabled' {cfg : Cfg} {script : List Cmd} {s : State} (hr : Reach cfg script s)
    (t : Tid) (ht : s.mlock = some t) : enabled cfg s t = true := by
  obtain ⟨l1, l2, l3, l4⟩ := lk_reach hr
  have hc := (si_reach hr).g.creat
  cases t with
  | main =>
    have hm := l2 ht
    have hex : ∀ i, creating s.mpc = some i → ∃ p, s.players[i]? = some p := by
      intro i hi
      have := hc i hi
      unfold pcAt at this
      cases hq : s.players[i]? with
      | none => rw [hq] at this; cases this
      | some p => exact ⟨p, rfl⟩
    unfold enabled step stepMain
    cases hmp : s.mpc <;> rw [hmp] at hm hex <;> simp only [mainHoldsM] at hm <;>
      (try (cases hm; done)) <;> simp only []
    · rfl
    · obtain ⟨p, hp⟩ := hex _ rfl; rw [hp]; rfl
    · obtain ⟨p, hp⟩ := hex _ rfl; rw [hp]; rfl
    · obtain ⟨p, hp⟩ := hex _ rfl; rw [hp]; rfl
    · rfl
    · rename_i f
      cases f with
      | some i => rfl
      | none => simp only []; split <;> rfl
  | player j =>
    have hp := l3 j ht
    unfold pcAt at hp
    unfold enabled step stepPlayer
    cases hq : s.players[j]? with
    | none => rw [hq] at hp; cases hp
    | some p =>
      rw [hq] at hp
      simp only [Option.map_some, Option.some.injEq] at hp
      simp only [hq, hp]
      rfl

end ALV.C17
