/-
  C17 — the mixed system (`ALV.Model.C17Mix`: recordings, failing `pa.open`, raising `terminate`
  in the same history as the player threads): every step is a coarse step or leaves the coarse
  state alone; the recordings invariant; what holds after `close`.  Core Lean only.
-/
import ALV.Model.C17Mix
import ALV.Lemmas.C17Shutdown
namespace ALV.C17

/-- states of the mixed system reachable under ANY schedule -/
inductive ReachX (xc : XCfg) (script : List XCmd) : XState → Prop
  | init : ReachX xc script (initX script)
  | step {x x' : XState} {t : Tid} : ReachX xc script x → stepX xc x t = some x' → ReachX xc script x'

theorem noteMain_frame (x : XState) (old : MPc) (b : State) :
    (noteMain x old b).base = b ∧ (noteMain x old b).recs = x.recs ∧
    (noteMain x old b).xpc = x.xpc ∧ (noteMain x old b).todo = x.todo ∧
    (noteMain x old b).shadow = x.shadow ∧ (noteMain x old b).xlog = x.xlog ∧
    (noteMain x old b).ghosts = x.ghosts := by
  unfold noteMain
  split <;> (try split) <;> simp

/-- the two ways `baseMain` moves: `close()` closes the last listed recording, or a coarse step -/
theorem baseMain_cases (xc : XCfg) (x x' : XState) (h : stepMainX.baseMain xc x = some x') :
    (x'.base = x.base ∧ x.base.mpc = .kTerm ∧ ∃ k, lastActive x.recs = some k ∧
        x'.recs = closeRec x.recs k) ∨
    (stepMain xc.cfg x.base = some x'.base ∧ x'.recs = x.recs ∧
        (x.base.mpc = .kTerm → lastActive x.recs = none)) := by
  unfold stepMainX.baseMain at h
  split at h
  · rename_i hk
    have hk' : x.base.mpc = .kTerm := by simpa using hk
    split at h
    · rename_i k hl
      cases h
      exact Or.inl ⟨rfl, hk', k, hl, rfl⟩
    · rename_i hl
      rw [Option.map_eq_some_iff] at h
      obtain ⟨b, hb, rfl⟩ := h
      obtain ⟨f1, f2, _⟩ := noteMain_frame x x.base.mpc b
      exact Or.inr ⟨by rw [f1]; exact hb, f2, fun _ => hl⟩
  · rename_i hk
    have hk' : x.base.mpc ≠ .kTerm := by simpa using hk
    rw [Option.map_eq_some_iff] at h
    obtain ⟨b, hb, rfl⟩ := h
    obtain ⟨f1, f2, _⟩ := noteMain_frame x x.base.mpc b
    exact Or.inr ⟨by rw [f1]; exact hb, f2, fun e => absurd e hk'⟩

theorem baseMain_shadow (xc : XCfg) (x x' : XState) (h : stepMainX.baseMain xc x = some x') :
    x'.shadow = x.shadow ∧ x'.xpc = x.xpc := by
  unfold stepMainX.baseMain at h
  split at h
  · split at h
    · cases h; exact ⟨rfl, rfl⟩
    · rw [Option.map_eq_some_iff] at h
      obtain ⟨b, _, rfl⟩ := h
      obtain ⟨_, _, f3, _, f5, _⟩ := noteMain_frame x x.base.mpc b
      exact ⟨f5, f3⟩
  · rw [Option.map_eq_some_iff] at h
    obtain ⟨b, _, rfl⟩ := h
    obtain ⟨_, _, f3, _, f5, _⟩ := noteMain_frame x x.base.mpc b
    exact ⟨f5, f3⟩

/-- the steps of the control thread, classified by what they do to the coarse state and to the
    recordings -/
theorem stepMainX_cases (xc : XCfg) (x x' : XState) (h : stepMainX xc x = some x') :
    (x'.base = x.base ∧ x'.recs = x.recs) ∨
    (x'.base = x.base ∧ x.base.terminated = 0 ∧ ∃ r, x'.recs = x.recs ++ [r] ∧ r.closes = 0) ∨
    (x'.base = x.base ∧ x.base.mpc = .kTerm ∧ ∃ k, lastActive x.recs = some k ∧
        x'.recs = closeRec x.recs k) ∨
    (stepMain xc.cfg x.base = some x'.base ∧ x'.recs = x.recs ∧
        (x.base.mpc = .kTerm → lastActive x.recs = none)) := by
  unfold stepMainX at h
  split at h
  · cases h; exact Or.inl ⟨rfl, rfl⟩
  · cases h; exact Or.inl ⟨rfl, rfl⟩
  · split at h
    · cases h; exact Or.inl ⟨rfl, rfl⟩
    · cases h
  · split at h
    · cases h; exact Or.inl ⟨rfl, rfl⟩
    · cases h
  · split at h
    · split at h
      · split at h
        · split at h
          · cases h; exact Or.inl ⟨rfl, rfl⟩
          · rename_i hz
            cases h
            exact Or.inr (Or.inl ⟨rfl, by omega, _, rfl, rfl⟩)
        · split at h
          · cases h
          · cases h; exact Or.inl ⟨rfl, rfl⟩
      · exact Or.inr (Or.inr (baseMain_cases xc x x' h))
    · exact Or.inr (Or.inr (baseMain_cases xc x x' h))

theorem stepPlayerX_base (xc : XCfg) (x x' : XState) (i : Nat) (h : stepPlayerX xc x i = some x') :
    stepPlayer xc.cfg x.base i = some x'.base ∧ x'.recs = x.recs ∧ x'.shadow = x.shadow ∧
    x'.xpc = x.xpc := by
  unfold stepPlayerX at h
  split at h
  · split at h
    · cases h
    · rw [Option.map_eq_some_iff] at h
      obtain ⟨b, hb, rfl⟩ := h
      exact ⟨hb, rfl, rfl, rfl⟩
  · cases h

/-- every step of the mixed system is a step of the coarse system or leaves the coarse state alone -/
theorem stepX_base (xc : XCfg) (x x' : XState) (t : Tid) (h : stepX xc x t = some x') :
    x'.base = x.base ∨ step xc.cfg x.base t = some x'.base := by
  cases t with
  | main =>
    rcases stepMainX_cases xc x x' h with h1 | h1 | h1 | h1
    · exact Or.inl h1.1
    · exact Or.inl h1.1
    · exact Or.inl h1.1
    · exact Or.inr h1.1
  | player i => exact Or.inr (stepPlayerX_base xc x x' i h).1

/-- REFINEMENT: the coarse state carried by any reachable state of the mixed system is reachable
    in the coarse system with the coarse calls of the script -/
theorem mix_reach {xc : XCfg} {script : List XCmd} {x : XState} (h : ReachX xc script x) :
    Reach xc.cfg (projScript script) x.base := by
  induction h with
  | init => exact Reach.init
  | step _ hs ih =>
    rcases stepX_base _ _ _ _ hs with e | e
    · rw [e]; exact ih
    · exact Reach.step ih e

/-! ### recordings -/

theorem lastActive_none (recs : List XRec) (h : lastActive recs = none) :
    ∀ r ∈ recs, r.closes ≠ 0 := by
  intro r hr h0
  unfold lastActive at h
  rw [List.find?_eq_none] at h
  obtain ⟨k, hk⟩ := List.getElem?_of_mem hr
  have hlt : k < recs.length := lt_of_getElem? hk
  have := h k (by simp; exact hlt)
  rw [hk] at this
  simp [h0] at this

theorem lastActive_some (recs : List XRec) (k : Nat) (h : lastActive recs = some k) :
    ∃ r, recs[k]? = some r ∧ r.closes = 0 := by
  unfold lastActive at h
  have := List.find?_some h
  cases hr : recs[k]? with
  | none => rw [hr] at this; cases this
  | some r =>
    rw [hr] at this
    exact ⟨r, rfl, by simpa using this⟩

theorem stepMain_term_stable (cfg : Cfg) (s s' : State) (hk : s.mpc ≠ .kTerm)
    (h : stepMain cfg s = some s') : s'.terminated = s.terminated := by
  unfold stepMain at h
  cases hm : s.mpc <;> simp only [hm] at h <;> (try exact absurd hm hk) <;> (try split at h) <;>
    (try split at h) <;> (try split at h) <;> (try cases h) <;>
    simp [setP, State.next]

/-- invariant of the mixed system: a recording's device stream is closed at most once; once the
    backend is terminated no recording is listed any more; the shadow lock is only held inside a
    failing `play` -/
structure XI (x : XState) : Prop where
  le1 : ∀ r ∈ x.recs, r.closes ≤ 1
  act : lastActive x.recs = none ∨ x.base.terminated = 0
  sh : x.shadow = true → x.xpc ≠ .idle

theorem stepMainX_shadow (xc : XCfg) (x x' : XState) (h : stepMainX xc x = some x')
    (inv : x.shadow = true → x.xpc ≠ .idle) : x'.shadow = true → x'.xpc ≠ .idle := by
  unfold stepMainX at h
  split at h
  · rename_i hx; cases h; intro _; simp
  · rename_i hx; cases h; intro _; simp
  · split at h
    · cases h; intro hs; simp at hs
    · cases h
  · split at h
    · cases h; intro hs; simp at hs
    · cases h
  · rename_i hx
    have hns : x.shadow = false := by
      cases hs : x.shadow
      · rfl
      · exact absurd hx (inv hs)
    split at h
    · split at h
      · split at h
        · split at h
          · cases h; intro hs; simp [hns] at hs
          · cases h; intro hs; simp [hns] at hs
        · split at h
          · cases h
          · cases h; intro _; simp only; split <;> simp
      · obtain ⟨e1, _⟩ := baseMain_shadow xc x x' h
        intro hs; rw [e1, hns] at hs; cases hs
    · obtain ⟨e1, _⟩ := baseMain_shadow xc x x' h
      intro hs; rw [e1, hns] at hs; cases hs

theorem xi_init (script : List XCmd) : XI (initX script) :=
  ⟨by intro r hr; simp [initX] at hr, Or.inr rfl, by intro h; simp [initX] at h⟩

theorem xi_step {xc : XCfg} {script : List XCmd} {x x' : XState} {t : Tid}
    (hr : ReachX xc script x) (inv : XI x) (h : stepX xc x t = some x') : XI x' := by
  cases t with
  | player i =>
    obtain ⟨hb, hrecs, hsh, hxp⟩ := stepPlayerX_base xc x x' i h
    have ht := (stepPlayer_frame xc.cfg x.base x'.base i hb).2.2.2.2.1
    refine ⟨by rw [hrecs]; exact inv.le1, ?_, by rw [hsh, hxp]; exact inv.sh⟩
    rw [hrecs, ht]; exact inv.act
  | main =>
    have hsh := stepMainX_shadow xc x x' h inv.sh
    rcases stepMainX_cases xc x x' h with ⟨hb, hrecs⟩ | ⟨hb, h0, r, hrecs, hr0⟩ |
        ⟨hb, hk, k, hl, hrecs⟩ | ⟨hb, hrecs, hk⟩
    · exact ⟨by rw [hrecs]; exact inv.le1, by rw [hrecs, hb]; exact inv.act, hsh⟩
    · refine ⟨?_, Or.inr (by rw [hb]; exact h0), hsh⟩
      intro q hq
      rw [hrecs] at hq
      rcases List.mem_append.mp hq with hq | hq
      · exact inv.le1 q hq
      · simp at hq; subst hq; omega
    · have h0 : x.base.terminated = 0 := ((mi_reach (mix_reach hr)).pre (by rw [hk]; rfl)).2
      refine ⟨?_, Or.inr (by rw [hb]; exact h0), hsh⟩
      intro q hq
      rw [hrecs] at hq
      obtain ⟨r, hrk, hr0⟩ := lastActive_some _ _ hl
      unfold closeRec at hq
      rw [hrk] at hq
      simp only at hq
      rcases List.mem_or_eq_of_mem_set hq with hq | hq
      · exact inv.le1 q hq
      · subst hq; simp only; omega
    · refine ⟨by rw [hrecs]; exact inv.le1, ?_, hsh⟩
      rw [hrecs]
      rcases inv.act with ha | ha
      · exact Or.inl ha
      · by_cases hkt : x.base.mpc = .kTerm
        · exact Or.inl (hk hkt)
        · exact Or.inr (by rw [stepMain_term_stable _ _ _ hkt hb]; exact ha)

theorem xi_reach {xc : XCfg} {script : List XCmd} {x : XState} (h : ReachX xc script x) : XI x := by
  induction h with
  | init => exact xi_init _
  | step hr hs ih => exact xi_step hr ih hs

/-- once the backend is terminated, every recording's device stream was closed exactly once -/
theorem recsClosed_of_terminated {xc : XCfg} {script : List XCmd} {x : XState}
    (h : ReachX xc script x) (ht : 1 ≤ x.base.terminated) : recsClosed x = true := by
  have inv := xi_reach h
  unfold recsClosed
  rw [List.all_eq_true]
  intro r hr
  have hn : lastActive x.recs = none := by
    rcases inv.act with ha | ha
    · exact ha
    · omega
  have h0 := lastActive_none _ hn r hr
  have h1 := inv.le1 r hr
  simp only [beq_iff_eq]; omega

/-- the mixed script issued to its end, nobody enabled: the coarse state is terminal -/
theorem terminal_of_terminalX {xc : XCfg} {script : List XCmd} {x : XState}
    (h : ReachX xc script x) (ht : terminalX xc x = true) (hd : scriptDone x = true) :
    terminal xc.cfg x.base = true ∧ x.base.mpc = .done := by
  unfold scriptDone at hd
  simp only [Bool.and_eq_true, beq_iff_eq, List.isEmpty_iff] at hd
  obtain ⟨⟨hmpc, _⟩, hxpc⟩ := hd
  refine ⟨?_, hmpc⟩
  have hns : x.shadow = false := by
    cases hs : x.shadow
    · rfl
    · exact absurd hxpc ((xi_reach h).sh hs)
  unfold terminal
  unfold terminalX at ht
  rw [List.all_eq_true] at ht ⊢
  intro t htm
  have hx := ht t htm
  simp only [Bool.not_eq_true', enabledX] at hx
  simp only [Bool.not_eq_true', enabled]
  cases t with
  | main =>
    simp [step, stepMain, hmpc]
  | player i =>
    simp only [stepX, stepPlayerX, hns, Bool.false_and, Bool.false_eq_true, if_false] at hx
    simp only [step]
    cases hp : x.base.players[i]? with
    | none => simp [stepPlayer, hp]
    | some p =>
      rw [hp] at hx
      simp only at hx
      cases hsp : stepPlayer xc.cfg x.base i with
      | none => rfl
      | some b => rw [hsp] at hx; simp at hx

/-- a `terminate()` that raises changes no step of anybody: only what the caller of `close` sees -/
theorem stepX_termFails (cfg : Cfg) (b b' : Bool) (x : XState) (t : Tid) :
    stepX ⟨cfg, b⟩ x t = stepX ⟨cfg, b'⟩ x t := by
  cases t with
  | main => simp only [stepX, stepMainX, stepMainX.baseMain]
  | player i => simp only [stepX, stepPlayerX]

theorem runSchedX_termFails (cfg : Cfg) (b b' : Bool) : ∀ (sched : List Tid) (x : XState),
    runSchedX ⟨cfg, b⟩ x sched = runSchedX ⟨cfg, b'⟩ x sched := by
  intro sched
  induction sched with
  | nil => intro x; rfl
  | cons t ts ih =>
    intro x
    simp only [runSchedX]
    rw [stepX_termFails cfg b b' x t]
    split
    · exact ih _
    · rfl

theorem reachX_runSchedX {xc : XCfg} {script : List XCmd} : ∀ (sched : List Tid) {x : XState},
    ReachX xc script x → ReachX xc script (runSchedX xc x sched).1 := by
  intro sched
  induction sched with
  | nil => intro x h; exact h
  | cons t ts ih =>
    intro x h
    simp only [runSchedX]
    split
    · rename_i x' hs; exact ih (ReachX.step h hs)
    · exact h

end ALV.C17
