/-
  C13 — helper lemmas, part 9: erb / gammatone_erb_constants over the reals, the time-domain run
  `runFilter` of the comb designs, the calls with omitted parameters (`ALV/Model/C13Call.lean`).
-/
import ALV.Lemmas.C13Basic
import ALV.Lemmas.C13Comb
import ALV.Model.C13Call

set_option linter.unusedSectionVars false
set_option linter.unusedSimpArgs false

namespace ALV.C13
open ALV ALV.TrigField

/-- Python's `x < y` on reals -/
noncomputable instance instLtTestReal : LtTest ℝ := ⟨fun x y => decide (x < y)⟩

@[simp] theorem lt_real (x y : ℝ) : LtTest.lt x y = decide (x < y) := rfl

/-! ### erb -/

theorem erbGm90_real (f Hz : ℝ) :
    erbGm90 f Hz = (247 / 10) * ((437 / 100000) * (f / Hz) + 1) * Hz := by
  simp only [erbGm90, real_ofRat, c1_real]
  norm_num

theorem erbMg83_real (f Hz : ℝ) :
    erbMg83 f Hz = ((623 / 100000000) * (f / Hz) ^ 2 + (9339 / 100000) * (f / Hz) + 2852 / 100) * Hz := by
  simp only [erbMg83, real_ofRat, sq_real]
  norm_num

/-! ### gammatone_erb_constants -/

theorem factorial_eq (n : ℕ) : factorial n = n.factorial := by
  induction n with
  | zero => rfl
  | succ n ih => rw [factorial, ih, Nat.factorial_succ]

theorem erbConst_fst (n : ℕ) :
    (gammatoneErbConstants n : ℝ × ℝ).1
      = ((n - 1).factorial : ℝ) ^ 2 * 4 ^ (n - 1) / (Real.pi * ((2 * (n - 1)).factorial : ℝ)) := by
  have h2 : 2 * n - 2 = 2 * (n - 1) := by omega
  simp only [gammatoneErbConstants, real_ofNat, real_pi, c1_real, factorial_eq, h2]
  have h4 : ((2 ^ (2 * (n - 1)) : ℕ) : ℝ) = 4 ^ (n - 1) := by
    rw [pow_mul]; norm_num
  rw [h4]
  have hpi := Real.pi_pos
  have hf : (0 : ℝ) < ((2 * (n - 1)).factorial : ℝ) := by exact_mod_cast Nat.factorial_pos _
  have h4' : (0 : ℝ) < 4 ^ (n - 1) := by positivity
  push_cast
  field_simp

theorem erbConst_snd (n : ℕ) :
    (gammatoneErbConstants n : ℝ × ℝ).2 = 2 * Real.sqrt ((2 : ℝ) ^ ((1 : ℝ) / n) - 1) := by
  simp only [gammatoneErbConstants, real_ofNat, real_pow, c1_real, c2_real, half_real]
  rw [Real.sqrt_eq_rpow]

theorem two_rpow_inv_ge_one (n : ℕ) : (1 : ℝ) ≤ (2 : ℝ) ^ ((1 : ℝ) / n) :=
  Real.one_le_rpow (by norm_num) (by positivity)

/-! ### time-domain run of the comb designs -/

theorem runFilter_combFb (d : ℕ) (α : ℝ) (xs : List ℝ) :
    runFilter (combFb (d + 1) α) xs = combFbSpec (d + 1) α xs := by
  by_cases hα : α = 0
  · subst hα
    obtain ⟨hn, hd⟩ := combFb_coefs_zero d
    simp only [runFilter, hn, hd, List.length_nil, List.replicate_zero]
    exact fspec_combFb_zero (d + 1) _ _ xs
  · obtain ⟨hn, hd⟩ := combFb_coefs d α hα
    simp only [runFilter, hn, hd, List.length_append, List.length_replicate, List.length_singleton]
    have := fspec_combFb d α [] [] xs
    simpa [combFbSpec] using this

theorem runFilter_combFf (d : ℕ) (α : ℝ) (xs : List ℝ) :
    runFilter (combFf (d + 1) α) xs = combFfSpec (d + 1) α xs := by
  by_cases hα : α = 0
  · subst hα
    obtain ⟨hn, hd⟩ := combFf_coefs_zero d
    simp only [runFilter, hn, hd, List.length_nil, List.replicate_zero]
    exact fspec_combFf_zero (d + 1) _ _ xs
  · obtain ⟨hn, hd⟩ := combFf_coefs d α hα
    simp only [runFilter, hn, hd, List.length_nil, List.replicate_zero]
    exact fspec_combFf d α [] [] xs

/-- `runFilter` is the generated filter loop of the C04 model on the designed coefficients -/
theorem runFilter_eq_evalIR (s : Coefs ℝ) (a0 : ℝ) (as xs : List ℝ) (hden : s.den = a0 :: as) :
    runFilter s xs
      = C04.evalIR (C04.compile s.num s.den 0) (List.replicate s.den.tail.length 0) 0 xs := by
  simp only [runFilter, hden, List.tail_cons]
  rw [ALV.Props.C04.filter_eq_spec_zero s.num as a0 _ xs (by simp)]

theorem getD_replicate_zero (n k : ℕ) : (List.replicate n (0 : ℝ)).getD k 0 = 0 := by
  simp only [List.getD_eq_getElem?_getD, List.getElem?_replicate]
  split <;> simp

/-- `yAt` over a zero memory: the output at time `n`, zero before time 0 -/
theorem yAt_zero_mem (m : ℕ) (ys : List ℝ) (n : ℤ) :
    C04.yAt 0 (List.replicate m 0) ys n = if n < 0 then 0 else ys.getD n.toNat 0 := by
  unfold C04.yAt
  split
  · exact getD_replicate_zero _ _
  · rfl

end ALV.C13
