/-
  C13 — helper lemmas, part 7: histories of designs sharing parameter objects.
  The state machine `hrun` (positions of the shared iterators, current control values, instant
  counters) shows at every step exactly what the state-free specification `histSpec` requires.
  Core Lean only (generic in the number type).
-/
import ALV.Spec.C13Hist

set_option linter.unusedSectionVars false
set_option linter.unusedSimpArgs false

namespace ALV.C13
open ALV

section generic
variable {α : Type} [TrigField α] [ZeroTest α]

/-- the heap after `past` (most recent step first), in closed form -/
def stateOf (dsgs : List (Dsg α)) (past : List (HOp α)) : HSt α :=
  ⟨fun i => drawsOf dsgs i past, fun i => lastSet i past, fun j => takesOf j past⟩

theorem stateOf_nil (dsgs : List (Dsg α)) : stateOf dsgs [] = (HSt.init : HSt α) := rfl

theorem b2n_isSrc (p : Par α) (k : Nat) :
    b2n (p.isSrc k) = match p with | .const _ => 0 | .src i => if k = i then 1 else 0 := by
  cases p <;> simp [Par.isSrc, b2n]

/-- one argument pulled after `past` (+ `extra` earlier pulls of the same call from the same
object): the value is the specified one and only the pull counter of that object moves -/
theorem draw_stateOf (srcs : List (Src α)) (dsgs : List (Dsg α)) (past : List (HOp α)) (j : Nat)
    (p : Par α) (pos : Nat → Nat) (extra : Nat)
    (hpos : ∀ i, p.isSrc i = true → pos i = drawsOf dsgs i past + extra) :
    draw srcs ⟨pos, fun i => lastSet i past, fun j => takesOf j past⟩ j p
      = (parValue srcs dsgs past j extra p,
         ⟨fun k => pos k + b2n (p.isSrc k), fun i => lastSet i past, fun j => takesOf j past⟩) := by
  cases p with
  | const v =>
    simp [draw, parValue, Par.isSrc, b2n]
  | src i =>
    have hi := hpos i (by simp [Par.isSrc])
    have hb : (bump pos i) = fun k => pos k + b2n ((Par.src i : Par α).isSrc k) := by
      funext k
      by_cases hk : k = i <;> simp [bump, Par.isSrc, b2n, hk]
    simp only [draw, parValue]
    cases (srcs.getD i emptySrc).flav <;> simp [hb, hi]

/-- one step from the closed-form heap: the specified observation, and the closed-form heap of the
longer past -/
theorem hstep_stateOf (srcs : List (Src α)) (dsgs : List (Dsg α)) (past : List (HOp α)) (op : HOp α) :
    hstep srcs dsgs (stateOf dsgs past) op = (obsSpec srcs dsgs past op, stateOf dsgs (op :: past)) := by
  cases op with
  | build j => simp [hstep, obsSpec, stateOf, drawsOf, takesOf, lastSet]
  | set i v =>
    simp only [hstep, obsSpec, stateOf, drawsOf, takesOf, lastSet]
  | take j =>
    have h1 := draw_stateOf srcs dsgs past j (dsgs.getD j emptyDsg).p1 (fun i => drawsOf dsgs i past) 0
      (fun i _ => by simp)
    have h2 := draw_stateOf srcs dsgs past j (dsgs.getD j emptyDsg).p2
      (fun k => drawsOf dsgs k past + b2n ((dsgs.getD j emptyDsg).p1.isSrc k))
      (sameObj (dsgs.getD j emptyDsg).p1 (dsgs.getD j emptyDsg).p2)
      (fun i hi => by
        cases hp : (dsgs.getD j emptyDsg).p2 with
        | const v => rw [hp] at hi; simp [Par.isSrc] at hi
        | src k =>
          rw [hp] at hi
          have : i = k := by simpa [Par.isSrc] using hi
          subst this
          simp [sameObj])
    simp only [hstep, obsSpec, stateOf]
    rw [show (⟨fun i => drawsOf dsgs i past, fun i => lastSet i past, fun j => takesOf j past⟩ : HSt α)
          = ⟨fun i => drawsOf dsgs i past, fun i => lastSet i past, fun j => takesOf j past⟩ from rfl]
    rw [h1]
    simp only []
    rw [h2]
    simp only [drawsOf, takesOf, lastSet]
    congr 1
    congr 1
    funext k
    by_cases hk : k = j <;> simp [bump, hk]

theorem hrun_stateOf (srcs : List (Src α)) (dsgs : List (Dsg α)) (past ops : List (HOp α)) :
    hrun srcs dsgs (stateOf dsgs past) ops
      = (specFrom srcs dsgs past ops, stateOf dsgs (ops.reverse ++ past)) := by
  induction ops generalizing past with
  | nil => simp [hrun, specFrom]
  | cons op ops ih =>
    simp only [hrun, specFrom, hstep_stateOf, ih, List.reverse_cons, List.append_assoc,
      List.singleton_append]

/-- every step of every history, as coded = as specified -/
theorem histModel_eq_histSpec (srcs : List (Src α)) (dsgs : List (Dsg α)) (ops : List (HOp α)) :
    histModel srcs dsgs ops = histSpec srcs dsgs ops := by
  unfold histModel histSpec
  rw [← stateOf_nil dsgs, hrun_stateOf]

/-- the heap after a history is the closed-form one: it depends on the history only through the
pull counts, the last assigned control values and the instant counts -/
theorem hrun_final (srcs : List (Src α)) (dsgs : List (Dsg α)) (ops : List (HOp α)) :
    (hrun srcs dsgs HSt.init ops).2 = stateOf dsgs ops.reverse := by
  rw [← stateOf_nil dsgs, hrun_stateOf]; simp

theorem callerView_eq_callerSpec (srcs : List (Src α)) (dsgs : List (Dsg α)) (ops : List (HOp α))
    (i n : Nat) :
    callerView srcs (hrun srcs dsgs HSt.init ops).2 i n = callerSpec srcs dsgs ops.reverse i n := by
  rw [hrun_final]
  simp only [callerView, callerSpec, stateOf]
  rfl


/-! ### one step inside a history -/

theorem specFrom_length (srcs : List (Src α)) (dsgs : List (Dsg α)) (past ops : List (HOp α)) :
    (specFrom srcs dsgs past ops).length = ops.length := by
  induction ops generalizing past with
  | nil => rfl
  | cons op ops ih => simp [specFrom, ih]

theorem specFrom_append (srcs : List (Src α)) (dsgs : List (Dsg α)) (past pre post : List (HOp α)) :
    specFrom srcs dsgs past (pre ++ post)
      = specFrom srcs dsgs past pre ++ specFrom srcs dsgs (pre.reverse ++ past) post := by
  induction pre generalizing past with
  | nil => simp [specFrom]
  | cons op pre ih => simp [specFrom, ih]

/-- the observation of the step that follows `pre` depends on `pre` only (not on what comes
after), and is the specified one -/
theorem histSpec_at (srcs : List (Src α)) (dsgs : List (Dsg α)) (pre post : List (HOp α)) (op : HOp α) :
    (histSpec srcs dsgs (pre ++ op :: post))[pre.length]? = some (obsSpec srcs dsgs pre.reverse op) := by
  unfold histSpec
  rw [specFrom_append]
  rw [List.getElem?_append_right (by simp [specFrom_length])]
  simp [specFrom_length, specFrom]

/-! ### the values drawn are values of the parameter -/

theorem cyc_mem (vals : List α) (k : Nat) (h : vals ≠ []) : cyc vals k ∈ vals := by
  unfold cyc
  have hl : 0 < vals.length := List.length_pos_iff.mpr h
  have hk : k % vals.length < vals.length := Nat.mod_lt _ hl
  rw [List.getD_eq_getElem?_getD, List.getElem?_eq_getElem hk]
  exact List.getElem_mem _

theorem lastSet_mem (i : Nat) (past : List (HOp α)) (v : α) (h : lastSet i past = some v) :
    v ∈ past.filterMap (setVal i) := by
  induction past with
  | nil => simp [lastSet] at h
  | cons op past ih =>
    cases op with
    | build j => simpa [lastSet, List.filterMap_cons, setVal] using ih (by simpa [lastSet] using h)
    | take j => simpa [lastSet, List.filterMap_cons, setVal] using ih (by simpa [lastSet] using h)
    | set k w =>
      by_cases hk : i = k
      · simp [lastSet, hk] at h
        simp [List.filterMap_cons, setVal, hk, h]
      · simp [lastSet, hk] at h
        simpa [List.filterMap_cons, setVal, hk] using ih h

/-- a value a design draws for an argument is one of the values the argument can take: the number,
a value of the object, or a value assigned to the control in the past -/
theorem parValue_mem (srcs : List (Src α)) (dsgs : List (Dsg α)) (past : List (HOp α)) (j extra : Nat)
    (p : Par α) (hne : ∀ i, p.isSrc i = true → (srcs.getD i emptySrc).vals ≠ []) :
    parValue srcs dsgs past j extra p ∈ parVals srcs past p := by
  cases p with
  | const v => simp [parValue, parVals]
  | src i =>
    have h := hne i (by simp [Par.isSrc])
    simp only [parValue, parVals, List.mem_append]
    cases hf : (srcs.getD i emptySrc).flav with
    | pool => exact Or.inl (cyc_mem _ _ h)
    | tee => exact Or.inl (cyc_mem _ _ h)
    | ctrl =>
      cases hl : lastSet i past with
      | none => exact Or.inl (by simpa using cyc_mem _ 0 h)
      | some v => exact Or.inr (lastSet_mem i past v hl)

end generic
end ALV.C13
