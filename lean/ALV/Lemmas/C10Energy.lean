/-
  C10 — helper lemmas, part 3: with `r = acorr(block)` the inner product of the code is the
  energy of the filtered zero-extended block:
      Σ_{i,j ≤ p} r|i−j| u_i v_j = Σ_{n < N+p} (Σ_i u_i x̃[n−i]) (Σ_j v_j x̃[n−j]).
-/
import ALV.Lemmas.C10Lev

namespace ALV.C10
open Finset
variable {K : Type} [Field K]

/-- the block delayed by `i` samples, zero before its start: `x̃[n − i]` -/
def xs (x : ℕ → K) (i n : ℕ) : K := if i ≤ n then x (n - i) else 0

/-- correlation of two delayed copies over a window that contains both = autocorrelation -/
theorem corr_shift_le (x : ℕ → K) (N : ℕ) (hx : ∀ n, N ≤ n → x n = 0) (i j M : ℕ)
    (hij : i ≤ j) (hM : j + N ≤ M) :
    ∑ n ∈ range M, xs x i n * xs x j n = ∑ k ∈ range (N - (j - i)), x k * x (k + (j - i)) := by
  obtain ⟨Q, rfl⟩ : ∃ Q, M = j + Q := ⟨M - j, by omega⟩
  rw [Finset.sum_range_add]
  rw [Finset.sum_eq_zero (fun n hn => by
    have : ¬ j ≤ n := by simpa using hn
    simp [xs, this]), zero_add]
  rw [← Finset.sum_subset (Finset.range_mono (show N - (j - i) ≤ Q by omega))]
  · refine Finset.sum_congr rfl fun k _ => ?_
    have h1 : i ≤ j + k := by omega
    simp only [xs, h1, if_true, Nat.le_add_right, Nat.add_sub_cancel_left]
    rw [mul_comm]
    congr 2; omega
  · intro k _ hk
    have h1 : i ≤ j + k := by omega
    have h2 : N ≤ j + k - i := by
      have : ¬ k < N - (j - i) := by simpa using hk
      omega
    simp [xs, h1, hx _ h2]

theorem corr_shift (x : ℕ → K) (N : ℕ) (hx : ∀ n, N ≤ n → x n = 0) (i j M : ℕ)
    (hi : i + N ≤ M) (hj : j + N ≤ M) :
    ∑ n ∈ range M, xs x i n * xs x j n =
      ∑ k ∈ range (N - adiff i j), x k * x (k + adiff i j) := by
  unfold adiff
  split
  · next h => exact corr_shift_le x N hx i j M h hj
  · next h =>
    rw [← corr_shift_le x N hx j i M (by omega) hi]
    exact Finset.sum_congr rfl fun n _ => mul_comm _ _

/-- output of the FIR filter `u` (order ≤ p) at time n on the zero-extended block -/
def filt (x : ℕ → K) (p : ℕ) (u : ℕ → K) (n : ℕ) : K := ∑ i ∈ range (p + 1), u i * xs x i n

/-- the code's inner product over autocorrelation lags is a correlation of filter outputs -/
theorem bilT_acorr (x : ℕ → K) (N : ℕ) (hx : ∀ n, N ≤ n → x n = 0) (r : List K) (p : ℕ)
    (hr : ∀ tau, tau ≤ p → coef r tau = ∑ k ∈ range (N - tau), x k * x (k + tau)) (u v : ℕ → K) :
    bilT r (p + 1) u v = ∑ n ∈ range (N + p), filt x p u n * filt x p v n := by
  unfold filt
  simp_rw [Finset.sum_mul_sum]
  rw [Finset.sum_comm]
  unfold bilT
  refine Finset.sum_congr rfl fun i hi => ?_
  rw [Finset.sum_comm]
  refine Finset.sum_congr rfl fun j hj => ?_
  have hi' : i ≤ p := by simpa [Nat.lt_succ_iff] using hi
  have hj' : j ≤ p := by simpa [Nat.lt_succ_iff] using hj
  have had : adiff i j ≤ p := by unfold adiff; split <;> omega
  rw [hr _ had, ← corr_shift x N hx i j (N + p) (by omega) (by omega), mul_assoc, Finset.sum_mul]
  refine Finset.sum_congr rfl fun n _ => ?_
  ring

/-- `convAt` (the spec's convolution, Σ_{j ≤ n}) is `filt` (Σ_{j ≤ p}) for a filter of order ≤ p -/
theorem convAt_eq_filt (a blk : List K) (p n : ℕ) (ha : a.length ≤ p + 1) :
    convAt a blk n = filt (coef blk) p (coef a) n := by
  unfold convAt filt
  rw [sumL_map_range]
  have e1 : ∑ j ∈ range (n + 1), coef a j * coef blk (n - j) =
      ∑ j ∈ range (max (n + 1) (p + 1)), coef a j * xs (coef blk) j n := by
    rw [← Finset.sum_subset (Finset.range_mono (le_max_left _ _))]
    · refine Finset.sum_congr rfl fun j hj => ?_
      have : j ≤ n := by simpa [Nat.lt_succ_iff] using hj
      simp [xs, this]
    · intro j _ hj
      have : ¬ j ≤ n := by simpa [Nat.lt_succ_iff] using hj
      simp [xs, this]
  have e2 : ∑ i ∈ range (p + 1), coef a i * xs (coef blk) i n =
      ∑ j ∈ range (max (n + 1) (p + 1)), coef a j * xs (coef blk) j n := by
    refine Finset.sum_subset (Finset.range_mono (le_max_right _ _)) fun j _ hj => ?_
    have : p + 1 ≤ j := by simpa using hj
    rw [coef_of_length_le a j (ha.trans this)]; simp
  rw [e1, e2]

theorem energy_eq (a blk : List K) (p : ℕ) (ha : a.length ≤ p + 1) :
    energy a blk p = ∑ n ∈ range (blk.length + p),
      filt (coef blk) p (coef a) n * filt (coef blk) p (coef a) n := by
  unfold energy
  rw [sumL_map_range]
  exact Finset.sum_congr rfl fun n _ => by rw [convAt_eq_filt a blk p n ha]

/-- the lags `acorr` returns, as sums -/
theorem coef_acorr (blk : List K) (lag : Option ℕ) (tau : ℕ)
    (h : tau < (match lag with | none => blk.length | some L => L + 1)) :
    coef (acorr blk lag) tau = ∑ k ∈ range (blk.length - tau), coef blk k * coef blk (k + tau) := by
  unfold acorr
  cases lag <;> (simp only at h ⊢; rw [coef_map_range, if_pos h, sumL_map_range])

/-- **energy identity** for any filter of order ≤ p and the lags of the block -/
theorem inner_acorr_eq_energy (blk r a : List K) (p : ℕ) (ha : a.length ≤ p + 1)
    (hr : ∀ tau, tau ≤ p → coef r tau =
      ∑ k ∈ range (blk.length - tau), coef blk k * coef blk (k + tau)) :
    inner r a a = energy a blk p := by
  rw [inner_eq_bilT r a a (p + 1) ha ha, energy_eq a blk p ha]
  exact bilT_acorr (coef blk) blk.length (fun n hn => coef_of_length_le blk n hn) r p hr _ _

/-- what a returning `lpc.kautocor` call establishes: lags `r` of the block, the loop invariant at
    the final order and the error as the code computes it -/
theorem kautocor_ok [DecidableEq K] {blk : List K} {order : Option ℕ} {a : List K} {e : K}
    (h : kautocor blk order = .ok (a, e)) :
    ∃ r : List K, (∀ tau, tau ≤ order.getD (blk.length - 1) → coef r tau =
        ∑ k ∈ range (blk.length - tau), coef blk k * coef blk (k + tau)) ∧
      LevInv r (order.getD (blk.length - 1)) a ∧ e = inner r a a := by
  unfold kautocor at h
  cases order with
  | none =>
    obtain ⟨h0, h1, h2⟩ := levinson_none_ok h
    have hlen : (acorr blk none).length = blk.length := by simp [acorr]
    rw [hlen] at h0 h1
    refine ⟨acorr blk none, fun tau ht => ?_, levIter_inv _ _ a h1, h2⟩
    exact coef_acorr blk none tau (by simp only [Option.getD_none] at ht; show tau < blk.length; omega)
  | some p =>
    obtain ⟨h1, h2⟩ := levinson_some_ok h
    refine ⟨zeroExt (acorr blk (some p)) p, fun tau ht => ?_, levIter_inv _ _ a h1, h2⟩
    rw [coef_zeroExt]
    exact coef_acorr blk (some p) tau (by simp only [Option.getD_some] at ht; show tau < p + 1; omega)

end ALV.C10
