/-
  C05 — the executable specification (`Spec/C05.lean`: textbook field of fractions on pairs of
  canonical Laurent polynomials) denotes the field operations of `Q K`, its `rEquiv` decides `≈`,
  and the as-coded evaluation of every expression tree denotes the specification's value
  (`run_denotes`, by induction on the tree: no depth bound).
-/
import ALV.Lemmas.C05Pow
import ALV.Lemmas.C07Spec

set_option linter.unusedSectionVars false
set_option linter.unusedSimpArgs false
set_option linter.unusedVariables false

open LaurentPolynomial

namespace ALV.C05
open ALV.C07
variable {K : Type} [Field K] [DecidableEq K]

/-- a specification pair with a non-zero denominator -/
def RV (s : ZF K) : Prop := D s ≠ 0

theorem ιD_ne_zero' {s : ZF K} (h : RV s) : ι (D s) ≠ 0 := fun e => h (ι_eq_zero.1 e)

theorem wf_canon (p : MPoly K) : WF (canon p) := wf_canonOn _ _

theorem canon_eq_nil_iff (p : MPoly K) : canon p = [] ↔ toLaurent p = 0 := by
  constructor
  · intro h; rw [← toLaurent_canon, h]; rfl
  · intro h; exact eq_nil_of_toLaurent_eq_zero (wf_canon p) (by rw [toLaurent_canon, h])

theorem sortAsc_eq_canon {p : MPoly K} (hp : WF p) : sortAsc p = canon p :=
  sortAsc_eq_of_toLaurent hp (wf_canonOn _ _) (ascending_canonOn _ _) (toLaurent_canon p).symm

theorem canon_perm {p : MPoly K} (hp : WF p) : (canon p).Perm p := by
  rw [← sortAsc_eq_canon hp]; exact List.mergeSort_perm _ _

theorem evalQ_canon {p : MPoly K} (hp : WF p) (v : Q K) : evalQ v (canon p) = evalQ v p :=
  evalQ_perm (canon_perm hp) v

/-! ### the specification operations denote the field operations -/

theorem N_rOf (f : ZF K) : N (rOf f) = N f := toLaurent_canon _
theorem D_rOf (f : ZF K) : D (rOf f) = D f := toLaurent_canon _
theorem val_rOf (f : ZF K) : val (rOf f) = val f := by unfold val; rw [N_rOf, D_rOf]

theorem val_rScalar (c : K) : RV (rScalar c) ∧ val (rScalar c) = ι (C c) := by
  have hD : D (rScalar c) = 1 := by
    show toLaurent (sConst 1) = 1
    rw [toLaurent_sConst, map_one]
  have hN : N (rScalar c) = C c := toLaurent_sConst c
  refine ⟨by unfold RV; rw [hD]; exact one_ne_zero, ?_⟩
  unfold val
  rw [hD, hN, map_one, div_one]

theorem val_rNeg {f : ZF K} (hf : RV f) : RV (rNeg f) ∧ val (rNeg f) = -val f := by
  refine ⟨hf, ?_⟩
  unfold val
  show ι (toLaurent (sNeg f.num)) / ι (D f) = _
  rw [toLaurent_sNeg, map_neg, neg_div]
  rfl

theorem val_rAdd {f g : ZF K} (hf : RV f) (hg : RV g) : RV (rAdd f g) ∧ val (rAdd f g) = val f + val g := by
  have hD : D (rAdd f g) = D f * D g := toLaurent_sMul _ _
  have hN : N (rAdd f g) = N f * D g + N g * D f := by
    show toLaurent (sAdd _ _) = _
    rw [toLaurent_sAdd, toLaurent_sMul, toLaurent_sMul]; rfl
  refine ⟨by unfold RV; rw [hD]; exact mul_ne_zero hf hg, ?_⟩
  unfold val
  rw [hD, hN, div_add_div _ _ (ιD_ne_zero' hf) (ιD_ne_zero' hg)]
  simp only [map_add, map_mul]
  ring

theorem val_rSub {f g : ZF K} (hf : RV f) (hg : RV g) : RV (rSub f g) ∧ val (rSub f g) = val f - val g := by
  have hD : D (rSub f g) = D f * D g := toLaurent_sMul _ _
  have hN : N (rSub f g) = N f * D g - N g * D f := by
    show toLaurent (sSub _ _) = _
    rw [toLaurent_sSub, toLaurent_sMul, toLaurent_sMul]; rfl
  refine ⟨by unfold RV; rw [hD]; exact mul_ne_zero hf hg, ?_⟩
  unfold val
  rw [hD, hN, div_sub_div _ _ (ιD_ne_zero' hf) (ιD_ne_zero' hg)]
  simp only [map_sub, map_mul]
  ring

theorem val_rMul {f g : ZF K} (hf : RV f) (hg : RV g) : RV (rMul f g) ∧ val (rMul f g) = val f * val g := by
  have hD : D (rMul f g) = D f * D g := toLaurent_sMul _ _
  have hN : N (rMul f g) = N f * N g := toLaurent_sMul _ _
  refine ⟨by unfold RV; rw [hD]; exact mul_ne_zero hf hg, ?_⟩
  unfold val
  rw [hD, hN, map_mul, map_mul, div_mul_div_comm]

theorem val_rInv {f r : ZF K} (hf : RV f) (h : rInv f = some r) :
    RV r ∧ val r = (val f)⁻¹ ∧ val f ≠ 0 := by
  unfold rInv at h
  split at h
  · cases h
  · rename_i hne
    obtain rfl := Option.some.inj h
    have hN : N f ≠ 0 := fun e => hne ((canon_eq_nil_iff _).2 e)
    refine ⟨hN, ?_, ?_⟩
    · unfold val; rw [inv_div]; rfl
    · unfold val
      exact div_ne_zero (fun e => hN (ι_eq_zero.1 e)) (ιD_ne_zero' hf)

theorem val_rDiv {f g r : ZF K} (hf : RV f) (hg : RV g) (h : rDiv f g = some r) :
    RV r ∧ val r = val f / val g ∧ val g ≠ 0 := by
  unfold rDiv at h
  obtain ⟨i, hi, rfl⟩ := Option.map_eq_some_iff.1 h
  obtain ⟨hiv, hival, hg0⟩ := val_rInv hg hi
  obtain ⟨h1, h2⟩ := val_rMul hf hiv
  exact ⟨h1, by rw [h2, hival, div_eq_mul_inv], hg0⟩

theorem val_rPowN {f : ZF K} (hf : RV f) (n : ℕ) : RV (rPowN f n) ∧ val (rPowN f n) = val f ^ n := by
  have hD : D (rPowN f n) = D f ^ n := toLaurent_sPow _ _
  have hN : N (rPowN f n) = N f ^ n := toLaurent_sPow _ _
  refine ⟨by unfold RV; rw [hD]; exact pow_ne_zero _ hf, ?_⟩
  unfold val
  rw [hD, hN, map_pow, map_pow, div_pow]

theorem val_rPow {f r : ZF K} (hf : RV f) (n : ℤ) (h : rPow f n = some r) :
    RV r ∧ val r = val f ^ n ∧ (0 ≤ n ∨ val f ≠ 0) := by
  unfold rPow at h
  split at h
  · rename_i hn
    obtain rfl := Option.some.inj h
    obtain ⟨h1, h2⟩ := val_rPowN hf n.toNat
    refine ⟨h1, ?_, Or.inl hn⟩
    rw [h2, ← zpow_natCast, Int.toNat_of_nonneg hn]
  · rename_i hn
    obtain ⟨i, hi, rfl⟩ := Option.map_eq_some_iff.1 h
    obtain ⟨hiv, hival, hf0⟩ := val_rInv hf hi
    obtain ⟨h1, h2⟩ := val_rPowN hiv (-n).toNat
    refine ⟨h1, ?_, Or.inr hf0⟩
    rw [h2, hival, inv_pow, ← zpow_natCast, Int.toNat_of_nonneg (by omega), ← zpow_neg, neg_neg]

theorem val_rEvalFold {g : ZF K} (hg : RV g) (l : MPoly K) :
    ∀ r, l.foldr (fun kv acc => do
        let s ← acc
        let gk ← rPow g (-kv.1)
        pure (rAdd (rMul (rScalar kv.2) gk) s)) (some (rScalar 0)) = some r →
      RV r ∧ val r = evalQ (val g) l ∧ ∀ kv ∈ l, 0 ≤ -kv.1 ∨ val g ≠ 0 := by
  induction l with
  | nil =>
    intro r h
    obtain rfl := Option.some.inj h
    obtain ⟨h1, h2⟩ := val_rScalar (0 : K)
    exact ⟨h1, by rw [h2]; simp [evalQ], by simp⟩
  | cons a t ih =>
    intro r h
    rw [List.foldr_cons] at h
    obtain ⟨s, hs, h⟩ := Option.bind_eq_some_iff.1 h
    obtain ⟨gk, hgk, h⟩ := Option.bind_eq_some_iff.1 h
    obtain rfl := Option.some.inj h
    obtain ⟨sv, sval, sall⟩ := ih s hs
    obtain ⟨gv, gval, gcond⟩ := val_rPow hg (-a.1) hgk
    obtain ⟨cv, cval⟩ := val_rScalar a.2
    obtain ⟨mv, mval⟩ := val_rMul cv gv
    obtain ⟨av, aval⟩ := val_rAdd mv sv
    refine ⟨av, ?_, ?_⟩
    · rw [aval, mval, cval, gval, sval]; simp [evalQ]
    · intro kv hkv
      rcases List.mem_cons.1 hkv with rfl | hkv
      · exact gcond
      · exact sall kv hkv

theorem val_rEvalPoly {g r : ZF K} (hg : RV g) (p : MPoly K) (h : rEvalPoly p g = some r) :
    RV r ∧ val r = evalQ (val g) (canon p) ∧ ∀ kv ∈ canon p, 0 ≤ -kv.1 ∨ val g ≠ 0 :=
  val_rEvalFold hg (canon p) r h

theorem val_rSubst {f g r : ZF K} (hg : RV g) (h : rSubst f g = some r) :
    RV r ∧ val r = evalQ (val g) (canon f.num) / evalQ (val g) (canon f.den) ∧
      evalQ (val g) (canon f.den) ≠ 0 ∧ ∀ kv ∈ canon f.num ++ canon f.den, 0 ≤ -kv.1 ∨ val g ≠ 0 := by
  unfold rSubst at h
  obtain ⟨n, hn, h⟩ := Option.bind_eq_some_iff.1 h
  obtain ⟨d, hd, h⟩ := Option.bind_eq_some_iff.1 h
  obtain ⟨nv, nval, nall⟩ := val_rEvalPoly hg f.num hn
  obtain ⟨dv, dval, dall⟩ := val_rEvalPoly hg f.den hd
  obtain ⟨rv, rval, d0⟩ := val_rDiv nv dv h
  refine ⟨rv, by rw [rval, nval, dval], by rw [← dval]; exact d0, ?_⟩
  intro kv hkv
  rcases List.mem_append.1 hkv with h1 | h1
  · exact nall kv h1
  · exact dall kv h1

/-! ### `rEquiv` decides `≈` -/

theorem canon_inj {p q : MPoly K} : canon p = canon q ↔ toLaurent p = toLaurent q := by
  constructor
  · intro h; rw [← toLaurent_canon p, ← toLaurent_canon q, h]
  · intro h
    have h1 : sortAsc (canon p) = canon q :=
      sortAsc_eq_of_toLaurent (wf_canon p) (wf_canon q) (ascending_canonOn _ _)
        (by rw [toLaurent_canon, toLaurent_canon, h])
    have h2 : sortAsc (canon p) = canon p := sortAsc_of_ascending (ascending_canonOn _ _)
    rw [h2] at h1
    exact h1

theorem rEquiv_iff (f g : ZF K) : rEquiv f g = true ↔ Equiv f g := by
  unfold rEquiv sEq Equiv
  rw [beq_iff_eq, canon_inj, toLaurent_sMul, toLaurent_sMul]
  rfl

/-! ### substitution into a literal, general form -/

theorem subst_den' {f g : ZF K} (hf : Valid f) (hg : Valid g)
    (hl : ∀ kv ∈ f.num ++ f.den, 0 ≤ -kv.1 ∨ g.num ≠ [])
    (hd : evalQ (val g) f.den ≠ 0) :
    Den (subst f g) (evalQ (val g) f.num / evalQ (val g) f.den) := by
  unfold subst
  refine (substSum_den hg f.num fun kv hkv => hl kv (List.mem_append_left _ hkv)).bind fun n hn en => ?_
  refine (substSum_den hg f.den fun kv hkv => hl kv (List.mem_append_right _ hkv)).bind fun d hdv ed => ?_
  have hd0 : d.num ≠ [] := by
    intro e
    have := (val_eq_zero_iff hdv).2 e
    rw [ed] at this
    exact hd this
  rw [← en, ← ed]
  exact truediv_den hn hdv hd0

/-! ### every expression tree -/

theorem num_ne_nil_of_val {h : ZF K} (hv : Valid h) (h0 : val h ≠ 0) : h.num ≠ [] :=
  fun e => h0 ((val_eq_zero_iff hv).2 e)

/-- **the as-coded evaluation of an expression tree denotes the textbook value**, whenever that
value is defined; by induction on the tree (any depth, any filter orders) -/
theorem run_denotes (e : Expr K) : ∀ s, e.Lits Valid → e.value = some s → RV s ∧ Den e.run (val s) := by
  induction e with
  | lit f =>
    intro s hl h
    simp only [Expr.value] at h
    split at h
    · cases h
    · obtain rfl := Option.some.inj h
      have hv : Valid f := hl
      exact ⟨by unfold RV; rw [D_rOf]; exact D_ne_zero hv, by rw [val_rOf]; exact Den.ok hv⟩
  | scalar c =>
    intro s _ h
    obtain rfl := Option.some.inj h
    obtain ⟨h1, h2⟩ := val_rScalar c
    exact ⟨h1, by rw [h2]; exact ofScalar_den c⟩
  | neg e ih =>
    intro s hl h
    obtain ⟨x, hx, rfl⟩ := Option.map_eq_some_iff.1 h
    obtain ⟨xv, xd⟩ := ih x hl hx
    obtain ⟨h1, h2⟩ := val_rNeg xv
    exact ⟨h1, by rw [h2]; exact xd.bind fun y hy ey => by rw [← ey]; exact neg_den hy⟩
  | pos e ih =>
    intro s hl h
    obtain ⟨xv, xd⟩ := ih s hl h
    exact ⟨xv, xd.bind fun y hy ey => by rw [← ey]; exact pos_den hy⟩
  | add a b iha ihb =>
    intro s hl h
    obtain ⟨x, hx, h⟩ := Option.bind_eq_some_iff.1 h
    obtain ⟨y, hy, h⟩ := Option.bind_eq_some_iff.1 h
    obtain rfl := Option.some.inj h
    obtain ⟨xv, xd⟩ := iha x hl.1 hx
    obtain ⟨yv, yd⟩ := ihb y hl.2 hy
    obtain ⟨h1, h2⟩ := val_rAdd xv yv
    exact ⟨h1, by
      rw [h2]; exact xd.bind fun p hp ep => yd.bind fun q hq eq => by rw [← ep, ← eq]; exact add_den hp hq⟩
  | sub a b iha ihb =>
    intro s hl h
    obtain ⟨x, hx, h⟩ := Option.bind_eq_some_iff.1 h
    obtain ⟨y, hy, h⟩ := Option.bind_eq_some_iff.1 h
    obtain rfl := Option.some.inj h
    obtain ⟨xv, xd⟩ := iha x hl.1 hx
    obtain ⟨yv, yd⟩ := ihb y hl.2 hy
    obtain ⟨h1, h2⟩ := val_rSub xv yv
    exact ⟨h1, by
      rw [h2]; exact xd.bind fun p hp ep => yd.bind fun q hq eq => by rw [← ep, ← eq]; exact sub_den hp hq⟩
  | mul a b iha ihb =>
    intro s hl h
    obtain ⟨x, hx, h⟩ := Option.bind_eq_some_iff.1 h
    obtain ⟨y, hy, h⟩ := Option.bind_eq_some_iff.1 h
    obtain rfl := Option.some.inj h
    obtain ⟨xv, xd⟩ := iha x hl.1 hx
    obtain ⟨yv, yd⟩ := ihb y hl.2 hy
    obtain ⟨h1, h2⟩ := val_rMul xv yv
    exact ⟨h1, by
      rw [h2]; exact xd.bind fun p hp ep => yd.bind fun q hq eq => by rw [← ep, ← eq]; exact mul_den hp hq⟩
  | div a b iha ihb =>
    intro s hl h
    obtain ⟨x, hx, h⟩ := Option.bind_eq_some_iff.1 h
    obtain ⟨y, hy, h⟩ := Option.bind_eq_some_iff.1 h
    obtain ⟨xv, xd⟩ := iha x hl.1 hx
    obtain ⟨yv, yd⟩ := ihb y hl.2 hy
    obtain ⟨h1, h2, h3⟩ := val_rDiv xv yv h
    exact ⟨h1, by
      rw [h2]
      exact xd.bind fun p hp ep => yd.bind fun q hq eq => by
        rw [← ep, ← eq]; exact truediv_den hp hq (num_ne_nil_of_val hq (by rw [eq]; exact h3))⟩
  | pow e n ih =>
    intro s hl h
    obtain ⟨x, hx, h⟩ := Option.bind_eq_some_iff.1 h
    obtain ⟨xv, xd⟩ := ih x hl hx
    obtain ⟨h1, h2, h3⟩ := val_rPow xv n h
    exact ⟨h1, by
      rw [h2]
      exact xd.bind fun p hp ep => by
        rw [← ep]
        exact pow_den hp n (h3.imp id fun h0 => num_ne_nil_of_val hp (by rw [ep]; exact h0))⟩
  | muls e c ih =>
    intro s hl h
    obtain ⟨x, hx, h⟩ := Option.bind_eq_some_iff.1 h
    obtain rfl := Option.some.inj h
    obtain ⟨xv, xd⟩ := ih x hl hx
    obtain ⟨cv, cval⟩ := val_rScalar c
    obtain ⟨h1, h2⟩ := val_rMul xv cv
    exact ⟨h1, by rw [h2, cval]; exact xd.bind fun p hp ep => by rw [← ep]; exact mulScalar_den hp c⟩
  | divs e c ih =>
    intro s hl h
    obtain ⟨x, hx, h⟩ := Option.bind_eq_some_iff.1 h
    obtain ⟨xv, xd⟩ := ih x hl hx
    obtain ⟨cv, cval⟩ := val_rScalar c
    obtain ⟨h1, h2, h3⟩ := val_rDiv xv cv h
    have hc : c ≠ 0 := by
      rintro rfl
      apply h3
      rw [cval, map_zero, map_zero]
    exact ⟨h1, by rw [h2, cval]; exact xd.bind fun p hp ep => by rw [← ep]; exact divScalar_den hp hc⟩
  | subst f e ih =>
    intro s hl h
    simp only [Expr.value] at h
    split at h
    · cases h
    · obtain ⟨y, hy, h⟩ := Option.bind_eq_some_iff.1 h
      obtain ⟨yv, yd⟩ := ih y hl.2 hy
      have hf : Valid f := hl.1
      have hyr : RV y := yv
      obtain ⟨h1, h2, h3, h4⟩ := val_rSubst hyr h
      -- the specification pair of the literal holds the canonical forms of f's polynomials
      have e1 : canon (rOf f).num = canon f.num := by
        show canon (canon f.num) = canon f.num
        exact canon_inj.2 (toLaurent_canon _)
      have e2 : canon (rOf f).den = canon f.den := by
        show canon (canon f.den) = canon f.den
        exact canon_inj.2 (toLaurent_canon _)
      rw [e1, e2, evalQ_canon hf.1, evalQ_canon hf.2.1] at h2
      rw [e2, evalQ_canon hf.2.1] at h3
      rw [e1, e2] at h4
      refine ⟨h1, ?_⟩
      rw [h2]
      refine yd.bind fun q hq eq => ?_
      rw [← eq] at h3 ⊢
      refine subst_den' hf hq ?_ h3
      intro kv hkv
      have hmem : kv ∈ canon f.num ++ canon f.den := by
        rcases List.mem_append.1 hkv with hk | hk
        · exact List.mem_append_left _ ((canon_perm hf.1).symm.subset hk)
        · exact List.mem_append_right _ ((canon_perm hf.2.1).symm.subset hk)
      exact (h4 kv hmem).imp id fun h0 => num_ne_nil_of_val hq (by rw [eq]; exact h0)

/-! ### `linearize` on integer delays -/

theorem toLaurent_perm {p q : MPoly K} (h : p.Perm q) : toLaurent p = toLaurent q :=
  (h.map _).sum_eq

theorem wf_perm {p q : MPoly K} (h : p.Perm q) (hp : WF p) : WF q :=
  ⟨(h.map _).nodup_iff.1 hp.1, fun kv hkv => hp.2 kv (h.symm.subset hkv)⟩

theorem linearize_den {f : ZF K} (hf : Valid f) : Den (linearize f) (val f) := by
  have hpn : (sortAsc f.num).Perm f.num := List.mergeSort_perm _ _
  have hpd : (sortAsc f.den).Perm f.den := List.mergeSort_perm _ _
  have wn : WF (sortAsc f.num) := wf_perm hpn.symm hf.1
  have wd : WF (sortAsc f.den) := wf_perm hpd.symm hf.2.1
  have hd0 : sortAsc f.den ≠ [] := by
    intro e; apply hf.2.2; have := hpd.length_eq; rw [e] at this; exact List.length_eq_zero_iff.1 this.symm
  unfold linearize ofData
  rw [mk_of_wf wn, mk_of_wf wd]
  have h := ofPolys_den wn wd hd0
  rw [toLaurent_perm hpn, toLaurent_perm hpd] at h
  exact h

end ALV.C05
