/-
  C01 — helper lemmas, program level: evaluating a Python-level expression with a class whose
  installed dunders agree with the specification table (`TableOK`) yields a value whose pointwise
  reading is `Py.at` / `Py.len`.  Core Lean only.
-/
import ALV.Lemmas.C01
namespace ALV.C01

def Val.sort : Val → Sort'
  | .scalar _ => .scalar
  | .ignored _ => .ignored
  | .iterable false _ => .iter
  | .iterable true _ => .stream

def Val.get : Val → Nat → Option Term
  | .scalar c, _ => some c
  | .ignored c, _ => some c
  | .iterable _ it, i => it.get i

def Val.len : Val → Len
  | .scalar _ => .inf
  | .ignored _ => .inf
  | .iterable _ it => it.len

/-- the class has, for every specified dunder, exactly the specified builder and function -/
def TableOK (tbl : List (Name × Dunder)) : Prop :=
  ∀ sp ∈ specTable, tbl.lookup sp.dname = some sp.dunder

structure Matches (p : Py) (so : Sort') (v : Val) : Prop where
  sort : v.sort = so
  get : ∀ i, v.get i = p.at i
  len : v.len = p.len

theorem specLookup_some {d : Name} {sp : DunderSpec} (h : specLookup d = some sp) :
    sp ∈ specTable ∧ sp.dname = d := by
  unfold specLookup at h
  refine ⟨List.mem_of_find?_eq_some h, ?_⟩
  have := List.find?_some h
  simpa using this

/-! ### inversion of the typing -/

theorem Py.sort_stream1 {a so} (h : (Py.stream1 a).sort = some so) :
    so = .stream ∧ ∃ x, a.sort = some x := by
  simp only [Py.sort] at h
  cases ha : a.sort with
  | none => simp [ha] at h
  | some x => simp [ha] at h; exact ⟨h.symm, x, rfl⟩

theorem Py.sort_stream2 {a b so} (h : (Py.stream2 a b).sort = some so) :
    so = .stream ∧ ∃ x y, a.sort = some x ∧ b.sort = some y ∧ x.isIterable = y.isIterable := by
  simp only [Py.sort] at h
  cases ha : a.sort with
  | none => simp [ha] at h
  | some x =>
    cases hb : b.sort with
    | none => simp [ha, hb] at h
    | some y =>
      simp only [ha, hb] at h
      by_cases hxy : x.isIterable = y.isIterable
      · simp [hxy] at h; exact ⟨h.symm, x, y, rfl, rfl, hxy⟩
      · simp [hxy] at h

theorem Py.sort_un {d s so} (h : (Py.un d s).sort = some so) :
    so = .stream ∧ s.sort = some .stream ∧ ∃ sp, specLookup d = some sp ∧ sp.arity = 1 := by
  simp only [Py.sort] at h
  split at h
  · rename_i sp hs hl
    by_cases ha : sp.arity = 1
    · simp [ha] at h; exact ⟨h.symm, hs, sp, hl, ha⟩
    · simp [ha] at h
  · simp at h

theorem Py.sort_bin {d s o so} (h : (Py.bin d s o).sort = some so) :
    so = .stream ∧ s.sort = some .stream ∧
      ∃ sp so', specLookup d = some sp ∧ sp.arity = 2 ∧ o.sort = some so' ∧ so' ≠ .ignored := by
  simp only [Py.sort] at h
  split at h
  · rename_i sp so' hs hl ho
    by_cases ha : sp.arity = 2
    · by_cases hi : so' = .ignored
      · simp [ha, hi] at h
      · simp [ha, hi] at h; exact ⟨h.symm, hs, sp, so', hl, ha, ho, hi⟩
    · simp [ha] at h
  · simp at h

theorem Py.sort_meth {l s so} (h : (Py.meth l s).sort = some so) :
    so = .stream ∧ s.sort = some .stream := by
  simp only [Py.sort] at h
  split at h
  · rename_i hs; simp at h; exact ⟨h.symm, hs⟩
  · simp at h

theorem Py.sort_append {s o so} (h : (Py.append s o).sort = some so) :
    so = .stream ∧ s.sort = some .stream ∧ ∃ y, o.sort = some y := by
  simp only [Py.sort] at h
  split at h
  · rename_i y hs ho; simp at h; exact ⟨h.symm, hs, y, ho⟩
  · simp at h

theorem Py.isIterable_of_sort {p : Py} {so} (h : p.sort = some so) : p.isIterable = so.isIterable := by
  cases p with
  | scalar c => simp [Py.sort] at h; subst h; rfl
  | ignored c => simp [Py.sort] at h; subst h; rfl
  | iterable t xs => simp [Py.sort] at h; subst h; rfl
  | stream1 a => rw [(Py.sort_stream1 h).1]; rfl
  | stream2 a b => rw [(Py.sort_stream2 h).1]; rfl
  | un d s => rw [(Py.sort_un h).1]; rfl
  | bin d s o => rw [(Py.sort_bin h).1]; rfl
  | meth l s => rw [(Py.sort_meth h).1]; rfl
  | append s o => rw [(Py.sort_append h).1]; rfl

theorem Val.of_sort_stream {v : Val} (h : v.sort = .stream) : ∃ it, v = .iterable true it := by
  cases v with
  | scalar c => simp [Val.sort] at h
  | ignored c => simp [Val.sort] at h
  | iterable b it => cases b <;> simp [Val.sort] at h; exact ⟨it, rfl⟩

/-- a scalar operand shows the same element at every position and never ends -/
theorem Val.scalar_like {v : Val} (h : v.sort.isIterable = false) :
    ∃ c, (v = .scalar c ∨ v = .ignored c) ∧ (∀ i, v.get i = some c) ∧ v.len = .inf := by
  cases v with
  | scalar c => exact ⟨c, Or.inl rfl, fun _ => rfl, rfl⟩
  | ignored c => exact ⟨c, Or.inr rfl, fun _ => rfl, rfl⟩
  | iterable b it => cases b <;> simp [Val.sort, Sort'.isIterable] at h

theorem Val.iterable_like {v : Val} (h : v.sort.isIterable = true) :
    ∃ b it, v = .iterable b it := by
  cases v with
  | scalar c => simp [Val.sort, Sort'.isIterable] at h
  | ignored c => simp [Val.sort, Sort'.isIterable] at h
  | iterable b it => exact ⟨b, it, rfl⟩

/-! ### `Stream.__init__` -/

theorem streamInit1_matches (v : Val) :
    (streamInit1 v).sort = .stream ∧ (∀ i, (streamInit1 v).get i = v.get i) ∧ (streamInit1 v).len = v.len := by
  cases v with
  | scalar c => exact ⟨rfl, fun _ => rfl, rfl⟩
  | ignored c => exact ⟨rfl, fun _ => rfl, rfl⟩
  | iterable b it => exact ⟨rfl, fun _ => rfl, rfl⟩

theorem cycle2_get (a b : Term) (i : Nat) :
    (Iter.cycle [a, b] [a, b]).get i = if i % 2 = 0 then some a else some b := by
  simp only [Iter.get, List.length_cons, List.length_nil]
  by_cases h : i < 2
  · have : i = 0 ∨ i = 1 := by omega
    rcases this with rfl | rfl <;> simp
  · simp only [Nat.zero_add, Nat.reduceAdd, h, if_false]
    have h2 : (i - 2) % 2 = i % 2 := by omega
    rw [h2]
    have : i % 2 = 0 ∨ i % 2 = 1 := by omega
    rcases this with h0 | h1
    · simp [h0]
    · simp [h1]

/-! ### the dunders -/

theorem binaryDunder_spec (f : Name) (self : Iter) (vo : Val) (hni : vo.sort ≠ .ignored) :
    ∃ it, binaryDunder f self vo = .ok (.iterable true it) ∧
      (∀ i, it.get i = match self.get i, vo.get i with
                        | some x, some y => some (.app f [x, y])
                        | _, _ => none) ∧
      it.len = self.len.min vo.len := by
  cases vo with
  | ignored c => simp [Val.sort] at hni
  | scalar c =>
    refine ⟨_, rfl, fun i => ?_, by simp [Iter.len, Val.len]⟩
    simp only [Iter.get, Val.get]
    cases self.get i <;> rfl
  | iterable b o =>
    refine ⟨_, rfl, fun i => ?_, rfl⟩
    simp only [Iter.get, Val.get]
    cases self.get i <;> cases o.get i <;> rfl

theorem rbinaryDunder_spec (f : Name) (self : Iter) (vo : Val) (hni : vo.sort ≠ .ignored) :
    ∃ it, rbinaryDunder f self vo = .ok (.iterable true it) ∧
      (∀ i, it.get i = match self.get i, vo.get i with
                        | some x, some y => some (.app f [y, x])
                        | _, _ => none) ∧
      it.len = self.len.min vo.len := by
  cases vo with
  | ignored c => simp [Val.sort] at hni
  | scalar c =>
    refine ⟨_, rfl, fun i => ?_, by simp [Iter.len, Val.len]⟩
    simp only [Iter.get, Val.get]
    cases self.get i <;> rfl
  | iterable b o =>
    refine ⟨_, rfl, fun i => ?_, ?_⟩
    · simp only [Iter.get, Val.get]
      cases self.get i <;> cases o.get i <;> rfl
    · simp only [Iter.len, Val.len]
      cases self.len <;> cases o.len <;> simp [Len.min, Nat.min_comm]

/-! ### evaluation refines the specification -/

theorem evalPy_sound (tbl : List (Name × Dunder)) (htbl : TableOK tbl) :
    ∀ (p : Py) (so : Sort'), p.sort = some so → ∃ v, evalPy tbl p = .ok v ∧ Matches p so v := by
  intro p
  induction p with
  | scalar c =>
    intro so h; simp [Py.sort] at h; subst h
    exact ⟨_, rfl, rfl, fun _ => rfl, rfl⟩
  | ignored c =>
    intro so h; simp [Py.sort] at h; subst h
    exact ⟨_, rfl, rfl, fun _ => rfl, rfl⟩
  | iterable t xs =>
    intro so h; simp [Py.sort] at h; subst h
    exact ⟨_, rfl, rfl, fun _ => rfl, rfl⟩
  | stream1 a iha =>
    intro so h
    obtain ⟨rfl, x, hx⟩ := Py.sort_stream1 h
    obtain ⟨va, hva, hm⟩ := iha x hx
    obtain ⟨h1, h2, h3⟩ := streamInit1_matches va
    refine ⟨streamInit1 va, by simp [evalPy, hva, bind, Except.bind, pure, Except.pure], h1, fun i => ?_, ?_⟩
    · rw [h2, hm.get]; rfl
    · rw [h3, hm.len]; rfl
  | stream2 a b iha ihb =>
    intro so h
    obtain ⟨rfl, x, y, hx, hy, hxy⟩ := Py.sort_stream2 h
    obtain ⟨va, hva, hma⟩ := iha x hx
    obtain ⟨vb, hvb, hmb⟩ := ihb y hy
    have hia := Py.isIterable_of_sort hx
    cases hxi : x.isIterable with
    | true =>
      have hyi : y.isIterable = true := by rw [← hxy, hxi]
      obtain ⟨ba, ia, rfl⟩ := Val.iterable_like (by rw [hma.sort, hxi])
      obtain ⟨bb, ib, rfl⟩ := Val.iterable_like (by rw [hmb.sort, hyi])
      refine ⟨.iterable true (.chain ia ib),
        by simp [evalPy, hva, hvb, bind, Except.bind, streamInit2], rfl, fun i => ?_, ?_⟩
      · have ga : ∀ i, ia.get i = a.at i := hma.get
        have gb : ∀ i, ib.get i = b.at i := hmb.get
        have la : ia.len = a.len := hma.len
        simp only [Val.get, Iter.get, Py.at, hia, hxi, if_true, la]
        simp only [chainAt, ga, gb]
      · have la : ia.len = a.len := hma.len
        have lb : ib.len = b.len := hmb.len
        simp only [Val.len, Iter.len, Py.len, la, lb]
    | false =>
      have hyi : y.isIterable = false := by rw [← hxy, hxi]
      obtain ⟨ca, hca, gca, lca⟩ := Val.scalar_like (v := va) (by rw [hma.sort, hxi])
      obtain ⟨cb, hcb, gcb, lcb⟩ := Val.scalar_like (v := vb) (by rw [hmb.sort, hyi])
      have ea : ∀ i, a.at i = some ca := fun i => by rw [← hma.get, gca]
      have eb : ∀ i, b.at i = some cb := fun i => by rw [← hmb.get, gcb]
      have hla : a.len = .inf := by rw [← hma.len, lca]
      refine ⟨.iterable true (.cycle [ca, cb] [ca, cb]), ?_, rfl, fun i => ?_, ?_⟩
      · rcases hca with rfl | rfl <;> rcases hcb with rfl | rfl <;>
          simp [evalPy, hva, hvb, bind, Except.bind, streamInit2]
      · simp only [Val.get, Py.at, hia, hxi, cycle2_get, ea, eb]
        simp
      · simp [Val.len, Iter.len, Py.len, hla]
  | un d s ihs =>
    intro so h
    obtain ⟨rfl, hs, sp, hl, har⟩ := Py.sort_un h
    obtain ⟨vs, hvs, hms⟩ := ihs _ hs
    obtain ⟨its, rfl⟩ := Val.of_sort_stream hms.sort
    obtain ⟨hmem, hdn⟩ := specLookup_some hl
    have hlook := htbl sp hmem
    rw [hdn] at hlook
    have hb : sp.dunder.builder = .unary := by simp [DunderSpec.dunder, DunderSpec.builder, har]
    refine ⟨.iterable true (.map1 sp.fn its), ?_, rfl, fun i => ?_, ?_⟩
    · simp [evalPy, hvs, bind, Except.bind, asStream, callDunder, hlook, hb, unaryDunder]
      rfl
    · have gs : ∀ i, its.get i = s.at i := hms.get
      simp only [Val.get, Iter.get, Py.at, hl, gs]
      cases s.at i <;> rfl
    · have ls : its.len = s.len := hms.len
      simp only [Val.len, Iter.len, Py.len, ls]
  | bin d s o ihs iho =>
    intro so h
    obtain ⟨rfl, hs, sp, so', hl, har, ho, hni⟩ := Py.sort_bin h
    obtain ⟨vs, hvs, hms⟩ := ihs _ hs
    obtain ⟨vo, hvo, hmo⟩ := iho _ ho
    obtain ⟨its, rfl⟩ := Val.of_sort_stream hms.sort
    obtain ⟨hmem, hdn⟩ := specLookup_some hl
    have hlook := htbl sp hmem
    rw [hdn] at hlook
    have gs : ∀ i, its.get i = s.at i := hms.get
    have ls : its.len = s.len := hms.len
    have hvni : vo.sort ≠ .ignored := by rw [hmo.sort]; exact hni
    have go : ∀ i, vo.get i = o.at i := hmo.get
    have lo : vo.len = o.len := hmo.len
    cases hr : sp.reflected with
    | false =>
      have hb : sp.dunder.builder = .binary := by simp [DunderSpec.dunder, DunderSpec.builder, har, hr]
      obtain ⟨it, hit, hg, hlen⟩ := binaryDunder_spec sp.fn its vo hvni
      refine ⟨.iterable true it, ?_, rfl, fun i => ?_, ?_⟩
      · simp [evalPy, hvs, hvo, bind, Except.bind, asStream, callDunder, hlook, hb]
        exact hit
      · show it.get i = _
        rw [hg, gs, go]
        simp only [Py.at, hl]
        cases s.at i <;> cases o.at i <;> simp [hr]
      · show it.len = _
        rw [hlen, ls, lo]; rfl
    | true =>
      have hb : sp.dunder.builder = .rbinary := by simp [DunderSpec.dunder, DunderSpec.builder, har, hr]
      obtain ⟨it, hit, hg, hlen⟩ := rbinaryDunder_spec sp.fn its vo hvni
      refine ⟨.iterable true it, ?_, rfl, fun i => ?_, ?_⟩
      · simp [evalPy, hvs, hvo, bind, Except.bind, asStream, callDunder, hlook, hb]
        exact hit
      · show it.get i = _
        rw [hg, gs, go]
        simp only [Py.at, hl]
        cases s.at i <;> cases o.at i <;> simp [hr]
      · show it.len = _
        rw [hlen, ls, lo]; rfl
  | meth l s ihs =>
    intro so h
    obtain ⟨rfl, hs⟩ := Py.sort_meth h
    obtain ⟨vs, hvs, hms⟩ := ihs _ hs
    obtain ⟨its, rfl⟩ := Val.of_sort_stream hms.sort
    refine ⟨.iterable true (.map1 l its), ?_, rfl, fun i => ?_, ?_⟩
    · simp [evalPy, hvs, bind, Except.bind, asStream, pure, Except.pure]
    · have gs : ∀ i, its.get i = s.at i := hms.get
      simp only [Val.get, Iter.get, Py.at, gs]
      rfl
    · have ls : its.len = s.len := hms.len
      simp only [Val.len, Iter.len, Py.len, ls]
  | append s o ihs iho =>
    intro so h
    obtain ⟨rfl, hs, y, ho⟩ := Py.sort_append h
    obtain ⟨vs, hvs, hms⟩ := ihs _ hs
    obtain ⟨vo, hvo, hmo⟩ := iho _ ho
    obtain ⟨its, rfl⟩ := Val.of_sort_stream hms.sort
    obtain ⟨h1, h2, h3⟩ := streamInit1_matches vo
    obtain ⟨io, hio⟩ := Val.of_sort_stream h1
    have gs : ∀ i, its.get i = s.at i := hms.get
    have ls : its.len = s.len := hms.len
    have go : ∀ i, io.get i = o.at i := fun i => by
      have := h2 i; rw [hio] at this; exact this.trans (hmo.get i)
    have lo : io.len = o.len := by
      have := h3; rw [hio] at this; exact this.trans hmo.len
    refine ⟨.iterable true (.chain its io), ?_, rfl, fun i => ?_, ?_⟩
    · simp [evalPy, hvs, hvo, bind, Except.bind, asStream, hio, pure, Except.pure]
    · simp only [Val.get, Iter.get, Py.at, ls]
      simp only [chainAt, gs, go]
    · simp only [Val.len, Iter.len, Py.len, ls, lo]

end ALV.C01
