/-
  C01 — helper lemmas, program level: evaluating a Python-level expression with a class whose
  installed dunders agree with the specification table (`TableOK`) yields a value whose pointwise
  reading is `Py.at` / `Py.len`.  Core Lean only.
-/
import ALV.Lemmas.C01
namespace ALV.C01

def Val.sort : Val → Sort'
  | .scalar _ => .scalar
  | .ignored _ => .ignored
  | .iterable false _ => .iter
  | .iterable true _ => .stream

def Val.get : Val → Nat → Option Term
  | .scalar c, _ => some c
  | .ignored c, _ => some c
  | .iterable _ it, i => it.get i

def Val.len : Val → Len
  | .scalar _ => .inf
  | .ignored _ => .inf
  | .iterable _ it => it.len

/-- the class has, for every specified dunder, exactly the specified builder and function -/
def TableOK (tbl : List (Name × Dunder)) : Prop :=
  ∀ sp ∈ specTable, tbl.lookup sp.dname = some sp.dunder

structure Matches (p : Py) (so : Sort') (v : Val) : Prop where
  sort : v.sort = so
  get : ∀ i, v.get i = p.at i
  len : v.len = p.len

theorem specLookup_some {d : Name} {sp : DunderSpec} (h : specLookup d = some sp) :
    sp ∈ specTable ∧ sp.dname = d := by
  unfold specLookup at h
  refine ⟨List.mem_of_find?_eq_some h, ?_⟩
  have := List.find?_some h
  simpa using this

/-! ### inversion of the typing -/

theorem Py.sort_stream1 {a so} (h : (Py.stream1 a).sort = some so) :
    so = .stream ∧ ∃ x, a.sort = some x := by
  simp only [Py.sort] at h
  cases ha : a.sort with
  | none => simp [ha] at h
  | some x => simp [ha] at h; exact ⟨h.symm, x, rfl⟩

theorem Py.sort_stream2 {a b so} (h : (Py.stream2 a b).sort = some so) :
    so = .stream ∧ ∃ x y, a.sort = some x ∧ b.sort = some y ∧ x.isIterable = y.isIterable := by
  simp only [Py.sort] at h
  cases ha : a.sort with
  | none => simp [ha] at h
  | some x =>
    cases hb : b.sort with
    | none => simp [ha, hb] at h
    | some y =>
      simp only [ha, hb] at h
      by_cases hxy : x.isIterable = y.isIterable
      · simp [hxy] at h; exact ⟨h.symm, x, y, rfl, rfl, hxy⟩
      · simp [hxy] at h

theorem Py.sort_un {d s so} (h : (Py.un d s).sort = some so) :
    so = .stream ∧ s.sort = some .stream ∧ ∃ sp, specLookup d = some sp ∧ sp.arity = 1 := by
  simp only [Py.sort] at h
  split at h
  · rename_i sp hs hl
    by_cases ha : sp.arity = 1
    · simp [ha] at h; exact ⟨h.symm, hs, sp, hl, ha⟩
    · simp [ha] at h
  · simp at h

theorem Py.sort_bin {d s o so} (h : (Py.bin d s o).sort = some so) :
    so = .stream ∧ s.sort = some .stream ∧
      ∃ sp so', specLookup d = some sp ∧ sp.arity = 2 ∧ o.sort = some so' ∧ so' ≠ .ignored := by
  simp only [Py.sort] at h
  split at h
  · rename_i sp so' hs hl ho
    by_cases ha : sp.arity = 2
    · by_cases hi : so' = .ignored
      · simp [ha, hi] at h
      · simp [ha, hi] at h; exact ⟨h.symm, hs, sp, so', hl, ha, ho, hi⟩
    · simp [ha] at h
  · simp at h

theorem Py.sort_meth {g l s so} (h : (Py.meth g l s).sort = some so) :
    so = .stream ∧ s.sort = some .stream := by
  simp only [Py.sort] at h
  split at h
  · rename_i hs; simp at h; exact ⟨h.symm, hs⟩
  · simp at h

theorem Py.sort_append {s o so} (h : (Py.append s o).sort = some so) :
    so = .stream ∧ s.sort = some .stream ∧ ∃ y, o.sort = some y := by
  simp only [Py.sort] at h
  split at h
  · rename_i y hs ho; simp at h; exact ⟨h.symm, hs, y, ho⟩
  · simp at h

theorem Py.isIterable_of_sort {p : Py} {so} (h : p.sort = some so) : p.isIterable = so.isIterable := by
  cases p with
  | scalar c => simp [Py.sort] at h; subst h; rfl
  | ignored c => simp [Py.sort] at h; subst h; rfl
  | iterable t xs => simp [Py.sort] at h; subst h; rfl
  | stream1 a => rw [(Py.sort_stream1 h).1]; rfl
  | stream2 a b => rw [(Py.sort_stream2 h).1]; rfl
  | un d s => rw [(Py.sort_un h).1]; rfl
  | bin d s o => rw [(Py.sort_bin h).1]; rfl
  | meth g l s => rw [(Py.sort_meth h).1]; rfl
  | append s o => rw [(Py.sort_append h).1]; rfl

theorem Val.of_sort_stream {v : Val} (h : v.sort = .stream) : ∃ it, v = .iterable true it := by
  cases v with
  | scalar c => simp [Val.sort] at h
  | ignored c => simp [Val.sort] at h
  | iterable b it => cases b <;> simp [Val.sort] at h; exact ⟨it, rfl⟩

/-- a scalar operand shows the same element at every position and never ends -/
theorem Val.scalar_like {v : Val} (h : v.sort.isIterable = false) :
    ∃ c, (v = .scalar c ∨ v = .ignored c) ∧ (∀ i, v.get i = some c) ∧ v.len = .inf := by
  cases v with
  | scalar c => exact ⟨c, Or.inl rfl, fun _ => rfl, rfl⟩
  | ignored c => exact ⟨c, Or.inr rfl, fun _ => rfl, rfl⟩
  | iterable b it => cases b <;> simp [Val.sort, Sort'.isIterable] at h

theorem Val.iterable_like {v : Val} (h : v.sort.isIterable = true) :
    ∃ b it, v = .iterable b it := by
  cases v with
  | scalar c => simp [Val.sort, Sort'.isIterable] at h
  | ignored c => simp [Val.sort, Sort'.isIterable] at h
  | iterable b it => exact ⟨b, it, rfl⟩

/-! ### `Stream.__init__` -/

theorem streamInit1_matches (v : Val) :
    (streamInit1 v).sort = .stream ∧ (∀ i, (streamInit1 v).get i = v.get i) ∧ (streamInit1 v).len = v.len := by
  cases v with
  | scalar c => exact ⟨rfl, fun _ => rfl, rfl⟩
  | ignored c => exact ⟨rfl, fun _ => rfl, rfl⟩
  | iterable b it => exact ⟨rfl, fun _ => rfl, rfl⟩

theorem cycle2_get (a b : Term) (i : Nat) :
    (Iter.cycle [a, b] [a, b]).get i = if i % 2 = 0 then some a else some b := by
  simp only [Iter.get, List.length_cons, List.length_nil]
  by_cases h : i < 2
  · have : i = 0 ∨ i = 1 := by omega
    rcases this with rfl | rfl <;> simp
  · simp only [Nat.zero_add, Nat.reduceAdd, h, if_false]
    have h2 : (i - 2) % 2 = i % 2 := by omega
    rw [h2]
    have : i % 2 = 0 ∨ i % 2 = 1 := by omega
    rcases this with h0 | h1
    · simp [h0]
    · simp [h1]

/-! ### the dunders -/

theorem binaryDunder_spec (f : Name) (self : Iter) (vo : Val) (hni : vo.sort ≠ .ignored) :
    ∃ it, binaryDunder f self vo = .ok (.iterable true it) ∧
      (∀ i, it.get i = match self.get i, vo.get i with
                        | some x, some y => some (.app f [x, y])
                        | _, _ => none) ∧
      it.len = self.len.min vo.len := by
  cases vo with
  | ignored c => simp [Val.sort] at hni
  | scalar c =>
    refine ⟨_, rfl, fun i => ?_, by simp [Iter.len, Val.len]⟩
    simp only [Iter.get, Val.get]
    cases self.get i <;> rfl
  | iterable b o =>
    refine ⟨_, rfl, fun i => ?_, rfl⟩
    simp only [Iter.get, Val.get]
    cases self.get i <;> cases o.get i <;> rfl

theorem rbinaryDunder_spec (f : Name) (self : Iter) (vo : Val) (hni : vo.sort ≠ .ignored) :
    ∃ it, rbinaryDunder f self vo = .ok (.iterable true it) ∧
      (∀ i, it.get i = match self.get i, vo.get i with
                        | some x, some y => some (.app f [y, x])
                        | _, _ => none) ∧
      it.len = self.len.min vo.len := by
  cases vo with
  | ignored c => simp [Val.sort] at hni
  | scalar c =>
    refine ⟨_, rfl, fun i => ?_, by simp [Iter.len, Val.len]⟩
    simp only [Iter.get, Val.get]
    cases self.get i <;> rfl
  | iterable b o =>
    refine ⟨_, rfl, fun i => ?_, ?_⟩
    · simp only [Iter.get, Val.get]
      cases self.get i <;> cases o.get i <;> rfl
    · simp only [Iter.len, Val.len]
      cases self.len <;> cases o.len <;> simp [Len.min, Nat.min_comm]

/-! ### evaluation refines the specification -/

theorem evalPy_sound (tbl : List (Name × Dunder)) (htbl : TableOK tbl) :
    ∀ (p : Py) (so : Sort'), p.sort = some so → ∃ v, evalPy tbl p = .ok v ∧ Matches p so v := by
  intro p
  induction p with
  | scalar c =>
    intro so h; simp [Py.sort] at h; subst h
    exact ⟨_, rfl, rfl, fun _ => rfl, rfl⟩
  | ignored c =>
    intro so h; simp [Py.sort] at h; subst h
    exact ⟨_, rfl, rfl, fun _ => rfl, rfl⟩
  | iterable t xs =>
    intro so h; simp [Py.sort] at h; subst h
    exact ⟨_, rfl, rfl, fun _ => rfl, rfl⟩
  | stream1 a iha =>
    intro so h
    obtain ⟨rfl, x, hx⟩ := Py.sort_stream1 h
    obtain ⟨va, hva, hm⟩ := iha x hx
    obtain ⟨h1, h2, h3⟩ := streamInit1_matches va
    refine ⟨streamInit1 va, by simp [evalPy, hva, bind, Except.bind, pure, Except.pure], h1, fun i => ?_, ?_⟩
    · rw [h2, hm.get]; rfl
    · rw [h3, hm.len]; rfl
  | stream2 a b iha ihb =>
    intro so h
    obtain ⟨rfl, x, y, hx, hy, hxy⟩ := Py.sort_stream2 h
    obtain ⟨va, hva, hma⟩ := iha x hx
    obtain ⟨vb, hvb, hmb⟩ := ihb y hy
    have hia := Py.isIterable_of_sort hx
    cases hxi : x.isIterable with
    | true =>
      have hyi : y.isIterable = true := by rw [← hxy, hxi]
      obtain ⟨ba, ia, rfl⟩ := Val.iterable_like (by rw [hma.sort, hxi])
      obtain ⟨bb, ib, rfl⟩ := Val.iterable_like (by rw [hmb.sort, hyi])
      refine ⟨.iterable true (.chain ia ib),
        by simp [evalPy, hva, hvb, bind, Except.bind, streamInit2], rfl, fun i => ?_, ?_⟩
      · have ga : ∀ i, ia.get i = a.at i := hma.get
        have gb : ∀ i, ib.get i = b.at i := hmb.get
        have la : ia.len = a.len := hma.len
        simp only [Val.get, Iter.get, Py.at, hia, hxi, if_true, la]
        simp only [chainAt, ga, gb]
      · have la : ia.len = a.len := hma.len
        have lb : ib.len = b.len := hmb.len
        simp only [Val.len, Iter.len, Py.len, la, lb]
    | false =>
      have hyi : y.isIterable = false := by rw [← hxy, hxi]
      obtain ⟨ca, hca, gca, lca⟩ := Val.scalar_like (v := va) (by rw [hma.sort, hxi])
      obtain ⟨cb, hcb, gcb, lcb⟩ := Val.scalar_like (v := vb) (by rw [hmb.sort, hyi])
      have ea : ∀ i, a.at i = some ca := fun i => by rw [← hma.get, gca]
      have eb : ∀ i, b.at i = some cb := fun i => by rw [← hmb.get, gcb]
      have hla : a.len = .inf := by rw [← hma.len, lca]
      refine ⟨.iterable true (.cycle [ca, cb] [ca, cb]), ?_, rfl, fun i => ?_, ?_⟩
      · rcases hca with rfl | rfl <;> rcases hcb with rfl | rfl <;>
          simp [evalPy, hva, hvb, bind, Except.bind, streamInit2]
      · simp only [Val.get, Py.at, hia, hxi, cycle2_get, ea, eb]
        simp
      · simp [Val.len, Iter.len, Py.len, hla]
  | un d s ihs =>
    intro so h
    obtain ⟨rfl, hs, sp, hl, har⟩ := Py.sort_un h
    obtain ⟨vs, hvs, hms⟩ := ihs _ hs
    obtain ⟨its, rfl⟩ := Val.of_sort_stream hms.sort
    obtain ⟨hmem, hdn⟩ := specLookup_some hl
    have hlook := htbl sp hmem
    rw [hdn] at hlook
    have hb : sp.dunder.builder = .unary := by simp [DunderSpec.dunder, DunderSpec.builder, har]
    refine ⟨.iterable true (.map1 sp.fn its), ?_, rfl, fun i => ?_, ?_⟩
    · simp [evalPy, hvs, bind, Except.bind, asStream, callDunder, hlook, hb, unaryDunder]
      rfl
    · have gs : ∀ i, its.get i = s.at i := hms.get
      simp only [Val.get, Iter.get, Py.at, hl, gs]
      cases s.at i <;> rfl
    · have ls : its.len = s.len := hms.len
      simp only [Val.len, Iter.len, Py.len, ls]
  | bin d s o ihs iho =>
    intro so h
    obtain ⟨rfl, hs, sp, so', hl, har, ho, hni⟩ := Py.sort_bin h
    obtain ⟨vs, hvs, hms⟩ := ihs _ hs
    obtain ⟨vo, hvo, hmo⟩ := iho _ ho
    obtain ⟨its, rfl⟩ := Val.of_sort_stream hms.sort
    obtain ⟨hmem, hdn⟩ := specLookup_some hl
    have hlook := htbl sp hmem
    rw [hdn] at hlook
    have gs : ∀ i, its.get i = s.at i := hms.get
    have ls : its.len = s.len := hms.len
    have hvni : vo.sort ≠ .ignored := by rw [hmo.sort]; exact hni
    have go : ∀ i, vo.get i = o.at i := hmo.get
    have lo : vo.len = o.len := hmo.len
    cases hr : sp.reflected with
    | false =>
      have hb : sp.dunder.builder = .binary := by simp [DunderSpec.dunder, DunderSpec.builder, har, hr]
      obtain ⟨it, hit, hg, hlen⟩ := binaryDunder_spec sp.fn its vo hvni
      refine ⟨.iterable true it, ?_, rfl, fun i => ?_, ?_⟩
      · simp [evalPy, hvs, hvo, bind, Except.bind, asStream, callDunder, hlook, hb]
        exact hit
      · show it.get i = _
        rw [hg, gs, go]
        simp only [Py.at, hl]
        cases s.at i <;> cases o.at i <;> simp [hr]
      · show it.len = _
        rw [hlen, ls, lo]; rfl
    | true =>
      have hb : sp.dunder.builder = .rbinary := by simp [DunderSpec.dunder, DunderSpec.builder, har, hr]
      obtain ⟨it, hit, hg, hlen⟩ := rbinaryDunder_spec sp.fn its vo hvni
      refine ⟨.iterable true it, ?_, rfl, fun i => ?_, ?_⟩
      · simp [evalPy, hvs, hvo, bind, Except.bind, asStream, callDunder, hlook, hb]
        exact hit
      · show it.get i = _
        rw [hg, gs, go]
        simp only [Py.at, hl]
        cases s.at i <;> cases o.at i <;> simp [hr]
      · show it.len = _
        rw [hlen, ls, lo]; rfl
  | meth g l s ihs =>
    intro so h
    obtain ⟨rfl, hs⟩ := Py.sort_meth h
    obtain ⟨vs, hvs, hms⟩ := ihs _ hs
    obtain ⟨its, rfl⟩ := Val.of_sort_stream hms.sort
    refine ⟨.iterable true (.mapc g l [] [] its), ?_, rfl, fun i => ?_, ?_⟩
    · simp [evalPy, hvs, bind, Except.bind, asStream, pure, Except.pure]
    · have gs : ∀ i, its.get i = s.at i := hms.get
      simp only [Val.get, Iter.get, Py.at, gs]
      rfl
    · have ls : its.len = s.len := hms.len
      simp only [Val.len, Iter.len, Py.len, ls]
  | append s o ihs iho =>
    intro so h
    obtain ⟨rfl, hs, y, ho⟩ := Py.sort_append h
    obtain ⟨vs, hvs, hms⟩ := ihs _ hs
    obtain ⟨vo, hvo, hmo⟩ := iho _ ho
    obtain ⟨its, rfl⟩ := Val.of_sort_stream hms.sort
    obtain ⟨h1, h2, h3⟩ := streamInit1_matches vo
    obtain ⟨io, hio⟩ := Val.of_sort_stream h1
    have gs : ∀ i, its.get i = s.at i := hms.get
    have ls : its.len = s.len := hms.len
    have go : ∀ i, io.get i = o.at i := fun i => by
      have := h2 i; rw [hio] at this; exact this.trans (hmo.get i)
    have lo : io.len = o.len := by
      have := h3; rw [hio] at this; exact this.trans hmo.len
    refine ⟨.iterable true (.chain its io), ?_, rfl, fun i => ?_, ?_⟩
    · simp [evalPy, hvs, hvo, bind, Except.bind, asStream, hio, pure, Except.pure]
    · simp only [Val.get, Iter.get, Py.at, ls]
      simp only [chainAt, gs, go]
    · simp only [Val.len, Iter.len, Py.len, ls, lo]

end ALV.C01

/-! ### the converse: ill-typed expressions are refused -/

namespace ALV.C01

/-- nothing but specified dunders is installed -/
def TableComplete (tbl : List (Name × Dunder)) : Prop :=
  ∀ d dd, tbl.lookup d = some dd → (specLookup d).map DunderSpec.dunder = some dd

theorem asStream_error {v : Val} (h : v.sort ≠ .stream) : asStream v = .error .notAStream := by
  cases v with
  | scalar c => rfl
  | ignored c => rfl
  | iterable b it => cases b <;> simp [Val.sort] at h ⊢ <;> rfl

theorem streamInit2_error {va vb : Val} (h : va.sort.isIterable ≠ vb.sort.isIterable) :
    streamInit2 va vb = .error .typeError := by
  cases va with
  | scalar c =>
    cases vb with
    | scalar c' => simp [Val.sort, Sort'.isIterable] at h
    | ignored c' => simp [Val.sort, Sort'.isIterable] at h
    | iterable b it => rfl
  | ignored c =>
    cases vb with
    | scalar c' => simp [Val.sort, Sort'.isIterable] at h
    | ignored c' => simp [Val.sort, Sort'.isIterable] at h
    | iterable b it => rfl
  | iterable b it =>
    cases vb with
    | scalar c' => rfl
    | ignored c' => rfl
    | iterable b' it' => cases b <;> cases b' <;> simp [Val.sort, Sort'.isIterable] at h

theorem lookup_mem {d : Name} {dd : Dunder} : ∀ (l : List (Name × Dunder)), l.lookup d = some dd → (d, dd) ∈ l := by
  intro l
  induction l with
  | nil => intro h; simp [List.lookup] at h
  | cons kv r ih =>
    intro h
    obtain ⟨k, w⟩ := kv
    simp only [List.lookup] at h
    split at h
    · rename_i heq
      have : d = k := by simpa using heq
      subst this
      have : w = dd := by simpa using h
      subst this
      exact List.mem_cons_self
    · exact List.mem_cons_of_mem _ (ih h)

theorem lookup_none_of_spec_none {tbl : List (Name × Dunder)} (hc : TableComplete tbl) {d : Name}
    (h : specLookup d = none) : tbl.lookup d = none := by
  cases hl : tbl.lookup d with
  | none => rfl
  | some dd => have := hc d dd hl; simp [h] at this

/-- every expression the specification calls ill-typed is refused by the model -/
theorem evalPy_refuses (tbl : List (Name × Dunder)) (htbl : TableOK tbl) (hc : TableComplete tbl)
    (har : ∀ sp ∈ specTable, sp.arity = 1 ∨ sp.arity = 2) :
    ∀ (p : Py), p.sort = none → ∃ e, evalPy tbl p = .error e := by
  intro p
  induction p with
  | scalar c => intro h; simp [Py.sort] at h
  | ignored c => intro h; simp [Py.sort] at h
  | iterable t xs => intro h; simp [Py.sort] at h
  | stream1 a iha =>
    intro h
    have ha : a.sort = none := by
      cases hs : a.sort with
      | none => rfl
      | some x => simp [Py.sort, hs] at h
    obtain ⟨e, he⟩ := iha ha
    exact ⟨e, by simp [evalPy, he, bind, Except.bind]⟩
  | stream2 a b iha ihb =>
    intro h
    cases hsa : a.sort with
    | none =>
      obtain ⟨e, he⟩ := iha hsa
      exact ⟨e, by simp [evalPy, he, bind, Except.bind]⟩
    | some x =>
      obtain ⟨va, hva, hma⟩ := evalPy_sound tbl htbl a x hsa
      cases hsb : b.sort with
      | none =>
        obtain ⟨e, he⟩ := ihb hsb
        exact ⟨e, by simp [evalPy, hva, he, bind, Except.bind]⟩
      | some y =>
        obtain ⟨vb, hvb, hmb⟩ := evalPy_sound tbl htbl b y hsb
        have hne : x.isIterable ≠ y.isIterable := by
          intro heq
          simp [Py.sort, hsa, hsb, heq] at h
        refine ⟨.typeError, ?_⟩
        have := streamInit2_error (va := va) (vb := vb) (by rw [hma.sort, hmb.sort]; exact hne)
        simp [evalPy, hva, hvb, bind, Except.bind, this]
  | un d s ihs =>
    intro h
    cases hss : s.sort with
    | none =>
      obtain ⟨e, he⟩ := ihs hss
      exact ⟨e, by simp [evalPy, he, bind, Except.bind]⟩
    | some so =>
      obtain ⟨vs, hvs, hms⟩ := evalPy_sound tbl htbl s so hss
      by_cases hso : so = .stream
      · subst hso
        obtain ⟨its, rfl⟩ := Val.of_sort_stream hms.sort
        cases hl : specLookup d with
        | none =>
          have := lookup_none_of_spec_none hc hl
          exact ⟨.attributeError, by simp [evalPy, hvs, bind, Except.bind, asStream, callDunder, this]⟩
        | some sp =>
          obtain ⟨hmem, hdn⟩ := specLookup_some hl
          have hlook := htbl sp hmem
          rw [hdn] at hlook
          have hne : sp.arity ≠ 1 := by
            intro h1
            simp [Py.sort, hss, hl, h1] at h
          have hb : sp.dunder.builder ≠ .unary := by
            simp only [DunderSpec.dunder, DunderSpec.builder]
            have : (sp.arity == 1) = false := by simpa using hne
            rw [this]
            cases sp.reflected <;> simp
          refine ⟨.typeError, ?_⟩
          simp only [evalPy, hvs, bind, Except.bind, asStream, callDunder, hlook]
          cases hbb : sp.dunder.builder with
          | unary => exact absurd hbb hb
          | binary => rfl
          | rbinary => rfl
      · have := asStream_error (v := vs) (by rw [hms.sort]; exact hso)
        exact ⟨.notAStream, by simp [evalPy, hvs, bind, Except.bind, this]⟩
  | bin d s o ihs iho =>
    intro h
    cases hss : s.sort with
    | none =>
      obtain ⟨e, he⟩ := ihs hss
      exact ⟨e, by simp [evalPy, he, bind, Except.bind]⟩
    | some so =>
      obtain ⟨vs, hvs, hms⟩ := evalPy_sound tbl htbl s so hss
      cases hso' : o.sort with
      | none =>
        obtain ⟨e, he⟩ := iho hso'
        exact ⟨e, by simp [evalPy, hvs, he, bind, Except.bind]⟩
      | some so' =>
        obtain ⟨vo, hvo, hmo⟩ := evalPy_sound tbl htbl o so' hso'
        by_cases hso : so = .stream
        · subst hso
          obtain ⟨its, rfl⟩ := Val.of_sort_stream hms.sort
          cases hl : specLookup d with
          | none =>
            have := lookup_none_of_spec_none hc hl
            exact ⟨.attributeError, by simp [evalPy, hvs, hvo, bind, Except.bind, asStream, callDunder, this]⟩
          | some sp =>
            obtain ⟨hmem, hdn⟩ := specLookup_some hl
            have hlook := htbl sp hmem
            rw [hdn] at hlook
            rcases har sp hmem with h1 | h2
            · -- a unary operator method called with an operand
              have hb : sp.dunder.builder = .unary := by simp [DunderSpec.dunder, DunderSpec.builder, h1]
              exact ⟨.typeError, by simp [evalPy, hvs, hvo, bind, Except.bind, asStream, callDunder, hlook, hb]⟩
            · -- the operand is an instance of an ignored class
              have hig : so' = .ignored := by
                apply Classical.byContradiction
                intro hni
                simp [Py.sort, hss, hl, hso', h2, hni] at h
              subst hig
              have hvi : ∃ c, vo = .ignored c := by
                cases vo with
                | scalar c => have := hmo.sort; simp [Val.sort] at this
                | ignored c => exact ⟨c, rfl⟩
                | iterable b it => have := hmo.sort; cases b <;> simp [Val.sort] at this
              obtain ⟨c, rfl⟩ := hvi
              refine ⟨.notImplemented, ?_⟩
              simp only [evalPy, hvs, hvo, bind, Except.bind, asStream, callDunder, hlook]
              cases hbb : sp.dunder.builder with
              | unary =>
                simp [DunderSpec.dunder, DunderSpec.builder, h2] at hbb
                cases hr : sp.reflected <;> simp [hr] at hbb
              | binary => rfl
              | rbinary => rfl
        · have := asStream_error (v := vs) (by rw [hms.sort]; exact hso)
          exact ⟨.notAStream, by simp [evalPy, hvs, hvo, bind, Except.bind, this]⟩
  | meth g l s ihs =>
    intro h
    cases hss : s.sort with
    | none =>
      obtain ⟨e, he⟩ := ihs hss
      exact ⟨e, by simp [evalPy, he, bind, Except.bind]⟩
    | some so =>
      obtain ⟨vs, hvs, hms⟩ := evalPy_sound tbl htbl s so hss
      have hso : so ≠ .stream := by
        intro heq; subst heq; simp [Py.sort, hss] at h
      have := asStream_error (v := vs) (by rw [hms.sort]; exact hso)
      exact ⟨.notAStream, by simp [evalPy, hvs, bind, Except.bind, this]⟩
  | append s o ihs iho =>
    intro h
    cases hss : s.sort with
    | none =>
      obtain ⟨e, he⟩ := ihs hss
      exact ⟨e, by simp [evalPy, he, bind, Except.bind]⟩
    | some so =>
      obtain ⟨vs, hvs, hms⟩ := evalPy_sound tbl htbl s so hss
      cases hso' : o.sort with
      | none =>
        obtain ⟨e, he⟩ := iho hso'
        exact ⟨e, by simp [evalPy, hvs, he, bind, Except.bind]⟩
      | some so' =>
        obtain ⟨vo, hvo, hmo⟩ := evalPy_sound tbl htbl o so' hso'
        have hso : so ≠ .stream := by
          intro heq; subst heq; simp [Py.sort, hss, hso'] at h
        have := asStream_error (v := vs) (by rw [hms.sort]; exact hso)
        exact ⟨.notAStream, by simp [evalPy, hvs, hvo, bind, Except.bind, this]⟩

end ALV.C01
