/-
  C13 — helper lemmas, part 2: the four first-order sections behind the eight lowpass / highpass
  strategies, for an arbitrary pole parameter `R`, and the pole parameters of the strategies.

      onePoleLP R = (1 - R) / (1 - R z⁻¹)                 lowpass.pole, lowpass.pole_exp
      onePoleHP R = (1 - R) / (1 + R z⁻¹)                 highpass.pole, highpass.pole_exp
      oneZeroLP R = (1 + R)/2 · (1 + z⁻¹) / (1 + R z⁻¹)   lowpass.z, lowpass.z_exp
      oneZeroHP R = (1 + R)/2 · (1 - z⁻¹) / (1 - R z⁻¹)   highpass.z, highpass.z_exp
-/
import ALV.Lemmas.C13Basic
import Mathlib.Analysis.SpecialFunctions.Sqrt

set_option linter.unusedSectionVars false
set_option linter.unusedSimpArgs false

namespace ALV.C13
open ALV ALV.TrigField

noncomputable def onePoleLP (R : ℝ) : Coefs ℝ := mk [1 - R] [1, -R]
noncomputable def onePoleHP (R : ℝ) : Coefs ℝ := mk [1 - R] [1, R]
noncomputable def oneZeroLP (R : ℝ) : Coefs ℝ := mk [(1 + R) / 2, (1 + R) / 2] [1, R]
noncomputable def oneZeroHP (R : ℝ) : Coefs ℝ := mk [(1 + R) / 2, -((1 + R) / 2)] [1, -R]

/-! ### gains at DC / Nyquist -/

theorem onePoleLP_dc (R : ℝ) (h : R ≠ 1) : dcGain (onePoleLP R) = 1 := by
  have : (1 : ℝ) + -R ≠ 0 := fun h' => h (by linarith)
  simp only [dcGain, onePoleLP, gainReal_mk, c1_real, polyEval_one, polyEval_two, one_mul]
  rw [show (1 : ℝ) - R = 1 + -R by ring]
  exact div_self this

theorem onePoleHP_nyquist (R : ℝ) (h : R ≠ 1) : nyquistGain (onePoleHP R) = 1 := by
  have : (1 : ℝ) - R ≠ 0 := fun h' => h (by linarith)
  simp only [nyquistGain, onePoleHP, gainReal_mk, c1_real, polyEval_one, polyEval_two]
  rw [show (1 : ℝ) + -1 * R = 1 - R by ring]
  exact div_self this

theorem oneZeroLP_dc (R : ℝ) (h : R ≠ -1) : dcGain (oneZeroLP R) = 1 := by
  have : (1 : ℝ) + R ≠ 0 := fun h' => h (by linarith)
  simp only [dcGain, oneZeroLP, gainReal_mk, c1_real, polyEval_two, one_mul]
  rw [show (1 + R) / 2 + (1 + R) / 2 = 1 + R by ring]
  exact div_self this

theorem oneZeroHP_nyquist (R : ℝ) (h : R ≠ -1) : nyquistGain (oneZeroHP R) = 1 := by
  have : (1 : ℝ) + R ≠ 0 := fun h' => h (by linarith)
  simp only [nyquistGain, oneZeroHP, gainReal_mk, c1_real, polyEval_two]
  rw [show (1 + R) / 2 + -1 * -((1 + R) / 2) = 1 + R by ring,
      show (1 : ℝ) + -1 * -R = 1 + R by ring]
  exact div_self this

/-- a lowpass `pole` design blocks Nyquist only partially, a `z` design completely -/
theorem oneZeroLP_nyquist (R : ℝ) : nyquistGain (oneZeroLP R) = 0 := by
  simp only [nyquistGain, oneZeroLP, gainReal_mk, c1_real, polyEval_two]
  rw [show (1 + R) / 2 + -1 * ((1 + R) / 2) = 0 by ring, zero_div]

theorem oneZeroHP_dc (R : ℝ) : dcGain (oneZeroHP R) = 0 := by
  simp only [dcGain, oneZeroHP, gainReal_mk, c1_real, polyEval_two]
  rw [show (1 + R) / 2 + 1 * -((1 + R) / 2) = 0 by ring, zero_div]

/-! ### squared magnitude as a rational function of `cos ω` -/

theorem onePoleLP_magSq (R ω : ℝ) :
    magSq (onePoleLP R) ω = (1 - R) ^ 2 / (1 - 2 * R * Real.cos ω + R ^ 2) := by
  simp only [onePoleLP, magSq_mk, polyMagSq_one, polyMagSq_two]
  congr 1; ring

theorem onePoleHP_magSq (R ω : ℝ) :
    magSq (onePoleHP R) ω = (1 - R) ^ 2 / (1 + 2 * R * Real.cos ω + R ^ 2) := by
  simp only [onePoleHP, magSq_mk, polyMagSq_one, polyMagSq_two]
  congr 1; ring

theorem oneZeroLP_magSq (R ω : ℝ) :
    magSq (oneZeroLP R) ω =
      (1 + R) ^ 2 / 2 * (1 + Real.cos ω) / (1 + 2 * R * Real.cos ω + R ^ 2) := by
  simp only [oneZeroLP, magSq_mk, polyMagSq_two]
  congr 1 <;> ring

theorem oneZeroHP_magSq (R ω : ℝ) :
    magSq (oneZeroHP R) ω =
      (1 + R) ^ 2 / 2 * (1 - Real.cos ω) / (1 - 2 * R * Real.cos ω + R ^ 2) := by
  simp only [oneZeroHP, magSq_mk, polyMagSq_two]
  congr 1 <;> ring

/-- the denominators are positive for `|R| < 1` -/
theorem den_pos (R x : ℝ) (h1 : -1 < R) (h2 : R < 1) (hx1 : -1 ≤ x) (hx2 : x ≤ 1) :
    0 < 1 + 2 * R * x + R ^ 2 := by
  by_cases hR : 0 ≤ R
  · nlinarith [mul_nonneg hR (by linarith : 0 ≤ x + 1), sq_nonneg (1 - R)]
  · have hR := lt_of_not_ge hR
    nlinarith [mul_nonneg (by linarith : 0 ≤ -R) (by linarith : 0 ≤ 1 - x), sq_nonneg (1 + R)]

theorem den_pos' (R x : ℝ) (h1 : -1 < R) (h2 : R < 1) (hx1 : -1 ≤ x) (hx2 : x ≤ 1) :
    0 < 1 - 2 * R * x + R ^ 2 := by
  have := den_pos (-R) x (by linarith) (by linarith) hx1 hx2
  nlinarith [this]

/-! ### monotone in `cos ω` -/

theorem onePoleLP_ratio_lt (R x y : ℝ) (h0 : 0 < R) (h1 : R < 1)
    (hx : -1 ≤ x) (hxy : x < y) (hy : y ≤ 1) :
    (1 - R) ^ 2 / (1 - 2 * R * x + R ^ 2) < (1 - R) ^ 2 / (1 - 2 * R * y + R ^ 2) := by
  have dx := den_pos' R x (by linarith) h1 hx (by linarith)
  have dy := den_pos' R y (by linarith) h1 (by linarith) hy
  have hn : 0 < (1 - R) ^ 2 := by positivity
  apply div_lt_div_of_pos_left hn dy
  nlinarith

theorem onePoleHP_ratio_lt (R x y : ℝ) (h0 : 0 < R) (h1 : R < 1)
    (hx : -1 ≤ x) (hxy : x < y) (hy : y ≤ 1) :
    (1 - R) ^ 2 / (1 + 2 * R * y + R ^ 2) < (1 - R) ^ 2 / (1 + 2 * R * x + R ^ 2) := by
  have dx := den_pos R x (by linarith) h1 hx (by linarith)
  have dy := den_pos R y (by linarith) h1 (by linarith) hy
  have hn : 0 < (1 - R) ^ 2 := by positivity
  apply div_lt_div_of_pos_left hn dx
  nlinarith

theorem oneZeroLP_ratio_lt (R x y : ℝ) (h0 : -1 < R) (h1 : R < 1)
    (hx : -1 ≤ x) (hxy : x < y) (hy : y ≤ 1) :
    (1 + R) ^ 2 / 2 * (1 + x) / (1 + 2 * R * x + R ^ 2)
      < (1 + R) ^ 2 / 2 * (1 + y) / (1 + 2 * R * y + R ^ 2) := by
  have dx := den_pos R x h0 h1 hx (by linarith)
  have dy := den_pos R y h0 h1 (by linarith) hy
  have hn : 0 < (1 + R) ^ 2 := by have : 0 < 1 + R := by linarith
                                  positivity
  have hm : 0 < (1 - R) ^ 2 := by have : 0 < 1 - R := by linarith
                                  positivity
  rw [div_lt_div_iff₀ dx dy]
  have key : (1 + y) * (1 + 2 * R * x + R ^ 2) - (1 + x) * (1 + 2 * R * y + R ^ 2)
      = (y - x) * (1 - R) ^ 2 := by ring
  have hpos : 0 < (y - x) * (1 - R) ^ 2 := mul_pos (by linarith) hm
  nlinarith [mul_pos hn hpos]

theorem oneZeroHP_ratio_lt (R x y : ℝ) (h0 : -1 < R) (h1 : R < 1)
    (hx : -1 ≤ x) (hxy : x < y) (hy : y ≤ 1) :
    (1 + R) ^ 2 / 2 * (1 - y) / (1 - 2 * R * y + R ^ 2)
      < (1 + R) ^ 2 / 2 * (1 - x) / (1 - 2 * R * x + R ^ 2) := by
  have h := oneZeroLP_ratio_lt R (-y) (-x) h0 h1 (by linarith) (by linarith) (by linarith)
  have e1 : (1 + R) ^ 2 / 2 * (1 + -y) / (1 + 2 * R * -y + R ^ 2)
      = (1 + R) ^ 2 / 2 * (1 - y) / (1 - 2 * R * y + R ^ 2) := by ring_nf
  have e2 : (1 + R) ^ 2 / 2 * (1 + -x) / (1 + 2 * R * -x + R ^ 2)
      = (1 + R) ^ 2 / 2 * (1 - x) / (1 - 2 * R * x + R ^ 2) := by ring_nf
  rw [e1, e2] at h
  exact h

/-! ### strict monotonicity on [0, π] -/

theorem cos_mem (ω : ℝ) : -1 ≤ Real.cos ω ∧ Real.cos ω ≤ 1 :=
  ⟨Real.neg_one_le_cos ω, Real.cos_le_one ω⟩

theorem onePoleLP_strictAnti (R : ℝ) (h0 : 0 < R) (h1 : R < 1) :
    StrictAntiOn (fun ω => magSq (onePoleLP R) ω) (Set.Icc 0 Real.pi) := by
  intro a ha b hb hab
  simp only [onePoleLP_magSq]
  have hc := Real.strictAntiOn_cos ha hb hab
  exact onePoleLP_ratio_lt R _ _ h0 h1 (cos_mem b).1 hc (cos_mem a).2

theorem onePoleHP_strictMono (R : ℝ) (h0 : 0 < R) (h1 : R < 1) :
    StrictMonoOn (fun ω => magSq (onePoleHP R) ω) (Set.Icc 0 Real.pi) := by
  intro a ha b hb hab
  simp only [onePoleHP_magSq]
  have hc := Real.strictAntiOn_cos ha hb hab
  exact onePoleHP_ratio_lt R _ _ h0 h1 (cos_mem b).1 hc (cos_mem a).2

theorem oneZeroLP_strictAnti (R : ℝ) (h0 : -1 < R) (h1 : R < 1) :
    StrictAntiOn (fun ω => magSq (oneZeroLP R) ω) (Set.Icc 0 Real.pi) := by
  intro a ha b hb hab
  simp only [oneZeroLP_magSq]
  have hc := Real.strictAntiOn_cos ha hb hab
  exact oneZeroLP_ratio_lt R _ _ h0 h1 (cos_mem b).1 hc (cos_mem a).2

theorem oneZeroHP_strictMono (R : ℝ) (h0 : -1 < R) (h1 : R < 1) :
    StrictMonoOn (fun ω => magSq (oneZeroHP R) ω) (Set.Icc 0 Real.pi) := by
  intro a ha b hb hab
  simp only [oneZeroHP_magSq]
  have hc := Real.strictAntiOn_cos ha hb hab
  exact oneZeroHP_ratio_lt R _ _ h0 h1 (cos_mem b).1 hc (cos_mem a).2

/-! ### the peak: `|H|² ≤ 1` at every frequency -/

theorem onePoleLP_le_one (R ω : ℝ) (h0 : 0 ≤ R) (h1 : R < 1) : magSq (onePoleLP R) ω ≤ 1 := by
  rw [onePoleLP_magSq]
  have d := den_pos' R (Real.cos ω) (by linarith) h1 (cos_mem ω).1 (cos_mem ω).2
  rw [div_le_one d]
  nlinarith [mul_nonneg h0 (by linarith [(cos_mem ω).2] : 0 ≤ 1 - Real.cos ω)]

theorem onePoleHP_le_one (R ω : ℝ) (h0 : 0 ≤ R) (h1 : R < 1) : magSq (onePoleHP R) ω ≤ 1 := by
  rw [onePoleHP_magSq]
  have d := den_pos R (Real.cos ω) (by linarith) h1 (cos_mem ω).1 (cos_mem ω).2
  rw [div_le_one d]
  nlinarith [mul_nonneg h0 (by linarith [(cos_mem ω).1] : 0 ≤ 1 + Real.cos ω)]

theorem oneZeroLP_le_one (R ω : ℝ) (h0 : -1 < R) (h1 : R < 1) : magSq (oneZeroLP R) ω ≤ 1 := by
  rw [oneZeroLP_magSq]
  have d := den_pos R (Real.cos ω) h0 h1 (cos_mem ω).1 (cos_mem ω).2
  rw [div_le_one d]
  nlinarith [mul_nonneg (sq_nonneg (1 - R)) (by linarith [(cos_mem ω).2] : 0 ≤ 1 - Real.cos ω)]

theorem oneZeroHP_le_one (R ω : ℝ) (h0 : -1 < R) (h1 : R < 1) : magSq (oneZeroHP R) ω ≤ 1 := by
  rw [oneZeroHP_magSq]
  have d := den_pos' R (Real.cos ω) h0 h1 (cos_mem ω).1 (cos_mem ω).2
  rw [div_le_one d]
  nlinarith [mul_nonneg (sq_nonneg (1 - R)) (by linarith [(cos_mem ω).1] : 0 ≤ 1 + Real.cos ω)]

/-! ### the pole parameter of `lowpass.pole` / `highpass.pole`: `R = x - sqrt(x² - 1)` -/

noncomputable def poleR (x : ℝ) : ℝ := x - Real.sqrt (x ^ 2 - 1)

theorem poleR_quad (x : ℝ) (hx : 1 ≤ x) : poleR x ^ 2 - 2 * x * poleR x + 1 = 0 := by
  have h : 0 ≤ x ^ 2 - 1 := by nlinarith
  unfold poleR
  nlinarith [Real.sq_sqrt h, Real.sqrt_nonneg (x ^ 2 - 1)]

theorem poleR_pos (x : ℝ) (hx : 1 ≤ x) : 0 < poleR x := by
  unfold poleR
  have h : Real.sqrt (x ^ 2 - 1) < x := by
    rw [Real.sqrt_lt' (by linarith)]
    linarith
  linarith

theorem poleR_lt_one (x : ℝ) (hx : 1 < x) : poleR x < 1 := by
  unfold poleR
  have h : x - 1 < Real.sqrt (x ^ 2 - 1) := by
    apply Real.lt_sqrt_of_sq_lt
    nlinarith
  linarith

/-- half power: with `R² + 1 = 2xR`, `(1 - R)² / (1 - 2R(2 - x) + R²) = 1/2` -/
theorem poleR_half (x : ℝ) (hx : 1 < x) :
    (1 - poleR x) ^ 2 / (1 - 2 * poleR x * (2 - x) + poleR x ^ 2) = 1 / 2 := by
  have hq := poleR_quad x hx.le
  have hp := poleR_pos x hx.le
  have hd : 1 - 2 * poleR x * (2 - x) + poleR x ^ 2 = 4 * poleR x * (x - 1) := by nlinarith
  have hn : (1 - poleR x) ^ 2 = 2 * poleR x * (x - 1) := by nlinarith
  have hpos : 0 < 4 * poleR x * (x - 1) := by
    have := mul_pos hp (sub_pos.2 hx)
    linarith
  rw [hd, hn, div_eq_iff hpos.ne']
  ring

theorem cos_lt_one_of_mem (c : ℝ) (h0 : 0 < c) (h1 : c < Real.pi) : Real.cos c < 1 := by
  have := Real.strictAntiOn_cos (Set.left_mem_Icc.2 Real.pi_pos.le) ⟨h0.le, h1.le⟩ h0
  simpa using this

theorem neg_one_lt_cos_of_mem (c : ℝ) (h0 : 0 < c) (h1 : c < Real.pi) : -1 < Real.cos c := by
  have := Real.strictAntiOn_cos ⟨h0.le, h1.le⟩ (Set.right_mem_Icc.2 Real.pi_pos.le) h1
  simpa using this

/-! ### the pole parameter of `lowpass.z` / `highpass.z` -/

/-- `denR` at ℝ -/
theorem denR_real (c : ℝ) : denR c = if Real.cos c = 0 then 1 else Real.cos c := by
  simp [denR]

theorem sin_eq_one_of_cos_eq_zero (c : ℝ) (h0 : 0 < c) (h1 : c < Real.pi) (h : Real.cos c = 0) :
    Real.sin c = 1 := by
  have hs := Real.sin_pos_of_pos_of_lt_pi h0 h1
  have := Real.sin_sq_add_cos_sq c
  rw [h] at this
  nlinarith

/-- `(1 - sin c) / denR c`: the pole of `highpass.z`, minus the pole parameter of `lowpass.z` -/
noncomputable def zR (c : ℝ) : ℝ := (1 - Real.sin c) / (if Real.cos c = 0 then 1 else Real.cos c)

theorem zR_bounds (c : ℝ) (h0 : 0 < c) (h1 : c < Real.pi) : -1 < zR c ∧ zR c < 1 := by
  unfold zR
  by_cases h : Real.cos c = 0
  · simp [h, sin_eq_one_of_cos_eq_zero c h0 h1 h]
  · simp only [h, if_false]
    have hs := Real.sin_pos_of_pos_of_lt_pi h0 h1
    have hsc := Real.sin_sq_add_cos_sq c
    have hs1 : Real.sin c < 1 := by
      rcases lt_or_eq_of_le (Real.sin_le_one c) with h' | h'
      · exact h'
      · exfalso; apply h; rw [h'] at hsc; nlinarith
    have hsq : (1 - Real.sin c) ^ 2 < Real.cos c ^ 2 := by nlinarith
    have hc2 : 0 < Real.cos c ^ 2 := by positivity
    have : ((1 - Real.sin c) / Real.cos c) ^ 2 < 1 := by
      rw [div_pow, div_lt_one hc2]; exact hsq
    constructor <;> nlinarith

/-- `zR c · cos c = 1 - sin c` (also at `c = π/2`) and `zR c · (1 + sin c) = cos c` -/
theorem zR_mul_cos (c : ℝ) (h0 : 0 < c) (h1 : c < Real.pi) :
    zR c * Real.cos c = 1 - Real.sin c := by
  unfold zR
  by_cases h : Real.cos c = 0
  · simp [h, sin_eq_one_of_cos_eq_zero c h0 h1 h]
  · simp only [h, if_false]; field_simp

theorem zR_mul_sin (c : ℝ) (h0 : 0 < c) (h1 : c < Real.pi) :
    zR c * (1 + Real.sin c) = Real.cos c := by
  unfold zR
  have hsc := Real.sin_sq_add_cos_sq c
  by_cases h : Real.cos c = 0
  · simp [h, sin_eq_one_of_cos_eq_zero c h0 h1 h]
  · simp only [h, if_false]; field_simp; nlinarith

/-- half power of `highpass.z` (`R = zR c`) at the cut-off -/
theorem zR_half_hp (c : ℝ) (h0 : 0 < c) (h1 : c < Real.pi) :
    (1 + zR c) ^ 2 / 2 * (1 - Real.cos c) / (1 - 2 * zR c * Real.cos c + zR c ^ 2) = 1 / 2 := by
  obtain ⟨hb1, hb2⟩ := zR_bounds c h0 h1
  have d := den_pos' (zR c) (Real.cos c) hb1 hb2 (cos_mem c).1 (cos_mem c).2
  have e1 := zR_mul_cos c h0 h1
  have e2 := zR_mul_sin c h0 h1
  rw [div_eq_iff d.ne']
  nlinarith

/-- half power of `lowpass.z` (`R = -zR c`) at the cut-off -/
theorem zR_half_lp (c : ℝ) (h0 : 0 < c) (h1 : c < Real.pi) :
    (1 + -zR c) ^ 2 / 2 * (1 + Real.cos c) / (1 + 2 * -zR c * Real.cos c + (-zR c) ^ 2) = 1 / 2 := by
  obtain ⟨hb1, hb2⟩ := zR_bounds c h0 h1
  have d := den_pos (-zR c) (Real.cos c) (by linarith) (by linarith) (cos_mem c).1 (cos_mem c).2
  have e1 := zR_mul_cos c h0 h1
  have e2 := zR_mul_sin c h0 h1
  rw [div_eq_iff d.ne']
  nlinarith

end ALV.C13
