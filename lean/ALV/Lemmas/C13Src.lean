/-
  C13 — the strategy bodies REGENERATED from the source (`ALV/Gen/C13Src.lean`, written by
  `harness/props/c13_tr.py` on every run) are the hand transcriptions of `ALV/Model/C13Thub.lean`.

  Each equation is between FUNCTIONS (every hub base `b`, every argument expression), by unfolding only:
  an edit of a strategy body that changes a constant, an operator, the operand order, a `thub` count, the
  order of the uses of a hub, or drops / adds a hub makes the two sides different constructor terms and
  the `rfl` fails.  Core Lean only.
-/
import ALV.Gen.C13Src
import ALV.Lemmas.C13Thub
namespace ALV.C13.Src
open ALV ALV.C13

theorem lowpass_pole : Gen.C13.lowpass_pole = lowpassPoleS := rfl
theorem lowpass_z : Gen.C13.lowpass_z = lowpassZS := rfl
theorem lowpass_pole_exp : Gen.C13.lowpass_pole_exp = lowpassPoleExpS := rfl
theorem lowpass_z_exp : Gen.C13.lowpass_z_exp = lowpassZExpS := rfl
theorem highpass_pole : Gen.C13.highpass_pole = highpassPoleS := rfl
theorem highpass_z : Gen.C13.highpass_z = highpassZS := rfl
theorem highpass_pole_exp : Gen.C13.highpass_pole_exp = highpassPoleExpS := rfl
theorem highpass_z_exp : Gen.C13.highpass_z_exp = highpassZExpS := rfl
theorem resonator_poles_exp : Gen.C13.resonator_poles_exp = resonatorPolesExpS := rfl
theorem resonator_freq_poles_exp : Gen.C13.resonator_freq_poles_exp = resonatorFreqPolesExpS := rfl
theorem resonator_z_exp : Gen.C13.resonator_z_exp = resonatorZExpS := rfl
theorem resonator_freq_z_exp : Gen.C13.resonator_freq_z_exp = resonatorFreqZExpS := rfl
theorem comb_fb : Gen.C13.comb_fb = combFbS := rfl
theorem comb_tau : Gen.C13.comb_tau = combTauS := rfl
theorem comb_ff : Gen.C13.comb_ff = combFfS := rfl

/-- `gammatone.klapuri`: the four calls are calls of the REGENERATED resonator bodies -/
theorem gammatone_klapuri : Gen.C13.gammatone_klapuri = klapuriS := by
  funext freq bw
  simp only [Gen.C13.gammatone_klapuri, klapuriS, resonator_z_exp, resonator_poles_exp]
  rfl

/-- the dispatch on the design kind -/
theorem progOf (kind : Kind) : Gen.C13.progOf kind = ALV.C13.progOf kind := by
  cases kind with
  | lowpass st => cases st <;> rfl
  | highpass st => cases st <;> rfl
  | resonator st => cases st <;> rfl
  | combFb d => rfl
  | combTau d => rfl
  | combFf d => rfl
  | klapuri => simp only [Gen.C13.progOf, ALV.C13.progOf, gammatone_klapuri]

/-- the programs as CLOSED values (arguments `par 0`, `par 1`; comb delays 0 … 3), compared by the decision
procedure of `DecidableEq SSec` — the same fact as `progOf`, checked by evaluation instead of unfolding -/
theorem progOf_decide :
    ([Kind.lowpass .pole, .lowpass .z, .lowpass .poleExp, .lowpass .zExp,
      .highpass .pole, .highpass .z, .highpass .poleExp, .highpass .zExp,
      .resonator .polesExp, .resonator .freqPolesExp, .resonator .zExp, .resonator .freqZExp,
      .combFb 0, .combFb 1, .combFb 3, .combTau 0, .combTau 2, .combFf 0, .combFf 3, .klapuri].all
        fun k => decide (Gen.C13.progOf k = ALV.C13.progOf k)) = true := by
  decide

end ALV.C13.Src
