/-
  C13 — the strategy bodies REGENERATED from the source (`ALV/Gen/C13Src.lean`, written by
  `harness/props/c13_tr.py` on every run) are the hand transcriptions of `ALV/Model/C13Thub.lean`.

  Each equation is between FUNCTIONS (every hub base `b`, every argument expression), by unfolding only:
  an edit of a strategy body that changes a constant, an operator, the operand order, a `thub` count, the
  order of the uses of a hub, or drops / adds a hub makes the two sides different constructor terms and
  the `rfl` fails.  Core Lean only.
-/
import ALV.Gen.C13Src
import ALV.Lemmas.C13Thub
import ALV.Model.C13Call
namespace ALV.C13.Src
open ALV ALV.C13

theorem lowpass_pole : Gen.C13.lowpass_pole = lowpassPoleS := rfl
theorem lowpass_z : Gen.C13.lowpass_z = lowpassZS := rfl
theorem lowpass_pole_exp : Gen.C13.lowpass_pole_exp = lowpassPoleExpS := rfl
theorem lowpass_z_exp : Gen.C13.lowpass_z_exp = lowpassZExpS := rfl
theorem highpass_pole : Gen.C13.highpass_pole = highpassPoleS := rfl
theorem highpass_z : Gen.C13.highpass_z = highpassZS := rfl
theorem highpass_pole_exp : Gen.C13.highpass_pole_exp = highpassPoleExpS := rfl
theorem highpass_z_exp : Gen.C13.highpass_z_exp = highpassZExpS := rfl
theorem resonator_poles_exp : Gen.C13.resonator_poles_exp = resonatorPolesExpS := rfl
theorem resonator_freq_poles_exp : Gen.C13.resonator_freq_poles_exp = resonatorFreqPolesExpS := rfl
theorem resonator_z_exp : Gen.C13.resonator_z_exp = resonatorZExpS := rfl
theorem resonator_freq_z_exp : Gen.C13.resonator_freq_z_exp = resonatorFreqZExpS := rfl
theorem comb_fb : Gen.C13.comb_fb = combFbS := rfl
theorem comb_tau : Gen.C13.comb_tau = combTauS := rfl
theorem comb_ff : Gen.C13.comb_ff = combFfS := rfl

/-- `gammatone.klapuri`: the four calls are calls of the REGENERATED resonator bodies -/
theorem gammatone_klapuri : Gen.C13.gammatone_klapuri = klapuriS := by
  funext freq bw
  simp only [Gen.C13.gammatone_klapuri, klapuriS, resonator_z_exp, resonator_poles_exp]
  rfl

/-- the dispatch on the design kind -/
theorem progOf (kind : Kind) : Gen.C13.progOf kind = ALV.C13.progOf kind := by
  cases kind with
  | lowpass st => cases st <;> rfl
  | highpass st => cases st <;> rfl
  | resonator st => cases st <;> rfl
  | combFb d => rfl
  | combTau d => rfl
  | combFf d => rfl
  | klapuri => simp only [Gen.C13.progOf, ALV.C13.progOf, gammatone_klapuri]

/-- the programs as CLOSED values (arguments `par 0`, `par 1`; comb delays 0 … 3), compared by the decision
procedure of `DecidableEq SSec` — the same fact as `progOf`, checked by evaluation instead of unfolding -/
theorem progOf_decide :
    ([Kind.lowpass .pole, .lowpass .z, .lowpass .poleExp, .lowpass .zExp,
      .highpass .pole, .highpass .z, .highpass .poleExp, .highpass .zExp,
      .resonator .polesExp, .resonator .freqPolesExp, .resonator .zExp, .resonator .freqZExp,
      .combFb 0, .combFb 1, .combFb 3, .combTau 0, .combTau 2, .combFf 0, .combFf 3, .klapuri].all
        fun k => decide (Gen.C13.progOf k = ALV.C13.progOf k)) = true := by
  decide

/-! ### the scalar functions of lazy_auditory.py (erb.gm90 / erb.mg83 / gammatone_erb_constants)

Equations between FUNCTIONS, generic over the number class: a changed constant (`ofRat p q` of another literal), operator,
operand order, comparison (`freq < 7`), unit (`Hz = 1`), default strategy (the one registered first) or a statement moved
across the `Hz is None` branch makes the two sides different terms. -/
section scalar
variable {α : Type} [TrigField α]

/-- `erb.gm90` after the `Hz is None` branch is the model's formula -/
theorem erb_gm90 : (Gen.C13.erb_gm90_tail : α → α → α) = erbGm90 := rfl
/-- `erb.mg83` after the `Hz is None` branch is the model's formula -/
theorem erb_mg83 : (Gen.C13.erb_mg83_tail : α → α → α) = erbMg83 := rfl

/-- the call `erb[st](freq, Hz=None)`: the strategy table, the default, the refusal `freq < 7`, the unit `Hz = 1` -/
theorem erb_call [LtTest α] :
    (Gen.C13.erb_call : Option ErbStrategy → α → Option α → Except Unit α) = erbCall := by
  funext st f hz
  rcases st with _ | _ | _ <;> cases hz <;> rfl

/-- `gammatone_erb_constants(n)`: `tnt`, the factorial quotient and the 3 dB constant -/
theorem gammatone_erb_constants : (Gen.C13.gammatone_erb_constants : Nat → α × α) = gammatoneErbConstants := rfl

/-- `gammatone.sampled`: `A`, the two coefficient lists, the `.diff(n=eta-1, mul_after=-z)` loop (`diffNum`: `eta - 1`
steps of `diffStep`, the body of `ZFilter.diff`), the two normalisations by the measured gain, the cascade -/
theorem gammatone_sampled [ZeroTest α] :
    (Gen.C13.gammatone_sampled : α → α → α → Nat → List (Coefs α)) = gammatoneSampled := rfl

/-- the defaults `phase=0, eta=4` of the `def` line -/
theorem gammatone_sampled_call [ZeroTest α] :
    (Gen.C13.gammatone_sampled_call : α → α → Option α → Option Nat → List (Coefs α)) = gammatoneSampledCall := rfl

end scalar

end ALV.C13.Src
