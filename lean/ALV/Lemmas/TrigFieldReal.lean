/-
  The `ℝ` instance of `TrigField` (noncomputable; proofs only) and the simp lemmas that
  turn a generic `TrigField` term at `ℝ` into an ordinary real expression.
  Shared by C14 (windows), C13, C19.
-/
import Mathlib.Analysis.SpecialFunctions.Trigonometric.Basic
import Mathlib.Analysis.SpecialFunctions.Pow.Real
import ALV.Common.TrigField

namespace ALV

noncomputable instance instTrigFieldReal : TrigField ℝ where
  toAdd := inferInstance
  toMul := inferInstance
  toSub := inferInstance
  toNeg := inferInstance
  toDiv := inferInstance
  ofInt := fun i => (i : ℝ)
  pi := Real.pi
  cos := Real.cos
  sin := Real.sin
  exp := Real.exp
  sqrt := Real.sqrt
  abs := fun x => |x|
  pow := fun x y => x ^ y

namespace TrigField

@[simp] theorem real_ofInt (i : Int) : (TrigField.ofInt i : ℝ) = (i : ℝ) := rfl
@[simp] theorem real_ofNat (n : Nat) : (TrigField.ofNat n : ℝ) = (n : ℝ) := by
  simp [TrigField.ofNat]
@[simp] theorem real_ofRat (p : Int) (q : Nat) : (TrigField.ofRat p q : ℝ) = (p : ℝ) / (q : ℝ) := by
  show (TrigField.ofInt p : ℝ) / (TrigField.ofInt (q : Int) : ℝ) = _
  simp
@[simp] theorem real_pi : (TrigField.pi : ℝ) = Real.pi := rfl
@[simp] theorem real_cos (x : ℝ) : TrigField.cos x = Real.cos x := rfl
@[simp] theorem real_sin (x : ℝ) : TrigField.sin x = Real.sin x := rfl
@[simp] theorem real_exp (x : ℝ) : TrigField.exp x = Real.exp x := rfl
@[simp] theorem real_sqrt (x : ℝ) : TrigField.sqrt x = Real.sqrt x := rfl
@[simp] theorem real_abs (x : ℝ) : TrigField.abs x = |x| := rfl
@[simp] theorem real_pow (x y : ℝ) : TrigField.pow x y = x ^ y := rfl

end TrigField
end ALV
