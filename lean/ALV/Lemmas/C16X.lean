/-
  C16 — the machine with exceptions (`ALV.Model.C16X`) against the exception-free generator
  machine (`ALV.Model.C16Gen`) over the item type `Except ε α` with the absorbing lifted `+`.
-/
import ALV.Model.C16X
import ALV.Spec.C16
import ALV.Lemmas.C16Batch

namespace ALV.C16
variable {ε α : Type}

/-! ### the summing loop -/

theorem lift_error_add [XAdd ε α] (e : ε) (x : Except ε α) : (Except.error e : Except ε α) + x = .error e := rfl
theorem lift_ok_error [XAdd ε α] (a : α) (e : ε) : (Except.ok a : Except ε α) + .error e = .error e := rfl
theorem lift_ok_ok [XAdd ε α] (a b : α) : (Except.ok a : Except ε α) + .ok b = XAdd.xadd a b := rfl

/-- once the sum is an exception it stays that exception -/
theorem sumLoop_absorb [XAdd ε α] (e : ε) : ∀ (pl : List (Snd (Except ε α))),
    (sumLoop (Except.error e : Except ε α) pl).1 = .error e
  | [] => rfl
  | ⟨i, []⟩ :: ps => by simp [sumLoop, sumLoop_absorb e ps]
  | ⟨i, x :: xs⟩ :: ps => by simp [sumLoop, lift_error_add, sumLoop_absorb e ps]

theorem sumLoop_len [Add α] : ∀ (pl : List (Snd α)) (d : α),
    (sumLoop d pl).2.1.length = pl.length ∧ (sumLoop d pl).2.2.length ≤ pl.length
  | [], _ => by simp [sumLoop]
  | ⟨i, []⟩ :: ps, d => by
    have := sumLoop_len ps d
    simp only [sumLoop, List.length_cons]; omega
  | ⟨i, x :: xs⟩ :: ps, d => by
    have := sumLoop_len ps (d + x)
    simp only [sumLoop, List.length_cons]; omega

/-- an event that still gave something (an item or an exception) is not in `to_remove` -/
theorem sumLoop_rem_lt [Add α] : ∀ (pl : List (Snd α)) (d : α), (∃ s ∈ pl, s.rest ≠ []) →
    (sumLoop d pl).2.2.length < pl.length
  | [], _, h => by obtain ⟨s, hs, _⟩ := h; cases hs
  | ⟨i, []⟩ :: ps, d, h => by
    have h' : ∃ s ∈ ps, s.rest ≠ [] := by
      obtain ⟨s, hs, hne⟩ := h
      rcases List.mem_cons.1 hs with rfl | hs
      · exact absurd rfl hne
      · exact ⟨s, hs, hne⟩
    have := sumLoop_rem_lt ps d h'
    simp only [sumLoop, List.length_cons]; omega
  | ⟨i, x :: xs⟩ :: ps, d, _ => by
    have := (sumLoop_len ps (d + x)).2
    simp only [sumLoop, List.length_cons]; omega

theorem removeFirst_length (i : Nat) : ∀ (pl : List (Snd α)), pl.length - 1 ≤ (removeFirst i pl).length
  | [] => by simp [removeFirst]
  | s :: ps => by
    have := removeFirst_length i ps
    by_cases h : s.id = i
    · simp [removeFirst, h]
    · simp only [removeFirst, if_neg h, List.length_cons]; omega

theorem removeAll_length : ∀ (rm : List Nat) (pl : List (Snd α)), pl.length - rm.length ≤ (removeAll rm pl).length
  | [], pl => by simp [removeAll]
  | i :: is, pl => by
    have h1 := removeAll_length is (removeFirst i pl)
    have h2 := removeFirst_length i pl
    simp only [removeAll, List.length_cons]; omega

/-- the loop with exceptions against the exception-free loop over `Except ε α` -/
theorem xsumLoop_spec [XAdd ε α] : ∀ (pl : List (Snd (Except ε α))) (d : α),
    match xsumLoop d pl with
    | .ok r => sumLoop (Except.ok d : Except ε α) pl = (.ok r.1, r.2.1, r.2.2)
    | .error (e, _) => (sumLoop (Except.ok d : Except ε α) pl).1 = .error e ∧ ∃ s ∈ pl, s.rest ≠ []
  | [], d => by unfold xsumLoop; simp [sumLoop]
  | ⟨i, []⟩ :: ps, d => by
    have ih := xsumLoop_spec ps d
    simp only [xsumLoop, sumLoop]
    cases hx : xsumLoop d ps with
    | ok r => rw [hx] at ih; simp only at ih ⊢; rw [ih]
    | error p =>
      obtain ⟨e, pl'⟩ := p
      rw [hx] at ih; simp only at ih ⊢
      obtain ⟨h1, s, hs, hne⟩ := ih
      exact ⟨h1, s, List.mem_cons_of_mem _ hs, hne⟩
  | ⟨i, .error e :: xs⟩ :: ps, d => by
    simp only [xsumLoop, sumLoop, lift_ok_error]
    exact ⟨sumLoop_absorb e ps, ⟨i, .error e :: xs⟩, List.mem_cons_self, by simp⟩
  | ⟨i, .ok x :: xs⟩ :: ps, d => by
    simp only [xsumLoop, sumLoop, lift_ok_ok]
    cases ha : XAdd.xadd (ε := ε) d x with
    | error e =>
      simp only
      exact ⟨sumLoop_absorb e ps, ⟨i, .ok x :: xs⟩, List.mem_cons_self, by simp⟩
    | ok d' =>
      have ih := xsumLoop_spec ps d'
      simp only
      cases hx : xsumLoop d' ps with
      | ok r => rw [hx] at ih; simp only at ih ⊢; rw [ih]
      | error p =>
        obtain ⟨e, pl'⟩ := p
        rw [hx] at ih; simp only at ih ⊢
        exact ⟨ih.1, ⟨i, .ok x :: xs⟩, List.mem_cons_self, by simp⟩

/-! ### one step -/

/-- a finished generator: every operation shows `deadObs` and the generator stays finished -/
theorem xstep_ended [XAdd ε α] (zero : α) (s : PState (Except ε α)) (h : s.ended = true) (op : XOp ε α) :
    (xstep zero s op).2 = deadObs op ∧ (xstep zero s op).1.ended = true := by
  cases op with
  | add d x => by_cases hd : d < 0 <;> simp [xstep, xadd, deadObs, hd, h]
  | addFail d e => by_cases hd : d < 0 <;> simp [xstep, xaddFail, deadObs, failObs, hd, h]
  | next => simp [xstep, xnext, deadObs, h]
  | setKeep b => simp [xstep, deadObs, h]

theorem xrun_ended [XAdd ε α] (zero : α) : ∀ (ops : List (XOp ε α)) (s : PState (Except ε α)),
    s.ended = true → (xrun zero s ops).2 = ops.map deadObs ∧ (xrun zero s ops).1.ended = true
  | [], _, h => ⟨rfl, h⟩
  | op :: ops, s, h => by
    obtain ⟨h1, h2⟩ := xstep_ended zero s h op
    obtain ⟨k1, k2⟩ := xrun_ended zero ops _ h2
    simp only [xrun, List.map_cons]
    exact ⟨by rw [h1, k1], k2⟩

/-- one `next`: either the exception-free machine makes the very same step and shows a value or
    the end, or its sum is an exception — then it shows that exception as a sample, and the real
    generator is finished -/
theorem xnext_spec [XAdd ε α] (zero : α) (s : PState (Except ε α)) :
    ((xnext zero s).1 = (pnext (Except.ok zero) s).1 ∧
      (xnext zero s).2 = conv (pnext (Except.ok zero) s).2 ∧
      ∀ e k, (pnext (Except.ok zero : Except ε α) s).2 ≠ .out (.error e) k) ∨
    (∃ e k, (pnext (Except.ok zero : Except ε α) s).2 = .out (.error e) k ∧
      (xnext zero s).2 = .raised e ∧ (xnext zero s).1.ended = true) := by
  by_cases he : s.ended = true
  · left
    simp [xnext, pnext, he, conv]
  · have he' : s.ended = false := by simpa using he
    generalize hr : pstartLoop (if s.suspended then s.count + 1 else s.count) s.notPlaying s.playing = r
    have hspec := xsumLoop_spec r.2.2 zero
    cases hx : xsumLoop zero r.2.2 with
    | ok sm =>
      rw [hx] at hspec; simp only at hspec
      left
      simp only [xnext, pnext, he', hr, hx, hspec]
      by_cases hc : s.keep = false ∧ (removeAll sm.2.2 sm.2.1).isEmpty = true ∧ r.2.1.isEmpty = true
      · simp only [if_pos hc]; simp [conv]
      · simp only [if_neg hc]; simp [conv]
    | error p =>
      obtain ⟨e, pl'⟩ := p
      rw [hx] at hspec; simp only at hspec
      obtain ⟨h1, hne⟩ := hspec
      right
      have hl := sumLoop_len r.2.2 (Except.ok zero : Except ε α)
      have hlt := sumLoop_rem_lt _ (Except.ok zero : Except ε α) hne
      have hra := removeAll_length (sumLoop (Except.ok zero : Except ε α) r.2.2).2.2
        (sumLoop (Except.ok zero : Except ε α) r.2.2).2.1
      have hnonempty : (removeAll (sumLoop (Except.ok zero : Except ε α) r.2.2).2.2
          (sumLoop (Except.ok zero : Except ε α) r.2.2).2.1).isEmpty = false := by
        cases hc : removeAll (sumLoop (Except.ok zero : Except ε α) r.2.2).2.2
            (sumLoop (Except.ok zero : Except ε α) r.2.2).2.1 with
        | nil => rw [hc] at hra; simp only [List.length_nil] at hra; omega
        | cons a l => rfl
      refine ⟨e, s.notPlaying.length - r.2.1.length, ?_, ?_, ?_⟩
      · simp only [pnext, he', hr, hnonempty, h1]
        simp
      · simp only [xnext, he', hr, hx]; simp
      · simp only [xnext, he', hr, hx]; simp

/-! ### a whole history -/

theorem xview_addFail (d : Rat) (e : ε) (ops : List (XOp ε α)) (os : List (Obs (Except ε α))) :
    xview (.addFail d e :: ops) os = failObs d e :: xview ops os := rfl

/-- **the machine with exceptions, for every history from every state**: its observations are
    those of the exception-free machine (items `Except ε α`, lifted `+`) on the history without
    the failed adds, read through `xview` -/
theorem xrun_eq_view [XAdd ε α] (zero : α) : ∀ (ops : List (XOp ε α)) (s : PState (Except ε α)),
    (xrun zero s ops).2 = xview ops (prun (Except.ok zero) s (erase ops)).2
  | [], _ => rfl
  | .addFail d e :: ops, s => by
    have ih := xrun_eq_view zero ops s
    simp only [xrun, erase, xview_addFail]
    have hs : (xstep zero s (.addFail d e)) = (s, failObs d e) := by
      by_cases hd : d < 0 <;> simp [xstep, xaddFail, failObs, hd]
    rw [hs, ih]
  | .add d x :: ops, s => by
    by_cases hd : d < 0
    · have ih := xrun_eq_view zero ops s
      simp only [xrun, erase, prun, xstep, xadd, pstep, padd, if_pos hd, xview, conv]
      rw [ih]
    · have ih := xrun_eq_view zero ops
        { s with notPlaying := s.notPlaying ++ [(d, ⟨s.fresh, x⟩)], fresh := s.fresh + 1 }
      simp only [xrun, erase, prun, xstep, xadd, pstep, padd, if_neg hd, xview, conv]
      rw [ih]
  | .setKeep b :: ops, s => by
    have ih := xrun_eq_view zero ops { s with keep := b }
    simp only [xrun, erase, prun, xstep, pstep, xview, conv]
    rw [ih]
  | .next :: ops, s => by
    rcases xnext_spec zero s with ⟨h1, h2, h3⟩ | ⟨e, k, h1, h2, h3⟩
    · have ih := xrun_eq_view zero ops (xnext zero s).1
      simp only [xrun, erase, prun, xstep, pstep, xview]
      rw [ih, h1, h2]   -- (`simp only [xview]` took the ordinary branch of `xview`: it discharged the side condition with h3)
    · obtain ⟨k1, _⟩ := xrun_ended zero ops (xnext zero s).1 h3
      simp only [xrun, erase, prun, xstep, pstep, xview, h1]
      rw [k1, h2]

/-! ### failed adds and time -/

theorem xrun_append [XAdd ε α] (zero : α) : ∀ (a b : List (XOp ε α)) (s : PState (Except ε α)),
    xrun zero s (a ++ b) =
      ((xrun zero (xrun zero s a).1 b).1, (xrun zero s a).2 ++ (xrun zero (xrun zero s a).1 b).2)
  | [], _, _ => rfl
  | op :: a, b, s => by
    simp only [List.cons_append, xrun]
    rw [xrun_append zero a b]

theorem xAcceptedTime_erase : ∀ (ops : List (XOp ε α)), acceptedTime (erase ops) = xAcceptedTime ops
  | [] => rfl
  | .add d x :: ops => by simp [erase, acceptedTime, xAcceptedTime, xAcceptedTime_erase ops]
  | .addFail d e :: ops => by simp [erase, xAcceptedTime, xAcceptedTime_erase ops]
  | .next :: ops => by simp [erase, acceptedTime, xAcceptedTime, xAcceptedTime_erase ops]
  | .setKeep b :: ops => by simp [erase, acceptedTime, xAcceptedTime, xAcceptedTime_erase ops]


/-- an `add` the mixer accepts -/
def Op.accepted : Op α → Bool
  | .add d _ => decide (0 ≤ d)
  | _ => false

/-- the spec's clock after a history: what it was plus the deltas of the accepted adds -/
theorem srun_T [Add α] (zero : α) : ∀ (ops : List (Op α)) (s : SState α),
    (srun zero s ops).1.T = s.T + acceptedTime ops ∧
    (srun zero s ops).1.evs.length = s.evs.length + (ops.filter Op.accepted).length
  | [], s => by simp [srun, acceptedTime]
  | .add d x :: ops, s => by
    by_cases hd : d < 0
    · have ih := srun_T zero ops s
      have hd' : ¬ (0 ≤ d) := by linarith
      simp only [srun, sstep, if_pos hd, acceptedTime, List.filter_cons, Op.accepted, hd', decide_false]
      refine ⟨by rw [ih.1]; ring, by simpa using ih.2⟩
    · have ih := srun_T zero ops { s with T := s.T + d, evs := s.evs ++ [⟨startTime (s.T + d) s.n, x⟩] }
      have hd' : 0 ≤ d := by linarith
      simp only [srun, sstep, if_neg hd, acceptedTime, List.filter_cons, Op.accepted, hd', decide_true, if_true]
      refine ⟨by rw [ih.1]; ring, ?_⟩
      rw [ih.2]; simp; omega
  | .next :: ops, s => by
    simp only [srun, sstep, acceptedTime, List.filter_cons, Op.accepted]
    split
    · simpa using srun_T zero ops s
    · split
      · simpa using srun_T zero ops { s with dead := true }
      · simpa using srun_T zero ops { s with n := s.n + 1 }
  | .setKeep b :: ops, s => by
    simpa [srun, sstep, acceptedTime, List.filter_cons, Op.accepted] using srun_T zero ops { s with keep := b }

/-! ### what the sum of a sample is when items may raise -/

/-- the sum of the items due at one sample, as the code evaluates it: in order, stopping at the
    first exception (of `next(snd)` or of the addition) -/
def xsum [XAdd ε α] : α → List (Except ε α) → Except ε α
  | d, [] => .ok d
  | _, .error e :: _ => .error e
  | d, .ok x :: l =>
    match XAdd.xadd (ε := ε) d x with
    | .error e => .error e
    | .ok d' => xsum d' l

theorem foldl_lift_error [XAdd ε α] (e : ε) : ∀ (l : List (Except ε α)),
    l.foldl (· + ·) (Except.error e : Except ε α) = .error e
  | [] => rfl
  | x :: l => by simp only [List.foldl_cons, lift_error_add]; exact foldl_lift_error e l

theorem foldl_lift_eq_xsum [XAdd ε α] : ∀ (l : List (Except ε α)) (d : α),
    l.foldl (· + ·) (Except.ok d : Except ε α) = xsum d l
  | [], _ => rfl
  | .error e :: l, d => by simp only [List.foldl_cons, lift_ok_error, xsum]; exact foldl_lift_error e l
  | .ok x :: l, d => by
    simp only [List.foldl_cons, lift_ok_ok, xsum]
    cases XAdd.xadd (ε := ε) d x with
    | error e => exact foldl_lift_error e l
    | ok d' => exact foldl_lift_eq_xsum l d'

/-- an event whose items all are values, seen as an event over `Except ε α` -/
def SEv.lift (e : SEv α) : SEv (Except ε α) := ⟨e.start, e.data.map .ok⟩

theorem foldl_lift_ok [Add α] [XAdd ε α] (htot : ∀ a b : α, XAdd.xadd (ε := ε) a b = .ok (a + b)) :
    ∀ (l : List α) (d : α),
      (l.map Except.ok).foldl (· + ·) (Except.ok d : Except ε α) = .ok (l.foldl (· + ·) d)
  | [], _ => rfl
  | x :: l, d => by
    simp only [List.map_cons, List.foldl_cons, lift_ok_ok, htot]
    exact foldl_lift_ok htot l (d + x)

theorem term_lift (n : Nat) (e : SEv α) :
    term n (SEv.lift (ε := ε) e) = (term n e).map Except.ok := by
  unfold term SEv.lift
  by_cases h : e.start ≤ n <;> simp [h]

theorem outAt_lift [Add α] [XAdd ε α] (htot : ∀ a b : α, XAdd.xadd (ε := ε) a b = .ok (a + b))
    (zero : α) (n : Nat) (evs : List (SEv α)) :
    outAt (Except.ok zero : Except ε α) n (evs.map SEv.lift) = .ok (outAt zero n evs) := by
  unfold outAt
  have : (evs.map (SEv.lift (ε := ε))).filterMap (term n) = ((evs.filterMap (term n)).map Except.ok) := by
    rw [List.filterMap_map, List.map_filterMap]
    congr 1
    funext e
    simp [Function.comp, term_lift]
  rw [this]
  exact foldl_lift_ok htot _ zero

end ALV.C16
