/-
  C11 — helper lemmas, part 10: the Levinson recursion parameterised by the summation function
  (`ALV/Model/C11LevFloat.lean`).

  * law-free (any carrier, binary64 included): with the left fold for `sum` it IS the recursion of
    `ALV/Model/C11.lean`; the shape of a result; when it raises.
  * over a field: CPython's compensated `sum` is the left fold (the compensation stays zero), hence
    the binary64 twin's definition over exact operations is the model.
  * law-free facts about the float loop of `parcor`: it raises exactly at a yielded `k` with
    `1 - sq k = 0`.
-/
import ALV.Model.C11LevFloat
import ALV.Lemmas.C11Float
import Mathlib.Tactic.Ring

set_option linter.unusedSectionVars false

namespace ALV.C11

section Generic
variable {α : Type} [Add α] [Mul α] [Sub α] [Neg α] [Div α] [OfNat α 0] [OfNat α 1]
  [DecidableEq α]

theorem innerG_lsum (r a b : List α) : innerG lsum r a b = inner r a b := rfl

theorem levStepG_lsum (r : List α) (s : LevState α) : levStepG lsum r s = levStep r s := rfl

theorem levLoopG_lsum (r : List α) : ∀ (n : Nat) (s : LevState α),
    levLoopG lsum r n s = levLoop r n s
  | 0, _ => rfl
  | n + 1, s => by
    unfold levLoopG levLoop
    rw [levStepG_lsum]
    rcases levStep r s with _ | s'
    · rfl
    · exact levLoopG_lsum r n s'

theorem levinsonG_lsum (r : List α) (order : Nat) : levinsonG lsum r order = levinson r order := by
  unfold levinsonG levinson
  simp only [levLoopG_lsum, innerG_lsum]
  cases levLoop (extendAc r order) order ⟨[1], []⟩ <;> rfl

/-- the summation function matters only through its values -/
theorem levinsonG_congr (sum sum' : List α → α) (h : ∀ l, sum l = sum' l) (r : List α) (order : Nat) :
    levinsonG sum r order = levinsonG sum' r order := by
  have : sum = sum' := funext h
  rw [this]

theorem levStepG_shape (sum : List α → α) (r : List α) (s s' : LevState α)
    (h : levStepG sum r s = some s') :
    s'.a.length = s.a.length + 1 ∧ s'.ks.length = s.ks.length + 1 := by
  unfold levStepG at h
  simp only [] at h
  split at h
  · cases h
  · simp only [Option.some.injEq] at h
    rw [← h]
    simp

theorem levLoopG_shape (sum : List α → α) (r : List α) : ∀ (n : Nat) (s s' : LevState α),
    levLoopG sum r n s = some s' →
      s'.a.length = s.a.length + n ∧ s'.ks.length = s.ks.length + n
  | 0, s, s', h => by
    simp only [levLoopG, Option.some.injEq] at h; rw [← h]; exact ⟨rfl, rfl⟩
  | n + 1, s, s', h => by
    simp only [levLoopG] at h
    cases h1 : levStepG sum r s with
    | none => rw [h1] at h; cases h
    | some s1 =>
      rw [h1] at h
      have h2 := levStepG_shape sum r s s1 h1
      have h3 := levLoopG_shape sum r n s1 s' h
      omega

/-- the loop raises exactly when, after some `m < n` completed steps, `⟨B, B⟩` is zero -/
theorem levLoopG_none_iff (sum : List α → α) (r : List α) : ∀ (n : Nat) (s : LevState α),
    levLoopG sum r n s = none ↔
      ∃ m, m < n ∧ ∃ s', levLoopG sum r m s = some s' ∧ levStepG sum r s' = none
  | 0, s => by simp [levLoopG]
  | n + 1, s => by
    constructor
    · intro h
      simp only [levLoopG] at h
      cases h1 : levStepG sum r s with
      | none => exact ⟨0, by omega, s, rfl, h1⟩
      | some s1 =>
        rw [h1] at h
        obtain ⟨m, hm, s', hl, hs⟩ := (levLoopG_none_iff sum r n s1).mp h
        exact ⟨m + 1, by omega, s', by simp only [levLoopG, h1]; exact hl, hs⟩
    · rintro ⟨m, hm, s', hl, hs⟩
      simp only [levLoopG]
      cases h1 : levStepG sum r s with
      | none => rfl
      | some s1 =>
        simp only []
        cases m with
        | zero =>
          simp only [levLoopG, Option.some.injEq] at hl
          rw [hl, hs] at h1; cases h1
        | succ m =>
          simp only [levLoopG, h1] at hl
          exact (levLoopG_none_iff sum r n s1).mpr ⟨m, by omega, s', hl, hs⟩

theorem levStepG_none_iff (sum : List α → α) (r : List α) (s : LevState α) :
    levStepG sum r s = none ↔
      innerG sum r ((0 : α) :: s.a.reverse) ((0 : α) :: s.a.reverse) = 0 := by
  unfold levStepG
  simp only []
  split <;> simp [*]

/-! ### the float loop of `parcor` raises exactly at a yielded `k` with `1 - sq k = 0` -/

theorem ploopG_raised_iff (sq : α → α) (n : Nat) (d : α) : ∀ (m : Nat) (w : List α),
    (ploopG sq n d m w).2 = true ↔ ∃ k ∈ (ploopG sq n d m w).1, 1 - sq k = 0
  | 0, _ => by simp [ploopG]
  | m + 1, w => by
    unfold ploopG
    unfold pstepG
    by_cases h : (1 : α) - sq (lget n w ((m + 1 : Nat) : Int)) = 0
    · simp only [h, if_true]
      simp only [List.mem_singleton, exists_eq_left, true_iff]
      exact h
    · simp only [h, if_false]
      simp only [List.mem_cons, exists_eq_or_imp, h, false_or]
      exact ploopG_raised_iff sq n d m _

end Generic

/-! ### over a field CPython's compensated `sum` is the left fold -/
section Field
variable {K : Type} [Field K] [DecidableEq K] [LT K] [DecidableLT K]

theorem neuStep_exact (f x : K) : neuStep (f, (0 : K)) x = (f + x, 0) := by
  unfold neuStep
  simp only []
  split
  · congr 1; ring
  · congr 1; ring

theorem foldl_neuStep_exact : ∀ (l : List K) (f : K),
    l.foldl neuStep (f, (0 : K)) = (l.foldl (· + ·) f, 0)
  | [], _ => rfl
  | x :: t, f => by
    rw [List.foldl_cons, neuStep_exact, foldl_neuStep_exact t, List.foldl_cons]

theorem sumPyG_eq_lsum (fin : K → Bool) (l : List K) : sumPyG fin l = lsum l := by
  unfold sumPyG lsum
  rw [foldl_neuStep_exact]
  simp

theorem levinsonG_sumPy (fin : K → Bool) (r : List K) (order : Nat) :
    levinsonG (sumPyG fin) r order = levinson r order := by
  rw [levinsonG_congr _ lsum (sumPyG_eq_lsum fin), levinsonG_lsum]

end Field

end ALV.C11
