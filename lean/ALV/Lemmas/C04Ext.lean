/-
  C04 — helper lemmas, part 9: iterator memories (`readMem`), the free response, which generator is
  chosen, the gain operator, constructor argument kinds.
-/
import ALV.Lemmas.C04Cx
import ALV.Model.C04Mem
import ALV.Spec.C04Ext
import Mathlib.Tactic.Ring

set_option linter.unusedSectionVars false
set_option linter.unusedSimpArgs false

namespace ALV.C04

/-! ### reading an iterator memory (no algebra: any item type) -/
section reads
variable {α : Type}

theorem readMem_fin (lm : Nat) : ∀ l : List α,
    readMem lm (Src.fin l) = (l.take lm, min (lm + 1) l.length, Src.fin (l.drop (lm + 1))) := by
  induction lm with
  | zero =>
    intro l
    cases l with
    | nil => simp [readMem, Src.next]
    | cons x r => simp [readMem, Src.next]
  | succ n ih =>
    intro l
    cases l with
    | nil => simp [readMem, Src.next]
    | cons x r =>
      simp only [readMem, Src.next, ih r, List.take_succ_cons, List.length_cons, List.drop_succ_cons]
      refine Prod.ext rfl (Prod.ext ?_ rfl)
      show min (n + 1) r.length + 1 = min (n + 1 + 1) (r.length + 1)
      omega

theorem readMem_inf (lm : Nat) : ∀ (g : Nat → α) (p : Nat),
    readMem lm (Src.inf g p)
      = ((List.range lm).map (fun i => g (p + i)), lm + 1, Src.inf g (p + lm + 1)) := by
  induction lm with
  | zero => intro g p; simp [readMem, Src.next]
  | succ n ih =>
    intro g p
    simp only [readMem, Src.next, ih g (p + 1)]
    refine Prod.ext ?_ (Prod.ext rfl ?_)
    · show g p :: (List.range n).map (fun i => g (p + 1 + i)) = (List.range (n + 1)).map (fun i => g (p + i))
      rw [List.range_succ_eq_map, List.map_cons, List.map_map]
      congr 1
      apply List.map_congr_left
      intro i _
      show g (p + 1 + i) = g (p + (i + 1))
      congr 1; omega
    · show Src.inf g (p + 1 + n + 1) = Src.inf g (p + (n + 1) + 1)
      congr 1; omega

theorem peek_fin (n : Nat) : ∀ l : List α, Src.peek n (Src.fin l) = l.take n := by
  induction n with
  | zero => intro l; simp [Src.peek]
  | succ n ih =>
    intro l
    cases l with
    | nil => simp [Src.peek, Src.next]
    | cons x r => simp [Src.peek, Src.next, ih r]

theorem memoryFromSrc_fin (zero : α) (lm : Nat) (l : List α) :
    memoryFromSrc zero lm (Src.fin l) = memoryOf zero lm (Mem.iter l) := by
  simp only [memoryFromSrc, readMem_fin, memoryOf, memFromIter]

theorem memoryFromSrc_inf (zero : α) (lm : Nat) (g : Nat → α) :
    memoryFromSrc zero lm (Src.inf g 0) = memoryOf zero lm (Mem.gen g) := by
  simp only [memoryFromSrc, readMem_inf, memoryOf, memFromIter]
  have h : (List.range lm).map (fun i => g (0 + i)) = (List.range lm).map g := by
    apply List.map_congr_left
    intro i _
    show g (0 + i) = g i
    congr 1; omega
  rw [h, List.take_of_length_le (by simp)]

end reads

/-! ### constructor argument kinds (no algebra) -/
section args
variable {K : Type} [OfNat K 0] [DecidableEq K]

theorem coefLast_eq_lastD (pairs : List (Int × K)) (k : Int) : coefLast pairs k = lastD pairs k 0 := rfl

theorem lastD_enumFrom (l : List K) : ∀ (s k : Int) (d : K),
    lastD (enumFrom s l) k d
      = if s ≤ k ∧ k < s + (l.length : Int) then l.getD (k - s).toNat 0 else d := by
  induction l with
  | nil =>
    intro s k d
    have hc : ¬ (s ≤ k ∧ k < s + ((([] : List K).length : Nat) : Int)) := by
      simp only [List.length_nil]; omega
    rw [if_neg hc]
    simp [enumFrom, lastD]
  | cons c cs ih =>
    intro s k d
    rw [enumFrom, lastD_cons, ih]
    simp only [List.length_cons]
    by_cases hks : k = s
    · subst hks
      have h1 : ¬ (k + 1 ≤ k ∧ k < k + 1 + (cs.length : Int)) := by omega
      have h2 : k ≤ k ∧ k < k + ((cs.length + 1 : Nat) : Int) := by omega
      rw [if_neg h1, if_pos h2]
      simp
    · by_cases hin : s + 1 ≤ k ∧ k < s + 1 + (cs.length : Int)
      · have h2 : s ≤ k ∧ k < s + ((cs.length + 1 : Nat) : Int) := by omega
        rw [if_pos hin, if_pos h2]
        have : (k - s).toNat = (k - (s + 1)).toNat + 1 := by omega
        rw [this, List.getD_cons_succ]
      · have h2 : ¬ (s ≤ k ∧ k < s + ((cs.length + 1 : Nat) : Int)) := by omega
        rw [if_neg hin, if_neg h2, if_neg hks]

/-- `Poly(list)`: `enumerate(list)` read as a dictionary is the list read by position -/
theorem coefLast_enumFrom (l : List K) (k : Int) :
    coefLast (enumFrom 0 l) k = if k < 0 then 0 else l.getD k.toNat 0 := by
  rw [coefLast_eq_lastD, lastD_enumFrom]
  by_cases hk : k < 0
  · have : ¬ ((0 : Int) ≤ k ∧ k < 0 + (l.length : Int)) := by omega
    rw [if_neg this, if_pos hk]
  · rw [if_neg hk]
    by_cases hl : k < (l.length : Int)
    · have : (0 : Int) ≤ k ∧ k < 0 + (l.length : Int) := by omega
      rw [if_pos this]; simp
    · have : ¬ ((0 : Int) ≤ k ∧ k < 0 + (l.length : Int)) := by omega
      rw [if_neg this]
      have hle : l.length ≤ k.toNat := by omega
      simp [List.getD_eq_getElem?_getD, List.getElem?_eq_none hle]

theorem lastD_map_val (f : K → K) (n : List (Int × K)) : ∀ (k : Int) (d : K),
    lastD (n.map (fun kv => (kv.1, f kv.2))) k (f d) = f (lastD n k d) := by
  induction n with
  | nil => intro k d; simp [lastD]
  | cons kv r ih =>
    intro k d
    rw [List.map_cons, lastD_cons, lastD_cons, ← ih]
    congr 1
    split_ifs <;> rfl

theorem coefArg_coef (a : CoefArg K) (k : Int) : coefLast a.pairs k = a.coef k := by
  cases a with
  | none => simp [CoefArg.pairs, CoefArg.coef, coefLast]
  | number c =>
    simp only [CoefArg.pairs, CoefArg.coef, coefLast_eq_lastD, lastD_cons]
    simp [lastD]
  | list l => simp only [CoefArg.pairs, CoefArg.coef, coefLast_enumFrom]
  | dict p => rfl

end args

/-! ### which generator, the gain, the free response (fields) -/
section field
variable {K : Type} [Field K] [DecidableEq K]

theorem compile_const_iff (b as : List K) (a0 zero : K) :
    compile b (a0 :: as) zero = IR.constLoop zero ↔ (∀ c ∈ b, c = 0) ∧ (∀ c ∈ as, c = 0) := by
  rw [← dataSum_eq_nil]
  cases h : numAtoms 0 b ++ denAtoms 1 as with
  | nil => simp [compile, h]
  | cons t ts => simp [compile, h]

theorem compile_loop (b as : List K) (a0 zero : K)
    (hnz : ¬ ((∀ c ∈ b, c = 0) ∧ (∀ c ∈ as, c = 0))) :
    compile b (a0 :: as) zero = IR.loop as.length (b.length - 1) (numAtoms 0 b ++ denAtoms 1 as)
      (if a0 = -1 then Gain.negOne else if a0 ≠ 1 then Gain.div a0 else Gain.one)
      (mShifts as.length ++ dShifts (b.length - 1)) := by
  have hne : ¬ (numAtoms 0 b ++ denAtoms 1 as = []) := by rwa [dataSum_eq_nil]
  cases h : numAtoms 0 b ++ denAtoms 1 as with
  | nil => exact absurd h hne
  | cons t ts =>
    simp only [compile, List.tail_cons, h, List.isEmpty_cons, Bool.false_eq_true, if_false]
    rfl

theorem fspec_zero_num (b as : List K) (a0 zero : K) (hb : ∀ c ∈ b, c = 0) (xs : List K) :
    ∀ hy hx : List K, fspec b as a0 zero hy hx xs = freeResp as a0 hy xs.length := by
  induction xs with
  | nil => intro hy hx; simp [fspec, freeResp]
  | cons x xs ih =>
    intro hy hx
    simp only [fspec, freeResp, List.length_cons, dot_zero_coeffs _ _ hb, ih]

/-! ### scaling the numerator scales the response -/

theorem dot_map_left (c : K) (b : List K) : ∀ v : List K, dot (b.map (· / c)) v = dot b v / c := by
  induction b with
  | nil => intro v; simp [dot]
  | cons b0 bs ih =>
    intro v
    cases v with
    | nil => simp [dot]
    | cons v0 vs => simp only [List.map_cons, dot, ih, add_div]; ring

theorem dot_map_right (c : K) (a : List K) : ∀ v : List K, dot a (v.map (· / c)) = dot a v / c := by
  induction a with
  | nil => intro v; simp [dot]
  | cons a0 as ih =>
    intro v
    cases v with
    | nil => simp [dot]
    | cons v0 vs => simp only [List.map_cons, dot, ih, add_div]; ring

theorem fspec_scale (b as : List K) (a0 c : K) (xs : List K) : ∀ hy hx : List K,
    fspec (b.map (· / c)) as a0 0 (hy.map (· / c)) hx xs = (fspec b as a0 0 hy hx xs).map (· / c) := by
  induction xs with
  | nil => intro hy hx; simp [fspec]
  | cons x xs ih =>
    intro hy hx
    simp only [fspec, List.map_cons, List.length_map, dot_map_left, dot_map_right]
    have h : ∀ p q : K, (p / c - q / c) / a0 = (p - q) / a0 / c := by
      intro p q; rw [← sub_div, div_div, div_div, mul_comm]
    rw [h]
    congr 1
    have := ih (((dot b (takeP 0 b.length (x :: hx)) - dot as hy) / a0) :: hy) (x :: hx)
    simpa using this

end field

end ALV.C04
