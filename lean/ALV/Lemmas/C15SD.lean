/-
  C15 — StrategyDict: simulation of `__delitem__`, `__setitem__`, `__delattr__` by the abstract
  state (map + attributes + default).
-/
import ALV.Lemmas.C15MK

set_option linter.unusedSectionVars false

namespace ALV.C15
variable {K V : Type} [DecidableEq K] [DecidableEq V]

theorem sdrep_empty : SDRep (SD.empty : SD K V) {} :=
  ⟨rep_empty, fun _ => rfl, rfl⟩

/-- a duplicate-free list all of whose members equal `k` is `[]` or `[k]` -/
theorem nodup_all_eq {t : List K} {k : K} (hn : t.Nodup) (h : ∀ x ∈ t, x = k) : t = [] ∨ t = [k] := by
  cases t with
  | nil => left; rfl
  | cons a r =>
    right
    have ha := h a List.mem_cons_self
    subst ha
    cases r with
    | nil => rfl
    | cons b r' =>
      exfalso
      have hb := h b (List.mem_cons_of_mem _ List.mem_cons_self)
      subst hb
      simp at hn

theorem length_one_mem {t : List K} {k : K} (hk : k ∈ t) : t.length = 1 ↔ t = [k] := by
  constructor
  · intro hl
    match t, hl, hk with
    | [a], _, hk => simp at hk; rw [hk]
  · rintro rfl; rfl

/-! ## `StrategyDict.__delitem__` -/

theorem sdDelitem_sim {s : SD K V} {g : SDSpec K V} (h : SDRep s g) (k : K) :
    (dget g.log k = none ∧ sdDelitem s k = none ∧ sdSpecDel g k = none) ∨
    (∃ s' g', (dget g.log k).isSome ∧ sdDelitem s k = some s' ∧ sdSpecDel g k = some g' ∧ SDRep s' g') := by
  rcases delitem_sim h.rep k with ⟨hl, hd⟩ | ⟨mk', hl, hd, hrep⟩
  · left
    refine ⟨hl, ?_, by simp [sdSpecDel, hl]⟩
    have : dget s.mkd.keysDict k = none := by
      cases hg : dget s.mkd.keysDict k with
      | none => rfl
      | some kt =>
        obtain ⟨v, hm, hkk⟩ := (h.rep.inv.keys k kt).mp hg
        have := dget_isSome_of_mem (h.rep.mem_log.mpr ⟨kt, hm, hkk⟩)
        rw [hl] at this; cases this
    simp [sdDelitem, key2keys, this]
  · right
    obtain ⟨w, hw⟩ := Option.isSome_iff_exists.mp hl
    have hmem := h.rep.mem_log.mp (dget_some_mem hw)
    obtain ⟨kt, hm, hkk⟩ := hmem
    have hk2k : key2keys s.mkd k = some kt := (h.rep.inv.keys k kt).mpr ⟨w, hm, hkk⟩
    have hkt : keysOf g.log w = kt := by rw [← h.rep.groups, h.rep.inv.v2k_of_mem hm]
    have hgt : getTuple s.mkd kt = some w := h.rep.inv.store_get hm
    refine ⟨{ mkd := mk'
              attrs :=
                if kt.length = 1 ∧
                    dget (if dget s.attrs (some k) = some w then derase s.attrs (some k) else s.attrs) none
                      = some w
                then derase (if dget s.attrs (some k) = some w then derase s.attrs (some k) else s.attrs) none
                else (if dget s.attrs (some k) = some w then derase s.attrs (some k) else s.attrs) },
            { log := g.log.filter (fun e => e.1 ≠ k)
              attr := if dget g.attr k = some w then derase g.attr k else g.attr
              default := if g.default = some w ∧ keysOf g.log w = [k] then none else g.default },
            hl, ?_, ?_, ?_⟩
    · simp only [sdDelitem, hk2k, hgt, hd]
    · simp only [sdSpecDel, hw]
    · refine ⟨hrep, ?_, ?_⟩
      · intro k'
        simp only
        have e1 : dget s.attrs (some k) = some w ↔ dget g.attr k = some w := by rw [h.attr]
        by_cases hc : dget g.attr k = some w
        · have hc' := e1.mpr hc
          simp only [hc, hc', if_true]
          have : ∀ a : Dict (Option K) V,
              dget (if kt.length = 1 ∧ dget a none = some w then derase a none else a) (some k')
                = dget a (some k') := by
            intro a; split
            · rw [dget_derase]; simp
            · rfl
          rw [this, dget_derase, dget_derase, h.attr]
          by_cases hkk' : k' = k <;> simp [hkk']
        · have hc' : ¬ dget s.attrs (some k) = some w := fun x => hc (e1.mp x)
          simp only [hc, hc', if_false]
          split
          · rw [dget_derase]; simp [h.attr]
          · exact h.attr k'
      · simp only
        have hnone : ∀ a : Dict (Option K) V,
            dget (if dget a (some k) = some w then derase a (some k) else a) none = dget a none := by
          intro a; split
          · rw [dget_derase]; simp
          · rfl
        have hlen : kt.length = 1 ↔ keysOf g.log w = [k] := by rw [hkt]; exact length_one_mem hkk
        by_cases hc : g.default = some w ∧ keysOf g.log w = [k]
        · have : kt.length = 1 ∧
              dget (if dget s.attrs (some k) = some w then derase s.attrs (some k) else s.attrs) none = some w :=
            ⟨hlen.mpr hc.2, by rw [hnone, h.dflt]; exact hc.1⟩
          simp only [this, hc, and_self, if_true]
          rw [dget_derase]; simp
        · have : ¬ (kt.length = 1 ∧
              dget (if dget s.attrs (some k) = some w then derase s.attrs (some k) else s.attrs) none = some w) := by
            rintro ⟨h1, h2⟩
            rw [hnone, h.dflt] at h2
            exact hc ⟨h2, hlen.mp h1⟩
          simp only [this, hc, if_false]
          rw [hnone, h.dflt]

/-! ## the deletion loop of `StrategyDict.__setitem__` -/

theorem losesAllNames_iff {l : Log K V} {w : V} {p : List K} :
    losesAllNames l w p = true ↔ keysOf l w ≠ [] ∧ ∀ k ∈ keysOf l w, k ∈ p := by
  simp [losesAllNames]

/-- the default after the names `p` were deleted one by one -/
def defaultAfterLoss (l : Log K V) (d : Option V) (p : List K) : Option V :=
  match d with
  | none => none
  | some w => if losesAllNames l w p then none else some w

theorem loses_cons_unbound {l : Log K V} {w : V} {k : K} {r : List K} (hk : dget l k = none) :
    losesAllNames l w (k :: r) = losesAllNames l w r := by
  rw [Bool.eq_iff_iff, losesAllNames_iff, losesAllNames_iff]
  have hnot : k ∉ keysOf l w := fun hm => by
    have := dget_isSome_of_mem (mem_keysOf.mp hm)
    rw [hk] at this; cases this
  constructor
  · rintro ⟨h1, h2⟩
    refine ⟨h1, fun x hx => ?_⟩
    rcases List.mem_cons.mp (h2 x hx) with rfl | h
    · exact (hnot hx).elim
    · exact h
  · rintro ⟨h1, h2⟩
    exact ⟨h1, fun x hx => List.mem_cons_of_mem _ (h2 x hx)⟩

theorem loses_cons_bound {l : Log K V} (hn : (l.map (·.1)).Nodup) {w w0 : V} {k : K} {r : List K}
    (hk : dget l k = some w0) (hc : ¬ (w = w0 ∧ keysOf l w = [k])) :
    losesAllNames (l.filter (fun e => e.1 ≠ k)) w r = losesAllNames l w (k :: r) := by
  rw [Bool.eq_iff_iff, losesAllNames_iff, losesAllNames_iff,
    keysOf_filter l (fun x => decide (x ≠ k)) w]
  have hmemf : ∀ x, x ∈ (keysOf l w).filter (fun x => decide (x ≠ k)) ↔ x ∈ keysOf l w ∧ x ≠ k := by
    intro x; simp [List.mem_filter]
  constructor
  · rintro ⟨h1, h2⟩
    refine ⟨fun h0 => h1 (by rw [h0]; rfl), fun x hx => ?_⟩
    by_cases hxk : x = k
    · rw [hxk]; exact List.mem_cons_self
    · exact List.mem_cons_of_mem _ (h2 x ((hmemf x).mpr ⟨hx, hxk⟩))
  · rintro ⟨h1, h2⟩
    constructor
    · intro h0
      have hall : ∀ x ∈ keysOf l w, x = k := by
        intro x hx
        have := List.filter_eq_nil_iff.mp h0 x hx
        simpa using this
      rcases nodup_all_eq (keysOf_nodup hn w) hall with h | h
      · exact h1 h
      · have hkw : (k, w) ∈ l := mem_keysOf.mp (by rw [h]; exact List.mem_cons_self)
        exact hc ⟨log_unique hn hkw (dget_some_mem hk), h⟩
    · intro x hx
      obtain ⟨hx1, hx2⟩ := (hmemf x).mp hx
      rcases List.mem_cons.mp (h2 x hx1) with h | h
      · exact (hx2 h).elim
      · exact h

theorem sdDelLoop_sim (p : List K) : ∀ {s : SD K V} {g : SDSpec K V}, SDRep s g →
    ∃ g1, SDRep (sdDelLoop s p) g1 ∧ g1.log = g.log.filter (fun e => e.1 ∉ p) ∧
      (∀ k, k ∉ p → dget g1.attr k = dget g.attr k) ∧
      g1.default = defaultAfterLoss g.log g.default p := by
  induction p with
  | nil =>
    intro s g h
    refine ⟨g, h, ?_, fun _ _ => rfl, ?_⟩
    · symm; apply List.filter_eq_self.mpr; intro a _; simp
    · unfold defaultAfterLoss
      cases hd : g.default with
      | none => rfl
      | some w =>
        have : losesAllNames g.log w [] = false := by
          rw [Bool.eq_false_iff]; intro hc
          obtain ⟨h1, h2⟩ := losesAllNames_iff.mp hc
          obtain ⟨x, hx⟩ := List.exists_mem_of_ne_nil _ h1
          exact absurd (h2 x hx) (by simp)
        simp [this]
  | cons k r ih =>
    intro s g h
    rcases sdDelitem_sim h k with ⟨hl, hd, _⟩ | ⟨s', g', hl, hd, hsd, hrep⟩
    · obtain ⟨g1, h1, h2, h3, h4⟩ := ih h
      refine ⟨g1, by simpa only [sdDelLoop, hd] using h1, ?_, ?_, ?_⟩
      · rw [h2]
        apply List.filter_congr
        intro e he
        have := dget_eq_none_iff.mp hl e he
        simp [this]
      · intro k' hk'; exact h3 k' (fun hm => hk' (List.mem_cons_of_mem _ hm))
      · rw [h4]; unfold defaultAfterLoss
        cases g.default with
        | none => rfl
        | some w => simp only [loses_cons_unbound hl]
    · obtain ⟨w0, hw0⟩ := Option.isSome_iff_exists.mp hl
      simp only [sdSpecDel, hw0, Option.some.injEq] at hsd
      obtain ⟨g1, h1, h2, h3, h4⟩ := ih hrep
      refine ⟨g1, by simpa only [sdDelLoop, hd] using h1, ?_, ?_, ?_⟩
      · rw [h2, ← hsd]
        simp only
        rw [List.filter_filter]
        apply List.filter_congr
        intro e _
        simp [Bool.and_comm]
      · intro k' hk'
        have hk1 : k' ≠ k := fun hc => hk' (hc ▸ List.mem_cons_self)
        rw [h3 k' (fun hm => hk' (List.mem_cons_of_mem _ hm)), ← hsd]
        simp only
        split
        · rw [dget_derase]; simp [hk1]
        · rfl
      · rw [h4, ← hsd]
        simp only
        unfold defaultAfterLoss
        cases hdef : g.default with
        | none => simp
        | some w =>
          by_cases hc : w = w0 ∧ keysOf g.log w = [k]
          · have hlose : losesAllNames g.log w (k :: r) = true := by
              rw [losesAllNames_iff, hc.2]
              exact ⟨by simp, by simp⟩
            have : (some w = some w0 ∧ keysOf g.log w0 = [k]) := ⟨by rw [hc.1], by rw [← hc.1]; exact hc.2⟩
            simp only [this, and_self, if_true, hlose]
          · have hc' : ¬ (some w = some w0 ∧ keysOf g.log w0 = [k]) := by
              rintro ⟨h1', h2'⟩
              have := Option.some.inj h1'
              exact hc ⟨this, by rw [this]; exact h2'⟩
            simp only [hc', if_false]
            rw [loses_cons_bound h.rep.logNodup hw0 hc]

/-! ## `StrategyDict.__setitem__` -/

theorem specSet_filter_same (l : Log K V) (keys : List K) (v : V) :
    specSet (l.filter (fun e => e.1 ∉ keys)) keys v = specSet l keys v := by
  unfold specSet
  rw [List.filter_filter]
  congr 1
  apply List.filter_congr
  intro e _; simp

theorem dget_foldl_dset_some (keys : List K) (v : V) (a : Dict (Option K) V) (x : Option K) :
    dget (keys.foldl (fun a k => dset a (some k) v) a) x
      = if x ∈ keys.map some then some v else dget a x := by
  have : keys.foldl (fun a k => dset a (some k) v) a
      = (keys.map some).foldl (fun a k => dset a k v) a := by
    rw [List.foldl_map]
  rw [this, dget_foldl_dset]
  congr

theorem sdSetitem_sim {s : SD K V} {g : SDSpec K V} (h : SDRep s g) {keys : List K}
    (hne : keys ≠ []) (v : V) :
    ∃ s', sdSetitem s keys v = some s' ∧ SDRep s' (sdSpecSet g keys v) := by
  obtain ⟨g1, h1, hlog, hattr, hdef⟩ := sdDelLoop_sim keys h
  obtain ⟨mk', hset, hrep⟩ := setitem_sim h1.rep hne v
  rw [hlog, specSet_filter_same] at hrep
  refine ⟨{ mkd := mk'
            attrs :=
              if dhas (keys.foldl (fun a k => dset a (some k) v) (sdDelLoop s keys).attrs) none
              then keys.foldl (fun a k => dset a (some k) v) (sdDelLoop s keys).attrs
              else dset (keys.foldl (fun a k => dset a (some k) v) (sdDelLoop s keys).attrs) none v },
    by simp only [sdSetitem, hset], hrep, ?_, ?_⟩
  · intro k'
    simp only [sdSpecSet]
    have hsome : ∀ a : Dict (Option K) V,
        dget (if dhas a none then a else dset a none v) (some k') = dget a (some k') := by
      intro a; split
      · rfl
      · rw [dget_dset]; simp
    rw [hsome, dget_foldl_dset_some, dget_foldl_dset]
    by_cases hk : k' ∈ keys
    · have : some k' ∈ keys.map some := List.mem_map.mpr ⟨k', hk, rfl⟩
      simp [hk, this]
    · have : some k' ∉ keys.map some := by
        intro hm
        obtain ⟨x, hx, hxe⟩ := List.mem_map.mp hm
        exact hk (Option.some.inj hxe ▸ hx)
      simp only [hk, this, if_false]
      rw [h1.attr, hattr k' hk]
  · simp only [sdSpecSet]
    have hnone : dget (keys.foldl (fun a k => dset a (some k) v) (sdDelLoop s keys).attrs) none
        = g1.default := by
      rw [dget_foldl_dset_some]
      have : (none : Option K) ∉ keys.map some := by
        intro hm
        obtain ⟨x, _, hxe⟩ := List.mem_map.mp hm
        cases hxe
      simp only [this, if_false]
      exact h1.dflt
    rw [hdef] at hnone
    unfold defaultAfterLoss at hnone
    cases hd : g.default with
    | none =>
      rw [hd] at hnone
      simp only at hnone
      simp only [dhas, hnone, Option.isSome_none, Bool.false_eq_true, if_false]
      rw [dget_dset]; simp
    | some w =>
      rw [hd] at hnone
      simp only at hnone
      cases hl : losesAllNames g.log w keys with
      | true =>
        simp only [hl, if_true] at hnone ⊢
        simp only [dhas, hnone, Option.isSome_none, Bool.false_eq_true, if_false]
        rw [dget_dset]; simp
      | false =>
        simp only [hl, Bool.false_eq_true, if_false] at hnone ⊢
        simp only [dhas, hnone, Option.isSome_some, if_true]

/-! ## `StrategyDict.__delattr__` and single steps -/

theorem objDelattr_some_sim {s : SD K V} {g : SDSpec K V} (h : SDRep s g) (k : K) :
    (dget g.attr k = none ∧ objDelattr s (some k) = .error .attr) ∨
    (∃ s', (dget g.attr k).isSome ∧ objDelattr s (some k) = .ok s' ∧
        SDRep s' { g with attr := derase g.attr k }) := by
  cases ha : dget g.attr k with
  | none =>
    left
    have : dget s.attrs (some k) = none := by rw [h.attr, ha]
    exact ⟨rfl, by simp [objDelattr, ddel, dhas, this]⟩
  | some a =>
    right
    have : dget s.attrs (some k) = some a := by rw [h.attr, ha]
    refine ⟨{ s with attrs := derase s.attrs (some k) }, rfl, by simp [objDelattr, ddel, dhas, this], h.rep, ?_, ?_⟩
    · intro k'
      simp only
      rw [dget_derase, dget_derase, h.attr]
      by_cases hkk : k' = k <;> simp [hkk]
    · simp only
      rw [dget_derase]; simp [h.dflt]

theorem sdDelattr_sim {s : SD K V} {g : SDSpec K V} (h : SDRep s g) (attr : Option K) :
    (∃ e, sdDelattr s attr = .error e ∧ sdSpecDelattr g attr = .error e) ∨
    (∃ s' g', sdDelattr s attr = .ok s' ∧ sdSpecDelattr g attr = .ok g' ∧ SDRep s' g') := by
  cases attr with
  | none =>
    cases hd : g.default with
    | none =>
      left
      have : dget s.attrs none = none := by rw [h.dflt, hd]
      exact ⟨.attr, by simp [sdDelattr, objDelattr, ddel, dhas, this], by simp [sdSpecDelattr, hd]⟩
    | some w =>
      right
      have : dget s.attrs none = some w := by rw [h.dflt, hd]
      refine ⟨{ s with attrs := derase s.attrs none }, { g with default := none },
        by simp [sdDelattr, objDelattr, ddel, dhas, this], by simp [sdSpecDelattr, hd], h.rep, ?_, ?_⟩
      · intro k'
        simp only
        rw [dget_derase]; simp [h.attr]
      · simp only
        rw [dget_derase]; simp
  | some k =>
    have hget := h.rep.getitem_eq k
    cases hl : dget g.log k with
    | none =>
      rw [hl] at hget
      rcases objDelattr_some_sim h k with ⟨ha, ho⟩ | ⟨s', ha, ho, hrep⟩
      · left
        exact ⟨.attr, by simp only [sdDelattr, hget, ho], by simp only [sdSpecDelattr, hl, ha]⟩
      · right
        obtain ⟨a, ha'⟩ := Option.isSome_iff_exists.mp ha
        exact ⟨s', _, by simp only [sdDelattr, hget, ho], by simp only [sdSpecDelattr, hl, ha'], hrep⟩
    | some w =>
      rw [hl] at hget
      cases ha : dget g.attr k with
      | none =>
        left
        have : dget s.attrs (some k) = none := by rw [h.attr, ha]
        exact ⟨.attr, by simp only [sdDelattr, hget, this], by simp only [sdSpecDelattr, hl, ha]⟩
      | some a =>
        right
        have hsa : dget s.attrs (some k) = some a := by rw [h.attr, ha]
        by_cases hwa : w = a
        · rcases sdDelitem_sim h k with ⟨hl', _, _⟩ | ⟨s', g', _, hd, hsd, hrep⟩
          · rw [hl] at hl'; cases hl'
          · exact ⟨s', g', by simp only [sdDelattr, hget, hsa, hwa, if_true, hd] ,
              by simp only [sdSpecDelattr, hl, ha, hwa, if_true, hsd], hrep⟩
        · refine ⟨{ s with attrs := dset s.attrs (some k) w }, { g with attr := dset g.attr k w },
            by simp only [sdDelattr, hget, hsa, hwa, if_false],
            by simp only [sdSpecDelattr, hl, ha, hwa, if_false], h.rep, ?_, ?_⟩
          · intro k'
            simp only
            rw [dget_dset, dget_dset, h.attr]
            by_cases hkk : k' = k <;> simp [hkk]
          · simp only
            rw [dget_dset]; simp [h.dflt]

/-- key tuples of assignments are non-empty; every operation that raises is inside (since the
    repair 735182a none of them fails half-way) -/
def SOp.valid : SOp K V → Prop
  | .set keys _ => keys ≠ []
  | _ => True

/-- nothing the coherence invariant needs is excluded: only the empty key tuple -/
def SOp.nonEmpty : SOp K V → Prop
  | .set keys _ => keys ≠ []
  | _ => True

/-- a refused StrategyDict assignment, as the code was BEFORE the repair 735182a: the exception is raised and the state
    still represents a well-formed abstract state — the one in which the names `deleted` were
    deleted one by one (their bindings gone, the other attributes untouched, the default gone when
    it lost all its names) -/
theorem sdSetRefused_sim {s : SD K V} {g : SDSpec K V} (h : SDRep s g) (deleted : List K) :
    (∃ g1, SDRep (sdSetRefused s deleted).1 g1 ∧
      g1.log = g.log.filter (fun e => e.1 ∉ deleted) ∧
      (∀ k, k ∉ deleted → dget g1.attr k = dget g.attr k) ∧
      g1.default = defaultAfterLoss g.log g.default deleted) ∧
    (sdSetRefused s deleted).2 = .rejected :=
  ⟨sdDelLoop_sim deleted h, rfl⟩

theorem sdStep_sim {s : SD K V} {g : SDSpec K V} (h : SDRep s g) (op : SOp K V) (hv : SOp.valid op) :
    SDRep (sdStep s op).1 (sdSpecStep g op).1 ∧ (sdStep s op).2 = (sdSpecStep g op).2 := by
  cases op with
  | set keys v =>
    obtain ⟨s', h1, h2⟩ := sdSetitem_sim h hv v
    simp only [sdStep, h1, sdSpecStep]
    exact ⟨h2, trivial⟩
  | del k =>
    rcases sdDelitem_sim h k with ⟨_, hd, hsd⟩ | ⟨s', g', _, hd, hsd, hrep⟩
    · simp only [sdStep, hd, sdSpecStep, hsd]; exact ⟨h, trivial⟩
    · simp only [sdStep, hd, sdSpecStep, hsd]; exact ⟨hrep, trivial⟩
  | get k => exact ⟨h, by simp only [sdStep, sdSpecStep, specGet, h.rep.getitem_eq]⟩
  | getattr name =>
    refine ⟨h, ?_⟩
    cases hg : dget g.attr name <;> simp [sdStep, sdSpecStep, sdGetattr, h.attr, hg]
  | setattr attr v =>
    cases attr with
    | none =>
      refine ⟨⟨h.rep, ?_, ?_⟩, rfl⟩
      · intro k'; simp only [sdStep, sdSpecStep]; rw [dget_dset]; simp [h.attr]
      · simp only [sdStep, sdSpecStep]; rw [dget_dset]; simp
    | some k =>
      refine ⟨⟨h.rep, ?_, ?_⟩, rfl⟩
      · intro k'
        simp only [sdStep, sdSpecStep]
        rw [dget_dset, dget_dset, h.attr]
        by_cases hkk : k' = k <;> simp [hkk]
      · simp only [sdStep, sdSpecStep]; rw [dget_dset]; simp [h.dflt]
  | delattr attr =>
    rcases sdDelattr_sim h attr with ⟨e, h1, h2⟩ | ⟨s', g', h1, h2, hrep⟩
    · simp only [sdStep, sdSpecStep, h1, h2]
      cases e <;> exact ⟨h, rfl⟩
    · simp only [sdStep, sdSpecStep, h1, h2]
      exact ⟨hrep, rfl⟩
  | default => exact ⟨h, by simp only [sdStep, sdSpecStep, sdDefault, h.dflt]⟩
  | call => exact ⟨h, by simp only [sdStep, sdSpecStep, sdDefault, h.dflt]⟩
  | len => exact ⟨h, by simp only [sdStep, sdSpecStep, h.rep.len_eq]⟩
  | setRefused deleted => exact ⟨h, rfl⟩
  | rejected => exact ⟨h, rfl⟩
  | const r => exact ⟨h, rfl⟩
  | getT t => exact ⟨h, by simp only [sdStep, sdSpecStep, h.rep.getTuple_eq]⟩
  | contains t =>
    refine ⟨h, ?_⟩
    have := h.rep.getTuple_eq t
    simp only [getTuple] at this
    simp only [sdStep, sdSpecStep, dhas, this]
  | dictGet t => exact ⟨h, by simp only [sdStep, sdSpecStep, h.rep.getTuple_eq]⟩

/-- the deletion loop over names that hold no strategy does nothing -/
theorem sdDelLoop_unbound (p : List K) (s : SD K V) (h : ∀ k ∈ p, key2keys s.mkd k = none) :
    sdDelLoop s p = s := by
  induction p with
  | nil => rfl
  | cons k r ih =>
    have hk := h k List.mem_cons_self
    simp only [sdDelLoop, sdDelitem, hk]
    exact ih (fun x hx => h x (List.mem_cons_of_mem _ hx))

/-- the three maps stay coherent under EVERY operation -/
theorem sdStep_inv_any {s : SD K V} {g : SDSpec K V} (h : SDRep s g) (op : SOp K V)
    (hv : SOp.nonEmpty op) : ∃ g', SDRep (sdStep s op).1 g' := by
  refine ⟨_, (sdStep_sim h op ?_).1⟩
  cases op with
  | set keys v => exact hv
  | _ => trivial

theorem sdRun_sim (ops : List (SOp K V)) : ∀ {s : SD K V} {g : SDSpec K V}, SDRep s g →
    (∀ op ∈ ops, SOp.valid op) →
    SDRep (sdRun s ops).1 (sdSpecRun g ops).1 ∧ (sdRun s ops).2 = (sdSpecRun g ops).2 := by
  induction ops with
  | nil => intro s g h _; exact ⟨h, rfl⟩
  | cons op r ih =>
    intro s g h hv
    obtain ⟨h1, h2⟩ := sdStep_sim h op (hv op List.mem_cons_self)
    obtain ⟨h3, h4⟩ := ih h1 (fun o ho => hv o (List.mem_cons_of_mem _ ho))
    exact ⟨h3, by simp only [sdRun, sdSpecRun, h2, h4]⟩

/-! ## attributes equal items (histories without manual attribute assignment) -/

/-- every name is an attribute equal to the item, and there is no other name attribute -/
def AttrCoherent (g : SDSpec K V) : Prop := ∀ k, dget g.attr k = dget g.log k

/-- the operation does not assign a name attribute by hand (`sd.name = value`) -/
def SOp.noSetattr : SOp K V → Prop
  | .setattr (some _) _ => False
  | _ => True

theorem sdSpecDel_attrCoherent {g g' : SDSpec K V} (h : AttrCoherent g) {k : K}
    (hd : sdSpecDel g k = some g') : AttrCoherent g' := by
  unfold sdSpecDel at hd
  cases hl : dget g.log k with
  | none => simp [hl] at hd
  | some w =>
    simp only [hl, Option.some.injEq] at hd
    subst hd
    intro k'
    simp only [h k, hl, if_true]
    rw [dget_derase, dget_filter_key g.log (fun x => decide (x ≠ k)), h k']
    by_cases hkk : k' = k <;> simp [hkk]

theorem sdSpecStep_attrCoherent {g : SDSpec K V} (h : AttrCoherent g) (op : SOp K V)
    (hop : SOp.noSetattr op) : AttrCoherent (sdSpecStep g op).1 := by
  cases op with
  | set keys v =>
    intro k'
    simp only [sdSpecStep, sdSpecSet]
    rw [dget_foldl_dset, dget_specSet, h k']
  | del k =>
    simp only [sdSpecStep]
    cases hd : sdSpecDel g k with
    | none => exact h
    | some g' => exact sdSpecDel_attrCoherent h hd
  | get _ => exact h
  | getattr _ => exact h
  | setattr attr v =>
    cases attr with
    | none => exact h
    | some _ => exact absurd hop (by simp [SOp.noSetattr])
  | delattr attr =>
    cases attr with
    | none =>
      simp only [sdSpecStep, sdSpecDelattr]
      cases g.default <;> exact h
    | some k =>
      simp only [sdSpecStep, sdSpecDelattr]
      have hk := h k
      cases hl : dget g.log k with
      | none =>
        rw [hl] at hk
        simp only [hk]; exact h
      | some w =>
        rw [hl] at hk
        simp only [hk, if_true]
        cases hd : sdSpecDel g k with
        | none => exact h
        | some g' => exact sdSpecDel_attrCoherent h hd
  | default => exact h
  | call => exact h
  | len => exact h
  | setRefused _ => exact h
  | rejected => exact h
  | const _ => exact h
  | getT _ => exact h
  | contains _ => exact h
  | dictGet _ => exact h

theorem sdSpecRun_attrCoherent (ops : List (SOp K V)) : ∀ {g : SDSpec K V}, AttrCoherent g →
    (∀ op ∈ ops, SOp.noSetattr op) → AttrCoherent (sdSpecRun g ops).1 := by
  induction ops with
  | nil => intro g h _; exact h
  | cons op r ih =>
    intro g h hv
    exact ih (sdSpecStep_attrCoherent h op (hv op List.mem_cons_self))
      (fun o ho => hv o (List.mem_cons_of_mem _ ho))

/-! ## the default is the first strategy stored, as long as it keeps a name -/

/-- the operation leaves the name `k0` alone and does not touch `default` by hand -/
def SOp.keepsName (k0 : K) : SOp K V → Prop
  | .set keys _ => k0 ∉ keys
  | .del k => k ≠ k0
  | .delattr (some k) => k ≠ k0
  | .delattr none => False
  | .setattr none _ => False
  | _ => True

theorem sdSpecDel_keeps {g g' : SDSpec K V} {k k0 : K} {v0 : V} (hk : k ≠ k0)
    (hlog : dget g.log k0 = some v0) (hdef : g.default = some v0)
    (hd : sdSpecDel g k = some g') : dget g'.log k0 = some v0 ∧ g'.default = some v0 := by
  unfold sdSpecDel at hd
  cases hl : dget g.log k with
  | none => simp [hl] at hd
  | some w =>
    simp only [hl, Option.some.injEq] at hd
    subst hd
    simp only
    constructor
    · rw [dget_filter_key g.log (fun x => decide (x ≠ k))]
      simp [Ne.symm hk, hlog]
    · have : ¬ (g.default = some w ∧ keysOf g.log w = [k]) := by
        rintro ⟨h1, h2⟩
        rw [hdef] at h1
        have hw := Option.some.inj h1
        subst hw
        have : k0 ∈ keysOf g.log v0 := mem_keysOf.mpr (dget_some_mem hlog)
        rw [h2] at this
        simp at this
        exact hk this.symm
      rw [hdef] at this ⊢
      simp only [this, if_false]

theorem sdSpecStep_keeps {g : SDSpec K V} {k0 : K} {v0 : V} (op : SOp K V)
    (hop : SOp.keepsName k0 op) (hlog : dget g.log k0 = some v0) (hdef : g.default = some v0) :
    dget (sdSpecStep g op).1.log k0 = some v0 ∧ (sdSpecStep g op).1.default = some v0 := by
  cases op with
  | set keys v =>
    simp only [SOp.keepsName] at hop
    simp only [sdSpecStep, sdSpecSet, hdef]
    constructor
    · rw [dget_specSet]; simp [hop, hlog]
    · have : losesAllNames g.log v0 keys = false := by
        rw [Bool.eq_false_iff]; intro hc
        exact hop ((losesAllNames_iff.mp hc).2 k0 (mem_keysOf.mpr (dget_some_mem hlog)))
      simp [this]
  | del k =>
    simp only [sdSpecStep]
    cases hd : sdSpecDel g k with
    | none => exact ⟨hlog, hdef⟩
    | some g' => exact sdSpecDel_keeps hop hlog hdef hd
  | get _ => exact ⟨hlog, hdef⟩
  | getattr _ => exact ⟨hlog, hdef⟩
  | setattr attr v =>
    cases attr with
    | none => exact absurd hop (by simp [SOp.keepsName])
    | some _ => exact ⟨hlog, hdef⟩
  | delattr attr =>
    cases attr with
    | none => exact absurd hop (by simp [SOp.keepsName])
    | some k =>
      simp only [SOp.keepsName] at hop
      simp only [sdSpecStep, sdSpecDelattr]
      cases hl : dget g.log k with
      | none => cases ha : dget g.attr k <;> exact ⟨hlog, hdef⟩
      | some w =>
        cases ha : dget g.attr k with
        | none => exact ⟨hlog, hdef⟩
        | some a =>
          by_cases hwa : w = a
          · simp only [hwa, if_true]
            cases hd : sdSpecDel g k with
            | none => exact ⟨hlog, hdef⟩
            | some g' => exact sdSpecDel_keeps hop hlog hdef hd
          · simp only [hwa, if_false]
            exact ⟨hlog, hdef⟩
  | default => exact ⟨hlog, hdef⟩
  | call => exact ⟨hlog, hdef⟩
  | len => exact ⟨hlog, hdef⟩
  | setRefused _ => exact ⟨hlog, hdef⟩
  | rejected => exact ⟨hlog, hdef⟩
  | const _ => exact ⟨hlog, hdef⟩
  | getT _ => exact ⟨hlog, hdef⟩
  | contains _ => exact ⟨hlog, hdef⟩
  | dictGet _ => exact ⟨hlog, hdef⟩

theorem sdSpecRun_keeps (ops : List (SOp K V)) {k0 : K} {v0 : V} : ∀ {g : SDSpec K V},
    (∀ op ∈ ops, SOp.keepsName k0 op) → dget g.log k0 = some v0 → g.default = some v0 →
    dget (sdSpecRun g ops).1.log k0 = some v0 ∧ (sdSpecRun g ops).1.default = some v0 := by
  induction ops with
  | nil => intro g _ h1 h2; exact ⟨h1, h2⟩
  | cons op r ih =>
    intro g hv h1 h2
    obtain ⟨h3, h4⟩ := sdSpecStep_keeps op (hv op List.mem_cons_self) h1 h2
    exact ih (fun o ho => hv o (List.mem_cons_of_mem _ ho)) h3 h4

end ALV.C15
