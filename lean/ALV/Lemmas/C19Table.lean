/-
  C19 — helper lemmas for `TableLookup`, `sinusoid`, `karplus_strong`.
-/
import ALV.Lemmas.C19Shapes

namespace ALV.C19
set_option linter.unusedSectionVars false

variable {K : Type} [Field K] [LinearOrder K] [IsStrictOrderedRing K] [FloorRing K]

/-! ### running sums and the closed layer -/

theorem mcClosedFrom_eq_map (m : K) : ∀ (ps ss : List K) (acc : K),
    mcClosedFrom m acc ps ss = (runSumFrom acc ps ss).map (fmod · m) := by
  intro ps
  induction ps with
  | nil => intros; simp [mcClosedFrom, runSumFrom]
  | cons p ps ih =>
    intro ss acc
    rcases ss with _ | ⟨s, ss⟩ <;> simp [mcClosedFrom, runSumFrom, ih]

/-- with a constant modulo `m`, every path of the counter is the running sum reduced once -/
theorem moduloCounter_num_modulo (A S : Arg K) (m : K) (n : Nat) :
    moduloCounter A (.num m) S n = (runSumFrom 0 (A.expand n) (S.expand n)).map (fmod · m) := by
  rw [moduloCounter_rec]
  have : mcRec (A.expand n) ((Arg.num m).expand n) (S.expand n) = mcClosed m (A.expand n) (S.expand n) := by
    apply mcRec_closed
    rcases A with a | ps <;> simp [Arg.expand]
  rw [this, mcClosed, mcClosedFrom_eq_map]

theorem runSumFrom_numbers (p s : K) (n : Nat) : ∀ (t : Nat),
    runSumFrom (((t : ℤ) : K) * s) (List.replicate n p) (List.replicate n s)
      = (List.range' t n).map fun (k : Nat) => p + (((k : Nat) : ℤ) : K) * s := by
  induction n with
  | zero => intro t; simp [runSumFrom]
  | succ n ih =>
    intro t
    have e : ((t : ℤ) : K) * s + s = (((t + 1 : Nat) : ℤ) : K) * s := by push_cast; ring
    simp only [List.replicate_succ, runSumFrom, List.range'_succ, List.map_cons, e, ih (t + 1)]

/-! ### Python indexing -/

theorem pyIndex_eq (tbl : List K) (j : ℤ) (k : ℕ) (hk : k < tbl.length)
    (h : j = k ∨ j = (k : ℤ) - tbl.length) : pyIndex tbl j = some (tbl.getD k 0) := by
  have hget : tbl[k]? = some (tbl.getD k 0) := by
    rw [List.getD_eq_getElem?_getD, List.getElem?_eq_getElem hk]; rfl
  unfold pyIndex
  rcases h with h | h
  · have h1 : (0 ≤ j ∧ j < (tbl.length : ℤ)) := by omega
    have h2 : j.toNat = k := by omega
    simp only [h1, and_self, if_true, h2, hget]
  · have h1 : ¬ (0 ≤ j ∧ j < (tbl.length : ℤ)) := by omega
    have h2 : (-(tbl.length : ℤ) ≤ j ∧ j < 0) := by omega
    have h3 : ((tbl.length : ℤ) + j).toNat = k := by omega
    simp only [h1, if_false, h2, and_self, if_true, h3, hget]

theorem pyCeil_eq (x : K) : pyCeil x = ⌈x⌉ := by
  unfold pyCeil; rw [floor_def, Int.floor_neg]; simp

/-! ### cyclic interpolation -/

theorem interpCyc_add_int_mul (tbl : List K) (x : K) (z : ℤ) :
    interpCyc tbl (x + z * ((tbl.length : ℤ) : K)) = interpCyc tbl x := by
  unfold interpCyc
  have e : x + z * ((tbl.length : ℤ) : K) = x + ((z * (tbl.length : ℤ) : ℤ) : K) := by push_cast; ring
  simp only [floor_def, e, Int.floor_add_intCast]
  have i1 : (⌊x⌋ + z * (tbl.length : ℤ)).fmod (tbl.length : ℤ) = (⌊x⌋).fmod (tbl.length : ℤ) :=
    Int.add_mul_fmod_self_right _ _ _
  have i2 : (⌊x⌋ + z * (tbl.length : ℤ) + 1).fmod (tbl.length : ℤ) = (⌊x⌋ + 1).fmod (tbl.length : ℤ) := by
    rw [show ⌊x⌋ + z * (tbl.length : ℤ) + 1 = (⌊x⌋ + 1) + z * (tbl.length : ℤ) by ring]
    exact Int.add_mul_fmod_self_right _ _ _
  rw [i1, i2]
  push_cast
  ring_nf

theorem interpCyc_fmod (tbl : List K) (x : K) :
    interpCyc tbl (fmod x ((tbl.length : ℤ) : K)) = interpCyc tbl x := by
  obtain ⟨z, hz⟩ := fmod_eq_add_int_mul x ((tbl.length : ℤ) : K)
  rw [hz]; exact interpCyc_add_int_mul tbl x z

/-- inside `[0, L)` the oscillator's sample is the cyclic interpolation (no IndexError) -/
theorem lookupAt_eq (tbl : List K) (idx : K) (h0 : 0 ≤ idx) (h1 : idx < ((tbl.length : ℤ) : K)) :
    lookupAt tbl idx = some (interpCyc tbl idx) := by
  have hi : pyInt idx = ⌊idx⌋ := pyInt_of_nonneg h0
  have hi0 : 0 ≤ ⌊idx⌋ := Int.floor_nonneg.mpr h0
  have hiL : ⌊idx⌋ < (tbl.length : ℤ) := Int.floor_lt.mpr h1
  have ha : ⌊idx⌋.toNat < tbl.length := by omega
  have hx : pyIndex tbl ⌊idx⌋ = some (tbl.getD ⌊idx⌋.toNat 0) :=
    pyIndex_eq tbl _ _ ha (Or.inl (by omega))
  have hf1 : (⌊idx⌋).fmod (tbl.length : ℤ) = ⌊idx⌋ := Int.fmod_eq_of_lt hi0 hiL
  unfold lookupAt interpCyc
  simp only [hi, pyCeil_eq, floor_def, hf1, hx]
  by_cases hfr : idx - ((⌊idx⌋ : ℤ) : K) = 0
  · -- integer position: the second neighbour has weight 0
    have hc : ⌈idx⌉ = ⌊idx⌋ := by
      have : idx = ((⌊idx⌋ : ℤ) : K) := by linarith
      rw [this, Int.ceil_intCast, Int.floor_intCast]
    have hy : pyIndex tbl (⌈idx⌉ - (tbl.length : ℤ)) = some (tbl.getD ⌊idx⌋.toNat 0) :=
      pyIndex_eq tbl _ _ ha (Or.inr (by omega))
    simp only [hy, hfr]
    simp
  · have hlt : ((⌊idx⌋ : ℤ) : K) < idx := lt_of_le_of_ne (Int.floor_le idx) (fun h => hfr (by linarith))
    have hc : ⌈idx⌉ = ⌊idx⌋ + 1 := by
      rw [Int.ceil_eq_iff]; constructor
      · push_cast; linarith
      · push_cast; exact (Int.lt_floor_add_one idx).le
    by_cases hL : ⌊idx⌋ + 1 = (tbl.length : ℤ)
    · have hb : 0 < tbl.length := by omega
      have hy : pyIndex tbl (⌈idx⌉ - (tbl.length : ℤ)) = some (tbl.getD 0 0) :=
        pyIndex_eq tbl _ 0 hb (Or.inl (by omega))
      have hf2 : (⌊idx⌋ + 1).fmod (tbl.length : ℤ) = 0 := by rw [hL]; exact Int.fmod_self
      simp only [hy, hf2, Int.toNat_zero]
    · have hb : (⌊idx⌋ + 1).toNat < tbl.length := by omega
      have hy : pyIndex tbl (⌈idx⌉ - (tbl.length : ℤ)) = some (tbl.getD (⌊idx⌋ + 1).toNat 0) :=
        pyIndex_eq tbl _ _ hb (Or.inr (by omega))
      have hf2 : (⌊idx⌋ + 1).fmod (tbl.length : ℤ) = ⌊idx⌋ + 1 := Int.fmod_eq_of_lt (by omega) (by omega)
      simp only [hy, hf2]

theorem lookupAt_fmod (tbl : List K) (h : tbl ≠ []) (x : K) :
    lookupAt tbl (fmod x ((tbl.length : ℤ) : K)) = some (interpCyc tbl x) := by
  have hL : (0 : K) < ((tbl.length : ℤ) : K) := by
    have : 0 < tbl.length := List.length_pos_iff.mpr h
    exact_mod_cast this
  rw [lookupAt_eq tbl _ (fmod_nonneg hL) (fmod_lt hL), interpCyc_fmod]

theorem tableCall_eq (tbl : List K) (h : tbl ≠ []) (den : K) (freq phase : Arg K) (n : Nat) :
    tableCall tbl den freq phase n = (tableSpec tbl den freq phase n).map some := by
  unfold tableCall tableSpec
  simp only [moduloCounter_num_modulo, List.map_map]
  apply List.map_congr_left
  intro x _
  exact lookupAt_fmod tbl h x

/-- `__getitem__` at a non-negative or an integer position -/
theorem tableGetItem_eq (tbl : List K) (h : tbl ≠ []) (idx : K)
    (hidx : 0 ≤ idx ∨ idx = ((⌊idx⌋ : ℤ) : K)) :
    tableGetItem tbl idx = some (interpCyc tbl idx) := by
  have hLn : 0 < tbl.length := List.length_pos_iff.mpr h
  have hL : (0 : ℤ) < (tbl.length : ℤ) := by exact_mod_cast hLn
  have hi : pyInt idx = ⌊idx⌋ := by
    rcases hidx with h0 | hint
    · exact pyInt_of_nonneg h0
    · unfold pyInt
      split
      · rw [floor_def, hint, ← Int.cast_neg, Int.floor_intCast, Int.floor_intCast]; simp
      · rfl
  have idxOf : ∀ j : ℤ, pyIndex tbl (j.fmod (tbl.length : ℤ))
      = some (tbl.getD (j.fmod (tbl.length : ℤ)).toNat 0) := by
    intro j
    have a0 := Int.fmod_nonneg_of_pos j hL
    have a1 := Int.fmod_lt_of_pos j hL
    exact pyIndex_eq tbl _ _ (by omega) (Or.inl (by omega))
  unfold tableGetItem interpCyc
  simp only [hi, pyCeil_eq, floor_def, idxOf]
  by_cases hfr : idx - ((⌊idx⌋ : ℤ) : K) = 0
  · simp [hfr]
  · have hlt : ((⌊idx⌋ : ℤ) : K) < idx := lt_of_le_of_ne (Int.floor_le idx) (fun h => hfr (by linarith))
    have hc : ⌈idx⌉ = ⌊idx⌋ + 1 := by
      rw [Int.ceil_eq_iff]; constructor
      · push_cast; linarith
      · push_cast; exact (Int.lt_floor_add_one idx).le
    rw [hc]

/-! ### sinusoid: any function with period `m` sees the unreduced running sum -/

theorem sinusoid_eq {β : Type} (sin : K → β) (m : K)
    (hper : ∀ (x : K) (z : ℤ), sin (x + z * m) = sin x) (freq phase : Arg K) (n : Nat) :
    sinusoid sin m freq phase n = sinusoidSpec sin freq phase n := by
  unfold sinusoid sinusoidSpec
  simp only [moduloCounter_num_modulo, List.map_map]
  apply List.map_congr_left
  intro x _
  obtain ⟨z, hz⟩ := fmod_eq_add_int_mul x m
  simp only [Function.comp, hz, hper]

theorem sinusoidSpec_numbers {β : Type} (sin : K → β) (f p : K) (n : Nat) :
    sinusoidSpec sin (.num f) (.num p) n
      = (List.range n).map fun (k : Nat) => sin (p + (((k : Nat) : ℤ) : K) * f) := by
  have := runSumFrom_numbers p f n 0
  simp only [Nat.cast_zero, Int.cast_zero, zero_mul] at this
  simp [sinusoidSpec, Arg.expand, this, List.range_eq_range', Function.comp_def]

theorem tableSpec_numbers (tbl : List K) (den f p : K) (n : Nat) :
    tableSpec tbl den (.num f) (.num p) n
      = (List.range n).map fun (k : Nat) =>
          interpCyc tbl (((tbl.length : Int) : K) / den * p + (((k : Nat) : ℤ) : K) * (((tbl.length : Int) : K) / den * f)) := by
  have := runSumFrom_numbers (((tbl.length : Int) : K) / den * p) (((tbl.length : Int) : K) / den * f) n 0
  simp only [Nat.cast_zero, Int.cast_zero, zero_mul] at this
  simp only [tableSpec, Arg.expand, Arg.map, this, List.map_map, List.range_eq_range']
  rfl


/-! ### karplus_strong: the shift register of the generated filter loop = full-history recursion -/

theorem getD_take (l : List K) (lm i : Nat) (h : i < lm) : (l.take lm).getD i 0 = l.getD i 0 := by
  simp [List.getD_eq_getElem?_getD, h]

/-- memory size of the linearised comb: `⌈delay⌉` -/
theorem ks_lm (alpha delay : K) (h1 : 1 ≤ delay) :
    ((ksTaps alpha delay).map (·.1)).foldl max 0 = ⌈delay⌉.toNat := by
  have hD : pyInt delay = ⌊delay⌋ := pyInt_of_nonneg (by linarith)
  have hD1 : 1 ≤ ⌊delay⌋ := Int.le_floor.mpr (by simpa using h1)
  unfold ksTaps
  simp only [hD]
  split
  · next hw =>
    have : delay = ((⌊delay⌋ : ℤ) : K) := by linarith
    have hc : ⌈delay⌉ = ⌊delay⌋ := by rw [this, Int.ceil_intCast, Int.floor_intCast]
    simp [hc]
  · next hw =>
    have hlt : ((⌊delay⌋ : ℤ) : K) < delay :=
      lt_of_le_of_ne (Int.floor_le delay) (fun h => hw (by linarith))
    have hc : ⌈delay⌉ = ⌊delay⌋ + 1 := by
      rw [Int.ceil_eq_iff]; constructor
      · push_cast; linarith
      · push_cast; exact (Int.lt_floor_add_one delay).le
    simp only [List.map_cons, List.map_nil, List.foldl_cons, List.foldl_nil, hc]
    omega

theorem ks_step (alpha delay : K) (h1 : 1 ≤ delay) (hist : List K) :
    (ksTaps alpha delay).foldl
        (fun acc t => acc + t.2 * (hist.take ⌈delay⌉.toNat).getD (t.1 - 1) 0) 0
      = alpha * ((1 - (delay - ((⌊delay⌋ : ℤ) : K))) * hist.getD (⌊delay⌋.toNat - 1) 0
          + (delay - ((⌊delay⌋ : ℤ) : K)) * hist.getD ⌊delay⌋.toNat 0) := by
  have hD : pyInt delay = ⌊delay⌋ := pyInt_of_nonneg (by linarith)
  have hD1 : 1 ≤ ⌊delay⌋ := Int.le_floor.mpr (by simpa using h1)
  unfold ksTaps
  simp only [hD]
  split
  · next hw =>
    have : delay = ((⌊delay⌋ : ℤ) : K) := by linarith
    have hc : ⌈delay⌉ = ⌊delay⌋ := by rw [this, Int.ceil_intCast, Int.floor_intCast]
    simp only [List.foldl_cons, List.foldl_nil, hc]
    rw [getD_take _ _ _ (by omega), hw]
    ring
  · next hw =>
    have hlt : ((⌊delay⌋ : ℤ) : K) < delay :=
      lt_of_le_of_ne (Int.floor_le delay) (fun h => hw (by linarith))
    have hc : ⌈delay⌉ = ⌊delay⌋ + 1 := by
      rw [Int.ceil_eq_iff]; constructor
      · push_cast; linarith
      · push_cast; exact (Int.lt_floor_add_one delay).le
    simp only [List.foldl_cons, List.foldl_nil, hc, Nat.add_sub_cancel]
    rw [getD_take _ _ _ (by omega), getD_take _ _ _ (by omega)]
    ring

theorem ksLoop_spec (alpha delay : K) (h1 : 1 ≤ delay) : ∀ (fuel : Nat) (hist : List K),
    ⌈delay⌉.toNat ≤ hist.length →
    ksLoop (ksTaps alpha delay) fuel (hist.take ⌈delay⌉.toNat) = ksSpecLoop alpha delay fuel hist := by
  intro fuel
  induction fuel with
  | zero => intros; rfl
  | succ fuel ih =>
    intro hist hlen
    simp only [ksLoop, ksSpecLoop, floor_def, ks_step alpha delay h1 hist]
    congr 1
    have hl : (hist.take ⌈delay⌉.toNat).length = ⌈delay⌉.toNat := by
      rw [List.length_take]; omega
    rw [hl, ← ih _ (by simp only [List.length_cons]; omega)]
    congr 1
    rcases hlm : ⌈delay⌉.toNat with _ | k
    · simp
    · simp [List.take_succ_cons, List.take_take]

theorem karplus_eq (alpha delay : K) (h1 : 1 ≤ delay) (memory : List K) (n : Nat) :
    karplus alpha delay memory n = karplusSpec alpha delay memory n := by
  unfold karplus karplusSpec ksMemory
  simp only [ks_lm alpha delay h1, floor_def, Int.floor_neg, neg_neg]
  have hlen : (List.replicate (⌈delay⌉.toNat - (List.take ⌈delay⌉.toNat memory).length) (0 : K)
      ++ List.take ⌈delay⌉.toNat memory).length = ⌈delay⌉.toNat := by
    simp only [List.length_append, List.length_replicate, List.length_take]; omega
  generalize List.replicate (⌈delay⌉.toNat - (List.take ⌈delay⌉.toNat memory).length) (0 : K)
      ++ List.take ⌈delay⌉.toNat memory = M at hlen ⊢
  rw [← ksLoop_spec alpha delay h1 n M (by rw [hlen])]
  congr 1
  exact (List.take_of_length_le (by rw [hlen])).symm

end ALV.C19
