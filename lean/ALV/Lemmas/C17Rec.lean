/-
  C17 — recording streams: invariants of `ALV.Model.C17Rec` over ALL histories of calls.
  Core Lean only.
-/
import ALV.Model.C17Rec
namespace ALV.C17Rec

theorem devData_succ (i cs k : Nat) : devData i cs (k + 1) = devData i cs k ++ devChunk i k cs := by
  simp [devData, List.range_succ, List.flatMap_append]

/-- one stream: what was handed out plus what is buffered is what the device delivered, in order;
    its device stream was closed exactly when the generator finished, once -/
structure RI (i : Nat) (r : Rec) : Prop where
  own : r.out ++ r.buf = devData i r.cs r.reads
  cl : r.closes = if r.done then 1 else 0
  dn : r.done = true → r.recording = false ∧ r.buf = []

/-- what `next()` / `take` never change or only change one way -/
structure Mono (r r' : Rec) : Prop where
  cs : r'.cs = r.cs
  rc : r.recording = false → r'.recording = false
  dn : r.done = true → r' = r
  pre : r.out <+: r'.out

theorem mono_refl (r : Rec) : Mono r r := ⟨rfl, id, fun _ => rfl, List.prefix_refl _⟩

theorem mono_trans {a b c : Rec} (h1 : Mono a b) (h2 : Mono b c) : Mono a c := by
  refine ⟨h2.cs.trans h1.cs, fun h => h2.rc (h1.rc h), fun h => ?_, h1.pre.trans h2.pre⟩
  have e := h1.dn h
  subst e
  exact h2.dn h

theorem nextItem_done (i : Nat) (r : Rec) (hd : r.done = true) : nextItem i r = (none, r) := by
  simp [nextItem, hd]

theorem nextItem_buf (i : Nat) (r : Rec) (x : Int) (b : List Int) (hd : r.done = false)
    (hb : r.buf = x :: b) : nextItem i r = (some x, { r with buf := b, out := r.out ++ [x] }) := by
  simp [nextItem, hd, hb]

theorem nextItem_read (i : Nat) (r : Rec) (x : Int) (b : List Int) (hd : r.done = false)
    (hb : r.buf = []) (hr : r.recording = true) (hc : devChunk i r.reads r.cs = x :: b) :
    nextItem i r = (some x, { r with reads := r.reads + 1, buf := b, out := r.out ++ [x] }) := by
  simp [nextItem, hd, hb, hr, hc]

theorem nextItem_empty (i : Nat) (r : Rec) (hd : r.done = false) (hb : r.buf = [])
    (hr : r.recording = true) (hc : devChunk i r.reads r.cs = []) : nextItem i r = (none, r) := by
  simp [nextItem, hd, hb, hr, hc]

theorem nextItem_end (i : Nat) (r : Rec) (hd : r.done = false) (hb : r.buf = [])
    (hr : r.recording = false) :
    nextItem i r = (none, { r with done := true, closes := r.closes + 1, recording := false }) := by
  simp [nextItem, hd, hb, hr]

theorem nextItem_spec (i : Nat) (r : Rec) (inv : RI i r) :
    RI i (nextItem i r).2 ∧ Mono r (nextItem i r).2 ∧
    (∀ x, (nextItem i r).1 = some x → (nextItem i r).2.out = r.out ++ [x]) ∧
    ((nextItem i r).1 = none → (nextItem i r).2.out = r.out) := by
  obtain ⟨h1, h2, h3⟩ := inv
  cases hd : r.done with
  | true =>
    rw [nextItem_done i r hd]
    exact ⟨⟨h1, h2, h3⟩, mono_refl r, by simp, by simp⟩
  | false =>
    have hnd : ¬ r.done = true := by rw [hd]; simp
    have hcl : r.closes = 0 := by rw [h2, hd]; simp
    cases hb : r.buf with
    | cons x b =>
      rw [nextItem_buf i r x b hd hb]
      refine ⟨⟨?_, by simp [hd, hcl], fun h => absurd h hnd⟩,
        ⟨rfl, id, fun h => absurd h hnd, List.prefix_append _ _⟩, by simp, by simp⟩
      rw [hb] at h1; simpa using h1
    | nil =>
      cases hr : r.recording with
      | true =>
        cases hc : devChunk i r.reads r.cs with
        | cons x b =>
          rw [nextItem_read i r x b hd hb hr hc]
          refine ⟨⟨?_, by simp [hd, hcl], fun h => absurd h hnd⟩,
            ⟨rfl, (fun h => by rw [hr] at h; cases h), fun h => absurd h hnd, List.prefix_append _ _⟩,
            by simp, by simp⟩
          rw [hb, List.append_nil] at h1
          simp only [devData_succ, hc, ← h1, List.append_assoc, List.singleton_append]
        | nil =>
          rw [nextItem_empty i r hd hb hr hc]
          exact ⟨⟨h1, h2, h3⟩, mono_refl r, by simp, by simp⟩
      | false =>
        rw [nextItem_end i r hd hb hr]
        refine ⟨⟨by simpa [hb] using h1, by simp [hcl], fun _ => ⟨rfl, hb⟩⟩,
          ⟨rfl, fun _ => rfl, fun h => absurd h hnd, List.prefix_refl _⟩, by simp, by simp⟩

theorem takeN_spec (i : Nat) : ∀ (n : Nat) (r : Rec), RI i r →
    RI i (takeN i n r).2 ∧ Mono r (takeN i n r).2 ∧
    (takeN i n r).2.out = r.out ++ (takeN i n r).1 ∧ (takeN i n r).1.length ≤ n := by
  intro n
  induction n with
  | zero => intro r inv; exact ⟨inv, mono_refl r, by simp [takeN], by simp [takeN]⟩
  | succ n ih =>
    intro r inv
    obtain ⟨a1, a2, a3, a4⟩ := nextItem_spec i r inv
    unfold takeN
    cases hn : nextItem i r with
    | mk o r' =>
      rw [hn] at a1 a2 a3 a4
      cases o with
      | none =>
        simp only
        exact ⟨a1, a2, by simpa using a4 rfl, by simp⟩
      | some x =>
        simp only
        obtain ⟨b1, b2, b3, b4⟩ := ih r' a1
        refine ⟨b1, mono_trans a2 b2, ?_, by simp; omega⟩
        rw [b3, a3 x rfl]; simp

/-- after `stop()`, `take(inf)` ends the generator: enough `next()` calls for the buffered samples
    and one more -/
theorem takeN_finishes (i : Nat) : ∀ (b : List Int) (r : Rec), r.buf = b → r.recording = false →
    (takeN i (b.length + 1) r).2.done = true := by
  intro b
  induction b with
  | nil =>
    intro r hb hr
    cases hd : r.done with
    | true => simp [takeN, nextItem_done i r hd, hd]
    | false => simp [takeN, nextItem_end i r hd hb hr]
  | cons x b ih =>
    intro r hb hr
    cases hd : r.done with
    | true =>
      simp only [List.length_cons]
      unfold takeN
      rw [nextItem_done i r hd]
      exact hd
    | false =>
      simp only [List.length_cons]
      unfold takeN
      rw [nextItem_buf i r x b hd hb]
      simp only
      exact ih _ rfl hr

/-! ### the manager -/

/-- the streams and `_recordings`: exactly the streams whose generator has not finished -/
structure SC (s : RState) : Prop where
  recs : ∀ i r, s.recs[i]? = some r → RI i r
  mem : ∀ i, i ∈ s.recordings ↔ ∃ r, s.recs[i]? = some r ∧ r.done = false
  nodup : s.recordings.Nodup

/-- … and the manager: terminated exactly once, by `close`; nothing is recording afterwards -/
structure SI (s : RState) : Prop where
  c : SC s
  term : s.terminated = if s.finished then 1 else 0
  fin : s.finished = true → s.recordings = []

theorem si_init : SI init := by
  refine ⟨⟨?_, ?_, ?_⟩, rfl, fun _ => rfl⟩ <;> simp [init]

theorem getElem?_set' {α} (l : List α) (i k : Nat) (a b : α) (h : (l.set i a)[k]? = some b) :
    (k = i ∧ b = a ∧ i < l.length) ∨ (k ≠ i ∧ l[k]? = some b) := by
  rw [List.getElem?_set] at h
  split at h
  · split at h
    · cases h; exact Or.inl ⟨by omega, rfl, by assumption⟩
    · cases h
  · exact Or.inr ⟨by omega, h⟩

/-- replacing record `i` by one that `take` produced -/
theorem si_set {s : RState} {i : Nat} {r r' : Rec} (inv : SC s) (hr : s.recs[i]? = some r)
    (hi : RI i r') (hm : Mono r r') :
    SC { s with recs := s.recs.set i r',
                recordings := if r'.done && !r.done then s.recordings.erase i else s.recordings } := by
  obtain ⟨h1, h2, h3⟩ := inv
  have hlt : i < s.recs.length := by
    by_cases h : i < s.recs.length
    · exact h
    · rw [List.getElem?_eq_none (by omega)] at hr; cases hr
  refine ⟨?_, ?_, ?_⟩
  · intro k q hk
    rcases getElem?_set' _ _ _ _ _ hk with ⟨rfl, rfl, _⟩ | ⟨_, hk⟩
    · exact hi
    · exact h1 k q hk
  · intro k
    show k ∈ (if (r'.done && !r.done) = true then s.recordings.erase i else s.recordings) ↔
      ∃ q, (s.recs.set i r')[k]? = some q ∧ q.done = false
    by_cases hki : k = i
    · subst hki
      rw [List.getElem?_set_self hlt]
      cases hd' : r'.done with
      | false =>
        have hrd : r.done = false := by
          cases hd : r.done with
          | false => rfl
          | true => have := hm.dn hd; rw [this, hd] at hd'; cases hd'
        rw [if_neg (by simp), h2 k]
        exact ⟨fun _ => ⟨r', rfl, hd'⟩, fun _ => ⟨r, hr, hrd⟩⟩
      | true =>
        cases hd : r.done with
        | true =>
          rw [if_neg (by simp), h2 k]
          constructor
          · rintro ⟨q, hq, hqd⟩; rw [hr] at hq; cases hq; rw [hd] at hqd; cases hqd
          · rintro ⟨q, hq, hqd⟩; cases hq; rw [hd'] at hqd; cases hqd
        | false =>
          rw [if_pos (by simp)]
          constructor
          · intro h; exact absurd h (List.Nodup.not_mem_erase h3)
          · rintro ⟨q, hq, hqd⟩; cases hq; rw [hd'] at hqd; cases hqd
    · rw [List.getElem?_set_ne (fun e => hki e.symm)]
      split
      · rw [List.Nodup.mem_erase_iff h3, h2 k]
        exact ⟨fun h => h.2, fun h => ⟨hki, h⟩⟩
      · exact h2 k
  · show (if (r'.done && !r.done) = true then s.recordings.erase i else s.recordings).Nodup
    split
    · exact h3.erase i
    · exact h3

theorem takeOn_some (s : RState) (i n : Nat) (r : Rec) (hr : s.recs[i]? = some r) :
    takeOn s i n = ((takeN i n r).1,
      { s with recs := s.recs.set i (takeN i n r).2,
               recordings := if (takeN i n r).2.done && !r.done then s.recordings.erase i
                             else s.recordings }) := by
  simp [takeOn, hr]

theorem takeOn_si (s : RState) (i n : Nat) (inv : SC s) : SC (takeOn s i n).2 := by
  cases hr : s.recs[i]? with
  | none => simp only [takeOn, hr]; exact inv
  | some r =>
    rw [takeOn_some s i n r hr]
    obtain ⟨a1, a2, _, _⟩ := takeN_spec i n r (inv.recs i r hr)
    exact si_set inv hr a1 a2

theorem takeOn_frame (s : RState) (i n : Nat) :
    (takeOn s i n).2.finished = s.finished ∧ (takeOn s i n).2.terminated = s.terminated ∧
    (takeOn s i n).2.log = s.log ∧ (takeOn s i n).2.recs.length = s.recs.length ∧
    (∀ k, k ∈ (takeOn s i n).2.recordings → k ∈ s.recordings) := by
  cases hr : s.recs[i]? with
  | none => simp [takeOn, hr]
  | some r =>
    rw [takeOn_some s i n r hr]
    refine ⟨rfl, rfl, rfl, by simp, ?_⟩
    intro k hk
    simp only at hk
    split at hk
    · exact List.mem_of_mem_erase hk
    · exact hk

theorem stopOn_some (s : RState) (i : Nat) (r : Rec) (hr : s.recs[i]? = some r) :
    stopOn s i = { s with recs := s.recs.set i { r with recording := false } } := by
  simp [stopOn, hr]

theorem stopOn_si (s : RState) (i : Nat) (inv : SC s) : SC (stopOn s i) := by
  cases hr : s.recs[i]? with
  | none => simp only [stopOn, hr]; exact inv
  | some r =>
    rw [stopOn_some s i r hr]
    obtain ⟨h1, h2, h3⟩ := inv.recs i r hr
    have hm : Mono r { r with recording := false } := by
      refine ⟨rfl, fun _ => rfl, fun h => ?_, List.prefix_refl _⟩
      have := (h3 h).1
      cases r; simp_all
    have hi : RI i { r with recording := false } := ⟨h1, h2, fun h => ⟨rfl, (h3 h).2⟩⟩
    have := si_set inv hr hi hm
    have e : ((({ r with recording := false } : Rec).done && !r.done) = true) = False := by simp
    simp only [e, if_false] at this
    exact this

/-- one round of the loop in `close`: the last recording stream is stopped, drained, closed and
    leaves `_recordings` -/
theorem drain_round (s : RState) (i : Nat) (inv : SC s) (hi : i ∈ s.recordings) :
    SC (drain (stopOn s i) i) ∧ (drain (stopOn s i) i).recordings = s.recordings.erase i ∧
    (drain (stopOn s i) i).finished = s.finished ∧ (drain (stopOn s i) i).terminated = s.terminated ∧
    (drain (stopOn s i) i).log = s.log ∧ (drain (stopOn s i) i).recs.length = s.recs.length := by
  obtain ⟨r, hr, hrd⟩ := (inv.mem i).mp hi
  have hlt : i < s.recs.length := by
    by_cases h : i < s.recs.length
    · exact h
    · rw [List.getElem?_eq_none (by omega)] at hr; cases hr
  have inv' := stopOn_si s i inv
  rw [stopOn_some s i r hr] at inv' ⊢
  have hget : (s.recs.set i { r with recording := false })[i]? = some { r with recording := false } :=
    List.getElem?_set_self hlt
  have hd : drain { s with recs := s.recs.set i { r with recording := false } } i =
      (takeOn { s with recs := s.recs.set i { r with recording := false } } i (r.buf.length + 1)).2 := by
    simp [drain, hget]
  rw [hd]
  refine ⟨takeOn_si _ i _ inv', ?_, ?_⟩
  · have hfin := takeN_finishes i r.buf { r with recording := false } rfl rfl
    rw [takeOn_some _ i _ _ hget]
    simp only
    rw [if_pos (by rw [hfin, hrd]; rfl)]
  · have := takeOn_frame { s with recs := s.recs.set i { r with recording := false } } i (r.buf.length + 1)
    exact ⟨this.1, this.2.1, this.2.2.1, by rw [this.2.2.2.1]; simp⟩

theorem closeLoop_spec : ∀ (f : Nat) (s : RState), SC s → s.recordings.length ≤ f →
    SC (closeLoop f s) ∧ (closeLoop f s).recordings = [] ∧
    (closeLoop f s).finished = s.finished ∧ (closeLoop f s).terminated = s.terminated ∧
    (closeLoop f s).log = s.log ∧ (closeLoop f s).recs.length = s.recs.length := by
  intro f
  induction f with
  | zero =>
    intro s inv hl
    simp only [closeLoop]
    exact ⟨inv, List.eq_nil_of_length_eq_zero (by omega), by simp, by simp, by simp, by simp⟩
  | succ f ih =>
    intro s inv hl
    cases hg : s.recordings.getLast? with
    | none =>
      simp only [closeLoop, hg]
      exact ⟨inv, List.getLast?_eq_none_iff.mp hg, by simp, by simp, by simp, by simp⟩
    | some i =>
      simp only [closeLoop, hg]
      have hi : i ∈ s.recordings := List.mem_of_getLast? hg
      obtain ⟨b1, b2, b3, b4, b5, b6⟩ := drain_round s i inv hi
      have hlen : (drain (stopOn s i) i).recordings.length ≤ f := by
        rw [b2, List.length_erase_of_mem hi]; omega
      obtain ⟨c1, c2, c3, c4, c5, c6⟩ := ih _ b1 hlen
      exact ⟨c1, c2, c3.trans b3, c4.trans b4, c5.trans b5, c6.trans b6⟩

theorem stepCmd_si (s : RState) (c : RCmd) (inv : SI s) : SI (stepCmd s c) := by
  obtain ⟨ic, it, ifin⟩ := inv
  cases c with
  | record cs =>
    by_cases ht : s.terminated > 0
    · have e : stepCmd s (.record cs) = { s with log := s.log ++ [.recordRefused] } := by
        simp [stepCmd, ht]
      rw [e]
      exact ⟨⟨ic.recs, ic.mem, ic.nodup⟩, it, ifin⟩
    · have e : stepCmd s (.record cs) =
          { s with recs := s.recs ++ [{ cs := cs, recording := true, buf := [], reads := 0, out := [],
                                         done := false, closes := 0 }],
                   recordings := s.recordings ++ [s.recs.length],
                   log := s.log ++ [.recordOk s.recs.length] } := by
        simp [stepCmd, ht]
      rw [e]
      have hfin : s.finished = false := by
        cases hf : s.finished with
        | false => rfl
        | true => rw [hf] at it; simp at it; omega
      refine ⟨⟨?_, ?_, ?_⟩, it, fun h => by simp only at h; rw [hfin] at h; cases h⟩
      · intro i r hr
        simp only at hr
        by_cases hlt : i < s.recs.length
        · rw [List.getElem?_append_left hlt] at hr; exact ic.recs i r hr
        · by_cases he : i = s.recs.length
          · subst he
            simp at hr; subst hr
            exact ⟨by simp [devData], by simp, fun h => by cases h⟩
          · rw [List.getElem?_eq_none (by simp; omega)] at hr; cases hr
      · intro i
        simp only [List.mem_append, List.mem_singleton]
        by_cases hlt : i < s.recs.length
        · rw [List.getElem?_append_left hlt, ic.mem i]
          exact ⟨fun h => h.elim id (fun e => by omega), Or.inl⟩
        · by_cases he : i = s.recs.length
          · subst he; simp
          · rw [List.getElem?_eq_none (by simp; omega)]
            simp only [he, or_false]
            rw [ic.mem i, List.getElem?_eq_none (by omega)]
      · simp only
        rw [List.nodup_append]
        refine ⟨ic.nodup, by simp, ?_⟩
        intro a ha b hb
        simp only [List.mem_singleton] at hb
        subst hb
        obtain ⟨r, hr, _⟩ := (ic.mem a).mp ha
        intro e; subst e
        rw [List.getElem?_eq_none (by omega)] at hr; cases hr
  | take i n =>
    by_cases hlt : i < s.recs.length
    · have e : stepCmd s (.take i n) =
          { (takeOn s i n).2 with log := (takeOn s i n).2.log ++ [.took (takeOn s i n).1] } := by
        simp [stepCmd, hlt]
      rw [e]
      have h := takeOn_si s i n ic
      obtain ⟨f1, f2, _, _, f5⟩ := takeOn_frame s i n
      refine ⟨⟨h.recs, h.mem, h.nodup⟩, by simp only; rw [f1, f2]; exact it, fun hf => ?_⟩
      simp only at hf ⊢
      rw [f1] at hf
      have hnil := ifin hf
      cases hrec : (takeOn s i n).2.recordings with
      | nil => rfl
      | cons a l =>
        have := f5 a (by rw [hrec]; exact List.mem_cons_self)
        rw [hnil] at this; cases this
    · have e : stepCmd s (.take i n) = { s with log := s.log ++ [.skipped] } := by
        simp [stepCmd, hlt]
      rw [e]
      exact ⟨⟨ic.recs, ic.mem, ic.nodup⟩, it, ifin⟩
  | stop i =>
    by_cases hlt : i < s.recs.length
    · have e : stepCmd s (.stop i) = { stopOn s i with log := s.log ++ [.stopOk] } := by
        simp [stepCmd, hlt]
      rw [e]
      have h := stopOn_si s i ic
      have e1 : (stopOn s i).finished = s.finished ∧ (stopOn s i).terminated = s.terminated ∧
          (stopOn s i).recordings = s.recordings := by
        unfold stopOn; cases s.recs[i]? <;> simp
      exact ⟨⟨h.recs, h.mem, h.nodup⟩, by simp only; rw [e1.1, e1.2.1]; exact it,
        fun hf => by simp only at hf ⊢; rw [e1.2.2]; exact ifin (e1.1 ▸ hf)⟩
    · have e : stepCmd s (.stop i) = { s with log := s.log ++ [.skipped] } := by
        simp [stepCmd, hlt]
      rw [e]
      exact ⟨⟨ic.recs, ic.mem, ic.nodup⟩, it, ifin⟩
  | close =>
    cases hf : s.finished with
    | true =>
      have e : stepCmd s .close = { s with log := s.log ++ [.closeOk] } := by simp [stepCmd, hf]
      rw [e]
      exact ⟨⟨ic.recs, ic.mem, ic.nodup⟩, it, ifin⟩
    | false =>
      have e : stepCmd s .close =
          { closeLoop s.recordings.length { s with finished := true } with
            terminated := (closeLoop s.recordings.length { s with finished := true }).terminated + 1,
            log := (closeLoop s.recordings.length { s with finished := true }).log ++ [.closeOk] } := by
        simp [stepCmd, hf]
      rw [e]
      have ic1 : SC { s with finished := true } := ⟨ic.recs, ic.mem, ic.nodup⟩
      obtain ⟨c1, c2, c3, c4, _, _⟩ :=
        closeLoop_spec s.recordings.length { s with finished := true } ic1 (Nat.le_refl _)
      simp only at c3 c4
      refine ⟨⟨c1.recs, c1.mem, c1.nodup⟩, ?_, fun _ => c2⟩
      simp only [c3, c4, if_true]
      rw [it, hf]; rfl

theorem run_si : ∀ (cs : List RCmd) (s : RState), SI s → SI (run s cs) := by
  intro cs
  induction cs with
  | nil => intro s h; exact h
  | cons c cs ih => intro s h; exact ih _ (stepCmd_si s c h)

theorem stopOn_finished (s : RState) (i : Nat) : (stopOn s i).finished = s.finished := by
  unfold stopOn; cases s.recs[i]? <;> rfl

/-- `finished` is only ever set, and `close` sets it -/
theorem stepCmd_finished (s : RState) (c : RCmd) :
    (s.finished = true → (stepCmd s c).finished = true) ∧ (c = .close → (stepCmd s c).finished = true) := by
  cases c with
  | record cs => simp only [stepCmd]; split <;> simp
  | take i n =>
    simp only [stepCmd]
    split
    · simp [(takeOn_frame s i n).1]
    · simp
  | stop i =>
    simp only [stepCmd]
    split
    · simp [stopOn_finished]
    · simp
  | close =>
    simp only [stepCmd]
    split
    · rename_i h; simp [h]
    · have ic := closeLoop_finished s.recordings.length { s with finished := true }
      simp only at ic
      simp [ic]
where
  closeLoop_finished : ∀ (f : Nat) (s : RState), (closeLoop f s).finished = s.finished := by
    intro f
    induction f with
    | zero => intro s; rfl
    | succ f ih =>
      intro s
      simp only [closeLoop]
      cases s.recordings.getLast? with
      | none => rfl
      | some i =>
        simp only
        rw [ih]
        unfold drain
        cases (stopOn s i).recs[i]? with
        | none => exact stopOn_finished s i
        | some r => simp only; rw [(takeOn_frame _ i _).1]; exact stopOn_finished s i

theorem run_finished : ∀ (cs : List RCmd) (s : RState),
    (s.finished = true ∨ RCmd.close ∈ cs) → (run s cs).finished = true := by
  intro cs
  induction cs with
  | nil => intro s h; rcases h with h | h; exact h; cases h
  | cons c cs ih =>
    intro s h
    simp only [run]
    apply ih
    rcases h with h | h
    · exact Or.inl ((stepCmd_finished s c).1 h)
    · rcases List.mem_cons.mp h with h | h
      · exact Or.inl ((stepCmd_finished s c).2 h.symm)
      · exact Or.inr h

end ALV.C17Rec
