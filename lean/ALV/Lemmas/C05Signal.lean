/-
  C05 — signals: what a causal filter does to an input sequence.

  * `call_eq_apply` : the model's `call` (C04's generated loop, memory None, zero 0) returns the
    specification `apply` (C04's difference equation) for every causal filter.
  * `resp f x` : the response to an endless input; `resp_ps` : `D_f · Y = N_f · X` in `K⟦X⟧`
    (C04's power-series identity on the dense coefficient lists of the dictionaries).
  * `tf f = N_f · D_f⁻¹` : the transfer function as a power series (`D_f` is a unit because its
    constant coefficient is non-zero); `mk (resp f x) = tf f · mk x`.
  * `apply_eq_resp` : on a finite input the outputs are the first samples of the response to the
    input continued by zeros (causality).
-/
import ALV.Lemmas.C05Causal
import ALV.Lemmas.C04PS
import ALV.Lemmas.C04Field
import Mathlib.RingTheory.PowerSeries.Inverse
import Mathlib.RingTheory.PowerSeries.NoZeroDivisors
import Mathlib.Tactic.LinearCombination

set_option linter.unusedSectionVars false
set_option linter.unusedSimpArgs false

open PowerSeries

namespace ALV.C05
open ALV.C07
variable {K : Type} [Field K] [DecidableEq K]

/-! ### the generated loop is the difference equation (C04.1 + C04.3 with zero value 0) -/

theorem evalIR_eq_fspec (b as : List K) (a0 : K) (mem xs : List K) (hmem : mem.length = as.length) :
    C04.evalIR (C04.compile b (a0 :: as) 0) mem 0 xs = C04.fspec b as a0 0 mem [] xs := by
  by_cases hz : (∀ c ∈ b, c = 0) ∧ (∀ c ∈ as, c = 0)
  · have hnil : C04.numAtoms 0 b ++ C04.denAtoms 1 as = [] := (C04.dataSum_eq_nil b as).2 hz
    rw [C04.fspec_all_zero b as a0 hz.1 hz.2]
    simp only [C04.compile, List.tail_cons, hnil, List.isEmpty_nil, if_true, C04.evalIR]
    induction xs with
    | nil => rfl
    | cons x xs ih => simp [List.replicate_succ, ih]
  · have hne : ¬ (C04.numAtoms 0 b ++ C04.denAtoms 1 as = []) := by rwa [C04.dataSum_eq_nil]
    have hemp : (C04.numAtoms 0 b ++ C04.denAtoms 1 as).isEmpty = false := by
      cases h : C04.numAtoms 0 b ++ C04.denAtoms 1 as with
      | nil => exact absurd h hne
      | cons _ _ => rfl
    have h1 := C04.runLoop_eq_frun b as a0 _ (C04.applyGain_compile a0) xs 0 0 mem
      (List.replicate (b.length - 1) 0) hmem (by simp)
    have h2 := C04.frun_eq_fspec b as a0 0 xs mem [] (by omega)
    rw [C04.takeP_nil, ← hmem, List.take_length] at h2
    have hc : C04.compile b (a0 :: as) 0 = C04.IR.loop as.length (b.length - 1)
        (C04.numAtoms 0 b ++ C04.denAtoms 1 as)
        (if a0 = -1 then C04.Gain.negOne else if a0 ≠ 1 then C04.Gain.div a0 else C04.Gain.one)
        (C04.mShifts as.length ++ C04.dShifts (b.length - 1)) := by
      simp only [C04.compile, List.tail_cons, hemp]
      rfl
    rw [hc]
    simp only [C04.evalIR]
    rw [h1, h2]

/-! ### the two dictionary look-ups agree -/

theorem coefAt_eq_getD (p : MPoly K) (k : ℤ) : C04.coefAt p k = C07.getD p k := by
  unfold C04.coefAt C07.getD
  induction p with
  | nil => rfl
  | cons a t ih =>
    obtain ⟨k', v⟩ := a
    by_cases h : k' = k
    · subst h; simp [C07.find?]
    · have : (k' == k) = false := by simpa using h
      simp only [List.find?_cons, this, C07.find?, h, if_false]
      exact ih

theorem coefAt_eq_coeff {p : MPoly K} (hp : (keys p).Nodup) (k : ℤ) : C04.coefAt p k = C07.coeff p k := by
  rw [coefAt_eq_getD, coeff_eq_getD hp]

theorem checkCausal_of_isPoly {n d : MPoly K} (hn : IsPoly n) (hd : IsPoly d) : C04.checkCausal n d = true := by
  simp only [C04.checkCausal, Bool.not_eq_true', List.any_eq_false]
  intro kv hm
  have : 0 ≤ kv.1 := by
    rcases List.mem_append.1 hm with h | h
    · exact hn kv h
    · exact hd kv h
  simp; omega

/-- **the model's call is the specification's `apply`** for every causal filter -/
theorem call_eq_apply {f : ZF K} (hf : Causal f) (xs : List K) : call f xs = .ok (apply f xs) := by
  obtain ⟨⟨_, hfd, _⟩, pfn, pfd, f0⟩ := hf
  have h0 : C04.coefAt f.den 0 ≠ 0 := by rw [coefAt_eq_coeff hfd.1]; exact f0
  have hd := C04.dense_cons f.den h0
  have hl : (C04.dense f.den).length - 1 = (C04.dense f.den).tail.length := by simp
  unfold call apply
  simp only [C04.call, checkCausal_of_isPoly pfn pfd, Bool.not_true, Bool.false_eq_true, if_false, h0, hl,
    C04.memoryOf]
  congr 1
  conv_lhs => rw [hd]
  rw [List.tail_cons, evalIR_eq_fspec _ _ _ _ _ (by simp)]

/-! ### dense coefficient lists as power series -/

theorem le_order_of_mem {p : MPoly K} {kv : ℤ × K} (h : kv ∈ p) : kv.1.toNat ≤ C04.order p := by
  induction p with
  | nil => simp at h
  | cons a t ih =>
    obtain ⟨k, v⟩ := a
    simp only [C04.order]
    rcases List.mem_cons.1 h with rfl | h
    · exact le_max_left _ _
    · exact le_trans (ih h) (le_max_right _ _)

theorem dense_getD {p : MPoly K} (hp : IsPoly p) (hn : (keys p).Nodup) (n : ℕ) :
    (C04.dense p).getD n 0 = C07.coeff p n := by
  unfold C04.dense
  cases p with
  | nil => simp [C07.coeff]
  | cons a t =>
    simp only [List.isEmpty_cons, Bool.false_eq_true, if_false]
    by_cases hle : n < C04.order (a :: t) + 1
    · rw [List.getD_eq_getElem?_getD, List.getElem?_map, List.getElem?_range hle]
      simp only [Option.map_some, Option.getD_some]
      exact coefAt_eq_coeff hn _
    · rw [List.getD_eq_getElem?_getD, List.getElem?_eq_none (by simp; omega)]
      simp only [Option.getD_none]
      symm
      apply coeff_eq_zero_of_not_mem
      intro hmem
      obtain ⟨kv, hkv, hk⟩ := List.mem_map.1 hmem
      have h1 := le_order_of_mem hkv
      have h2 : 0 ≤ kv.1 := hp kv hkv
      omega

/-- the dense coefficient list that `LinearFilter.__call__` iterates (`values()`) is the
polynomial the dictionary denotes -/
theorem seriesOf_dense {p : MPoly K} (hp : IsPoly p) (hn : (keys p).Nodup) :
    C04.seriesOf (C04.dense p) = ((toPolyL p : Polynomial K) : K⟦X⟧) := by
  ext n
  rw [C04.seriesOf, PowerSeries.coeff_mk, Polynomial.coeff_coe, coeff_toPolyL hp, dense_getD hp hn]

/-! ### response to an endless input, transfer function -/

/-- numerator / denominator of a causal filter as power series in `X = z⁻¹` -/
noncomputable def psN (f : ZF K) : K⟦X⟧ := ((toPolyL f.num : Polynomial K) : K⟦X⟧)
noncomputable def psD (f : ZF K) : K⟦X⟧ := ((toPolyL f.den : Polynomial K) : K⟦X⟧)

/-- the response of the filter to the endless input `x` (zero initial conditions) -/
def resp (f : ZF K) (x : ℕ → K) : ℕ → K :=
  C04.response (C04.dense f.num) (C04.dense f.den).tail (C04.coefAt f.den 0) x

theorem constantCoeff_psD {f : ZF K} (hf : Causal f) : constantCoeff (psD f) ≠ 0 := by
  unfold psD
  rw [Polynomial.constantCoeff_coe, coeff_toPolyL hf.2.2.1]
  exact hf.2.2.2

theorem psD_ne_zero {f : ZF K} (hf : Causal f) : psD f ≠ 0 := by
  intro e
  have := constantCoeff_psD hf
  rw [e] at this
  simp at this

/-- **`D_f · Y = N_f · X`**: C04's power-series identity, read on the dictionaries -/
theorem resp_ps {f : ZF K} (hf : Causal f) (x : ℕ → K) :
    psD f * PowerSeries.mk (resp f x) = psN f * PowerSeries.mk x := by
  obtain ⟨⟨hfn, hfd, _⟩, pfn, pfd, f0⟩ := hf
  have h0 : C04.coefAt f.den 0 ≠ 0 := by rw [coefAt_eq_coeff hfd.1]; exact f0
  have h := C04.response_ps (C04.dense f.num) (C04.dense f.den).tail (C04.coefAt f.den 0) h0 x
  rw [← C04.dense_cons f.den h0, seriesOf_dense pfd hfd.1, seriesOf_dense pfn hfn.1] at h
  exact h

/-- the transfer function as a power series (= the impulse response) -/
noncomputable def tf (f : ZF K) : K⟦X⟧ := psN f * (psD f)⁻¹

theorem psD_mul_inv {f : ZF K} (hf : Causal f) : psD f * (psD f)⁻¹ = 1 :=
  PowerSeries.mul_inv_cancel _ (constantCoeff_psD hf)

/-- the output is the input multiplied by the transfer function: the difference equation has
exactly one solution because `D_f` is a unit of `K⟦X⟧` -/
theorem resp_eq_tf {f : ZF K} (hf : Causal f) (x : ℕ → K) :
    PowerSeries.mk (resp f x) = tf f * PowerSeries.mk x := by
  apply mul_left_cancel₀ (psD_ne_zero hf)
  rw [resp_ps hf x]
  unfold tf
  linear_combination (-(psN f * PowerSeries.mk x)) * psD_mul_inv hf

theorem resp_apply {f : ZF K} (hf : Causal f) (x : ℕ → K) (n : ℕ) :
    resp f x n = coeff n (tf f * PowerSeries.mk x) := by
  rw [← resp_eq_tf hf x, PowerSeries.coeff_mk]

/-- the response at time `n` only depends on the input up to time `n` -/
theorem resp_congr (f : ZF K) {x x' : ℕ → K} {n : ℕ} (h : ∀ j ≤ n, x j = x' j) : resp f x n = resp f x' n := by
  unfold resp C04.response
  have : (List.range (n + 1)).map x = (List.range (n + 1)).map x' := by
    apply List.map_congr_left
    intro j hj
    exact h j (by simpa [Nat.lt_succ_iff] using hj)
  rw [this]

/-! ### finite inputs -/

/-- a finite signal continued by zeros -/
def ext (xs : List K) : ℕ → K := fun n => xs.getD n 0

theorem map_ext_range (xs : List K) : (List.range xs.length).map (ext xs) = xs := by
  apply List.ext_getElem
  · simp
  · intro i h1 h2
    simp [ext, List.getD_eq_getElem?_getD, List.getElem?_eq_getElem h2]

/-- **causality**: the outputs on a finite input are the first samples of the response to the
input continued by zeros -/
theorem apply_eq_resp (f : ZF K) (xs : List K) :
    apply f xs = (List.range xs.length).map (resp f (ext xs)) := by
  apply List.ext_getElem
  · simp [apply, C04.fspec_length]
  · intro i h1 h2
    have hi : i < xs.length := by simpa using h2
    obtain ⟨m, hm⟩ : ∃ m, xs.length = m + 1 := ⟨xs.length - 1, by omega⟩
    have hp := C04.response_prefix (C04.dense f.num) (C04.dense f.den).tail (C04.coefAt f.den 0) (ext xs) m i
      (by omega)
    rw [← hm, map_ext_range] at hp
    simp only [List.getElem_map, List.getElem_range]
    unfold resp
    rw [← hp]
    unfold apply
    simp only [List.getD_eq_getElem?_getD]
    rw [List.getElem?_eq_getElem (by simpa [apply] using h1)]
    rfl

theorem apply_length (f : ZF K) (xs : List K) : (apply f xs).length = xs.length := by
  simp [apply, C04.fspec_length]

theorem ext_map_range (L : ℕ) (y : ℕ → K) {n : ℕ} (hn : n < L) : ext ((List.range L).map y) n = y n := by
  simp [ext, List.getD_eq_getElem?_getD, List.getElem?_range hn]

end ALV.C05
