/-
  C08 — a caller that changes the yielded deque in ANY way (length too), `hop ≤ size`:
  the loop of `bloopMut` against `mutSpecGo` / `mutSpecG`.  No hypothesis on the caller's edit is
  needed: whatever it leaves (even more than `size` items, which a real `deque(maxlen=size)` cannot
  hold) is cut to its last `size` items by the first `append` that follows, and at least one
  `append` (an item or a pad) precedes every block.
  Core Lean only.
-/
import ALV.Lemmas.C08Call
namespace ALV.C08
variable {α : Type}

theorem pushAll_append (size : Nat) (res a b : List α) :
    pushAll size res (a ++ b) = pushAll size (pushAll size res a) b := by
  simp [pushAll, List.foldl_append]

/-- after at least one `append` the deque holds the last `size` items, whatever it held before -/
theorem pushAll_eq_of_ne_nil (size : Nat) (res xs : List α) (h : xs ≠ []) :
    pushAll size res xs = lastSz size (res ++ xs) := by
  cases xs with
  | nil => exact absurd rfl h
  | cons x xs =>
    have hl : (dqPush size res x).length ≤ size := by rw [dqPush_length]; omega
    have h1 : pushAll size res (x :: xs) = pushAll size (dqPush size res x) xs := by
      simp [pushAll]
    rw [h1, pushAll_eq size xs _ hl]
    unfold dqPush
    simp only
    rw [lastSz_drop_append]
    simp

theorem padTo_pushAll (size : Nat) (pad : α) : ∀ (k : Nat) (res : List α),
    padTo size pad res k = pushAll size res (List.replicate k pad) := by
  intro k
  induction k with
  | zero => intro res; simp [padTo, pushAll]
  | succ k ih =>
    intro res
    rw [padTo, ih]
    simp [pushAll, List.replicate_succ]

theorem btail_mk (size hop : Nat) (pad : α) (res : List α) (idx : Int) :
    btail size hop pad (⟨res, idx⟩ : BState α) =
      if idx > max ((size : Int) - hop) 0 then [padTo size pad res (size - idx.toNat)] else [] := rfl

/-- a stretch of the loop inside a window (no yield): the items go into the deque -/
theorem bloopMut_quiet_append (size hop : Nat) (edit : Nat → List α → List α) :
    ∀ (a b : List α) (s : BState α) (k : Nat), 0 ≤ s.idx → s.idx + a.length ≤ (size : Int) - 1 →
      bloopMut size hop edit s k (a ++ b) =
        bloopMut size hop edit ⟨pushAll size s.res a, s.idx + a.length⟩ k b := by
  intro a
  induction a with
  | nil => intro b s k _ _; simp [pushAll]
  | cons x a ih =>
    intro b s k h0 hq
    simp only [List.length_cons] at hq
    have h1 : ¬ s.idx < 0 := by omega
    have h2 : ¬ s.idx = (size : Int) - 1 := by omega
    have hs : bstep size hop s x = (⟨dqPush size s.res x, s.idx + 1⟩, none) := by
      simp only [bstep, if_neg h1, if_neg h2]
    simp only [List.cons_append, bloopMut, hs]
    rw [ih b _ k (by show 0 ≤ s.idx + 1; omega) (by show s.idx + 1 + (a.length : Int) ≤ (size : Int) - 1; omega)]
    simp only [pushAll, List.foldl_cons, List.length_cons]
    congr 2
    omega

/-- the loop after the first block: `d` is what the caller left, `w` the items received since
(fewer than `hop`), `v` the input still to come -/
theorem bloopMut_go (size hop : Nat) (hh : 0 < hop) (hle : hop ≤ size) (pad : α)
    (edit : Nat → List α → List α) :
    ∀ (v w d : List α) (k : Nat), w.length < hop →
      (bloopMut size hop edit ⟨pushAll size d w, (size : Int) - hop + w.length⟩ k v).1 ++
        btail size hop pad (bloopMut size hop edit ⟨pushAll size d w, (size : Int) - hop + w.length⟩ k v).2 =
      mutSpecGo size hop pad edit k d (w ++ v) := by
  intro v
  induction v with
  | nil =>
    intro w d k hw
    rw [mutSpecGo]
    have hc : (w ++ ([] : List α)).length < hop ∨ hop = 0 := by left; simpa using hw
    rw [dif_pos hc]
    simp only [bloopMut, List.nil_append, List.append_nil]
    rw [btail_mk]
    by_cases h0 : 0 < w.length
    · have hgt : (size : Int) - hop + w.length > max ((size : Int) - hop) 0 := by omega
      rw [if_pos hgt, if_pos h0, padTo_pushAll, ← pushAll_append]
      have hn : size - ((size : Int) - hop + w.length).toNat = hop - w.length := by omega
      rw [hn, pushAll_eq_of_ne_nil size d _ (by
        intro h
        have := congrArg List.length h
        simp only [List.length_append, List.length_replicate, List.length_nil] at this
        omega)]
      simp
    · have hgt : ¬ ((size : Int) - hop + w.length > max ((size : Int) - hop) 0) := by omega
      rw [if_neg hgt, if_neg h0]
  | cons x v ih =>
    intro w d k hw
    have h1 : ¬ ((size : Int) - hop + w.length < 0) := by omega
    have hpush : dqPush size (pushAll size d w) x = pushAll size d (w ++ [x]) := by
      simp [pushAll, List.foldl_append]
    by_cases hy : w.length + 1 = hop
    · -- the window is complete: yield
      rw [mutSpecGo]
      have hc : ¬ ((w ++ x :: v).length < hop ∨ hop = 0) := by
        simp only [List.length_append, List.length_cons]; omega
      have h2 : (size : Int) - hop + w.length = (size : Int) - 1 := by omega
      have hs : bstep size hop (⟨pushAll size d w, (size : Int) - hop + w.length⟩ : BState α) x =
          (⟨pushAll size d (w ++ [x]), (size : Int) - hop⟩, some (pushAll size d (w ++ [x]))) := by
        simp only [bstep, if_neg h1, if_pos h2, hpush]
      have htake : (w ++ x :: v).take hop = w ++ [x] := by
        rw [← hy, List.take_append, List.take_of_length_le (by omega)]
        simp
      have hdrop : (w ++ x :: v).drop hop = v := by
        rw [← hy, List.drop_append]
        simp
      have hb : pushAll size d (w ++ [x]) = lastSz size (d ++ (w ++ [x])) :=
        pushAll_eq_of_ne_nil size d _ (by simp)
      rw [dif_neg hc, htake, hdrop, ← hb]
      have := ih [] (edit k (pushAll size d (w ++ [x]))) (k + 1) (by simpa using hh)
      rw [show ∀ D : List α, pushAll size D [] = D from fun _ => rfl] at this
      simp only [List.length_nil, Int.natCast_zero, Int.add_zero, List.nil_append] at this
      simp only [bloopMut, hs, List.cons_append]
      rw [← this]
    · have h2 : ¬ ((size : Int) - hop + w.length = (size : Int) - 1) := by omega
      have hs : bstep size hop (⟨pushAll size d w, (size : Int) - hop + w.length⟩ : BState α) x =
          (⟨pushAll size d (w ++ [x]), (size : Int) - hop + w.length + 1⟩, none) := by
        simp only [bstep, if_neg h1, if_neg h2, hpush]
      have := ih (w ++ [x]) d k (by simp only [List.length_append, List.length_cons, List.length_nil]; omega)
      simp only [List.length_append, List.length_cons, List.length_nil, List.append_assoc,
        List.cons_append, List.nil_append] at this
      have hi : (size : Int) - hop + ((w.length + (0 + 1) : Nat) : Int) = (size : Int) - hop + w.length + 1 := by omega
      rw [hi] at this
      simp only [bloopMut, hs]
      exact this

/-- the whole run against `mutSpecG` (`hop ≤ size`, any caller) -/
theorem blocksMut_eq_mutSpecG (size hop : Nat) (hs : 0 < size) (hh : 0 < hop) (hle : hop ≤ size) (pad : α)
    (edit : Nat → List α → List α) (xs : List α) :
    blocksMut size hop pad edit xs = mutSpecG size hop pad edit xs := by
  unfold blocksMut mutSpecG
  by_cases hn : xs.length < size
  · -- no complete block: the loop is quiet
    have hq := bloopMut_quiet_append size hop edit xs [] (⟨[], 0⟩ : BState α) 0 (by simp)
      (by show (0 : Int) + xs.length ≤ (size : Int) - 1; omega)
    simp only [List.append_nil] at hq
    rw [if_pos hn]
    simp only [hq, bloopMut, List.nil_append]
    rw [btail_mk]
    have hp : pushAll size [] xs = xs := by
      rw [pushAll_eq size xs [] (by simp)]
      have : xs.length - size = 0 := by omega
      simp [lastSz, this]
    by_cases hc : (xs.length : Int) > max ((size : Int) - hop) 0
    · have hc' : (0 : Int) + xs.length > max ((size : Int) - hop) 0 := by omega
      rw [if_pos hc, if_pos hc', hp, padTo_eq size pad _ _ (by omega)]
      have h0 : xs.length + (size - ((0 : Int) + xs.length).toNat) - size = 0 := by omega
      have h1 : size - ((0 : Int) + xs.length).toNat = size - xs.length := by omega
      rw [h0, h1, List.drop_zero]
    · have hc' : ¬ ((0 : Int) + xs.length > max ((size : Int) - hop) 0) := by omega
      rw [if_neg hc, if_neg hc']
  · rw [if_neg hn]
    -- xs = a ++ x :: rest with |a| = size - 1
    obtain ⟨a, x, rest, hx, ha⟩ : ∃ a x rest, xs = a ++ x :: rest ∧ a.length + 1 = size := by
      have hlt : size - 1 < xs.length := by omega
      refine ⟨xs.take (size - 1), xs[size - 1], xs.drop size, ?_, ?_⟩
      · have h := (List.take_append_drop (size - 1) xs).symm
        rw [List.drop_eq_getElem_cons hlt] at h
        have e : size - 1 + 1 = size := by omega
        rw [e] at h
        exact h
      · simp only [List.length_take]; omega
    subst hx
    have hq := bloopMut_quiet_append size hop edit a (x :: rest) (⟨[], 0⟩ : BState α) 0 (by simp)
      (by show (0 : Int) + a.length ≤ (size : Int) - 1; omega)
    have hp : pushAll size [] a = a := by
      rw [pushAll_eq size a [] (by simp)]
      have : a.length - size = 0 := by omega
      simp [lastSz, this]
    have h1 : ¬ ((0 : Int) + a.length < 0) := by omega
    have h2 : (0 : Int) + a.length = (size : Int) - 1 := by omega
    have hd : dqPush size a x = a ++ [x] := by
      have : a.length + 1 - size = 0 := by omega
      simp [dqPush, this]
    have hst : bstep size hop (⟨a, (0 : Int) + a.length⟩ : BState α) x =
        (⟨a ++ [x], (size : Int) - hop⟩, some (a ++ [x])) := by
      simp only [bstep, if_neg h1, if_pos h2, hd]
    have htake : (a ++ x :: rest).take size = a ++ [x] := by
      rw [← ha, List.take_append, List.take_of_length_le (by omega)]; simp
    have hdrop : (a ++ x :: rest).drop size = rest := by
      rw [← ha, List.drop_append]; simp
    rw [hq, hp, htake, hdrop]
    have hgo := bloopMut_go size hop hh hle pad edit rest [] (edit 0 (a ++ [x])) 1 (by simpa using hh)
    rw [show ∀ D : List α, pushAll size D [] = D from fun _ => rfl] at hgo
    simp only [List.length_nil, Int.natCast_zero, Int.add_zero, List.nil_append] at hgo
    simp only [bloopMut, hst, List.cons_append]
    rw [← hgo]

end ALV.C08
