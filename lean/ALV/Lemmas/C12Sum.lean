/-
  C12 — helper lemmas, part 2: list recursions as `Finset` sums; the complex exponential kernel.
-/
import ALV.Lemmas.C12
import ALV.Lemmas.C12Src
import Mathlib.Algebra.BigOperators.Intervals
import Mathlib.Analysis.SpecialFunctions.Exp

set_option linter.unusedSectionVars false
set_option linter.unusedSimpArgs false

namespace ALV.C12
open Finset
variable {K : Type} [Field K]

theorem evalFrom_eq_sum (w : K) (i : Nat) (c : List K) :
    evalFrom w i c = ∑ k ∈ range c.length, c.getD k 0 * w ^ (i + k) := by
  induction c generalizing i with
  | nil => simp [evalFrom]
  | cons x xs ih =>
    rw [List.length_cons, Finset.sum_range_succ', evalFrom, ih (i + 1), pw_eq_pow]
    simp only [List.getD_cons_succ, List.getD_cons_zero, add_zero]
    rw [add_comm]
    congr 1
    apply Finset.sum_congr rfl
    intro k _
    congr 2
    omega

theorem evalDirect_eq_sum (c : List K) (w : K) :
    evalDirect c w = ∑ k ∈ range c.length, c.getD k 0 * w ^ k := by
  simp [evalDirect, evalFrom_eq_sum]

/-- `(e^{-jω})^k = e^{-jωk}` -/
theorem cexp_pow (ω : ℂ) (k : Nat) :
    Complex.exp (-(Complex.I * ω)) ^ k = Complex.exp (-(Complex.I * ω * k)) := by
  rw [← Complex.exp_nat_mul]
  congr 1
  ring

/-- the DFT kernel as coded: `cexp(-1j * n * f)` -/
noncomputable def ckern (f : ℝ) (n : ℕ) : ℂ := Complex.exp (-(Complex.I * n * f))

/-- the transfer polynomial `Σ_k c_k e^{-jωk}` -/
noncomputable def tf (c : List ℂ) (ω : ℝ) : ℂ :=
  ∑ k ∈ range c.length, c.getD k 0 * Complex.exp (-(Complex.I * ω * k))

theorem tf_eq (c : List ℂ) (ω : ℝ) : tf c ω = evalDirect c (Complex.exp (-(Complex.I * ω))) := by
  simp only [tf, evalDirect_eq_sum, cexp_pow]

theorem ckern_eq (f : ℝ) (n : ℕ) : ckern f n = Complex.exp (-(Complex.I * f)) ^ n := by
  rw [cexp_pow]; unfold ckern; congr 1; ring

/-- the spelling `cexp(s·1j · n · f)` of the source, over ℂ with real frequencies -/
noncomputable def cisC : CExp ℝ ℂ := ⟨fun s n f => Complex.exp (s * Complex.I * n * f)⟩

theorem cisC_pt (ω : ℝ) : cisC.pt ω = Complex.exp (-(Complex.I * ω)) := by
  simp [CExp.pt, cisC]

theorem cisC_kern : cisC.kern = ckern := by
  funext f n
  simp [CExp.kern, cisC, ckern]

end ALV.C12
