/-
  C01 — helper lemmas for the QUERY log (`Iter.stepQ`, `Iter.drainQ`) and the step trace
  (`Iter.stepTrace`, `Iter.runT`):

  * congruence: an oracle that agrees with `bad` on the logged queries gives the same step / drain and the
    same log (what justifies the "settled oracle table" of the tie);
  * the log is the step trace through its first raising application, the outcome is that application's
    exception resp. the outcome of the exception-free machine;
  * necessity: changing the verdict on ONE logged query changes the outcome of the step.
  Core Lean only.
-/
import ALV.Lemmas.C01Exc
namespace ALV.C01

/-! ### congruence -/

theorem Iter.stepE_congr (bad bad' : Term → Bool) : ∀ (e : Iter), (∀ t ∈ e.stepQ bad, bad' t = bad t) →
    e.stepE bad' = e.stepE bad ∧ e.stepQ bad' = e.stepQ bad := by
  intro e
  induction e with
  | list t xs => intro _; cases xs <;> exact ⟨rfl, rfl⟩
  | rep c => intro _; exact ⟨rfl, rfl⟩
  | cycle cur all => intro _; cases cur <;> cases all <;> exact ⟨rfl, rfl⟩
  | dead a _ => intro _; exact ⟨rfl, rfl⟩
  | chain a b iha ihb =>
    intro h
    cases hs : a.stepE bad with
    | mk o a' =>
      cases o with
      | item x =>
        simp only [Iter.stepQ, hs] at h
        obtain ⟨h1, h2⟩ := iha h
        simp [Iter.stepE, Iter.stepQ, h1, h2, hs]
      | raised t =>
        simp only [Iter.stepQ, hs] at h
        obtain ⟨h1, h2⟩ := iha h
        simp [Iter.stepE, Iter.stepQ, h1, h2, hs]
      | stop =>
        simp only [Iter.stepQ, hs] at h
        obtain ⟨h1, h2⟩ := iha (fun t ht => h t (List.mem_append_left _ ht))
        obtain ⟨h3, h4⟩ := ihb (fun t ht => h t (List.mem_append_right _ ht))
        simp [Iter.stepE, Iter.stepQ, h1, h2, h3, h4, hs]
  | mapc g f pre post a ih =>
    intro h
    cases hs : a.stepE bad with
    | mk o a' =>
      cases o with
      | item x =>
        simp only [Iter.stepQ, hs] at h
        obtain ⟨h1, h2⟩ := ih (fun t ht => h t (List.mem_append_left _ ht))
        have h3 := h (.app f (pre ++ x :: post)) (List.mem_append_right _ (List.mem_singleton.mpr rfl))
        simp [Iter.stepE, Iter.stepQ, h1, h2, h3, hs]
      | raised t =>
        simp only [Iter.stepQ, hs] at h
        obtain ⟨h1, h2⟩ := ih h
        simp [Iter.stepE, Iter.stepQ, h1, h2, hs]
      | stop =>
        simp only [Iter.stepQ, hs] at h
        obtain ⟨h1, h2⟩ := ih h
        simp [Iter.stepE, Iter.stepQ, h1, h2, hs]
  | map2 f a b iha ihb =>
    intro h
    cases hsa : a.stepE bad with
    | mk oa a' =>
      cases oa with
      | raised t =>
        simp only [Iter.stepQ, hsa] at h
        obtain ⟨h1, h2⟩ := iha h
        simp [Iter.stepE, Iter.stepQ, h1, h2, hsa]
      | stop =>
        simp only [Iter.stepQ, hsa] at h
        obtain ⟨h1, h2⟩ := iha h
        simp [Iter.stepE, Iter.stepQ, h1, h2, hsa]
      | item x =>
        cases hsb : b.stepE bad with
        | mk ob b' =>
          cases ob with
          | item y =>
            simp only [Iter.stepQ, hsa, hsb] at h
            obtain ⟨h1, h2⟩ := iha (fun t ht => h t (List.mem_append_left _ (List.mem_append_left _ ht)))
            obtain ⟨h3, h4⟩ := ihb (fun t ht => h t (List.mem_append_left _ (List.mem_append_right _ ht)))
            have h5 := h (.app f [x, y]) (List.mem_append_right _ (List.mem_singleton.mpr rfl))
            simp [Iter.stepE, Iter.stepQ, h1, h2, h3, h4, h5, hsa, hsb]
          | raised t =>
            simp only [Iter.stepQ, hsa, hsb] at h
            obtain ⟨h1, h2⟩ := iha (fun t ht => h t (List.mem_append_left _ ht))
            obtain ⟨h3, h4⟩ := ihb (fun t ht => h t (List.mem_append_right _ ht))
            simp [Iter.stepE, Iter.stepQ, h1, h2, h3, h4, hsa, hsb]
          | stop =>
            simp only [Iter.stepQ, hsa, hsb] at h
            obtain ⟨h1, h2⟩ := iha (fun t ht => h t (List.mem_append_left _ ht))
            obtain ⟨h3, h4⟩ := ihb (fun t ht => h t (List.mem_append_right _ ht))
            simp [Iter.stepE, Iter.stepQ, h1, h2, h3, h4, hsa, hsb]

theorem Iter.drain_congr (bad bad' : Term → Bool) : ∀ (n : Nat) (e : Iter),
    (∀ q ∈ e.drainQ bad n, ∀ t ∈ q, bad' t = bad t) →
    e.drainS bad' n = e.drainS bad n ∧ e.drainQ bad' n = e.drainQ bad n := by
  intro n
  induction n with
  | zero => intro e _; exact ⟨rfl, rfl⟩
  | succ n ih =>
    intro e h
    obtain ⟨h1, h2⟩ := Iter.stepE_congr bad bad' e (h _ (by simp [Iter.drainQ]))
    cases hs : e.stepE bad with
    | mk o e' =>
      cases o with
      | stop => simp [Iter.drainS, Iter.drainQ, h1, h2, hs]
      | item x =>
        obtain ⟨h3, h4⟩ := ih e' (fun q hq => h q (by simp [Iter.drainQ, hs, hq]))
        simp [Iter.drainS, Iter.drainQ, h1, h2, hs, h3, h4]
      | raised t =>
        obtain ⟨h3, h4⟩ := ih e' (fun q hq => h q (by simp [Iter.drainQ, hs, hq]))
        simp [Iter.drainS, Iter.drainQ, h1, h2, hs, h3, h4]

/-! ### the log is the trace through its first raising application -/

theorem throughFirst_append (bad : Term → Bool) (l1 l2 : List Term) :
    throughFirst bad (l1 ++ l2) =
      if l1.find? bad = none then l1 ++ throughFirst bad l2 else throughFirst bad l1 := by
  induction l1 with
  | nil => simp
  | cons t r ih =>
    cases hb : bad t with
    | true => simp [throughFirst, hb]
    | false =>
      simp only [List.cons_append, throughFirst, hb, List.find?_cons]
      rw [ih]
      by_cases h : r.find? bad = none <;> simp [h]

theorem throughFirst_none (bad : Term → Bool) (l : List Term) (h : l.find? bad = none) : throughFirst bad l = l := by
  have := throughFirst_append bad l []
  simpa [h, throughFirst] using this

/-- through the first raising application: the applications before it do not raise, it is the last one -/
theorem throughFirst_some (bad : Term → Bool) : ∀ (l : List Term) (t : Term), l.find? bad = some t →
    ∃ qs rest, l = qs ++ t :: rest ∧ throughFirst bad l = qs ++ [t] ∧ (∀ q ∈ qs, bad q = false) ∧ bad t = true := by
  intro l
  induction l with
  | nil => intro t h; simp at h
  | cons x r ih =>
    intro t h
    cases hb : bad x with
    | true =>
      simp only [List.find?_cons, hb] at h
      cases h
      exact ⟨[], r, rfl, by simp [throughFirst, hb], by simp, hb⟩
    | false =>
      simp only [List.find?_cons, hb] at h
      obtain ⟨qs, rest, h1, h2, h3, h4⟩ := ih t h
      refine ⟨x :: qs, rest, by rw [h1]; rfl, by simp [throughFirst, hb, h2], ?_, h4⟩
      intro q hq
      rcases List.mem_cons.mp hq with rfl | hq
      · exact hb
      · exact h3 q hq

/-- one call of `next` under an oracle, read off the exception-free machine and its trace -/
def TraceOK (bad : Term → Bool) (e : Iter) : Prop :=
  e.stepQ bad = throughFirst bad e.stepTrace ∧
  match e.stepTrace.find? bad with
  | none => e.stepE bad = liftStep' e.step
  | some t => (e.stepE bad).1 = .raised t

theorem TraceOK.none {bad : Term → Bool} {e : Iter} (h : TraceOK bad e) (hn : e.stepTrace.find? bad = none) :
    e.stepE bad = liftStep' e.step ∧ e.stepQ bad = e.stepTrace := by
  obtain ⟨h1, h2⟩ := h
  rw [hn] at h2
  exact ⟨h2, by rw [h1, throughFirst_none bad _ hn]⟩

theorem TraceOK.some {bad : Term → Bool} {e : Iter} {t : Term} (h : TraceOK bad e) (hn : e.stepTrace.find? bad = some t) :
    ∃ e', e.stepE bad = (.raised t, e') := by
  obtain ⟨_, h2⟩ := h
  rw [hn] at h2
  cases hs : e.stepE bad with
  | mk o e' => rw [hs] at h2; exact ⟨e', by cases h2; rfl⟩

theorem Iter.traceOK (bad : Term → Bool) : ∀ (e : Iter), TraceOK bad e := by
  intro e
  induction e with
  | list t xs => cases xs <;> exact ⟨rfl, rfl⟩
  | rep c => exact ⟨rfl, rfl⟩
  | cycle cur all => cases cur <;> cases all <;> exact ⟨rfl, rfl⟩
  | dead a _ => exact ⟨rfl, rfl⟩
  | chain a b iha ihb =>
    cases hfa : a.stepTrace.find? bad with
    | some t =>
      obtain ⟨a'', hsa⟩ := iha.some hfa
      have hq := iha.1
      cases hs : a.step with
      | mk o a' =>
        cases o with
        | some x =>
          refine ⟨by simp [Iter.stepQ, Iter.stepTrace, hsa, hs, hq], ?_⟩
          simp [Iter.stepTrace, hs, hfa, Iter.stepE, hsa]
        | none =>
          refine ⟨by simp [Iter.stepQ, Iter.stepTrace, hsa, hs, hq, throughFirst_append, hfa], ?_⟩
          simp [Iter.stepTrace, hs, hfa, Iter.stepE, hsa]
    | none =>
      obtain ⟨hsa, hqa⟩ := iha.none hfa
      cases hs : a.step with
      | mk o a' =>
        rw [hs] at hsa
        cases o with
        | some x =>
          refine ⟨by simp [Iter.stepQ, Iter.stepTrace, hsa, hs, hqa, liftStep', throughFirst_none bad _ hfa], ?_⟩
          simp [Iter.stepTrace, hs, hfa, Iter.stepE, Iter.step, hsa, liftStep']
        | none =>
          refine ⟨by simp [Iter.stepQ, Iter.stepTrace, hsa, hs, hqa, liftStep', throughFirst_append, hfa, ihb.1], ?_⟩
          have h2 := ihb.2
          simp only [Iter.stepTrace, hs, List.find?_append, hfa, Option.none_or]
          cases hfb : b.stepTrace.find? bad with
          | none => rw [hfb] at h2; simp [Iter.stepE, Iter.step, hsa, hs, liftStep', h2]
          | some t => rw [hfb] at h2; simp [Iter.stepE, hsa, liftStep', h2]
  | mapc g f pre post a ih =>
    cases hfa : a.stepTrace.find? bad with
    | some t =>
      obtain ⟨a'', hsa⟩ := ih.some hfa
      have hq := ih.1
      cases hs : a.step with
      | mk o a' =>
        cases o with
        | some x =>
          refine ⟨by simp [Iter.stepQ, Iter.stepTrace, hsa, hs, hq, throughFirst_append, hfa], ?_⟩
          simp [Iter.stepTrace, hs, hfa, Iter.stepE, hsa]
        | none =>
          refine ⟨by simp [Iter.stepQ, Iter.stepTrace, hsa, hs, hq], ?_⟩
          simp [Iter.stepTrace, hs, hfa, Iter.stepE, hsa]
    | none =>
      obtain ⟨hsa, hqa⟩ := ih.none hfa
      cases hs : a.step with
      | mk o a' =>
        rw [hs] at hsa
        cases o with
        | some x =>
          refine ⟨by simp [Iter.stepQ, Iter.stepTrace, hsa, hs, hqa, liftStep', throughFirst_append, hfa, throughFirst], ?_⟩
          cases hb : bad (.app f (pre ++ x :: post)) with
          | true => simp [Iter.stepTrace, hs, hfa, Iter.stepE, hsa, liftStep', hb]
          | false => simp [Iter.stepTrace, hs, hfa, Iter.stepE, Iter.step, hsa, liftStep', hb]
        | none =>
          refine ⟨by simp [Iter.stepQ, Iter.stepTrace, hsa, hs, hqa, liftStep', throughFirst_none bad _ hfa], ?_⟩
          simp [Iter.stepTrace, hs, hfa, Iter.stepE, Iter.step, hsa, liftStep']
  | map2 f a b iha ihb =>
    cases hfa : a.stepTrace.find? bad with
    | some t =>
      obtain ⟨a'', hsa⟩ := iha.some hfa
      have hq := iha.1
      cases hs : a.step with
      | mk o a' =>
        cases o with
        | none =>
          refine ⟨by simp [Iter.stepQ, Iter.stepTrace, hsa, hs, hq], ?_⟩
          simp [Iter.stepTrace, hs, hfa, Iter.stepE, hsa]
        | some x =>
          cases hsb : b.step with
          | mk ob b' =>
            cases ob with
            | none =>
              refine ⟨by simp [Iter.stepQ, Iter.stepTrace, hsa, hs, hsb, hq, throughFirst_append, hfa], ?_⟩
              simp [Iter.stepTrace, hs, hsb, hfa, Iter.stepE, hsa]
            | some y =>
              refine ⟨by simp [Iter.stepQ, Iter.stepTrace, hsa, hs, hsb, hq, throughFirst_append, hfa], ?_⟩
              simp [Iter.stepTrace, hs, hsb, hfa, Iter.stepE, hsa]
    | none =>
      obtain ⟨hsa, hqa⟩ := iha.none hfa
      cases hs : a.step with
      | mk o a' =>
        rw [hs] at hsa
        cases o with
        | none =>
          refine ⟨by simp [Iter.stepQ, Iter.stepTrace, hsa, hs, hqa, liftStep', throughFirst_none bad _ hfa], ?_⟩
          simp [Iter.stepTrace, hs, hfa, Iter.stepE, Iter.step, hsa, liftStep']
        | some x =>
          cases hfb : b.stepTrace.find? bad with
          | some t =>
            obtain ⟨b'', hsb'⟩ := ihb.some hfb
            have hqb := ihb.1
            cases hsb : b.step with
            | mk ob b' =>
              cases ob with
              | none =>
                refine ⟨by simp [Iter.stepQ, Iter.stepTrace, hsa, hs, hsb, hsb', hqa, hqb, liftStep', throughFirst_append, hfa], ?_⟩
                simp [Iter.stepTrace, hs, hsb, hfa, hfb, Iter.stepE, hsa, hsb', liftStep']
              | some y =>
                refine ⟨by simp [Iter.stepQ, Iter.stepTrace, hsa, hs, hsb, hsb', hqa, hqb, liftStep', throughFirst_append, hfa, hfb], ?_⟩
                simp [Iter.stepTrace, hs, hsb, hfa, hfb, Iter.stepE, hsa, hsb', liftStep']
          | none =>
            obtain ⟨hsb', hqb⟩ := ihb.none hfb
            cases hsb : b.step with
            | mk ob b' =>
              rw [hsb] at hsb'
              cases ob with
              | none =>
                refine ⟨by simp [Iter.stepQ, Iter.stepTrace, hsa, hs, hsb, hsb', hqa, hqb, liftStep', throughFirst_append, hfa,
                  throughFirst_none bad _ hfb], ?_⟩
                simp [Iter.stepTrace, hs, hsb, hfa, hfb, Iter.stepE, Iter.step, hsa, hsb', liftStep']
              | some y =>
                refine ⟨by simp [Iter.stepQ, Iter.stepTrace, hsa, hs, hsb, hsb', hqa, hqb, liftStep', throughFirst_append, hfa,
                  hfb, throughFirst], ?_⟩
                cases hb : bad (.app f [x, y]) with
                | true => simp [Iter.stepTrace, hs, hsb, hfa, hfb, Iter.stepE, hsa, hsb', liftStep', hb]
                | false => simp [Iter.stepTrace, hs, hsb, hfa, hfb, Iter.stepE, Iter.step, hsa, hsb', liftStep', hb]

/-! ### necessity: every logged query decides the outcome -/

theorem find?_none_all {bad : Term → Bool} {l : List Term} (h : l.find? bad = none) : ∀ q ∈ l, bad q = false := by
  intro q hq
  have := List.find?_eq_none.mp h q hq
  simpa using this

theorem liftStep'_not_raised (s : Option Term × Iter) (t : Term) : (liftStep' s).1 ≠ .raised t := by
  obtain ⟨o, e⟩ := s
  cases o <;> simp [liftStep']

theorem Iter.stepQ_needed (bad bad' : Term → Bool) (e : Iter) (q : Term) (hq : q ∈ e.stepQ bad)
    (hsame : ∀ t, t ≠ q → bad' t = bad t) (hdiff : bad' q ≠ bad q) :
    (e.stepE bad').1 ≠ (e.stepE bad).1 := by
  have hT := Iter.traceOK bad e
  have hT' := Iter.traceOK bad' e
  cases hf : e.stepTrace.find? bad with
  | none =>
    obtain ⟨h1, h2⟩ := hT.none hf
    rw [h2] at hq
    have hbq : bad q = false := find?_none_all hf q hq
    have hbq' : bad' q = true := by cases h : bad' q <;> simp_all
    cases hf' : e.stepTrace.find? bad' with
    | none => have := find?_none_all hf' q hq; simp [hbq'] at this
    | some t' =>
      obtain ⟨e'', h3⟩ := hT'.some hf'
      rw [h3, h1]
      exact fun h => liftStep'_not_raised _ t' h.symm
  | some t =>
    obtain ⟨e1, h1⟩ := hT.some hf
    obtain ⟨qs, rest, hl, hq2, hgood, hbt⟩ := throughFirst_some bad _ t hf
    rw [hT.1, hq2] at hq
    rw [h1]
    rcases List.mem_append.mp hq with hq | hq
    · -- a query answered "does not raise" is flipped: its exception surfaces instead
      have hbq : bad q = false := hgood q hq
      have hbq' : bad' q = true := by cases h : bad' q <;> simp_all
      have hne : q ≠ t := fun h => by rw [h, hbt] at hbq; cases hbq
      have hsome : (qs.find? bad').isSome = true := by
        rw [List.find?_isSome]; exact ⟨q, hq, hbq'⟩
      obtain ⟨t', ht'⟩ := Option.isSome_iff_exists.mp hsome
      have hmem := List.mem_of_find?_eq_some ht'
      have hbt' : bad' t' = true := List.find?_some ht'
      have : t' = q := by
        by_cases h : t' = q
        · exact h
        · have := hsame t' h; rw [hgood t' hmem] at this; rw [this] at hbt'; cases hbt'
      subst this
      have hf' : e.stepTrace.find? bad' = some t' := by rw [hl, List.find?_append, ht']; rfl
      obtain ⟨e2, h2⟩ := hT'.some hf'
      rw [h2]
      intro h; cases h; exact hne rfl
    · -- the query that raised is flipped
      have : q = t := by simpa using hq
      subst this
      have hbq' : bad' q = false := by cases h : bad' q <;> simp_all
      cases hf' : e.stepTrace.find? bad' with
      | none =>
        obtain ⟨h3, _⟩ := hT'.none hf'
        rw [h3]; exact liftStep'_not_raised _ q
      | some t' =>
        obtain ⟨e2, h2⟩ := hT'.some hf'
        rw [h2]
        intro h; cases h
        have := List.find?_some hf'
        rw [hbq'] at this; cases this

/-! ### `take(n)` / a drain read off the trace of the exception-free run -/

theorem Iter.takeE_trace (bad : Term → Bool) : ∀ (n : Nat) (e : Iter),
    (e.takeE bad n).1 =
      match (e.runT n).flatten.find? bad with
      | some t => .error t
      | none => .ok (e.run n) := by
  intro n
  induction n with
  | zero => intro e; rfl
  | succ n ih =>
    intro e
    have hT := Iter.traceOK bad e
    cases hf : e.stepTrace.find? bad with
    | some t =>
      obtain ⟨e1, h1⟩ := hT.some hf
      simp [Iter.takeE, h1, Iter.runT, List.find?_append, hf]
    | none =>
      obtain ⟨h1, _⟩ := hT.none hf
      cases hs : e.step with
      | mk o e' =>
        rw [hs] at h1
        cases o with
        | none => simp [Iter.takeE, h1, liftStep', Iter.runT, hs, hf, Iter.run_succ]
        | some x =>
          have := ih e'
          simp only [Iter.takeE, h1, liftStep', Iter.runT, hs, List.flatten_cons, List.find?_append, hf, Option.none_or,
            Iter.run_succ]
          cases hk : e'.takeE bad n with
          | mk r e'' =>
            rw [hk] at this
            simp only at this
            cases hfr : (e'.runT n).flatten.find? bad with
            | none => rw [hfr] at this; simp only at this; subst this; rfl
            | some t => rw [hfr] at this; simp only at this; subst this; rfl

/-- the oracle does not raise on anything the exception-free run computes: same run, and the log is the trace -/
theorem Iter.drain_trace (bad : Term → Bool) : ∀ (n : Nat) (e : Iter), (e.runT n).flatten.find? bad = none →
    e.drainS bad n = ((e.runS n).1.map .item, (e.runS n).2) ∧ e.drainQ bad n = e.runT n := by
  intro n
  induction n with
  | zero => intro e _; exact ⟨rfl, rfl⟩
  | succ n ih =>
    intro e h
    simp only [Iter.runT, List.flatten_cons, List.find?_append, Option.or_eq_none_iff] at h
    obtain ⟨hf, hr⟩ := h
    obtain ⟨h1, h2⟩ := (Iter.traceOK bad e).none hf
    cases hs : e.step with
    | mk o e' =>
      rw [hs] at h1 hr
      cases o with
      | none => simp [Iter.drainS, Iter.drainQ, Iter.runS, Iter.runT, h1, h2, hs, liftStep']
      | some x =>
        obtain ⟨h3, h4⟩ := ih e' hr
        simp [Iter.drainS, Iter.drainQ, Iter.runS, Iter.runT, h1, h2, hs, liftStep', h3, h4]

/-! ### scripts of reads -/

theorem Iter.drainE_take (bad : Term → Bool) : ∀ (k n : Nat) (e : Iter), k ≤ n →
    (e.drainE bad n).take k = e.drainE bad k := by
  intro k
  induction k with
  | zero => intro n e _; simp
  | succ k ih =>
    intro n e h
    obtain ⟨n', rfl⟩ : ∃ n', n = n' + 1 := ⟨n - 1, by omega⟩
    cases hs : e.stepE bad with
    | mk o e' =>
      cases o with
      | stop => rw [Iter.drainE_stop bad n' hs, Iter.drainE_stop bad k hs]; rfl
      | item x => rw [Iter.drainE_item bad n' hs, Iter.drainE_item bad k hs, List.take_succ_cons, ih n' e' (by omega)]
      | raised t => rw [Iter.drainE_raised bad n' hs, Iter.drainE_raised bad k hs, List.take_succ_cons, ih n' e' (by omega)]

theorem takeUsed_le : ∀ (l : List Out), takeUsed l ≤ l.length := by
  intro l
  induction l with
  | nil => simp [takeUsed]
  | cons o r ih => cases o <;> simp [takeUsed] <;> omega

/-- the Stream after a `take(k)` that did not meet the end of the data -/
theorem Iter.takeE_state' (bad : Term → Bool) : ∀ (k : Nat) (e : Iter),
    ReadOut.metEnd (.take k) (.took (takeOuts (e.drainE bad k))) = false → ∀ m,
    ((e.takeE bad k).2).drainE bad m = (e.drainE bad (takeUsed (e.drainE bad k) + m)).drop (takeUsed (e.drainE bad k)) := by
  intro k
  induction k with
  | zero => intro e _ m; simp [Iter.takeE, takeUsed]
  | succ k ih =>
    intro e hend m
    cases hs : e.stepE bad with
    | mk o e' =>
      cases o with
      | stop => rw [Iter.drainE_stop bad k hs] at hend; simp [takeOuts, ReadOut.metEnd] at hend
      | raised t =>
        rw [Iter.drainE_raised bad k hs]
        simp only [Iter.takeE, hs, takeUsed]
        rw [Nat.add_comm 1 m, Iter.drainE_raised bad m hs]
        simp
      | item x =>
        rw [Iter.drainE_item bad k hs] at hend ⊢
        simp only [takeUsed]
        have h1 : (e.takeE bad (k + 1)).2 = (e'.takeE bad k).2 := by
          simp only [Iter.takeE, hs]
          cases h : (e'.takeE bad k) with
          | mk r e'' => cases r <;> rfl
        have hend' : ReadOut.metEnd (.take k) (.took (takeOuts (e'.drainE bad k))) = false := by
          simp only [takeOuts] at hend
          cases h : takeOuts (e'.drainE bad k) with
          | error t => rfl
          | ok xs => rw [h] at hend; simpa [ReadOut.metEnd] using hend
        rw [h1, ih e' hend' m, show takeUsed (e'.drainE bad k) + 1 + m = (takeUsed (e'.drainE bad k) + m) + 1 by omega,
          Iter.drainE_item bad _ hs]
        simp

/-! #### `peek(k)` -/

theorem Iter.takeE_succ_item (bad : Term → Bool) {e e' : Iter} {x : Term} (k : Nat) (hs : e.stepE bad = (.item x, e')) :
    (e.takeE bad (k + 1)).2 = (e'.takeE bad k).2 := by
  simp only [Iter.takeE, hs]
  cases h : (e'.takeE bad k) with
  | mk r e'' => cases r <;> rfl

theorem Iter.peekE_outs (bad : Term → Bool) : ∀ (k : Nat) (acc : List Term) (e : Iter),
    (e.peekE bad k acc).1 =
      (match takeOuts (e.drainE bad k) with
       | .ok xs => .ok (acc ++ xs)
       | .error t => .error t) ∧
    (e.peekE bad k acc).2 = .chain (.list 0 (acc ++ itemTerms (e.drainE bad k))) (e.takeE bad k).2 := by
  intro k
  induction k with
  | zero => intro acc e; simp [Iter.peekE, takeOuts, itemTerms, Iter.takeE]
  | succ k ih =>
    intro acc e
    cases hs : e.stepE bad with
    | mk o e' =>
      cases o with
      | stop => rw [Iter.drainE_stop bad k hs]; simp [Iter.peekE, hs, takeOuts, itemTerms, Iter.takeE]
      | raised t => rw [Iter.drainE_raised bad k hs]; simp [Iter.peekE, hs, takeOuts, itemTerms, Iter.takeE]
      | item x =>
        obtain ⟨h1, h2⟩ := ih (acc ++ [x]) e'
        rw [Iter.drainE_item bad k hs, Iter.takeE_succ_item bad k hs]
        simp only [Iter.peekE, hs, h1, h2, takeOuts, itemTerms]
        constructor
        · cases takeOuts (e'.drainE bad k) <;> simp
        · simp

theorem Iter.drainE_buffer (bad : Term → Bool) (L : List Term) (e : Iter) (m : Nat) :
    (Iter.chain (.list 0 L) e).drainE bad (L.length + m) = L.map .item ++ e.drainE bad m := by
  rw [Iter.drainE_chain]
  have h : (Iter.list 0 L).drainE bad (L.length + m) = L.map .item := by
    induction L with
    | nil =>
      cases m with
      | zero => rfl
      | succ m => exact Iter.drainE_stop bad m (e := .list 0 []) (e' := .list 0 []) rfl
    | cons x r ih =>
      rw [show (x :: r).length + m = (r.length + m) + 1 by simp; omega,
        Iter.drainE_item bad _ (e := .list 0 (x :: r)) (e' := .list 0 r) (x := x) rfl, ih]
      rfl
  rw [h]
  simp

theorem takeUsed_le_items : ∀ (l : List Out), takeUsed l ≤ (itemTerms l).length + 1 := by
  intro l
  induction l with
  | nil => simp [takeUsed]
  | cons o r ih => cases o <;> simp [takeUsed, itemTerms] <;> omega

theorem Iter.script_outs (bad : Term → Bool) : ∀ (rs : List Read) (e : Iter) (n : Nat), readsCost rs ≤ n →
    untilEnd rs (e.script bad rs).1 = scriptOuts rs (e.drainE bad n) := by
  intro rs
  induction rs with
  | nil => intro e n _; rfl
  | cons r rs ih =>
    intro e n hn
    cases r with
    | next =>
      simp only [readsCost, Read.cost] at hn
      obtain ⟨n', rfl⟩ : ∃ n', n = n' + 1 := ⟨n - 1, by omega⟩
      cases hs : e.stepE bad with
      | mk o e' =>
        cases o with
        | stop => rw [Iter.drainE_stop bad n' hs]; simp [Iter.script, hs, untilEnd, ReadOut.metEnd, scriptOuts]
        | item x =>
          rw [Iter.drainE_item bad n' hs]
          simp [Iter.script, hs, untilEnd, ReadOut.metEnd, scriptOuts, ih e' n' (by omega)]
        | raised t =>
          rw [Iter.drainE_raised bad n' hs]
          simp [Iter.script, hs, untilEnd, ReadOut.metEnd, scriptOuts, ih e' n' (by omega)]
    | take k =>
      simp only [readsCost, Read.cost] at hn
      have hk : k ≤ n := by omega
      have htake := Iter.drainE_take bad k n e hk
      simp only [Iter.script, untilEnd, scriptOuts, htake, Iter.takeE_outs]
      cases hend : ReadOut.metEnd (.take k) (.took (takeOuts (e.drainE bad k))) with
      | true => simp
      | false =>
        have hu : takeUsed (e.drainE bad k) ≤ k := Nat.le_trans (takeUsed_le _) (Iter.drainE_length_le bad k e)
        have hst := Iter.takeE_state' bad k e hend (n - takeUsed (e.drainE bad k))
        rw [show takeUsed (e.drainE bad k) + (n - takeUsed (e.drainE bad k)) = n by omega] at hst
        simp only [Bool.false_eq_true, if_false]
        rw [← hst, ih _ (n - takeUsed (e.drainE bad k)) (by omega)]
    | peek k =>
      simp only [readsCost, Read.cost] at hn
      have hk : k ≤ n := by omega
      have htake := Iter.drainE_take bad k n e hk
      obtain ⟨hp1, hp2⟩ := Iter.peekE_outs bad k [] e
      have hp1' : (e.peekE bad k []).1 = takeOuts (e.drainE bad k) := by
        rw [hp1]; cases takeOuts (e.drainE bad k) <;> simp
      simp only [Iter.script, untilEnd, scriptOuts, htake, hp1']
      cases hend : ReadOut.metEnd (.peek k) (.took (takeOuts (e.drainE bad k))) with
      | true => simp
      | false =>
        have hend' : ReadOut.metEnd (.take k) (.took (takeOuts (e.drainE bad k))) = false := by
          cases h : takeOuts (e.drainE bad k) with
          | error t => rfl
          | ok xs => rw [h] at hend; simpa [ReadOut.metEnd] using hend
        have hu : takeUsed (e.drainE bad k) ≤ k := Nat.le_trans (takeUsed_le _) (Iter.drainE_length_le bad k e)
        have hu2 := takeUsed_le_items (e.drainE bad k)
        have hst := Iter.takeE_state' bad k e hend' (n - takeUsed (e.drainE bad k))
        rw [show takeUsed (e.drainE bad k) + (n - takeUsed (e.drainE bad k)) = n by omega] at hst
        simp only [Bool.false_eq_true, if_false]
        rw [← hst, ih _ ((itemTerms (e.drainE bad k)).length + (n - takeUsed (e.drainE bad k))) (by omega), hp2]
        simp only [List.nil_append]
        rw [Iter.drainE_buffer]

theorem Iter.takeE_congr (bad bad' : Term → Bool) : ∀ (k : Nat) (e : Iter),
    (∀ q ∈ e.drainQ bad k, ∀ t ∈ q, bad' t = bad t) → e.takeE bad' k = e.takeE bad k := by
  intro k
  induction k with
  | zero => intro e _; rfl
  | succ k ih =>
    intro e h
    obtain ⟨h1, _⟩ := Iter.stepE_congr bad bad' e (h _ (by simp [Iter.drainQ]))
    cases hs : e.stepE bad with
    | mk o e' =>
      cases o with
      | stop => simp [Iter.takeE, h1, hs]
      | raised t => simp [Iter.takeE, h1, hs]
      | item x =>
        have h3 := ih e' (fun q hq => h q (by simp [Iter.drainQ, hs, hq]))
        simp [Iter.takeE, h1, hs, h3]

/-! ### the lookup API: string keys of `lookupK` / `getOpsK` are `allLookup` / `getOps` -/

theorem OpMethod.keysK_str (o : OpMethod) (k : Name) : o.keysK.contains (.str k) = o.keys.contains k := by
  cases hr : o.rev <;> simp [OpMethod.keysK, OpMethod.keys, hr]

theorem lookupK_str (ops : List OpMethod) (k : Name) : lookupK ops (.str k) = allLookup ops k := by
  simp only [lookupK, allLookup, OpMethod.keysK_str]

theorem mapM_lookupK_str (ops : List OpMethod) : ∀ (ks : List Name),
    (ks.map OpKey.str).mapM (lookupK ops) = ks.mapM (allLookup ops) := by
  intro ks
  induction ks with
  | nil => rfl
  | cons k r ih => simp only [List.map_cons, List.mapM_cons, lookupK_str, ih]

theorem getOpsK_str (ops : List OpMethod) (keys without : List Name) :
    getOpsK ops (keys.map .str) (without.map .str) = getOps ops keys without := by
  simp only [getOpsK, getOps, mapM_lookupK_str]

/-! ### `OpMethod.get` in general: the entries filed under the keys, minus those under `without` -/

theorem lookupK_eq (ops : List OpMethod) (k : OpKey) :
    lookupK ops k = if OpMethod.under ops k = [] then none else some (OpMethod.under ops k) := by
  unfold lookupK OpMethod.under
  cases h : ops.filter (fun o => o.keysK.contains k) <;> simp

theorem mapM_lookupK_some (ops : List OpMethod) : ∀ (ks : List OpKey), (∀ k ∈ ks, OpMethod.under ops k ≠ []) →
    ks.mapM (lookupK ops) = some (ks.map (OpMethod.under ops)) := by
  intro ks
  induction ks with
  | nil => intro _; rfl
  | cons k r ih =>
    intro h
    have h1 := h k List.mem_cons_self
    rw [List.mapM_cons, lookupK_eq, if_neg h1, ih (fun k hk => h k (List.mem_cons_of_mem _ hk))]
    rfl

theorem mapM_lookupK_none (ops : List OpMethod) : ∀ (ks : List OpKey), (∃ k ∈ ks, OpMethod.under ops k = []) →
    ks.mapM (lookupK ops) = none := by
  intro ks
  induction ks with
  | nil => intro ⟨k, hk, _⟩; simp at hk
  | cons k r ih =>
    intro ⟨k', hk', h0⟩
    rw [List.mapM_cons, lookupK_eq]
    by_cases h1 : OpMethod.under ops k = []
    · simp [h1]
    · rcases List.mem_cons.mp hk' with rfl | hk'
      · exact absurd h0 h1
      · rw [if_neg h1, ih ⟨k', hk', h0⟩]; rfl

theorem getOpsK_some (ops : List OpMethod) (keys without : List OpKey)
    (h : ∀ k ∈ keys ++ without, OpMethod.under ops k ≠ []) :
    getOpsK ops keys without =
      some ((keys.flatMap (OpMethod.under ops)).filter fun o => !(without.any fun k => o.keysK.contains k)) := by
  unfold getOpsK
  rw [mapM_lookupK_some ops without (fun k hk => h k (List.mem_append_right _ hk)),
    mapM_lookupK_some ops keys (fun k hk => h k (List.mem_append_left _ hk))]
  simp only [Option.bind_eq_bind, Option.bind_some, Option.pure_def, Option.some.injEq, List.flatMap_def]
  apply List.filter_congr
  intro o ho
  congr 1
  obtain ⟨l, hl, hol⟩ := List.mem_flatten.mp ho
  obtain ⟨k, _, rfl⟩ := List.mem_map.mp hl
  have hops : o ∈ ops := (List.mem_filter.mp hol).1
  rw [Bool.eq_iff_iff]
  simp only [List.contains_iff_mem, List.mem_flatten, List.mem_map, List.any_eq_true]
  constructor
  · rintro ⟨l', ⟨k', hk', rfl⟩, ho'⟩
    exact ⟨k', hk', by simpa using (List.mem_filter.mp ho').2⟩
  · rintro ⟨k', hk', hc⟩
    exact ⟨_, ⟨k', hk', rfl⟩, List.mem_filter.mpr ⟨hops, by simpa using hc⟩⟩

theorem getOpsK_none (ops : List OpMethod) (keys without : List OpKey)
    (h : ∃ k ∈ keys ++ without, OpMethod.under ops k = []) : getOpsK ops keys without = none := by
  unfold getOpsK
  obtain ⟨k, hk, h0⟩ := h
  by_cases hw : ∃ k ∈ without, OpMethod.under ops k = []
  · rw [mapM_lookupK_none ops without hw]; rfl
  · have hw' : ∀ k ∈ without, OpMethod.under ops k ≠ [] := fun k hk h => hw ⟨k, hk, h⟩
    rw [mapM_lookupK_some ops without hw']
    rcases List.mem_append.mp hk with hk | hk
    · rw [mapM_lookupK_none ops keys ⟨k, hk, h0⟩]; rfl
    · exact absurd h0 (hw' k hk)
end ALV.C01
