/-
  C07 — the ordered dictionary: lookups, key lists and the representation
  invariant under `set` / `accum` / `ofPairs` / `compact`.  Core Lean only.
-/
import ALV.Model.C07
import ALV.Spec.C07

set_option linter.unusedSectionVars false

namespace ALV.C07
variable {α : Type}

/-! ### `find?`, `keys` -/

@[simp] theorem find?_nil (k : Int) : find? ([] : MPoly α) k = none := rfl

theorem find?_cons (k' : Int) (v : α) (t : MPoly α) (k : Int) :
    find? ((k', v) :: t) k = if k' = k then some v else find? t k := rfl

@[simp] theorem keys_nil : keys ([] : MPoly α) = [] := rfl
@[simp] theorem keys_cons (a : Int × α) (t : MPoly α) : keys (a :: t) = a.1 :: keys t := rfl
@[simp] theorem keys_append (p q : MPoly α) : keys (p ++ q) = keys p ++ keys q := by
  simp [keys]

theorem find?_eq_none {p : MPoly α} {k : Int} : find? p k = none ↔ k ∉ keys p := by
  induction p with
  | nil => simp
  | cons a t ih =>
    obtain ⟨k', v⟩ := a
    simp only [find?_cons, keys_cons, List.mem_cons, not_or]
    by_cases h : k' = k
    · simp [h]
    · simp [h, ih]; exact fun _ e => h e.symm

theorem find?_some_mem {p : MPoly α} {k : Int} {v : α} (h : find? p k = some v) : (k, v) ∈ p := by
  induction p with
  | nil => simp at h
  | cons a t ih =>
    obtain ⟨k', v'⟩ := a
    rw [find?_cons] at h
    by_cases hk : k' = k
    · simp [hk] at h; simp [hk, h]
    · simp [hk] at h; exact List.mem_cons_of_mem _ (ih h)

theorem mem_keys_of_mem {p : MPoly α} {k : Int} {v : α} (h : (k, v) ∈ p) : k ∈ keys p :=
  List.mem_map.2 ⟨(k, v), h, rfl⟩

theorem find?_of_mem {p : MPoly α} (hn : (keys p).Nodup) {k : Int} {v : α} (h : (k, v) ∈ p) :
    find? p k = some v := by
  induction p with
  | nil => simp at h
  | cons a t ih =>
    obtain ⟨k', v'⟩ := a
    simp only [keys_cons, List.nodup_cons] at hn
    rw [find?_cons]
    rcases List.mem_cons.1 h with h | h
    · cases h; simp
    · have : k' ≠ k := fun e => hn.1 (e ▸ mem_keys_of_mem h)
      simp [this, ih hn.2 h]

theorem has_iff {p : MPoly α} {k : Int} : has p k = true ↔ k ∈ keys p := by
  unfold has
  cases h : find? p k with
  | none => simp [find?_eq_none.1 h]
  | some v => simp [mem_keys_of_mem (find?_some_mem h)]

/-! ### `set` -/

theorem find?_set (p : MPoly α) (k : Int) (v : α) (k' : Int) :
    find? (set p k v) k' = if k = k' then some v else find? p k' := by
  induction p with
  | nil => simp [set, find?_cons]
  | cons a t ih =>
    obtain ⟨k0, v0⟩ := a
    by_cases h : k0 = k
    · subst h; simp only [set, if_true, find?_cons]; split <;> rfl
    · simp only [set, h, if_false, find?_cons, ih]
      by_cases h1 : k0 = k'
      · have : k ≠ k' := fun e => h (h1.trans e.symm)
        simp [h1, this]
      · simp [h1]

theorem keys_set (p : MPoly α) (k : Int) (v : α) :
    keys (set p k v) = if k ∈ keys p then keys p else keys p ++ [k] := by
  induction p with
  | nil => simp [set]
  | cons a t ih =>
    obtain ⟨k0, v0⟩ := a
    by_cases h : k0 = k
    · subst h; simp [set]
    · have h' : k ≠ k0 := fun e => h e.symm
      simp only [set, h, if_false, keys_cons, ih, List.mem_cons, h', false_or]
      split <;> simp

theorem nodup_keys_set {p : MPoly α} (h : (keys p).Nodup) (k : Int) (v : α) :
    (keys (set p k v)).Nodup := by
  rw [keys_set]
  split
  · exact h
  · rename_i hk
    rw [List.nodup_append]
    refine ⟨h, by simp, ?_⟩
    intro a ha b hb
    simp at hb
    subst hb
    exact fun e => hk (e ▸ ha)

/-! ### `ofPairs` -/

/-- last binding of `k` in a list of pairs -/
def findLast? : List (Int × α) → Int → Option α
  | [], _ => none
  | (k', v) :: t, k =>
    match findLast? t k with
    | some w => some w
    | none => if k' = k then some v else none

theorem find?_foldl_set (l : List (Int × α)) (d : MPoly α) (k : Int) :
    find? (l.foldl (fun d kv => set d kv.1 kv.2) d) k =
      match findLast? l k with
      | some w => some w
      | none => find? d k := by
  induction l generalizing d with
  | nil => simp [findLast?]
  | cons a t ih =>
    obtain ⟨k', v⟩ := a
    simp only [List.foldl_cons, ih, findLast?]
    cases findLast? t k with
    | some w => rfl
    | none =>
      simp only [find?_set]
      split <;> rfl

theorem find?_ofPairs (l : List (Int × α)) (k : Int) : find? (ofPairs l) k = findLast? l k := by
  unfold ofPairs
  rw [find?_foldl_set]
  cases findLast? l k <;> rfl

theorem nodup_keys_foldl_set (l : List (Int × α)) {d : MPoly α} (h : (keys d).Nodup) :
    (keys (l.foldl (fun d kv => set d kv.1 kv.2) d)).Nodup := by
  induction l generalizing d with
  | nil => exact h
  | cons a t ih => exact ih (nodup_keys_set h _ _)

theorem nodup_keys_ofPairs (l : List (Int × α)) : (keys (ofPairs l)).Nodup :=
  nodup_keys_foldl_set l (by simp)

theorem findLast?_append (a b : List (Int × α)) (k : Int) :
    findLast? (a ++ b) k = match findLast? b k with
      | some w => some w
      | none => findLast? a k := by
  induction a with
  | nil => simp only [List.nil_append, findLast?]; cases findLast? b k <;> rfl
  | cons x t ih =>
    obtain ⟨k', v⟩ := x
    simp only [List.cons_append, findLast?, ih]
    cases findLast? b k <;> rfl

theorem findLast?_eq_find? {l : List (Int × α)} (h : (keys l).Nodup) (k : Int) :
    findLast? l k = find? l k := by
  induction l with
  | nil => rfl
  | cons a t ih =>
    obtain ⟨k', v⟩ := a
    simp only [keys_cons, List.nodup_cons] at h
    simp only [findLast?, find?_cons, ih h.2]
    by_cases hk : k' = k
    · subst hk
      simp [find?_eq_none.2 h.1]
    · simp only [hk, if_false]
      cases find? t k <;> rfl

theorem set_of_not_mem {p : MPoly α} {k : Int} (h : k ∉ keys p) (v : α) : set p k v = p ++ [(k, v)] := by
  induction p with
  | nil => rfl
  | cons a t ih =>
    obtain ⟨k0, v0⟩ := a
    simp only [keys_cons, List.mem_cons, not_or] at h
    have : k0 ≠ k := fun e => h.1 e.symm
    simp [set, this, ih h.2]

theorem foldl_set_of_nodup (l : List (Int × α)) (d : MPoly α) (h : (keys (d ++ l)).Nodup) :
    l.foldl (fun d kv => set d kv.1 kv.2) d = d ++ l := by
  induction l generalizing d with
  | nil => simp
  | cons a t ih =>
    have h1 : a.1 ∉ keys d := by
      simp only [keys_append, keys_cons] at h
      rw [List.nodup_append] at h
      intro hm
      exact h.2.2 _ hm _ (List.mem_cons_self) rfl
    simp only [List.foldl_cons]
    rw [set_of_not_mem h1, ih]
    · simp
    · simpa using h

/-- `OrderedDict(pairs)` of pairs with distinct keys is the list itself -/
theorem ofPairs_of_nodup {l : List (Int × α)} (h : (keys l).Nodup) : ofPairs l = l := by
  unfold ofPairs
  rw [foldl_set_of_nodup l [] (by simpa using h)]
  simp

section Arith
variable [Add α] [Mul α] [Sub α] [Neg α] [Div α] [OfNat α 0] [OfNat α 1] [DecidableEq α]

/-! ### `accum` -/

theorem keys_accum (p : MPoly α) (k : Int) (v : α) :
    keys (accum p k v) = if k ∈ keys p then keys p else keys p ++ [k] := by
  induction p with
  | nil => simp [accum]
  | cons a t ih =>
    obtain ⟨k0, v0⟩ := a
    by_cases h : k0 = k
    · subst h; simp [accum]
    · have h' : k ≠ k0 := fun e => h e.symm
      simp only [accum, h, if_false, keys_cons, ih, List.mem_cons, h', false_or]
      split <;> simp

theorem nodup_keys_accum {p : MPoly α} (h : (keys p).Nodup) (k : Int) (v : α) :
    (keys (accum p k v)).Nodup := by
  rw [keys_accum]
  split
  · exact h
  · rename_i hk
    rw [List.nodup_append]
    refine ⟨h, by simp, ?_⟩
    intro a ha b hb
    simp at hb
    subst hb
    exact fun e => hk (e ▸ ha)

theorem nodup_keys_mulLoop (p q : MPoly α) : (keys (mulLoop p q)).Nodup := by
  unfold mulLoop
  suffices H : ∀ (p : MPoly α) (d : MPoly α), (keys d).Nodup →
      (keys (p.foldl (fun d kv1 => q.foldl
        (fun d kv2 => accum d (kv1.1 + kv2.1) (kv1.2 * kv2.2)) d) d)).Nodup from H p [] (by simp)
  intro p
  induction p with
  | nil => intro d hd; exact hd
  | cons a t ih =>
    intro d hd
    simp only [List.foldl_cons]
    apply ih
    suffices H2 : ∀ (q : MPoly α) (d : MPoly α), (keys d).Nodup →
        (keys (q.foldl (fun d kv2 => accum d (a.1 + kv2.1) (a.2 * kv2.2)) d)).Nodup from H2 q d hd
    intro q
    induction q with
    | nil => intro d hd; exact hd
    | cons b u ihq => intro d hd; exact ihq _ (nodup_keys_accum hd _ _)

/-! ### `compact` and the invariant -/

theorem keys_compact_sublist (p : MPoly α) : (keys (compact p)).Sublist (keys p) := by
  unfold compact keys
  exact List.Sublist.map _ List.filter_sublist

theorem nodup_keys_compact {p : MPoly α} (h : (keys p).Nodup) : (keys (compact p)).Nodup :=
  h.sublist (keys_compact_sublist p)

theorem compact_ne_zero (p : MPoly α) : ∀ kv ∈ compact p, kv.2 ≠ 0 := by
  intro kv h
  have := (List.mem_filter.1 h).2
  simpa using this

theorem wf_compact {p : MPoly α} (h : (keys p).Nodup) : WF (compact p) :=
  ⟨nodup_keys_compact h, compact_ne_zero p⟩

/-- every Poly that leaves a constructor satisfies the invariant, whatever the pairs were -/
theorem wf_mk (l : List (Int × α)) : WF (mk l) := wf_compact (nodup_keys_ofPairs l)

theorem wf_nil : WF ([] : MPoly α) := ⟨by simp, by simp⟩

theorem compact_of_wf {p : MPoly α} (h : WF p) : compact p = p := by
  unfold compact
  rw [List.filter_eq_self]
  intro kv hkv
  simpa using h.2 kv hkv

theorem mk_of_wf {p : MPoly α} (h : WF p) : mk p = p := by
  unfold mk
  rw [ofPairs_of_nodup h.1, compact_of_wf h]

theorem find?_compact {p : MPoly α} (h : (keys p).Nodup) (k : Int) :
    find? (compact p) k = (find? p k).filter (fun v => !decide (v = 0)) := by
  induction p with
  | nil => rfl
  | cons a t ih =>
    obtain ⟨k', v⟩ := a
    simp only [keys_cons, List.nodup_cons] at h
    unfold compact at ih ⊢
    rw [List.filter_cons]
    by_cases hv : v = 0
    · simp only [hv, decide_true, Bool.not_true, Bool.false_eq_true, if_false, find?_cons]
      rw [ih h.2]
      by_cases hk : k' = k
      · subst hk
        simp [find?_eq_none.2 h.1, Option.filter]
      · simp [hk]
    · simp only [hv, decide_false, Bool.not_false, if_true, find?_cons]
      by_cases hk : k' = k
      · simp [hk, hv, Option.filter]
      · simp [hk, ih h.2]

/-! ### WF of every operation (no zero coefficient is ever stored, keys stay distinct) -/

theorem wf_add (p q : MPoly α) : WF (add p q) := wf_mk _
theorem wf_neg (p : MPoly α) : WF (neg p) := wf_mk _
theorem wf_pos (p : MPoly α) : WF (pos p) := wf_mk _
theorem wf_sub (p q : MPoly α) : WF (sub p q) := wf_mk _
theorem wf_mul (p q : MPoly α) : WF (mul p q) := wf_compact (nodup_keys_mulLoop p q)
theorem wf_ofScalar (c : α) : WF (ofScalar c) := wf_mk _
theorem wf_ofList (l : List α) : WF (ofList l) := wf_mk _
theorem wf_X : WF (X : MPoly α) := wf_mk _

theorem wf_powLoop {p : MPoly α} (h : WF p) (m : Nat) : WF (powLoop p m) := by
  cases m with
  | zero => exact h
  | succ m => exact wf_mul _ _

theorem wf_pow {p : MPoly α} (h : WF p) (n : Int) : WF (pow p n) := by
  unfold pow
  split
  · exact wf_ofScalar _
  · split
    · exact wf_nil
    · exact wf_mk _
    · exact wf_powLoop h _

theorem wf_compose (p q : MPoly α) : WF (compose p q) := by
  unfold compose
  apply wf_compact
  suffices H : ∀ (l : MPoly α) (acc : MPoly α), (keys acc).Nodup →
      (keys (l.foldl (fun acc kc => add acc (mul (ofScalar kc.2) (pow q kc.1))) acc)).Nodup from
    H p _ (wf_ofScalar 0).1
  intro l
  induction l with
  | nil => intro acc h; exact h
  | cons a t ih => intro acc _; exact ih _ (wf_add _ _).1

theorem nodup_keys_diffStep (d : MPoly α) : (keys (diffStep d)).Nodup := nodup_keys_ofPairs _

theorem wf_diff (p : MPoly α) (n : Nat) (h : (keys p).Nodup) : WF (diff p n) := by
  unfold diff
  apply wf_compact
  induction n generalizing p with
  | zero => exact h
  | succ n ih => exact ih _ (nodup_keys_diffStep p)

theorem wf_integrate {p ip : MPoly α} (h : integrate p = .ok ip) : WF ip := by
  unfold integrate at h
  split at h
  · cases h
  · cases h; exact wf_mk _

theorem wf_divScalar {p r : MPoly α} {c : α} (h : divScalar p c = .ok r) : WF r := by
  unfold divScalar at h
  split at h
  · cases h; exact wf_nil
  · split at h
    · cases h
    · cases h; exact wf_mk _

theorem wf_divPoly {p q r : MPoly α} (h : divPoly p q = .ok r) : WF r := by
  unfold divPoly at h
  split at h
  · cases h
  · split at h
    · cases h; exact wf_nil
    · split at h
      · cases h
      · cases h; exact wf_mk _
  · cases h

theorem mem_set {p : MPoly α} {k : Int} {v : α} {kv : Int × α} (h : kv ∈ set p k v) :
    kv ∈ p ∨ kv = (k, v) := by
  induction p with
  | nil => simpa [set] using h
  | cons a t ih =>
    obtain ⟨k0, v0⟩ := a
    by_cases hk : k0 = k
    · subst hk
      simp only [set, if_true, List.mem_cons] at h
      rcases h with h | h
      · exact Or.inr h
      · exact Or.inl (List.mem_cons_of_mem _ h)
    · simp only [set, hk, if_false, List.mem_cons] at h
      rcases h with h | h
      · exact Or.inl (h ▸ List.mem_cons_self)
      · rcases ih h with h | h
        · exact Or.inl (List.mem_cons_of_mem _ h)
        · exact Or.inr h

theorem del_sublist (p : MPoly α) (k : Int) : (del p k).Sublist p := by
  induction p with
  | nil => exact List.Sublist.refl _
  | cons a t ih =>
    obtain ⟨k0, v0⟩ := a
    by_cases hk : k0 = k
    · simp only [del, hk, if_true]; exact List.sublist_cons_self _ _
    · simp only [del, hk, if_false]; exact ih.cons_cons _

theorem wf_setItem {p : MPoly α} (h : WF p) (k : Int) (c : α) : WF (setItem p k c) := by
  unfold setItem
  split
  · rename_i hc
    refine ⟨nodup_keys_set h.1 _ _, ?_⟩
    intro kv hkv
    rcases mem_set hkv with h' | h'
    · exact h.2 _ h'
    · subst h'; exact hc
  · split
    · have hs := del_sublist p k
      exact ⟨h.1.sublist (hs.map _), fun kv hkv => h.2 _ (hs.subset hkv)⟩
    · exact h

end Arith
end ALV.C07
