/-
  C02 — the definitions REGENERATED from the source (`ALV/Gen/C02Src.lean`, written by
  `harness/props/c02_tr.py`) are the hand-written model functions.  Core Lean only.
-/
import ALV.Gen.C02Src
import ALV.Lemmas.C02Round
namespace ALV.C02
open ALV

theorem pyTrunc_toNat (r : Rat) : (pyTrunc r).toNat = r.floor.toNat := by
  unfold pyTrunc
  by_cases h : 0 ≤ r
  · rw [if_pos h]
  · rw [if_neg h]
    have h1 : (0 : Int) ≤ (-r).floor := by rw [Rat.le_floor_iff]; push_cast; grind
    have h2 : r.floor < 0 := by rw [Rat.floor_lt_iff]; push_cast; grind
    omega

theorem accept_islice_max0 (z : Int) :
    Sink.accept .islice (pyMax (.int z) (.int 0)) = .ok z.toNat := by
  unfold pyMax
  by_cases h : z < 0
  · have hq : ((z : Int) : Rat) < 0 := by exact_mod_cast h
    have : z.toNat = 0 := by omega
    simp [Num.gt, Num.q, hq, Sink.accept, this]
  · have hq : ¬ ((z : Int) : Rat) < 0 := by
      intro hc; apply h; exact_mod_cast hc
    simp [Num.gt, Num.q, hq, Sink.accept, h]

theorem rintPos_nonneg {r : Rat} (h : 0 < r) : 0 ≤ rintPos r := by
  unfold rintPos; rw [Rat.le_floor_iff]; push_cast; grind

/-- `max(int(round(n)), 0)` handed to `islice` is `roundCount` -/
theorem limit_count_eq (n : Num) : Gen.C02.limit_count.count Gen.C02.limit_sink n = roundCount n := by
  cases n <;>
    simp only [Gen.C02.limit_count, Gen.C02.limit_sink, PE.count, PE.eval, pyRoundV, pyIntV, roundCount,
      bind, Except.bind, pure, Except.pure, accept_islice_max0] <;>
    first | rfl | (rename_i b; cases b <;> rfl)

/-- `xrange(int(round(n)))` runs `roundCount n` times -/
theorem skip_count_eq (n : Num) : Gen.C02.skip_count.count Gen.C02.skip_sink n = roundCount n := by
  cases n <;>
    simp only [Gen.C02.skip_count, Gen.C02.skip_sink, PE.count, PE.eval, pyRoundV, pyIntV, roundCount,
      bind, Except.bind, Sink.accept] <;>
    first | rfl | (rename_i b; cases b <;> rfl)


/-- the statement list of `Stream.take` computes `takeCount` (and `take()` reads one item) -/
theorem take_eq : TProg.run Gen.C02.take = takeModel := by
  funext n
  cases n with
  | none => rfl
  | some v =>
    cases v with
    | int z =>
      simp only [Gen.C02.take, TProg.run, TRet.run, PE.count, PE.eval, bind, Except.bind, pure, Except.pure,
        Num.isInf, Num.isFloat, Num.truthy, takeModel, takeCount, accept_islice_max0]
      rfl
    | bool b => cases b <;> rfl
    | frac q =>
      simp only [Gen.C02.take, TProg.run, TRet.run, PE.count, PE.eval, bind, Except.bind, pure, Except.pure,
        Num.isInf, Num.isFloat, Num.truthy, takeModel, takeCount]
      by_cases h : q < 0
      · simp [pyMax, Num.gt, Num.q, h, Sink.accept]
      · simp [pyMax, Num.gt, Num.q, h, Sink.accept]
    | float q =>
      simp only [Gen.C02.take, TProg.run, TRet.run, PE.count, PE.eval, bind, Except.bind, pure, Except.pure,
        Num.isInf, Num.isFloat, Num.truthy, takeModel, takeCount]
      by_cases h : 0 < q
      · have h0 : (0 : Rat) ≤ q := Rat.le_of_lt h
        simp [Num.gt, Num.q, h, pyRintV, pyRint, h0, accept_islice_max0]
      · simp [Num.gt, Num.q, h, accept_islice_max0]
    | inf neg => cases neg <;> rfl
    | nan => rfl

theorem peek_eq : TProg.run Gen.C02.peek = takeModel := take_eq

/-- `xrange(int(dur + .5))` of both line loops of `attack` is `durCount` -/
theorem dur_count_eq (n : Num) :
    (PE.toInt (.add .arg (.flt (1 / 2)))).count .xrange n = durCount n := by
  cases n with
  | int z =>
    simp only [PE.count, PE.eval, bind, Except.bind, pure, Except.pure, Num.add, Num.isFloat, Bool.or_true,
      if_true, pyIntV, Sink.accept, durCount, durLen, Num.q, pyTrunc_toNat]
    rw [floor_add_half]
  | bool b =>
    cases b
    · show Except.ok (pyTrunc ((0 : Rat) + 1 / 2)).toNat = Except.ok 0
      rw [pyTrunc_toNat]; have := floor_add_half 0; simp at this; simp [this]
    · show Except.ok (pyTrunc ((1 : Rat) + 1 / 2)).toNat = Except.ok 1
      rw [pyTrunc_toNat]; have := floor_add_half 1; simp at this; simp [this]
  | frac q =>
    simp only [PE.count, PE.eval, bind, Except.bind, pure, Except.pure, Num.add, Num.isFloat, Bool.or_true,
      if_true, pyIntV, Sink.accept, durCount, durLen, Num.q, pyTrunc_toNat]
  | float q =>
    simp only [PE.count, PE.eval, bind, Except.bind, pure, Except.pure, Num.add, Num.isFloat, Bool.or_true,
      if_true, pyIntV, Sink.accept, durCount, durLen, Num.q, pyTrunc_toNat]
  | inf neg => rfl
  | nan => rfl

theorem range_map_split {β : Type} (a d : Nat) (h : Nat → β) :
    (List.range (a + d)).map h = (List.range a).map h ++ (List.range d).map (fun j => h (a + j)) := by
  rw [List.range_add, List.map_append, List.map_map]; rfl

/-- the regenerated `attack` stage (two line loops) is `attackS` over the joined line -/
theorem attack_eq {α : Type} (la ld : Nat) (f g : α → Nat → α) :
    Gen.C02.attack la ld f g = attackS (la + ld) (attackLine la f g) := by
  unfold Gen.C02.attack attackS
  congr 1
  funext first s
  cases first
  · rfl
  · simp only [if_true]
    congr 1
    rw [range_map_split]
    congr 1
    · apply List.map_congr_left
      intro i hi
      have : i < la := List.mem_range.1 hi
      simp [attackLine, this]
    · apply List.map_congr_left
      intro j _
      have h1 : ¬ la + j < la := by omega
      have h2 : la + j - la = j := by omega
      simp only [attackLine, if_neg h1, h2]

end ALV.C02
