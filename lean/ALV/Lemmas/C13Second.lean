/-
  C13 — helper lemmas, part 4: second-order sections with denominator
  `1 - 2·R·ct·z⁻¹ + R²·z⁻²` (resonators, gammatone sections).

  With `x = cos ω`:
      |den(e^{jω})|² = ((1+R²)x - 2R·ct)² + (1-R²)²(1-x²)                      (resDenSq)
                     = (1-R²)²(1-ct²) + (2R·x - (1+R²)ct)²                      (resDenSq_alt)
  all-pole resonators   |H|² = g² / |den|²,            g² = (1-R²)²(1-ct²)
  two-zero resonators   |H|² = (1-R²)²(1-x²) / |den|²  (numerator g(1 - z⁻²), g = (1-R²)/2)
-/
import ALV.Lemmas.C13Basic
import Mathlib.Analysis.SpecialFunctions.Sqrt
import Mathlib.Analysis.SpecialFunctions.Exp

set_option linter.unusedSectionVars false
set_option linter.unusedSimpArgs false

namespace ALV.C13
open ALV ALV.TrigField

/-- `|1 - 2R·ct·e^{-jω} + R²·e^{-2jω}|²` as a function of `x = cos ω` -/
noncomputable def resDenSq (R ct x : ℝ) : ℝ :=
  ((1 + R ^ 2) * x - 2 * R * ct) ^ 2 + (1 - R ^ 2) ^ 2 * (1 - x ^ 2)

theorem resDenSq_alt (R ct x : ℝ) :
    resDenSq R ct x = (1 - R ^ 2) ^ 2 * (1 - ct ^ 2) + (2 * R * x - (1 + R ^ 2) * ct) ^ 2 := by
  unfold resDenSq; ring

theorem polyMagSq_resDen (R ct ω : ℝ) :
    polyMagSq [1, -(2 * R * ct), R ^ 2] ω = resDenSq R ct (Real.cos ω) := by
  rw [polyMagSq_three]; unfold resDenSq; ring

theorem resDen_real (R ct : ℝ) : resDen R ct = [1, -(2 * R * ct), R ^ 2] := by
  simp [resDen]

theorem gtDen_real (A f : ℝ) : gtDen A f = [1, -(2 * A * Real.cos f), A ^ 2] := by
  simp [gtDen]

/-- numerator `g·(1 - z⁻²)`: `|g - g e^{-2jω}|² = 4g²(1 - cos²ω)` -/
theorem polyMagSq_twoZeros (g ω : ℝ) :
    polyMagSq [g, 0, -g] ω = 4 * g ^ 2 * (1 - Real.cos ω ^ 2) := by
  rw [polyMagSq_three]; ring

/-! ### `R = exp(-bandwidth/2)` -/

theorem resR_real (bw : ℝ) : resR bw = Real.exp (-(bw / 2)) := by
  simp only [resR, real_exp, half_real]
  congr 1; ring

theorem resR_pos (bw : ℝ) : 0 < Real.exp (-(bw / 2)) := Real.exp_pos _

theorem resR_lt_one (bw : ℝ) (h : 0 < bw) : Real.exp (-(bw / 2)) < 1 := by
  rw [Real.exp_lt_one_iff]; linarith

/-! ### all-pole section `g / den` with `g² = (1-R²)²(1-ct²)` -/

/-- squared magnitude of the all-pole section -/
theorem allPole_magSq (g R ct ω : ℝ) :
    magSq (mk [g] [1, -(2 * R * ct), R ^ 2]) ω = g ^ 2 / resDenSq R ct (Real.cos ω) := by
  rw [magSq_mk, polyMagSq_one, polyMagSq_resDen]

theorem allPole_unit (g R ct ω : ℝ) (hg : g ^ 2 = (1 - R ^ 2) ^ 2 * (1 - ct ^ 2)) (hg0 : g ≠ 0)
    (hω : 2 * R * Real.cos ω = (1 + R ^ 2) * ct) :
    magSq (mk [g] [1, -(2 * R * ct), R ^ 2]) ω = 1 := by
  rw [allPole_magSq, resDenSq_alt, hω, ← hg]
  have : g ^ 2 ≠ 0 := pow_ne_zero 2 hg0
  simp [this]

theorem allPole_le_one (g R ct ω : ℝ) (hg : g ^ 2 = (1 - R ^ 2) ^ 2 * (1 - ct ^ 2)) :
    magSq (mk [g] [1, -(2 * R * ct), R ^ 2]) ω ≤ 1 := by
  rw [allPole_magSq, resDenSq_alt, ← hg]
  apply div_le_one_of_le₀
  · nlinarith [sq_nonneg (2 * R * Real.cos ω - (1 + R ^ 2) * ct)]
  · nlinarith [sq_nonneg (2 * R * Real.cos ω - (1 + R ^ 2) * ct), sq_nonneg g]

/-! ### two-zero section `g(1 - z⁻²) / den`, `g = (1-R²)/2` -/

theorem twoZero_magSq (R ct ω : ℝ) :
    magSq (mk [(1 - R ^ 2) * (1 / 2), 0, -((1 - R ^ 2) * (1 / 2))] [1, -(2 * R * ct), R ^ 2]) ω
      = (1 - R ^ 2) ^ 2 * (1 - Real.cos ω ^ 2) / resDenSq R ct (Real.cos ω) := by
  rw [magSq_mk, polyMagSq_twoZeros, polyMagSq_resDen]
  congr 1; ring

theorem twoZero_unit (R ct ω : ℝ) (hR : R ^ 2 ≠ 1) (hs : Real.cos ω ^ 2 ≠ 1)
    (hω : (1 + R ^ 2) * Real.cos ω = 2 * R * ct) :
    magSq (mk [(1 - R ^ 2) * (1 / 2), 0, -((1 - R ^ 2) * (1 / 2))] [1, -(2 * R * ct), R ^ 2]) ω
      = 1 := by
  rw [twoZero_magSq]
  unfold resDenSq
  rw [hω, sub_self]
  have h1 : (1 - R ^ 2) ≠ 0 := fun h => hR (by linarith)
  have h2 : (1 - Real.cos ω ^ 2) ≠ 0 := fun h => hs (by linarith)
  have : (1 - R ^ 2) ^ 2 * (1 - Real.cos ω ^ 2) ≠ 0 := mul_ne_zero (pow_ne_zero 2 h1) h2
  simp [this]

theorem twoZero_le_one (R ct ω : ℝ) :
    magSq (mk [(1 - R ^ 2) * (1 / 2), 0, -((1 - R ^ 2) * (1 / 2))] [1, -(2 * R * ct), R ^ 2]) ω
      ≤ 1 := by
  rw [twoZero_magSq]
  unfold resDenSq
  have hx : 0 ≤ 1 - Real.cos ω ^ 2 := by nlinarith [Real.sin_sq_add_cos_sq ω, sq_nonneg (Real.sin ω)]
  apply div_le_one_of_le₀
  · nlinarith [sq_nonneg ((1 + R ^ 2) * Real.cos ω - 2 * R * ct)]
  · nlinarith [sq_nonneg ((1 + R ^ 2) * Real.cos ω - 2 * R * ct),
      mul_nonneg (sq_nonneg (1 - R ^ 2)) hx]

/-! ### the four resonator strategies at ℝ -/

/-- `cost` of `resonator.poles_exp` -/
noncomputable def ctPoles (f R : ℝ) : ℝ := Real.cos f * (2 * R) / (1 + R ^ 2)
/-- `cost` of `resonator.z_exp` -/
noncomputable def ctZ (f R : ℝ) : ℝ := Real.cos f * (1 + R ^ 2) / (2 * R)

theorem resonatorPolesExp_eq (f bw : ℝ) :
    resonatorPolesExp f bw =
      let R := Real.exp (-(bw / 2))
      mk [(1 - R ^ 2) * Real.sqrt (1 - ctPoles f R ^ 2)] [1, -(2 * R * ctPoles f R), R ^ 2] := by
  simp only [resonatorPolesExp, resR_real, resDen_real, c1_real, c2_real, sq_real, real_cos,
    real_sqrt, ctPoles]

theorem resonatorFreqPolesExp_eq (f bw : ℝ) :
    resonatorFreqPolesExp f bw =
      let R := Real.exp (-(bw / 2))
      mk [(1 - R ^ 2) * Real.sin f] [1, -(2 * R * Real.cos f), R ^ 2] := by
  simp only [resonatorFreqPolesExp, resR_real, resDen_real, c1_real, sq_real, real_cos, real_sin]

theorem resonatorZExp_eq (f bw : ℝ) :
    resonatorZExp f bw =
      let R := Real.exp (-(bw / 2))
      mk [(1 - R ^ 2) * (1 / 2), 0, -((1 - R ^ 2) * (1 / 2))] [1, -(2 * R * ctZ f R), R ^ 2] := by
  simp only [resonatorZExp, resR_real, resDen_real, c0_real, c1_real, c2_real, half_real, sq_real,
    real_cos, ctZ]

theorem resonatorFreqZExp_eq (f bw : ℝ) :
    resonatorFreqZExp f bw =
      let R := Real.exp (-(bw / 2))
      mk [(1 - R ^ 2) * (1 / 2), 0, -((1 - R ^ 2) * (1 / 2))] [1, -(2 * R * Real.cos f), R ^ 2] := by
  simp only [resonatorFreqZExp, resR_real, resDen_real, c0_real, c1_real, half_real, sq_real,
    real_cos]

/-- `|cost| < 1` for `poles_exp` -/
theorem ctPoles_sq_lt_one (f R : ℝ) (hR0 : 0 < R) (hf : Real.cos f ^ 2 < 1) : ctPoles f R ^ 2 < 1 := by
  unfold ctPoles
  have hd : 0 < 1 + R ^ 2 := by positivity
  rw [div_pow, div_lt_one (by positivity)]
  have h4 : (2 * R) ^ 2 ≤ (1 + R ^ 2) ^ 2 := by nlinarith [sq_nonneg (1 - R ^ 2)]
  have hpos : 0 < (2 * R) ^ 2 := by positivity
  calc (Real.cos f * (2 * R)) ^ 2 = Real.cos f ^ 2 * (2 * R) ^ 2 := by ring
    _ < 1 * (2 * R) ^ 2 := by apply mul_lt_mul_of_pos_right hf hpos
    _ ≤ (1 + R ^ 2) ^ 2 := by linarith

theorem ctPoles_mul (f R : ℝ) : (1 + R ^ 2) * ctPoles f R = 2 * R * Real.cos f := by
  unfold ctPoles
  have hd : (1 + R ^ 2) ≠ 0 := by positivity
  field_simp

theorem ctZ_mul (f R : ℝ) (hR : R ≠ 0) : 2 * R * ctZ f R = (1 + R ^ 2) * Real.cos f := by
  unfold ctZ
  field_simp

theorem cos_sq_lt_one_of_mem (f : ℝ) (h0 : 0 < f) (h1 : f < Real.pi) : Real.cos f ^ 2 < 1 := by
  have hs := Real.sin_pos_of_pos_of_lt_pi h0 h1
  nlinarith [Real.sin_sq_add_cos_sq f]

end ALV.C13
