/-
  C19 — the remaining operation-generic twins of `ALV/Model/C19Float.lean` over the exact
  operations (`fieldOps`): `adsrG`, `attackG`, `slopeG`, `lookupAtG`, `mapRun`, `tableCallG`,
  `mcBranchG` ARE the model of `ALV/Model/C19.lean` resp. the specification.
-/
import ALV.Lemmas.C19Float
import ALV.Lemmas.C19Table

namespace ALV.C19
set_option linter.unusedSectionVars false

/-! ### list glue: reading at most `n` samples of a concatenation of segments -/

theorem take_append_take_left {β : Type} (l1 l2 : List β) (n m : Nat) (h : n ≤ m) :
    (l1.take m ++ l2).take n = (l1 ++ l2).take n := by
  induction l1 generalizing n m with
  | nil => simp
  | cons x l1 ih =>
    cases m with
    | zero => have : n = 0 := by omega
              subst this; simp
    | succ m =>
      cases n with
      | zero => simp
      | succ n => simp [ih n m (by omega)]

theorem take_append_take_right {β : Type} (l1 l2 : List β) (n m : Nat) (h : n ≤ m) :
    (l1 ++ l2.take m).take n = (l1 ++ l2).take n := by
  induction l1 generalizing n with
  | nil => simp [List.take_take, Nat.min_eq_left h]
  | cons x l1 ih =>
    cases n with
    | zero => simp
    | succ n => simp [ih n (by omega)]

theorem take_mid {β : Type} (p q t : List β) (n m : Nat) (h : n ≤ m) :
    (p ++ q.take m ++ t).take n = (p ++ q ++ t).take n := by
  induction p generalizing n with
  | nil => simpa using take_append_take_left q t n m h
  | cons x p ih =>
    cases n with
    | zero => simp
    | succ n => simpa using ih n (by omega)

theorem take_app3 {β : Type} (l1 l2 t : List β) (n : Nat) :
    (l1.take n ++ l2.take n ++ t).take n = (l1 ++ l2 ++ t).take n := by
  rw [take_mid (l1.take n) l2 t n n le_rfl, List.append_assoc, List.append_assoc,
    take_append_take_left l1 (l2 ++ t) n n le_rfl]

theorem take_app4 {β : Type} (l1 l2 l3 l4 : List β) (n : Nat) :
    (l1.take n ++ l2.take n ++ l3.take n ++ l4.take n).take n = (l1 ++ l2 ++ l3 ++ l4).take n := by
  rw [take_append_take_right _ l4 n n le_rfl, take_mid (l1.take n ++ l2.take n) l3 l4 n n le_rfl,
    List.append_assoc (l1.take n ++ l2.take n) l3 l4, take_app3, List.append_assoc (l1 ++ l2)]

section Shapes
variable {K : Type} [Field K] [LinearOrder K] [IsStrictOrderedRing K] [FloorRing K]

@[simp] theorem fieldOps_ceil (a : K) : (fieldOps (α := K)).ceil a = .ok (pyCeil a) := rfl

/-- the guarded slope of today's code: `num / t if t != 0 else 0.` -/
theorem slopeG_field (num t : K) : slopeG fieldOps num t = if t = 0 then 0 else num / t := by
  simp [slopeG]

theorem slopeG_field_of_ne (num t : K) (h : t ≠ 0) : slopeG fieldOps num t = num / t := by
  simp [slopeG, h]

theorem durLen_zero : durLen (0 : K) = 0 := durLen_of_lt_half (by rw [half_eq]; norm_num)

theorem ne_zero_of_durLen_ne {t : K} (h : durLen t ≠ 0) : t ≠ 0 := by
  rintro rfl; exact h durLen_zero

/-- the four segments, with ANY slopes that are the documented ones wherever a segment is not
empty, are the envelope of the specification -/
theorem adsr_segments (dur a d s r ma md mr : K)
    (hma : durLen a ≠ 0 → ma = 1 / a) (hmd : durLen d ≠ 0 → md = (s - 1) / d)
    (hmr : durLen r ≠ 0 → mr = (-s * 1) / r) :
    ((List.range (durLen a)).map fun (i : Nat) => ((i : Int) : K) * ma)
      ++ ((List.range (durLen d)).map fun (i : Nat) => 1 + ((i : Int) : K) * md)
      ++ List.replicate (durLen dur - durLen a - durLen d - durLen r) s
      ++ ((List.range (durLen r)).map fun (i : Nat) => s + ((i : Int) : K) * mr)
    = adsrSpec dur a d s r := by
  unfold adsrSpec
  dsimp only
  generalize durLen dur - durLen a - durLen d - durLen r = S
  generalize durLen a = A at *
  generalize durLen d = D at *
  generalize durLen r = R at *
  rw [map_range_add, map_range_add, map_range_add]
  congr 1
  · congr 1
    · congr 1
      · apply List.map_congr_left
        intro i hi
        have : i < A := List.mem_range.mp hi
        rw [hma (by omega)]
        simp [adsrAt, this, div_eq_mul_inv]
      · apply List.map_congr_left
        intro i hi
        have : i < D := List.mem_range.mp hi
        rw [hmd (by omega)]
        simp only [adsrAt, Nat.not_lt.mpr (Nat.le_add_right A i), if_false,
          Nat.add_lt_add_left this A, if_true, Nat.add_sub_cancel_left, mul_div_assoc]
    · symm
      rw [List.eq_replicate_iff]
      refine ⟨by simp, ?_⟩
      intro x hx
      obtain ⟨i, hi, rfl⟩ := List.mem_map.mp hx
      have : i < S := List.mem_range.mp hi
      have h1 : ¬ (A + D + i < A) := by omega
      have h2 : ¬ (A + D + i < A + D) := by omega
      have h3 : A + D + i < A + D + S := by omega
      simp [adsrAt, h1, h2, h3]
  · apply List.map_congr_left
    intro i hi
    have : i < R := List.mem_range.mp hi
    have h1 : ¬ (A + D + S + i < A) := by omega
    have h2 : ¬ (A + D + S + i < A + D) := by omega
    have h3 : ¬ (A + D + S + i < A + D + S) := by omega
    have h4 : A + D + S + i - A - D - S = i := by omega
    rw [hmr (by omega)]
    simp only [adsrAt, h1, h2, h3, if_false, h4]
    ring

/-- `adsrG` over the exact operations, unfolded: the four segments with the guarded slopes and the
separately truncated lengths, read through `n` samples -/
theorem adsrG_field_unfold (dur a d s r : K) (n : Nat) :
    adsrG fieldOps dur a d s r n =
      ((((List.range (pyInt (a + half)).toNat).map fun (i : Nat) => ((i : Int) : K) * slopeG fieldOps 1 a)
        ++ ((List.range (pyInt (d + half)).toNat).map fun (i : Nat) =>
              1 + ((i : Int) : K) * slopeG fieldOps (s - 1) d)
        ++ List.replicate
            (pyInt (dur + half) - pyInt (a + half) - pyInt (d + half) - pyInt (r + half)).toNat s
        ++ ((List.range (pyInt (r + half)).toNat).map fun (i : Nat) =>
              s + ((i : Int) : K) * slopeG fieldOps (-s * 1) r)).take n, none) := by
  simp only [adsrG, fieldOps_trunc, fieldOps_add, fieldOps_half, fieldOps_mul, fieldOps_ofInt,
    fieldOps_one, fieldOps_sub, fieldOps_neg, Nat.min_comm _ n]
  rw [← take_map_range, ← take_map_range, ← take_map_range, ← List.take_replicate, take_app4]

/-- **twin** where the code of the model (`adsr`, which divides without a guard) yields anything,
`adsrG` over the exact operations yields the same samples -/
theorem adsrG_field_eq_adsr (dur a d s r : K) (n : Nat) (ha : a ≠ 0) (hd : d ≠ 0) (hr : r ≠ 0) :
    ∃ xs, adsr dur a d s r = .ok xs ∧ adsrG fieldOps dur a d s r n = (xs.take n, none) := by
  refine ⟨_, ?_, adsrG_field_unfold dur a d s r n⟩
  have hn : ¬ (a = 0 ∨ d = 0 ∨ r = 0) := by simp [ha, hd, hr]
  simp only [adsr, hn, if_false, slopeG_field_of_ne _ _ ha, slopeG_field_of_ne _ _ hd,
    slopeG_field_of_ne _ _ hr]

/-- today's `adsr` over the exact operations is the specification for all non-negative times,
zero included -/
theorem adsrG_field (dur a d s r : K) (n : Nat) (ha : 0 ≤ a) (hd : 0 ≤ d) (hr : 0 ≤ r) :
    adsrG fieldOps dur a d s r n = ((adsrSpec dur a d s r).take n, none) := by
  rw [adsrG_field_unfold]
  have la := pyInt_half_nonneg ha
  have ld := pyInt_half_nonneg hd
  have lr := pyInt_half_nonneg hr
  have ea := pyInt_half_toNat a
  have ed := pyInt_half_toNat d
  have er := pyInt_half_toNat r
  have edur := pyInt_half_toNat dur
  have els : (pyInt (dur + half) - pyInt (a + half) - pyInt (d + half) - pyInt (r + half)).toNat
      = durLen dur - durLen a - durLen d - durLen r := by omega
  rw [els, ea, ed, er]
  rw [adsr_segments dur a d s r _ _ _
    (fun h => slopeG_field_of_ne _ _ (ne_zero_of_durLen_ne h))
    (fun h => slopeG_field_of_ne _ _ (ne_zero_of_durLen_ne h))
    (fun h => slopeG_field_of_ne _ _ (ne_zero_of_durLen_ne h))]

/-- the two head segments of `attack` with ANY slopes that are the documented ones wherever a
segment is not empty -/
theorem attack_head_segments (a d s0 ma md : K)
    (hma : durLen a ≠ 0 → ma = 1 / a) (hmd : durLen d ≠ 0 → md = (s0 - 1) / d) :
    ((List.range (durLen a)).map fun (i : Nat) => ((i : Int) : K) * ma)
      ++ ((List.range (durLen d)).map fun (i : Nat) => 1 + ((i : Int) : K) * md)
    = (List.range (durLen a + durLen d)).map fun (i : Nat) =>
        if i < durLen a then (((i : Int) : K)) / a
        else 1 + ((((i - durLen a : Nat) : Int) : K)) * (s0 - 1) / d := by
  rw [map_range_add]
  congr 1
  · apply List.map_congr_left
    intro i hi
    have : i < durLen a := List.mem_range.mp hi
    rw [hma (by omega)]
    simp [this, div_eq_mul_inv]
  · apply List.map_congr_left
    intro i hi
    have : i < durLen d := List.mem_range.mp hi
    rw [hmd (by omega)]
    simp only [Nat.not_lt.mpr (Nat.le_add_right (durLen a) i), if_false,
      Nat.add_sub_cancel_left, mul_div_assoc]

theorem attackG_field_sus (a d s0 : K) (s : Arg K) (n : Nat)
    (hs : (match s with | .num x => some x | .strm xs => xs.head?) = some s0) :
    attackG fieldOps a d s n
      = (attackSpec a d s0 (match s with | .num x => List.replicate n x | .strm xs => xs.tail) n, none) := by
  have hh : ∀ t : List K,
      ((List.map (fun (i : Nat) => ((i : Int) : K) * slopeG fieldOps 1 a)
          (List.range (min (pyInt (a + half)).toNat n)) ++
        List.map (fun (i : Nat) => 1 + ((i : Int) : K) * slopeG fieldOps (s0 - 1) d)
          (List.range (min (pyInt (d + half)).toNat n)) ++ t).take n)
      = attackSpec a d s0 t n := by
    intro t
    rw [Nat.min_comm _ n, Nat.min_comm _ n, ← take_map_range, ← take_map_range, take_app3,
      pyInt_half_toNat, pyInt_half_toNat,
      attack_head_segments a d s0 _ _
        (fun h => slopeG_field_of_ne _ _ (ne_zero_of_durLen_ne h))
        (fun h => slopeG_field_of_ne _ _ (ne_zero_of_durLen_ne h))]
    rfl
  rcases s with x | xs
  · simp only [Option.some.injEq] at hs
    subst hs
    simp only [attackG, fieldOps_trunc, fieldOps_add, fieldOps_half, fieldOps_mul, fieldOps_ofInt,
      fieldOps_one, fieldOps_sub, hh]
  · simp only [attackG, hs, fieldOps_trunc, fieldOps_add, fieldOps_half, fieldOps_mul, fieldOps_ofInt,
      fieldOps_one, fieldOps_sub, hh]

/-- today's `attack` over the exact operations is the specification for EVERY attack and decay
time (an empty segment needs no slope) -/
theorem attackG_field_num (a d x : K) (n : Nat) :
    attackG fieldOps a d (.num x) n = (attackSpec a d x (List.replicate n x) n, none) :=
  attackG_field_sus a d x (.num x) n rfl

theorem attackG_field_strm (a d x : K) (xs : List K) (n : Nat) :
    attackG fieldOps a d (.strm (x :: xs)) n = (attackSpec a d x xs n, none) :=
  attackG_field_sus a d x (.strm (x :: xs)) n rfl

/-- **twin** wherever the unguarded model `attack` yields something, `attackG` yields the same -/
theorem attackG_field_eq_attack (a d : K) (s : Arg K) (n : Nat) (ha : a ≠ 0) (hd : d ≠ 0) :
    attackG fieldOps a d s n = match attack a d s n with
      | .ok xs => (xs, none)
      | .error e => ([], some e) := by
  rcases s with x | xs
  · rw [attackG_field_num, attack_num_ok a d x n ha hd]
  · rcases xs with _ | ⟨x, xs⟩
    · simp [attackG, attack]
    · rw [attackG_field_strm, attack_strm_ok a d x xs n ha hd]

end Shapes

/-! ### `TableLookup.__call__` -/
section Table
variable {K : Type} [Field K] [LinearOrder K] [IsStrictOrderedRing K] [FloorRing K]

/-- one oscillator sample: the generic twin over the exact operations is the model's `lookupAt`
(`none` = IndexError) -/
theorem lookupAtG_field (tbl : List K) (idx : K) :
    lookupAtG fieldOps tbl idx = match lookupAt tbl idx with
      | some v => .ok v
      | none => .error "IndexError" := by
  simp only [lookupAtG, lookupAt, fieldOps_trunc, fieldOps_ceil, fieldOps_sub, fieldOps_ofInt,
    fieldOps_add, fieldOps_mul, fieldOps_one]
  cases pyIndex tbl (pyInt idx) <;> cases pyIndex tbl (pyCeil idx - (tbl.length : Int)) <;> rfl

/-- a lazily mapped stream none of whose samples fails is the mapped list -/
theorem mapRun_of_map_some {α β : Type} (f : α → Except String β) (g : α → Option β)
    (hfg : ∀ x, f x = match g x with | some v => .ok v | none => .error "IndexError")
    (e : Option String) : ∀ (xs : List α) (ys : List β), xs.map g = ys.map some →
      mapRun f xs e = (ys, e) := by
  intro xs
  induction xs with
  | nil => intro ys h; cases ys <;> simp_all [mapRun]
  | cons x xs ih =>
    intro ys h
    cases ys with
    | nil => simp at h
    | cons y ys =>
      simp only [List.map_cons, List.cons.injEq] at h
      simp only [mapRun, hfg x, h.1, ih ys h.2, rcons]

/-- the first failing sample ends the lazily mapped stream with its exception -/
theorem mapRun_error {α β : Type} (f : α → Except String β) (xs : List α) (x : α) (zs : List α)
    (e : Option String) (err : String) (ys : List β)
    (hok : List.Forall₂ (fun a b => f a = .ok b) xs ys) (hx : f x = .error err) :
    mapRun f (xs ++ x :: zs) e = (ys, some err) := by
  induction hok with
  | nil => simp [mapRun, hx]
  | cons h _ ih => simp [mapRun, h, ih, rcons]

/-- `TableLookup(tbl, cycles)(freq, phase)`, generic twin over the exact operations: the samples
are the specification (cyclic linear interpolation at the unreduced positions), nothing is raised,
and the positions handed to the table are the model's counter -/
theorem tableCallG_field (tbl : List K) (h : tbl ≠ []) (den : K) (freq phase : Arg K) (n : Nat) :
    tableCallG fieldOps tbl den freq phase n
      = ((tableSpec tbl den freq phase n, none),
         moduloCounter (phase.map ((((tbl.length : Int) : K) / den) * ·)) (.num ((tbl.length : Int) : K))
           (freq.map ((((tbl.length : Int) : K) / den) * ·)) n) := by
  have e := tableCall_eq tbl h den freq phase n
  unfold tableCall at e
  simp only [tableCallG, fieldOps_ofInt, fieldOps_div, fieldOps_mul, mcG_field]
  rw [mapRun_of_map_some (lookupAtG fieldOps tbl) (lookupAt tbl) (lookupAtG_field tbl) none _ _ e]

end Table

/-! ### the path a call takes -/
section Branch
variable {α : Type} [Add α] [Sub α] [Mul α] [Div α] [Neg α] [OfNat α 0] [OfNat α 1]
  [IntCast α] [Floor α] [DecidableEq α] [LT α] [DecidableLT α]

theorem mcBranchG_field (A M S : Arg α) : mcBranchG fieldOps A M S = mcBranch A M S := by
  rcases A with a | ps <;> rcases M with m | ms <;> rcases S with s | ss <;>
    simp only [mcBranchG, mcBranch, fieldOps_isZero, fieldOps_trunc, fieldOps_div, decide_eq_true_eq]

end Branch

end ALV.C19
