/-
  C12 — lemmas that tie the definitions REGENERATED from the source (`ALV/Gen/C12Src.lean`, written by
  `harness/props/c12_tr.py`) to the hand-written model (`ALV/Model/C12.lean`, `ALV/Model/C12Call.lean`).
  Core Lean only.
-/
import ALV.Gen.C12Src
namespace ALV.C12
set_option linter.unusedSectionVars false

section generic
variable {α : Type} [Add α] [Mul α] [Sub α] [Neg α] [Div α] [OfNat α 0] [OfNat α 1]

/-- python's `sum(xn * E(n) for n, xn in enumerate(blk))` is the model's `dftSumFrom` -/
theorem sumEnumFrom_mul (E : Nat → α) :
    ∀ (xs : List α) (n : Nat) (acc : α),
      sumEnumFrom (fun n x => x * E n) n acc xs = dftSumFrom E n acc xs
  | [], _, _ => rfl
  | x :: xs, n, acc => by
    simp only [sumEnumFrom, dftSumFrom]
    exact sumEnumFrom_mul E xs (n + 1) (acc + x * E n)

theorem sumEnum_mul (E : Nat → α) (blk : List α) :
    sumEnum (fun n x => x * E n) blk = dftSum E blk := sumEnumFrom_mul E blk 0 0

/-- `[v / len(blk) for v in (… for f in freqs)]` raises iff the block is empty and there is a frequency -/
theorem divAll_map {φ : Type} (g : φ → α) (freqs : List φ) (d : Nat) :
    divAll (freqs.map g) d =
      if d = 0 ∧ freqs ≠ [] then none else some ((freqs.map g).map fun v => v / natC d) := by
  unfold divAll
  cases freqs <;> simp

theorem Bank.respList_eq_map [DecidableEq α] (w : α) :
    ∀ ms : List (Bank α), Bank.respList w ms = ms.map (Bank.resp w)
  | [] => rfl
  | m :: ms => by simp only [Bank.respList, List.map_cons, Bank.respList_eq_map w ms]

theorem kwGetAll_length {φ : Type} (kw : KwArgs φ) :
    ∀ (ps : List String) (vs : List (Arg φ)), kwGetAll kw ps = some vs → vs.length = ps.length
  | [], vs, h => by simp only [kwGetAll, Option.some.injEq] at h; subst h; rfl
  | p :: ps, vs, h => by
    simp only [kwGetAll] at h
    split at h
    · rename_i v vs' _ h2
      simp only [Option.some.injEq] at h
      subst h
      simp only [List.length_cons, kwGetAll_length kw ps vs' h2]
    · exact absurd h (by simp)

/-- python binds every parameter or raises -/
theorem bindParams_length {φ : Type} (ps : List String) (args : List (Arg φ)) (kw : KwArgs φ)
    (vs : List (Arg φ)) (h : bindParams ps args kw = some vs) : vs.length = ps.length := by
  unfold bindParams at h
  split at h
  · exact absurd h (by simp)
  · rename_i hlen
    split at h
    · exact absurd h (by simp)
    · split at h
      · exact absurd h (by simp)
      · rename_i vs' h2
        simp only [Option.some.injEq] at h
        subst h
        have := kwGetAll_length kw _ vs' h2
        simp only [List.length_append, this, List.length_drop]
        omega

/-- the raw method read from the source (`def freq_response(self, freq)`, frequency = parameter 1) is
the hand-written `rawFreqBy` -/
theorem rawFreqByP_self_freq {φ : Type} (R : φ → Resp α) (leaf : Bool) (args : List (Arg φ))
    (kw : KwArgs φ) : rawFreqByP ["self", "freq"] 1 R leaf args kw = rawFreqBy R leaf args kw := by
  unfold rawFreqByP rawFreqBy
  cases h : bindParams ["self", "freq"] args kw with
  | none => rfl
  | some vs =>
    have hl := bindParams_length _ _ _ _ h
    match vs, hl with
    | [s, fv], _ => rfl

end generic

/-- python's binding of `dft(*args, **kwargs)` with the parameter names of the documented signature is `bindDft` -/
theorem bindDftP_signature {V : Type} (args : List V) (kwargs : List (String × V)) :
    bindDftP (dftSignature.map (·.1)) args kwargs = bindDft args kwargs := rfl

end ALV.C12
