/-
  C20 — basic lemmas: `sumL`, `dot`, `absG`, `lastN`, the filter loop.
-/
import Mathlib.Tactic.Ring
import Mathlib.Tactic.Linarith
import Mathlib.Tactic.FieldSimp
import Mathlib.Algebra.Order.Field.Basic
import ALV.Spec.C20

namespace ALV.C20
variable {K : Type}

section ring
variable [Field K]

@[simp] theorem sumL_nil : sumL ([] : List K) = 0 := rfl
@[simp] theorem sumL_cons (x : K) (l : List K) : sumL (x :: l) = x + sumL l := rfl

theorem sumL_append (l₁ l₂ : List K) : sumL (l₁ ++ l₂) = sumL l₁ + sumL l₂ := by
  induction l₁ with
  | nil => simp
  | cons a t ih => simp [ih, add_assoc]

theorem sumL_reverse (l : List K) : sumL l.reverse = sumL l := by
  induction l with
  | nil => simp
  | cons a t ih => simp [sumL_append, ih, add_comm]

theorem sumL_map_mul (c : K) (l : List K) : sumL (l.map (· * c)) = sumL l * c := by
  induction l with
  | nil => simp
  | cons a t ih => simp [ih, add_mul]

theorem sumL_replicate (n : Nat) (c : K) : sumL (List.replicate n c) = (n : K) * c := by
  induction n with
  | zero => simp
  | succ n ih => simp [List.replicate_succ, ih]; ring

@[simp] theorem dot_nil_left (l : List K) : dot ([] : List K) l = 0 := by
  cases l <;> rfl
@[simp] theorem dot_nil_right (l : List K) : dot l ([] : List K) = 0 := by
  cases l <;> rfl
@[simp] theorem dot_cons (b x : K) (bs xs : List K) :
    dot (b :: bs) (x :: xs) = b * x + dot bs xs := rfl

/-- a constant coefficient list computes `c · Σ` -/
theorem dot_replicate (c : K) : ∀ (n : Nat) (l : List K), l.length = n →
    dot (List.replicate n c) l = c * sumL l
  | 0, l, h => by
    have : l = [] := List.eq_nil_of_length_eq_zero h
    subst this; simp
  | n + 1, [], h => by simp at h
  | n + 1, x :: l, h => by
    have hl : l.length = n := by simpa using h
    simp [List.replicate_succ, dot_replicate c n l hl, mul_add]

/-- coefficients `0, …, 0, c` pick `c ·` the last of `k+1` items -/
theorem dot_zeros_append (c a : K) : ∀ (k : Nat) (l : List K), l.length = k →
    dot (List.replicate k 0 ++ [c]) (l ++ [a]) = c * a
  | 0, l, h => by
    have : l = [] := List.eq_nil_of_length_eq_zero h
    subst this; simp
  | k + 1, [], h => by simp at h
  | k + 1, x :: l, h => by
    have hl : l.length = k := by simpa using h
    simp [List.replicate_succ, dot_zeros_append c a k l hl]

end ring

/-! ### `lastN` -/
section lastN
variable {α : Type}

theorem lastN_length (k : Nat) (l : List α) (h : k ≤ l.length) : (lastN k l).length = k := by
  simp [lastN]; omega

theorem lastN_eq_self (l : List α) : lastN l.length l = l := by simp [lastN]

/-- sliding the window by one item -/
theorem lastN_append_singleton (k : Nat) (l : List α) (x : α) (hk : 0 < k) (h : k ≤ l.length) :
    lastN k (l ++ [x]) = (lastN k l).drop 1 ++ [x] := by
  unfold lastN
  have e : (l ++ [x]).length - k = l.length - k + 1 := by simp; omega
  rw [e, List.drop_append_of_le_length (by omega), List.drop_drop]

/-- the state shift of the filter loop, seen on the reversed window -/
theorem shift_reverse (u : List α) (x : α) :
    (x :: u.reverse).take u.reverse.length = ((u ++ [x]).drop 1).reverse := by
  cases u with
  | nil => simp
  | cons a t => simp

end lastN

/-! ### `absG` is the absolute value -/
section ord
variable [Field K] [LinearOrder K] [IsStrictOrderedRing K]

theorem absG_eq_abs (x : K) : absG x = |x| := by
  unfold absG
  split
  · rw [abs_of_neg ‹_›]
  · rw [abs_of_nonneg (not_lt.mp ‹_›)]

end ord

end ALV.C20
