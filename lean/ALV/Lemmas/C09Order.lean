/-
  C09 — the specification's `maxTo` / `absS` are the maximum and the absolute value of an
  ordered field (so that `gain_spec` can be stated with `|·|`, `≤` and "attained").
-/
import ALV.Lemmas.C09Gain
import Mathlib.Algebra.Order.Field.Basic
import Mathlib.Algebra.Order.AbsoluteValue.Basic
import Mathlib.Tactic.Linarith

namespace ALV.C09
set_option linter.unusedSectionVars false
variable {K : Type} [Field K] [LinearOrder K] [IsStrictOrderedRing K]

theorem absS_eq_abs (x : K) : absS x = |x| := by
  unfold absS
  split
  · rename_i h; exact (abs_of_neg h).symm
  · rename_i h; exact (abs_of_nonneg (le_of_not_gt h)).symm

theorem maxTo_ge (f : Nat → K) : ∀ n j, j < n + 1 → f j ≤ maxTo (n + 1) f := by
  intro n
  induction n with
  | zero => intro j hj; have : j = 0 := by omega
            subst this; exact le_refl _
  | succ n ih =>
    intro j hj
    show f j ≤ (let m := maxTo (n + 1) f; if m < f (n + 1) then f (n + 1) else m)
    by_cases hj' : j < n + 1
    · have := ih j hj'
      dsimp only
      split
      · rename_i hlt; exact le_trans this (le_of_lt hlt)
      · exact this
    · have : j = n + 1 := by omega
      subst this
      dsimp only
      split
      · exact le_refl _
      · rename_i hlt; exact le_of_not_gt hlt

theorem maxTo_attained (f : Nat → K) : ∀ n, ∃ j, j < n + 1 ∧ f j = maxTo (n + 1) f := by
  intro n
  induction n with
  | zero => exact ⟨0, by omega, rfl⟩
  | succ n ih =>
    obtain ⟨j, hj, hf⟩ := ih
    show ∃ j, j < n + 1 + 1 ∧ f j = (let m := maxTo (n + 1) f; if m < f (n + 1) then f (n + 1) else m)
    dsimp only
    split
    · exact ⟨n + 1, by omega, rfl⟩
    · exact ⟨j, by omega, hf⟩

theorem maxTo_eq_first (f : Nat → K) : ∀ n, (∀ j, j < n + 1 → f j ≤ f 0) → maxTo (n + 1) f = f 0 := by
  intro n
  induction n with
  | zero => intro _; rfl
  | succ n ih =>
    intro h
    show (let m := maxTo (n + 1) f; if m < f (n + 1) then f (n + 1) else m) = f 0
    dsimp only
    rw [ih (fun j hj => h j (by omega)), if_neg (not_lt.2 (h (n + 1) (by omega)))]

theorem sumTo_le_card (c : Nat) (f : Nat → K) (h : ∀ i, i < c → f i ≤ 1) : sumTo c f ≤ (c : K) := by
  induction c with
  | zero => simp [sumTo]
  | succ c ih =>
    rw [sumTo, Nat.cast_succ]
    exact add_le_add (ih (fun i hi => h i (by omega))) (h c (by omega))

theorem sumTo_const_one (c : Nat) (f : Nat → K) (h : ∀ i, i < c → f i = 1) : sumTo c f = (c : K) := by
  induction c with
  | zero => simp [sumTo]
  | succ c ih =>
    rw [sumTo, Nat.cast_succ, ih (fun i hi => h i (by omega)), h c (by omega)]

theorem absS_one : absS (1 : K) = 1 := by
  rw [absS_eq_abs, abs_one]

theorem rect_term (size idx : Nat) :
    absS ((List.replicate size (1 : K)).getD idx 0) = if idx < size then 1 else 0 := by
  simp only [List.getD_eq_getElem?_getD, List.getElem?_replicate]
  split
  · simpa using absS_one
  · simpa using absS_zero

/-- the gain used when no window is given, `1/ceil(size/hop)`, is the gain of the rectangular
    window: its largest hop-strided sum is `ceil(size/hop)` -/
theorem maxStrided_rect (size hop : Nat) (h0 : 0 < hop) :
    maxStrided (List.replicate size (1 : K)) hop = (((size + hop - 1) / hop : Nat) : K) := by
  obtain ⟨h', rfl⟩ : ∃ h', hop = h' + 1 := ⟨hop - 1, by omega⟩
  unfold maxStrided
  have hf0 : stridedAbsSum (List.replicate size (1 : K)) (h' + 1) 0 =
      (((size + (h' + 1) - 1) / (h' + 1) : Nat) : K) := by
    unfold stridedAbsSum
    rw [List.length_replicate]
    apply sumTo_const_one
    intro i hi
    rw [rect_term, if_pos]
    have h1 : (size + (h' + 1) - 1) / (h' + 1) * (h' + 1) ≤ size + (h' + 1) - 1 := Nat.div_mul_le_self _ _
    have h2 : (i + 1) * (h' + 1) ≤ (size + (h' + 1) - 1) / (h' + 1) * (h' + 1) :=
      Nat.mul_le_mul_right _ hi
    rw [Nat.add_mul, Nat.one_mul] at h2
    omega
  rw [maxTo_eq_first, hf0]
  intro j _
  rw [hf0]
  unfold stridedAbsSum
  rw [List.length_replicate]
  apply sumTo_le_card
  intro i _
  rw [rect_term]
  split
  · exact le_refl _
  · exact zero_le_one

end ALV.C09
