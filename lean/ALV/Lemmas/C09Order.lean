/-
  C09 — the specification's `maxTo` / `absS` are the maximum and the absolute value of an
  ordered field (so that `gain_spec` can be stated with `|·|`, `≤` and "attained").
-/
import ALV.Lemmas.C09Gain
import Mathlib.Algebra.Order.Field.Basic
import Mathlib.Algebra.Order.AbsoluteValue.Basic

namespace ALV.C09
set_option linter.unusedSectionVars false
variable {K : Type} [Field K] [LinearOrder K] [IsStrictOrderedRing K]

theorem absS_eq_abs (x : K) : absS x = |x| := by
  unfold absS
  split
  · rename_i h; exact (abs_of_neg h).symm
  · rename_i h; exact (abs_of_nonneg (le_of_not_gt h)).symm

theorem maxTo_ge (f : Nat → K) : ∀ n j, j < n + 1 → f j ≤ maxTo (n + 1) f := by
  intro n
  induction n with
  | zero => intro j hj; have : j = 0 := by omega
            subst this; exact le_refl _
  | succ n ih =>
    intro j hj
    show f j ≤ (let m := maxTo (n + 1) f; if m < f (n + 1) then f (n + 1) else m)
    by_cases hj' : j < n + 1
    · have := ih j hj'
      dsimp only
      split
      · rename_i hlt; exact le_trans this (le_of_lt hlt)
      · exact this
    · have : j = n + 1 := by omega
      subst this
      dsimp only
      split
      · exact le_refl _
      · rename_i hlt; exact le_of_not_gt hlt

theorem maxTo_attained (f : Nat → K) : ∀ n, ∃ j, j < n + 1 ∧ f j = maxTo (n + 1) f := by
  intro n
  induction n with
  | zero => exact ⟨0, by omega, rfl⟩
  | succ n ih =>
    obtain ⟨j, hj, hf⟩ := ih
    show ∃ j, j < n + 1 + 1 ∧ f j = (let m := maxTo (n + 1) f; if m < f (n + 1) then f (n + 1) else m)
    dsimp only
    split
    · exact ⟨n + 1, by omega, rfl⟩
    · exact ⟨j, by omega, hf⟩

end ALV.C09
