/-
  C18 — every data chunk made of whole samples is the PCM image of stored integers
  (encode ∘ decode = id), so "the file holding the integers `samples`" ranges over ALL
  well-formed PCM files.  Core Lean only.
-/
import ALV.Lemmas.C18Wav
import ALV.Lemmas.C18Chunks
namespace ALV.C18

theorem leBytes_leValue : ∀ bs : Bytes, leBytes bs.length (leValue bs) = bs := by
  intro bs
  induction bs with
  | nil => rfl
  | cons b bs ih =>
    have hb := b.toNat_lt
    have h1 : ((b.toNat : Int) + 256 * leValue bs) % 256 = (b.toNat : Int) := by omega
    have h2 : ((b.toNat : Int) + 256 * leValue bs) / 256 = leValue bs := by omega
    simp only [List.length_cons, leValue, leBytes, h1, h2, ih, Int.toNat_natCast, UInt8.ofNat_toNat]

theorem leBytes_sub_pow : ∀ (w : Nat) (v : Int), leBytes w (v - 256 ^ w) = leBytes w v := by
  intro w
  induction w with
  | zero => intro v; rfl
  | succ n ih =>
    intro v
    have hp : (256 : Int) ^ (n + 1) = 256 * 256 ^ n := by rw [Int.pow_succ, Int.mul_comm]
    rw [hp]
    generalize hP : (256 : Int) ^ n = P at *
    have h1 : (v - 256 * P) % 256 = v % 256 := by omega
    have h2 : (v - 256 * P) / 256 = v / 256 - P := by omega
    simp only [leBytes, h1, h2]
    rw [ih]

theorem pcmSample_storedValue (bits : Nat) (hb : bits = 8 ∨ bits = 16 ∨ bits = 24 ∨ bits = 32)
    (bs : Bytes) (hl : bs.length = bits / 8) :
    stored bits (storedValue bits bs) ∧ pcmSample bits (storedValue bits bs) = bs := by
  have h0 := leValue_nonneg bs
  have h1 := leValue_lt bs
  have hw : 0 < bits / 8 := by rcases hb with rfl | rfl | rfl | rfl <;> decide
  have hbits : 8 * (bits / 8) = bits := by rcases hb with rfl | rfl | rfl | rfl <;> rfl
  rw [hl, pow256, hbits] at h1
  unfold pcmSample
  rw [← leBytes_eq_twosLE]
  by_cases h8 : bits = 8
  · subst h8
    have : storedValue 8 bs = leValue bs := by simp [storedValue]
    rw [this]
    refine ⟨by simp [stored]; exact ⟨h0, by simpa using h1⟩, ?_⟩
    rw [← hl]; exact leBytes_leValue bs
  · have hsv : storedValue bits bs = toSigned bits (leValue bs) := by simp [storedValue, h8]
    rw [hsv]
    have hr := toSigned_range bits (by omega) _ h0 h1
    refine ⟨by simp [stored, h8]; exact hr, ?_⟩
    unfold toSigned
    split
    · rw [← hl]; exact leBytes_leValue bs
    · have : (2 : Int) ^ bits = 256 ^ (bits / 8) := by rw [pow256, hbits]
      rw [this, leBytes_sub_pow, ← hl]; exact leBytes_leValue bs

/-- decoding a data chunk made of whole samples and re-encoding gives the chunk back -/
theorem pcmData_decode (bits : Nat) (hb : bits = 8 ∨ bits = 16 ∨ bits = 24 ∨ bits = 32) :
    ∀ (k : Nat) (data : Bytes), data.length = k * (bits / 8) →
      ((splitEvery (bits / 8) data).map (storedValue bits)).length = k ∧
      (∀ n ∈ (splitEvery (bits / 8) data).map (storedValue bits), stored bits n) ∧
      pcmData bits ((splitEvery (bits / 8) data).map (storedValue bits)) = data := by
  have hw : 0 < bits / 8 := by rcases hb with rfl | rfl | rfl | rfl <;> decide
  intro k
  induction k with
  | zero =>
    intro data h
    have : data = [] := List.eq_nil_of_length_eq_zero (by simpa using h)
    subst this
    simp [splitEvery_nil, pcmData]
  | succ k ih =>
    intro data h
    have hlen : (data.take (bits / 8)).length = bits / 8 := by
      rw [List.length_take, h, Nat.succ_mul]; omega
    obtain ⟨hk, hst, hd⟩ := ih (data.drop (bits / 8)) (by rw [List.length_drop, h, Nat.succ_mul]; omega)
    obtain ⟨hs, hp⟩ := pcmSample_storedValue bits hb _ hlen
    have hsplit : splitEvery (bits / 8) data =
        data.take (bits / 8) :: splitEvery (bits / 8) (data.drop (bits / 8)) := by
      conv => lhs; rw [← List.take_append_drop (bits / 8) data]
      exact splitEvery_cons_block _ hw _ _ hlen
    rw [hsplit, List.map_cons]
    refine ⟨by simp [hk], ?_, ?_⟩
    · intro n hn
      rcases List.mem_cons.mp hn with rfl | hn
      · exact hs
      · exact hst n hn
    · rw [pcmData_cons, hp, hd, List.take_append_drop]

end ALV.C18
