/-
  C16 — the property clauses for the fused machine `ALV.Model.C16` (`mrun`); `ALV.Props.C16`
  transports them to the generator-level machine `ALV.Model.C16Gen` (`prun`).
-/
import ALV.Lemmas.C16
import ALV.Lemmas.C16Inv
import ALV.Lemmas.C16Batch

namespace ALV.C16
variable {α β : Type}

/-- (fused machine) (central refinement).  For every history — any interleaving of `add` (any rational
delta, any finite data), `next` and assignments to `keep`, from a fresh Streamix with any `keep`
and any zero value, over any item type with a `+` — the generator model shows the caller exactly
what the specification says: every `add` is accepted / rejected alike, every `next` delivers
`zero + Σ` of the items due at that sample of the events whose start time
`max(⌈T_i − 1/2⌉, moment added)` has been reached, starts the same number of events at that
sample, and ends (StopIteration) at the same `next`; after the end nothing revives it. -/
theorem fused_eq_spec [Add α] (zero : α) (keep : Bool) (ops : List (Op α)) :
    (mrun zero (MState.init keep) ops).2 = (srun zero (SState.init keep) ops).2 :=
  (run_sim zero ops _ _ (sim_init keep)).1

/-- (fused machine) (the invariant behind "no drift").  After any history
`count = (samples delivered) + 1/2 − (cumulative time of the events started so far)`, the started
time being the accepted time minus what still waits in `_not_playing`. -/
theorem fused_count_invariant [Add α] (zero : α) (keep : Bool) (ops : List (Op α)) :
    (mrun zero (MState.init keep) ops).1.count =
      (delivered (mrun zero (MState.init keep) ops).2 : Rat) + 1/2 -
        (acceptedTime ops - qsum (mrun zero (MState.init keep) ops).1.notPlaying) := by
  have h0 : CountInv (MState.init keep : MState α) 0 0 := by
    simp [CountInv, MState.init, qsum]
  have := countInv_run zero ops _ 0 0 h0
  simpa [CountInv] using this

/-- (fused machine) a negative delta raises ValueError and leaves the mixer as it was. -/
theorem fused_negative_delta_rejected [Add α] (zero : α) (s : MState α) (d : Rat) (x : List α) (hd : d < 0) :
    mstep zero s (.add d x) = (s, .valueError) := by
  simp [mstep, madd, hd]

/-- … so a rejected `add` anywhere in a history changes no other observation and no state. -/
theorem fused_rejected_add_is_noop [Add α] (zero : α) (s : MState α) (d : Rat) (x : List α) (hd : d < 0)
    (ops : List (Op α)) :
    mrun zero s (.add d x :: ops) = ((mrun zero s ops).1, .valueError :: (mrun zero s ops).2) := by
  simp [mrun, mstep, madd, hd]

/-- (fused machine) (the next sample after any history, in closed form).  Let `s` be the spec's log
after the history `ops` (events with starts `max(⌈T_i − 1/2⌉, moment added)`, `n` samples
delivered).  One more `next` on the *model* raises StopIteration iff the stream had already ended
or keep is off and every event is over (`max_i(start_i + len_i) ≤ n`: nothing playing, nothing
pending); otherwise it delivers `zero + Σ_{start_i ≤ n < start_i+len_i} data_i[n − start_i]`. -/
theorem fused_next_after_history [Add α] (zero : α) (keep : Bool) (ops : List (Op α)) :
    (mrun zero (MState.init keep) (ops ++ [.next])).2 =
      (mrun zero (MState.init keep) ops).2 ++
        [if (srun zero (SState.init keep) ops).1.dead = true ∨
            ((srun zero (SState.init keep) ops).1.keep = false ∧
              mixLength (srun zero (SState.init keep) ops).1.evs ≤ (srun zero (SState.init keep) ops).1.n)
         then .stop
         else outObs zero (srun zero (SState.init keep) ops).1.evs (srun zero (SState.init keep) ops).1.n] := by
  rw [fused_eq_spec, fused_eq_spec, srun_append]
  generalize (srun zero (SState.init keep) ops).1 = s
  simp only [srun, List.append_cancel_left_eq, List.cons.injEq, and_true]
  by_cases hd : s.dead = true
  · rw [sstep_next_dead zero s hd, if_pos (Or.inl hd)]
  · have hd' : s.dead = false := by simpa using hd
    by_cases hstop : s.keep = false ∧ mixLength s.evs ≤ s.n
    · rw [sstep_next_stop zero s hd' ⟨hstop.1, (allDone_iff _ _).2 hstop.2⟩, if_pos (Or.inr hstop)]
    · have h1 : ¬ (s.keep = false ∧ ∀ e ∈ s.evs, e.doneAt s.n) := fun h =>
        hstop ⟨h.1, (allDone_iff _ _).1 h.2⟩
      rw [sstep_next_out zero s hd' h1, if_neg (by rintro (h | h); exact hd h; exact hstop h)]

/-- (fused machine) (termination clause, events added before playback, keep off).  `k` consecutive
`next`s after a batch of events with non-negative deltas deliver exactly the samples
`0 … L−1` of the closed formula and then StopIteration for ever, `L = max_i(start_i + len_i)`
(`L = 0`: the very first `next` stops), `start_i = ⌈T_i − 1/2⌉`. -/
theorem fused_finite_mix_batch [Add α] (zero : α) (evs : List (Rat × List α)) (h : ∀ p ∈ evs, 0 ≤ p.1)
    (k : Nat) :
    (mrun zero (MState.init false) (addOps evs ++ List.replicate k .next)).2 =
      List.replicate evs.length .ok ++
        ((List.range' 0 (min k (mixLength (batchLog 0 0 evs)))).map (outObs zero (batchLog 0 0 evs)) ++
          List.replicate (k - mixLength (batchLog 0 0 evs)) .stop) := by
  rw [fused_eq_spec, srun_append, srun_addOps zero evs _ h]
  rw [srun_nexts_finite zero k _ rfl rfl]
  simp [SState.init]

/-- (fused machine) (keep on): the same batch never ends; past `L` every sample is the zero value. -/
theorem fused_keep_mix_batch [Add α] (zero : α) (evs : List (Rat × List α)) (h : ∀ p ∈ evs, 0 ≤ p.1)
    (k : Nat) :
    (mrun zero (MState.init true) (addOps evs ++ List.replicate k .next)).2 =
      List.replicate evs.length .ok ++ (List.range' 0 k).map (outObs zero (batchLog 0 0 evs)) := by
  rw [fused_eq_spec, srun_append, srun_addOps zero evs _ h]
  rw [srun_nexts_keep zero k _ rfl rfl]
  simp [SState.init]

/-- (fused machine) with keep on and never switched off, no `next` ever raises StopIteration, for any
interleaving of adds and nexts. -/
theorem fused_keep_never_ends [Add α] (zero : α) (ops : List (Op α)) (h : keepOn ops) :
    ∀ o ∈ (mrun zero (MState.init true) ops).2, o ≠ .stop :=
  mrun_keep zero ops _ rfl rfl h

/-- (fused machine) the end is final: if a `next` raised StopIteration, nothing that follows — more
events, more `next`s, switching keep on — ever delivers a sample again. -/
theorem fused_end_is_final [Add α] (zero : α) (m : MState α) (h : (mstep zero m .next).2 = .stop)
    (ops : List (Op α)) :
    ∀ o ∈ (mrun zero (mstep zero m .next).1 ops).2, ∀ v k, o ≠ .out v k :=
  (mrun_ended zero ops _ (mnext_stop_ended zero m h)).2

theorem mrun_length [Add α] (zero : α) : ∀ (ops : List (Op α)) (m : MState α),
    (mrun zero m ops).2.length = ops.length
  | [], _ => rfl
  | op :: ops, m => by simp [mrun, mrun_length zero ops]

theorem mstep_stop_ended [Add α] (zero : α) (m : MState α) (op : Op α)
    (h : (mstep zero m op).2 = .stop) : (mstep zero m op).1.ended = true := by
  cases op with
  | add d x => by_cases hd : d < 0 <;> simp [mstep, madd, hd] at h
  | setKeep b => simp [mstep] at h
  | next => exact mnext_stop_ended zero m h

theorem mrun_last_stop [Add α] (zero : α) : ∀ (ops : List (Op α)) (m : MState α),
    (mrun zero m ops).2.getLast? = some .stop → (mrun zero m ops).1.ended = true
  | [], _, h => by simp [mrun] at h
  | [op], m, h => by
    simp only [mrun, List.getLast?_singleton, Option.some.injEq] at h ⊢
    exact mstep_stop_ended zero m op h
  | op :: op' :: ops, m, h => by
    have ih := mrun_last_stop zero (op' :: ops) (mstep zero m op).1
    simp only [mrun] at h ih ⊢
    rw [List.getLast?_cons_cons] at h
    exact ih h

/-- (fused machine) the end is final, for histories: if the last operation of `a` was a `next`
that raised StopIteration, nothing in a continuation `b` delivers a sample -/
theorem fused_end_is_final_history [Add α] (zero : α) (m : MState α) (a b : List (Op α))
    (h : (mrun zero m a).2.getLast? = some .stop) :
    ∀ o ∈ (mrun zero m (a ++ b)).2.drop a.length, ∀ v k, o ≠ .out v k := by
  rw [mrun_append]
  simp only
  rw [List.drop_left' (mrun_length zero a m)]
  exact (mrun_ended zero b _ (mrun_last_stop zero a m h)).2

/-! ### the containers of a live mixer, read off the log -/

theorem length_filterMap_act {n : Nat} : ∀ (old : List (SEv α)), (∀ e ∈ old, e.start < n) →
    (old.filterMap (act n)).length =
      old.countP (fun e => decide (e.start < n ∧ n ≤ e.start + e.data.length))
  | [], _ => rfl
  | e :: es, h => by
    have he : e.start < n := h e (by simp)
    have ih := length_filterMap_act es (fun e' h' => h e' (by simp [h']))
    by_cases hc : n ≤ e.start + e.data.length
    · have : act n e = some (e.data.drop (n - e.start)) := by
        unfold act; rw [if_pos ⟨by omega, hc⟩]
      simp [this, ih, he, hc]
    · have : act n e = none := by
        unfold act; rw [if_neg (by omega)]
      simp [this, ih, hc]

theorem live_sizes {m : MState α} {s : SState α} (h : Live m s) :
    m.notPlaying.length = s.evs.countP (fun e => decide (s.n ≤ e.start)) ∧
    m.playing.length =
      s.evs.countP (fun e => decide (e.start < s.n ∧ s.n ≤ e.start + e.data.length)) := by
  obtain ⟨_, _, _, old, pend, Tst, hevs, hold, hplay, hq, _⟩ := h
  have hge := queueOK_ge _ _ _ hq
  have hlen := queueOK_length _ _ _ hq
  have c1 : old.countP (fun e => decide (s.n ≤ e.start)) = 0 := by
    rw [List.countP_eq_zero]; intro e he; have := hold e he; simp; omega
  have c2 : pend.countP (fun e => decide (s.n ≤ e.start)) = pend.length := by
    rw [List.countP_eq_length]; intro e he; have := hge e he; simpa using this
  have c3 : pend.countP (fun e => decide (e.start < s.n ∧ s.n ≤ e.start + e.data.length)) = 0 := by
    rw [List.countP_eq_zero]; intro e he; have := hge e he; simp; omega
  rw [hevs, List.countP_append, List.countP_append, c1, c2, c3, hplay, length_filterMap_act old hold, hlen]
  simp

end ALV.C16
