/-
  C13 — helper lemmas, part 6: the comb designs run through the C04 model of the generated filter
  loop realise  y[n] = x[n] + α·y[n-D]  (feedback)  and  y[n] = x[n] + α·x[n-D]  (feedforward).
-/
import ALV.Lemmas.C13Basic
import ALV.Props.C04

set_option linter.unusedSectionVars false
set_option linter.unusedSimpArgs false

namespace ALV.C13
open ALV ALV.TrigField

/-! ### coefficient lists -/

theorem trim_replicate_zero (n : ℕ) : trim (List.replicate n (0 : ℝ)) = [] := by
  induction n with
  | zero => rfl
  | succ n ih => rw [List.replicate_succ, trim_cons_real, ih]; simp

theorem trim_one_zeros (n : ℕ) : trim ((1 : ℝ) :: List.replicate n 0) = [1] := by
  rw [trim_cons_real, trim_replicate_zero]; simp

theorem onePlusDelayed_real (d : ℕ) (v : ℝ) :
    onePlusDelayed (d + 1) v = (1 : ℝ) :: (List.replicate d 0 ++ [v]) := by
  simp [onePlusDelayed]

theorem trim_onePlusDelayed (d : ℕ) (v : ℝ) (hv : v ≠ 0) :
    trim (onePlusDelayed (d + 1) v) = (1 : ℝ) :: (List.replicate d 0 ++ [v]) := by
  rw [onePlusDelayed_real, ← List.cons_append, trim_eq_self _ _ hv]

theorem trim_onePlusDelayed_zero (d : ℕ) :
    trim (onePlusDelayed (d + 1) (0 : ℝ)) = [1] := by
  rw [onePlusDelayed_real]
  have : List.replicate d (0 : ℝ) ++ [0] = List.replicate (d + 1) 0 := by
    rw [List.replicate_succ']
  rw [this, trim_one_zeros]

theorem trim_one : trim [(1 : ℝ)] = [1] := by simp [trim]

/-- `comb.fb(d+1, α)`: numerator `[1]`, denominator `[1, 0, …, 0, -α]` (α ≠ 0) -/
theorem combFb_coefs (d : ℕ) (α : ℝ) (h : α ≠ 0) :
    (combFb (d + 1) α).num = [1] ∧ (combFb (d + 1) α).den = 1 :: (List.replicate d 0 ++ [-α]) := by
  simp only [combFb, mk, c1_real, trim_one, true_and]
  exact trim_onePlusDelayed d (-α) (neg_ne_zero.2 h)

/-- with α = 0 the delayed term is not stored: the identity filter -/
theorem combFb_coefs_zero (d : ℕ) : (combFb (d + 1) (0 : ℝ)).num = [1] ∧ (combFb (d + 1) (0 : ℝ)).den = [1] := by
  simp only [combFb, mk, c1_real, trim_one, true_and, neg_zero]
  exact trim_onePlusDelayed_zero d

theorem combFf_coefs (d : ℕ) (α : ℝ) (h : α ≠ 0) :
    (combFf (d + 1) α).num = 1 :: (List.replicate d 0 ++ [α]) ∧ (combFf (d + 1) α).den = [1] := by
  simp only [combFf, mk, c1_real, trim_one, and_true]
  exact trim_onePlusDelayed d α h

theorem combFf_coefs_zero (d : ℕ) : (combFf (d + 1) (0 : ℝ)).num = [1] ∧ (combFf (d + 1) (0 : ℝ)).den = [1] := by
  simp only [combFf, mk, c1_real, trim_one, and_true]
  exact trim_onePlusDelayed_zero d

/-! ### sums over sparse coefficient lists -/

theorem sigma_eq_zero (n : ℕ) (f : ℕ → ℝ) (h : ∀ k, k < n → f k = 0) : C04.sigma n f = 0 := by
  induction n with
  | zero => rfl
  | succ n ih =>
    rw [C04.sigma, ih (fun k hk => h k (Nat.lt_succ_of_lt hk)), h n (Nat.lt_succ_self n)]
    simp

theorem sigma_shift (n : ℕ) (f : ℕ → ℝ) :
    C04.sigma (n + 1) f = f 0 + C04.sigma n (fun k => f (k + 1)) := by
  induction n with
  | zero => simp [C04.sigma]
  | succ n ih =>
    rw [C04.sigma, ih, C04.sigma]
    ring

theorem getD_zeros_append_lt (d k : ℕ) (v : ℝ) (hk : k < d) :
    (List.replicate d (0 : ℝ) ++ [v]).getD k 0 = 0 := by
  simp [List.getD_eq_getElem?_getD, List.getElem?_append, hk]

theorem getD_zeros_append_eq (d : ℕ) (v : ℝ) :
    (List.replicate d (0 : ℝ) ++ [v]).getD d 0 = v := by
  simp [List.getD_eq_getElem?_getD, List.getElem?_append]

/-- `Σ_{k ≤ d} as_k · g k` for `as = [0, …, 0, v]` is `v · g d` -/
theorem sigma_zeros_append (d : ℕ) (v : ℝ) (g : ℕ → ℝ) :
    C04.sigma (d + 1) (fun k => (List.replicate d (0 : ℝ) ++ [v]).getD k 0 * g k) = v * g d := by
  rw [C04.sigma, sigma_eq_zero, getD_zeros_append_eq]
  · simp
  · intro k hk
    rw [getD_zeros_append_lt d k v hk, zero_mul]

end ALV.C13

namespace ALV.C13
open ALV ALV.TrigField

/-! ### the executable comb specifications are what the difference-equation solver computes -/

theorem dot_zeros_append (d : ℕ) (v : ℝ) (hy : List ℝ) :
    C04.dot (List.replicate d (0 : ℝ) ++ [v]) hy = v * hy.getD d 0 := by
  induction d generalizing hy with
  | zero =>
    cases hy with
    | nil => simp [C04.dot]
    | cons h t => simp [C04.dot]
  | succ d ih =>
    cases hy with
    | nil => simp [C04.dot, List.replicate_succ]
    | cons h t => simp [C04.dot, List.replicate_succ, ih]

theorem getD_takeP (n k : ℕ) (l : List ℝ) (hk : k < n) : (C04.takeP (0 : ℝ) n l).getD k 0 = l.getD k 0 := by
  induction n generalizing k l with
  | zero => omega
  | succ n ih =>
    cases l with
    | nil =>
      cases k with
      | zero => simp [C04.takeP]
      | succ k =>
        have := ih k [] (by omega)
        simp [C04.takeP] at this ⊢
        exact this
    | cons x xs =>
      cases k with
      | zero => simp [C04.takeP]
      | succ k =>
        have := ih k xs (by omega)
        simp [C04.takeP] at this ⊢
        exact this

theorem getD_append_zeros (ys : List ℝ) (n k : ℕ) :
    (ys ++ List.replicate n (0 : ℝ)).getD k 0 = ys.getD k 0 := by
  induction ys generalizing k with
  | nil =>
    simp only [List.nil_append, List.getD_eq_getElem?_getD, List.getElem?_replicate]
    split <;> simp
  | cons y ys ih =>
    cases k with
    | zero => simp
    | succ k => simpa using ih k

theorem getD_of_length_le (l : List ℝ) (k : ℕ) (h : l.length ≤ k) : l.getD k 0 = 0 := by
  rw [List.getD_eq_getElem?_getD, List.getElem?_eq_none h]; rfl

/-- feedback comb, `α ≠ 0`: the unbounded-history solver on `[1] / [1, 0, …, 0, -α]` is the
recursion `y[n] = x[n] + α·y[n-D]` -/
theorem fspec_combFb (d : ℕ) (α : ℝ) (ys hx xs : List ℝ) :
    C04.fspec [1] (List.replicate d 0 ++ [-α]) 1 0 (ys ++ List.replicate (d + 1) 0) hx xs
      = combFbFrom (d + 1) α ys xs := by
  induction xs generalizing ys hx with
  | nil => simp [C04.fspec, combFbFrom]
  | cons x xs ih =>
    rw [C04.fspec, combFbFrom]
    simp only [dot_zeros_append, List.length_singleton, C04.takeP, C04.dot, c0_real]
    rw [getD_append_zeros]
    have hval : (1 * x + 0 - -α * ys.getD d 0) / 1
        = (if d + 1 = 0 ∨ ys.length < d + 1 then x else x + α * ys.getD (d + 1 - 1) 0) := by
      by_cases h : ys.length < d + 1
      · rw [getD_of_length_le ys d (by omega)]
        simp [h]
      · simp [h]
    rw [hval]
    congr 1
    have := ih ((if d + 1 = 0 ∨ ys.length < d + 1 then x else x + α * ys.getD (d + 1 - 1) 0) :: ys) (x :: hx)
    rwa [List.cons_append] at this

/-- feedback comb, `α = 0` (identity filter) -/
theorem fspec_combFb_zero (D : ℕ) (ys hx xs : List ℝ) :
    C04.fspec [1] [] 1 0 ys hx xs = combFbFrom D (0 : ℝ) ys xs := by
  induction xs generalizing ys hx with
  | nil => simp [C04.fspec, combFbFrom]
  | cons x xs ih =>
    rw [C04.fspec, combFbFrom]
    simp only [List.length_singleton, C04.takeP, C04.dot]
    have hval : (1 * x + 0 - 0) / 1
        = (if D = 0 ∨ ys.length < D then x else x + 0 * ys.getD (D - 1) c0) := by
      split <;> simp
    rw [hval]
    congr 1
    exact ih _ _

/-- feedforward comb, `α ≠ 0` -/
theorem fspec_combFf (d : ℕ) (α : ℝ) (hy hx xs : List ℝ) :
    C04.fspec (1 :: (List.replicate d 0 ++ [α])) [] 1 0 hy hx xs = combFfFrom (d + 1) α hx xs := by
  induction xs generalizing hy hx with
  | nil => simp [C04.fspec, combFfFrom]
  | cons x xs ih =>
    rw [C04.fspec, combFfFrom]
    simp only [List.length_cons, List.length_append, List.length_replicate, List.length_singleton,
      C04.takeP, C04.dot, dot_zeros_append, c0_real]
    rw [getD_takeP _ _ _ (by omega)]
    have hval : (1 * x + α * hx.getD d 0 - 0) / 1
        = (if hx.length < d + 1 then x else x + α * (x :: hx).getD (d + 1) 0) := by
      by_cases h : hx.length < d + 1
      · rw [getD_of_length_le hx d (by omega)]
        simp [h]
      · simp [h]
    rw [hval]
    congr 1
    exact ih _ _

theorem fspec_combFf_zero (D : ℕ) (hy hx xs : List ℝ) :
    C04.fspec [1] [] 1 0 hy hx xs = combFfFrom D (0 : ℝ) hx xs := by
  induction xs generalizing hy hx with
  | nil => simp [C04.fspec, combFfFrom]
  | cons x xs ih =>
    rw [C04.fspec, combFfFrom]
    simp only [List.length_singleton, C04.takeP, C04.dot]
    have hval : (1 * x + 0 - 0) / 1
        = (if hx.length < D then x else x + 0 * (x :: hx).getD D c0) := by
      split <;> simp
    rw [hval]
    congr 1
    exact ih _ _

end ALV.C13
