/-
  C13 — helper lemmas, part 6: the comb designs run through the C04 model of the generated filter
  loop realise  y[n] = x[n] + α·y[n-D]  (feedback)  and  y[n] = x[n] + α·x[n-D]  (feedforward).
-/
import ALV.Lemmas.C13Basic
import ALV.Props.C04

set_option linter.unusedSectionVars false
set_option linter.unusedSimpArgs false

namespace ALV.C13
open ALV ALV.TrigField

/-! ### coefficient lists -/

theorem trim_replicate_zero (n : ℕ) : trim (List.replicate n (0 : ℝ)) = [] := by
  induction n with
  | zero => rfl
  | succ n ih => rw [List.replicate_succ, trim_cons_real, ih]; simp

theorem trim_one_zeros (n : ℕ) : trim ((1 : ℝ) :: List.replicate n 0) = [1] := by
  rw [trim_cons_real, trim_replicate_zero]; simp

theorem onePlusDelayed_real (d : ℕ) (v : ℝ) :
    onePlusDelayed (d + 1) v = (1 : ℝ) :: (List.replicate d 0 ++ [v]) := by
  simp [onePlusDelayed]

theorem trim_onePlusDelayed (d : ℕ) (v : ℝ) (hv : v ≠ 0) :
    trim (onePlusDelayed (d + 1) v) = (1 : ℝ) :: (List.replicate d 0 ++ [v]) := by
  rw [onePlusDelayed_real, ← List.cons_append, trim_eq_self _ _ hv]

theorem trim_onePlusDelayed_zero (d : ℕ) :
    trim (onePlusDelayed (d + 1) (0 : ℝ)) = [1] := by
  rw [onePlusDelayed_real]
  have : List.replicate d (0 : ℝ) ++ [0] = List.replicate (d + 1) 0 := by
    rw [List.replicate_succ']
  rw [this, trim_one_zeros]

theorem trim_one : trim [(1 : ℝ)] = [1] := by simp [trim]

/-- `comb.fb(d+1, α)`: numerator `[1]`, denominator `[1, 0, …, 0, -α]` (α ≠ 0) -/
theorem combFb_coefs (d : ℕ) (α : ℝ) (h : α ≠ 0) :
    (combFb (d + 1) α).num = [1] ∧ (combFb (d + 1) α).den = 1 :: (List.replicate d 0 ++ [-α]) := by
  simp only [combFb, mk, c1_real, trim_one, true_and]
  exact trim_onePlusDelayed d (-α) (neg_ne_zero.2 h)

/-- with α = 0 the delayed term is not stored: the identity filter -/
theorem combFb_coefs_zero (d : ℕ) : (combFb (d + 1) (0 : ℝ)).num = [1] ∧ (combFb (d + 1) (0 : ℝ)).den = [1] := by
  simp only [combFb, mk, c1_real, trim_one, true_and, neg_zero]
  exact trim_onePlusDelayed_zero d

theorem combFf_coefs (d : ℕ) (α : ℝ) (h : α ≠ 0) :
    (combFf (d + 1) α).num = 1 :: (List.replicate d 0 ++ [α]) ∧ (combFf (d + 1) α).den = [1] := by
  simp only [combFf, mk, c1_real, trim_one, and_true]
  exact trim_onePlusDelayed d α h

theorem combFf_coefs_zero (d : ℕ) : (combFf (d + 1) (0 : ℝ)).num = [1] ∧ (combFf (d + 1) (0 : ℝ)).den = [1] := by
  simp only [combFf, mk, c1_real, trim_one, and_true]
  exact trim_onePlusDelayed_zero d

/-! ### sums over sparse coefficient lists -/

theorem sigma_eq_zero (n : ℕ) (f : ℕ → ℝ) (h : ∀ k, k < n → f k = 0) : C04.sigma n f = 0 := by
  induction n with
  | zero => rfl
  | succ n ih =>
    rw [C04.sigma, ih (fun k hk => h k (Nat.lt_succ_of_lt hk)), h n (Nat.lt_succ_self n)]
    simp

theorem sigma_shift (n : ℕ) (f : ℕ → ℝ) :
    C04.sigma (n + 1) f = f 0 + C04.sigma n (fun k => f (k + 1)) := by
  induction n with
  | zero => simp [C04.sigma]
  | succ n ih =>
    rw [C04.sigma, ih, C04.sigma]
    ring

theorem getD_zeros_append_lt (d k : ℕ) (v : ℝ) (hk : k < d) :
    (List.replicate d (0 : ℝ) ++ [v]).getD k 0 = 0 := by
  simp [List.getD_eq_getElem?_getD, List.getElem?_append, hk]

theorem getD_zeros_append_eq (d : ℕ) (v : ℝ) :
    (List.replicate d (0 : ℝ) ++ [v]).getD d 0 = v := by
  simp [List.getD_eq_getElem?_getD, List.getElem?_append]

/-- `Σ_{k ≤ d} as_k · g k` for `as = [0, …, 0, v]` is `v · g d` -/
theorem sigma_zeros_append (d : ℕ) (v : ℝ) (g : ℕ → ℝ) :
    C04.sigma (d + 1) (fun k => (List.replicate d (0 : ℝ) ++ [v]).getD k 0 * g k) = v * g d := by
  rw [C04.sigma, sigma_eq_zero, getD_zeros_append_eq]
  · simp
  · intro k hk
    rw [getD_zeros_append_lt d k v hk, zero_mul]

end ALV.C13
