/-
  C04 — from the history form (`fspec`) to the indexed sentence of the property (`DiffEq`):
      a0·y[n] = Σ_k b[k]·x[n−k] − Σ_{k≥1} a[k]·y[n−k],   x[−j] = zero,  y[−k] = mem[k−1]
  and uniqueness of its solution.
-/
import ALV.Lemmas.C04Field

set_option linter.unusedSectionVars false
set_option linter.unusedSimpArgs false
namespace ALV.C04
variable {K : Type} [Field K]

theorem sigma_congr (n : Nat) (f g : Nat → K) (h : ∀ k, k < n → f k = g k) :
    sigma n f = sigma n g := by
  induction n with
  | zero => rfl
  | succ n ih =>
    simp only [sigma]
    rw [ih (fun k hk => h k (by omega)), h n (by omega)]

theorem sigma_succ' (n : Nat) (f : Nat → K) :
    sigma (n + 1) f = f 0 + sigma n (fun k => f (k + 1)) := by
  induction n with
  | zero => simp [sigma]
  | succ n ih =>
    rw [sigma, ih]
    simp only [sigma]
    ring

/-- `dot` as an indexed sum (the shorter second list is read as continued by zeros) -/
theorem dot_eq_sigma (c v : List K) :
    dot c v = sigma c.length (fun k => c.getD k 0 * v.getD k 0) := by
  induction c generalizing v with
  | nil => cases v <;> simp [dot, sigma]
  | cons c cs ih =>
    cases v with
    | nil =>
      simp only [dot, List.length_cons]
      have : sigma (cs.length + 1) (fun k => (c :: cs).getD k 0 * ([] : List K).getD k 0)
          = sigma (cs.length + 1) (fun _ => 0) := sigma_congr _ _ _ (by intro k _; simp)
      rw [this]
      clear this ih
      induction cs.length + 1 with
      | zero => rfl
      | succ n ihn => simp [sigma, ← ihn]
    | cons v vs =>
      simp only [dot, List.length_cons]
      rw [sigma_succ', ih vs]
      simp

theorem takeP_getD (z : K) (n k : Nat) (l : List K) (hk : k < n) :
    (takeP z n l).getD k 0 = l.getD k z := by
  induction n generalizing k l with
  | zero => omega
  | succ n ih =>
    cases l with
    | nil =>
      cases k with
      | zero => simp [takeP]
      | succ k => simp only [takeP, List.getD_cons_succ]; rw [ih k [] (by omega)]; simp
    | cons x xs =>
      cases k with
      | zero => simp [takeP]
      | succ k => simp only [takeP, List.getD_cons_succ]; rw [ih k xs (by omega)]

/-- one step of `fspec`, read at output index `i` -/
theorem fspec_getD (b as : List K) (a0 zero : K) :
    ∀ (xs hy hx : List K) (i : Nat), i < xs.length →
      (fspec b as a0 zero hy hx xs).getD i 0
        = (dot b (takeP zero b.length ((xs.take (i + 1)).reverse ++ hx))
            - dot as (((fspec b as a0 zero hy hx xs).take i).reverse ++ hy)) / a0 := by
  intro xs
  induction xs with
  | nil => intro hy hx i hi; simp at hi
  | cons x xs ih =>
    intro hy hx i hi
    cases i with
    | zero => simp [fspec]
    | succ i =>
      have hi' : i < xs.length := by simpa using hi
      simp only [fspec, List.getD_cons_succ, List.take_succ_cons, List.reverse_cons,
        List.append_assoc, List.singleton_append]
      rw [ih _ _ i hi']

/-- reading the reversed prefix of the input: `x[n-k]`, `zero` before time 0 -/
theorem rev_take_getD (zero : K) (xs : List K) (n k : Nat) (hn : n < xs.length) :
    ((xs.take (n + 1)).reverse ++ ([] : List K)).getD k zero = xAt zero xs ((n : Int) - k) := by
  simp only [List.append_nil, xAt]
  by_cases hk : k ≤ n
  · have h1 : ¬ ((n : Int) - (k : Int) < 0) := by omega
    have h2 : ((n : Int) - (k : Int)).toNat = n - k := by omega
    simp only [h1, if_false, h2]
    simp only [List.getD_eq_getElem?_getD]
    rw [List.getElem?_reverse (by simp; omega)]
    simp only [List.length_take]
    rw [List.getElem?_take_of_lt (by omega)]
    congr 2
    omega
  · have h1 : (n : Int) - (k : Int) < 0 := by omega
    simp only [h1, if_true]
    simp only [List.getD_eq_getElem?_getD]
    rw [List.getElem?_eq_none (by simp; omega)]
    rfl

/-- reading the history of outputs followed by the memory: `y[n-(k+1)]`, `y[-j] = mem[j-1]` -/
theorem hist_getD (zero : K) (mem ys : List K) (n k : Nat) (hn : n ≤ ys.length)
    (hk : k < n + mem.length) :
    ((ys.take n).reverse ++ mem).getD k 0 = yAt zero mem ys ((n : Int) - ((k : Int) + 1)) := by
  simp only [yAt]
  by_cases hkn : k < n
  · have h1 : ¬ ((n : Int) - ((k : Int) + 1) < 0) := by omega
    have h2 : ((n : Int) - ((k : Int) + 1)).toNat = n - (k + 1) := by omega
    simp only [h1, if_false, h2]
    simp only [List.getD_eq_getElem?_getD]
    rw [List.getElem?_append_left (by simp; omega)]
    rw [List.getElem?_reverse (by simp; omega)]
    simp only [List.length_take]
    rw [List.getElem?_take_of_lt (by omega)]
    have h3 : min n ys.length - 1 - k = n - (k + 1) := by omega
    rw [h3, List.getElem?_eq_getElem (by omega)]
    simp
  · have h1 : (n : Int) - ((k : Int) + 1) < 0 := by omega
    have h2 : (-((n : Int) - ((k : Int) + 1))).toNat - 1 = k - n := by omega
    simp only [h1, if_true, h2]
    simp only [List.getD_eq_getElem?_getD]
    rw [List.getElem?_append_right (by simp; omega)]
    simp only [List.length_reverse, List.length_take]
    have h3 : k - min n ys.length = k - n := by omega
    rw [h3, List.getElem?_eq_getElem (by omega)]
    simp

/-- **the solution computed over unbounded histories satisfies the sentence of the property** -/
theorem fspec_diffeq (b as : List K) (a0 zero : K) (mem xs : List K)
    (ha0 : a0 ≠ 0) (hmem : as.length ≤ mem.length) :
    DiffEq b a0 as zero mem xs (fspec b as a0 zero mem [] xs) := by
  refine ⟨fspec_length _ _ _ _ _ _ _, ?_⟩
  intro n hn
  have hlen : (fspec b as a0 zero mem [] xs).length = xs.length := fspec_length _ _ _ _ _ _ _
  have hy : yAt zero mem (fspec b as a0 zero mem [] xs) (n : Int)
      = (fspec b as a0 zero mem [] xs).getD n 0 := by
    have h1 : ¬ ((n : Int) < 0) := by omega
    simp only [yAt, h1, if_false, Int.toNat_natCast, List.getD_eq_getElem?_getD]
    rw [List.getElem?_eq_getElem (by omega)]
    simp
  rw [hy, fspec_getD b as a0 zero xs mem [] n hn, mul_div_cancel₀ _ ha0, dot_eq_sigma, dot_eq_sigma]
  congr 1
  · apply sigma_congr
    intro k hk
    rw [takeP_getD _ _ _ _ hk, rev_take_getD zero xs n k hn]
  · apply sigma_congr
    intro k hk
    rw [hist_getD zero mem _ n k (by omega) (by omega)]

/-- the sentence of the property has at most one solution (`a0 ≠ 0`) -/
theorem diffeq_unique (b as : List K) (a0 zero : K) (mem xs ys ys' : List K) (ha0 : a0 ≠ 0)
    (h : DiffEq b a0 as zero mem xs ys) (h' : DiffEq b a0 as zero mem xs ys') : ys = ys' := by
  obtain ⟨hl, he⟩ := h
  obtain ⟨hl', he'⟩ := h'
  have key : ∀ n, n < xs.length → ∀ j, j ≤ n → ys.getD j zero = ys'.getD j zero := by
    intro n
    induction n with
    | zero =>
      intro hn j hj
      have hj0 : j = 0 := by omega
      subst hj0
      have e1 := he 0 hn
      have e2 := he' 0 hn
      have hs : ∀ k : Nat, yAt zero mem ys ((0 : Nat) - ((k : Int) + 1))
          = yAt zero mem ys' ((0 : Nat) - ((k : Int) + 1)) := by
        intro k
        have : ((0 : Nat) : Int) - ((k : Int) + 1) < 0 := by omega
        simp only [yAt, if_pos this]
      simp only [hs] at e1
      rw [← e2] at e1
      have := mul_left_cancel₀ ha0 e1
      have h0 : ¬ (((0 : Nat) : Int) < 0) := by omega
      simpa only [yAt, if_neg h0, Int.toNat_natCast] using this
    | succ n ih =>
      intro hn j hj
      by_cases hjn : j ≤ n
      · exact ih (by omega) j hjn
      · have hj1 : j = n + 1 := by omega
        subst hj1
        have prev := ih (by omega)
        have e1 := he (n + 1) hn
        have e2 := he' (n + 1) hn
        have hs : ∀ k : Nat, yAt zero mem ys (((n + 1 : Nat) : Int) - ((k : Int) + 1))
            = yAt zero mem ys' (((n + 1 : Nat) : Int) - ((k : Int) + 1)) := by
          intro k
          by_cases hk : (((n + 1 : Nat) : Int) - ((k : Int) + 1)) < 0
          · simp only [yAt, if_pos hk]
          · simp only [yAt, if_neg hk]
            exact prev _ (by omega)
        simp only [hs] at e1
        rw [← e2] at e1
        have := mul_left_cancel₀ ha0 e1
        have h0 : ¬ (((n + 1 : Nat) : Int) < 0) := by omega
        simpa only [yAt, if_neg h0, Int.toNat_natCast] using this
  apply List.ext_getElem (by omega)
  intro j h1 h2
  have := key j (by omega) j (Nat.le_refl _)
  simp only [List.getD_eq_getElem?_getD, List.getElem?_eq_getElem h1, List.getElem?_eq_getElem h2,
    Option.getD_some] at this
  exact this

end ALV.C04
