/-
  C19 — helper lemmas for the histories of mutable `TableLookup` objects.
-/
import ALV.Lemmas.C19Table
import ALV.Lemmas.C19TableOps
import ALV.Model.C19Obj
import ALV.Spec.C19Obj

namespace ALV.C19
set_option linter.unusedSectionVars false

variable {K : Type} [Field K] [LinearOrder K] [IsStrictOrderedRing K] [FloorRing K]

/-- the invariant of the heap: no list is empty, every object's `_table` is a list, and what
    objects and open streams cached as "the length of my table" is the length of the list they
    refer to -/
def WF (h : Heap K) : Prop :=
  (∀ xs ∈ h.lists, xs ≠ []) ∧
  (∀ o ∈ h.objs, o.broken = false ∧ ∃ xs, h.lists[o.tbl]? = some xs ∧ o.len = xs.length) ∧
  (∀ s ∈ h.oscs, (s.dead = false ∧ s.broken = false) ∧ ∃ xs, h.lists[s.tbl]? = some xs ∧ s.len = xs.length)

/-- operations that keep the invariant: everything but an in-place change of a list's length,
    the assignment of something without a length to `table` (and creating an empty list) -/
def HOp.safe : HOp K → Prop
  | .newList xs => xs ≠ []
  | .append _ _ => False
  | .pop _ => False
  | .setTableUnsized _ => False
  | _ => True

def HOp.isUnsizedAssign : HOp K → Prop
  | .setTableUnsized _ => True
  | _ => False

/-- the operation changes list `l` in place -/
def HOp.mutatesList (l : Nat) : HOp K → Prop
  | .setItem l' _ _ => l' = l
  | .append l' _ => l' = l
  | .pop l' => l' = l
  | _ => False

/-- the operation reads stream `s` -/
def HOp.readsStream (s : Nat) : HOp K → Prop
  | .read s' _ => s' = s
  | _ => False

/-- attribute assignments, in-place list operations (everything that is not an allocation or a use) -/
def HOp.isUse : HOp K → Prop
  | .read _ _ | .getitem _ _ | .len _ | .eq _ _ | .table _ => True
  | _ => False

def HOp.isOperator : HOp K → Prop
  | .binary _ _ _ | .scalar _ _ _ _ _ | .neg _ | .normalize _ | .harmonize _ _ => True
  | _ => False

/-! ### small facts -/

theorem lookupAtLen_length (xs : List K) : lookupAtLen xs xs.length = lookupAt xs := rfl

theorem takeOk_map_some (l : List K) : takeOk (l.map some) = (l, false) := by
  induction l with
  | nil => rfl
  | cons x l ih => simp [takeOk, ih]

theorem pySetItem_length (xs ys : List K) (k : ℤ) (v : K) (h : pySetItem xs k v = some ys) :
    ys.length = xs.length := by
  simp only [pySetItem] at h
  split at h
  · cases h; simp
  · split at h
    · cases h; simp
    · cases h

theorem ne_nil_of_length_eq {xs ys : List K} (h : ys.length = xs.length) (hx : xs ≠ []) : ys ≠ [] := by
  intro e; subst e
  exact hx (List.length_eq_zero_iff.mp h.symm)

/-- `__getitem__` (repaired) is the cyclic linear interpolation at every position -/
theorem getItemLen_eq (tbl : List K) (h : tbl ≠ []) (idx : K) :
    getItemLen tbl tbl.length idx = some (interpCyc tbl idx) := by
  have hLn : 0 < tbl.length := List.length_pos_iff.mpr h
  have hL : (0 : ℤ) < (tbl.length : ℤ) := by exact_mod_cast hLn
  have idxOf : ∀ j : ℤ, pyIndex tbl (j.fmod (tbl.length : ℤ))
      = some (tbl.getD (j.fmod (tbl.length : ℤ)).toNat 0) := by
    intro j
    have a0 := Int.fmod_nonneg_of_pos j hL
    have a1 := Int.fmod_lt_of_pos j hL
    exact pyIndex_eq tbl _ _ (by omega) (Or.inl (by omega))
  unfold getItemLen interpCyc
  simp only [pyCeil_eq, floor_def, idxOf]
  by_cases hfr : idx - ((⌊idx⌋ : ℤ) : K) = 0
  · simp [hfr]
  · have hlt : ((⌊idx⌋ : ℤ) : K) < idx := lt_of_le_of_ne (Int.floor_le idx) (fun h => hfr (by linarith))
    have hc : ⌈idx⌉ = ⌊idx⌋ + 1 := by
      rw [Int.ceil_eq_iff]; constructor
      · push_cast; linarith
      · push_cast; exact (Int.lt_floor_add_one idx).le
    rw [hc]

/-- the oscillator as coded, with the right cached length, is the specification -/
theorem osc_read_eq (xs : List K) (h : xs ≠ []) (den : K) (freq phase : Arg K) (pos k : Nat) :
    ((oscPositions xs.length den freq phase (pos + k)).drop pos).map (lookupAtLen xs xs.length)
      = (oscSpec xs den freq phase pos k).map some := by
  rw [lookupAtLen_length, List.map_drop]
  have : (oscPositions xs.length den freq phase (pos + k)).map (lookupAt xs)
      = tableCall xs den freq phase (pos + k) := rfl
  rw [this, tableCall_eq xs h, ← List.map_drop]
  rfl

/-! ### the invariant under the elementary heap updates -/

theorem getElem?_append_some {β : Type} {l : List β} {i : Nat} {x : β} (y : β) (h : l[i]? = some x) :
    (l ++ [y])[i]? = some x := by
  obtain ⟨hi, e⟩ := List.getElem?_eq_some_iff.mp h
  rw [List.getElem?_append_left hi]; exact h

theorem obj?_some {h : Heap K} {i : Nat} {o : TL K} {t : List K} (e : h.obj? i = some (o, t)) :
    h.objs[i]? = some o ∧ h.lists[o.tbl]? = some t := by
  unfold Heap.obj? at e
  split at e
  · cases e
  · next o' ho =>
    split at e
    · cases e
    · split at e
      · cases e
      · next xs hx =>
        cases e
        exact ⟨ho, hx⟩

/-- under the invariant the cached length of an object is the length of its table, which is not empty -/
theorem WF.obj {h : Heap K} (w : WF h) {i : Nat} {o : TL K} {t : List K} (e : h.obj? i = some (o, t)) :
    o.len = t.length ∧ t ≠ [] := by
  obtain ⟨ho, ht⟩ := obj?_some e
  obtain ⟨_, xs, hx, hl⟩ := w.2.1 o (List.mem_of_getElem? ho)
  rw [ht] at hx; cases hx
  exact ⟨hl, w.1 t (List.mem_of_getElem? ht)⟩

theorem WF.obj_of_get {h : Heap K} (w : WF h) {i : Nat} {o : TL K} (ho : h.objs[i]? = some o) :
    ∃ t, h.obj? i = some (o, t) := by
  obtain ⟨hb, xs, hx, _⟩ := w.2.1 o (List.mem_of_getElem? ho)
  exact ⟨xs, by simp [Heap.obj?, ho, hx, hb]⟩

theorem WF.lists_append {h : Heap K} (w : WF h) (xs : List K) (hx : xs ≠ []) :
    WF { h with lists := h.lists ++ [xs] } := by
  obtain ⟨w1, w2, w3⟩ := w
  refine ⟨?_, ?_, ?_⟩
  · intro ys hy
    rcases List.mem_append.mp hy with hy | hy
    · exact w1 _ hy
    · rw [List.mem_singleton] at hy; subst hy; exact hx
  · intro o ho
    obtain ⟨b, ys, e, l⟩ := w2 o ho
    exact ⟨b, ys, getElem?_append_some _ e, l⟩
  · intro s hs
    obtain ⟨d, ys, e, l⟩ := w3 s hs
    exact ⟨d, ys, getElem?_append_some _ e, l⟩

theorem WF.objs_append {h : Heap K} (w : WF h) {l : Nat} {xs : List K} (e : h.lists[l]? = some xs) (c : K) :
    WF { h with objs := h.objs ++ [{ tbl := l, len := xs.length, cycles := c, broken := false }] } := by
  obtain ⟨w1, w2, w3⟩ := w
  refine ⟨w1, ?_, w3⟩
  intro o ho
  rcases List.mem_append.mp ho with ho | ho
  · exact w2 o ho
  · rw [List.mem_singleton] at ho; subst ho; exact ⟨rfl, xs, e, rfl⟩

theorem WF.objs_set {h : Heap K} (w : WF h) (i : Nat) {l : Nat} {xs : List K} (e : h.lists[l]? = some xs) (c : K) :
    WF { h with objs := h.objs.set i { tbl := l, len := xs.length, cycles := c, broken := false } } := by
  obtain ⟨w1, w2, w3⟩ := w
  refine ⟨w1, ?_, w3⟩
  intro o ho
  rcases List.mem_or_eq_of_mem_set ho with ho | ho
  · exact w2 o ho
  · subst ho; exact ⟨rfl, xs, e, rfl⟩

theorem WF.oscs_append {h : Heap K} (w : WF h) {l : Nat} {xs : List K} (e : h.lists[l]? = some xs)
    (den : K) (f p : Arg K) (pos : Nat) :
    WF { h with oscs := h.oscs ++ [{ tbl := l, len := xs.length, den := den, freq := f, phase := p,
                                     pos := pos, dead := false, broken := false }] } := by
  obtain ⟨w1, w2, w3⟩ := w
  refine ⟨w1, w2, ?_⟩
  intro s hs
  rcases List.mem_append.mp hs with hs | hs
  · exact w3 s hs
  · rw [List.mem_singleton] at hs; subst hs; exact ⟨⟨rfl, rfl⟩, xs, e, rfl⟩

theorem WF.oscs_set {h : Heap K} (w : WF h) (i : Nat) {o : Osc K} (ho : h.oscs[i]? = some o) (pos : Nat) :
    WF { h with oscs := h.oscs.set i { o with pos := pos, dead := false, broken := false } } := by
  obtain ⟨w1, w2, w3⟩ := w
  refine ⟨w1, w2, ?_⟩
  intro s hs
  rcases List.mem_or_eq_of_mem_set hs with hs | hs
  · exact w3 s hs
  · subst hs
    obtain ⟨_, xs, e, l⟩ := w3 o (List.mem_of_getElem? ho)
    exact ⟨⟨rfl, rfl⟩, xs, e, l⟩

theorem getElem?_set_some {β : Type} {l : List β} {i j : Nat} {x y : β} (z : β)
    (hi : l[i]? = some x) (hj : l[j]? = some y) :
    (l.set i z)[j]? = some (if i = j then z else y) := by
  obtain ⟨hi', _⟩ := List.getElem?_eq_some_iff.mp hi
  rw [List.getElem?_set]
  by_cases e : i = j
  · subst e; simp [hi']
  · simp [e, hj]

/-- replacing the contents of a list by contents of the same length -/
theorem WF.lists_set {h : Heap K} (w : WF h) {l : Nat} {xs ys : List K} (e : h.lists[l]? = some xs)
    (hl : ys.length = xs.length) : WF { h with lists := h.lists.set l ys } := by
  obtain ⟨w1, w2, w3⟩ := w
  have hx : xs ≠ [] := w1 xs (List.mem_of_getElem? e)
  refine ⟨?_, ?_, ?_⟩
  · intro zs hz
    rcases List.mem_or_eq_of_mem_set hz with hz | hz
    · exact w1 _ hz
    · subst hz; exact ne_nil_of_length_eq hl hx
  · intro o ho
    obtain ⟨b, zs, ez, lz⟩ := w2 o ho
    refine ⟨b, if l = o.tbl then ys else zs, getElem?_set_some ys e ez, ?_⟩
    by_cases c : l = o.tbl
    · subst c; rw [e] at ez; cases ez; simp [hl, lz]
    · simp [c, lz]
  · intro s hs
    obtain ⟨d, zs, ez, lz⟩ := w3 s hs
    refine ⟨d, if l = s.tbl then ys else zs, getElem?_set_some ys e ez, ?_⟩
    by_cases c : l = s.tbl
    · subst c; rw [e] at ez; cases ez; simp [hl, lz]
    · simp [c, lz]

theorem WF.alloc {h : Heap K} (w : WF h) (xs : List K) (hx : xs ≠ []) (c : K) : WF (h.alloc xs c).1 := by
  have w' := w.lists_append xs hx
  have e : ({ h with lists := h.lists ++ [xs] } : Heap K).lists[h.lists.length]? = some xs := by
    simp
  exact w'.objs_append e c

/-! ### every safe operation keeps the invariant -/

theorem zipWith_ne_nil {f : K → K → K} {a b : List K} (ha : a ≠ []) (hb : b ≠ []) :
    List.zipWith f a b ≠ [] := by
  cases a with
  | nil => exact absurd rfl ha
  | cons x a => cases b with
    | nil => exact absurd rfl hb
    | cons y b => simp

theorem tblNormalize_ne_nil {t r : List K} (ht : t ≠ []) (h : tblNormalize t = .ok r) : r ≠ [] := by
  have := (tblNormalize_range t r h).1
  exact ne_nil_of_length_eq this ht

theorem step_WF (denOf : K → K) (h : Heap K) (op : HOp K) (w : WF h) (hs : op.safe) :
    WF (step denOf h op).1 := by
  cases op with
  | newList xs => exact w.lists_append xs hs
  | new l c =>
    simp only [step]
    split
    · exact w
    · next xs e => exact w.objs_append e c
  | setTable i l =>
    simp only [step]
    split
    · next o xs ho e => exact w.objs_set i e o.cycles
    · exact w
  | setTableUnsized i => exact absurd hs id
  | setCycles i c =>
    simp only [step]
    split
    · next o ho =>
      obtain ⟨hb, xs, e, hl⟩ := w.2.1 o (List.mem_of_getElem? ho)
      have := w.objs_set i e c
      rw [← hl, ← hb] at this
      exact this
    · exact w
  | setItem l k v =>
    simp only [step]
    split
    · exact w
    · next xs e =>
      split
      · exact w
      · next ys hy => exact w.lists_set e (pySetItem_length xs ys k v hy)
  | append l v => exact absurd hs id
  | pop l => exact absurd hs id
  | binary op i j =>
    simp only [step]
    split
    · next o1 t1 o2 t2 e1 e2 =>
      split
      · exact w
      · split
        · exact w
        · exact w.alloc _ (zipWith_ne_nil (w.obj e1).2 (w.obj e2).2) _
    · exact w
    · exact w
  | scalar op i x r known =>
    simp only [step]
    split
    · exact w
    · next o t e =>
      split
      · exact w.alloc _ (by simpa [tblScalar] using (w.obj e).2) _
      · exact w
  | neg i =>
    simp only [step]
    split
    · exact w
    · next o t e => exact w.alloc _ (by simpa [tblNeg] using (w.obj e).2) _
  | normalize i =>
    simp only [step]
    split
    · exact w
    · next o t e =>
      split
      · exact w
      · next r hr => exact w.alloc _ (tblNormalize_ne_nil (w.obj e).2 hr) _
  | harmonize i harm =>
    simp only [step]
    split
    · exact w
    · next o t e =>
      refine w.alloc _ ?_ _
      have hl := (w.obj e).1
      have ht := List.length_pos_iff.mpr (w.obj e).2
      intro hnil
      have : (tblHarmonizeLen t o.len harm).length = o.len := by simp [tblHarmonizeLen]
      rw [hnil] at this
      simp at this
      omega
  | call i f p =>
    simp only [step]
    split
    · exact w
    · next o ho =>
      split
      · exact w
      · obtain ⟨hb, xs, e, hl⟩ := w.2.1 o (List.mem_of_getElem? ho)
        have := w.oscs_append e (denOf o.cycles) f p 0
        rw [← hl] at this
        rw [hb]
        exact this
  | read s k =>
    simp only [step]
    split
    · exact w
    · next o ho =>
      obtain ⟨⟨hd, hb⟩, xs, e, hl⟩ := w.2.2 o (List.mem_of_getElem? ho)
      rw [hd, hb]
      simp only [Bool.false_eq_true, if_false]
      rw [e]
      simp only
      have hx : xs ≠ [] := w.1 xs (List.mem_of_getElem? e)
      have key : ((oscPositions o.len o.den o.freq o.phase (o.pos + k)).drop o.pos).map (lookupAtLen xs o.len)
          = (oscSpec xs o.den o.freq o.phase o.pos k).map some := by
        rw [hl]; exact osc_read_eq xs hx _ _ _ _ _
      rw [key, takeOk_map_some]
      exact w.oscs_set s ho _
  | getitem i idx =>
    simp only [step]
    split
    · exact w
    · split <;> exact w
  | len i =>
    simp only [step]
    split <;> exact w
  | eq i j =>
    simp only [step]
    split <;> exact w
  | table i =>
    simp only [step]
    split <;> exact w

theorem runHeap_WF (denOf : K → K) (ops : List (HOp K)) : ∀ (h : Heap K), WF h →
    (∀ op ∈ ops, op.safe) → WF (runHeap denOf h ops) := by
  induction ops with
  | nil => intro h w _; exact w
  | cons op ops ih =>
    intro h w hs
    simp only [runHeap, List.foldl_cons]
    exact ih _ (step_WF denOf h op w (hs op (by simp))) (fun o ho => hs o (by simp [ho]))

/-! ### as coded = as specified, step by step -/

theorem obj?_none_of_objs {h : Heap K} {i : Nat} (e : h.objs[i]? = none) : h.obj? i = none := by
  simp [Heap.obj?, e]

theorem step_eq_specStep (denOf : K → K) (h : Heap K) (op : HOp K) (w : WF h) (hs : op.safe) :
    step denOf h op = specStep denOf h op := by
  cases op with
  | setTableUnsized i => exact absurd hs id
  | read s k =>
    cases ho : h.oscs[s]? with
    | none => simp only [step, specStep, ho]
    | some o =>
      obtain ⟨⟨hd, hb⟩, xs, e, hl⟩ := w.2.2 o (List.mem_of_getElem? ho)
      have hx : xs ≠ [] := w.1 xs (List.mem_of_getElem? e)
      have key : ((oscPositions o.len o.den o.freq o.phase (o.pos + k)).drop o.pos).map (lookupAtLen xs o.len)
          = (oscSpec xs o.den o.freq o.phase o.pos k).map some := by
        rw [hl]; exact osc_read_eq xs hx _ _ _ _ _
      simp only [step, specStep, ho, hd, hb, e, key, takeOk_map_some]
      simp
  | getitem i idx =>
    cases e : h.obj? i with
    | none => simp only [step, specStep, e]
    | some p =>
      obtain ⟨o, t⟩ := p
      simp only [step, specStep, e, (w.obj e).1, getItemLen_eq t (w.obj e).2]
  | len i =>
    cases ho : h.objs[i]? with
    | none => simp only [step, specStep, ho, obj?_none_of_objs ho, Heap.whyNot]
    | some o =>
      obtain ⟨t, e⟩ := w.obj_of_get ho
      simp only [step, specStep, ho, e, (w.obj e).1]
  | binary op i j =>
    cases e1 : h.obj? i with
    | none => simp only [step, specStep, e1]
    | some p1 =>
      obtain ⟨o1, t1⟩ := p1
      cases e2 : h.obj? j with
      | none => simp only [step, specStep, e1, e2]
      | some p2 =>
        obtain ⟨o2, t2⟩ := p2
        simp only [step, specStep, e1, e2, (w.obj e1).1, (w.obj e2).1]
  | harmonize i harm =>
    cases e : h.obj? i with
    | none => simp only [step, specStep, e]
    | some p =>
      obtain ⟨o, t⟩ := p
      simp only [step, specStep, e, (w.obj e).1]
      rfl
  | newList xs => rfl
  | new l c => rfl
  | setTable i l => rfl
  | setCycles i c => rfl
  | setItem l k v => rfl
  | append l v => rfl
  | pop l => rfl
  | scalar op i x r known => rfl
  | neg i => rfl
  | normalize i => rfl
  | call i f p => rfl
  | eq i j => rfl
  | table i => rfl

theorem histModel_eq_histSpec (denOf : K → K) (ops : List (HOp K)) : ∀ (h : Heap K), WF h →
    (∀ op ∈ ops, op.safe) → histModel denOf h ops = histSpec denOf h ops := by
  induction ops with
  | nil => intro h _ _; rfl
  | cons op ops ih =>
    intro h w hs
    simp only [histModel, histSpec]
    rw [← step_eq_specStep denOf h op w (hs op (by simp))]
    rw [ih _ (step_WF denOf h op w (hs op (by simp))) (fun o ho => hs o (by simp [ho]))]

/-! ### a failing step leaves the heap as it was -/

theorem alloc_obs (h : Heap K) (xs : List K) (c : K) : (h.alloc xs c).2 = .ref h.objs.length := rfl

theorem step_err_unchanged (denOf : K → K) (h : Heap K) (op : HOp K) (e : String)
    (hne : ¬ op.isUnsizedAssign) (he : (step denOf h op).2 = .err e) : (step denOf h op).1 = h := by
  cases op <;> simp only [HOp.isUnsizedAssign, not_true_eq_false] at hne <;>
    simp only [step] at he ⊢ <;> (repeat' split) <;> simp_all [Heap.alloc]

/-! ### uses are pure, operators allocate, streams are isolated -/

theorem step_use_pure (denOf : K → K) (h : Heap K) (op : HOp K) (hu : op.isUse) :
    (step denOf h op).1.lists = h.lists ∧ (step denOf h op).1.objs = h.objs := by
  cases op <;> simp only [HOp.isUse] at hu <;> simp only [step] <;> (repeat' split) <;> simp

theorem step_operator_fresh (denOf : K → K) (h : Heap K) (op : HOp K) (ho : op.isOperator) :
    ∃ ls os, (step denOf h op).1.lists = h.lists ++ ls ∧ (step denOf h op).1.objs = h.objs ++ os ∧
      ls.length ≤ 1 ∧ os.length = ls.length ∧ (step denOf h op).1.oscs = h.oscs := by
  cases op <;> simp only [HOp.isOperator] at ho <;> simp only [step] <;> (repeat' split) <;>
    first
      | exact ⟨[_], [_], rfl, rfl, Nat.le_refl 1, rfl, rfl⟩
      | exact ⟨[], [], (List.append_nil _).symm, (List.append_nil _).symm, Nat.zero_le 1, rfl, rfl⟩

theorem read_obs_congr (denOf : K → K) (h h' : Heap K) (s k : Nat) (o : Osc K) (r : Option (List K))
    (ho : h.oscs[s]? = some o) (hx : h.lists[o.tbl]? = r)
    (ho' : h'.oscs[s]? = some o) (hx' : h'.lists[o.tbl]? = r) :
    (step denOf h' (.read s k)).2 = (step denOf h (.read s k)).2 := by
  simp only [step, ho, hx, ho', hx']
  split
  · rfl
  · cases r <;> rfl

theorem getElem?_set_ne' {β : Type} {l : List β} {i j : Nat} (z : β) (hne : i ≠ j) :
    (l.set i z)[j]? = l[j]? := by
  rw [List.getElem?_set]; simp [hne]

/-- an operation that neither changes the stream's list in place nor reads the stream leaves the
    stream, and the list it refers to, as they were -/
theorem step_keeps_stream (denOf : K → K) (h : Heap K) (op : HOp K) {s : Nat} {o : Osc K} {xs : List K}
    (ho : h.oscs[s]? = some o) (hx : h.lists[o.tbl]? = some xs)
    (h1 : ¬ op.mutatesList o.tbl) (h2 : ¬ op.readsStream s) :
    (step denOf h op).1.oscs[s]? = some o ∧ (step denOf h op).1.lists[o.tbl]? = some xs := by
  cases op with
  | setItem l k v =>
    simp only [HOp.mutatesList] at h1
    simp only [step]
    split
    · exact ⟨ho, hx⟩
    · split
      · exact ⟨ho, hx⟩
      · exact ⟨ho, by simp only []; rw [getElem?_set_ne' _ h1]; exact hx⟩
  | append l v =>
    simp only [HOp.mutatesList] at h1
    simp only [step]
    split
    · exact ⟨ho, hx⟩
    · exact ⟨ho, by simp only []; rw [getElem?_set_ne' _ h1]; exact hx⟩
  | pop l =>
    simp only [HOp.mutatesList] at h1
    simp only [step]
    split
    · exact ⟨ho, hx⟩
    · split
      · exact ⟨ho, hx⟩
      · exact ⟨ho, by simp only []; rw [getElem?_set_ne' _ h1]; exact hx⟩
  | read s' k =>
    simp only [HOp.readsStream] at h2
    simp only [step]
    split
    · exact ⟨ho, hx⟩
    · split
      · exact ⟨ho, hx⟩
      · split
        · exact ⟨ho, hx⟩
        · exact ⟨by simp only []; rw [getElem?_set_ne' _ h2]; exact ho, hx⟩
  | newList ys => exact ⟨ho, getElem?_append_some _ hx⟩
  | new l c => simp only [step]; split <;> exact ⟨ho, hx⟩
  | setTable i l => simp only [step]; split <;> exact ⟨ho, hx⟩
  | setTableUnsized i => simp only [step]; split <;> exact ⟨ho, hx⟩
  | setCycles i c => simp only [step]; split <;> exact ⟨ho, hx⟩
  | call i f p =>
    simp only [step]
    split
    · exact ⟨ho, hx⟩
    · split
      · exact ⟨ho, hx⟩
      · exact ⟨getElem?_append_some _ ho, hx⟩
  | getitem i idx => simp only [step]; (repeat' split) <;> exact ⟨ho, hx⟩
  | len i => simp only [step]; split <;> exact ⟨ho, hx⟩
  | eq i j => simp only [step]; split <;> exact ⟨ho, hx⟩
  | table i => simp only [step]; split <;> exact ⟨ho, hx⟩
  | binary op i j =>
    simp only [step]; (repeat' split) <;>
      first | exact ⟨ho, hx⟩ | exact ⟨ho, getElem?_append_some _ hx⟩
  | scalar op i x r known =>
    simp only [step]; (repeat' split) <;>
      first | exact ⟨ho, hx⟩ | exact ⟨ho, getElem?_append_some _ hx⟩
  | neg i =>
    simp only [step]; (repeat' split) <;>
      first | exact ⟨ho, hx⟩ | exact ⟨ho, getElem?_append_some _ hx⟩
  | normalize i =>
    simp only [step]; (repeat' split) <;>
      first | exact ⟨ho, hx⟩ | exact ⟨ho, getElem?_append_some _ hx⟩
  | harmonize i harm =>
    simp only [step]; (repeat' split) <;>
      first | exact ⟨ho, hx⟩ | exact ⟨ho, getElem?_append_some _ hx⟩

theorem runHeap_keeps_stream (denOf : K → K) (ops : List (HOp K)) : ∀ (h : Heap K) {s : Nat} {o : Osc K}
    {xs : List K}, h.oscs[s]? = some o → h.lists[o.tbl]? = some xs →
    (∀ op ∈ ops, ¬ op.mutatesList o.tbl ∧ ¬ op.readsStream s) →
    (runHeap denOf h ops).oscs[s]? = some o ∧ (runHeap denOf h ops).lists[o.tbl]? = some xs := by
  induction ops with
  | nil => intro h s o xs ho hx _; exact ⟨ho, hx⟩
  | cons op ops ih =>
    intro h s o xs ho hx hall
    simp only [runHeap, List.foldl_cons]
    obtain ⟨a, b⟩ := step_keeps_stream denOf h op ho hx (hall op (by simp)).1 (hall op (by simp)).2
    exact ih _ a b (fun o' ho' => hall o' (by simp [ho']))

/-- the samples of `obj(freq, phase)` read right after the call: the specification evaluated on the
    current table and the current `cycles` — nothing else of the heap is looked at -/
theorem call_read_current (denOf : K → K) (h : Heap K) (w : WF h) (i : Nat) (f p : Arg K) (n : Nat)
    (o : TL K) (xs : List K) (e : h.obj? i = some (o, xs)) (hd : denOf o.cycles ≠ 0) :
    (step denOf (step denOf h (.call i f p)).1 (.read h.oscs.length n)).2
      = .samples (tableSpec xs (denOf o.cycles) f p n)
          (if (tableSpec xs (denOf o.cycles) f p n).length < n then "stop" else "fuel") := by
  obtain ⟨ho, hx⟩ := obj?_some e
  obtain ⟨hl, hne⟩ := w.obj e
  have hb : o.broken = false := (w.2.1 o (List.mem_of_getElem? ho)).1
  have key := osc_read_eq xs hne (denOf o.cycles) f p 0 n
  simp only [Nat.zero_add, List.drop_zero] at key
  simp only [step, ho, hd, hb, if_false, List.getElem?_concat_length, Bool.false_eq_true, hx, hl,
    Nat.zero_add, List.drop_zero, key, takeOk_map_some]
  simp [oscSpec]

end ALV.C19
