/-
  C18 — the RIFF reader reads back what the RIFF builder wrote (`parseRiff (buildRiff …)`).
  Core Lean only.  The chunk loop `scan` is followed chunk by chunk: one step lemma for a chunk that
  sits at the read position (`scan_chunk`), induction over a list of extra chunks (`scan_extras`).
-/
import ALV.Lemmas.C18
import ALV.Model.C18Riff
namespace ALV.C18

theorem leNat_leBytes (w n : Nat) (h : n < 2 ^ (8 * w)) : leNat (leBytes w (n : Int)) = n := by
  unfold leNat
  rw [leValue_leBytes, pow256]
  have h' : ((n : Int)) < 2 ^ (8 * w) := by exact_mod_cast h
  rw [Int.emod_eq_of_lt (by omega) h']
  exact Int.toNat_natCast n

/-- the pad byte of a chunk -/
def padByte (body : Bytes) : Bytes := if body.length % 2 = 1 then [0] else []

theorem padByte_length (body : Bytes) : (padByte body).length = body.length % 2 := by
  unfold padByte
  split
  · simp; omega
  · simp; omega

theorem riffChunk_eq (name body : Bytes) :
    riffChunk name body = name ++ leBytes 4 (body.length : Int) ++ body ++ padByte body := rfl

theorem riffChunk_length (name body : Bytes) (hn : name.length = 4) :
    (riffChunk name body).length = 8 + body.length + body.length % 2 := by
  rw [riffChunk_eq]
  simp only [List.length_append, leBytes_length, hn, padByte_length]

/-- extra chunks written one after the other -/
def exChunks (l : List (Bytes × Bytes)) : Bytes := (l.map fun c => riffChunk c.1 c.2).flatten

theorem exChunks_cons (c : Bytes × Bytes) (l : List (Bytes × Bytes)) :
    exChunks (c :: l) = riffChunk c.1 c.2 ++ exChunks l := by
  simp [exChunks]

theorem exChunks_length_ge (l : List (Bytes × Bytes)) (hn : ∀ c ∈ l, c.1.length = 4) :
    8 * l.length ≤ (exChunks l).length := by
  induction l with
  | nil => simp [exChunks]
  | cons c l ih =>
    rw [exChunks_cons, List.length_append, riffChunk_length _ _ (hn c (by simp)), List.length_cons]
    have := ih (fun c hc => hn c (by simp [hc]))
    omega

/-- one turn of the chunk loop when a chunk `name, size, body` sits at the read position -/
theorem scan_chunk (avail A name b tail : Bytes) (lim fuel : Nat) (fmt : Option FmtInfo)
    (hav : avail = A ++ (name ++ leBytes 4 (b.length : Int) ++ (b ++ tail)))
    (hn : name.length = 4) (hb : b.length < 2 ^ 32) :
    scan avail lim (fuel + 1) A.length fmt =
      if name = idFmt then
        match readFmt b with
        | .error e => .error e
        | .ok fi =>
          if A.length + 8 + b.length + b.length % 2 > lim then .error .runtime
          else scan avail lim fuel (A.length + 8 + b.length + b.length % 2) (some fi)
      else if name = idData then
        match fmt with
        | none => .error .waveError
        | some fi => .ok (fi, b)
      else if A.length + 8 + b.length + b.length % 2 > lim then .error .runtime
      else scan avail lim fuel (A.length + 8 + b.length + b.length % 2) fmt := by
  have hl : (name ++ leBytes 4 (b.length : Int)).length = 8 := by
    rw [List.length_append, leBytes_length, hn]
  have h1 : (avail.drop A.length).take 8 = name ++ leBytes 4 (b.length : Int) := by
    rw [hav, List.drop_left, List.take_left' hl]
  have h2 : (avail.drop (A.length + 8)).take b.length = b := by
    have : avail = (A ++ (name ++ leBytes 4 (b.length : Int))) ++ (b ++ tail) := by
      rw [hav]; simp only [List.append_assoc]
    rw [this, List.drop_left' (by rw [List.length_append, hl]), List.take_left' rfl]
  have h3 : (name ++ leBytes 4 (b.length : Int)).take 4 = name := List.take_left' hn
  have h4 : leNat ((name ++ leBytes 4 (b.length : Int)).drop 4) = b.length := by
    rw [List.drop_left' hn]; exact leNat_leBytes 4 b.length hb
  rw [scan]
  simp only [h1, hl, Nat.lt_irrefl, if_false, h3, h4, h2]
  all_goals rfl

/-- the loop walks over any list of extra chunks (names other than `fmt ` and `data`) -/
theorem scan_extras (avail : Bytes) (lim : Nat) (hlim : avail.length ≤ lim) (h32 : avail.length < 2 ^ 32)
    (fmt : Option FmtInfo) :
    ∀ (l : List (Bytes × Bytes)) (A tail : Bytes) (fuel : Nat),
      avail = A ++ (exChunks l ++ tail) →
      (∀ c ∈ l, c.1.length = 4 ∧ c.1 ≠ idFmt ∧ c.1 ≠ idData) →
      scan avail lim (l.length + fuel) A.length fmt = scan avail lim fuel (A.length + (exChunks l).length) fmt := by
  intro l
  induction l with
  | nil => intro A tail fuel _ _; simp [exChunks]
  | cons c l ih =>
    intro A tail fuel hav hn
    obtain ⟨h4, hf, hd⟩ := hn c (by simp)
    have hav' : avail = A ++ (c.1 ++ leBytes 4 (c.2.length : Int) ++ (c.2 ++ (padByte c.2 ++ (exChunks l ++ tail)))) := by
      rw [hav, exChunks_cons, riffChunk_eq]; simp only [List.append_assoc]
    have hlen : avail.length = A.length + (8 + c.2.length + c.2.length % 2)
        + ((exChunks l).length + tail.length) := by
      rw [hav, exChunks_cons]
      simp only [List.length_append, riffChunk_length _ _ h4]
      omega
    have hb : c.2.length < 2 ^ 32 := by omega
    have hfuel : (c :: l).length + fuel = (l.length + fuel) + 1 := by simp only [List.length_cons]; omega
    rw [hfuel, scan_chunk avail A c.1 c.2 _ lim _ fmt hav' h4 hb, if_neg hf, if_neg hd,
      if_neg (by omega)]
    have hav2 : avail = (A ++ riffChunk c.1 c.2) ++ (exChunks l ++ tail) := by
      rw [hav, exChunks_cons]; simp only [List.append_assoc]
    have := ih (A ++ riffChunk c.1 c.2) tail fuel hav2 (fun c hc => hn c (by simp [hc]))
    rw [List.length_append, riffChunk_length _ _ h4] at this
    rw [exChunks_cons, List.length_append, riffChunk_length _ _ h4]
    have e1 : A.length + 8 + c.2.length + c.2.length % 2 = A.length + (8 + c.2.length + c.2.length % 2) := by omega
    have e2 : A.length + (8 + c.2.length + c.2.length % 2 + (exChunks l).length)
        = A.length + (8 + c.2.length + c.2.length % 2) + (exChunks l).length := by omega
    rw [e1, e2]; exact this

/-- `_read_fmt_chunk` on the plain 16-byte PCM body finds channels, rate and the sample width -/
theorem readFmt_fmtBody (channels rate bits : Nat) (hc0 : 0 < channels) (hc : channels < 2 ^ 16)
    (hr : rate < 2 ^ 32) (hb0 : 0 < bits) (hb : bits < 2 ^ 16) :
    readFmt (fmtBody channels rate bits) = .ok ⟨channels, rate, headerSampwidth bits⟩ := by
  -- the body as  tag(2) ++ ch(2) ++ rate(4) ++ rest(6) ++ bits(2)
  have hbody : fmtBody channels rate bits =
      leBytes 2 ((1 : Nat) : Int) ++ (leBytes 2 (channels : Int) ++ (leBytes 4 (rate : Int) ++
        ((leBytes 4 ((rate * channels * headerSampwidth bits : Nat) : Int)
          ++ leBytes 2 ((channels * headerSampwidth bits : Nat) : Int)) ++ leBytes 2 (bits : Int)))) := by
    unfold fmtBody; simp only [List.append_assoc]; rfl
  generalize hX : (leBytes 4 ((rate * channels * headerSampwidth bits : Nat) : Int)
          ++ leBytes 2 ((channels * headerSampwidth bits : Nat) : Int)) = X at hbody
  have hXl : X.length = 6 := by rw [← hX, List.length_append, leBytes_length, leBytes_length]
  have l2 : ∀ v, (leBytes 2 v).length = 2 := leBytes_length 2
  have l4 : ∀ v, (leBytes 4 v).length = 4 := leBytes_length 4
  have t14 : ((fmtBody channels rate bits).take 14).length = 14 := by
    rw [hbody]; simp only [List.length_take, List.length_append, l2, l4, hXl]; omega
  have tTag : (fmtBody channels rate bits).take 2 = leBytes 2 ((1 : Nat) : Int) := by
    rw [hbody]; exact List.take_left' (l2 _)
  have tCh : ((fmtBody channels rate bits).drop 2).take 2 = leBytes 2 (channels : Int) := by
    rw [hbody, List.drop_left' (l2 _)]; exact List.take_left' (l2 _)
  have tRate : ((fmtBody channels rate bits).drop 4).take 4 = leBytes 4 (rate : Int) := by
    have : fmtBody channels rate bits = (leBytes 2 ((1 : Nat) : Int) ++ leBytes 2 (channels : Int)) ++
        (leBytes 4 (rate : Int) ++ (X ++ leBytes 2 (bits : Int))) := by
      rw [hbody]; simp only [List.append_assoc]
    rw [this, List.drop_left' (by rw [List.length_append, l2, l2])]; exact List.take_left' (l4 _)
  have tBits : ((fmtBody channels rate bits).drop 14).take 2 = leBytes 2 (bits : Int) := by
    have : fmtBody channels rate bits = (leBytes 2 ((1 : Nat) : Int) ++ (leBytes 2 (channels : Int) ++
        (leBytes 4 (rate : Int) ++ X))) ++ (leBytes 2 (bits : Int) ++ []) := by
      rw [hbody]; simp only [List.append_assoc, List.append_nil]
    rw [this, List.drop_left' (by simp only [List.length_append, l2, l4, hXl])]
    exact List.take_left' (l2 _)
  have vTag : leNat (leBytes 2 ((1 : Nat) : Int)) = 1 := leNat_leBytes 2 1 (by decide)
  have vCh : leNat (leBytes 2 (channels : Int)) = channels := leNat_leBytes 2 channels hc
  have vRate : leNat (leBytes 4 (rate : Int)) = rate := leNat_leBytes 4 rate hr
  have vBits : leNat (leBytes 2 (bits : Int)) = bits := leNat_leBytes 2 bits hb
  have hsw : headerSampwidth bits ≠ 0 := by unfold headerSampwidth; omega
  unfold readFmt
  simp only [t14, Nat.lt_irrefl, if_false, tTag, tCh, tRate, tBits, vTag, vCh, vRate, vBits, l2]
  simp [hsw, Nat.ne_of_gt hc0]

/-- **parse after build**: every well-formed file is read back exactly -/
theorem parseRiff_buildRiff (pre mid post : List (Bytes × Bytes)) (channels rate bits : Nat) (data : Bytes)
    (hpm : ∀ c ∈ pre ++ mid, c.1.length = 4 ∧ c.1 ≠ idFmt ∧ c.1 ≠ idData)
    (hc0 : 0 < channels) (hc : channels < 2 ^ 16) (hr : rate < 2 ^ 32) (hb0 : 0 < bits) (hb : bits < 2 ^ 16)
    (hlen : (buildRiff pre mid post channels rate bits data).length < 2 ^ 32) :
    parseRiff (buildRiff pre mid post channels rate bits data)
      = .ok ⟨channels, headerSampwidth bits, rate, data⟩ := by
  -- the body of the RIFF chunk
  obtain ⟨F, hF⟩ : ∃ F, F = fmtBody channels rate bits := ⟨_, rfl⟩
  obtain ⟨body, hbody⟩ : ∃ body : Bytes, body = idWAVE ++ (exChunks pre ++ (riffChunk idFmt F ++ (exChunks mid ++
      (riffChunk idData data ++ exChunks post)))) := ⟨_, rfl⟩
  have hbuild : buildRiff pre mid post channels rate bits data
      = idRIFF ++ (leBytes 4 (body.length : Int) ++ body) := by
    show idRIFF ++ leBytes 4 _ ++ _ = _
    simp only [hbody, hF, exChunks, List.append_assoc]
  rw [hbuild] at hlen ⊢
  have hFl : F.length = 16 := by simp [hF, fmtBody, leBytes_length]
  have hrF : readFmt F = .ok ⟨channels, rate, headerSampwidth bits⟩ := by
    rw [hF]; exact readFmt_fmtBody channels rate bits hc0 hc hr hb0 hb
  have hL : body.length < 2 ^ 32 := by
    simp only [List.length_append] at hlen; omega
  have hpre : ∀ c ∈ pre, c.1.length = 4 ∧ c.1 ≠ idFmt ∧ c.1 ≠ idData := fun c h => hpm c (by simp [h])
  have hmid : ∀ c ∈ mid, c.1.length = 4 ∧ c.1 ≠ idFmt ∧ c.1 ≠ idData := fun c h => hpm c (by simp [h])
  have gpre := exChunks_length_ge pre (fun c h => (hpre c h).1)
  have gmid := exChunks_length_ge mid (fun c h => (hmid c h).1)
  have lF := riffChunk_length idFmt F rfl
  have lD := riffChunk_length idData data rfl
  have hbl : body.length = 4 + ((exChunks pre).length + ((riffChunk idFmt F).length + ((exChunks mid).length
      + ((riffChunk idData data).length + (exChunks post).length)))) := by
    rw [hbody]; simp only [List.length_append]; rfl
  -- the chunk loop
  have hscan : scan body body.length (body.length + 1) 4 none
      = .ok (⟨channels, rate, headerSampwidth bits⟩, data) := by
    -- fuel: pre ++ [fmt] ++ mid ++ [data] ++ spare
    obtain ⟨spare, hsp⟩ : ∃ spare, body.length + 1 = pre.length + ((mid.length + (spare + 1)) + 1) :=
      ⟨body.length + 1 - (pre.length + mid.length + 2) , by omega⟩
    rw [hsp]
    have e0 : (4 : Nat) = idWAVE.length := rfl
    rw [e0, scan_extras body body.length (Nat.le_refl _) hL none pre idWAVE _ _ hbody hpre]
    -- the fmt chunk
    have hav1 : body = (idWAVE ++ exChunks pre) ++ (idFmt ++ leBytes 4 (F.length : Int) ++ (F ++
        (padByte F ++ (exChunks mid ++ (riffChunk idData data ++ exChunks post))))) := by
      rw [hbody]; simp only [riffChunk_eq, List.append_assoc]
    have := scan_chunk body (idWAVE ++ exChunks pre) idFmt F _ body.length (mid.length + (spare + 1)) none hav1 rfl
      (by omega)
    rw [List.length_append] at this
    rw [this, if_pos rfl]
    simp only [hrF]
    rw [if_neg (by rw [hbl, lF]; omega)]
    -- the chunks between fmt and data
    have hav2 : body = (idWAVE ++ exChunks pre ++ riffChunk idFmt F) ++ (exChunks mid ++
        (riffChunk idData data ++ exChunks post)) := by
      rw [hbody]; simp only [List.append_assoc]
    have h2 := scan_extras body body.length (Nat.le_refl _) hL (some ⟨channels, rate, headerSampwidth bits⟩)
      mid _ _ (spare + 1) hav2 hmid
    simp only [List.length_append, lF] at h2
    have e1 : idWAVE.length + (exChunks pre).length + 8 + F.length + F.length % 2
        = idWAVE.length + (exChunks pre).length + (8 + F.length + F.length % 2) := by omega
    rw [e1, h2]
    -- the data chunk
    have hav3 : body = (idWAVE ++ exChunks pre ++ riffChunk idFmt F ++ exChunks mid) ++
        (idData ++ leBytes 4 (data.length : Int) ++ (data ++ (padByte data ++ exChunks post))) := by
      rw [hbody]; simp only [riffChunk_eq, List.append_assoc]
    have h3 := scan_chunk body _ idData data _ body.length spare (some ⟨channels, rate, headerSampwidth bits⟩)
      hav3 rfl (by rw [hbl, lD] at hL; omega)
    simp only [List.length_append, lF] at h3
    rw [h3, if_neg (show idData ≠ idFmt by decide)]; simp
  unfold parseRiff
  have t4 : (idRIFF ++ (leBytes 4 (body.length : Int) ++ body)).take 4 = idRIFF := List.take_left' rfl
  have d4 : ((idRIFF ++ (leBytes 4 (body.length : Int) ++ body)).drop 4).take 4 = leBytes 4 (body.length : Int) := by
    rw [List.drop_left' (show idRIFF.length = 4 from rfl)]; exact List.take_left' (leBytes_length 4 _)
  have d8 : (idRIFF ++ (leBytes 4 (body.length : Int) ++ body)).drop 8 = body := by
    have : idRIFF ++ (leBytes 4 (body.length : Int) ++ body) = (idRIFF ++ leBytes 4 (body.length : Int)) ++ body := by
      simp only [List.append_assoc]
    rw [this]; exact List.drop_left' (by rw [List.length_append, leBytes_length]; rfl)
  have hlim : leNat (leBytes 4 (body.length : Int)) = body.length := leNat_leBytes 4 _ hL
  have hw : body.take 4 = idWAVE := by rw [hbody]; exact List.take_left' rfl
  simp only [t4, d4, d8, hlim, List.take_length, leBytes_length]
  simp [idRIFF, hw, hscan]

end ALV.C18
