/-
  C04 — helper lemmas over a field: the generated source (`evalIR (compile b a zero)`) is the
  shifting state machine `frun`; the special-cased summands (coefficient 1 / -1 / 0) and gains
  (1 / -1 / other) are where the field laws enter.
-/
import ALV.Lemmas.C04
import Mathlib.Algebra.Field.Basic
import Mathlib.Tactic.Ring

set_option linter.unusedSectionVars false
set_option linter.unusedSimpArgs false
set_option linter.unnecessarySeqFocus false
namespace ALV.C04
variable {K : Type} [Field K] [DecidableEq K]

/-! ### sequential assignments of the generated source -/

theorem runShifts_append (e : Env K) (s1 s2 : List (Var × Var)) :
    runShifts e (s1 ++ s2) = runShifts (runShifts e s1) s2 := by
  simp [runShifts, List.foldl_append]

theorem runShifts_mIdx (e : Env K) (is : List Nat) :
    runShifts e (is.map (fun i => (Var.m (i + 1), Var.m i)))
      = ⟨is.foldl (fun l i => l.set (i + 1) (l.getD i 0)) e.m, e.d⟩ := by
  induction is generalizing e with
  | nil => simp [runShifts]
  | cons i is ih =>
    have := ih (e.set (.m (i + 1)) (e.get (.m i)))
    simp only [runShifts, List.map_cons, List.foldl_cons] at this ⊢
    rw [this]
    simp [Env.set, Env.get]

theorem runShifts_dIdx (e : Env K) (is : List Nat) :
    runShifts e (is.map (fun i => (Var.d (i + 1), Var.d i)))
      = ⟨e.m, is.foldl (fun l i => l.set (i + 1) (l.getD i 0)) e.d⟩ := by
  induction is generalizing e with
  | nil => simp [runShifts]
  | cons i is ih =>
    have := ih (e.set (.d (i + 1)) (e.get (.d i)))
    simp only [runShifts, List.map_cons, List.foldl_cons] at this ⊢
    rw [this]
    simp [Env.set, Env.get]

/-- the shift statements after `yield m0`, as one parallel shift of both variable lists -/
theorem runShifts_shifts (e : Env K) (nm nd : Nat) :
    runShifts e (mShifts nm ++ dShifts nd) = ⟨shiftList e.m nm, shiftList e.d nd⟩ := by
  rw [runShifts_append, mShifts, dShifts, runShifts_mIdx, runShifts_dIdx]
  rfl

/-! ### the sum expression -/

/-- right-nested sum of the summands -/
def sumAtoms (e : Env K) : List (Atom K) → K
  | [] => 0
  | t :: ts => evalAtom e t + sumAtoms e ts

theorem foldl_add_atoms (e : Env K) (ts : List (Atom K)) (acc : K) :
    ts.foldl (fun acc t => acc + evalAtom e t) acc = acc + sumAtoms e ts := by
  induction ts generalizing acc with
  | nil => simp [sumAtoms]
  | cons t ts ih => simp [List.foldl_cons, ih, sumAtoms, add_assoc]

/-- Python's left-associated `t0 + t1 + …` is the sum -/
theorem evalSum_eq (e : Env K) (l : List (Atom K)) : evalSum e l = sumAtoms e l := by
  cases l with
  | nil => rfl
  | cons t ts => simp [evalSum, foldl_add_atoms, sumAtoms]

theorem sumAtoms_append (e : Env K) (l1 l2 : List (Atom K)) :
    sumAtoms e (l1 ++ l2) = sumAtoms e l1 + sumAtoms e l2 := by
  induction l1 with
  | nil => simp [sumAtoms]
  | cons t ts ih => simp [sumAtoms, ih, add_assoc]

theorem getD_drop_cons (l : List K) (k : Nat) (hk : k < l.length) :
    l.drop k = l.getD k 0 :: l.drop (k + 1) := by
  rw [List.drop_eq_getElem_cons hk]
  simp [List.getD_eq_getElem?_getD, List.getElem?_eq_getElem hk]

/-- numerator summands (`d{k}` / `-d{k}` / `{c} * d{k}` / nothing) add up to `Σ b_k d_k` -/
theorem sumAtoms_numAtoms (e : Env K) (b : List K) (k : Nat) :
    sumAtoms e (numAtoms k b) = dot b (e.d.drop k) := by
  induction b generalizing k with
  | nil => simp [numAtoms, sumAtoms, dot]
  | cons c cs ih =>
    simp only [numAtoms, sumAtoms_append, ih]
    by_cases hk : k < e.d.length
    · rw [getD_drop_cons _ _ hk]
      simp only [dot]
      congr 1
      split_ifs with h1 h2 h3
      · simp [sumAtoms, evalAtom, Env.get, h1]
      · simp [sumAtoms, evalAtom, Env.get, h2]
      · simp [sumAtoms, evalAtom, Env.get]
      · have : c = 0 := by simpa using h3
        simp [sumAtoms, this]
    · have h0 : e.d.drop k = [] := List.drop_eq_nil_of_le (by omega)
      have h1 : e.d.drop (k + 1) = [] := List.drop_eq_nil_of_le (by omega)
      have h2 : e.d[k]?.getD 0 = 0 := by
        simp [List.getElem?_eq_none (show e.d.length ≤ k by omega)]
      rw [h0, h1, dot_nil_right, dot_nil_right]
      split_ifs <;> simp [sumAtoms, evalAtom, Env.get, h2]

/-- denominator summands (`m{k}` / `-m{k}` / `-{c} * m{k}` / nothing) add up to `− Σ a_k m_k` -/
theorem sumAtoms_denAtoms (e : Env K) (as : List K) (k : Nat) :
    sumAtoms e (denAtoms k as) = - dot as (e.m.drop k) := by
  induction as generalizing k with
  | nil => simp [denAtoms, sumAtoms, dot]
  | cons c cs ih =>
    simp only [denAtoms, sumAtoms_append, ih]
    by_cases hk : k < e.m.length
    · rw [getD_drop_cons _ _ hk]
      simp only [dot, neg_add]
      congr 1
      split_ifs with h1 h2 h3
      · simp [sumAtoms, evalAtom, Env.get, h1]
      · simp [sumAtoms, evalAtom, Env.get, h2]
      · simp [sumAtoms, evalAtom, Env.get]
      · have : c = 0 := by simpa using h3
        simp [sumAtoms, this]
    · have h0 : e.m.drop k = [] := List.drop_eq_nil_of_le (by omega)
      have h1 : e.m.drop (k + 1) = [] := List.drop_eq_nil_of_le (by omega)
      have h2 : e.m[k]?.getD 0 = 0 := by
        simp [List.getElem?_eq_none (show e.m.length ≤ k by omega)]
      rw [h0, h1, dot_nil_right, dot_nil_right]
      split_ifs <;> simp [sumAtoms, evalAtom, Env.get, h2]

/-- value of the whole `data_sum` expression in an environment `m = [_, m1, …]`, `d = [d0, d1, …]` -/
theorem evalSum_data (b as : List K) (g x : K) (ms ds : List K) :
    evalSum (⟨g :: ms, x :: ds⟩ : Env K) (numAtoms 0 b ++ denAtoms 1 as)
      = dot b (x :: ds) - dot as ms := by
  rw [evalSum_eq, sumAtoms_append, sumAtoms_numAtoms, sumAtoms_denAtoms]
  simp [sub_eq_add_neg]

/-- when is `data_sum` empty -/
theorem numAtoms_eq_nil (b : List K) (k : Nat) : numAtoms k b = [] ↔ ∀ c ∈ b, c = 0 := by
  induction b generalizing k with
  | nil => simp [numAtoms]
  | cons c cs ih =>
    simp only [numAtoms, List.append_eq_nil_iff, ih, List.mem_cons, forall_eq_or_imp]
    constructor
    · rintro ⟨h, h'⟩
      refine ⟨?_, h'⟩
      split_ifs at h with h1 h2 h3 <;> simp_all
    · rintro ⟨h, h'⟩
      refine ⟨?_, h'⟩
      subst h
      have h1 : (0 : K) ≠ 1 := zero_ne_one
      have h2 : (0 : K) ≠ -1 := by
        intro h; have := congrArg Neg.neg h; simp at this
      simp [h1, h2]

theorem denAtoms_eq_nil (as : List K) (k : Nat) : denAtoms k as = [] ↔ ∀ c ∈ as, c = 0 := by
  induction as generalizing k with
  | nil => simp [denAtoms]
  | cons c cs ih =>
    simp only [denAtoms, List.append_eq_nil_iff, ih, List.mem_cons, forall_eq_or_imp]
    constructor
    · rintro ⟨h, h'⟩
      refine ⟨?_, h'⟩
      split_ifs at h with h1 h2 h3 <;> simp_all
    · rintro ⟨h, h'⟩
      refine ⟨?_, h'⟩
      subst h
      have h1 : (0 : K) ≠ 1 := zero_ne_one
      have h2 : (0 : K) ≠ -1 := by
        intro h; have := congrArg Neg.neg h; simp at this
      simp [h1, h2]

theorem dataSum_eq_nil (b as : List K) :
    numAtoms 0 b ++ denAtoms 1 as = [] ↔ (∀ c ∈ b, c = 0) ∧ (∀ c ∈ as, c = 0) := by
  simp [List.append_eq_nil_iff, numAtoms_eq_nil, denAtoms_eq_nil]

/-! ### the gain -/

/-- the three ways the gain is written (`expr`, `-(expr)`, `(expr) / gain`) all divide by `a0` -/
theorem applyGain_compile (a0 s : K) :
    applyGain (if a0 = -1 then Gain.negOne else if a0 ≠ 1 then Gain.div a0 else Gain.one) s = s / a0 := by
  split_ifs with h1 h2
  · subst h1; simp [applyGain, div_neg]
  · simp [applyGain]
  · have : a0 = 1 := by simpa using h2
    subst this; simp [applyGain]

/-! ### the loop -/

/-- the `for d0 in seq` loop of the generated source is the shifting state machine -/
theorem runLoop_eq_frun (b as : List K) (a0 : K) (gain : Gain K)
    (hg : ∀ s, applyGain gain s = s / a0) (xs : List K) :
    ∀ (g h : K) (ms ds : List K), ms.length = as.length → ds.length = b.length - 1 →
      runLoop (numAtoms 0 b ++ denAtoms 1 as) gain (mShifts as.length ++ dShifts (b.length - 1))
          ⟨g :: ms, h :: ds⟩ xs
        = frun b as a0 ⟨ms, ds⟩ xs := by
  induction xs with
  | nil => intros; simp [runLoop, frun]
  | cons x xs ih =>
    intro g h ms ds hm hd
    simp only [runLoop, frun, fstep, Env.set, List.set_cons_zero, runShifts_shifts]
    rw [evalSum_data, hg]
    congr 1
    rw [← hm, ← hd, shiftList_cons, shiftList_cons]
    have := ih ((dot b (x :: ds) - dot as ms) / a0) x
      (List.take ms.length ((dot b (x :: ds) - dot as ms) / a0 :: ms)) (List.take ds.length (x :: ds))
      (by simp [hm]) (by simp [hd])
    rw [← hm, ← hd] at this
    exact this

end ALV.C04

/-! ## Dictionary / normalisation lemmas: no algebraic law is used, so they are stated for any
coefficient type with a zero and decidable equality (C06 instantiates them at `Coef K`, whose
Stream coefficients form no field). -/
namespace ALV.C04
section generic
variable {K : Type} [OfNat K 0] [DecidableEq K]

/-! ### dense coefficient lists -/

theorem coefAt_nil (k : Int) : coefAt ([] : Terms K) k = 0 := rfl

/-- `a0 ≠ 0` ⇒ the dense denominator is `a0 :: as` -/
theorem dense_cons (den : Terms K) (h0 : coefAt den 0 ≠ 0) :
    dense den = coefAt den 0 :: (dense den).tail := by
  have hne : den.isEmpty = false := by
    cases den with
    | nil => exact absurd (coefAt_nil 0) h0
    | cons _ _ => rfl
  simp only [dense, hne, Bool.false_eq_true, if_false, List.range_succ_eq_map, List.map_cons,
    List.tail_cons]
  rfl

/-! ### normalisation (`LinearFilter.__init__`) -/

theorem shiftKeys_zero (t : Terms K) : shiftKeys 0 t = t := by
  simp [shiftKeys]

theorem minKey_shiftKeys (p : Int) (t : Terms K) :
    minKey (shiftKeys p t) = (minKey t).map (· - p) := by
  induction t with
  | nil => rfl
  | cons kv r ih =>
    obtain ⟨k, v⟩ := kv
    simp only [shiftKeys, List.map_cons, minKey] at ih ⊢
    rw [ih]
    cases h : minKey r with
    | none => simp
    | some k' =>
      simp only [Option.map_some]
      by_cases hlt : k' < k
      · have : k' - p < k - p := by omega
        simp [hlt, this]
      · have : ¬ (k' - p < k - p) := by omega
        simp [hlt, this]

theorem normalise_ok (num den : Terms K) (p : Int) (h : minKey den = some p) :
    normalise num den = .ok (shiftKeys p num, shiftKeys p den) := by
  simp only [normalise, h]
  by_cases hp : p = 0
  · subst hp; simp [shiftKeys_zero]
  · simp [hp]

theorem minKey_eq_none (t : Terms K) : minKey t = none ↔ t = [] := by
  cases t with
  | nil => simp [minKey]
  | cons kv r =>
    obtain ⟨k, v⟩ := kv
    simp only [minKey]
    cases minKey r <;> simp

theorem coefAt_shiftKeys (p : Int) (t : Terms K) (k : Int) :
    coefAt (shiftKeys p t) k = coefAt t (k + p) := by
  have hp : ((fun kv : Int × K => kv.1 == k) ∘ fun kv : Int × K => (kv.1 - p, kv.2))
      = (fun kv => kv.1 == k + p) := by
    funext kv
    simp only [Function.comp]
    by_cases h : kv.1 - p = k
    · have h' : kv.1 = k + p := by omega
      simp [h, h']
    · have h' : ¬ (kv.1 = k + p) := by omega
      simp [h, h']
  simp only [coefAt, shiftKeys, List.find?_map, hp]
  cases t.find? (fun kv => kv.1 == k + p) <;> rfl

end generic
end ALV.C04

namespace ALV.C04
variable {K : Type} [Field K] [DecidableEq K]

/-! ### all coefficients zero -/

theorem dot_zero_coeffs (c v : List K) (h : ∀ x ∈ c, x = 0) : dot c v = 0 := by
  induction c generalizing v with
  | nil => cases v <;> simp [dot]
  | cons c cs ih =>
    cases v with
    | nil => simp [dot]
    | cons v vs =>
      have h0 : c = 0 := h c (by simp)
      simp [dot, h0, ih vs (fun x hx => h x (by simp [hx]))]

theorem fspec_all_zero (b as : List K) (a0 : K) (hb : ∀ c ∈ b, c = 0) (ha : ∀ c ∈ as, c = 0)
    (zero : K) (hy hx xs : List K) : fspec b as a0 zero hy hx xs = List.replicate xs.length 0 := by
  induction xs generalizing hy hx with
  | nil => simp [fspec]
  | cons x xs ih =>
    simp [fspec, dot_zero_coeffs _ _ hb, dot_zero_coeffs _ _ ha, ih, List.replicate_succ]

end ALV.C04
