/-
  C03 — the refinement relation between the heap model and the list specification, and the
  lemmas about sources, targets, tee hubs and pool updates that `step_refines` is built from.
-/
import ALV.Lemmas.C03

namespace ALV.C03
variable {α : Type}

/-! ### the relation -/

def RelObj (E : List (List α)) (h : Heap α) : Obj α → SObj α → Prop
  | .stream it, .stream s => Ok h it ∧ s = ⟨den E it, []⟩
  | .hub uses, .hub s n => uses.length = n ∧ ∀ u, u ∈ uses → Ok h u ∧ s = ⟨den E u, []⟩
  | .dead, .dead => True
  | _, _ => False

def RelO (E : List (List α)) (h : Heap α) : Option (Obj α) → Option (SObj α) → Prop
  | none, none => True
  | some a, some b => RelObj E h a b
  | _, _ => False

/-- every model object denotes the corresponding specification object (same pool index),
    in a heap that satisfies the hub invariant for the environment `E` -/
structure Rel (E : List (List α)) (st : St α) (sp : SPool α) : Prop where
  hok : HeapOK E st.heap
  objs : ∀ i : Nat, RelO E st.heap st.pool[i]? sp[i]?

theorem relO_len {E : List (List α)} {h : Heap α} {pool : List (Obj α)} {sp : SPool α}
    (ho : ∀ i : Nat, RelO E h pool[i]? sp[i]?) : pool.length = sp.length := by
  rcases Nat.lt_trichotomy pool.length sp.length with l | l | l
  · have := ho pool.length
    rw [List.getElem?_eq_none (Nat.le_refl _), List.getElem?_eq_getElem l] at this
    exact absurd this id
  · exact l
  · have := ho sp.length
    rw [List.getElem?_eq_none (Nat.le_refl _), List.getElem?_eq_getElem l] at this
    exact absurd this id

theorem Rel.len {E : List (List α)} {st : St α} {sp : SPool α} (R : Rel E st sp) :
    st.pool.length = sp.length := relO_len R.objs

/-- the new heap/environment keeps every old iterator well formed with the same denotation -/
def Ext (E : List (List α)) (h : Heap α) (E' : List (List α)) (h' : Heap α) : Prop :=
  ∀ x : It α, Ok h x → Ok h' x ∧ den E' x = den E x

theorem Ext.ofGrow {E : List (List α)} {h h' : Heap α} (g : Grow h h') : Ext E h E h' :=
  fun _ hx => ⟨Ok.grow g hx, rfl⟩

theorem Ext.refl (E : List (List α)) (h : Heap α) : Ext E h E h := fun _ hx => ⟨hx, rfl⟩

theorem Ext.trans {E1 E2 E3 : List (List α)} {h1 h2 h3 : Heap α} (a : Ext E1 h1 E2 h2)
    (b : Ext E2 h2 E3 h3) : Ext E1 h1 E3 h3 := fun x hx => by
  obtain ⟨o2, d2⟩ := a x hx
  obtain ⟨o3, d3⟩ := b x o2
  exact ⟨o3, d3.trans d2⟩

theorem RelObj.ext {E E' : List (List α)} {h h' : Heap α} (e : Ext E h E' h') :
    ∀ {a : Obj α} {b : SObj α}, RelObj E h a b → RelObj E' h' a b
  | .stream it, .stream s, ⟨o, d⟩ => ⟨(e it o).1, by rw [(e it o).2]; exact d⟩
  | .hub uses, .hub s n, ⟨l, hu⟩ => ⟨l, fun u hm => ⟨(e u (hu u hm).1).1, by rw [(e u (hu u hm).1).2]; exact (hu u hm).2⟩⟩
  | .dead, .dead, _ => trivial
  | .stream _, .hub _ _, hx => hx
  | .stream _, .dead, hx => hx
  | .hub _, .stream _, hx => hx
  | .hub _, .dead, hx => hx
  | .dead, .stream _, hx => hx
  | .dead, .hub _ _, hx => hx

theorem RelO.ext {E E' : List (List α)} {h h' : Heap α} (e : Ext E h E' h') :
    ∀ {a : Option (Obj α)} {b : Option (SObj α)}, RelO E h a b → RelO E' h' a b
  | none, none, _ => trivial
  | some _, some _, hx => RelObj.ext e hx
  | none, some _, hx => hx
  | some _, none, hx => hx

/-! ### pool updates -/

theorem relO_set {E : List (List α)} {h : Heap α} {pool : List (Obj α)} {sp : SPool α}
    (ho : ∀ i : Nat, RelO E h pool[i]? sp[i]?) (j : Nat) {x : Obj α} {y : SObj α} (hxy : RelObj E h x y) :
    ∀ i : Nat, RelO E h (pool.set j x)[i]? (sp.set j y)[i]? := by
  intro i
  have hl := relO_len ho
  by_cases e : j = i
  · subst e
    by_cases hj : j < pool.length
    · simp [hj, hl ▸ hj]; exact hxy
    · have hj' : ¬ j < sp.length := hl ▸ hj
      simp [hj, hj']; exact trivial
  · simp [List.getElem?_set, e]; exact ho i

theorem relO_append {E : List (List α)} {h : Heap α} {pool as : List (Obj α)} {sp bs : SPool α}
    (ho : ∀ i : Nat, RelO E h pool[i]? sp[i]?) (ha : ∀ i : Nat, RelO E h as[i]? bs[i]?) :
    ∀ i : Nat, RelO E h (pool ++ as)[i]? (sp ++ bs)[i]? := by
  intro i
  have hl := relO_len ho
  by_cases hi : i < pool.length
  · rw [List.getElem?_append_left hi, List.getElem?_append_left (hl ▸ hi)]; exact ho i
  · have hi' : pool.length ≤ i := Nat.le_of_not_lt hi
    rw [List.getElem?_append_right hi', List.getElem?_append_right (hl ▸ hi'), hl]; exact ha _

theorem relO_single {E : List (List α)} {h : Heap α} {x : Obj α} {y : SObj α} (hxy : RelObj E h x y) :
    ∀ i : Nat, RelO E h [x][i]? [y][i]? := by
  intro i
  cases i with
  | zero => exact hxy
  | succ i => simp; exact trivial

theorem relO_replicate {E : List (List α)} {h : Heap α} {x : Obj α} {y : SObj α} (hxy : RelObj E h x y)
    (n : Nat) : ∀ i : Nat, RelO E h (List.replicate n x)[i]? (List.replicate n y)[i]? := by
  intro i
  by_cases hi : i < n
  · simp [List.getElem?_replicate, hi]; exact hxy
  · simp [List.getElem?_replicate, hi]; exact trivial

theorem set_self {l : List β} {i : Nat} {x : β} (hx : l[i]? = some x) : l.set i x = l := by
  induction l generalizing i with
  | nil => rfl
  | cons a l ih =>
    cases i with
    | zero => simp at hx; simp [hx]
    | succ i => simp at hx; simp [ih hx]

/-! ### environment extension by a new hub -/

theorem envAt_append_left {E : List (List α)} {k : Nat} (hk : k < E.length) (ys : List α) :
    envAt (E ++ [ys]) k = envAt E k := by
  simp [envAt, List.getElem?_append_left hk]

theorem den_append {E : List (List α)} (ys : List α) : ∀ {x : It α}, Below E.length x →
    den (E ++ [ys]) x = den E x
  | .src _, _ => rfl
  | .cyc _ _, _ => rfl
  | .tee k pos, hb => by simp only [den]; rw [envAt_append_left hb]
  | .map _ it, hb => by simp only [den]; rw [den_append ys (x := it) hb]
  | .filter _ it, hb => by simp only [den]; rw [den_append ys (x := it) hb]
  | .chain a b, hb => by simp only [den]; rw [den_append ys (x := a) hb.1, den_append ys (x := b) hb.2]
  | .skipper _ it, hb => by simp only [den]; rw [den_append ys (x := it) hb]
  | .limiter _ it, hb => by simp only [den]; rw [den_append ys (x := it) hb]

theorem Ok.append (h : Heap α) (hub : Hub α) : ∀ {x : It α}, Ok h x → Ok (h ++ [hub]) x
  | .src _, _ => trivial
  | .cyc _ _, hx => hx
  | .tee j pos, ⟨hb, hj, hp⟩ => ⟨hb, by rw [List.getElem?_append_left (getElem?_lt hj)]; exact hj, hp⟩
  | .map _ it, hx => Ok.append h hub (x := it) hx
  | .filter _ it, hx => Ok.append h hub (x := it) hx
  | .chain a b, hx => ⟨Ok.append h hub (x := a) hx.1, Ok.append h hub (x := b) hx.2⟩
  | .skipper _ it, hx => Ok.append h hub (x := it) hx
  | .limiter _ it, hx => Ok.append h hub (x := it) hx

/-- `itertools.tee`: a new hub over `it`; every output denotes what `it` denoted, every
    other iterator keeps its meaning -/
theorem teeOf_ok {E : List (List α)} {h : Heap α} {it : It α} (hH : HeapOK E h) (hO : Ok h it) :
    HeapOK (E ++ [den E it]) (h ++ [⟨it, []⟩]) ∧ Ext E h (E ++ [den E it]) (h ++ [⟨it, []⟩]) ∧
    Ok (h ++ [⟨it, []⟩]) (.tee h.length 0) ∧ den (E ++ [den E it]) (.tee h.length 0) = den E it := by
  have hEl := hH.1
  have ext : Ext E h (E ++ [den E it]) (h ++ [⟨it, []⟩]) := fun x hx =>
    ⟨Ok.append h _ hx, den_append _ (hEl ▸ Ok.below hx)⟩
  refine ⟨⟨by simp [hEl], fun k hub hk => ?_⟩, ext, ?_, ?_⟩
  · by_cases hlt : k < h.length
    · rw [List.getElem?_append_left hlt] at hk
      obtain ⟨b, o, ev⟩ := hH.2 k hub hk
      refine ⟨b, Ok.append h _ o, ?_⟩
      rw [envAt_append_left (hEl ▸ hlt), (ext _ o).2]; exact ev
    · have hge : h.length ≤ k := Nat.le_of_not_lt hlt
      rw [List.getElem?_append_right hge] at hk
      have hk0 : k - h.length = 0 := by
        rcases Nat.eq_zero_or_pos (k - h.length) with z | p
        · exact z
        · rw [List.getElem?_eq_none (by simp; omega)] at hk; cases hk
      have hkeq : k = h.length := by omega
      subst hkeq
      simp at hk; subst hk
      refine ⟨Ok.below hO, Ok.append h _ hO, ?_⟩
      simp [envAt, ← hEl, (ext _ hO).2]
  · exact ⟨⟨it, []⟩, by simp, Nat.zero_le _⟩
  · simp [den, envAt, ← hEl]

/-! ### sources and targets -/

/-- sources of the theorems: finite iterables and existing objects -/
def Src.Fin : Src α → Prop
  | .list _ => True
  | .chain _ => True
  | .obj _ => True
  | .mixed _ _ _ => True
  | .cyc _ => False
  | .const _ => False

theorem chainSrc_ok (E : List (List α)) (h : Heap α) : ∀ xss : List (List α),
    Ok h (chainSrc xss) ∧ den E (chainSrc xss) = xss.flatten
  | [] => ⟨trivial, rfl⟩
  | [xs] => ⟨trivial, by simp [chainSrc, den]⟩
  | xs :: ys :: rest => by
    obtain ⟨o, d⟩ := chainSrc_ok E h (ys :: rest)
    exact ⟨⟨trivial, o⟩, by simp only [chainSrc, den, d]; simp⟩

/-- outcome of resolving an object index on both sides -/
inductive Lookup (E : List (List α)) (st : St α) (sp : SPool α) (j : Nat) : Prop where
  | missing (hp : st.pool[j]? = none) (hs : sp[j]? = none)
  | dead (hp : st.pool[j]? = some .dead) (hs : sp[j]? = some .dead)
  | stream (it : It α) (hp : st.pool[j]? = some (.stream it)) (hs : sp[j]? = some (.stream ⟨den E it, []⟩))
      (ok : Ok st.heap it)
  | hub (uses : List (It α)) (s : LSeq α) (hp : st.pool[j]? = some (.hub uses))
      (hs : sp[j]? = some (.hub s uses.length)) (ok : ∀ u, u ∈ uses → Ok st.heap u ∧ s = ⟨den E u, []⟩)

theorem Rel.lookup {E : List (List α)} {st : St α} {sp : SPool α} (R : Rel E st sp) (j : Nat) :
    Lookup E st sp j := by
  have hj := R.objs j
  cases hp : st.pool[j]? with
  | none =>
    cases hs : sp[j]? with
    | none => exact .missing hp hs
    | some so => rw [hp, hs] at hj; exact absurd hj id
  | some o =>
    cases hs : sp[j]? with
    | none => rw [hp, hs] at hj; exact absurd hj id
    | some so =>
      rw [hp, hs] at hj
      cases o with
      | stream it =>
        cases so with
        | stream s => obtain ⟨o1, d1⟩ := hj; subst d1; exact .stream it hp hs o1
        | hub s n => exact absurd hj id
        | dead => exact absurd hj id
      | hub uses =>
        cases so with
        | stream s => exact absurd hj id
        | hub s n => obtain ⟨l, hu⟩ := hj; subst l; exact .hub uses s hp hs hu
        | dead => exact absurd hj id
      | dead =>
        cases so with
        | stream s => exact absurd hj id
        | hub s n => exact absurd hj id
        | dead => exact .dead hp hs

/-- both sides fail alike, or both succeed with related results -/
theorem mkSrc_ok {E : List (List α)} {st : St α} {sp : SPool α} (R : Rel E st sp) (s : Src α)
    (hs : s.Fin) :
    (∃ e, mkSrc st s = .error e ∧ specSrc sp s = .error e) ∨
    (∃ st' it sp', mkSrc st s = .ok (st', it) ∧ specSrc sp s = .ok (sp', ⟨den E it, []⟩) ∧
      Rel E st' sp' ∧ st'.heap = st.heap ∧ Ok st.heap it) := by
  cases s with
  | list xs => exact .inr ⟨st, .src xs, sp, rfl, rfl, R, rfl, trivial⟩
  | cyc xs => exact absurd hs id
  | const v => exact absurd hs id
  | chain xss =>
    obtain ⟨o, d⟩ := chainSrc_ok E st.heap xss
    exact .inr ⟨st, chainSrc xss, sp, rfl, by simp [specSrc, srcSeq, d], R, rfl, o⟩
  | obj j =>
    cases R.lookup j with
    | missing hp hq => exact .inl ⟨"noobj", by simp [mkSrc, hp], by simp [specSrc, hq]⟩
    | dead hp hq => exact .inl ⟨"noobj", by simp [mkSrc, hp], by simp [specSrc, hq]⟩
    | stream it hp hq ok =>
      exact .inr ⟨⟨st.heap, st.pool.set j .dead⟩, it, sp.set j .dead, by simp [mkSrc, hp],
        by simp [specSrc, hq], ⟨R.hok, relO_set R.objs j trivial⟩, rfl, ok⟩
    | hub uses q hp hq ok =>
      cases hg : uses.getLast? with
      | none =>
        have : uses = [] := List.getLast?_eq_none_iff.1 hg
        subst this
        exact .inl ⟨"IndexError", by simp [mkSrc, hp], by simp [specSrc, hq]⟩
      | some u =>
        obtain ⟨ys, rfl⟩ := List.getLast?_eq_some_iff.1 hg
        obtain ⟨ou, du⟩ := ok u (by simp)
        subst du
        refine .inr ⟨⟨st.heap, st.pool.set j (.hub ys)⟩, u, sp.set j (.hub ⟨den E u, []⟩ ys.length),
          by simp [mkSrc, hp], ?_, ⟨R.hok, relO_set R.objs j ⟨rfl, fun w hw => ok w (by simp [hw])⟩⟩, rfl, ou⟩
        simp at hq
        simp [specSrc, hq]
  | mixed pre j post =>
    have hseq : ∀ xs : List α, ((LSeq.fin pre).append ⟨xs, []⟩).append (LSeq.fin post) =
        (⟨pre ++ (xs ++ post), []⟩ : LSeq α) := by
      intro xs; simp [LSeq.append, LSeq.fin, LSeq.endless]
    cases R.lookup j with
    | missing hp hq => exact .inl ⟨"noobj", by simp [mkSrc, hp], by simp [specSrc, hq]⟩
    | dead hp hq => exact .inl ⟨"noobj", by simp [mkSrc, hp], by simp [specSrc, hq]⟩
    | stream it hp hq ok =>
      exact .inr ⟨⟨st.heap, st.pool.set j .dead⟩, .chain (.src pre) (.chain it (.src post)), sp.set j .dead,
        by simp [mkSrc, hp], by simp [specSrc, hq, hseq, den],
        ⟨R.hok, relO_set R.objs j trivial⟩, rfl, ⟨trivial, ok, trivial⟩⟩
    | hub uses q hp hq ok =>
      cases hg : uses.getLast? with
      | none =>
        have : uses = [] := List.getLast?_eq_none_iff.1 hg
        subst this
        exact .inl ⟨"IndexError", by simp [mkSrc, hp], by simp [specSrc, hq]⟩
      | some u =>
        obtain ⟨ys, rfl⟩ := List.getLast?_eq_some_iff.1 hg
        obtain ⟨ou, du⟩ := ok u (by simp)
        subst du
        refine .inr ⟨⟨st.heap, st.pool.set j (.hub ys)⟩, .chain (.src pre) (.chain u (.src post)),
          sp.set j (.hub ⟨den E u, []⟩ ys.length),
          by simp [mkSrc, hp], ?_, ⟨R.hok, relO_set R.objs j ⟨rfl, fun w hw => ok w (by simp [hw])⟩⟩, rfl,
          ⟨trivial, ou, trivial⟩⟩
        simp at hq
        simp [specSrc, hq, hseq, den]

theorem target_ok {E : List (List α)} {st : St α} {sp : SPool α} (R : Rel E st sp) (i : Nat) :
    (∃ e, target st i = .error e ∧ specTarget sp i = .error e) ∨
    (∃ st' k it sp', target st i = .ok (st', k, it) ∧ specTarget sp i = .ok (sp', k, ⟨den E it, []⟩) ∧
      Rel E st' sp' ∧ st'.heap = st.heap ∧ Ok st.heap it ∧ st.pool.length ≤ st'.pool.length) := by
  cases R.lookup i with
  | missing hp hq => exact .inl ⟨"noobj", by simp [target, hp], by simp [specTarget, hq]⟩
  | dead hp hq => exact .inl ⟨"noobj", by simp [target, hp], by simp [specTarget, hq]⟩
  | stream it hp hq ok =>
    exact .inr ⟨st, i, it, sp, by simp [target, hp], by simp [specTarget, hq], R, rfl, ok, Nat.le_refl _⟩
  | hub uses q hp hq ok =>
    cases hg : uses.getLast? with
    | none =>
      have : uses = [] := List.getLast?_eq_none_iff.1 hg
      subst this
      exact .inl ⟨"IndexError", by simp [target, hp], by simp [specTarget, hq]⟩
    | some u =>
      obtain ⟨ys, rfl⟩ := List.getLast?_eq_some_iff.1 hg
      obtain ⟨ou, du⟩ := ok u (by simp)
      subst du
      refine .inr ⟨⟨st.heap, st.pool.set i (.hub ys) ++ [.dead]⟩, st.pool.length, u,
        sp.set i (.hub ⟨den E u, []⟩ ys.length) ++ [.dead], by simp [target, hp], ?_,
        ⟨R.hok, relO_append (relO_set R.objs i ⟨rfl, fun w hw => ok w (by simp [hw])⟩)
          (relO_single (x := .dead) (y := .dead) trivial)⟩, rfl, ou, by simp⟩
      simp at hq
      simp [specTarget, hq, R.len]

/-- `self._data = new; return self` (Stream) / a new Stream (hub) -/
theorem rebind_ok {E : List (List α)} {st : St α} {sp : SPool α} (R : Rel E st sp) (i k : Nat)
    {it : It α} (ok : Ok st.heap it) :
    Rel E (rebind st i k it).1 (specRebind sp i k ⟨den E it, []⟩).1 ∧
      (rebind st i k it).2 = (specRebind sp i k ⟨den E it, []⟩).2 :=
  ⟨⟨R.hok, relO_set R.objs k ⟨ok, rfl⟩⟩, rfl⟩

/-- the heap and environment may be replaced by an extension -/
theorem Rel.ext {E E' : List (List α)} {st : St α} {sp : SPool α} (R : Rel E st sp) {h' : Heap α}
    (e : Ext E st.heap E' h') (hH : HeapOK E' h') : Rel E' ⟨h', st.pool⟩ sp :=
  ⟨hH, fun i => RelO.ext e (R.objs i)⟩

end ALV.C03
