/-
  C12 — helper lemmas, part 5: the executable number type ℚ[i] (`GRat`) is a field, its
  embedding into ℂ is a ring homomorphism, and the specification commutes with ring homs.
-/
import ALV.Lemmas.C12
import Mathlib.Data.Complex.Basic
import Mathlib.Algebra.Order.Field.Rat
import Mathlib.Data.Rat.Cast.CharZero
import Mathlib.Tactic.Linarith
import Mathlib.Tactic.Positivity

set_option linter.unusedSectionVars false
set_option linter.unusedSimpArgs false

namespace ALV.C12
namespace GRat

@[ext] theorem ext {x y : GRat} (h1 : x.re = y.re) (h2 : x.im = y.im) : x = y := by
  cases x; cases y; simp_all

instance : Inv GRat := ⟨GRat.inv⟩

@[simp] theorem zero_re : (0 : GRat).re = 0 := rfl
@[simp] theorem zero_im : (0 : GRat).im = 0 := rfl
@[simp] theorem one_re : (1 : GRat).re = 1 := rfl
@[simp] theorem one_im : (1 : GRat).im = 0 := rfl
@[simp] theorem add_re (x y : GRat) : (x + y).re = x.re + y.re := rfl
@[simp] theorem add_im (x y : GRat) : (x + y).im = x.im + y.im := rfl
@[simp] theorem neg_re (x : GRat) : (-x).re = -x.re := rfl
@[simp] theorem neg_im (x : GRat) : (-x).im = -x.im := rfl
@[simp] theorem sub_re (x y : GRat) : (x - y).re = x.re - y.re := rfl
@[simp] theorem sub_im (x y : GRat) : (x - y).im = x.im - y.im := rfl
@[simp] theorem mul_re (x y : GRat) : (x * y).re = x.re * y.re - x.im * y.im := rfl
@[simp] theorem mul_im (x y : GRat) : (x * y).im = x.re * y.im + x.im * y.re := rfl
@[simp] theorem inv_re (x : GRat) : (x⁻¹).re = x.re / (x.re * x.re + x.im * x.im) := rfl
@[simp] theorem inv_im (x : GRat) : (x⁻¹).im = -x.im / (x.re * x.re + x.im * x.im) := rfl
theorem div_def (x y : GRat) : x / y = x * y⁻¹ := rfl

theorem normSq_ne_zero {x : GRat} (h : x ≠ 0) : x.re * x.re + x.im * x.im ≠ 0 := by
  intro h0
  apply h
  have h1 : 0 ≤ x.re * x.re := mul_self_nonneg _
  have h2 : 0 ≤ x.im * x.im := mul_self_nonneg _
  have hr : x.re * x.re = 0 := by linarith
  have hi : x.im * x.im = 0 := by linarith
  ext
  · simpa using mul_self_eq_zero.1 hr
  · simpa using mul_self_eq_zero.1 hi

instance : CommRing GRat where
  add := (· + ·)
  zero := 0
  neg := Neg.neg
  sub := (· - ·)
  mul := (· * ·)
  one := 1
  add_assoc := by intros; ext <;> simp <;> ring
  zero_add := by intros; ext <;> simp
  add_zero := by intros; ext <;> simp
  add_comm := by intros; ext <;> simp <;> ring
  neg_add_cancel := by intros; ext <;> simp
  sub_eq_add_neg := by intros; ext <;> simp <;> ring
  mul_assoc := by intros; ext <;> simp <;> ring
  one_mul := by intros; ext <;> simp
  mul_one := by intros; ext <;> simp
  left_distrib := by intros; ext <;> simp <;> ring
  right_distrib := by intros; ext <;> simp <;> ring
  zero_mul := by intros; ext <;> simp
  mul_zero := by intros; ext <;> simp
  mul_comm := by intros; ext <;> simp <;> ring
  nsmul := nsmulRec
  zsmul := zsmulRec

instance : Field GRat where
  inv := Inv.inv
  div := (· / ·)
  div_eq_mul_inv := div_def
  exists_pair_ne := ⟨0, 1, by intro h; have := congrArg GRat.re h; simp at this⟩
  mul_inv_cancel := by
    intro x hx
    have hn := normSq_ne_zero hx
    have hn' : x.re ^ 2 + x.im ^ 2 ≠ 0 := by simpa [sq] using hn
    ext
    · simp only [mul_re, inv_re, inv_im, one_re]; field_simp; ring
    · simp only [mul_im, inv_re, inv_im, one_im]; field_simp; ring
  inv_zero := by ext <;> simp
  nnqsmul := _
  nnqsmul_def := fun _ _ => rfl
  qsmul := _
  qsmul_def := fun _ _ => rfl

/-- the embedding ℚ[i] → ℂ -/
def toC (g : GRat) : ℂ := ⟨(g.re : ℝ), (g.im : ℝ)⟩

@[simp] theorem toC_re (g : GRat) : (toC g).re = g.re := rfl
@[simp] theorem toC_im (g : GRat) : (toC g).im = g.im := rfl

/-- the embedding as a ring homomorphism -/
def toCHom : GRat →+* ℂ where
  toFun := toC
  map_one' := by apply Complex.ext <;> simp
  map_mul' := by intro x y; apply Complex.ext <;> simp
  map_zero' := by apply Complex.ext <;> simp
  map_add' := by intro x y; apply Complex.ext <;> simp

@[simp] theorem toCHom_apply (g : GRat) : toCHom g = toC g := rfl

end GRat

/-! #### the specification commutes with field homomorphisms -/
section hom
variable {K L : Type} [Field K] [Field L] (φ : K →+* L)

def Resp.map {α β : Type} (f : α → β) : Resp α → Resp β
  | .valueError => .valueError
  | .typeError => .typeError
  | .nan => .nan
  | .val v => .val (f v)

theorem evalFrom_hom (w : K) (i : Nat) (c : List K) :
    evalFrom (φ w) i (c.map φ) = φ (evalFrom w i c) := by
  induction c generalizing i with
  | nil => simp [evalFrom]
  | cons x xs ih => simp [evalFrom, ih, pw_eq_pow]

theorem evalDirect_hom (c : List K) (w : K) :
    evalDirect (c.map φ) (φ w) = φ (evalDirect c w) := evalFrom_hom φ w 0 c

variable [DecidableEq K] [DecidableEq L]

theorem Hspec_hom (b a : List K) (w : K) :
    Hspec (b.map φ) (a.map φ) (φ w) = (Hspec b a w).map φ := by
  simp only [Hspec, evalDirect_hom]
  by_cases h : evalDirect a w = 0
  · simp [h]
  · have : φ (evalDirect a w) ≠ 0 := by simpa using h
    simp [h, this]

theorem all_zero_hom (a : List K) :
    (a.map φ).all (fun c => decide (c = 0)) = a.all (fun c => decide (c = 0)) := by
  induction a with
  | nil => rfl
  | cons x xs ih => simp [ih]

theorem respSpec_hom (b a : List K) (w : K) :
    respSpec (b.map φ) (a.map φ) (φ w) = Resp.map φ (respSpec b a w) := by
  simp only [respSpec, all_zero_hom, Hspec_hom]
  split
  · rfl
  · cases Hspec b a w <;> rfl

/-- **the code-shaped evaluation commutes with field homomorphisms** (at non-zero points) -/
theorem respOfFilter_hom (b a : List K) (w : K) (hw : w ≠ 0) :
    respOfFilter (b.map φ) (a.map φ) (φ w) = Resp.map φ (respOfFilter b a w) := by
  have hw' : φ w ≠ 0 := by simpa using hw
  rw [respOfFilter_eq_spec _ _ _ hw', respOfFilter_eq_spec _ _ _ hw, respSpec_hom]

end hom
end ALV.C12
