/-
  C17 — the regenerated synchronisation skeleton (`ALV.Gen.C17.skeleton`, written by
  harness/props/c17_tr.py from `audiolazy/lazy_io.py` on every check) and the transition system.
  Helper lemmas for the `src_*` theorems of `ALV.Props.C17`.  Core Lean only.
-/
import ALV.Gen.C17Src
import ALV.Model.C17Next
namespace ALV.C17
open ALV.Gen.C17

/-- enabledness of a pending yield point: a lock acquisition waits for the lock, `go.wait()` for the
    event, `join` for the end of the thread; everything else is always enabled -/
def yEnabled (s : State) (p : Player) (joined : Bool) : Option Y → Bool
  | some (.acq l, _) => (lockOf s p l).isNone
  | some (.ev .goWait, _) => p.go
  | some (.ev .thrJoin, _) => joined
  | some _ => true
  | none => false

/-- a player thread is enabled exactly when the yield point its program counter stands for
    (`ppcY`) is: `stepPlayer` blocks on the locks and the event the skeleton names there, and nowhere
    else (`begin` is the thread start-up; a `write` with nothing left is the end of an iterable
    that does not raise — the loop head never leaves a thread there) -/
theorem player_enabled_iff (cfg : Cfg) (s : State) (i : Nat) (p : Player)
    (hp : s.players[i]? = some p) (hw : p.pc = .write → p.todo ≠ [] ∨ p.fail = true) :
    (stepPlayer cfg s i).isSome = (p.pc == .begin || yEnabled s p false (ppcY p.pc)) := by
  unfold stepPlayer
  rw [hp]
  rcases p with ⟨pc, audio, cs, all, todo, written, sst, lk, go, halting, fail⟩
  cases pc <;> simp [ppcY, yEnabled, lockOf] at hw ⊢
  · -- write
    rcases todo with _ | ⟨c, rest⟩
    · simpa using hw
    · simp
  · cases go <;> simp
  · cases lk <;> simp
  · cases s.mlock <;> simp

/-- the player whose own lock a program counter of the control thread works on -/
def mpcTarget : MPc → Option Nat
  | .cAcq _ i | .kSAcq i => some i
  | _ => none

/-- the control thread blocks on a lock acquisition exactly when the lock the skeleton names at that
    yield point is held (the manager's locks, or the own lock of the thread `pause` / `play` / `stop`
    is called on) -/
theorem main_acq_enabled_iff (cfg : Cfg) (f : Bool) (s : State) (l : Lk) (held : List Lk)
    (hy : mpcY f s.mpc = some (.acq l, held)) (p : Player)
    (hp : ∀ i, mpcTarget s.mpc = some i → s.players[i]? = some p) :
    (stepMain cfg s).isSome = (lockOf s p l).isNone := by
  unfold stepMain
  rcases s with ⟨mpc, script, players, threads, mlock, hlock, finished, terminated, perr, log⟩
  cases mpc <;> simp [mpcY] at hy <;> obtain ⟨rfl, -⟩ := hy <;> simp [lockOf, mpcTarget] at hp ⊢
  · cases mlock <;> simp <;> cases finished <;> simp
  · rw [hp]; rcases hlk : p.lk with _ | t <;> simp [hlk]
  · cases hlock <;> simp <;> cases finished <;> simp
  · cases mlock <;> simp
  · rw [hp]; rcases hlk : p.lk with _ | t <;> simp [hlk]

/-- `join` waits for the end of the joined thread, and for nothing else -/
theorem main_join_enabled_iff (cfg : Cfg) (s : State) (i : Nat) (h : s.mpc = .kJoin i ∨ s.mpc = .jJoin i) :
    (stepMain cfg s).isSome = isDone s i := by
  unfold stepMain
  rcases h with h | h <;> rw [h] <;> simp <;> cases isDone s i <;> simp

/-- the event operation of a control call in the model (`ctlGo`) is the one `ctlOp` names:
    `go.set()` ↦ true, `go.clear()` ↦ false -/
theorem ctlGo_is_ctlOp (cfg : Cfg) (k : Ctl) :
    ctlOp cfg.fixed k = (if ctlGo cfg k then Op.goSet else Op.goClear) := by
  rcases cfg with ⟨w, f, fl⟩
  cases k <;> cases f <;> rfl

/-- **the successor structure of `stepPlayer` is the skeleton's**: whenever player `i` makes a step
    (source variant `fixed`, the one `src_variant_is_modelled` reads), its program counter moves
    exactly to `nextPc skeleton …`: the yield point the control-flow interpreter of the regenerated
    skeleton of `AudioThread.run` (`ALV.Model.C17Next`) reaches from the pending one, under the guard
    values the player reads in that state (`halting`, `go.is_set()`, another chunk?, still
    registered?, does the pending operation raise?). -/
theorem player_pc_is_nextPc (cfg : Cfg) (hfix : cfg.fixed = true) (s s' : State) (i : Nat) (p : Player)
    (hp : s.players[i]? = some p) (hs : stepPlayer cfg s i = some s') :
    (s'.players[i]?).map (·.pc) = some (nextPc skeleton (playerGv s i p) p.pc) := by
  have hi : i < s.players.length := by
    rcases Nat.lt_or_ge i s.players.length with h | h
    · exact h
    · rw [List.getElem?_eq_none h] at hp; cases hp
  unfold stepPlayer at hs
  rw [hp] at hs
  rcases p with ⟨pc, audio, cs, all, todo, written, sst, lk, go, halting, fail⟩
  rcases cfg with ⟨w, f, fl⟩
  simp only at hfix
  subst hfix
  simp only [playerGv]
  generalize s.threads.contains i = t at hs ⊢
  cases pc <;> simp only [] at hs
  case new => cases hs
  case done => cases hs
  case write =>
    rcases todo with _ | ⟨c, rest⟩ <;> simp only [] at hs
    · cases fail <;> simp at hs
      subst hs
      simp [setP, hi]
      cases halting <;> cases go <;> cases t <;> rfl
    · cases hs
      simp [setP, hi]
      cases halting <;> cases go <;> cases fail <;> cases t <;> rfl
  case goWait =>
    cases go <;> simp at hs
    subst hs
    simp [setP, hi]
    cases halting <;> cases fail <;> cases t <;> rcases todo with _ | ⟨c, rest⟩ <;> rfl
  case finAcq =>
    cases lk <;> simp at hs
    subst hs
    simp [setP, hi]
    cases halting <;> cases go <;> cases fail <;> cases t <;> rcases todo with _ | ⟨c, rest⟩ <;> rfl
  case tfAcq =>
    cases hm : s.mlock <;> simp [hm] at hs
    subst hs
    simp [setP, hi]
    cases halting <;> cases go <;> cases fail <;> cases t <;> rcases todo with _ | ⟨c, rest⟩ <;> rfl
  all_goals
    cases hs
    simp [setP, hi, loopHead]
    cases halting <;> cases go <;> cases fail <;> cases t <;> rcases todo with _ | ⟨c, rest⟩ <;> rfl

/-- **`stepPlayer` is the interpretation of the regenerated `run`**: whenever player `i` makes a step
    (source variant `fixed`), the WHOLE successor state is `stepOfSkel skeleton …`: the effect of the
    operation the skeleton has at the pending yield point (`applyYP`), then of the local operations the
    interpreter passes (`applyLocalP`: the `remove` of `thread_finished`, under the manager's lock), then
    the next yield point as the new program counter. -/
theorem player_step_is_skeleton (cfg : Cfg) (hfix : cfg.fixed = true) (s s' : State) (i : Nat) (p : Player)
    (hp : s.players[i]? = some p) (hs : stepPlayer cfg s i = some s') :
    s' = stepOfSkel skeleton s i p := by
  unfold stepPlayer at hs
  rw [hp] at hs
  rcases p with ⟨pc, audio, cs, all, todo, written, sst, lk, go, halting, fail⟩
  rcases cfg with ⟨w, f, fl⟩
  simp only at hfix
  subst hfix
  simp only [stepOfSkel, playerGv]
  generalize s.threads.contains i = t at hs ⊢
  cases pc <;> simp only [] at hs
  case new => cases hs
  case done => cases hs
  case write =>
    rcases todo with _ | ⟨c, rest⟩ <;> simp only [] at hs
    · cases fail <;> simp at hs
      subst hs
      cases halting <;> cases go <;> cases t <;> rfl
    · cases hs
      cases halting <;> cases go <;> cases fail <;> cases t <;> rfl
  case goWait =>
    cases go <;> simp at hs
    subst hs
    cases halting <;> cases fail <;> cases t <;> rcases todo with _ | ⟨c, rest⟩ <;> rfl
  case finAcq =>
    cases lk <;> simp at hs
    subst hs
    cases halting <;> cases go <;> cases fail <;> cases t <;> rcases todo with _ | ⟨c, rest⟩ <;> rfl
  case tfAcq =>
    cases hm : s.mlock <;> simp [hm] at hs
    subst hs
    cases halting <;> cases go <;> cases fail <;> cases t <;> rcases todo with _ | ⟨c, rest⟩ <;> rfl
  all_goals
    cases hs
    cases halting <;> cases go <;> cases fail <;> cases t <;> rcases todo with _ | ⟨c, rest⟩ <;> rfl

/-- **the successor structure of `stepMain` inside a call is the skeleton's**: at every program
    counter that is a yield point of `play` / `close` / `pause` / `play` / `stop` (`mpcMethod`), a step
    of the control thread goes to the yield point the control-flow interpreter reaches in the
    REGENERATED method (with `AudioThread.__init__` / `thread.stop()` inlined) under the guard values
    of that state — or the interpreter says the method is over, exactly at the program counters where
    the model returns to the script (`mpcReturns`); and the call stays in its method until then. -/
theorem main_pc_is_nextY (cfg : Cfg) (hfix : cfg.fixed = true) (s s' : State) (m : String) (y : Y)
    (hm : mpcMethod s.mpc = some m) (hy : mpcY true s.mpc = some y) (hs : stepMain cfg s = some s') :
    (nextY skeleton m (mainGv cfg s) y).map (·.2) = some (if mpcReturns s.mpc then none else mpcY true s'.mpc) ∧
    (mpcReturns s.mpc = false → mpcMethod s'.mpc = some m) := by
  rcases s with ⟨mpc, script, players, threads, mlock, hlock, finished, terminated, perr, log⟩
  rcases cfg with ⟨w, f, fl⟩
  simp only at hfix
  subst hfix
  unfold stepMain at hs
  simp only [mainGv]
  generalize players.any streamOpen = so at hs ⊢
  generalize threads.isEmpty = te
  cases mpc <;> simp only [mpcMethod, Option.some.injEq, reduceCtorEq] at hm <;> subst hm <;>
    simp only [mpcY, Option.some.injEq] at hy <;> subst hy <;> simp only [] at hs
  case pAcq audio cs =>
    cases mlock <;> simp at hs
    cases finished <;> simp at hs <;> subst hs <;> cases w <;> cases so <;> cases te <;> exact ⟨rfl, fun _ => rfl⟩
  case kHAcq =>
    cases hlock <;> simp at hs
    cases finished <;> simp at hs <;> subst hs <;> cases w <;> cases so <;> cases te <;> exact ⟨rfl, fun _ => rfl⟩
  case kMAcq =>
    cases mlock <;> simp at hs
    subst hs; cases finished <;> cases w <;> cases so <;> cases te <;> exact ⟨rfl, fun _ => rfl⟩
  case kMRel found =>
    rcases found with _ | j <;> simp only [] at hs
    · cases so <;> simp at hs <;> subst hs <;> cases finished <;> cases w <;> cases te <;> exact ⟨rfl, fun _ => rfl⟩
    · cases hs; cases finished <;> cases w <;> cases so <;> cases te <;> exact ⟨rfl, fun _ => rfl⟩
  case kJoin j =>
    split at hs
    case isFalse => cases hs
    cases hs; cases finished <;> cases w <;> cases so <;> cases te <;> exact ⟨rfl, fun _ => rfl⟩
  case cAcq k j =>
    split at hs
    · split at hs
      · cases hs
      · cases hs; cases k <;> cases finished <;> cases w <;> cases so <;> cases te <;> exact ⟨rfl, fun _ => rfl⟩
    · cases hs
  case kSAcq j =>
    split at hs
    · split at hs
      · cases hs
      · cases hs; cases finished <;> cases w <;> cases so <;> cases te <;> exact ⟨rfl, fun _ => rfl⟩
    · cases hs
  case cEvt k j =>
    split at hs
    · cases hs; cases k <;> cases finished <;> cases w <;> cases so <;> cases te <;> exact ⟨rfl, fun _ => rfl⟩
    · cases hs
  case cRel k j =>
    split at hs
    · cases hs; cases k <;> cases finished <;> cases w <;> cases so <;> cases te <;> exact ⟨rfl, fun h => by cases h⟩
    · cases hs
  case pRaiseRel => cases hs; cases finished <;> cases w <;> cases so <;> cases te <;> exact ⟨rfl, fun h => by cases h⟩
  case pRel => cases hs; cases finished <;> cases w <;> cases so <;> cases te <;> exact ⟨rfl, fun h => by cases h⟩
  case kAssertRel => cases hs; cases finished <;> cases w <;> cases so <;> cases te <;> exact ⟨rfl, fun h => by cases h⟩
  case kHRel r => cases hs; cases finished <;> cases w <;> cases so <;> cases te <;> exact ⟨rfl, fun h => by cases h⟩
  case kTerm => cases hs; cases finished <;> cases w <;> cases so <;> cases te <;> exact ⟨rfl, fun _ => rfl⟩
  all_goals
    split at hs
    · cases hs; cases finished <;> cases w <;> cases so <;> cases te <;> exact ⟨rfl, fun _ => rfl⟩
    · cases hs

/-- **the effects of `stepMain` inside a call are the skeleton's**: the successor state is the effect
    of the operation at the pending yield point of the regenerated method (`applyYM`) followed by the
    local operations the interpreter passes (`applyLocalM`) — up to the program counter
    (`main_pc_is_nextY`) and, at the last lock release of the call, the return to the script
    (`State.next`: the observation logged, the next call). -/
theorem main_step_is_skeleton (cfg : Cfg) (hfix : cfg.fixed = true) (s s' : State) (m : String) (y : Y)
    (t : Option Player)
    (ht : t = match mainTarget s.mpc with
              | some j => s.players[j]?
              | none => none)
    (hm : mpcMethod s.mpc = some m) (hy : mpcY true s.mpc = some y) (hs : stepMain cfg s = some s') :
    ∃ eff, mainStepEff skeleton cfg s t m y = some eff ∧
      if mpcReturns s.mpc then ∃ e, s' = eff.next e else { s' with mpc := s.mpc } = eff := by
  rcases s with ⟨mpc, script, players, threads, mlock, hlock, finished, terminated, perr, log⟩
  rcases cfg with ⟨w, f, fl⟩
  simp only at hfix
  subst hfix
  unfold stepMain at hs
  simp only [mainStepEff, mainGv]
  generalize hso : players.any streamOpen = so at hs ⊢
  generalize threads.isEmpty = te
  cases mpc <;> simp only [mpcMethod, Option.some.injEq, reduceCtorEq] at hm <;> subst hm <;>
    simp only [mpcY, Option.some.injEq] at hy <;> subst hy <;> simp only [mainTarget] at ht <;>
    simp only [] at hs
  case pAcq audio cs =>
    subst ht
    cases mlock <;> simp at hs
    cases finished <;> simp at hs <;> subst hs <;> cases w <;> cases so <;> cases te <;> exact ⟨_, rfl, rfl⟩
  case kHAcq =>
    subst ht
    cases hlock <;> simp at hs
    cases finished <;> simp at hs <;> subst hs <;> cases w <;> cases so <;> cases te <;> exact ⟨_, rfl, rfl⟩
  case kMAcq =>
    subst ht
    cases mlock <;> simp at hs
    subst hs; cases finished <;> cases w <;> cases so <;> cases te <;> exact ⟨_, rfl, rfl⟩
  case kMRel found =>
    subst ht
    rcases found with _ | j <;> simp only [] at hs
    · cases so <;> simp at hs <;> subst hs <;> cases finished <;> cases w <;> cases te <;> exact ⟨_, rfl, rfl⟩
    · cases hs; cases finished <;> cases w <;> cases so <;> cases te <;> exact ⟨_, rfl, rfl⟩
  case kJoin j =>
    subst ht
    split at hs
    case isFalse => cases hs
    cases hs; cases finished <;> cases w <;> cases so <;> cases te <;> exact ⟨_, rfl, rfl⟩
  case kTerm =>
    subst ht; cases hs; cases finished <;> cases w <;> cases so <;> cases te <;> exact ⟨_, rfl, rfl⟩
  case pRaiseRel =>
    subst ht; cases hs; cases finished <;> cases w <;> cases so <;> cases te <;> exact ⟨_, rfl, _, rfl⟩
  case pRel =>
    subst ht; cases hs; cases finished <;> cases w <;> cases so <;> cases te <;> exact ⟨_, rfl, _, rfl⟩
  case kAssertRel =>
    subst ht; cases hs; cases finished <;> cases w <;> cases so <;> cases te <;> exact ⟨_, rfl, _, rfl⟩
  case kHRel r =>
    subst ht; cases hs; cases finished <;> cases w <;> cases so <;> cases te <;> exact ⟨_, rfl, _, rfl⟩
  case cRel k j =>
    rw [← ht] at hs
    rcases t with _ | p <;> simp only [] at hs
    · cases hs
    · cases hs; cases k <;> cases finished <;> cases w <;> cases so <;> cases te <;> exact ⟨_, rfl, _, rfl⟩
  case cAcq k j =>
    rw [← ht] at hs
    rcases t with _ | p <;> simp only [] at hs
    · cases hs
    · rcases p with ⟨pc, audio, cs, all, todo, written, sst, lk, go, halting, fail⟩
      cases lk <;> simp at hs
      subst hs
      cases halting <;> cases k <;> cases finished <;> cases w <;> cases so <;> cases te <;> exact ⟨_, rfl, rfl⟩
  case kSAcq j =>
    rw [← ht] at hs
    rcases t with _ | p <;> simp only [] at hs
    · cases hs
    · rcases p with ⟨pc, audio, cs, all, todo, written, sst, lk, go, halting, fail⟩
      cases lk <;> simp at hs
      subst hs
      cases finished <;> cases w <;> cases so <;> cases te <;> exact ⟨_, rfl, rfl⟩
  case cEvt k j =>
    rw [← ht] at hs
    rcases t with _ | p <;> simp only [] at hs
    · cases hs
    · cases hs; cases k <;> cases finished <;> cases w <;> cases so <;> cases te <;> exact ⟨_, rfl, rfl⟩
  all_goals
    rw [← ht] at hs
    rcases t with _ | p <;> simp only [] at hs
    · cases hs
    · cases hs; cases finished <;> cases w <;> cases so <;> cases te <;> exact ⟨_, rfl, rfl⟩

end ALV.C17
