/-
  C20 — clip: the four branches of the code are `min(high, max(low, ·))` with absent limits
  skipped; idempotent; bounded.
-/
import Mathlib.Order.Defs.LinearOrder
import Mathlib.Tactic.Order
import Mathlib.Tactic.SplitIfs
import ALV.Spec.C20

namespace ALV.C20
variable {K : Type} [LinearOrder K]
set_option linter.unnecessarySeqFocus false

theorem clip_branch_high (hi x : K) : (if x < hi then x else hi) = clip1 none (some hi) x := by
  simp only [clip1]; split_ifs <;> order

theorem clip_branch_low (lo x : K) : (if x > lo then x else lo) = clip1 (some lo) none x := by
  simp only [clip1]; split_ifs <;> order

theorem clip_branch_both (lo hi x : K) (h : ¬ hi < lo) :
    (if x > hi then hi else (if x < lo then lo else x)) = clip1 (some lo) (some hi) x := by
  simp only [clip1]; split_ifs <;> order

/-- a limit pair is *consistent* unless both are given and `high < low` -/
def limitsOk (low high : Option K) : Prop := ∀ lo hi, low = some lo → high = some hi → ¬ hi < lo

theorem clip1_within (low high : Option K) (ok : limitsOk low high) (x : K) :
    withinLimits low high (clip1 low high x) := by
  cases low with
  | none =>
    cases high with
    | none => simp [withinLimits]
    | some hi =>
      refine ⟨by simp, ?_⟩
      intro h e; cases e
      simp only [clip1]; split_ifs <;> order
  | some lo =>
    cases high with
    | none =>
      refine ⟨?_, by simp⟩
      intro l e; cases e
      simp only [clip1]; split_ifs <;> order
    | some hi =>
      have := ok lo hi rfl rfl
      refine ⟨?_, ?_⟩
      · intro l e; cases e
        simp only [clip1]; split_ifs <;> order
      · intro h e; cases e
        simp only [clip1]; split_ifs <;> order

theorem clip1_of_within (low high : Option K) (x : K) (h : withinLimits low high x) :
    clip1 low high x = x := by
  obtain ⟨h1, h2⟩ := h
  cases low with
  | none =>
    cases high with
    | none => simp [clip1]
    | some hi =>
      have := h2 hi rfl
      simp only [clip1]; split_ifs <;> order
  | some lo =>
    have a := h1 lo rfl
    cases high with
    | none => simp only [clip1]; split_ifs <;> order
    | some hi =>
      have := h2 hi rfl
      simp only [clip1]; split_ifs <;> order

theorem clip_eq_clipSpec (low high : Option K) (xs : List K) : clip low high xs = clipSpec low high xs := by
  cases low with
  | none =>
    cases high with
    | none =>
      have : (clip1 none none : K → K) = id := by funext x; simp [clip1]
      simp [clip, clipSpec, this]
    | some hi =>
      simp only [clip, clipSpec]
      congr 1
      apply List.map_congr_left; intro x _; exact clip_branch_high hi x
  | some lo =>
    cases high with
    | none =>
      simp only [clip, clipSpec]
      congr 1
      apply List.map_congr_left; intro x _; exact clip_branch_low lo x
    | some hi =>
      simp only [clip, clipSpec]
      split_ifs with h
      · rfl
      · congr 1
        apply List.map_congr_left; intro x _; exact clip_branch_both lo hi x h

theorem clipSpec_ok_iff (low high : Option K) (xs ys : List K) :
    clipSpec low high xs = .ok ys ↔ limitsOk low high ∧ ys = xs.map (clip1 low high) := by
  cases low with
  | none => simp [clipSpec, limitsOk, eq_comm]
  | some lo =>
    cases high with
    | none => simp [clipSpec, limitsOk, eq_comm]
    | some hi =>
      simp only [clipSpec, limitsOk]
      split_ifs with h
      · simp only [false_iff, not_and]
        intro hh; exact absurd h (hh lo hi rfl rfl)
      · simp only [Except.ok.injEq]
        constructor
        · intro e; refine ⟨?_, e.symm⟩
          intro l h' e1 e2; cases e1; cases e2; exact h
        · intro ⟨_, e⟩; exact e.symm

end ALV.C20
