/-
  C02 — rational-arithmetic lemmas (core Lean only: `Rat.ceil` + `grind`):
  closed forms of the Streamix start time and of the `resample` read positions.
-/
import ALV.Lemmas.C02
namespace ALV.C02
open ALV ALV.Stage

theorem ceil_sub_one (x : Rat) : (x - 1).ceil = x.ceil - 1 := by
  apply Int.le_antisymm
  · rw [Rat.ceil_le_iff]
    have := @Rat.le_ceil x
    push_cast
    grind
  · have h : x.ceil ≤ (x - 1).ceil + 1 := by
      rw [Rat.ceil_le_iff]
      have := @Rat.le_ceil (x - 1)
      push_cast
      grind
    omega

theorem ceil_mono {x y : Rat} (h : x ≤ y) : x.ceil ≤ y.ceil := by
  rw [Rat.ceil_le_iff]
  have := @Rat.le_ceil y
  grind

theorem ceil_pos {x : Rat} (h : 0 < x) : 0 < x.ceil := by
  rw [Rat.lt_ceil_iff]; simpa using h

theorem ceil_nonpos {x : Rat} (h : x ≤ 0) : x.ceil ≤ 0 := by
  rw [Rat.ceil_le_iff]; simpa using h

/-! ### Streamix: outputs before an event starts -/

theorem smixWait_eq (delta : Rat) : ∀ (fuel : Nat) (count : Rat),
    (delta - count).ceil.toNat ≤ fuel → smixWait delta fuel count = (delta - count).ceil.toNat := by
  intro fuel
  induction fuel with
  | zero => intro count h; simp only [smixWait]; omega
  | succ f ih =>
    intro count h
    rw [smixWait]
    by_cases hc : count ≥ delta
    · rw [if_pos hc]
      have := ceil_nonpos (x := delta - count) (by grind)
      omega
    · rw [if_neg hc]
      have hp := ceil_pos (x := delta - count) (by grind)
      have he : delta - (count + 1) = delta - count - 1 := by grind
      have h1 := ceil_sub_one (delta - count)
      rw [ih (count + 1) (by rw [he, h1]; omega), he, h1]
      omega

/-- the code's loop agrees with the closed form: an event with time `delta` starts after
    `ceil(delta - 1/2)` outputs -/
theorem smixStart_eq (delta : Rat) : smixStart delta = smixStartSpec delta := by
  unfold smixStart smixStartSpec
  apply smixWait_eq
  have := ceil_mono (x := delta - 1 / 2) (y := delta) (by grind)
  omega

/-! ### resample: position driven reads -/

theorem rsBurst_spec (thr step : Rat) : ∀ (fuel : Nat) (idx : Rat),
    thr - idx < ((fuel + 1 : Nat) : Rat) * step →
    1 ≤ (rsBurst thr step fuel idx).1 ∧
    (rsBurst thr step fuel idx).2 = idx + ((rsBurst thr step fuel idx).1 : Rat) * step ∧
    thr < (rsBurst thr step fuel idx).2 ∧
    ∀ j : Nat, 1 ≤ j → j < (rsBurst thr step fuel idx).1 → idx + (j : Rat) * step ≤ thr := by
  intro fuel
  induction fuel with
  | zero =>
    intro idx h
    simp only [rsBurst]
    refine ⟨Nat.le_refl 1, by simp, ?_, fun j h1 h2 => by omega⟩
    simp at h
    grind
  | succ f ih =>
    intro idx h
    simp only [rsBurst]
    by_cases hgt : idx + step > thr
    · rw [if_pos hgt]
      exact ⟨Nat.le_refl 1, by simp, hgt, fun j h1 h2 => by omega⟩
    · rw [if_neg hgt]
      have h' : thr - (idx + step) < ((f + 1 : Nat) : Rat) * step := by
        push_cast at h ⊢
        grind
      obtain ⟨i1, i2, i3, i4⟩ := ih (idx + step) h'
      refine ⟨by omega, ?_, i3, ?_⟩
      · show (rsBurst thr step f (idx + step)).2 = _
        rw [i2]
        push_cast
        grind
      · intro j h1 h2
        cases j with
        | zero => omega
        | succ j' =>
          by_cases hj : j' = 0
          · subst hj
            simp
            grind
          · have := i4 j' (by omega) (by
              show j' < (rsBurst thr step f (idx + step)).1
              have : j' + 1 < (rsBurst thr step f (idx + step)).1 + 1 := h2
              omega)
            push_cast
            grind

theorem rsFuel_ok (thr step idx : Rat) (hstep : 0 < step) :
    thr - idx < ((rsFuel thr step idx + 1 : Nat) : Rat) * step := by
  unfold rsFuel
  have hq : (thr - idx) / step * step = thr - idx := Rat.div_mul_cancel (by grind)
  have h1 : (thr - idx) / step ≤ (((thr - idx) / step).ceil : Rat) := Rat.le_ceil
  have h2 : (((thr - idx) / step).ceil : Rat) ≤ ((((thr - idx) / step).ceil.toNat : Nat) : Rat) := by
    rw [← Rat.intCast_natCast, Rat.intCast_le_intCast]
    omega
  have h3 := Rat.mul_le_mul_of_nonneg_right (Rat.le_trans h1 h2) (Rat.le_of_lt hstep)
  rw [hq] at h3
  push_cast
  grind

/-- `threshold = .5 * (order + 1)` -/
def rsThr (order : Nat) : Rat := ((order + 1 : Nat) : Rat) / 2

theorem rs_onItem_gt {α : Type} (order : Nat) (step v : Rat) (x : α) (h : v - 1 > rsThr order) :
    (resampleS order step : Stage α Unit RsSt).onItem ⟨0, v⟩ x = (⟨0, v - 1⟩, []) := by
  unfold rsThr at h
  simp only [resampleS]; rw [if_pos h]

theorem rs_onItem_le {α : Type} (order : Nat) (step v : Rat) (x : α) (h : ¬ v - 1 > rsThr order) :
    (resampleS order step : Stage α Unit RsSt).onItem ⟨0, v⟩ x =
      (⟨0, (rsBurst (rsThr order) step (rsFuel (rsThr order) step (v - 1)) (v - 1)).2⟩,
        List.replicate (rsBurst (rsThr order) step (rsFuel (rsThr order) step (v - 1)) (v - 1)).1 ()) := by
  unfold rsThr at h ⊢
  simp only [resampleS]; rw [if_neg h]

/-- reads still needed for `k+1` more outputs when the loop is about to `yield` at position
    `v ≤ thr` (no read before the first of them) -/
theorem needFrom_afterBurst {α : Type} (order : Nat) (step : Rat) (hstep : 0 < step)
    (xs : List α)
    (IH : ∀ (v : Rat) (k : Nat), rsThr order < v →
      (v + (k : Rat) * step - rsThr order).ceil.toNat ≤ xs.length →
      (resampleS order step : Stage α Unit RsSt).needFrom ⟨0, v⟩ (k + 1) xs =
        some ((v + (k : Rat) * step - rsThr order).ceil.toNat))
    (v : Rat) (hv : v ≤ rsThr order) (k : Nat)
    (hlen : (v + (k : Rat) * step - rsThr order).ceil.toNat ≤ xs.length) :
    (resampleS order step : Stage α Unit RsSt).needFrom
        ⟨0, (rsBurst (rsThr order) step (rsFuel (rsThr order) step v) v).2⟩
        (k + 1 - (rsBurst (rsThr order) step (rsFuel (rsThr order) step v) v).1) xs =
      some ((v + (k : Rat) * step - rsThr order).ceil.toNat) := by
  obtain ⟨b1, b2, b3, b4⟩ := rsBurst_spec (rsThr order) step _ v (rsFuel_ok (rsThr order) step v hstep)
  generalize (rsBurst (rsThr order) step (rsFuel (rsThr order) step v) v).1 = c at *
  generalize (rsBurst (rsThr order) step (rsFuel (rsThr order) step v) v).2 = w at *
  generalize rsThr order = thr at *
  by_cases hk : k + 1 ≤ c
  · have h0 : k + 1 - c = 0 := by omega
    rw [h0, needFrom_zero]
    have hle : v + (k : Rat) * step - thr ≤ 0 := by
      by_cases hk0 : k = 0
      · subst hk0; simp; grind
      · have := b4 k (by omega) (by omega); grind
    have := ceil_nonpos hle
    congr 1; omega
  · obtain ⟨k', rfl⟩ : ∃ k', k = k' + c := ⟨k - c, by omega⟩
    have e : k' + c + 1 - c = k' + 1 := by omega
    have hw : w + (k' : Rat) * step - thr = v + ((k' + c : Nat) : Rat) * step - thr := by
      rw [b2]; simp only [Rat.natCast_add]; grind
    rw [e, IH w k' b3 (by rw [hw]; exact hlen), hw]

theorem needFrom_resample_main {α : Type} (order : Nat) (step : Rat) (hstep : 0 < step) :
    ∀ (xs : List α) (v : Rat) (k : Nat), rsThr order < v →
      (v + (k : Rat) * step - rsThr order).ceil.toNat ≤ xs.length →
      (resampleS order step : Stage α Unit RsSt).needFrom ⟨0, v⟩ (k + 1) xs =
        some ((v + (k : Rat) * step - rsThr order).ceil.toNat) := by
  intro xs
  induction xs with
  | nil =>
    intro v k hv hlen
    exfalso
    have hk : (0 : Rat) ≤ (k : Rat) * step := Rat.mul_nonneg Rat.natCast_nonneg (Rat.le_of_lt hstep)
    have := ceil_pos (x := v + (k : Rat) * step - rsThr order) (by grind)
    rw [List.length_nil] at hlen
    omega
  | cons x xs ih =>
    intro v k hv hlen
    have hk : (0 : Rat) ≤ (k : Rat) * step := Rat.mul_nonneg Rat.natCast_nonneg (Rat.le_of_lt hstep)
    have hpos := ceil_pos (x := v + (k : Rat) * step - rsThr order) (by grind)
    have hsub : v - 1 + (k : Rat) * step - rsThr order = v + (k : Rat) * step - rsThr order - 1 := by
      grind
    have hc1 := ceil_sub_one (v + (k : Rat) * step - rsThr order)
    rw [List.length_cons] at hlen
    rw [needFrom]
    by_cases hgt : v - 1 > rsThr order
    · rw [rs_onItem_gt order step v x hgt]
      simp only [List.length_nil, Nat.sub_zero]
      rw [ih (v - 1) k hgt (by rw [hsub, hc1]; omega), hsub, hc1]
      simp only [Option.map_some]
      congr 1; omega
    · rw [rs_onItem_le order step v x hgt]
      simp only [List.length_replicate]
      rw [needFrom_afterBurst order step hstep xs ih (v - 1) (by grind) k
        (by rw [hsub, hc1]; omega), hsub, hc1]
      simp only [Option.map_some]
      congr 1; omega

theorem rs_onItem_one {α : Type} (order : Nat) (step v : Rat) (x : α) :
    (resampleS order step : Stage α Unit RsSt).onItem ⟨1, v⟩ x =
      (⟨0, (rsBurst (rsThr order) step (rsFuel (rsThr order) step v) v).2⟩,
        List.replicate (rsBurst (rsThr order) step (rsFuel (rsThr order) step v) v).1 ()) := by
  unfold rsThr
  simp only [resampleS]

theorem rs_onItem_pre {α : Type} (order : Nat) (step v : Rat) (x : α) (p : Nat) :
    (resampleS order step : Stage α Unit RsSt).onItem ⟨p + 2, v⟩ x = (⟨p + 1, v⟩, []) := by
  simp only [resampleS]

/-- the initial `take`: `p+1` items still to be read before the first yield at position `i0` -/
theorem needFrom_resample_prefill {α : Type} (order : Nat) (step : Rat) (hstep : 0 < step)
    (i0 : Rat) (hi : i0 ≤ rsThr order) : ∀ (p : Nat) (xs : List α) (k : Nat),
      p + 1 + (i0 + (k : Rat) * step - rsThr order).ceil.toNat ≤ xs.length →
      (resampleS order step : Stage α Unit RsSt).needFrom ⟨p + 1, i0⟩ (k + 1) xs =
        some (p + 1 + (i0 + (k : Rat) * step - rsThr order).ceil.toNat) := by
  intro p
  induction p with
  | zero =>
    intro xs k hlen
    cases xs with
    | nil => rw [List.length_nil] at hlen; omega
    | cons x xs =>
      rw [List.length_cons] at hlen
      rw [needFrom, rs_onItem_one]
      simp only [List.length_replicate]
      rw [needFrom_afterBurst order step hstep xs (needFrom_resample_main order step hstep xs)
        i0 hi k (by omega)]
      simp only [Option.map_some]
      congr 1; omega
  | succ p ih =>
    intro xs k hlen
    cases xs with
    | nil => rw [List.length_nil] at hlen; omega
    | cons x xs =>
      rw [List.length_cons] at hlen
      rw [needFrom, rs_onItem_pre]
      simp only [List.length_nil, Nat.sub_zero]
      rw [ih xs k (by omega)]
      simp only [Option.map_some]
      congr 1; omega

theorem rs_floor_le (order : Nat) : (((order + 1) / 2 : Nat) : Rat) ≤ rsThr order := by
  unfold rsThr
  have h : 2 * ((order + 1) / 2) ≤ order + 1 := Nat.mul_div_le _ _
  have h' : ((2 * ((order + 1) / 2) : Nat) : Rat) ≤ ((order + 1 : Nat) : Rat) :=
    Rat.natCast_le_natCast.2 h
  rw [Rat.natCast_mul] at h'
  have e2 : ((2 : Nat) : Rat) = 2 := rfl
  rw [e2] at h'
  grind

/-- **resample**: `k` outputs read the initial `take` plus one item per unit of position -/
theorem hasNeed_resampleS {α : Type} (order : Nat) (step : Rat) (hstep : 0 < step) :
    HasNeed (resampleS order step : Stage α Unit RsSt) (needResample order step) := by
  intro xs k hk
  cases k with
  | zero => exact needFrom_zero _ _ _
  | succ k =>
    have e : (((k + 1 - 1 : Nat) : Rat) * step -
          (((order + 1 : Nat) : Rat) / 2 - (((order + 1) / 2 : Nat) : Rat))) =
        (((order + 1) / 2 : Nat) : Rat) + (k : Rat) * step - rsThr order := by
      unfold rsThr
      rw [Nat.add_sub_cancel]
      grind
    unfold needResample at hk ⊢
    simp only [Nat.succ_ne_zero, if_false] at hk ⊢
    rw [e] at hk ⊢
    exact needFrom_resample_prefill order step hstep _ (rs_floor_le order) (order / 2) xs k hk

end ALV.C02
