/-
  C19 — helper lemmas for `resample`: Lagrange interpolation on `enumerate(data)`.
-/
import ALV.Lemmas.C19Table
import Mathlib.Data.List.Nodup

namespace ALV.C19
set_option linter.unusedSectionVars false
set_option linter.unusedSimpArgs false

variable {K : Type} [Field K] [LinearOrder K] [IsStrictOrderedRing K] [FloorRing K]

theorem foldl_mul_zero {β : Type} (f : β → K) (l : List β) :
    l.foldl (fun p r => p * f r) 0 = 0 := by
  induction l with
  | nil => rfl
  | cons r l ih => simpa using ih

theorem foldl_mul_eq_zero {β : Type} (f : β → K) (l : List β) (h : ∃ r ∈ l, f r = 0) (p : K) :
    l.foldl (fun p r => p * f r) p = 0 := by
  induction l generalizing p with
  | nil => simp at h
  | cons r l ih =>
    obtain ⟨r', hr', h0⟩ := h
    simp only [List.foldl_cons]
    rcases List.mem_cons.mp hr' with rfl | hmem
    · rw [h0, mul_zero]; exact foldl_mul_zero f l
    · exact ih ⟨r', hmem, h0⟩ _

theorem foldl_mul_eq_self {β : Type} (f : β → K) (l : List β) (h : ∀ r ∈ l, f r = 1) (p : K) :
    l.foldl (fun p r => p * f r) p = p := by
  induction l generalizing p with
  | nil => rfl
  | cons r l ih =>
    simp only [List.foldl_cons]
    rw [h r (by simp), mul_one]
    exact ih (fun r' hr' => h r' (by simp [hr'])) p

theorem foldl_add_eq_self {β : Type} (g : β → K) (l : List β) (h : ∀ j ∈ l, g j = 0) (a : K) :
    l.foldl (fun acc j => acc + g j) a = a := by
  induction l generalizing a with
  | nil => rfl
  | cons r l ih =>
    simp only [List.foldl_cons]
    rw [h r (by simp), add_zero]
    exact ih (fun r' hr' => h r' (by simp [hr'])) a

theorem foldl_add_single {β : Type} [DecidableEq β] (g : β → K) (l : List β) (i : β)
    (hnd : l.Nodup) (hi : i ∈ l) (h0 : ∀ j ∈ l, j ≠ i → g j = 0) (a : K) :
    l.foldl (fun acc j => acc + g j) a = a + g i := by
  induction l generalizing a with
  | nil => simp at hi
  | cons r l ih =>
    simp only [List.foldl_cons]
    have hnd' := (List.nodup_cons.mp hnd)
    rcases List.mem_cons.mp hi with rfl | hmem
    · apply foldl_add_eq_self
      intro j hj
      exact h0 j (by simp [hj]) (fun e => hnd'.1 (e ▸ hj))
    · have hr : r ≠ i := fun e => hnd'.1 (e ▸ hmem)
      rw [h0 r (by simp) hr, add_zero]
      exact ih hnd'.2 hmem (fun j hj => h0 j (by simp [hj])) a

theorem natCast_sub_ne_zero {a b : Nat} (h : a ≠ b) : (((a : Int) : K)) - (((b : Int) : K)) ≠ 0 := by
  intro e
  have : ((a : Int) : K) = ((b : Int) : K) := by linarith
  exact h (by exact_mod_cast this)

/-- **interpolation property**: at a node the interpolator returns that node's sample -/
theorem lagrangeEnum_node (data : List K) (i : Nat) (hi : i < data.length) :
    lagrangeEnum data (((i : Int) : K)) = data.getD i 0 := by
  unfold lagrangeEnum
  rw [foldl_add_single (fun j => data.getD j 0 *
      ((List.range data.length).filter (· ≠ j)).foldl
        (fun (p : K) (r : Nat) => p * ((((i : Int) : K) - ((r : Int) : K)) / (((j : Int) : K) - ((r : Int) : K)))) 1)
      (List.range data.length) i List.nodup_range (List.mem_range.mpr hi)]
  · rw [foldl_mul_eq_self, mul_one, zero_add]
    intro r hr
    have hne : r ≠ i := by simpa using (List.mem_filter.mp hr).2
    exact div_self (natCast_sub_ne_zero (Ne.symm hne))
  · intro j _ hji
    rw [foldl_mul_eq_zero, mul_zero]
    exact ⟨i, List.mem_filter.mpr ⟨List.mem_range.mpr hi, by simpa using (Ne.symm hji)⟩, by simp⟩

/-! ### the sliding window of `resample` -/

/-- the `N` zero-extended input samples starting at (integer) position `b` -/
def win (xs : List K) (zero : K) (N : Nat) (b : Int) : List K :=
  (List.range N).map fun (j : Nat) => extGet xs zero (b + (j : Int))

theorem win_length (xs : List K) (zero : K) (N : Nat) (b : Int) : (win xs zero N b).length = N := by
  simp [win]

theorem win_getElem? (xs : List K) (zero : K) (N : Nat) (b : Int) (j : Nat) :
    (win xs zero N b)[j]? = if j < N then some (extGet xs zero (b + (j : Int))) else none := by
  unfold win
  rw [List.getElem?_map]
  by_cases h : j < N
  · simp [h]
  · have : (List.range N)[j]? = none := by
      rw [List.getElem?_eq_none_iff]; simpa using Nat.le_of_not_lt h
    simp [h, this]

/-- sliding by one: drop the oldest sample, append the next input sample -/
theorem win_slide (xs : List K) (zero : K) (N : Nat) (hN : 0 < N) (b : Int) (x : K)
    (hb : 0 ≤ b + N) (hx : xs[(b + N).toNat]? = some x) :
    (win xs zero N b).drop 1 ++ [x] = win xs zero N (b + 1) := by
  apply List.ext_getElem?
  intro j
  rw [win_getElem?]
  by_cases hj : j + 1 < N
  · have h1 : j < ((win xs zero N b).drop 1).length := by simp [win_length]; omega
    rw [List.getElem?_append_left h1, List.getElem?_drop, win_getElem?]
    have : j < N := by omega
    simp only [Nat.add_comm 1 j, hj, if_true, this]
    congr 2
    push_cast; ring
  · by_cases hj2 : j + 1 = N
    · have h1 : ((win xs zero N b).drop 1).length ≤ j := by simp [win_length]; omega
      rw [List.getElem?_append_right h1]
      have hl : ((win xs zero N b).drop 1).length = j := by simp [win_length]; omega
      have hjN : j < N := by omega
      simp only [hl, Nat.sub_self, List.getElem?_cons_zero, hjN, if_true]
      congr 1
      have e : b + 1 + (j : Int) = b + (N : Int) := by omega
      unfold extGet
      rw [e, if_neg (by omega)]
      rw [List.getD_eq_getElem?_getD, hx]; rfl
    · have h1 : ((win xs zero N b).drop 1).length ≤ j := by simp [win_length]; omega
      rw [List.getElem?_append_right h1]
      have hl : ((win xs zero N b).drop 1).length = N - 1 := by simp [win_length]
      have hjN : ¬ j < N := by omega
      simp only [hl, hjN, if_false]
      have : j - (N - 1) = (j - N) + 1 := by omega
      rw [this]; simp

/-- the initial `deque`: `i0` zeros, then the first `N - i0` input samples -/
theorem win_init (xs : List K) (zero : K) (N i0 : Nat) (hi : i0 ≤ N) (hlen : N - i0 ≤ xs.length) :
    (List.replicate N zero ++ xs.take (N - i0)).drop (xs.take (N - i0)).length
      = win xs zero N (-(i0 : Int)) := by
  have hl : (xs.take (N - i0)).length = N - i0 := by rw [List.length_take]; omega
  rw [hl]
  apply List.ext_getElem?
  intro j
  rw [win_getElem?, List.getElem?_drop]
  by_cases hj : j < N
  · simp only [hj, if_true]
    by_cases hj0 : j < i0
    · have h1 : N - i0 + j < (List.replicate N zero).length := by simp; omega
      rw [List.getElem?_append_left h1, List.getElem?_replicate]
      have : N - i0 + j < N := by omega
      simp only [this, if_true]
      unfold extGet
      rw [if_pos (by omega)]
    · have h1 : (List.replicate N zero).length ≤ N - i0 + j := by simp; omega
      rw [List.getElem?_append_right h1]
      simp only [List.length_replicate]
      have e1 : N - i0 + j - N = j - i0 := by omega
      have hjlt : j - i0 < N - i0 := by omega
      rw [e1, List.getElem?_take_of_lt hjlt]
      unfold extGet
      rw [if_neg (by omega)]
      have e2 : (-(i0 : Int) + (j : Int)).toNat = j - i0 := by omega
      rw [e2, List.getD_eq_getElem?_getD]
      have : j - i0 < xs.length := by omega
      rw [List.getElem?_eq_getElem this]; rfl
  · simp only [hj, if_false]
    rw [List.getElem?_eq_none_iff]
    simp only [List.length_append, List.length_replicate, hl]
    omega

/-! ### the inner `while idx > threshold` loop moves the window to the least admissible base -/

theorem resAdvance_stop (thr : K) (rest : List K) (idx : K) (data : List K) (h : ¬ thr < idx) :
    resAdvance thr rest idx data = some (idx, data, rest) := by
  rw [resAdvance.eq_def]; simp only [h, if_false]

theorem resAdvance_nil (thr idx : K) (data : List K) (h : thr < idx) :
    resAdvance thr [] idx data = none := by
  rw [resAdvance.eq_def]; simp only [h, if_true]

theorem resAdvance_cons (thr : K) (x : K) (r : List K) (idx : K) (data : List K) (h : thr < idx) :
    resAdvance thr (x :: r) idx data = resAdvance thr r (idx - 1) (data.drop 1 ++ [x]) := by
  rw [resAdvance.eq_def]; simp only [h, if_true]

theorem resAdvance_spec (xs : List K) (zero thr : K) (N : Nat) (hN : 0 < N) (P' : K) :
    ∀ (k : Nat) (b : Int), (max b ⌈P' - thr⌉ - b).toNat = k → 0 ≤ b + N → b + N ≤ xs.length →
    resAdvance thr (xs.drop (b + N).toNat) (P' - ((b : Int) : K)) (win xs zero N b)
      = if max b ⌈P' - thr⌉ + N ≤ xs.length then
          some (P' - (((max b ⌈P' - thr⌉ : Int)) : K), win xs zero N (max b ⌈P' - thr⌉),
                xs.drop (max b ⌈P' - thr⌉ + N).toNat)
        else none := by
  intro k
  induction k with
  | zero =>
    intro b hk h0 hlen
    have hc : ⌈P' - thr⌉ ≤ b := by omega
    have hm : max b ⌈P' - thr⌉ = b := by omega
    have hle : P' - thr ≤ ((b : Int) : K) := Int.ceil_le.mp hc
    rw [resAdvance_stop _ _ _ _ (by linarith), hm, if_pos hlen]
  | succ k ih =>
    intro b hk h0 hlen
    have hc : b < ⌈P' - thr⌉ := by omega
    have hlt : ((b : Int) : K) < P' - thr := Int.lt_ceil.mp hc
    have hgt : thr < P' - ((b : Int) : K) := by linarith
    by_cases hend : b + N = xs.length
    · have : xs.drop (b + N).toNat = [] := by
        rw [List.drop_eq_nil_iff]; omega
      rw [this, resAdvance_nil _ _ _ hgt, if_neg (by omega)]
    · have hlt2 : (b + N).toNat < xs.length := by omega
      rw [List.drop_eq_getElem_cons hlt2, resAdvance_cons _ _ _ _ _ hgt]
      have hs := win_slide xs zero N hN b xs[(b + N).toNat] h0 (List.getElem?_eq_getElem hlt2)
      have e1 : P' - ((b : Int) : K) - 1 = P' - (((b + 1 : Int)) : K) := by push_cast; ring
      have e2 : (b + N).toNat + 1 = (b + 1 + N).toNat := by omega
      rw [hs, e1, e2, ih (b + 1) (by omega) (by omega) (by omega)]
      have hm : max (b + 1) ⌈P' - thr⌉ = max b ⌈P' - thr⌉ := by omega
      rw [hm]

/-! ### Lagrange interpolation does not depend on where the window's index origin is -/

theorem lagrangeEnum_eq_pts (f : Nat → K) (N : Nat) (b : Int) (x : K) :
    lagrangeEnum ((List.range N).map f) (x - ((b : Int) : K))
      = lagrangePts ((List.range N).map fun (j : Nat) => ((((b + (j : Int)) : Int) : K), f j)) x := by
  unfold lagrangeEnum lagrangePts
  simp only [List.length_map, List.length_range, List.foldl_map, List.filter_map]
  apply List.foldl_ext
  intro acc j hj
  have hjN : j < N := List.mem_range.mp hj
  congr 1
  congr 1
  · simp [List.getD_eq_getElem?_getD, hjN]
  · have hfilt : List.filter ((fun pk : K × K => decide (pk.1 ≠ (((b + (j : Int)) : Int) : K))) ∘
          fun (j : Nat) => ((((b + (j : Int)) : Int) : K), f j)) (List.range N)
        = List.filter (fun r => decide (r ≠ j)) (List.range N) := by
      apply List.filter_congr
      intro r _
      simp only [Function.comp, ne_eq, decide_eq_decide, not_iff_not]
      constructor
      · intro h
        have : (b + (r : Int)) = (b + (j : Int)) := by exact_mod_cast h
        omega
      · intro h; rw [h]
    rw [hfilt]
    apply List.foldl_ext
    intro p r _
    congr 1
    push_cast
    congr 1 <;> ring

/-! ### window base of the specification -/

/-- the model's threshold `.5 * (order + 1)` -/
def resThr (order : Nat) : K := half * ((((order + 1 : Nat) : Int)) : K)

/-- window base of the specification at position `P` -/
def resBase (order : Nat) (P : K) : Int := resShift order P - resI0 order

theorem resI0_le (order : Nat) : ((resI0 order : Int) : K) ≤ resThr order := by
  unfold resI0 resThr
  rw [half_eq]
  have h : 2 * ((order + 1) / 2) ≤ order + 1 := Nat.mul_div_le (order + 1) 2
  have h' : (2 : K) * (((((order + 1) / 2 : Nat) : Int)) : K) ≤ ((((order + 1 : Nat) : Int)) : K) := by
    exact_mod_cast h
  linarith

theorem resBase_eq (order : Nat) (P : K) :
    resBase order P = max (-(resI0 order)) ⌈P - resThr order⌉ := by
  unfold resBase resShift
  rw [pyCeil_eq]
  have e : P + ((resI0 order : Int) : K) - half * ((((order + 1 : Nat) : Int)) : K)
      = (P - resThr order) + ((resI0 order : Int) : K) := by unfold resThr; ring
  rw [e, Int.ceil_add_intCast]
  omega

theorem resBase_mono (order : Nat) {P P' : K} (h : P ≤ P') :
    max (resBase order P) ⌈P' - resThr order⌉ = resBase order P' := by
  rw [resBase_eq, resBase_eq]
  have : ⌈P - resThr order⌉ ≤ ⌈P' - resThr order⌉ := Int.ceil_mono (by linarith)
  omega

theorem resBase_zero (order : Nat) : resBase order (0 : K) = -(resI0 order) := by
  rw [resBase_eq]
  have : ⌈(0 : K) - resThr order⌉ ≤ -(resI0 order) := by
    rw [Int.ceil_le]; push_cast; linarith [resI0_le (K := K) order]
  omega

theorem resBase_ge (order : Nat) (P : K) : 0 ≤ resBase order P + ((order + 1 : Nat) : Int) := by
  rw [resBase_eq]
  have : resI0 order ≤ ((order + 1 : Nat) : Int) := by
    unfold resI0; exact_mod_cast Nat.div_le_self (order + 1) 2
  omega

theorem resExists_iff (xs : List K) (order : Nat) (P : K) :
    resExists xs order P = true ↔ resBase order P + ((order + 1 : Nat) : Int) ≤ xs.length := by
  unfold resExists resBase
  simp only [decide_eq_true_eq]
  push_cast
  omega

theorem resValue_eq (xs : List K) (zero : K) (order : Nat) (P : K) :
    lagrangeEnum (win xs zero (order + 1) (resBase order P)) (P - ((resBase order P : Int) : K))
      = resValue xs zero order P := by
  unfold win resValue
  rw [lagrangeEnum_eq_pts]
  rfl

/-! ### the generator loop refines the position-by-position specification -/

/-- the specification unrolled along a list of positions (the first one exists) -/
def specLoop (xs : List K) (zero : K) (order : Nat) : Nat → List K → List K × Bool
  | 0, _ => ([], false)
  | _ + 1, [] => ([], true)
  | fuel + 1, P :: Ps =>
    let r : List K × Bool := match Ps with
      | [] => ([], true)
      | P' :: _ => if resExists xs order P' then specLoop xs zero order fuel Ps else ([], true)
    (resValue xs zero order P :: r.1, r.2)

theorem resLoop_zero (thr step : K) (steps : Option (List K)) (idx : K) (data rest : List K) :
    resLoop thr step 0 steps idx data rest = ([], .fuel) := by
  rw [resLoop.eq_def]

theorem resLoop_nil (thr step : K) (fuel : Nat) (idx : K) (data rest : List K) :
    resLoop thr step (fuel + 1) (some []) idx data rest = ([lagrangeEnum data idx], .step) := by
  rw [resLoop.eq_def]

theorem resLoop_cons_none (thr step : K) (fuel : Nat) (s : K) (ss : List K) (idx : K)
    (data rest : List K) (h : resAdvance thr rest (idx + s) data = none) :
    resLoop thr step (fuel + 1) (some (s :: ss)) idx data rest = ([lagrangeEnum data idx], .input) := by
  rw [resLoop.eq_def]; simp only [h]

theorem resLoop_cons_some (thr step : K) (fuel : Nat) (s : K) (ss : List K) (idx : K)
    (data rest : List K) (idx' : K) (data' rest' : List K)
    (h : resAdvance thr rest (idx + s) data = some (idx', data', rest')) :
    resLoop thr step (fuel + 1) (some (s :: ss)) idx data rest
      = (lagrangeEnum data idx :: (resLoop thr step fuel (some ss) idx' data' rest').1,
         (resLoop thr step fuel (some ss) idx' data' rest').2) := by
  rw [resLoop.eq_def]; simp only [h]

theorem resLoop_const (thr s : K) : ∀ (fuel : Nat) (idx : K) (data rest : List K),
    resLoop thr s fuel none idx data rest
      = resLoop thr 0 fuel (some (List.replicate fuel s)) idx data rest := by
  intro fuel
  induction fuel with
  | zero => intros; rw [resLoop_zero, resLoop_zero]
  | succ fuel ih =>
    intro idx data rest
    rw [resLoop.eq_def, resLoop.eq_def]
    simp only [List.replicate_succ]
    rcases resAdvance thr rest (idx + s) data with _ | ⟨idx', data', rest'⟩
    · rfl
    · simp only [ih]

theorem resLoop_spec (xs : List K) (zero : K) (order : Nat) :
    ∀ (fuel : Nat) (ss : List K) (P : K), (∀ s ∈ ss, 0 ≤ s) →
    resBase order P + ((order + 1 : Nat) : Int) ≤ xs.length →
    (resLoop (resThr order) 0 fuel (some ss) (P - ((resBase order P : Int) : K))
        (win xs zero (order + 1) (resBase order P))
        (xs.drop (resBase order P + ((order + 1 : Nat) : Int)).toNat)).1
      = (specLoop xs zero order fuel (resPositions P ss)).1 ∧
    ((resLoop (resThr order) 0 fuel (some ss) (P - ((resBase order P : Int) : K))
        (win xs zero (order + 1) (resBase order P))
        (xs.drop (resBase order P + ((order + 1 : Nat) : Int)).toNat)).2 ≠ .fuel
      ↔ (specLoop xs zero order fuel (resPositions P ss)).2 = true) := by
  intro fuel
  induction fuel with
  | zero =>
    intro ss P _ _
    rw [resLoop_zero]
    rcases ss with _ | ⟨s, ss⟩ <;> simp [specLoop, resPositions]
  | succ fuel ih =>
    intro ss P hss hex
    rcases ss with _ | ⟨s, ss⟩
    · rw [resLoop_nil, resValue_eq]
      simp [specLoop, resPositions]
    · have hs : 0 ≤ s := hss s (by simp)
      have hadv := resAdvance_spec xs zero (resThr order) (order + 1) (Nat.succ_pos order) (P + s)
        _ (resBase order P) rfl (resBase_ge order P) hex
      rw [resBase_mono order (show P ≤ P + s by linarith)] at hadv
      have hidx : P - ((resBase order P : Int) : K) + s = P + s - ((resBase order P : Int) : K) := by ring
      have hpos : resPositions P (s :: ss) = P :: resPositions (P + s) ss := rfl
      have hhead : ∃ Ps', resPositions (P + s) ss = (P + s) :: Ps' := by
        rcases ss with _ | ⟨s', ss'⟩ <;> exact ⟨_, rfl⟩
      obtain ⟨Ps', hPs'⟩ := hhead
      by_cases hex' : resBase order (P + s) + ((order + 1 : Nat) : Int) ≤ xs.length
      · rw [if_pos hex'] at hadv
        rw [resLoop_cons_some _ _ _ _ _ _ _ _ _ _ _ (by rw [hidx]; exact hadv), resValue_eq]
        have hE : resExists xs order (P + s) = true := (resExists_iff xs order (P + s)).mpr hex'
        obtain ⟨ih1, ih2⟩ := ih ss (P + s) (fun t ht => hss t (by simp [ht])) hex'
        rw [hpos, hPs']
        simp only [specLoop, hE, if_true]
        rw [← hPs']
        exact ⟨by rw [ih1], ih2⟩
      · rw [if_neg hex'] at hadv
        rw [resLoop_cons_none _ _ _ _ _ _ _ _ (by rw [hidx]; exact hadv), resValue_eq]
        have hE : ¬ resExists xs order (P + s) = true := fun h => hex' ((resExists_iff xs order (P + s)).mp h)
        rw [hpos, hPs']
        simp [specLoop, hE]

theorem specLoop_eq (xs : List K) (zero : K) (order : Nat) : ∀ (n : Nat) (P : K) (Ps : List K),
    resExists xs order P = true →
    specLoop xs zero order n (P :: Ps)
      = ((((P :: Ps).takeWhile (resExists xs order)).take n).map (resValue xs zero order),
         decide (((P :: Ps).takeWhile (resExists xs order)).length ≤ n)) := by
  intro n
  induction n with
  | zero => intro P Ps hP; simp [specLoop, List.takeWhile_cons, hP]
  | succ n ih =>
    intro P Ps hP
    rcases Ps with _ | ⟨P', Ps'⟩
    · simp [specLoop, List.takeWhile_cons, hP]
    · by_cases hP' : resExists xs order P' = true
      · simp only [specLoop, hP', if_true, ih P' Ps' hP']
        simp [List.takeWhile_cons, hP, hP']
      · simp [specLoop, List.takeWhile_cons, hP, hP']

theorem resPositions_replicate (s : K) (n : Nat) : ∀ (t : Nat),
    resPositions (((t : Int) : K) * s) (List.replicate n s)
      = (List.range' t (n + 1)).map fun (m : Nat) => ((m : Int) : K) * s := by
  induction n with
  | zero => intro t; simp [resPositions]
  | succ n ih =>
    intro t
    have e : ((t : ℤ) : K) * s + s = (((t + 1 : Nat) : ℤ) : K) * s := by push_cast; ring
    rw [List.replicate_succ, resPositions, e, ih (t + 1), List.range'_succ (n := n + 1)]
    simp

theorem resPositions_ne_nil (P : K) (ss : List K) : ∃ Ps, resPositions P ss = P :: Ps := by
  rcases ss with _ | ⟨s, ss⟩ <;> exact ⟨_, rfl⟩

/-- the whole generator, stream form of the step -/
theorem resample_strm (xs : List K) (ss : List K) (order : Nat) (zero : K) (n : Nat)
    (ho : 1 ≤ order) (hlen : order / 2 + 1 ≤ xs.length) (hss : ∀ s ∈ ss, 0 ≤ s) :
    ∃ r, resample xs (.strm ss) order zero n = .ok r ∧
      r.1 = (resampleSpec xs (.strm ss) order zero n).1 ∧
      (r.2 ≠ .fuel ↔ (resampleSpec xs (.strm ss) order zero n).2 = true) := by
  have hne : order ≠ 0 := by omega
  have hi0 : (order + 1) / 2 ≤ order + 1 := Nat.div_le_self _ _
  have hnt : order / 2 + 1 = order + 1 - (order + 1) / 2 := by omega
  have hb0 : resBase order (0 : K) = -(((order + 1) / 2 : Nat) : Int) := resBase_zero order
  have hex0 : resBase order (0 : K) + ((order + 1 : Nat) : Int) ≤ xs.length := by
    rw [hb0]; push_cast; omega
  have hE0 : resExists xs order (0 : K) = true := (resExists_iff xs order 0).mpr hex0
  refine ⟨resLoop (resThr order) 0 n (some ss) ((0 : K) - ((resBase order (0 : K) : Int) : K))
      (win xs zero (order + 1) (resBase order (0 : K)))
      (xs.drop (resBase order (0 : K) + ((order + 1 : Nat) : Int)).toNat), ?_, ?_⟩
  · unfold resample
    rw [if_neg hne]
    simp only
    have hw := win_init xs zero (order + 1) ((order + 1) / 2) hi0 (by omega)
    rw [← hnt] at hw
    have hdrop : xs.drop (order / 2 + 1) = xs.drop (resBase order (0 : K) + ((order + 1 : Nat) : Int)).toNat := by
      congr 1; rw [hb0]; push_cast; omega
    have hidx : ((((order + 1) / 2 : Nat) : Int) : K) = (0 : K) - ((resBase order (0 : K) : Int) : K) := by
      rw [hb0]; push_cast; ring
    have hthr : (half : K) * ((((order + 1 : Nat) : Int)) : K) = resThr order := rfl
    rw [hw, hdrop, hidx, hthr, ← hb0]
  · have main := resLoop_spec xs zero order n ss 0 hss hex0
    obtain ⟨Ps, hPs⟩ := resPositions_ne_nil (0 : K) ss
    rw [hPs, specLoop_eq xs zero order n 0 Ps hE0] at main
    unfold resampleSpec
    simp only [hPs]
    simpa using main

theorem resample_num_eq_strm (xs : List K) (s : K) (order : Nat) (zero : K) (n : Nat) :
    resample xs (.num s) order zero n = resample xs (.strm (List.replicate n s)) order zero n := by
  unfold resample
  split
  · rfl
  · simp only [resLoop_const]

theorem resampleSpec_num_eq_strm (xs : List K) (s : K) (order : Nat) (zero : K) (n : Nat) :
    resampleSpec xs (.num s) order zero n = resampleSpec xs (.strm (List.replicate n s)) order zero n := by
  unfold resampleSpec
  have := resPositions_replicate s n 0
  simp only [Nat.cast_zero, Int.cast_zero, zero_mul] at this
  simp only [this, List.range_eq_range']

theorem resample_num (xs : List K) (s : K) (order : Nat) (zero : K) (n : Nat)
    (ho : 1 ≤ order) (hlen : order / 2 + 1 ≤ xs.length) (hs : 0 ≤ s) :
    ∃ r, resample xs (.num s) order zero n = .ok r ∧
      r.1 = (resampleSpec xs (.num s) order zero n).1 ∧
      (r.2 ≠ .fuel ↔ (resampleSpec xs (.num s) order zero n).2 = true) := by
  rw [resample_num_eq_strm, resampleSpec_num_eq_strm]
  exact resample_strm xs _ order zero n ho hlen (fun t ht => by rw [List.eq_of_mem_replicate ht]; exact hs)

/-! ### integer positions reproduce the input -/

theorem resBase_nat (order : Nat) (p : Nat) :
    resBase order (((p : Int) : K)) = (p : Int) - resI0 order := by
  rw [resBase_eq]
  have hc : ⌈((p : Int) : K) - resThr order⌉ = (p : Int) - resI0 order := by
    rw [Int.ceil_eq_iff]
    have h1 := resI0_le (K := K) order
    have h2 : resThr order < (((resI0 order : Int)) : K) + 1 := by
      unfold resI0 resThr
      rw [half_eq]
      have h : order + 1 < 2 * ((order + 1) / 2) + 2 := by omega
      have h' : ((((order + 1 : Nat) : Int)) : K) < 2 * (((((order + 1) / 2 : Nat) : Int)) : K) + 2 := by
        exact_mod_cast h
      linarith
    push_cast
    constructor <;> linarith
  rw [hc]
  have : (0 : Int) ≤ p := Int.natCast_nonneg p
  omega

theorem resValue_nat (xs : List K) (zero : K) (order : Nat) (p : Nat) :
    resValue xs zero order (((p : Int) : K)) = extGet xs zero (p : Int) := by
  rw [← resValue_eq, resBase_nat]
  have hi0 : (order + 1) / 2 < order + 1 := Nat.div_lt_self (Nat.succ_pos _) (by decide)
  have e : ((p : Int) : K) - ((((p : Int) - resI0 order : Int)) : K)
      = (((((order + 1) / 2 : Nat) : Int)) : K) := by
    unfold resI0; push_cast; ring
  rw [e, lagrangeEnum_node _ _ (by rw [win_length]; exact hi0)]
  rw [List.getD_eq_getElem?_getD, win_getElem?, if_pos hi0]
  unfold resI0
  simp

/-! ### identity resampling -/

theorem takeWhile_range'_lt (c : Nat) : ∀ (k s : Nat),
    (List.range' s k).takeWhile (fun m => decide (m < c)) = List.range' s (min k (c - s)) := by
  intro k
  induction k with
  | zero => intro s; simp
  | succ k ih =>
    intro s
    rw [List.range'_succ]
    by_cases h : s < c
    · rw [List.takeWhile_cons_of_pos (by simpa using h), ih (s + 1)]
      have : min (k + 1) (c - s) = min k (c - (s + 1)) + 1 := by omega
      rw [this, List.range'_succ]
    · rw [List.takeWhile_cons_of_neg (by simpa using h)]
      have : min (k + 1) (c - s) = 0 := by omega
      rw [this]; rfl

theorem resExists_nat (xs : List K) (order : Nat) (m : Nat) :
    resExists xs order (((m : Int) : K)) = decide (m < xs.length - order / 2) := by
  have h := resExists_iff xs order (((m : Int) : K))
  rw [resBase_nat] at h
  unfold resI0 at h
  have e : (resExists xs order (((m : Int) : K)) = true) ↔ m < xs.length - order / 2 := by
    rw [h]; push_cast; omega
  by_cases hm : m < xs.length - order / 2
  · rw [decide_eq_true hm]; exact e.mpr hm
  · have : ¬ resExists xs order (((m : Int) : K)) = true := fun hh => hm (e.mp hh)
    rw [decide_eq_false hm]; exact Bool.eq_false_iff.mpr this

theorem map_getD_range (xs : List K) (zero : K) (k : Nat) (hk : k ≤ xs.length) :
    (List.range k).map (fun m => xs.getD m zero) = xs.take k := by
  apply List.ext_getElem
  · simp [hk]
  · intro i h1 h2
    simp only [List.length_map, List.length_range] at h1
    simp [List.getD_eq_getElem?_getD, List.getElem?_eq_getElem (show i < xs.length by omega)]

/-- identity resampling (`old = new`): the output is the input, up to the `order/2` samples whose
    interpolation window would reach past the end -/
theorem resampleSpec_identity (xs : List K) (order : Nat) (zero : K) (n : Nat) :
    (resampleSpec xs (.num 1) order zero n).1 = (xs.take (xs.length - order / 2)).take n := by
  unfold resampleSpec
  simp only [mul_one]
  have hmap : ((List.range (n + 1)).map (fun (m : Nat) => ((m : Int) : K))).takeWhile (resExists xs order)
      = (List.range (min (n + 1) (xs.length - order / 2))).map (fun (m : Nat) => ((m : Int) : K)) := by
    rw [List.takeWhile_map]
    have : (resExists xs order ∘ fun (m : Nat) => ((m : Int) : K))
        = fun m => decide (m < xs.length - order / 2) := by
      funext m; exact resExists_nat xs order m
    rw [this, List.range_eq_range', takeWhile_range'_lt, Nat.sub_zero, List.range_eq_range']
  rw [hmap, ← List.map_take, List.take_range, List.map_map]
  have hv : (resValue xs zero order ∘ fun (m : Nat) => ((m : Int) : K)) = fun m => xs.getD m zero := by
    funext m
    simp only [Function.comp, resValue_nat, extGet]
    simp
  rw [hv, map_getD_range _ _ _ (by omega), List.take_take]
  congr 1
  omega

end ALV.C19
