/-
  C01 — helper lemmas, program level, exception semantics: the value of a well-typed Python-level
  expression, read with `next` in a try/except loop, delivers `Py.outs`.  Core Lean only.
-/
import ALV.Lemmas.C01Exc
import ALV.Lemmas.C01Py
namespace ALV.C01

variable (bad : Term → Bool)

/-! ### iterators over plain data never raise -/

def Iter.isData : Iter → Bool
  | .list _ _ | .rep _ | .cycle _ _ => true
  | .chain a b => a.isData && b.isData
  | _ => false

def liftStep : Option Term × Iter → Out × Iter
  | (some x, e) => (.item x, e)
  | (none, e) => (.stop, e)

theorem Iter.stepE_data : ∀ (e : Iter), e.isData = true → e.stepE bad = liftStep e.step ∧ e.step.2.isData = true := by
  intro e
  induction e with
  | list t xs => intro _; cases xs <;> exact ⟨rfl, rfl⟩
  | rep c => intro _; exact ⟨rfl, rfl⟩
  | cycle cur all => intro _; cases cur <;> cases all <;> exact ⟨rfl, rfl⟩
  | chain a b iha ihb =>
    intro h
    simp only [Iter.isData, Bool.and_eq_true] at h
    obtain ⟨h1, h2⟩ := iha h.1
    obtain ⟨h3, h4⟩ := ihb h.2
    cases hs : a.step with
    | mk o a' =>
      rw [hs] at h1 h2
      cases o with
      | some x => simp [Iter.stepE, Iter.step, hs, h1, liftStep, Iter.isData, h.2]; exact h2
      | none => simp [Iter.stepE, Iter.step, hs, h1, liftStep, h3, h4]
  | mapc g f pre post a _ => intro h; simp [Iter.isData] at h
  | map2 f a b _ _ => intro h; simp [Iter.isData] at h
  | dead a _ => intro h; simp [Iter.isData] at h

theorem Iter.drainE_data : ∀ (n : Nat) (e : Iter), e.isData = true → e.drainE bad n = (e.run n).map .item := by
  intro n
  induction n with
  | zero => intro e _; rfl
  | succ n ih =>
    intro e h
    obtain ⟨h1, h2⟩ := Iter.stepE_data bad e h
    rw [Iter.run_succ]
    cases hs : e.step with
    | mk o e' =>
      rw [hs] at h1 h2
      cases o with
      | none => rw [Iter.drainE_stop bad n (e' := e') (by rw [h1]; rfl)]; rfl
      | some x => rw [Iter.drainE_item bad n (e' := e') (x := x) (by rw [h1]; rfl), ih e' h2]; rfl

theorem Iter.run_list (t : Nat) : ∀ (n : Nat) (xs : List Term), (Iter.list t xs).run n = xs.take n := by
  intro n
  induction n with
  | zero => intro xs; rfl
  | succ n ih =>
    intro xs
    cases xs with
    | nil => rfl
    | cons x r => rw [Iter.run_succ]; simp [Iter.step, ih]

theorem Iter.run_rep (c : Term) : ∀ (n : Nat), (Iter.rep c).run n = List.replicate n c := by
  intro n
  induction n with
  | zero => rfl
  | succ n ih => rw [Iter.run_succ]; simp [Iter.step, ih, List.replicate_succ]

theorem Iter.run_cycle2 (a b : Term) (n : Nat) :
    (Iter.cycle [a, b] [a, b]).run n = (List.range n).map fun i => if i % 2 = 0 then a else b := by
  apply List.ext_getElem?
  intro i
  rw [Iter.run_getElem?, cycle2_get]
  by_cases h : i < n
  · simp only [h, if_true, List.getElem?_map, List.getElem?_range h, Option.map_some]
    split <;> rfl
  · simp only [h, if_false]
    rw [List.getElem?_eq_none (by simp; omega)]

/-! ### values -/

def Val.drain : Val → Nat → List Out
  | .scalar c, n => List.replicate n (.item c)
  | .ignored c, n => List.replicate n (.item c)
  | .iterable _ it, n => it.drainE bad n

theorem streamInit1_drain (v : Val) (n : Nat) : (streamInit1 v).drain bad n = v.drain bad n := by
  cases v with
  | scalar c => simp [streamInit1, Val.drain, Iter.drainE_data bad n (.rep c) rfl, Iter.run_rep]
  | ignored c => simp [streamInit1, Val.drain, Iter.drainE_data bad n (.rep c) rfl, Iter.run_rep]
  | iterable b it => rfl

theorem Py.scalarTerm_of_not_iterable {p : Py} {so : Sort'} (h : p.sort = some so) (hi : so.isIterable = false) :
    ∃ c, p.scalarTerm = some c ∧ (p = .scalar c ∨ p = .ignored c) := by
  have := Py.isIterable_of_sort h
  rw [hi] at this
  cases p <;> simp [Py.isIterable] at this
  · exact ⟨_, rfl, Or.inl rfl⟩
  · exact ⟨_, rfl, Or.inr rfl⟩

theorem Py.scalarTerm_of_iterable {p : Py} {so : Sort'} (h : p.sort = some so) (hi : so.isIterable = true) :
    p.scalarTerm = none := by
  have := Py.isIterable_of_sort h
  rw [hi] at this
  cases p <;> simp [Py.isIterable] at this <;> rfl

/-- **evaluation refines the outcome specification** -/
theorem evalPy_outs (tbl : List (Name × Dunder)) (htbl : TableOK tbl) :
    ∀ (p : Py) (so : Sort'), p.sort = some so →
      ∃ v, evalPy tbl p = .ok v ∧ v.sort = so ∧ ∀ n, v.drain bad n = p.outs bad n := by
  intro p
  induction p with
  | scalar c =>
    intro so h; simp [Py.sort] at h; subst h
    exact ⟨_, rfl, rfl, fun _ => rfl⟩
  | ignored c =>
    intro so h; simp [Py.sort] at h; subst h
    exact ⟨_, rfl, rfl, fun _ => rfl⟩
  | iterable t xs =>
    intro so h; simp [Py.sort] at h; subst h
    refine ⟨_, rfl, rfl, fun n => ?_⟩
    simp [Val.drain, Iter.drainE_data bad n (.list t xs) rfl, Iter.run_list, Py.outsG]
  | stream1 a iha =>
    intro so h
    obtain ⟨rfl, x, hx⟩ := Py.sort_stream1 h
    obtain ⟨va, hva, hsa, hda⟩ := iha x hx
    refine ⟨streamInit1 va, by simp [evalPy, hva, bind, Except.bind, pure, Except.pure], (streamInit1_matches va).1, fun n => ?_⟩
    rw [streamInit1_drain, hda]; rfl
  | stream2 a b iha ihb =>
    intro so h
    obtain ⟨rfl, x, y, hx, hy, hxy⟩ := Py.sort_stream2 h
    obtain ⟨va, hva, hsa, hda⟩ := iha x hx
    obtain ⟨vb, hvb, hsb, hdb⟩ := ihb y hy
    have hia := Py.isIterable_of_sort hx
    cases hxi : x.isIterable with
    | true =>
      have hyi : y.isIterable = true := by rw [← hxy, hxi]
      obtain ⟨ba, ia, rfl⟩ := Val.iterable_like (by rw [hsa, hxi])
      obtain ⟨bb, ib, rfl⟩ := Val.iterable_like (by rw [hsb, hyi])
      refine ⟨.iterable true (.chain ia ib),
        by simp [evalPy, hva, hvb, bind, Except.bind, streamInit2], rfl, fun n => ?_⟩
      have ga : ∀ n, ia.drainE bad n = a.outs bad n := hda
      have gb : ∀ n, ib.drainE bad n = b.outs bad n := hdb
      simp only [Val.drain, Iter.drainE_chain, ga, gb, Py.outsG, hia, hxi, if_true]
    | false =>
      have hyi : y.isIterable = false := by rw [← hxy, hxi]
      obtain ⟨ca, hca, hpa⟩ := Py.scalarTerm_of_not_iterable hx hxi
      obtain ⟨cb, hcb, hpb⟩ := Py.scalarTerm_of_not_iterable hy hyi
      refine ⟨.iterable true (.cycle [ca, cb] [ca, cb]), ?_, rfl, fun n => ?_⟩
      · rcases hpa with rfl | rfl <;> rcases hpb with rfl | rfl <;>
          simp [evalPy, bind, Except.bind, streamInit2]
      · simp only [Val.drain, Iter.drainE_data bad n (.cycle [ca, cb] [ca, cb]) rfl, Iter.run_cycle2, Py.outsG, hia, hxi,
          hca, hcb, List.map_map]
        simp only [Bool.false_eq_true, if_false]
        apply List.map_congr_left
        intro i _
        simp only [Function.comp]
        split <;> rfl
  | un d s ihs =>
    intro so h
    obtain ⟨rfl, hs, sp, hl, har⟩ := Py.sort_un h
    obtain ⟨vs, hvs, hss, hds⟩ := ihs _ hs
    obtain ⟨its, rfl⟩ := Val.of_sort_stream hss
    obtain ⟨hmem, hdn⟩ := specLookup_some hl
    have hlook := htbl sp hmem
    rw [hdn] at hlook
    have hb : sp.dunder.builder = .unary := by simp [DunderSpec.dunder, DunderSpec.builder, har]
    refine ⟨.iterable true (.map1 sp.fn its), ?_, rfl, fun n => ?_⟩
    · simp [evalPy, hvs, bind, Except.bind, asStream, callDunder, hlook, hb, unaryDunder]
      rfl
    · have gs : ∀ n, its.drainE bad n = s.outs bad n := hds
      simp only [Val.drain, Iter.drainE_map, gs, Py.outsG, hl]
      rfl
  | bin d s o ihs iho =>
    intro so h
    obtain ⟨rfl, hs, sp, so', hl, har, ho, hni⟩ := Py.sort_bin h
    obtain ⟨vs, hvs, hss, hds⟩ := ihs _ hs
    obtain ⟨vo, hvo, hso, hdo⟩ := iho _ ho
    obtain ⟨its, rfl⟩ := Val.of_sort_stream hss
    obtain ⟨hmem, hdn⟩ := specLookup_some hl
    have hlook := htbl sp hmem
    rw [hdn] at hlook
    have gs : ∀ n, its.drainE bad n = s.outs bad n := hds
    cases hoi : so'.isIterable with
    | false =>
      obtain ⟨c, hc, hpo⟩ := Py.scalarTerm_of_not_iterable ho hoi
      have hvo' : vo = .scalar c := by
        rcases hpo with rfl | rfl
        · simp [evalPy] at hvo; exact hvo.symm
        · simp [Py.sort] at ho; exact absurd ho.symm hni
      subst hvo'
      cases hr : sp.reflected with
      | false =>
        have hb : sp.dunder.builder = .binary := by simp [DunderSpec.dunder, DunderSpec.builder, har, hr]
        refine ⟨.iterable true (.mapR sp.fn its c), ?_, rfl, fun n => ?_⟩
        · simp [evalPy, hvs, hvo, bind, Except.bind, asStream, callDunder, hlook, hb, binaryDunder]
          rfl
        · simp only [Val.drain, Iter.drainE_map, gs, Py.outsG, hl, hc, hr]
          rfl
      | true =>
        have hb : sp.dunder.builder = .rbinary := by simp [DunderSpec.dunder, DunderSpec.builder, har, hr]
        refine ⟨.iterable true (.mapL sp.fn c its), ?_, rfl, fun n => ?_⟩
        · simp [evalPy, hvs, hvo, bind, Except.bind, asStream, callDunder, hlook, hb, rbinaryDunder]
          rfl
        · simp only [Val.drain, Iter.drainE_map, gs, Py.outsG, hl, hc, hr]
          rfl
    | true =>
      have hc := Py.scalarTerm_of_iterable ho hoi
      obtain ⟨bo, io, rfl⟩ := Val.iterable_like (by rw [hso, hoi])
      have go : ∀ n, io.drainE bad n = o.outs bad n := hdo
      cases hr : sp.reflected with
      | false =>
        have hb : sp.dunder.builder = .binary := by simp [DunderSpec.dunder, DunderSpec.builder, har, hr]
        refine ⟨.iterable true (.map2 sp.fn its io), ?_, rfl, fun n => ?_⟩
        · simp [evalPy, hvs, hvo, bind, Except.bind, asStream, callDunder, hlook, hb, binaryDunder]
          rfl
        · simp only [Val.drain, Iter.drainE_map2 bad sp.fn n n its io (Nat.le_refl _), gs, go, Py.outsG, hl, hc, hr]
          rfl
      | true =>
        have hb : sp.dunder.builder = .rbinary := by simp [DunderSpec.dunder, DunderSpec.builder, har, hr]
        refine ⟨.iterable true (.map2 sp.fn io its), ?_, rfl, fun n => ?_⟩
        · simp [evalPy, hvs, hvo, bind, Except.bind, asStream, callDunder, hlook, hb, rbinaryDunder]
          rfl
        · simp only [Val.drain, Iter.drainE_map2 bad sp.fn n n io its (Nat.le_refl _), gs, go, Py.outsG, hl, hc, hr]
          rfl
  | meth g l s ihs =>
    intro so h
    obtain ⟨rfl, hs⟩ := Py.sort_meth h
    obtain ⟨vs, hvs, hss, hds⟩ := ihs _ hs
    obtain ⟨its, rfl⟩ := Val.of_sort_stream hss
    have gs : ∀ n, its.drainE bad n = s.outs bad n := hds
    refine ⟨.iterable true (.mapc g l [] [] its), ?_, rfl, fun n => ?_⟩
    · simp [evalPy, hvs, bind, Except.bind, asStream, pure, Except.pure]
    · cases g with
      | false => simp only [Val.drain, Iter.drainE_map, gs, Py.outsG]; rfl
      | true => simp only [Val.drain, Iter.drainE_gen, gs, Py.outsG]; rfl
  | append s o ihs iho =>
    intro so h
    obtain ⟨rfl, hs, y, ho⟩ := Py.sort_append h
    obtain ⟨vs, hvs, hss, hds⟩ := ihs _ hs
    obtain ⟨vo, hvo, hso, hdo⟩ := iho _ ho
    obtain ⟨its, rfl⟩ := Val.of_sort_stream hss
    obtain ⟨io, hio⟩ := Val.of_sort_stream (streamInit1_matches vo).1
    have gs : ∀ n, its.drainE bad n = s.outs bad n := hds
    have go : ∀ n, io.drainE bad n = o.outs bad n := fun n => by
      have := streamInit1_drain bad vo n
      rw [hio] at this
      exact this.trans (hdo n)
    refine ⟨.iterable true (.chain its io), ?_, rfl, fun n => ?_⟩
    · simp [evalPy, hvs, hvo, bind, Except.bind, asStream, hio, pure, Except.pure]
    · simp only [Val.drain, Iter.drainE_chain, gs, go, Py.outsG]

/-- without attribute access / call nodes the code's reading IS the property's reading -/
theorem Py.outs_eq_outsP : ∀ (p : Py), p.genFree = true → ∀ n, p.outs bad n = p.outsP bad n := by
  intro p
  induction p with
  | scalar c => intro _ n; rfl
  | ignored c => intro _ n; rfl
  | iterable t xs => intro _ n; rfl
  | stream1 a iha => intro h n; simp only [Py.outsG]; exact iha h n
  | stream2 a b iha ihb =>
    intro h n
    simp only [Py.genFree, Bool.and_eq_true] at h
    simp only [Py.outsG, iha h.1, ihb h.2]
  | un d s ihs => intro h n; simp only [Py.outsG, ihs h]
  | bin d s o ihs iho =>
    intro h n
    simp only [Py.genFree, Bool.and_eq_true] at h
    simp only [Py.outsG, ihs h.1, iho h.2]
  | meth g l s ihs =>
    intro h n
    simp only [Py.genFree, Bool.and_eq_true, Bool.not_eq_true'] at h
    simp only [Py.outsG, ihs h.2, h.1]
    simp
  | append s o ihs iho =>
    intro h n
    simp only [Py.genFree, Bool.and_eq_true] at h
    simp only [Py.outsG, ihs h.1, iho h.2]

end ALV.C01
