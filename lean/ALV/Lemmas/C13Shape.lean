/-
  C13 — helper lemmas, part 3: the `ℝ` reading of every lowpass / highpass strategy is one of the
  four first-order sections of `C13First`.
-/
import ALV.Lemmas.C13First
import Mathlib.Analysis.SpecialFunctions.Exp

set_option linter.unusedSectionVars false
set_option linter.unusedSimpArgs false

namespace ALV.C13
open ALV ALV.TrigField

theorem lowpassPole_eq (c : ℝ) : lowpassPole c = onePoleLP (poleR (2 - Real.cos c)) := by
  simp [lowpassPole, onePoleLP, poleR]

theorem highpassPole_eq (c : ℝ) : highpassPole c = onePoleHP (poleR (2 + Real.cos c)) := by
  simp [highpassPole, onePoleHP, poleR]

theorem lowpassZ_eq (c : ℝ) : lowpassZ c = oneZeroLP (-zR c) := by
  have h : (Real.sin c - 1) / (if Real.cos c = 0 then 1 else Real.cos c) = -zR c := by
    unfold zR; ring
  simp only [lowpassZ, oneZeroLP, denR_real, c1_real, c2_real, real_sin, h]

theorem highpassZ_eq (c : ℝ) : highpassZ c = oneZeroHP (zR c) := by
  simp only [highpassZ, oneZeroHP, denR_real, c1_real, c2_real, real_sin, zR]

theorem lowpassPoleExp_eq (c : ℝ) : lowpassPoleExp c = onePoleLP (Real.exp (-c)) := by
  simp [lowpassPoleExp, onePoleLP]

theorem highpassPoleExp_eq (c : ℝ) : highpassPoleExp c = onePoleHP (Real.exp (c - Real.pi)) := by
  simp [highpassPoleExp, onePoleHP]

theorem lowpassZExp_eq (c : ℝ) : lowpassZExp c = oneZeroLP (Real.exp (c - Real.pi)) := by
  simp [lowpassZExp, oneZeroLP, add_comm]

theorem highpassZExp_eq (c : ℝ) : highpassZExp c = oneZeroHP (Real.exp (-c)) := by
  simp [highpassZExp, oneZeroHP, add_comm]

/-- the pole parameter `R` of each lowpass strategy -/
noncomputable def lowpassR : Strategy → ℝ → ℝ
  | .pole, c => poleR (2 - Real.cos c)
  | .z, c => -zR c
  | .poleExp, c => Real.exp (-c)
  | .zExp, c => Real.exp (c - Real.pi)

/-- the pole parameter `R` of each highpass strategy -/
noncomputable def highpassR : Strategy → ℝ → ℝ
  | .pole, c => poleR (2 + Real.cos c)
  | .z, c => zR c
  | .poleExp, c => Real.exp (c - Real.pi)
  | .zExp, c => Real.exp (-c)

theorem exp_neg_lt_one (c : ℝ) (h : 0 < c) : Real.exp (-c) < 1 := by
  rw [Real.exp_lt_one_iff]; linarith

theorem exp_sub_pi_lt_one (c : ℝ) (h : c < Real.pi) : Real.exp (c - Real.pi) < 1 := by
  rw [Real.exp_lt_one_iff]; linarith

/-- every lowpass pole parameter lies in (-1, 1); for all but `z` in (0, 1) -/
theorem lowpassR_bounds (st : Strategy) (c : ℝ) (h0 : 0 < c) (h1 : c < Real.pi) :
    -1 < lowpassR st c ∧ lowpassR st c < 1 ∧ (st ≠ .z → 0 < lowpassR st c) := by
  have hc1 := cos_lt_one_of_mem c h0 h1
  have hc2 := neg_one_lt_cos_of_mem c h0 h1
  cases st
  · have hp := poleR_pos (2 - Real.cos c) (by linarith)
    exact ⟨by simp only [lowpassR]; linarith, poleR_lt_one _ (by linarith), fun _ => hp⟩
  · obtain ⟨a, b⟩ := zR_bounds c h0 h1
    exact ⟨by simp only [lowpassR]; linarith, by simp only [lowpassR]; linarith, fun h => absurd rfl h⟩
  · have hp := Real.exp_pos (-c)
    exact ⟨by simp only [lowpassR]; linarith, exp_neg_lt_one c h0, fun _ => hp⟩
  · have hp := Real.exp_pos (c - Real.pi)
    exact ⟨by simp only [lowpassR]; linarith, exp_sub_pi_lt_one c h1, fun _ => hp⟩

theorem highpassR_bounds (st : Strategy) (c : ℝ) (h0 : 0 < c) (h1 : c < Real.pi) :
    -1 < highpassR st c ∧ highpassR st c < 1 ∧ (st ≠ .z → 0 < highpassR st c) := by
  have hc1 := cos_lt_one_of_mem c h0 h1
  have hc2 := neg_one_lt_cos_of_mem c h0 h1
  cases st
  · have hp := poleR_pos (2 + Real.cos c) (by linarith)
    exact ⟨by simp only [highpassR]; linarith, poleR_lt_one _ (by linarith), fun _ => hp⟩
  · obtain ⟨a, b⟩ := zR_bounds c h0 h1
    exact ⟨a, b, fun h => absurd rfl h⟩
  · have hp := Real.exp_pos (c - Real.pi)
    exact ⟨by simp only [highpassR]; linarith, exp_sub_pi_lt_one c h1, fun _ => hp⟩
  · have hp := Real.exp_pos (-c)
    exact ⟨by simp only [highpassR]; linarith, exp_neg_lt_one c h0, fun _ => hp⟩

/-- `lowpass[st](c)` is the `pole` section (strategies pole, pole_exp) or the `zero` section
(strategies z, z_exp) with parameter `lowpassR st c` -/
theorem lowpass_eq (st : Strategy) (c : ℝ) :
    lowpass st c = (match st with
      | .pole | .poleExp => onePoleLP (lowpassR st c)
      | .z | .zExp => oneZeroLP (lowpassR st c)) := by
  cases st <;> simp only [lowpass, lowpassR]
  · exact lowpassPole_eq c
  · exact lowpassZ_eq c
  · exact lowpassPoleExp_eq c
  · exact lowpassZExp_eq c

theorem highpass_eq (st : Strategy) (c : ℝ) :
    highpass st c = (match st with
      | .pole | .poleExp => onePoleHP (highpassR st c)
      | .z | .zExp => oneZeroHP (highpassR st c)) := by
  cases st <;> simp only [highpass, highpassR]
  · exact highpassPole_eq c
  · exact highpassZ_eq c
  · exact highpassPoleExp_eq c
  · exact highpassZExp_eq c

end ALV.C13
