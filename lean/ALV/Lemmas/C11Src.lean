/-
  C11 — helper lemmas, part 12: the definitions REGENERATED from `audiolazy/lazy_lpc.py`
  (`ALV/Gen/C11Src.lean`, written by `harness/props/c11_tr.py`) are the model functions of
  `ALV/Model/C11.lean` / `C11Float.lean` — on every carrier that has the operations (no law of
  arithmetic is used: the statements hold for `Rat`, ℝ and the binary64 carrier `F64` alike).
-/
import ALV.Gen.C11Src
import ALV.Model.C11Float
import ALV.Model.C11Call

set_option linter.unusedSectionVars false

namespace ALV.C11.Src
open ALV.C11
variable {α : Type} [Add α] [Mul α] [Sub α] [Neg α] [Div α] [OfNat α 0] [OfNat α 1]
  [DecidableEq α]

/-- reading a tabulated window (law-free twin of `ALV.C11.lget_wtab`) -/
theorem lget_wtab_in (n : Nat) (g : Int → α) (i : Int) (h : -(n : Int) ≤ i ∧ i ≤ (n : Int)) :
    lget n (wtab n g) i = g i := by
  unfold lget
  rw [if_pos h]
  have hj : (i + (n : Int)).toNat < 2 * n + 1 := by omega
  unfold wtab
  rw [List.getD_eq_getElem?_getD, List.getElem?_map, List.getElem?_range hj]
  simp only [Option.map_some, Option.getD_some]
  congr 1
  omega

theorem lget_out (n : Nat) (w : List α) (i : Int) (h : ¬ (-(n : Int) ≤ i ∧ i ≤ (n : Int))) :
    lget n w i = 0 := by
  unfold lget; rw [if_neg h]

/-- a window is determined by the values inside it -/
theorem wtab_congr (n : Nat) (g h : Int → α)
    (hgh : ∀ i : Int, -(n : Int) ≤ i ∧ i ≤ (n : Int) → g i = h i) : wtab n g = wtab n h := by
  unfold wtab
  apply List.map_congr_left
  intro j hj
  have := List.mem_range.mp hj
  exact hgh _ (by omega)

/-- `fir_filt(1 / z) * z ** -m` is the reversal around `m` -/
theorem reversal (n : Nat) (w : List α) (m : Nat) (i : Int) (hi : -(n : Int) ≤ i ∧ i ≤ (n : Int)) :
    lget n (wMulZPow n (wSubstInv n w) (-(m : Int))) i = lget n w ((m : Int) - i) := by
  unfold wMulZPow
  rw [lget_wtab_in n _ i hi]
  by_cases h : -(n : Int) ≤ i + -(m : Int) ∧ i + -(m : Int) ≤ (n : Int)
  · unfold wSubstInv
    rw [lget_wtab_in n _ _ h]
    congr 1
    omega
  · rw [lget_out n _ _ h, lget_out n w _ (by omega)]

/-- `(f - f.numpoly[0]) + 1` forces the coefficient of `z^0` -/
theorem fixup (n : Nat) (d : α) (w : List α) :
    wAddOne n d (wSubNum n d w (lget n w 0)) =
      wtab n (fun i => if i = 0 then lget n w 0 + (-(lget n w 0)) * d + d else lget n w i) := by
  unfold wAddOne
  apply wtab_congr
  intro i hi
  have h0 : -(n : Int) ≤ 0 ∧ (0 : Int) ≤ (n : Int) := by omega
  unfold wSubNum
  by_cases hz : i = 0
  · subst hz
    rw [if_pos rfl, if_pos rfl, lget_wtab_in n _ 0 h0, if_pos rfl]
  · rw [if_neg hz, if_neg hz, lget_wtab_in n _ i hi, if_neg hz]

end ALV.C11.Src

namespace ALV.Gen.C11
open ALV.C11 ALV.C11.Src
variable {α : Type} [Add α] [Mul α] [Sub α] [Neg α] [Div α] [OfNat α 0] [OfNat α 1]
  [DecidableEq α]

theorem pstep_eq (pow2 : α → α) (n : Nat) (d : α) (w : List α) (m : Nat) :
    pstep pow2 n d w m = pstepG pow2 n d w m := by
  unfold pstep pstepG wDivNum wCoef
  dsimp only
  by_cases hz : (1 : α) - pow2 (lget n w (m : Int)) = 0
  · rw [if_pos hz, if_pos hz]
  · rw [if_neg hz, if_neg hz]
    have hw : wtab n (fun i => lget n (wSub n w (wScale n (lget n w (m : Int))
          (wMulZPow n (wSubstInv n w) (-(m : Int))))) i * (1 / (1 - pow2 (lget n w (m : Int))))) =
        wtab n (fun i => (lget n w i - lget n w (m : Int) * lget n w ((m : Int) - i)) *
          (1 / (1 - pow2 (lget n w (m : Int))))) := by
      apply wtab_congr
      intro i hi
      unfold wSub
      rw [lget_wtab_in n _ i hi]
      unfold wScale
      rw [lget_wtab_in n _ i hi, reversal n w m i hi]
    rw [hw]
    dsimp only
    rw [fixup]

theorem ploop_eq (pow2 : α → α) (n : Nat) (d : α) : ∀ (m : Nat) (w : List α),
    ploop pow2 n d m w = ploopG pow2 n d m w
  | 0, _ => rfl
  | m + 1, w => by
    unfold ploop ploopG
    rw [pstep_eq]
    rcases pstepG pow2 n d w (m + 1) with ⟨k, _ | w'⟩
    · rfl
    · simp only [ploop_eq pow2 n d m w']

theorem lCoef_zero (l : List α) : lCoef l 0 = l.headD 0 := by
  cases l <;> rfl

theorem parcorInit_eq (num : List α) : parcorInit num = normLead (stripZeros num) := by
  unfold parcorInit normLead lOfPoly lDivNum
  simp only [lCoef_zero]

theorem parcor_eq (pow2 : α → α) (num : List α) : parcor pow2 num = parcorFixedG pow2 num := by
  unfold parcor parcorFixedG parcorStart lLen
  simp only [parcorInit_eq, ploop_eq]

section Order
variable [LT α] [DecidableLT α]

theorem stableTest_eq (k : α) : stableTest k = absLt1 k := rfl

theorem stableLoop_eq (pow2 : α → α) (n : Nat) (d : α) : ∀ (m : Nat) (w : List α),
    stableLoop pow2 n d m w = stableLoopG pow2 n d m w
  | 0, _ => rfl
  | m + 1, w => by
    unfold stableLoop stableLoopG
    rw [pstep_eq]
    rcases pstepG pow2 n d w (m + 1) with ⟨k, _ | w'⟩
    · rfl
    · simp only [stableTest_eq, stableLoop_eq pow2 n d m w']

theorem parcorStable_eq (pow2 : α → α) (num den : List α) :
    parcorStable pow2 num den = parcorStableFixedG pow2 den := by
  unfold parcorStable parcorStableFixedG parcorStart lLen
  simp only [parcorInit_eq, stableLoop_eq]

end Order

/-- the test before the loop: `ValueError` exactly when the denominator (zeros dropped) is not one
    term -/
theorem parcorGuard_eq (den : List α) :
    parcorGuard den = match stripZeros den with | [_] => false | _ => true := by
  unfold parcorGuard lOfPoly lLen
  rcases stripZeros den with _ | ⟨a, _ | ⟨b, t⟩⟩ <;> simp

end ALV.Gen.C11
