/-
  C16 — the generator-level machine (`ALV.Model.C16Gen`: iterator objects, two-pass removal by
  identity, `count += 1.` at the resumption) refines the fused machine `ALV.Model.C16`:
  same observations for every history, states related by the abstraction `absP`.
-/
import ALV.Model.C16Gen
import ALV.Lemmas.C16

namespace ALV.C16
variable {α : Type}

def absQ (q : List (Rat × Snd α)) : List (Rat × List α) := q.map fun p => (p.1, p.2.rest)
def absPl (pl : List (Snd α)) : List (List α) := pl.map (·.rest)

/-- identities of all live iterator objects, in the order playing ++ queue -/
def liveIds (s : PState α) : List Nat := s.playing.map (·.id) ++ s.notPlaying.map (·.2.id)

/-- abstraction: forget the identities; see `count` as it will be once the generator is resumed -/
def absP (s : PState α) : MState α :=
  ⟨if s.suspended then s.count + 1 else s.count, absQ s.notPlaying, absPl s.playing, s.keep, s.ended⟩

/-- every object was allocated once -/
structure PInv (s : PState α) : Prop where
  nodup : (liveIds s).Nodup
  bound : ∀ i ∈ liveIds s, i < s.fresh

theorem pinv_init (keep : Bool) : PInv (PState.init keep : PState α) :=
  ⟨by simp [liveIds, PState.init], by simp [liveIds, PState.init]⟩

/-! ### start loop -/

theorem pstartLoop_abs : ∀ (q : List (Rat × Snd α)) (c : Rat) (pl : List (Snd α)),
    startLoop c (absQ q) (absPl pl) =
      ((pstartLoop c q pl).1, absQ (pstartLoop c q pl).2.1, absPl (pstartLoop c q pl).2.2) ∧
    (pstartLoop c q pl).2.2.map (·.id) ++ (pstartLoop c q pl).2.1.map (·.2.id) =
      pl.map (·.id) ++ q.map (·.2.id) ∧
    (pstartLoop c q pl).2.1.length ≤ q.length
  | [], c, pl => by simp [pstartLoop, startLoop, absQ]
  | (d, x) :: q, c, pl => by
    by_cases h : c ≥ d
    · have ih := pstartLoop_abs q (c - d) (pl ++ [x])
      simp only [absQ, List.map_cons, startLoop, pstartLoop, if_pos h]
      simp only [absQ, absPl, List.map_append, List.map_cons, List.map_nil] at ih
      refine ⟨by simpa [absPl] using ih.1, ?_, Nat.le_succ_of_le ih.2.2⟩
      rw [ih.2.1]; simp
    · simp [absQ, absPl, startLoop, pstartLoop, if_neg h]

/-! ### the two passes = the fused loop -/

theorem sumLoop_ids [Add α] : ∀ (pl : List (Snd α)) (d : α),
    (sumLoop d pl).2.1.map (·.id) = pl.map (·.id)
  | [], _ => rfl
  | ⟨i, []⟩ :: ps, d => by simp [sumLoop, sumLoop_ids ps]
  | ⟨i, x :: xs⟩ :: ps, d => by simp [sumLoop, sumLoop_ids ps]

theorem sumLoop_rem_sub [Add α] : ∀ (pl : List (Snd α)) (d : α),
    ∀ i ∈ (sumLoop d pl).2.2, i ∈ pl.map (·.id)
  | [], _ => by simp [sumLoop]
  | ⟨j, []⟩ :: ps, d => by
    intro i hi
    simp only [sumLoop, List.mem_cons] at hi
    rcases hi with rfl | hi
    · simp
    · have := sumLoop_rem_sub ps d i hi
      simp only [List.map_cons, List.mem_cons]; exact Or.inr this
  | ⟨j, x :: xs⟩ :: ps, d => by
    intro i hi
    simp only [sumLoop] at hi
    have := sumLoop_rem_sub ps (d + x) i hi
    simp only [List.map_cons, List.mem_cons]; exact Or.inr this

theorem removeFirst_cons_ne (s : Snd α) (pl : List (Snd α)) {i : Nat} (h : s.id ≠ i) :
    removeFirst i (s :: pl) = s :: removeFirst i pl := by
  simp [removeFirst, h]

theorem removeAll_cons_of_not_mem (s : Snd α) : ∀ (rem : List Nat) (pl : List (Snd α)),
    s.id ∉ rem → removeAll rem (s :: pl) = s :: removeAll rem pl
  | [], _, _ => rfl
  | i :: is, pl, h => by
    have h1 : s.id ≠ i := fun e => h (by simp [e])
    have h2 : s.id ∉ is := fun e => h (by simp [e])
    rw [removeAll, removeFirst_cons_ne s pl h1, removeAll_cons_of_not_mem s is _ h2, removeAll]

theorem removeFirst_sublist (i : Nat) : ∀ (pl : List (Snd α)), (removeFirst i pl).Sublist pl
  | [] => List.Sublist.refl _
  | s :: ps => by
    unfold removeFirst
    split
    · exact List.sublist_cons_self s ps
    · exact (removeFirst_sublist i ps).cons_cons s

theorem removeAll_sublist : ∀ (rem : List Nat) (pl : List (Snd α)), (removeAll rem pl).Sublist pl
  | [], _ => List.Sublist.refl _
  | i :: is, pl => (removeAll_sublist is _).trans (removeFirst_sublist i pl)

/-- summing pass + removal pass, on distinct objects, is the fused `poll` -/
theorem twoPass_eq_poll [Add α] : ∀ (pl : List (Snd α)) (d : α), (pl.map (·.id)).Nodup →
    (sumLoop d pl).1 = (poll d (absPl pl)).1 ∧
    absPl (removeAll (sumLoop d pl).2.2 (sumLoop d pl).2.1) = (poll d (absPl pl)).2
  | [], _, _ => by simp [sumLoop, removeAll, poll, absPl]
  | ⟨j, []⟩ :: ps, d, h => by
    have hn : (ps.map (·.id)).Nodup := (List.nodup_cons.1 h).2
    have ih := twoPass_eq_poll ps d hn
    simp only [sumLoop, absPl, List.map_cons, poll, removeAll, removeFirst, if_true]
    exact ih
  | ⟨j, x :: xs⟩ :: ps, d, h => by
    have hn : (ps.map (·.id)).Nodup := (List.nodup_cons.1 h).2
    have hj : j ∉ ps.map (·.id) := (List.nodup_cons.1 h).1
    have ih := twoPass_eq_poll ps (d + x) hn
    have hnot : (⟨j, xs⟩ : Snd α).id ∉ (sumLoop (d + x) ps).2.2 :=
      fun hm => hj (sumLoop_rem_sub ps (d + x) j hm)
    simp only [sumLoop, absPl, List.map_cons, poll]
    rw [removeAll_cons_of_not_mem _ _ _ hnot]
    exact ⟨ih.1, congrArg (xs :: ·) ih.2⟩

/-! ### one step, a whole history -/

theorem pnext_live [Add α] (zero : α) (s : PState α) (he : s.ended = false)
    {c : Rat} {q' : List (Rat × Snd α)} {pl' : List (Snd α)}
    (h1 : pstartLoop (if s.suspended then s.count + 1 else s.count) s.notPlaying s.playing = (c, q', pl')) :
    pnext zero s =
      if s.keep = false ∧ (removeAll (sumLoop zero pl').2.2 (sumLoop zero pl').2.1).isEmpty = true ∧
          q'.isEmpty = true then
        ({ s with count := c, notPlaying := q',
                  playing := removeAll (sumLoop zero pl').2.2 (sumLoop zero pl').2.1,
                  suspended := false, ended := true }, .stop)
      else
        ({ s with count := c, notPlaying := q',
                  playing := removeAll (sumLoop zero pl').2.2 (sumLoop zero pl').2.1, suspended := true },
         .out (sumLoop zero pl').1 (s.notPlaying.length - q'.length)) := by
  simp only [pnext, he, h1]
  rfl

theorem pstep_refines [Add α] (zero : α) (s : PState α) (hi : PInv s) (op : Op α) :
    (pstep zero s op).2 = (mstep zero (absP s) op).2 ∧
    absP (pstep zero s op).1 = (mstep zero (absP s) op).1 ∧ PInv (pstep zero s op).1 := by
  cases op with
  | add d x =>
    by_cases hd : d < 0
    · simp only [pstep, padd, mstep, madd, if_pos hd]
      exact ⟨trivial, trivial, hi⟩
    · simp only [pstep, padd, mstep, madd, if_neg hd]
      refine ⟨trivial, by simp [absP, absQ], ?_, ?_⟩
      · show (s.playing.map (·.id) ++ (s.notPlaying ++ [(d, (⟨s.fresh, x⟩ : Snd α))]).map (·.2.id)).Nodup
        rw [List.map_append, ← List.append_assoc]
        have hb := hi.bound
        refine List.nodup_append.2 ⟨hi.nodup, by simp, ?_⟩
        intro a ha b hb'
        simp only [List.map_cons, List.map_nil, List.mem_singleton] at hb'
        subst hb'
        exact Nat.ne_of_lt (hb a ha)
      · intro i hmem
        have hmem' : i ∈ liveIds s ++ [s.fresh] := by
          simpa [liveIds, List.map_append, List.append_assoc] using hmem
        rcases List.mem_append.1 hmem' with h' | h'
        · exact Nat.lt_succ_of_lt (hi.bound i h')
        · simp only [List.mem_singleton] at h'; subst h'; exact Nat.lt_succ_self _
  | setKeep b =>
    exact ⟨rfl, rfl, ⟨hi.nodup, hi.bound⟩⟩
  | next =>
    by_cases he : s.ended = true
    · simp only [pstep, pnext, mstep, mnext, absP, he, if_true]
      exact ⟨trivial, by simp, hi⟩
    · have he' : s.ended = false := by simpa using he
      obtain ⟨hs1, hs2, _⟩ :=
        pstartLoop_abs s.notPlaying (if s.suspended then s.count + 1 else s.count) s.playing
      generalize hr : pstartLoop (if s.suspended then s.count + 1 else s.count) s.notPlaying s.playing = r
        at hs1 hs2
      obtain ⟨c, q', pl'⟩ := r
      simp only at hs1 hs2
      have hnd : (pl'.map (·.id) ++ q'.map (·.2.id)).Nodup := by rw [hs2]; exact hi.nodup
      have hnd1 : (pl'.map (·.id)).Nodup := (List.nodup_append.1 hnd).1
      obtain ⟨ht1, ht2⟩ := twoPass_eq_poll pl' zero hnd1
      generalize hpl : removeAll (sumLoop zero pl').2.2 (sumLoop zero pl').2.1 = playing at ht2
      have hsubl : (playing.map (·.id) ++ q'.map (·.2.id)).Sublist (liveIds s) := by
        unfold liveIds
        rw [← hs2, ← sumLoop_ids pl' zero, ← hpl]
        exact List.Sublist.append ((removeAll_sublist _ _).map _) (List.Sublist.refl _)
      have hpoll : poll zero (absPl pl') = ((sumLoop zero pl').1, absPl playing) :=
        Prod.ext ht1.symm ht2.symm
      have hm := mnext_live zero (absP s) (show (absP s).ended = false from he') hs1 hpoll
      have hp := pnext_live zero s he' hr
      rw [hpl] at hp
      have hemp1 : (absQ q').isEmpty = q'.isEmpty := by cases q' <;> rfl
      have hemp2 : (absPl playing).isEmpty = playing.isEmpty := by cases playing <;> rfl
      have hlen : (absP s).notPlaying.length - (absQ q').length = s.notPlaying.length - q'.length := by
        simp [absP, absQ]
      have hinv : ∀ (t : PState α), t.playing = playing → t.notPlaying = q' → t.fresh = s.fresh → PInv t := by
        intro t h1 h2 h3
        refine ⟨?_, ?_⟩
        · unfold liveIds; rw [h1, h2]; exact hsubl.nodup hi.nodup
        · intro i hmem
          unfold liveIds at hmem; rw [h1, h2] at hmem
          rw [h3]; exact hi.bound i (hsubl.subset hmem)
      simp only [pstep, mstep]
      rw [hp, hm, hemp1, hemp2, hlen]
      by_cases hc : s.keep = false ∧ playing.isEmpty = true ∧ q'.isEmpty = true
      · have hc' : (absP s).keep = false ∧ playing.isEmpty = true ∧ q'.isEmpty = true := hc
        rw [if_pos hc, if_pos hc']
        exact ⟨rfl, by simp [absP], hinv _ rfl rfl rfl⟩
      · have hc' : ¬ ((absP s).keep = false ∧ playing.isEmpty = true ∧ q'.isEmpty = true) := hc
        rw [if_neg hc, if_neg hc']
        exact ⟨rfl, by simp [absP], hinv _ rfl rfl rfl⟩

theorem prun_refines [Add α] (zero : α) : ∀ (ops : List (Op α)) (s : PState α), PInv s →
    (prun zero s ops).2 = (mrun zero (absP s) ops).2 ∧
    absP (prun zero s ops).1 = (mrun zero (absP s) ops).1 ∧ PInv (prun zero s ops).1
  | [], _, h => ⟨rfl, rfl, h⟩
  | op :: ops, s, h => by
    obtain ⟨h1, h2, h3⟩ := pstep_refines zero s h op
    obtain ⟨k1, k2, k3⟩ := prun_refines zero ops _ h3
    simp only [prun, mrun]
    rw [← h2]
    exact ⟨by rw [h1, k1], k2, k3⟩

theorem absP_init (keep : Bool) : absP (PState.init keep : PState α) = MState.init keep := rfl

end ALV.C16
