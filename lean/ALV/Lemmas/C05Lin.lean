/-
  C05 — `linearize` on fractional delays (`Model/C05Lin.lean`): the dictionary that the loop
  accumulates denotes the sum of the interpolated terms, the constructor call on it denotes their
  quotient, and `int()` truncation splits a rational power as the model says.
-/
import ALV.Lemmas.C05Spec
import ALV.Model.C05Lin
import Mathlib.Tactic.Linarith

set_option linter.unusedSectionVars false
set_option linter.unusedSimpArgs false
set_option linter.unusedVariables false

open LaurentPolynomial

namespace ALV.C05
open ALV.C07
variable {K : Type} [Field K] [DecidableEq K]

/-! ### `dictAdd`: `new_poly[key] += value` / `new_poly[key] = value` -/

theorem toLaurent_dictAdd (d : List (ℤ × K)) (k : ℤ) (x : K) :
    toLaurent (dictAdd d k x) = toLaurent d + AddMonoidAlgebra.single k x := by
  induction d with
  | nil => simp [dictAdd]
  | cons a t ih =>
    obtain ⟨k', y⟩ := a
    unfold dictAdd
    split
    · rename_i h; subst h
      simp only [toLaurent_cons, AddMonoidAlgebra.single_add]
      abel
    · simp only [toLaurent_cons, ih]
      abel

theorem keys_dictAdd (d : List (ℤ × K)) (k : ℤ) (x : K) :
    keys (dictAdd d k x) = if k ∈ keys d then keys d else keys d ++ [k] := by
  induction d with
  | nil => simp [dictAdd, keys]
  | cons a t ih =>
    obtain ⟨k', y⟩ := a
    unfold dictAdd
    by_cases h : k' = k
    · subst h; simp [keys]
    · have ih' : List.map (fun x => x.1) (dictAdd t k x) =
          if k ∈ List.map (fun x => x.1) t then List.map (fun x => x.1) t else List.map (fun x => x.1) t ++ [k] := ih
      have hk : ¬ k = k' := fun e => h e.symm
      simp only [keys, if_neg h, List.map_cons, List.mem_cons, hk, false_or, ih']
      split <;> simp

theorem nodup_dictAdd {d : List (ℤ × K)} (h : (keys d).Nodup) (k : ℤ) (x : K) :
    (keys (dictAdd d k x)).Nodup := by
  rw [keys_dictAdd]
  split
  · exact h
  · rename_i hk
    exact List.nodup_append.2 ⟨h, by simp, by
      intro a ha b hb
      simp only [List.mem_singleton] at hb
      subst hb
      exact fun e => hk (e ▸ ha)⟩

/-- folding `dictAdd` over a list of pairs adds what the pairs denote, and keeps the keys distinct -/
theorem foldl_dictAdd (l : List (ℤ × K)) : ∀ d : List (ℤ × K), (keys d).Nodup →
    (keys (l.foldl (fun d kv => dictAdd d kv.1 kv.2) d)).Nodup ∧
    toLaurent (l.foldl (fun d kv => dictAdd d kv.1 kv.2) d) = toLaurent d + toLaurent l := by
  induction l with
  | nil => intro d h; exact ⟨h, by simp⟩
  | cons a t ih =>
    intro d h
    obtain ⟨h1, h2⟩ := ih (dictAdd d a.1 a.2) (nodup_dictAdd h _ _)
    exact ⟨h1, by rw [List.foldl_cons, h2, toLaurent_dictAdd, toLaurent_cons]; abel⟩

/-! ### one term and the whole dictionary -/

/-- what the term `v·x^k`, `k = left + w`, is replaced by: `v·((1 − w)·x^left + w·x^(left+1))` -/
noncomputable def termL (t : FTerm K) : K[T;T⁻¹] :=
  AddMonoidAlgebra.single t.left (t.v * (1 - t.w)) + AddMonoidAlgebra.single (t.left + 1) (t.v * t.w)

theorem toLaurent_linPairs (t : FTerm K) : toLaurent (linPairs t) = termL t := by
  unfold linPairs termL
  split
  · rename_i h; simp [h]
  · simp

theorem linDict_fold (ts : List (FTerm K)) : ∀ d : List (ℤ × K), (keys d).Nodup →
    (keys (ts.foldl (fun d t => (linPairs t).foldl (fun d kv => dictAdd d kv.1 kv.2) d) d)).Nodup ∧
    toLaurent (ts.foldl (fun d t => (linPairs t).foldl (fun d kv => dictAdd d kv.1 kv.2) d) d)
      = toLaurent d + (ts.map termL).sum := by
  induction ts with
  | nil => intro d h; exact ⟨h, by simp⟩
  | cons t r ih =>
    intro d h
    obtain ⟨h1, h2⟩ := foldl_dictAdd (linPairs t) d h
    obtain ⟨h3, h4⟩ := ih _ h1
    exact ⟨h3, by rw [List.foldl_cons, h4, h2, toLaurent_linPairs, List.map_cons, List.sum_cons]; abel⟩

/-- **the accumulated dictionary** has distinct keys and denotes the sum of the interpolated terms -/
theorem linDict_spec (ts : List (FTerm K)) :
    (keys (linDict ts)).Nodup ∧ toLaurent (linDict ts) = (ts.map termL).sum := by
  obtain ⟨h1, h2⟩ := linDict_fold ts [] (by simp [keys])
  exact ⟨h1, by unfold linDict; rw [h2]; simp⟩

/-- **`linearizeF`**: the constructor call on the two dictionaries runs iff the interpolated
denominator is not the zero polynomial, and then denotes the quotient of the interpolated sums -/
theorem linearizeF_den (num den : List (FTerm K)) :
    ((den.map termL).sum = 0 → linearizeF num den = .error .value) ∧
    ((den.map termL).sum ≠ 0 → Den (linearizeF num den) (ι (num.map termL).sum / ι (den.map termL).sum)) := by
  obtain ⟨nn, en⟩ := linDict_spec num
  obtain ⟨nd, ed⟩ := linDict_spec den
  have hmk : toLaurent (C07.mk (linDict den)) = (den.map termL).sum := by rw [toLaurent_mk_of_nodup nd, ed]
  constructor
  · intro h0
    have : C07.mk (linDict den) = [] := eq_nil_of_toLaurent_eq_zero (wf_mk _) (by rw [hmk, h0])
    unfold linearizeF ofData ofPolys
    rw [this]
    simp [C07.mk, ofPairs, compact, C04.minKey]
  · intro h0
    have hne : C07.mk (linDict den) ≠ [] := ne_nil_of_toLaurent_ne_zero (by rw [hmk]; exact h0)
    have h := ofPolys_den (wf_mk (linDict num)) (wf_mk (linDict den)) hne
    rw [toLaurent_mk_of_nodup nn, toLaurent_mk_of_nodup nd, en, ed] at h
    exact h

/-! ### `int()` truncates toward zero -/

theorem truncZ_nonneg {k : ℚ} (h : 0 ≤ k) : ((truncZ k : ℤ) : ℚ) ≤ k ∧ k < (truncZ k : ℤ) + 1 := by
  unfold truncZ
  rw [if_neg (not_lt.2 h)]
  have h1 := Rat.floor_le k
  have h2 := Rat.lt_floor_add_one k
  push_cast at h2
  exact ⟨h1, h2⟩

theorem truncZ_neg {k : ℚ} (h : k < 0) : k ≤ ((truncZ k : ℤ) : ℚ) ∧ ((truncZ k : ℤ) : ℚ) - 1 < k := by
  unfold truncZ
  rw [if_pos h]
  have h1 := Rat.floor_le (-k)
  have h2 := Rat.lt_floor_add_one (-k)
  push_cast at h2 ⊢
  constructor <;> linarith

end ALV.C05
