/-
  C10 — helper lemmas, part 6: `lpc.kcovar` as coded (Gram–Schmidt over the lag-matrix inner
  product, with its exits) solves the covariance normal equations.
  Invariant after m complete passes (`KInv`): `A` is monic of order ≤ m and orthogonal to the
  delays 1..m; `B[q]` (q ≤ m) is supported on 1..q+1 with leading coefficient 1 and orthogonal to
  the delays 1..q; `beta[q] = ⟨B[q], B[q]⟩`.
-/
import ALV.Lemmas.C10Bil

namespace ALV.C10
open Finset
variable {K : Type} [Field K]

/-- the table read as a function (0 outside) -/
def phiOf (phi : List (List K)) : ℕ → ℕ → K := fun i j => coef (phi.getD i []) j

theorem innerM_eq_sum (phi : List (List K)) (a b : List K) :
    innerM phi a b = ∑ i ∈ range a.length, ∑ j ∈ range b.length,
      phiOf phi i j * coef a i * coef b j := by
  unfold innerM
  exact sumL_flatMap_range _ _ _

theorem innerM_eq_bil (phi : List (List K)) (a b : List K) (n : ℕ) (ha : a.length ≤ n)
    (hb : b.length ≤ n) : innerM phi a b = bil (phiOf phi) n (coef a) (coef b) := by
  rw [innerM_eq_sum]
  unfold bil
  rw [← Finset.sum_subset (Finset.range_mono ha)]
  · refine Finset.sum_congr rfl fun i _ => ?_
    refine Finset.sum_subset (Finset.range_mono hb) fun j _ hj => ?_
    rw [coef_of_length_le b j (by simpa using hj)]; ring
  · intro i _ hi
    rw [coef_of_length_le a i (by simpa using hi)]
    simp

theorem coef_delay_fun (m : ℕ) : coef (delay m : List K) = unitv m :=
  funext fun i => coef_delay m i

/-- what is known of `B[q]` -/
structure BInv (phi : List (List K)) (q : ℕ) (b : List K) : Prop where
  len : b.length ≤ q + 2
  c0 : coef b 0 = 0
  lead : coef b (q + 1) = 1
  orth : ∀ i, 1 ≤ i → i ≤ q → bil (phiOf phi) phi.length (coef b) (unitv i) = 0

theorem BInv.zero_above {phi : List (List K)} {q : ℕ} {b : List K} (h : BInv phi q b) (l : ℕ)
    (hl : q + 1 < l) : coef b l = 0 := coef_of_length_le b l (by have := h.len; omega)

/-- `⟨B_q, B_q⟩ = ⟨B_q, z^-(q+1)⟩` -/
theorem BInv.self {phi : List (List K)} {q : ℕ} {b : List K} (h : BInv phi q b)
    (hq : q + 1 < phi.length) :
    bil (phiOf phi) phi.length (coef b) (coef b) =
      bil (phiOf phi) phi.length (coef b) (unitv (q + 1)) :=
  bil_right_lead _ _ _ _ q hq h.c0 h.lead h.zero_above h.orth

/-- `⟨B_q', B_q⟩ = 0` for q < q' -/
theorem BInv.cross {phi : List (List K)} {q q' : ℕ} {b b' : List K} (h : BInv phi q b)
    (h' : BInv phi q' b') (hqq : q < q') :
    bil (phiOf phi) phi.length (coef b') (coef b) = 0 :=
  bil_right_zero _ _ _ _ q h.c0 h.zero_above fun i h1 h2 => h'.orth i h1 (by omega)

/-- invariant of the `while` loop after m complete passes -/
structure KInv (phi : List (List K)) (m : ℕ) (s : KState K) : Prop where
  a0 : coef s.A 0 = 1
  alen : s.A.length ≤ m + 1
  aorth : ∀ i, 1 ≤ i → i ≤ m → bil (phiOf phi) phi.length (coef s.A) (unitv i) = 0
  blen : s.B.length = m + 1
  betalen : s.beta.length = m + 1
  binv : ∀ q, q ≤ m → BInv phi q (s.B.getD q [])
  beta : ∀ q, q ≤ m → coef s.beta q =
    bil (phiOf phi) phi.length (coef (s.B.getD q [])) (coef (s.B.getD q []))

section dec
variable [DecidableEq K]

/-- first half of pass m+1: `A` becomes orthogonal to the delays 1..m+1 -/
theorem kcUpdate_ok {phi : List (List K)} {unstable : K → Bool} {m : ℕ} {s s1 : KState K}
    (h : KInv phi m s) (hm : m + 2 ≤ phi.length)
    (hu : kcUpdate phi unstable (m + 1) s = .ok s1) :
    s1.B = s.B ∧ s1.beta = s.beta ∧ coef s1.A 0 = 1 ∧ s1.A.length ≤ m + 2 ∧
      ∀ i, 1 ≤ i → i ≤ m + 1 → bil (phiOf phi) phi.length (coef s1.A) (unitv i) = 0 := by
  unfold kcUpdate at hu
  simp only [Nat.add_sub_cancel] at hu
  split at hu
  · cases hu
  · next hb =>
    split at hu
    · cases hu
    · injection hu with hu
      subst hu
      have hB := h.binv m le_rfl
      set Bm := s.B.getD m [] with hBm
      have hfun : coef (addScaled s.A (-innerM phi s.A (delay (m + 1)) / coef s.beta m) Bm) =
          fun i => coef s.A i + (-innerM phi s.A (delay (m + 1)) / coef s.beta m) * coef Bm i :=
        funext fun i => coef_addScaled _ _ _ _
      refine ⟨rfl, rfl, ?_, ?_, ?_⟩
      · show coef (addScaled _ _ _) 0 = 1
        rw [coef_addScaled, h.a0, hB.c0]; ring
      · show (addScaled _ _ _).length ≤ m + 2
        refine (addScaled_length _ _ _).trans ?_
        have := h.alen; have := hB.len; omega
      · intro i h1 h2
        show bil _ _ (coef (addScaled _ _ _)) _ = 0
        rw [hfun, bil_axpy_left]
        by_cases hi : i ≤ m
        · rw [h.aorth i h1 hi, hB.orth i h1 hi]; ring
        · have : i = m + 1 := by omega
          subst this
          have e1 : innerM phi s.A (delay (m + 1)) =
              bil (phiOf phi) phi.length (coef s.A) (unitv (m + 1)) := by
            rw [innerM_eq_bil phi s.A (delay (m + 1)) phi.length (by have := h.alen; omega)
              (by rw [delay_length]; omega), coef_delay_fun]
          have e2 : coef s.beta m = bil (phiOf phi) phi.length (coef Bm) (unitv (m + 1)) := by
            rw [h.beta m le_rfl, hB.self (by omega)]
          rw [e2] at hb
          rw [e1, e2]
          field_simp
          ring

omit [Field K] [DecidableEq K] in
theorem getD_append_left' (l : List (List K)) (x : List K) (q : ℕ) (hq : q < l.length) :
    (l ++ [x]).getD q [] = l.getD q [] := by
  simp [List.getD_eq_getElem?_getD, List.getElem?_append_left hq]

omit [Field K] [DecidableEq K] in
theorem getD_append_last (l : List (List K)) (x : List K) : (l ++ [x]).getD l.length [] = x := by
  simp [List.getD_eq_getElem?_getD]

omit [DecidableEq K] in
theorem coef_append_left (l : List K) (x : K) (q : ℕ) (hq : q < l.length) :
    coef (l ++ [x]) q = coef l q := by
  simp [coef, List.getD_eq_getElem?_getD, List.getElem?_append_left hq]

omit [DecidableEq K] in
theorem coef_append_last (l : List K) (x : K) : coef (l ++ [x]) l.length = x := by
  simp [coef, List.getD_eq_getElem?_getD]

/-- second half of pass m+1: the next orthogonalised delay -/
theorem kcExtend_ok {phi : List (List K)} (hsym : ∀ i j, phiOf phi i j = phiOf phi j i) {m : ℕ}
    {s1 s2 : KState K} (hm : m + 3 ≤ phi.length)
    (hblen : s1.B.length = m + 1) (hbetalen : s1.beta.length = m + 1)
    (hbinv : ∀ q, q ≤ m → BInv phi q (s1.B.getD q []))
    (hbeta : ∀ q, q ≤ m → coef s1.beta q =
      bil (phiOf phi) phi.length (coef (s1.B.getD q [])) (coef (s1.B.getD q [])))
    (he : kcExtend phi (m + 1) s1 = .ok s2) :
    s2.A = s1.A ∧ s2.B.length = m + 2 ∧ s2.beta.length = m + 2 ∧
      (∀ q, q ≤ m + 1 → BInv phi q (s2.B.getD q [])) ∧
      (∀ q, q ≤ m + 1 → coef s2.beta q =
        bil (phiOf phi) phi.length (coef (s2.B.getD q [])) (coef (s2.B.getD q []))) := by
  unfold kcExtend kcGamma at he
  by_cases hany : ((List.range (m + 1)).any fun q => decide (coef s1.beta q = 0)) = true
  · simp [hany] at he
  · simp only [hany, Bool.false_eq_true, if_false] at he
    have hnz : ∀ q, q ≤ m → coef s1.beta q ≠ 0 := by
      intro q hq h0
      apply hany
      rw [List.any_eq_true]
      exact ⟨q, by simp; omega, by simp [h0]⟩
    injection he with he
    subst he
    -- names
    set G : List K := (List.range (m + 1)).map fun q =>
      innerM phi (delay (m + 1 + 1)) (s1.B.getD q []) / coef s1.beta q with hG
    set Bn : List K := kcNewB (m + 1) G s1.B with hBn
    let g : ℕ → K := coef G
    let b : ℕ → ℕ → K := fun q => coef (s1.B.getD q [])
    have hg : ∀ q, q ≤ m → g q = innerM phi (delay (m + 2)) (s1.B.getD q []) / coef s1.beta q := by
      intro q hq
      show coef G q = _
      rw [hG, coef_map_range, if_pos (by omega)]
    have hfun : coef Bn = fun i => unitv (m + 2) i - ∑ q ∈ range (m + 1), g q * b q i := by
      funext i
      rw [hBn]
      unfold kcNewB
      rw [coef_trim, coef_map_range]
      split
      · rw [coef_delay, sumL_map_range]; rfl
      · next hi =>
        have hi' : m + 3 ≤ i := by omega
        have : (unitv (m + 2) i : K) = 0 := by simp [unitv]; omega
        rw [this, Finset.sum_eq_zero, sub_zero]
        intro q hq
        have hq' : q ≤ m := by simpa [Nat.lt_succ_iff] using hq
        show g q * coef (s1.B.getD q []) i = 0
        rw [(hbinv q hq').zero_above i (by omega), mul_zero]
    have hBnlen : Bn.length ≤ m + 3 := by
      rw [hBn]; unfold kcNewB
      refine (trim_length_le _).trans ?_
      simp
    -- orthogonality of the new vector to the old ones
    have horthB : ∀ q', q' < m + 1 → bil (phiOf phi) phi.length (coef Bn) (b q') = 0 := by
      intro q' hq'
      have hq'm : q' ≤ m := by omega
      rw [hfun, bil_sub_sum_left, Finset.sum_eq_single q']
      · have e1 : innerM phi (delay (m + 2)) (s1.B.getD q' []) =
            bil (phiOf phi) phi.length (unitv (m + 2)) (b q') := by
          rw [innerM_eq_bil phi _ _ phi.length (by rw [delay_length]; omega)
            (by have := (hbinv q' hq'm).len; omega), coef_delay_fun]
        have hbq : coef s1.beta q' ≠ 0 := hnz q' hq'm
        rw [hg q' hq'm, e1]
        rw [hbeta q' hq'm] at hbq ⊢
        show _ - _ / _ * bil _ _ (coef (s1.B.getD q' [])) (coef (s1.B.getD q' [])) = 0
        field_simp
        ring
      · intro q hq hne
        have hqm : q ≤ m := by simpa [Nat.lt_succ_iff] using hq
        have : bil (phiOf phi) phi.length (b q) (b q') = 0 := by
          rcases Nat.lt_or_gt_of_ne hne with h | h
          · rw [bil_symm _ hsym]
            exact (hbinv q hqm).cross (hbinv q' hq'm) h
          · exact (hbinv q' hq'm).cross (hbinv q hqm) h
        rw [this, mul_zero]
      · intro h; exact absurd (by simpa using hq') h
    have hBnInv : BInv phi (m + 1) Bn := by
      refine ⟨hBnlen, ?_, ?_, ?_⟩
      · rw [hfun]
        show unitv (m + 2) 0 - _ = (0 : K)
        rw [Finset.sum_eq_zero, sub_zero]
        · simp [unitv]
        · intro q hq
          have hq' : q ≤ m := by simpa [Nat.lt_succ_iff] using hq
          show g q * coef (s1.B.getD q []) 0 = 0
          rw [(hbinv q hq').c0, mul_zero]
      · rw [hfun]
        show unitv (m + 2) (m + 1 + 1) - _ = (1 : K)
        rw [Finset.sum_eq_zero, sub_zero]
        · simp [unitv]
        · intro q hq
          have hq' : q ≤ m := by simpa [Nat.lt_succ_iff] using hq
          show g q * coef (s1.B.getD q []) (m + 1 + 1) = 0
          rw [(hbinv q hq').zero_above _ (by omega), mul_zero]
      · exact orth_units_of_orth_basis (phiOf phi) phi.length (coef Bn) (m + 1) (by omega) b
          (fun q hq => (hbinv q (by omega)).c0) (fun q hq => (hbinv q (by omega)).lead)
          (fun q hq => (hbinv q (by omega)).zero_above) horthB
    have hlast : (s1.B ++ [Bn]).getD (m + 1) [] = Bn := by
      rw [← hblen]; exact getD_append_last _ _
    refine ⟨rfl, by simp [hblen], by simp [hbetalen], ?_, ?_⟩
    · intro q hq
      show BInv phi q ((s1.B ++ [Bn]).getD q [])
      by_cases hq' : q ≤ m
      · rw [getD_append_left' _ _ _ (by omega)]; exact hbinv q hq'
      · have : q = m + 1 := by omega
        subst this
        rw [hlast]; exact hBnInv
    · intro q hq
      show coef (s1.beta ++ [innerM phi Bn Bn]) q =
        bil _ _ (coef ((s1.B ++ [Bn]).getD q [])) (coef ((s1.B ++ [Bn]).getD q []))
      by_cases hq' : q ≤ m
      · rw [getD_append_left' _ _ _ (by omega), coef_append_left _ _ _ (by omega)]
        exact hbeta q hq'
      · have : q = m + 1 := by omega
        subst this
        rw [hlast]
        have : coef (s1.beta ++ [innerM phi Bn Bn]) (m + 1) = innerM phi Bn Bn := by
          rw [← hbetalen]; exact coef_append_last _ _
        rw [this, innerM_eq_bil phi Bn Bn phi.length (by omega) (by omega)]

end dec
end ALV.C10
