/-
  C09 — overlap-add inverts blocking when the hop-shifted copies of the window sum to one.
  The Σ over blocks of the specification is re-indexed (k ↦ n/h - k) into the Σ over the
  size/h window samples that land on output phase n % h.
-/
import ALV.Lemmas.C09Gain
import Mathlib.Algebra.BigOperators.Group.Finset.Basic
import Mathlib.Algebra.BigOperators.Intervals

namespace ALV.C09
open ALV.C08
variable {K : Type} [CommSemiring K]

theorem sumTo_eq_sum (m : Nat) (f : Nat → K) : sumTo m f = ∑ k ∈ Finset.range m, f k := by
  induction m with
  | zero => simp [sumTo]
  | succ m ih => rw [sumTo, ih, Finset.sum_range_succ]

theorem sumTo_mul_right (m : Nat) (f : Nat → K) (c : K) :
    sumTo m (fun k => f k * c) = sumTo m f * c := by
  induction m with
  | zero => simp [sumTo]
  | succ m ih => rw [sumTo, sumTo, ih, add_mul]

/-- the blocks that contain sample `n` are `k = n/h - i`, `i < c`; block `k` holds it at offset
    `n % h + i*h` -/
theorem window_sum_reindex (h : Nat) (hh : 0 < h) (c m n : Nat) (hn1 : (c - 1) * h ≤ n)
    (hn2 : n < m * h) (a : Nat → K) :
    sumTo m (fun k => if k * h ≤ n ∧ n - k * h < c * h then a (n - k * h) else 0) =
      sumTo c (fun i => a (n % h + i * h)) := by
  rw [sumTo_eq_sum, sumTo_eq_sum, ← Finset.sum_filter]
  have hq1 : c - 1 ≤ n / h := (Nat.le_div_iff_mul_le hh).2 hn1
  have hq2 : n / h < m := (Nat.div_lt_iff_lt_mul hh).2 hn2
  have hdm : n / h * h + n % h = n := by rw [Nat.mul_comm]; exact Nat.div_add_mod n h
  apply Finset.sum_nbij' (fun k => n / h - k) (fun i => n / h - i)
  · intro k hk
    simp only [Finset.mem_filter, Finset.mem_range] at hk ⊢
    obtain ⟨_, hk1, hk2⟩ := hk
    have e1 : k ≤ n / h := (Nat.le_div_iff_mul_le hh).2 hk1
    have e2 : n / h < c + k := by
      apply (Nat.div_lt_iff_lt_mul hh).2
      rw [Nat.add_mul]; omega
    omega
  · intro i hi
    simp only [Finset.mem_filter, Finset.mem_range] at hi ⊢
    have e1 : (n / h - i) * h ≤ n / h * h := Nat.mul_le_mul_right _ (Nat.sub_le _ _)
    have e2 : n < (c + (n / h - i)) * h := (Nat.div_lt_iff_lt_mul hh).1 (by omega)
    rw [Nat.add_mul] at e2
    refine ⟨by omega, by omega, by omega⟩
  · intro k hk
    simp only [Finset.mem_filter, Finset.mem_range] at hk
    have e1 : k ≤ n / h := (Nat.le_div_iff_mul_le hh).2 hk.2.1
    show n / h - (n / h - k) = k
    omega
  · intro i hi
    simp only [Finset.mem_range] at hi
    show n / h - (n / h - i) = i
    omega
  · intro k hk
    simp only [Finset.mem_filter, Finset.mem_range] at hk
    have e1 : k ≤ n / h := (Nat.le_div_iff_mul_le hh).2 hk.2.1
    have e2 : (n / h - k) * h = n / h * h - k * h := Nat.sub_mul _ _ _
    have e3 : k * h ≤ n / h * h := Nat.mul_le_mul_right _ e1
    congr 1
    show n - k * h = n % h + (n / h - k) * h
    omega

/-- If block k holds `v i * x[k*h + i]` at offset i (blocks of x, possibly already multiplied by an
    analysis window v) and the hop-shifted copies of `g * w * v` sum to one, the overlap-add
    sum gives back `x[n]` on every sample covered by size/h blocks. -/
theorem olaAt_inverse (size h : Nat) (hh : 0 < h) (hd : h ∣ size) (g : K) (w : List K) (v : Nat → K)
    (x : List K) (Bs : List (List K))
    (hBs : ∀ k, k < Bs.length → ∀ i, i < size → (Bs.getD k []).getD i 0 = v i * x.getD (k * h + i) 0)
    (cola : ∀ j, j < h → sumTo (size / h) (fun i => g * (w.getD (j + i * h) 0 * v (j + i * h))) = 1)
    (n : Nat) (hn1 : size - h ≤ n) (hn2 : n < Bs.length * h) :
    olaAt g w size h Bs n = x.getD n 0 := by
  obtain ⟨c, rfl⟩ := hd
  have hc : h * c / h = c := Nat.mul_div_cancel_left c hh
  rw [hc] at cola
  unfold olaAt
  have step : ∀ k, k < Bs.length →
      (if k * h ≤ n ∧ n - k * h < h * c then
          g * (w.getD (n - k * h) 0 * (Bs.getD k []).getD (n - k * h) 0) else 0) =
      (if k * h ≤ n ∧ n - k * h < c * h then
          g * (w.getD (n - k * h) 0 * v (n - k * h)) else 0) * x.getD n 0 := by
    intro k hk
    rw [Nat.mul_comm h c]
    split
    · rename_i hcnd
      rw [hBs k hk (n - k * h) (by rw [Nat.mul_comm h c]; exact hcnd.2)]
      have : k * h + (n - k * h) = n := by omega
      rw [this]; ring
    · simp
  rw [sumTo_congr _ _ _ step, sumTo_mul_right,
    window_sum_reindex h hh c Bs.length n (by
      have : (c - 1) * h = h * c - h := by rw [Nat.sub_mul, Nat.mul_comm c h]; simp
      omega) hn2
      (fun i => g * (w.getD i 0 * v i)),
    cola (n % h) (Nat.mod_lt _ hh), one_mul]

end ALV.C09
