/-
  C16 — lemmas for the typed item type `PyNum` (kind of a sum) and for the mutable-zero machine.
-/
import ALV.Model.C16K
import ALV.Spec.C16K
import ALV.Lemmas.C16Gen
import ALV.Lemmas.C16Main

namespace ALV.C16
variable {α : Type}

/-! ### kinds -/

theorem Kind.join_assoc (a b c : Kind) : Kind.join (Kind.join a b) c = Kind.join a (Kind.join b c) := by
  cases a <;> cases b <;> cases c <;> rfl
theorem Kind.join_comm (a b : Kind) : Kind.join a b = Kind.join b a := by
  cases a <;> cases b <;> rfl
theorem Kind.join_idem (a : Kind) : Kind.join a a = a := by cases a <;> rfl

theorem foldl_join_left (a : Kind) : ∀ (l : List Kind) (k : Kind),
    l.foldl Kind.join (Kind.join a k) = Kind.join a (l.foldl Kind.join k)
  | [], _ => rfl
  | x :: xs, k => by
    simp only [List.foldl_cons]
    rw [Kind.join_assoc, foldl_join_left a xs]

theorem pynum_add_kind (a b : PyNum) : (a + b).kind = Kind.add a.kind b.kind := rfl
theorem pynum_add_re (a b : PyNum) : (a + b).re = a.re + b.re := rfl
theorem pynum_add_im (a b : PyNum) : (a + b).im = a.im + b.im := rfl

theorem foldl_pynum_re : ∀ (l : List PyNum) (z : PyNum),
    (l.foldl (· + ·) z).re = z.re + (l.map (·.re)).sum
  | [], z => by simp
  | x :: xs, z => by
    simp only [List.foldl_cons, List.map_cons, List.sum_cons]
    rw [foldl_pynum_re xs, pynum_add_re, add_assoc]

theorem foldl_pynum_im : ∀ (l : List PyNum) (z : PyNum),
    (l.foldl (· + ·) z).im = z.im + (l.map (·.im)).sum
  | [], z => by simp
  | x :: xs, z => by
    simp only [List.foldl_cons, List.map_cons, List.sum_cons]
    rw [foldl_pynum_im xs, pynum_add_im, add_assoc]

/-- kind of `z + x_1 + … + x_k`, k ≥ 1: the largest kind among z and the items, at least int -/
theorem foldl_pynum_kind : ∀ (l : List PyNum) (z : PyNum), l ≠ [] →
    (l.foldl (· + ·) z).kind = Kind.join .int ((l.map (·.kind)).foldl Kind.join z.kind)
  | [], _, h => absurd rfl h
  | [x], z, _ => rfl
  | x :: y :: ys, z, _ => by
    have ih := foldl_pynum_kind (y :: ys) (z + x) (by simp)
    rw [List.foldl_cons, ih, pynum_add_kind, Kind.add]
    simp only [List.map_cons, List.foldl_cons]
    rw [Kind.join_assoc Kind.int, foldl_join_left, ← Kind.join_assoc, Kind.join_idem]

/-! ### the state of the machine does not depend on the zero value; the mutable-zero machine -/

theorem kstep_eq [Add α] (cell : α) (s : PState α) (op : Op α) :
    kstep cell s op = (cellAfter cell (pstep cell s op).2, pstep cell s op) := by
  unfold kstep cellAfter
  split <;> simp_all

theorem krun_eq_ksrun [Add α] : ∀ (ops : List (Op α)) (cell : α) (s : PState α) (t : SState α),
    PInv s → Sim (absP s) t → (krun cell s ops).2.2 = ksrun cell t ops
  | [], _, _, _, _, _ => rfl
  | op :: ops, cell, s, t, hi, hs => by
    obtain ⟨h1, h2, h3⟩ := pstep_refines cell s hi op
    obtain ⟨k1, k2⟩ := step_sim cell (absP s) t hs op
    rw [← h2] at k2
    have hobs : (pstep cell s op).2 = (sstep cell t op).2 := h1.trans k1
    have hk := kstep_eq cell s op
    simp only [krun, ksrun]
    rw [hk]
    simp only
    rw [krun_eq_ksrun ops _ _ _ h3 k2, hobs]

theorem sumLoop_indep [Add α] : ∀ (pl : List (Snd α)) (d d' : α), (sumLoop d pl).2 = (sumLoop d' pl).2
  | [], _, _ => rfl
  | ⟨i, []⟩ :: ps, d, d' => by simp [sumLoop, sumLoop_indep ps d d']
  | ⟨i, x :: xs⟩ :: ps, d, d' => by simp [sumLoop, sumLoop_indep ps (d + x) (d' + x)]

/-- queue, playing list, clock, keep, end: nothing of the state depends on the zero value -/
theorem pstep_state_indep [Add α] (z z' : α) (s : PState α) (op : Op α) :
    (pstep z s op).1 = (pstep z' s op).1 := by
  cases op with
  | add d x => rfl
  | setKeep b => rfl
  | next =>
    simp only [pstep, pnext]
    by_cases he : s.ended = true
    · simp [he]
    · have h := sumLoop_indep
        (pstartLoop (if s.suspended then s.count + 1 else s.count) s.notPlaying s.playing).2.2 z z'
      have h1 := congrArg Prod.fst h
      have h2 := congrArg Prod.snd h
      simp only [he] at *
      rw [h1, h2]
      simp only [apply_ite Prod.fst]

theorem krun_state [Add α] (z : α) : ∀ (ops : List (Op α)) (cell : α) (s : PState α),
    (krun cell s ops).2.1 = (prun z s ops).1
  | [], _, _ => rfl
  | op :: ops, cell, s => by
    simp only [krun, prun, kstep_eq]
    rw [krun_state z ops, pstep_state_indep cell z]

end ALV.C16
