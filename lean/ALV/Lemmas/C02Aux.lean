/-
  C02 — auxiliary sources: `resample` with a time-varying step as a two-source machine
  (`rsStepS`: step-source view whose outputs count the signal reads), its signal-source view
  (`gapS`), and their closed forms.  Core Lean only.
-/
import ALV.Lemmas.C02Rat
namespace ALV.C02
open ALV ALV.Stage
variable {ι ο σ α : Type}

/-! ### rational helpers -/

theorem ceil_sub_nat (x : Rat) : ∀ n : Nat, (x - (n : Rat)).ceil = x.ceil - (n : Int)
  | 0 => by
    have e : x - ((0 : Nat) : Rat) = x := by push_cast; grind
    rw [e]; simp
  | n + 1 => by
    have e : x - ((n + 1 : Nat) : Rat) = x - (n : Rat) - 1 := by push_cast; grind
    rw [e, ceil_sub_one, ceil_sub_nat x n]
    omega

theorem sumRat_nonneg : ∀ (l : List Rat), (∀ s ∈ l, 0 ≤ s) → 0 ≤ sumRat l
  | [], _ => by simp [sumRat]
  | x :: xs, h => by
    have h1 := h x (List.mem_cons_self ..)
    have h2 := sumRat_nonneg xs (fun s hs => h s (List.mem_cons_of_mem _ hs))
    simp only [sumRat]
    grind

/-! ### the inner loop `while idx > thr: read; idx -= 1` -/

theorem rsCatchUp_eq (thr : Rat) : ∀ (fuel : Nat) (idx : Rat), (idx - thr).ceil.toNat ≤ fuel →
    rsCatchUp thr fuel idx = ((idx - thr).ceil.toNat, idx - (((idx - thr).ceil.toNat : Nat) : Rat)) := by
  intro fuel
  induction fuel with
  | zero =>
    intro idx h
    have h0 : (idx - thr).ceil.toNat = 0 := by omega
    simp only [rsCatchUp, h0]
    congr 1
    push_cast; grind
  | succ f ih =>
    intro idx h
    rw [rsCatchUp]
    by_cases hgt : idx > thr
    · rw [if_pos hgt]
      have hp := ceil_pos (x := idx - thr) (by grind)
      have he : idx - 1 - thr = idx - thr - 1 := by grind
      have h1 := ceil_sub_one (idx - thr)
      have hc : (idx - 1 - thr).ceil.toNat + 1 = (idx - thr).ceil.toNat := by rw [he, h1]; omega
      rw [ih (idx - 1) (by omega)]
      simp only
      rw [hc, ← hc]
      congr 1
      push_cast
      grind
    · rw [if_neg hgt]
      have := ceil_nonpos (x := idx - thr) (by grind)
      have h0 : (idx - thr).ceil.toNat = 0 := by omega
      simp only [h0]
      congr 1
      push_cast; grind

/-! ### step-source view of `resample`: one output per step value, reads of the signal -/

/-- loop invariant at the `yield`: `thr - 1 < idx ≤ thr` -/
def RsInv (order : Nat) (idx : Rat) : Prop := rsThrOf order - 1 < idx ∧ idx ≤ rsThrOf order

theorem rsStep_onItem (order : Nat) (idx delta : Rat) :
    (rsStepS order).onItem idx delta =
      (idx + delta - (((idx + delta - rsThrOf order).ceil.toNat : Nat) : Rat),
        [(idx + delta - rsThrOf order).ceil.toNat]) := by
  simp only [rsStepS, rsCatchFuel]
  rw [rsCatchUp_eq _ _ _ (Nat.le_refl _)]

theorem ceil_nonneg_of_gt {y : Rat} (h : -1 < y) : 0 ≤ y.ceil := by
  have : (-1 : Int) < y.ceil := by rw [Rat.lt_ceil_iff]; simpa using h
  omega

theorem ceil_lt_add_one (y : Rat) : (y.ceil : Rat) < y + 1 := by
  have h : y.ceil - 1 < y.ceil := by omega
  rw [Rat.lt_ceil_iff] at h
  push_cast at h
  grind

theorem rsInv_step (order : Nat) (idx delta : Rat) (hi : RsInv order idx) (hd : 0 ≤ delta) :
    RsInv order (idx + delta - (((idx + delta - rsThrOf order).ceil.toNat : Nat) : Rat)) := by
  obtain ⟨h1, h2⟩ := hi
  have hge := ceil_nonneg_of_gt (y := idx + delta - rsThrOf order) (by grind)
  have hc : (((idx + delta - rsThrOf order).ceil.toNat : Nat) : Rat) =
      ((idx + delta - rsThrOf order).ceil : Rat) := by
    rw [← Rat.intCast_natCast]; congr 1; omega
  have hle := @Rat.le_ceil (idx + delta - rsThrOf order)
  have hlt := ceil_lt_add_one (idx + delta - rsThrOf order)
  unfold RsInv
  rw [hc]
  constructor <;> grind

theorem rsInv_init (order : Nat) : RsInv order (((order + 1) / 2 : Nat) : Rat) := by
  have h1 := rs_floor_le order
  unfold RsInv rsThrOf
  unfold rsThr at h1
  refine ⟨?_, h1⟩
  have h : order + 1 < 2 * ((order + 1) / 2) + 2 := by omega
  have h' : ((order + 1 : Nat) : Rat) < ((2 * ((order + 1) / 2) + 2 : Nat) : Rat) :=
    Rat.natCast_lt_natCast.2 h
  push_cast at h' ⊢
  grind

/-- signal items pulled while the outputs driven by `steps` are produced -/
theorem rsStep_sum (order : Nat) : ∀ (steps : List Rat) (idx : Rat), RsInv order idx →
    (∀ s ∈ steps, 0 ≤ s) →
    ((rsStepS order).emitFrom idx steps).sum = (idx + sumRat steps - rsThrOf order).ceil.toNat := by
  intro steps
  induction steps with
  | nil =>
    intro idx hi _
    have := ceil_nonpos (x := idx + sumRat [] - rsThrOf order) (by simp only [sumRat]; have := hi.2; grind)
    simp only [emitFrom, List.sum_nil]
    omega
  | cons d ss ih =>
    intro idx hi hs
    have hd := hs d (List.mem_cons_self ..)
    have hss : ∀ s ∈ ss, 0 ≤ s := fun s h => hs s (List.mem_cons_of_mem _ h)
    have hinv := rsInv_step order idx d hi hd
    rw [emitFrom, rsStep_onItem]
    simp only [List.sum_append, List.sum_cons, List.sum_nil, Nat.add_zero]
    rw [ih _ hinv hss]
    generalize hc : (idx + d - rsThrOf order).ceil.toNat = c at *
    have e : idx + d - (c : Rat) + sumRat ss - rsThrOf order =
        idx + sumRat (d :: ss) - rsThrOf order - (c : Rat) := by simp only [sumRat]; grind
    rw [e, ceil_sub_nat]
    have hnn : 0 ≤ (idx + sumRat (d :: ss) - rsThrOf order - (c : Rat)).ceil := by
      apply ceil_nonneg_of_gt
      rw [← e]
      have := sumRat_nonneg ss hss
      have := hinv.1
      grind
    rw [ceil_sub_nat] at hnn
    omega

theorem emitFrom_unit_length (S : Stage ι ο σ) (h1 : ∀ s x, (S.onItem s x).2.length = 1) :
    ∀ (xs : List ι) (s : σ), (S.emitFrom s xs).length = xs.length
  | [], _ => rfl
  | x :: xs, s => by
    rw [emitFrom, List.length_append, h1, emitFrom_unit_length S h1 xs]; simp; omega

theorem emitFrom_unit_take (S : Stage ι ο σ) (h1 : ∀ s x, (S.onItem s x).2.length = 1) :
    ∀ (xs : List ι) (s : σ) (n : Nat), (S.emitFrom s xs).take n = S.emitFrom s (xs.take n)
  | [], _, n => by simp [emitFrom]
  | x :: xs, s, 0 => by simp [emitFrom]
  | x :: xs, s, n + 1 => by
    rw [List.take_succ_cons, emitFrom, emitFrom, List.take_append, h1,
      emitFrom_unit_take S h1 xs _ (n + 1 - 1), List.take_of_length_le (by rw [h1]; omega)]
    rfl

theorem rsStep_unit (order : Nat) (s x : Rat) : ((rsStepS order).onItem s x).2.length = 1 := rfl

theorem sumRat_take_nonneg (l : List Rat) (h : ∀ s ∈ l, 0 ≤ s) (n : Nat) : ∀ s ∈ l.take n, 0 ≤ s :=
  fun s hs => h s (List.mem_of_mem_take hs)

/-- the two-source closed form: signal items pulled when `k` outputs have been delivered -/
theorem rsStep_emit_sum (order : Nat) (steps : List Rat) (hs : ∀ s ∈ steps, 0 ≤ s) (k : Nat) :
    (((rsStepS order).emit steps).take k).sum + (k - ((rsStepS order).emit steps).length) =
      needResampleTV order steps k := by
  have hlen : ((rsStepS order).emit steps).length = steps.length + 1 := by
    simp only [emit, List.length_append, emitFrom_unit_length _ (rsStep_unit order)]
    simp [rsStepS]; omega
  rw [hlen]
  cases k with
  | zero => simp [needResampleTV]
  | succ k =>
    unfold needResampleTV
    simp only [Nat.succ_ne_zero, if_false, Nat.add_sub_cancel]
    have e1 : ((rsStepS order).emit steps).take (k + 1) =
        rsPrefill order :: (rsStepS order).emitFrom (((order + 1) / 2 : Nat) : Rat) (steps.take k) := by
      simp only [emit]
      rw [show (rsStepS order).pre = [rsPrefill order] from rfl,
        show (rsStepS order).init = (((order + 1) / 2 : Nat) : Rat) from rfl]
      simp only [List.singleton_append, List.take_succ_cons]
      rw [emitFrom_unit_take _ (rsStep_unit order)]
    rw [e1, List.sum_cons, rsStep_sum order _ _ (rsInv_init order) (sumRat_take_nonneg steps hs k)]
    have e2 : (((order + 1) / 2 : Nat) : Rat) + sumRat (steps.take k) - rsThrOf order =
        sumRat (steps.take k) - ((((order + 1 : Nat) : Rat)) / 2 - (((order + 1) / 2 : Nat) : Rat)) := by
      unfold rsThrOf; grind
    rw [e2]
    omega

/-! ### signal-source view: `read gaps[i] items; yield` -/

/-- items needed for `k` outputs of `gapS gs` -/
def gapNeed (gs : List Nat) (k : Nat) : Nat := (gs.take k).sum + (k - gs.length)

theorem gapNeed_zero (gs : List Nat) : gapNeed gs 0 = 0 := by simp [gapNeed]

theorem gapNeed_strip : ∀ (gs : List Nat) (k : Nat),
    gapNeed gs k = gapNeed (stripZeros gs).2 (k - (stripZeros gs).1)
  | [], k => by simp [stripZeros]
  | g :: gs, k => by
    rw [stripZeros]
    by_cases hg : g = 0
    · subst hg
      simp only [if_true]
      cases k with
      | zero => simp [gapNeed_zero]
      | succ k =>
        have ih := gapNeed_strip gs k
        have e : k + 1 - ((stripZeros gs).1 + 1) = k - (stripZeros gs).1 := by omega
        rw [e, ← ih]
        simp [gapNeed]
    · simp only [if_neg hg, Nat.sub_zero]

theorem strip_head : ∀ (gs : List Nat), (stripZeros gs).2.head? ≠ some 0
  | [] => by simp [stripZeros]
  | g :: gs => by
    rw [stripZeros]
    by_cases hg : g = 0
    · simp only [if_pos hg]; exact strip_head gs
    · simp only [if_neg hg, List.head?_cons]
      intro h; exact hg (Option.some.inj h)

theorem needFrom_gapS (gaps0 : List Nat) : ∀ (xs : List α) (gs : List Nat) (k : Nat),
    gs.head? ≠ some 0 → gapNeed gs k ≤ xs.length →
    (gapS gaps0 : Stage α Unit (List Nat)).needFrom gs k xs = some (gapNeed gs k) := by
  intro xs
  induction xs with
  | nil =>
    intro gs k _ hk
    cases k with
    | zero => rw [needFrom_zero, gapNeed_zero]
    | succ k =>
      exfalso
      cases gs with
      | nil => simp [gapNeed] at hk
      | cons g rest =>
        have hg : g ≠ 0 := fun h => by subst h; simp at *
        simp [gapNeed] at hk
        omega
  | cons x xs ih =>
    intro gs k hh hk
    cases k with
    | zero => rw [needFrom_zero, gapNeed_zero]
    | succ k =>
      rw [needFrom]
      cases gs with
      | nil =>
        have e : (gapS gaps0 : Stage α Unit (List Nat)).onItem [] x = ([], [()]) := rfl
        rw [e]
        simp only [List.length_cons, List.length_nil, Nat.zero_add, Nat.add_sub_cancel]
        have hk' : gapNeed [] k ≤ xs.length := by simp [gapNeed] at hk ⊢; omega
        rw [ih [] k (by simp) hk']
        simp [gapNeed]
      | cons g rest =>
        have hg : g ≠ 0 := fun h => by subst h; simp at hh
        by_cases h1 : g ≤ 1
        · have hg1 : g = 1 := by omega
          subst hg1
          have e : (gapS gaps0 : Stage α Unit (List Nat)).onItem (1 :: rest) x =
              ((stripZeros rest).2, List.replicate ((stripZeros rest).1 + 1) ()) := by
            simp [gapS]
          rw [e]
          simp only [List.length_replicate]
          have e2 : k + 1 - ((stripZeros rest).1 + 1) = k - (stripZeros rest).1 := by omega
          have hs := gapNeed_strip rest k
          have e3 : gapNeed (1 :: rest) (k + 1) = gapNeed rest k + 1 := by
            simp [gapNeed]; omega
          rw [e2, ih _ _ (strip_head rest) (by rw [← hs]; simp at hk; omega), ← hs, e3]
          simp
        · have e : (gapS gaps0 : Stage α Unit (List Nat)).onItem (g :: rest) x =
              ((g - 1) :: rest, []) := by
            simp [gapS, h1]
          rw [e]
          simp only [List.length_nil, Nat.sub_zero]
          have e3 : gapNeed (g :: rest) (k + 1) = gapNeed ((g - 1) :: rest) (k + 1) + 1 := by
            simp [gapNeed]; omega
          rw [ih _ _ (by simp; omega) (by simp at hk; omega), e3]
          simp

theorem hasNeed_gapS (gaps : List Nat) : HasNeed (gapS gaps : Stage α Unit (List Nat)) (gapNeed gaps) := by
  intro xs k hk
  unfold need
  have hpre : (gapS gaps : Stage α Unit (List Nat)).pre.length = (stripZeros gaps).1 := by simp [gapS]
  have hinit : (gapS gaps : Stage α Unit (List Nat)).init = (stripZeros gaps).2 := rfl
  rw [hpre, hinit, gapNeed_strip gaps k]
  exact needFrom_gapS gaps xs _ _ (strip_head gaps) (by rw [← gapNeed_strip]; exact hk)

/-- **resample, time-varying step, signal source**: `k` outputs read the initial `take` plus one
    item per unit of the position `sum of the first k-1 steps` -/
theorem hasNeed_resampleTVS (order : Nat) (steps : List Rat) (hs : ∀ s ∈ steps, 0 ≤ s) :
    HasNeed (resampleTVS order steps : Stage α Unit (List Nat)) (needResampleTV order steps) := by
  intro xs k hk
  have h := hasNeed_gapS (α := α) ((rsStepS order).emit steps) xs k
  unfold gapNeed at h
  rw [rsStep_emit_sum order steps hs k] at h
  exact h hk

/-! ### the step source: `k` outputs pull `k - 1` step values -/

theorem hasNeed_rsStepS (order : Nat) : HasNeed (rsStepS order) auxNeedLag1 :=
  hasNeed_unit (rsStepS order) 1 rfl (rsStep_unit order)

/-- the loop that fetches the step in its header pulls `k` step values for `k` outputs -/
theorem hasNeed_rsStepEagerS (order : Nat) : HasNeed (rsStepEagerS order) (fun k => k) :=
  hasNeed_unit (rsStepEagerS order) 0 rfl (fun _ _ => rfl)

/-- a constant step is the special case of a step stream that repeats one value -/
theorem sumRat_replicate (s : Rat) : ∀ n : Nat, sumRat (List.replicate n s) = (n : Rat) * s
  | 0 => by simp [sumRat]
  | n + 1 => by
    simp only [List.replicate_succ, sumRat, sumRat_replicate s n]
    push_cast; grind

theorem needResampleTV_const (order : Nat) (step : Rat) (n k : Nat) (hk : k ≤ n + 1) :
    needResampleTV order (List.replicate n step) k = needResample order step k := by
  unfold needResampleTV needResample
  by_cases h0 : k = 0
  · simp [h0]
  · simp only [if_neg h0, List.take_replicate, List.length_replicate, sumRat_replicate]
    have e : min (k - 1) n = k - 1 := by omega
    rw [e]
    omega

/-! ### `attack(a, d, <iterable sustain>)` -/

theorem hasNeed_attackS {α : Type} (n : Nat) (line : α → Nat → α) :
    HasNeed (attackS n line) (needAttack n) := by
  intro xs k hk
  cases k with
  | zero => exact needFrom_zero _ _ _
  | succ k =>
    simp only [needAttack, Nat.succ_ne_zero, if_false] at hk ⊢
    cases xs with
    | nil => simp at hk
    | cons x xs =>
      unfold need
      show (attackS n line).needFrom true (k + 1 - 0) (x :: xs) = _
      rw [Nat.sub_zero, needFrom]
      show Option.map _ ((attackS n line).needFrom false
        (k + 1 - ((List.range n).map (line x)).length) xs) = _
      rw [List.length_map, List.length_range]
      rw [needFrom_unit (attackS n line) (fun s => s = false)
        (fun s y hs => by subst hs; exact ⟨rfl, rfl⟩) xs false _ rfl (by simp at hk; omega)]
      simp; omega

end ALV.C02
