/-
  C06 — helper lemmas, part 8: two calls of the same filter object.
  * constant gain: the second call goes on with every coefficient stream where the first call
    stopped (`evalTV_continue`, `callTwice_const`);
  * Stream gain: the first call deletes `denpoly[0]` of the filter object, the second call raises
    `ZeroDivisionError` (`callTwice_gain`).
-/
import ALV.Lemmas.C06Corner

set_option linter.unusedSectionVars false
set_option linter.unusedSimpArgs false
set_option linter.unusedVariables false
namespace ALV.C06
open ALV.C04
variable {K : Type} [Field K] [DecidableEq K]

/-! ### the specification with the coefficient streams continued -/

theorem get?_dropC (c : Coef K) (k n : Nat) : (c.dropC k).get? n = c.get? (n + k) := by
  cases c with
  | const c0 => rfl
  | strm s => simp [Coef.dropC, Coef.get?, List.getElem?_drop, Nat.add_comm]

theorem row?_dropC (cs : List (Coef K)) (k n : Nat) :
    row? (cs.map (Coef.dropC k)) n = row? cs (n + k) := by
  induction cs with
  | nil => rfl
  | cons c cs ih => rw [List.map_cons, row?_cons, row?_cons, get?_dropC, ih]

/-- the equation on the streams as the first `k` outputs left them = the equation from output
index `k` on (fresh memory and input history) -/
theorem tvspec_dropC (b as : List (Coef K)) (a0 : Coef K) (zero : K) (k : Nat) :
    ∀ (xs : List K) (n : Nat) (hy hx : List K),
      tvspec (b.map (Coef.dropC k)) (as.map (Coef.dropC k)) (a0.dropC k) zero n hy hx xs
        = tvspec b as a0 zero (n + k) hy hx xs := by
  intro xs
  induction xs with
  | nil => intros; simp [tvspec]
  | cons x xs ih =>
    intro n hy hx
    simp only [tvspec, row?_dropC, get?_dropC]
    cases row? b (n + k) with
    | none => rfl
    | some bn =>
      cases row? as (n + k) with
      | none => rfl
      | some an =>
        cases a0.get? (n + k) with
        | none => rfl
        | some g =>
          simp only
          rw [ih, Nat.add_right_comm]

/-! ### constant gain: the loop run again on the iterators the first call left -/

/-- **second call, constant gain** (loop level): if the first output was ended by its input, the
second run of the generated loop on the iterators as they were left computes the difference
equation whose coefficient index goes on at `|xs1|`; memory, zero value and input are the second
call's own. -/
theorem evalTV_continue (b as : List (Coef K)) (a0 zero1 zero2 : K) (mem1 mem2 xs1 xs2 : List K)
    (hmem2 : mem2.length = as.length)
    (hnz : ¬ ((∀ c ∈ b, c = Coef.const 0) ∧ (∀ c ∈ as, c = Coef.const 0)))
    (hfull : (evalTV (compileTV b (Coef.const a0 :: as) zero1) mem1 zero1 (itsOf b as) xs1).1.length
      = xs1.length) :
    (evalTV (compileTV b (Coef.const a0 :: as) zero2) mem2 zero2
        (evalTV (compileTV b (Coef.const a0 :: as) zero1) mem1 zero1 (itsOf b as) xs1).2 xs2).1
      = tvspec b as (Coef.const a0) zero2 xs1.length mem2 [] xs2 := by
  have ht := evalTV_take b as a0 zero1 mem1 xs1 xs1.length (by rw [hfull])
  rw [List.take_length] at ht
  have h2 : (evalTV (compileTV b (Coef.const a0 :: as) zero1) mem1 zero1 (itsOf b as) xs1).2
      = itsAt b as xs1.length := congrArg Prod.snd ht
  rw [h2, compileTV_loop b as a0 zero2 hnz]
  simp only [evalTV]
  rw [runLoopTV_eq_tvrun b as a0 _ (applyGain_compile a0) xs2 xs1.length 0 0 mem2
    (List.replicate (b.length - 1) zero2) hmem2 (by simp)]
  have h3 := tvrun_eq_tvspec b as (Coef.const a0) zero2 xs2 xs1.length mem2 [] (by omega)
  rw [takeP_nil, ← hmem2, List.take_length] at h3
  exact h3

/-! ### Stream gain: the first call destroys the filter object -/

theorem setItem_zero_head (c : Coef K) (rest : Terms (Coef K)) :
    ALV.C07.setItem (((0 : Int), c) :: rest) 0 0 = rest := by
  simp [ALV.C07.setItem, ALV.C07.has, ALV.C07.find?, ALV.C07.del]

theorem denAfterCall_gain (num rest : Terms (Coef K)) (gs : List K)
    (hc : ∀ kv ∈ num ++ (((0 : Int), Coef.strm gs) :: rest), 0 ≤ kv.1) :
    denAfterCall num (((0 : Int), Coef.strm gs) :: rest) = rest := by
  have hcausal := checkCausal_of_nonneg _ _ hc
  have hg0 : coefAt (((0 : Int), Coef.strm gs) :: rest) 0 = Coef.strm gs := by simp [coefAt]
  simp only [denAfterCall, hcausal, Bool.not_true, Bool.false_eq_true, if_false, hg0]
  exact setItem_zero_head _ rest

/-- a causal filter object whose denominator has no delay-0 term: `ZeroDivisionError("Invalid
filter gain")` -/
theorem callTV_no_gain (num rest : Terms (Coef K)) (mem : Mem K) (zero : K) (xs : List K)
    (hcn : ∀ kv ∈ num, 0 ≤ kv.1) (hpos : ∀ kv ∈ rest, (0 : Int) < kv.1) :
    callTV num rest mem zero xs = .error .zeroDivision := by
  have hc : ∀ kv ∈ num ++ rest, 0 ≤ kv.1 := by
    intro kv hkv
    rcases List.mem_append.1 hkv with h | h
    · exact hcn kv h
    · exact Int.le_of_lt (hpos kv h)
  have hcausal := checkCausal_of_nonneg _ _ hc
  have h0 : coefAt rest 0 = Coef.const 0 := coefAt_of_lt rest 0 hpos
  simp [callTV, callConst, hcausal, h0]

/-- **second call after a Stream-gain call** (the model of the code as it is): whatever the first
call returned, the filter object has lost `denpoly[0]`, and the second call raises
`ZeroDivisionError` before it reads anything -/
theorem callTwice_gain (num rest : Terms (Coef K)) (gs : List K) (mem1 mem2 : Mem K)
    (zero1 zero2 : K) (xs1 xs2 : List K)
    (hden : List.Pairwise (fun x y : Int × Coef K => x.1 < y.1) (((0 : Int), Coef.strm gs) :: rest))
    (hcn : ∀ kv ∈ num, 0 ≤ kv.1) :
    (callTwice num (((0 : Int), Coef.strm gs) :: rest) mem1 zero1 xs1 mem2 zero2 xs2).2
      = .error .zeroDivision := by
  have hpos : ∀ kv ∈ rest, (0 : Int) < kv.1 := (List.pairwise_cons.1 hden).1
  have hc : ∀ kv ∈ num ++ (((0 : Int), Coef.strm gs) :: rest), 0 ≤ kv.1 := by
    intro kv hkv
    rcases List.mem_append.1 hkv with h | h
    · exact hcn kv h
    · rcases List.mem_cons.1 h with rfl | h
      · simp
      · exact Int.le_of_lt (hpos kv h)
  have hg0 : coefAt (((0 : Int), Coef.strm gs) :: rest) 0 = Coef.strm gs := by simp [coefAt]
  simp only [callTwice, hg0, denAfterCall_gain num rest gs hc]
  exact callTV_no_gain num rest mem2 zero2 xs2 hcn hpos

end ALV.C06
