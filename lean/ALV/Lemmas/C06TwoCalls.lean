/-
  C06 — helper lemmas, part 8: two calls of the same filter object.
  * constant gain: the second call goes on with every coefficient stream where the first call
    stopped (`evalTV_continue`, `callTwice_const`);
  * Stream gain: the first call deletes `denpoly[0]` of the filter object, the second call raises
    `ZeroDivisionError` (`callTwice_gain`).
-/
import ALV.Lemmas.C06Corner

set_option linter.unusedSectionVars false
set_option linter.unusedSimpArgs false
set_option linter.unusedVariables false
namespace ALV.C06
open ALV.C04
variable {K : Type} [Field K] [DecidableEq K]

/-! ### the specification with the coefficient streams continued -/

theorem get?_dropC (c : Coef K) (k n : Nat) : (c.dropC k).get? n = c.get? (n + k) := by
  cases c with
  | const c0 => rfl
  | strm s => simp [Coef.dropC, Coef.get?, List.getElem?_drop, Nat.add_comm]

theorem row?_dropC (cs : List (Coef K)) (k n : Nat) :
    row? (cs.map (Coef.dropC k)) n = row? cs (n + k) := by
  induction cs with
  | nil => rfl
  | cons c cs ih => rw [List.map_cons, row?_cons, row?_cons, get?_dropC, ih]

/-- the equation on the streams as the first `k` outputs left them = the equation from output
index `k` on (fresh memory and input history) -/
theorem tvspec_dropC (b as : List (Coef K)) (a0 : Coef K) (zero : K) (k : Nat) :
    ∀ (xs : List K) (n : Nat) (hy hx : List K),
      tvspec (b.map (Coef.dropC k)) (as.map (Coef.dropC k)) (a0.dropC k) zero n hy hx xs
        = tvspec b as a0 zero (n + k) hy hx xs := by
  intro xs
  induction xs with
  | nil => intros; simp [tvspec]
  | cons x xs ih =>
    intro n hy hx
    simp only [tvspec, row?_dropC, get?_dropC]
    cases row? b (n + k) with
    | none => rfl
    | some bn =>
      cases row? as (n + k) with
      | none => rfl
      | some an =>
        cases a0.get? (n + k) with
        | none => rfl
        | some g =>
          simp only
          rw [ih, Nat.add_right_comm]

/-! ### constant gain: the loop run again on the iterators the first call left -/

/-- **second call, constant gain** (loop level): if the first output was ended by its input, the
second run of the generated loop on the iterators as they were left computes the difference
equation whose coefficient index goes on at `|xs1|`; memory, zero value and input are the second
call's own. -/
theorem evalTV_continue (b as : List (Coef K)) (a0 zero1 zero2 : K) (mem1 mem2 xs1 xs2 : List K)
    (hmem2 : mem2.length = as.length)
    (hnz : ¬ ((∀ c ∈ b, c = Coef.const 0) ∧ (∀ c ∈ as, c = Coef.const 0)))
    (hfull : (evalTV (compileTV b (Coef.const a0 :: as) zero1) mem1 zero1 (itsOf b as) xs1).1.length
      = xs1.length) :
    (evalTV (compileTV b (Coef.const a0 :: as) zero2) mem2 zero2
        (evalTV (compileTV b (Coef.const a0 :: as) zero1) mem1 zero1 (itsOf b as) xs1).2 xs2).1
      = tvspec b as (Coef.const a0) zero2 xs1.length mem2 [] xs2 := by
  have ht := evalTV_take b as a0 zero1 mem1 xs1 xs1.length (by rw [hfull])
  rw [List.take_length] at ht
  have h2 : (evalTV (compileTV b (Coef.const a0 :: as) zero1) mem1 zero1 (itsOf b as) xs1).2
      = itsAt b as xs1.length := congrArg Prod.snd ht
  rw [h2, compileTV_loop b as a0 zero2 hnz]
  simp only [evalTV]
  rw [runLoopTV_eq_tvrun b as a0 _ (applyGain_compile a0) xs2 xs1.length 0 0 mem2
    (List.replicate (b.length - 1) zero2) hmem2 (by simp)]
  have h3 := tvrun_eq_tvspec b as (Coef.const a0) zero2 xs2 xs1.length mem2 [] (by omega)
  rw [takeP_nil, ← hmem2, List.take_length] at h3
  exact h3

/-! ### a filter object without gain -/

/-- a causal filter object whose denominator has no delay-0 term: `ZeroDivisionError("Invalid
filter gain")` -/
theorem callTV_no_gain (num rest : Terms (Coef K)) (mem : Mem K) (zero : K) (xs : List K)
    (hcn : ∀ kv ∈ num, 0 ≤ kv.1) (hpos : ∀ kv ∈ rest, (0 : Int) < kv.1) :
    callTV num rest mem zero xs = .error .zeroDivision := by
  have hc : ∀ kv ∈ num ++ rest, 0 ≤ kv.1 := by
    intro kv hkv
    rcases List.mem_append.1 hkv with h | h
    · exact hcn kv h
    · exact Int.le_of_lt (hpos kv h)
  have hcausal := checkCausal_of_nonneg _ _ hc
  have h0 : coefAt rest 0 = Coef.const 0 := coefAt_of_lt rest 0 hpos
  simp [callTV, callConst, hcausal, h0]

/-! ### constant gain: the filter OBJECT after the first call, called again -/

theorem advance_eq_map (off : Nat) (t : Terms (Coef K)) (its : List (List K)) :
    advance off t its = t.map (fun kv => (kv.1,
      match kv.2 with
      | .strm _ => Coef.strm (its.getD (kv.1.toNat - off) [])
      | .const c => Coef.const c)) := by
  unfold advance
  apply List.map_congr_left
  intro kv _
  obtain ⟨k, c⟩ := kv
  cases c <;> rfl

theorem order_advance (off : Nat) (t : Terms (Coef K)) (its : List (List K)) :
    order (advance off t its) = order t := by
  rw [advance_eq_map]
  exact order_map_snd t _

theorem advance_isEmpty (off : Nat) (t : Terms (Coef K)) (its : List (List K)) :
    (advance off t its).isEmpty = t.isEmpty := by
  cases t <;> rfl

theorem advance_keys (off : Nat) (t : Terms (Coef K)) (its : List (List K)) :
    ∀ kv ∈ advance off t its, ∃ kv' ∈ t, kv'.1 = kv.1 := by
  intro kv hkv
  rw [advance_eq_map] at hkv
  obtain ⟨kv', hkv', rfl⟩ := List.mem_map.1 hkv
  exact ⟨kv', hkv', rfl⟩

/-- look-up in the object after the call: a Stream holds what its iterator has left -/
theorem coefAt_advance (off : Nat) (t : Terms (Coef K)) (its : List (List K)) (j : Int) :
    coefAt (advance off t its) j =
      match coefAt t j with
      | .strm _ => Coef.strm (its.getD (j.toNat - off) [])
      | .const c => Coef.const c := by
  rw [advance_eq_map]
  have hp : ((fun kv : Int × Coef K => kv.1 == j) ∘ fun kv : Int × Coef K => (kv.1,
      match kv.2 with
      | .strm _ => Coef.strm (its.getD (kv.1.toNat - off) [])
      | .const c => Coef.const c)) = (fun kv => kv.1 == j) := by funext kv; rfl
  simp only [coefAt, List.find?_map, hp]
  cases h : t.find? (fun kv => kv.1 == j) with
  | none => rfl
  | some kv =>
    have hk : kv.1 = j := by simpa using List.find?_some h
    obtain ⟨k, c⟩ := kv
    simp only at hk
    subst hk
    cases c <;> rfl

theorem dense_getD (t : Terms (Coef K)) (i : Nat) (hi : i ≤ order t) (ht : t.isEmpty = false) :
    (dense t)[i]? = some (coefAt t (Int.ofNat i)) := by
  simp only [dense, ht, Bool.false_eq_true, if_false, List.getElem?_map]
  rw [List.getElem?_range (by omega)]
  rfl

/-- `values()` of the numerator after the call = the coefficients as the first `k` outputs left them -/
theorem dense_advance_num (num : Terms (Coef K)) (k : Nat) :
    dense (advance 0 num ((dense num).map (fun c => c.items.drop k)))
      = (dense num).map (Coef.dropC k) := by
  by_cases ht : num.isEmpty = true
  · simp [dense, advance_isEmpty, ht]
  · have ht' : num.isEmpty = false := by simpa using ht
    simp only [dense, advance_isEmpty, ht', Bool.false_eq_true, if_false, order_advance, List.map_map]
    apply List.map_congr_left
    intro i hi
    have hi' : i ≤ order num := by simp at hi; omega
    simp only [Function.comp]
    rw [coefAt_advance]
    cases h : coefAt num (Int.ofNat i) with
    | const c => rfl
    | strm s =>
      have h' : coefAt num (i : Int) = Coef.strm s := h
      simp only [Coef.dropC, Coef.strm.injEq, Int.ofNat_eq_natCast, Int.toNat_natCast, Nat.sub_zero,
        List.getD_eq_getElem?_getD, List.getElem?_map]
      rw [List.getElem?_range (by omega)]
      simp only [Option.map_some, Option.getD_some, Function.comp, h']
      rfl

/-- the same for the denominator (its delay-0 term is the constant gain; `a{k}` ↦ `its.a[k-1]`) -/
theorem dense_advance_den (den : Terms (Coef K)) (g : K) (h0 : coefAt den 0 = Coef.const g) (k : Nat) :
    dense (advance 1 den ((dense den).tail.map (fun c => c.items.drop k)))
      = (dense den).map (Coef.dropC k) := by
  by_cases ht : den.isEmpty = true
  · simp [dense, advance_isEmpty, ht]
  · have ht' : den.isEmpty = false := by simpa using ht
    simp only [dense, advance_isEmpty, ht', Bool.false_eq_true, if_false, order_advance, List.map_map]
    apply List.map_congr_left
    intro i hi
    have hi' : i ≤ order den := by simp at hi; omega
    simp only [Function.comp]
    rw [coefAt_advance]
    cases h : coefAt den (Int.ofNat i) with
    | const c => rfl
    | strm s =>
      have hpos : i ≠ 0 := by
        intro hz; subst hz
        have : coefAt den (Int.ofNat 0) = coefAt den 0 := rfl
        rw [this, h0] at h
        cases h
      have h' : coefAt den (i : Int) = Coef.strm s := h
      simp only [Coef.dropC, Coef.strm.injEq, Int.ofNat_eq_natCast, Int.toNat_natCast,
        List.getD_eq_getElem?_getD, List.getElem?_map, List.getElem?_tail]
      have hi1 : i - 1 + 1 = i := by omega
      rw [hi1, List.getElem?_range (by omega)]
      simp only [Option.map_some, Option.getD_some, Function.comp, h']
      rfl

theorem dropC_eq_zero (k : Nat) (c : Coef K) : c.dropC k = Coef.const 0 ↔ c = Coef.const 0 := by
  cases c <;> simp [Coef.dropC]

theorem map_dropC_zero (k : Nat) (l : List (Coef K)) :
    (∀ c ∈ l.map (Coef.dropC k), c = Coef.const 0) ↔ ∀ c ∈ l, c = Coef.const 0 := by
  simp only [List.mem_map, forall_exists_index, and_imp, forall_apply_eq_imp_iff₂, dropC_eq_zero]

/-- **second call, constant gain, on the filter object**: a normalised causal filter object with a
constant gain and Stream coefficients, called, its output (ended by the input) consumed, called
again: the object now holds every coefficient Stream where the first call left it, and the second
call — causality test, gain test, `values()`, memory, generated source, new generator on the same
iterators — computes the difference equation with the coefficient index going on at `|xs1|`. -/
theorem callTwice_const (num den : Terms (Coef K)) (mem1 mem2 : Mem K) (zero1 zero2 : K)
    (xs1 xs2 : List K) (g : K)
    (hnum : List.Pairwise (fun x y : Int × Coef K => x.1 < y.1) num)
    (hden : List.Pairwise (fun x y : Int × Coef K => x.1 < y.1) den)
    (hstored : ∀ kv ∈ num ++ den, kv.2 ≠ Coef.const 0) (hc : ∀ kv ∈ num ++ den, 0 ≤ kv.1)
    (h0 : coefAt den 0 = Coef.const g) (hg : g ≠ 0)
    (hnz : ¬ ((∀ c ∈ dense num, c = Coef.const 0) ∧ (∀ c ∈ (dense den).tail, c = Coef.const 0)))
    (hfull : ∃ ys its, callTV num den mem1 zero1 xs1 = .ok (ys, its) ∧ ys.length = xs1.length) :
    (callTwice num den mem1 zero1 xs1 mem2 zero2 xs2).2.map Prod.fst
      = .ok (tvspec (dense num) (dense den).tail (Coef.const g) zero2 xs1.length
              (memoryOf zero2 (dense den).tail.length mem2) [] xs2) := by
  obtain ⟨ys, its, hr, hlen⟩ := hfull
  have h0' : coefAt den 0 ≠ Coef.const 0 := by
    rw [h0]; intro h; exact hg (Coef.const.inj h)
  have ht := callTV_take num den mem1 zero1 xs1 hnum hden hstored hc h0' ys.length ys its hr
    (Nat.le_refl _)
  rw [hlen, List.take_length, hr] at ht
  simp only [Except.ok.injEq, Prod.mk.injEq, loopCoeffs, h0] at ht
  obtain ⟨_, hits⟩ := ht
  simp only [callTwice, objAfter, h0, hr]
  rw [hits]
  simp only
  have hc2 : ∀ kv ∈ advance 0 num ((dense num).map (fun c => c.items.drop xs1.length))
      ++ advance 1 den ((dense den).tail.map (fun c => c.items.drop xs1.length)), 0 ≤ kv.1 := by
    intro kv hkv
    rcases List.mem_append.1 hkv with h | h
    · obtain ⟨kv', hm, he⟩ := advance_keys _ _ _ kv h
      rw [← he]; exact hc kv' (by simp [hm])
    · obtain ⟨kv', hm, he⟩ := advance_keys _ _ _ kv h
      rw [← he]; exact hc kv' (by simp [hm])
  have h02 : coefAt (advance 1 den ((dense den).tail.map (fun c => c.items.drop xs1.length))) 0
      = Coef.const g := by
    rw [coefAt_advance, h0]
  have hdn := dense_advance_num num xs1.length
  have hdd := dense_advance_den den g h0 xs1.length
  have hnz2 : ¬ ((∀ c ∈ dense (advance 0 num ((dense num).map (fun c => c.items.drop xs1.length))),
        c = Coef.const 0)
      ∧ (∀ c ∈ (dense (advance 1 den ((dense den).tail.map (fun c => c.items.drop xs1.length)))).tail,
        c = Coef.const 0)) := by
    rw [hdn, hdd, ← List.map_tail, map_dropC_zero, map_dropC_zero]
    exact hnz
  rw [callTV_const_eq _ _ mem2 zero2 xs2 g hc2 h02 hg hnz2, hdn, hdd, ← List.map_tail, List.length_map]
  congr 1
  have := tvspec_dropC (dense num) (dense den).tail (Coef.const g) zero2 xs1.length xs2 0
    (memoryOf zero2 (dense den).tail.length mem2) []
  rw [Nat.zero_add] at this
  exact this

/-! ### Stream gain: the object is left untouched, its Streams `L` items further -/

theorem coefAt_map_dropC (t : Terms (Coef K)) (k : Nat) (j : Int) :
    coefAt (t.map fun kv => (kv.1, kv.2.dropC k)) j = (coefAt t j).dropC k := by
  have hp : ((fun kv : Int × Coef K => kv.1 == j) ∘ fun kv : Int × Coef K => (kv.1, kv.2.dropC k))
      = (fun kv => kv.1 == j) := by funext kv; rfl
  simp only [coefAt, List.find?_map, hp]
  cases h : t.find? (fun kv => kv.1 == j) with
  | none => rfl
  | some kv => rfl

theorem dense_map_dropC (t : Terms (Coef K)) (k : Nat) :
    dense (t.map fun kv => (kv.1, kv.2.dropC k)) = (dense t).map (Coef.dropC k) := by
  by_cases ht : t.isEmpty = true
  · have : t = [] := by simpa using ht
    subst this; rfl
  · have ht' : t.isEmpty = false := by simpa using ht
    have ht2 : (t.map fun kv : Int × Coef K => (kv.1, kv.2.dropC k)).isEmpty = false := by
      cases t with
      | nil => simp at ht'
      | cons a r => rfl
    simp only [dense, ht', ht2, Bool.false_eq_true, if_false, List.map_map,
      order_map_snd t (fun kv => kv.2.dropC k)]
    apply List.map_congr_left
    intro i _
    simp only [Function.comp]
    exact coefAt_map_dropC t k _

/-- **second call, Stream gain, on the filter object** (the code after the repair of D16): a
normalised causal filter object with a Stream gain, called, its output (ended by the input)
consumed, called again: the variable-gain rewriting is done again on the object's own polynomials,
whose Streams are `|xs1|` items further, and the second call computes the difference equation with
gain `a0[|xs1|+n]` and the coefficient index going on at `|xs1|`. -/
theorem callTwice_gain_continue (num rest : Terms (Coef K)) (gs : List K) (mem1 mem2 : Mem K)
    (zero1 zero2 : K) (xs1 xs2 : List K)
    (hnum : List.Pairwise (fun x y : Int × Coef K => x.1 < y.1) num)
    (hden : List.Pairwise (fun x y : Int × Coef K => x.1 < y.1) (((0 : Int), Coef.strm gs) :: rest))
    (hstored : ∀ kv ∈ num ++ rest, kv.2 ≠ Coef.const 0) (hcn : ∀ kv ∈ num, 0 ≤ kv.1)
    (hnz : ¬ ((∀ c ∈ dense num, c = Coef.const 0)
      ∧ (∀ c ∈ (dense (((0 : Int), Coef.strm gs) :: rest)).tail, c = Coef.const 0)))
    (hfull : ∃ ys its, callTV num (((0 : Int), Coef.strm gs) :: rest) mem1 zero1 xs1 = .ok (ys, its)
      ∧ ys.length = xs1.length) :
    (callTwice num (((0 : Int), Coef.strm gs) :: rest) mem1 zero1 xs1 mem2 zero2 xs2).2.map Prod.fst
      = .ok (tvspec (dense num) (dense (((0 : Int), Coef.strm gs) :: rest)).tail (Coef.strm gs) zero2
              xs1.length
              (memoryOf zero2 (dense (((0 : Int), Coef.strm gs) :: rest)).tail.length mem2) [] xs2) := by
  obtain ⟨ys, its, hr, hlen⟩ := hfull
  have hg0 : coefAt (((0 : Int), Coef.strm gs) :: rest) 0 = Coef.strm gs := by simp [coefAt]
  simp only [callTwice, objAfter, hr, hg0, hlen]
  have hmap : ((((0 : Int), Coef.strm gs) :: rest).map fun kv => (kv.1, kv.2.dropC xs1.length))
      = ((0 : Int), Coef.strm (gs.drop xs1.length))
          :: rest.map (fun kv => (kv.1, kv.2.dropC xs1.length)) := rfl
  have hdn := dense_map_dropC num xs1.length
  have hdd := dense_map_dropC (((0 : Int), Coef.strm gs) :: rest) xs1.length
  rw [hmap] at hdd ⊢
  have hnum' : List.Pairwise (fun x y : Int × Coef K => x.1 < y.1)
      (num.map fun kv => (kv.1, kv.2.dropC xs1.length)) := by
    rw [List.pairwise_map]; exact hnum
  have hden' : List.Pairwise (fun x y : Int × Coef K => x.1 < y.1)
      (((0 : Int), Coef.strm (gs.drop xs1.length))
        :: rest.map (fun kv => (kv.1, kv.2.dropC xs1.length))) := by
    rw [← hmap, List.pairwise_map]; exact hden
  have hstored' : ∀ kv ∈ (num.map fun kv => (kv.1, kv.2.dropC xs1.length))
      ++ rest.map (fun kv => (kv.1, kv.2.dropC xs1.length)), kv.2 ≠ Coef.const 0 := by
    intro kv hkv
    rw [← List.map_append] at hkv
    obtain ⟨kv', hm, rfl⟩ := List.mem_map.1 hkv
    intro h
    exact hstored kv' hm ((dropC_eq_zero _ _).1 h)
  have hcn' : ∀ kv ∈ (num.map fun kv => (kv.1, kv.2.dropC xs1.length)), 0 ≤ kv.1 := by
    intro kv hkv
    obtain ⟨kv', hm, rfl⟩ := List.mem_map.1 hkv
    exact hcn kv' hm
  have hnz' : ¬ ((∀ c ∈ dense (num.map fun kv => (kv.1, kv.2.dropC xs1.length)), c = Coef.const 0)
      ∧ (∀ c ∈ (dense (((0 : Int), Coef.strm (gs.drop xs1.length))
          :: rest.map (fun kv => (kv.1, kv.2.dropC xs1.length)))).tail, c = Coef.const 0)) := by
    rw [hdn, hdd, ← List.map_tail, map_dropC_zero, map_dropC_zero]
    exact hnz
  rw [callTV_gain_eq _ _ _ mem2 zero2 xs2 hnum' hden' hstored' hcn' hnz', hdn, hdd, ← List.map_tail,
    List.length_map]
  congr 1
  have := tvspec_dropC (dense num) (dense (((0 : Int), Coef.strm gs) :: rest)).tail (Coef.strm gs)
    zero2 xs1.length xs2 0
    (memoryOf zero2 (dense (((0 : Int), Coef.strm gs) :: rest)).tail.length mem2) []
  rw [Nat.zero_add] at this
  exact this

end ALV.C06
