/-
  C01 — helper lemmas for the broadcast decorator (`elementwise`).  Core Lean only.
-/
import ALV.Lemmas.C01
namespace ALV.C01

/-- mapping a generator expression over a source: `n` calls of `next` deliver the mapped items of the
    source's `n` calls of `next` and leave the source exactly where those `n` calls leave it -/
theorem Iter.runS_mapc (g : Bool) (f : Name) (pre post : List Term) : ∀ (n : Nat) (a : Iter),
    (Iter.mapc g f pre post a).runS n =
      ((a.runS n).1.map (fun x => Term.app f (pre ++ x :: post)), .mapc g f pre post (a.runS n).2) := by
  intro n
  induction n with
  | zero => intro a; rfl
  | succ n ih =>
    intro a
    cases hs : a.step with
    | mk o a' =>
      cases o with
      | none => simp [Iter.runS, Iter.step, hs]
      | some x => simp [Iter.runS, Iter.step, hs, ih]

theorem Iter.runS_list_drain (t : Nat) : ∀ (xs : List Term),
    (Iter.list t xs).runS (xs.length + 1) = (xs, .list t []) := by
  intro xs
  induction xs with
  | nil => rfl
  | cons x r ih => simp [Iter.runS, Iter.step, ih]

theorem Iter.runS_list_fst (t : Nat) : ∀ (n : Nat) (xs : List Term),
    ((Iter.list t xs).runS n) = (xs.take n, .list t (xs.drop n)) := by
  intro n
  induction n with
  | zero => intro xs; rfl
  | succ n ih =>
    intro xs
    cases xs with
    | nil => rfl
    | cons x r => simp [Iter.runS, Iter.step, ih]

theorem kwSplit_spec (name : Name) (x : Term) : ∀ (kw : List (Name × Term)),
    (kw.any fun kv => kv.1 == name) = true →
    (kwSplit name kw).1 ++ x :: (kwSplit name kw).2 = kwFlat (kwReplace name x kw) := by
  intro kw
  induction kw with
  | nil => intro h; simp at h
  | cons kv r ih =>
    intro h
    obtain ⟨k, v⟩ := kv
    by_cases hk : (k == name) = true
    · have : k = name := by simpa using hk
      subst this
      simp [kwSplit, kwReplace, kwFlat]
    · have hr : (r.any fun kv => kv.1 == name) = true := by
        simp only [List.any_cons] at h
        simp only [hk, Bool.false_or] at h
        exact h
      simp only [kwSplit, kwReplace, hk]
      simp only [Bool.false_eq_true, if_false, List.cons_append, ih hr]
      rfl

theorem positional_spec (args rest : List Term) (p : Nat) (x : Term) (h : p < args.length) :
    args.take p ++ x :: (args.drop (p + 1) ++ rest) = args.set p x ++ rest := by
  rw [List.set_eq_take_append_cons_drop, if_pos h]
  simp

theorem ECall.positional_eq (c : ECall) : c.isPositional = c.positional := rfl

/-- the generator expression of the wrapper applies the function with the item in the place of the
    broadcast argument -/
theorem ECall.data_spec (c : ECall) (hf : c.found = true) :
    ∃ pre post, c.data = .mapc true c.f pre post c.arg.iter ∧
      ∀ x, Term.app c.f (pre ++ x :: post) = c.callWith x := by
  unfold ECall.data ECall.callWith
  rw [← ECall.positional_eq]
  cases hp : c.isPositional with
  | true =>
    refine ⟨c.args.take (c.pos.getD 0), c.args.drop (c.pos.getD 0 + 1) ++ kwFlat c.kwargs, by simp, fun x => ?_⟩
    have hlt : c.pos.getD 0 < c.args.length := by
      unfold ECall.isPositional at hp
      cases h : c.pos with
      | none => simp [h] at hp
      | some p => simpa [h] using hp
    simp only [if_true]
    rw [positional_spec _ _ _ _ hlt]
    rfl
  | false =>
    have hany : (c.kwargs.any fun kv => kv.1 == c.dname) = true := by
      unfold ECall.found at hf
      rw [← ECall.positional_eq, hp] at hf
      simpa using hf
    refine ⟨c.args ++ (kwSplit c.dname c.kwargs).1, (kwSplit c.dname c.kwargs).2, by simp, fun x => ?_⟩
    simp only [Bool.false_eq_true, if_false, List.append_assoc]
    rw [kwSplit_spec _ _ _ hany]

theorem ECall.plainCall_spec (c : ECall) (hf : c.found = true) : c.plainCall = c.callWith c.arg.self := by
  obtain ⟨pre, post, hd, hx⟩ := ECall.data_spec c hf
  rw [← hx]
  unfold ECall.plainCall
  unfold ECall.data at hd
  cases hp : c.isPositional with
  | true =>
    simp only [hp, if_true] at hd ⊢
    injection hd with _ _ h1 h2 _
    rw [h1, h2]
  | false =>
    simp only [hp, Bool.false_eq_true, if_false] at hd ⊢
    injection hd with _ _ h1 h2 _
    rw [h1, h2]

end ALV.C01
