/-
  C17 — reachability, list helpers, the frame of `nextCmd`, and the two smallest invariants:
  the local delivery invariant of a player and the close/terminate invariant of the manager.
  Core Lean only.
-/
import ALV.Model.C17
import ALV.Spec.C17
namespace ALV.C17

/-- states reachable from the initial state of a script under ANY schedule -/
inductive Reach (cfg : Cfg) (script : List Cmd) : State → Prop
  | init : Reach cfg script (init script)
  | step {s s' : State} {t : Tid} : Reach cfg script s → step cfg s t = some s' → Reach cfg script s'

theorem forall_set {α} {P : Nat → α → Prop} {l : List α} {i : Nat} {a : α}
    (h : ∀ k q, l[k]? = some q → P k q) (ha : P i a) :
    ∀ k q, (l.set i a)[k]? = some q → P k q := by
  intro k q hk
  rw [List.getElem?_set] at hk
  split at hk
  · split at hk
    · cases hk; subst_vars; exact ha
    · cases hk
  · exact h k q hk

theorem forall_append {α} {P : Nat → α → Prop} {l : List α} {a : α}
    (h : ∀ k q, l[k]? = some q → P k q) (ha : P l.length a) :
    ∀ k q, (l ++ [a])[k]? = some q → P k q := by
  intro k q hk
  by_cases hlt : k < l.length
  · rw [List.getElem?_append_left hlt] at hk; exact h k q hk
  · by_cases heq : k = l.length
    · subst heq; simp at hk; subst hk; exact ha
    · rw [List.getElem?_eq_none (by simp; omega)] at hk; cases hk

theorem lt_of_getElem? {α} {l : List α} {i : Nat} {a : α} (h : l[i]? = some a) : i < l.length := by
  by_cases hlt : i < l.length
  · exact hlt
  · rw [List.getElem?_eq_none (by omega)] at h; cases h

/-! ### `nextCmd` -/

/-- frame of `nextCmd`: only `mpc`, `script`, `log` change -/
theorem nextCmd_frame (sc : List Cmd) : ∀ (s : State),
    (nextCmd s sc).players = s.players ∧ (nextCmd s sc).threads = s.threads ∧
    (nextCmd s sc).mlock = s.mlock ∧ (nextCmd s sc).hlock = s.hlock ∧
    (nextCmd s sc).finished = s.finished ∧ (nextCmd s sc).terminated = s.terminated ∧
    (nextCmd s sc).perr = s.perr := by
  induction sc with
  | nil => intro s; simp [nextCmd]
  | cons c rest ih =>
    intro s
    cases c with
    | play a c => simp [nextCmd]
    | close => simp [nextCmd]
    | ctl k i =>
      simp only [nextCmd]
      split
      · simp
      · exact ih _
    | join i =>
      simp only [nextCmd]
      split
      · simp
      · exact ih _

/-- the program counters at which a call of the control script starts -/
theorem nextCmd_cases (P : MPc → Prop) (sc : List Cmd) : ∀ (s : State),
    P .done → P .kHAcq → (∀ a c, P (.pAcq a c)) →
    (∀ k i, i < s.players.length → P (.cAcq k i)) →
    (∀ i, i < s.players.length → P (.jJoin i)) → P (nextCmd s sc).mpc := by
  induction sc with
  | nil => intro s h1 _ _ _ _; simpa [nextCmd] using h1
  | cons c rest ih =>
    intro s h1 h2 h3 h4 h5
    cases c with
    | play a c => simpa [nextCmd] using h3 a c
    | close => simpa [nextCmd] using h2
    | ctl k i =>
      simp only [nextCmd]
      split
      · rename_i hlt; simpa using h4 k i hlt
      · exact ih _ h1 h2 h3 h4 h5
    | join i =>
      simp only [nextCmd]
      split
      · rename_i hlt; simpa using h5 i hlt
      · exact ih _ h1 h2 h3 h4 h5

theorem mem_nextCmd_log (e : Ev) (sc : List Cmd) : ∀ (s : State),
    e ∈ (nextCmd s sc).log → e ∈ s.log ∨ e = .skipped := by
  induction sc with
  | nil => intro s h; simpa [nextCmd] using Or.inl h
  | cons c rest ih =>
    intro s h
    cases c with
    | play a c => exact Or.inl (by simpa [nextCmd] using h)
    | close => exact Or.inl (by simpa [nextCmd] using h)
    | ctl k i =>
      simp only [nextCmd] at h
      split at h
      · exact Or.inl (by simpa using h)
      · rcases ih _ h with h' | h'
        · simp at h'; rcases h' with h' | h'
          · exact Or.inl h'
          · exact Or.inr h'
        · exact Or.inr h'
    | join i =>
      simp only [nextCmd] at h
      split at h
      · exact Or.inl (by simpa using h)
      · rcases ih _ h with h' | h'
        · simp at h'; rcases h' with h' | h'
          · exact Or.inl h'
          · exact Or.inr h'
        · exact Or.inr h'

@[simp] theorem next_players (s : State) (e : Ev) : (s.next e).players = s.players :=
  (nextCmd_frame _ _).1
@[simp] theorem next_threads (s : State) (e : Ev) : (s.next e).threads = s.threads :=
  (nextCmd_frame _ _).2.1
@[simp] theorem next_mlock (s : State) (e : Ev) : (s.next e).mlock = s.mlock :=
  (nextCmd_frame _ _).2.2.1
@[simp] theorem next_hlock (s : State) (e : Ev) : (s.next e).hlock = s.hlock :=
  (nextCmd_frame _ _).2.2.2.1
@[simp] theorem next_finished (s : State) (e : Ev) : (s.next e).finished = s.finished :=
  (nextCmd_frame _ _).2.2.2.2.1
@[simp] theorem next_terminated (s : State) (e : Ev) : (s.next e).terminated = s.terminated :=
  (nextCmd_frame _ _).2.2.2.2.2.1
@[simp] theorem next_perr (s : State) (e : Ev) : (s.next e).perr = s.perr :=
  (nextCmd_frame _ _).2.2.2.2.2.2

@[simp] theorem nextCmd_players (s : State) (sc) : (nextCmd s sc).players = s.players :=
  (nextCmd_frame _ _).1
@[simp] theorem nextCmd_threads (s : State) (sc) : (nextCmd s sc).threads = s.threads :=
  (nextCmd_frame _ _).2.1
@[simp] theorem nextCmd_mlock (s : State) (sc) : (nextCmd s sc).mlock = s.mlock :=
  (nextCmd_frame _ _).2.2.1
@[simp] theorem nextCmd_hlock (s : State) (sc) : (nextCmd s sc).hlock = s.hlock :=
  (nextCmd_frame _ _).2.2.2.1
@[simp] theorem nextCmd_finished (s : State) (sc) : (nextCmd s sc).finished = s.finished :=
  (nextCmd_frame _ _).2.2.2.2.1
@[simp] theorem nextCmd_terminated (s : State) (sc) : (nextCmd s sc).terminated = s.terminated :=
  (nextCmd_frame _ _).2.2.2.2.2.1
@[simp] theorem nextCmd_perr (s : State) (sc) : (nextCmd s sc).perr = s.perr :=
  (nextCmd_frame _ _).2.2.2.2.2.2

theorem next_cases (P : MPc → Prop) (s : State) (e : Ev)
    (h1 : P .done) (h2 : P .kHAcq) (h3 : ∀ a c, P (.pAcq a c))
    (h4 : ∀ k i, i < s.players.length → P (.cAcq k i))
    (h5 : ∀ i, i < s.players.length → P (.jJoin i)) : P (s.next e).mpc :=
  nextCmd_cases P _ _ h1 h2 h3 h4 h5

theorem mem_next_log (e e' : Ev) (s : State) (h : e ∈ (s.next e').log) :
    e ∈ s.log ∨ e = e' ∨ e = .skipped := by
  rcases mem_nextCmd_log e _ _ h with h | h
  · simp at h; rcases h with h | h
    · exact Or.inl h
    · exact Or.inr (Or.inl h)
  · exact Or.inr (Or.inr h)

/-! ### Layer 1: what a device stream received (local to one player) -/

def afterLoop (pc : PPc) : Bool :=
  match pc with
  | .finAcq | .closeStream | .tfAcq | .tfRel | .finRel | .done => true
  | _ => false

/-- `written ++ todo` is the chunk sequence; a pending write has a chunk; the loop is left
    only at the end of the chunks or on `halting` -/
structure PLoc (cfg : Cfg) (p : Player) : Prop where
  chunked : p.all = playChunks p.cs p.audio p.fail
  pre : p.written ++ p.todo = p.all
  wr : p.pc = .write → p.todo ≠ [] ∨ p.fail = true
  fin : afterLoop p.pc = true → p.todo = [] ∨ p.halting = true

def AllP (s : State) (P : Player → Prop) : Prop :=
  ∀ (k : Nat) (q : Player), s.players[k]? = some q → P q

theorem loopHead_cases (p : Player) :
    (p.todo = [] ∧ p.fail = false ∧ loopHead p = .finAcq) ∨
    ((p.todo ≠ [] ∨ p.fail = true) ∧ loopHead p = .write) := by
  unfold loopHead
  cases h : p.todo <;> cases hf : p.fail <;> simp

theorem ploc_stepPlayer (cfg : Cfg) (s s' : State) (i : Nat) (h : stepPlayer cfg s i = some s')
    (inv : AllP s (PLoc cfg)) : AllP s' (PLoc cfg) := by
  unfold stepPlayer at h
  split at h
  · cases h
  · rename_i p hp
    have hpi := inv i p hp
    obtain ⟨h0, h1, h2, h3⟩ := hpi
    simp only at h
    split at h <;> (try split at h) <;> (try split at h) <;> (try cases h) <;> (apply forall_set inv) <;>
      (rcases loopHead_cases p with ⟨ht, hf, hl⟩ | ⟨ht, hl⟩) <;>
      (constructor <;> (try split) <;> simp_all [afterLoop])

theorem AllP_of_players_eq {s s' : State} {P : Player → Prop} (h : s'.players = s.players)
    (inv : AllP s P) : AllP s' P := by
  intro k q hk; rw [h] at hk; exact inv k q hk

theorem AllP_set {s s' : State} {P : Player → Prop} {i : Nat} {p p' : Player}
    (hp : s.players[i]? = some p) (hs' : s'.players = s.players.set i p')
    (inv : AllP s P) (hstep : P p → P p') : AllP s' P := by
  intro k q hk; rw [hs'] at hk
  exact forall_set (P := fun _ q => P q) inv (hstep (inv i p hp)) k q hk

theorem AllP_append {s s' : State} {P : Player → Prop} {p' : Player}
    (hs' : s'.players = s.players ++ [p']) (inv : AllP s P) (hnew : P p') : AllP s' P := by
  intro k q hk; rw [hs'] at hk
  exact forall_append (P := fun _ q => P q) inv hnew k q hk

theorem ploc_stepMain (cfg : Cfg) (s s' : State) (h : stepMain cfg s = some s')
    (inv : AllP s (PLoc cfg)) : AllP s' (PLoc cfg) := by
  unfold stepMain at h
  split at h <;> (try split at h) <;> (try split at h) <;> (try split at h) <;> (try cases h) <;>
    (first
      | (refine AllP_of_players_eq ?_ inv; simp [setP]; done)
      | (refine AllP_append (hs' := rfl) inv ?_
         · constructor <;> simp [afterLoop])
      | ((first
          | refine AllP_set (hp := by assumption) (hs' := rfl) inv ?_
          | refine AllP_set (hp := by assumption) (hs' := (next_players _ _).trans rfl) inv ?_)
         intro ⟨h0, h1, h2, h3⟩
         refine ⟨by simp_all, by simp_all, by simp_all, ?_⟩
         first
           | (simp [afterLoop]; done)
           | (intro h; rcases h3 h with h' | h' <;> simp [h']; done)
           | (simp_all [afterLoop]; done)))

theorem ploc_reach {cfg : Cfg} {script : List Cmd} {s : State} (h : Reach cfg script s) :
    AllP s (PLoc cfg) := by
  induction h with
  | init => intro k q hk; simp [init] at hk
  | step _ hs ih =>
    rename_i s s' t _
    cases t with
    | main => exact ploc_stepMain cfg s s' hs ih
    | player i => exact ploc_stepPlayer cfg s s' i hs ih

end ALV.C17
