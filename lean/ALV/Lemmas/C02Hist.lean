/-
  C02 — histories with sources handed over during consumption: invariants of the machines of
  `ALV.Model.C02Hist` and their closed forms (`ALV.Spec.C02Hist`).
-/
import ALV.Spec.C02Hist
import ALV.Lemmas.C02Rat
namespace ALV.C02

/-! ### mixer -/

/-- invariant of the mixer: counters are the closed form; an event is out of `_playing` exactly when
    the request after its last item has been made -/
def MixInv (s : Mix) : Prop :=
  ∀ e ∈ s.evs, e.rd = min e.len (s.now - e.start) ∧
    (s.ended = false → (e.gone = true ↔ e.start + e.len < s.now))

theorem MEv.step_spec (now : Nat) (e : MEv) (h1 : e.rd = min e.len (now - e.start))
    (h2 : e.gone = true ↔ e.start + e.len < now) :
    (e.step now).start = e.start ∧ (e.step now).len = e.len ∧
    (e.step now).rd = min e.len (now + 1 - e.start) ∧
    ((e.step now).gone = true ↔ e.start + e.len < now + 1) ∧
    ((e.step now).gone = true → (e.step now).rd = e.rd) := by
  obtain ⟨st, len, rd, gone⟩ := e
  simp only at h1 h2
  unfold MEv.step
  cases gone with
  | true =>
    have := h2.1 rfl
    simp
    omega
  | false =>
    have : ¬ st + len < now := fun h => by simpa using h2.2 h
    by_cases hs : st ≤ now
    · by_cases hr : rd < len
      · simp [hs, hr]; omega
      · simp [hs, hr]; omega
    · simp [hs]; omega

theorem mixInv_init (keep : Bool) : MixInv (Mix.init keep) := by
  intro e he; simp [Mix.init] at he

theorem mixInv_attach (s : Mix) (T : Rat) (len : Nat) (h : MixInv s) : MixInv (s.attach T len) := by
  intro e he
  simp only [Mix.attach, List.mem_append, List.mem_singleton] at he
  rcases he with he | rfl
  · exact h e he
  · simp only [Mix.attach]
    refine ⟨by omega, fun _ => ?_⟩
    constructor
    · intro h; cases h
    · intro h; omega

theorem mixInv_ask (s : Mix) (h : MixInv s) : MixInv s.ask.2 := by
  unfold Mix.ask
  by_cases hend : s.ended = true
  · simpa [hend] using h
  · have hend' : s.ended = false := by simpa using hend
    simp only [hend', Bool.false_eq_true, if_false]
    split
    · rename_i hall
      intro e' he'
      simp only [List.mem_map] at he'
      obtain ⟨e, he, rfl⟩ := he'
      have hs := MEv.step_spec s.now e (h e he).1 ((h e he).2 hend')
      have hg : (e.step s.now).gone = true := by
        have := List.all_eq_true.1 hall.2 (e.step s.now) (List.mem_map.2 ⟨e, he, rfl⟩)
        simpa using this
      refine ⟨?_, fun hc => by simp at hc⟩
      rw [hs.2.2.2.2 hg, hs.1, hs.2.1]; exact (h e he).1
    · intro e' he'
      simp only [List.mem_map] at he'
      obtain ⟨e, he, rfl⟩ := he'
      have hs := MEv.step_spec s.now e (h e he).1 ((h e he).2 hend')
      refine ⟨?_, fun _ => ?_⟩
      · show (e.step s.now).rd = min (e.step s.now).len (s.now + 1 - (e.step s.now).start)
        rw [hs.1, hs.2.1]; exact hs.2.2.1
      · show (e.step s.now).gone = true ↔ (e.step s.now).start + (e.step s.now).len < s.now + 1
        rw [hs.1, hs.2.1]; exact hs.2.2.2.1

theorem mixInv_step (s : Mix) (ev : HEv) (h : MixInv s) : MixInv (mixStep s ev).1 := by
  cases ev with
  | attach t len => exact mixInv_attach s t len h
  | fork p => exact h
  | ask c => exact mixInv_ask s h

theorem mixInv_final (s : Mix) (es : List HEv) (h : MixInv s) : MixInv (hfinal mixStep s es) := by
  induction es generalizing s with
  | nil => exact h
  | cons e es ih => exact ih _ (mixInv_step s e h)

theorem mix_reads_eq_spec (s : Mix) (h : MixInv s) : s.reads = s.specReads := by
  unfold Mix.reads Mix.specReads
  apply List.map_congr_left
  intro e he; exact (h e he).1

/-- whether a request delivers, in closed form -/
theorem mix_ask_ok (s : Mix) (h : MixInv s) : s.ask.1 = s.specOk := by
  unfold Mix.ask Mix.specOk
  by_cases hend : s.ended = true
  · simp [hend]
  · have hend' : s.ended = false := by simpa using hend
    have key : (s.evs.map (MEv.step s.now)).all (·.gone) = true ↔
        ¬ (s.evs.any fun e => decide (s.now < e.start + e.len)) = true := by
      rw [List.all_eq_true, List.any_eq_true]
      constructor
      · rintro hall ⟨e, he, hlt⟩
        have hs := MEv.step_spec s.now e (h e he).1 ((h e he).2 hend')
        have := hall (e.step s.now) (List.mem_map.2 ⟨e, he, rfl⟩)
        have := hs.2.2.2.1.1 this
        have : s.now < e.start + e.len := by simpa using hlt
        omega
      · intro hno e' he'
        obtain ⟨e, he, rfl⟩ := List.mem_map.1 he'
        have hs := MEv.step_spec s.now e (h e he).1 ((h e he).2 hend')
        apply hs.2.2.2.1.2
        have : ¬ s.now < e.start + e.len := fun hlt => hno ⟨e, he, by simpa using hlt⟩
        omega
    simp only [hend', Bool.false_eq_true, if_false, Bool.not_false, Bool.true_and]
    cases hk : s.keep with
    | true => simp
    | false =>
      by_cases hall : (s.evs.map (MEv.step s.now)).all (·.gone) = true
      · have := key.1 hall
        simp only [hall, and_self, if_true, Bool.false_or]
        simpa using this
      · have hne : ¬ ¬ (s.evs.any fun e => decide (s.now < e.start + e.len)) = true := fun hc => hall (key.2 hc)
        simp only [hall, Bool.false_or]
        simpa using hne

/-! ### seq -/

theorem seqSpec_zero (ns : List Nat) : seqSpec 0 ns = ns.map fun _ => 0 := by
  induction ns with
  | nil => rfl
  | cons n ns ih => simp [seqSpec, ih]

theorem seqSpec_append (d n : Nat) (ns : List Nat) :
    seqSpec d (ns ++ [n]) = seqSpec d ns ++ [min n (d - seqSum ns)] := by
  induction ns generalizing d with
  | nil => simp [seqSpec, seqSum]
  | cons m ns ih =>
    simp only [List.cons_append, seqSpec, seqSum, ih]
    congr 3; omega

theorem seqSum_append (n : Nat) (ns : List Nat) : seqSum (ns ++ [n]) = seqSum ns + n := by
  induction ns with
  | nil => simp [seqSum]
  | cons m ns ih => simp only [List.cons_append, seqSum, ih]; omega

theorem seqAsk_spec : ∀ (l : List SSrc) (d : Nat), l.map (·.rd) = seqSpec d (l.map (·.len)) →
    (seqAsk l).2.map (·.len) = l.map (·.len) ∧
    (d < seqSum (l.map (·.len)) → (seqAsk l).1 = true ∧ (seqAsk l).2.map (·.rd) = seqSpec (d + 1) (l.map (·.len))) ∧
    (seqSum (l.map (·.len)) ≤ d → (seqAsk l).1 = false ∧ (seqAsk l).2.map (·.rd) = l.map (·.rd)) := by
  intro l
  induction l with
  | nil => intro d _; simp [seqAsk, seqSum, seqSpec]
  | cons e l ih =>
    intro d h
    simp only [List.map_cons, seqSpec, List.cons.injEq] at h
    obtain ⟨h1, h2⟩ := h
    rw [seqAsk]
    by_cases hr : e.rd < e.len
    · have hd : d < e.len := by omega
      simp only [hr, if_true, List.map_cons, seqSum, seqSpec, true_and]
      refine ⟨fun _ => ?_, fun _ => by omega⟩
      rw [show d + 1 - e.len = 0 by omega, ← show d - e.len = 0 by omega, ← h2]
      simp; omega
    · have hd : e.len ≤ d := by omega
      have := ih (d - e.len) h2
      simp only [hr, if_false, List.map_cons, seqSum, seqSpec, this.1, true_and]
      refine ⟨fun hlt => ?_, fun hge => ?_⟩
      · have := this.2.1 (by omega)
        rw [this.1, this.2, show d + 1 - e.len = d - e.len + 1 by omega]
        simp; omega
      · have := this.2.2 (by omega)
        rw [this.1, this.2]; simp

def SeqInv (s : SeqSt) : Prop := s.reads = s.specReads ∧ s.outs ≤ seqSum (s.srcs.map (·.len))

theorem seqInv_step (s : SeqSt) (ev : HEv) (h : SeqInv s) : SeqInv (seqStep s ev).1 := by
  obtain ⟨h1, h2⟩ := h
  unfold SeqSt.reads SeqSt.specReads at h1
  cases ev with
  | fork p => exact ⟨h1, h2⟩
  | attach t len =>
    refine ⟨?_, ?_⟩
    · show (s.srcs ++ [(⟨len, 0⟩ : SSrc)]).map (·.rd) = seqSpec s.outs ((s.srcs ++ [(⟨len, 0⟩ : SSrc)]).map (·.len))
      rw [List.map_append, List.map_append, h1]
      simp only [List.map_cons, List.map_nil, seqSpec_append]
      congr 2; omega
    · show s.outs ≤ seqSum ((s.srcs ++ [(⟨len, 0⟩ : SSrc)]).map (·.len))
      rw [List.map_append]; simp only [List.map_cons, List.map_nil, seqSum_append]; omega
  | ask c =>
    have := seqAsk_spec s.srcs s.outs h1
    by_cases hlt : s.outs < seqSum (s.srcs.map (·.len))
    · have h3 := this.2.1 hlt
      refine ⟨?_, ?_⟩
      · show (seqAsk s.srcs).2.map (·.rd) = seqSpec (if (seqAsk s.srcs).1 then s.outs + 1 else s.outs) ((seqAsk s.srcs).2.map (·.len))
        rw [h3.1, h3.2, this.1]; rfl
      · show (if (seqAsk s.srcs).1 then s.outs + 1 else s.outs) ≤ seqSum ((seqAsk s.srcs).2.map (·.len))
        rw [h3.1, this.1]; simp; omega
    · have h3 := this.2.2 (by omega)
      refine ⟨?_, ?_⟩
      · show (seqAsk s.srcs).2.map (·.rd) = seqSpec (if (seqAsk s.srcs).1 then s.outs + 1 else s.outs) ((seqAsk s.srcs).2.map (·.len))
        rw [h3.1, h3.2, this.1]; simpa using h1
      · show (if (seqAsk s.srcs).1 then s.outs + 1 else s.outs) ≤ seqSum ((seqAsk s.srcs).2.map (·.len))
        rw [h3.1, this.1]; simpa using h2

theorem seqInv_final (s : SeqSt) (es : List HEv) (h : SeqInv s) : SeqInv (hfinal seqStep s es) := by
  induction es generalizing s with
  | nil => exact h
  | cons e es ih => exact ih _ (seqInv_step s e h)

/-! ### fan -/

def FanInv (s : List FSrc) : Prop := ∀ e ∈ s, e.rd = min e.len e.asks

theorem fanAsk_inv : ∀ (c : Nat) (s : List FSrc), FanInv s → FanInv (fanAsk c s).2 := by
  intro c s
  induction s generalizing c with
  | nil => intro _; simp [fanAsk, FanInv]
  | cons e l ih =>
    intro h
    have he := h e (List.mem_cons_self)
    have hl : FanInv l := fun x hx => h x (List.mem_cons_of_mem _ hx)
    cases c with
    | zero =>
      rw [fanAsk]
      split
      · intro x hx
        simp only [List.mem_cons] at hx
        rcases hx with rfl | hx
        · simp only; omega
        · exact hl x hx
      · intro x hx
        simp only [List.mem_cons] at hx
        rcases hx with rfl | hx
        · simp only; omega
        · exact hl x hx
    | succ c =>
      rw [fanAsk]
      intro x hx
      simp only [List.mem_cons] at hx
      rcases hx with rfl | hx
      · exact he
      · exact ih c hl x hx

theorem fanInv_step (s : List FSrc) (ev : HEv) (h : FanInv s) : FanInv (fanStep s ev).1 := by
  cases ev with
  | fork p => exact h
  | ask c => exact fanAsk_inv c s h
  | attach t len =>
    intro e he
    simp only [fanStep, List.mem_append, List.mem_singleton] at he
    rcases he with he | rfl
    · exact h e he
    · simp

theorem fanInv_final (s : List FSrc) (es : List HEv) (h : FanInv s) : FanInv (hfinal fanStep s es) := by
  induction es generalizing s with
  | nil => exact h
  | cons e es ih => exact ih _ (fanInv_step s e h)

/-! ### hub -/

def HubInv (s : Hub) : Prop := (∀ p ∈ s.pos, p ≤ s.rd) ∧ s.rd ∈ s.pos ∧ s.rd ≤ s.len

theorem hubAsk_inv (len rd : Nat) (hle : rd ≤ len) : ∀ (pos : List Nat) (c : Nat), (∀ p ∈ pos, p ≤ rd) →
    (∀ p ∈ (hubAsk len rd c pos).2.2, p ≤ (hubAsk len rd c pos).2.1) ∧
    (hubAsk len rd c pos).2.1 ≤ len ∧ rd ≤ (hubAsk len rd c pos).2.1 ∧
    (rd < (hubAsk len rd c pos).2.1 → (hubAsk len rd c pos).2.1 ∈ (hubAsk len rd c pos).2.2) ∧
    ((hubAsk len rd c pos).2.1 = rd → rd ∈ pos → rd ∈ (hubAsk len rd c pos).2.2) := by
  intro pos
  induction pos with
  | nil => intro c _; simp [hubAsk, hle]
  | cons p ps ih =>
    intro c h
    have hp := h p List.mem_cons_self
    have hps : ∀ q ∈ ps, q ≤ rd := fun q hq => h q (List.mem_cons_of_mem _ hq)
    cases c with
    | zero =>
      rw [hubAsk]
      by_cases h1 : p < rd
      · simp only [h1, if_true]
        refine ⟨?_, hle, Nat.le_refl _, fun hc => absurd hc (Nat.lt_irrefl _), fun _ hm => ?_⟩
        · intro q hq
          simp only [List.mem_cons] at hq
          rcases hq with rfl | hq
          · omega
          · exact hps q hq
        · simp only [List.mem_cons] at hm ⊢
          rcases hm with rfl | hm
          · omega
          · exact Or.inr hm
      · by_cases h2 : rd < len
        · simp only [h1, h2, if_true, if_false]
          refine ⟨?_, by omega, by omega, fun _ => ?_, fun hc => by omega⟩
          · intro q hq
            simp only [List.mem_cons] at hq
            rcases hq with rfl | hq
            · omega
            · have := hps q hq; omega
          · have : p = rd := by omega
            simp [this]
        · simp only [h1, h2, if_false]
          exact ⟨h, hle, Nat.le_refl _, fun hc => absurd hc (Nat.lt_irrefl _), fun _ hm => hm⟩
    | succ c =>
      rw [hubAsk]
      have := ih c hps
      refine ⟨?_, this.2.1, this.2.2.1, fun hlt => List.mem_cons_of_mem _ (this.2.2.2.1 hlt), fun he hm => ?_⟩
      · intro q hq
        simp only [List.mem_cons] at hq
        rcases hq with rfl | hq
        · have := this.2.2.1
          show q ≤ (hubAsk len rd c ps).2.1
          omega
        · exact this.1 q hq
      · simp only [List.mem_cons] at hm ⊢
        rcases hm with rfl | hm
        · exact Or.inl rfl
        · exact Or.inr (this.2.2.2.2 he hm)

theorem hubInv_step (s : Hub) (ev : HEv) (h : HubInv s) : HubInv (hubStep s ev).1 := by
  obtain ⟨h1, h2, h3⟩ := h
  cases ev with
  | attach t len => exact ⟨h1, h2, h3⟩
  | fork p =>
    refine ⟨?_, ?_, h3⟩
    · intro q hq
      simp only [hubStep, List.mem_append, List.mem_singleton] at hq
      rcases hq with hq | rfl
      · exact h1 q hq
      · cases hp : s.pos[p]? with
        | none => show (none : Option Nat).getD 0 ≤ s.rd; simp
        | some v => show (some v).getD 0 ≤ s.rd; simpa using h1 v (List.mem_of_getElem? hp)
    · simp only [hubStep, List.mem_append]; exact Or.inl h2
  | ask c =>
    have := hubAsk_inv s.len s.rd h3 s.pos c h1
    refine ⟨this.1, ?_, this.2.1⟩
    show (hubAsk s.len s.rd c s.pos).2.1 ∈ (hubAsk s.len s.rd c s.pos).2.2
    by_cases hlt : s.rd < (hubAsk s.len s.rd c s.pos).2.1
    · exact this.2.2.2.1 hlt
    · have he : (hubAsk s.len s.rd c s.pos).2.1 = s.rd := by have := this.2.2.1; omega
      rw [he]; exact this.2.2.2.2 he h2

theorem hubInv_final (s : Hub) (es : List HEv) (h : HubInv s) : HubInv (hfinal hubStep s es) := by
  induction es generalizing s with
  | nil => exact h
  | cons e es ih => exact ih _ (hubInv_step s e h)

theorem foldl_max_le (l : List Nat) (a b : Nat) (ha : a ≤ b) (h : ∀ p ∈ l, p ≤ b) : l.foldl max a ≤ b := by
  induction l generalizing a with
  | nil => exact ha
  | cons p ps ih =>
    exact ih (max a p) (by have := h p List.mem_cons_self; omega) (fun q hq => h q (List.mem_cons_of_mem _ hq))

theorem le_foldl_max (l : List Nat) (a : Nat) : a ≤ l.foldl max a ∧ ∀ p ∈ l, p ≤ l.foldl max a := by
  induction l generalizing a with
  | nil => simp
  | cons p ps ih =>
    have := ih (max a p)
    refine ⟨by have := this.1; simp only [List.foldl]; omega, fun q hq => ?_⟩
    simp only [List.mem_cons] at hq
    rcases hq with rfl | hq
    · have := this.1; simp only [List.foldl]; omega
    · exact this.2 q hq

theorem hub_reads_eq_spec (s : Hub) (h : HubInv s) : s.rd = s.specReads := by
  unfold Hub.specReads
  have h1 := foldl_max_le s.pos 0 s.rd (Nat.zero_le _) h.1
  have h2 := (le_foldl_max s.pos 0).2 s.rd h.2.1
  omega

/-! ### the observation of a step is the counters of the state it leads to -/

theorem hrun_append {σ : Type} (step : σ → HEv → σ × HObs) (s : σ) (es fs : List HEv) :
    hrun step s (es ++ fs) = hrun step s es ++ hrun step (hfinal step s es) fs := by
  induction es generalizing s with
  | nil => rfl
  | cons e es ih => simp [hrun, hfinal, ih]

theorem hfinal_append {σ : Type} (step : σ → HEv → σ × HObs) (s : σ) (es fs : List HEv) :
    hfinal step s (es ++ fs) = hfinal step (hfinal step s es) fs := by
  induction es generalizing s with
  | nil => rfl
  | cons e es ih => simp [hfinal, ih]

theorem hrun_eq_spec {σ : Type} (step : σ → HEv → σ × HObs) (sp : σ → HEv → HObs) (Inv : σ → Prop)
    (hstep : ∀ s e, Inv s → Inv (step s e).1) (hobs : ∀ s e, Inv s → (step s e).2 = sp s e) :
    ∀ (es : List HEv) (s : σ), Inv s → hrun step s es = hspecRun step sp s es := by
  intro es
  induction es with
  | nil => intro s _; rfl
  | cons e es ih =>
    intro s h
    simp only [hrun, hspecRun, hobs s e h, ih _ (hstep s e h)]

theorem MEv.step_static (now : Nat) (e : MEv) : (e.step now).start = e.start ∧ (e.step now).len = e.len := by
  unfold MEv.step; split
  · split <;> exact ⟨rfl, rfl⟩
  · exact ⟨rfl, rfl⟩

theorem mix_static (es : List HEv) : ∀ (s : Mix) (i : Nat) (e : MEv), s.evs[i]? = some e →
    ∃ e', (hfinal mixStep s es).evs[i]? = some e' ∧ e'.start = e.start ∧ e'.len = e.len := by
  induction es with
  | nil => intro s i e h; exact ⟨e, h, rfl, rfl⟩
  | cons ev es ih =>
    intro s i e h
    have : ∃ e1, (mixStep s ev).1.evs[i]? = some e1 ∧ e1.start = e.start ∧ e1.len = e.len := by
      cases ev with
      | fork p => exact ⟨e, h, rfl, rfl⟩
      | attach t len =>
        refine ⟨e, ?_, rfl, rfl⟩
        show (s.evs ++ _)[i]? = some e
        have hi : i < s.evs.length := by
          rcases Nat.lt_or_ge i s.evs.length with hi | hi
          · exact hi
          · rw [List.getElem?_eq_none hi] at h; cases h
        rw [List.getElem?_append_left hi]; exact h
      | ask c =>
        show ∃ e1, s.ask.2.evs[i]? = some e1 ∧ _
        unfold Mix.ask
        split
        · exact ⟨e, h, rfl, rfl⟩
        · dsimp only
          split
          · exact ⟨e.step s.now, by simp [List.getElem?_map, h], MEv.step_static _ _⟩
          · exact ⟨e.step s.now, by simp [List.getElem?_map, h], MEv.step_static _ _⟩
    obtain ⟨e1, h1, h2, h3⟩ := this
    obtain ⟨e', h4, h5, h6⟩ := ih _ i e1 h1
    exact ⟨e', h4, by rw [h5, h2], by rw [h6, h3]⟩

end ALV.C02
