/-
  C10 — the definitions REGENERATED from the source text (`ALV/Gen/C10Src.lean`, written by
  `harness/props/c10_tr.py` on every check) are the hand-written model functions of `Model/C10.lean`.
  Ints of the source are `Int`s in the generated text; the model counts in `Nat`: each lemma shows that the
  index arithmetic of the source never leaves the naturals on the ranges it runs over.
-/
import ALV.Gen.C10Src
import ALV.Model.C10Call
namespace ALV.C10.Src
open ALV.C10 ALV.C10.Py
set_option linter.unusedSectionVars false
variable {α : Type} [Add α] [Mul α] [Sub α] [Neg α] [Div α] [OfNat α 0] [OfNat α 1]

theorem map_xrange {β} (f : Int → β) (n : Int) :
    (xrange n).map f = (List.range n.toNat).map fun (k : Nat) => f (k : Int) := by
  simp [xrange, List.map_map, Function.comp_def]

theorem map_xrange2 {β} (f : Int → β) (a b : Int) :
    (xrange2 a b).map f = (List.range (b - a).toNat).map fun (k : Nat) => f (a + (k : Int)) := by
  simp [xrange2, List.map_map, Function.comp_def]

omit [Add α] [Mul α] [Sub α] [Neg α] [Div α] [OfNat α 1] in
theorem idx_of_eq (l : List α) (i : Int) (n : Nat) (h : i = n) : idx l i = coef l n := by
  subst h; rfl

theorem pyabs_sub (i j : Nat) : pyabs ((i : Int) - (j : Int)) = (adiff i j : Nat) := by
  simp only [pyabs, adiff, Int.ofNat_eq_natCast]; split <;> omega

theorem src_acorr_is_model (blk : List α) (lag : Option Nat) :
    ALV.Gen.C10.acorr blk (lag.map Int.ofNat) = acorr blk lag := by
  cases lag with
  | none =>
    simp only [ALV.Gen.C10.acorr, acorr, Option.map, map_xrange, len, pysum, Int.ofNat_eq_natCast]
    have h : ((blk.length : Int) - 1 + 1).toNat = blk.length := by omega
    rw [h]
    apply List.map_congr_left; intro tau _
    have h2 : ((blk.length : Int) - (tau : Int)).toNat = blk.length - tau := by omega
    rw [h2]; congr 1
  | some L =>
    simp only [ALV.Gen.C10.acorr, acorr, Option.map, map_xrange, len, pysum, Int.ofNat_eq_natCast]
    have h : ((L : Int) + 1).toNat = L + 1 := by omega
    rw [h]
    apply List.map_congr_left; intro tau _
    have h2 : ((blk.length : Int) - (tau : Int)).toNat = blk.length - tau := by omega
    rw [h2]; congr 1

theorem lag_table_src (blk : List α) (L : Nat) :
    ((xrange ((L : Int) + 1)).map fun j => (xrange ((L : Int) + 1)).map fun i =>
      pysum ((xrange2 (L : Int) (len blk)).map fun n => (idx blk (n - i)) * (idx blk (n - j))))
    = lagTable blk L := by
  simp only [map_xrange, map_xrange2, lagTable, len, pysum, Int.ofNat_eq_natCast]
  have h : ((L : Int) + 1).toNat = L + 1 := by omega
  have h2 : ((blk.length : Int) - (L : Int)).toNat = blk.length - L := by omega
  rw [h, h2]
  apply List.map_congr_left; intro j hj
  apply List.map_congr_left; intro i hi
  congr 1
  apply List.map_congr_left; intro k _
  rw [List.mem_range] at hi hj
  rw [idx_of_eq blk ((L : Int) + (k : Int) - (i : Int)) (L + k - i) (by omega),
      idx_of_eq blk ((L : Int) + (k : Int) - (j : Int)) (L + k - j) (by omega)]

theorem src_lag_matrix_is_model (blk : List α) (lag : Option Nat) :
    ALV.Gen.C10.lag_matrix blk (lag.map Int.ofNat) = lagMatrix blk lag := by
  cases lag with
  | none =>
    by_cases h0 : blk.length = 0
    · simp [ALV.Gen.C10.lag_matrix, lagMatrix, h0, len, xrange]
      rfl
    · have h1 : len blk - 1 = ((blk.length - 1 : Nat) : Int) := by simp only [len, Int.ofNat_eq_natCast]; omega
      simp only [ALV.Gen.C10.lag_matrix, lagMatrix, Option.map, h0, if_false, h1]
      show Except.ok _ = _
      rw [lag_table_src]
  | some L =>
    by_cases h0 : L ≥ blk.length
    · have : (L : Int) ≥ len blk := by simp only [len, Int.ofNat_eq_natCast]; omega
      simp [ALV.Gen.C10.lag_matrix, lagMatrix, h0, this]
      rfl
    · have : ¬ ((L : Int) ≥ len blk) := by simp only [len, Int.ofNat_eq_natCast]; omega
      simp only [ALV.Gen.C10.lag_matrix, lagMatrix, Option.map, h0, this, if_false, Int.ofNat_eq_natCast]
      show Except.ok _ = _
      rw [lag_table_src]

theorem flatMap_congr_left {β γ : Type} {l : List β} {f g : β → List γ} (h : ∀ a ∈ l, f a = g a) :
    l.flatMap f = l.flatMap g := by
  induction l with
  | nil => rfl
  | cons x xs ih =>
    simp only [List.flatMap_cons]
    rw [h x (by simp), ih (fun a ha => h a (by simp [ha]))]

theorem src_toeplitz_is_model (vect : List α) : ALV.Gen.C10.toeplitz vect = toeplitz vect := by
  simp only [ALV.Gen.C10.toeplitz, toeplitz, map_xrange, len, Int.ofNat_eq_natCast, Int.toNat_natCast]
  apply List.map_congr_left; intro j _
  apply List.map_congr_left; intro i _
  exact idx_of_eq vect _ _ (pyabs_sub i j)

section filters
variable [DecidableEq α]

theorem src_levinson_inner_is_model (r a b : List α) :
    ALV.Gen.C10.levinson_durbin_inner r a b = inner r a b := by
  simp only [ALV.Gen.C10.levinson_durbin_inner, inner, enumerate, numlist, pysum, List.flatMap_map, List.map_map,
    Function.comp_def, Int.ofNat_eq_natCast]
  congr 1
  apply flatMap_congr_left; intro i _
  apply List.map_congr_left; intro j _
  rw [idx_of_eq r _ _ (pyabs_sub i j)]

theorem foldlM_xrange2_one {σ : Type} (f : σ → Int → Except String σ) (init : σ) (n : Nat) :
    (xrange2 1 ((n + 1 : Nat) + 1 : Int)).foldlM f init
      = (xrange2 1 ((n : Int) + 1)).foldlM f init >>= fun s => f s ((n + 1 : Nat) : Int) := by
  have h1 : (((n + 1 : Nat) : Int) + 1 - 1).toNat = n + 1 := by omega
  have h2 : ((n : Int) + 1 - 1).toNat = n := by omega
  simp only [xrange2, h1, h2, List.range_succ, List.map_append, List.foldlM_append, List.map_cons, List.map_nil,
    List.foldlM_cons, List.foldlM_nil, Int.ofNat_eq_natCast]
  congr 1; funext s
  have : (1 : Int) + (n : Int) = ((n + 1 : Nat) : Int) := by omega
  rw [this]; simp

theorem foldlM_lev (r : List α) (f : List α → Int → Except String (List α))
    (hf : ∀ A (m : Nat), f A (m : Int) = levStep r m A) (n : Nat) :
    (xrange2 1 ((n : Int) + 1)).foldlM f filtOne = levIter r n := by
  induction n with
  | zero => simp [xrange2, levIter, filtOne]; rfl
  | succ n ih => rw [foldlM_xrange2_one, ih, levIter]; simp only [hf]


theorem streamAppend0Take_zeroExt (r : List α) (p : Nat) (h : p ≥ r.length) :
    streamAppend0Take r ((p : Int) + 1) = zeroExt r p := by
  have h1 : ((p : Int) + 1).toNat = p + 1 := by omega
  simp only [streamAppend0Take, zeroExt, h, if_true, h1]
  apply List.take_of_length_le
  simp; omega

/-- the body of the `for m` loop as emitted is `levStep` -/
theorem lev_body (r A : List α) (m : Nat) :
    (do
      let B := flipDelay A (m : Int)
      let A := filtSubMul A (← pydiv "ParCorError" (ALV.Gen.C10.levinson_durbin_inner r A (zdelay (m : Int)))
        (ALV.Gen.C10.levinson_durbin_inner r B B)) B
      pure A : Except String (List α)) = levStep r m A := by
  simp only [flipDelay, zdelay, filtSubMul, pydiv, src_levinson_inner_is_model, levStep, Int.toNat_natCast]
  split <;> rfl

theorem src_levinson_is_model (r : List α) (order : Option Nat) (h : order = none → r ≠ []) :
    ALV.Gen.C10.levinson_durbin r (order.map Int.ofNat) = levinson r order := by
  cases order with
  | none =>
    have h0 : r.length ≠ 0 := by simpa using h rfl
    have h1 : len r - 1 = ((r.length - 1 : Nat) : Int) := by simp only [len, Int.ofNat_eq_natCast]; omega
    simp only [ALV.Gen.C10.levinson_durbin, levinson, Option.map, h0, if_false, h1, pure_bind]
    rw [foldlM_lev r _ (fun A m => lev_body r A m)]
    simp only [src_levinson_inner_is_model]
  | some p =>
    simp only [ALV.Gen.C10.levinson_durbin, levinson, Option.map, Int.ofNat_eq_natCast]
    by_cases hp : p ≥ r.length
    · have : (p : Int) ≥ len r := by simp only [len, Int.ofNat_eq_natCast]; omega
      simp only [this, if_true, pure_bind, streamAppend0Take_zeroExt r p hp]
      rw [foldlM_lev _ _ (fun A m => lev_body _ A m)]
      simp only [src_levinson_inner_is_model]
    · have : ¬ ((p : Int) ≥ len r) := by simp only [len, Int.ofNat_eq_natCast]; omega
      have hz : zeroExt r p = r := by simp [zeroExt, hp]
      simp only [this, if_false, pure_bind, hz]
      rw [foldlM_lev _ _ (fun A m => lev_body _ A m)]
      simp only [src_levinson_inner_is_model]

theorem src_kautocor_is_model (blk : List α) (order : Option Nat) (h : order = none → blk ≠ []) :
    ALV.Gen.C10.lpc_kautocor blk (order.map Int.ofNat) = kautocor blk order := by
  have hne : order = none → acorr blk order ≠ [] := by
    intro ho; subst ho
    intro hc
    have := congrArg List.length hc
    simp [acorr] at this
    exact h rfl this
  simp only [ALV.Gen.C10.lpc_kautocor, kautocor, src_acorr_is_model, src_levinson_is_model _ _ hne]

end filters

theorem src_strategy_names : ALV.Gen.C10.strategyNames = strategyNames.map (·.2) := by decide
end ALV.C10.Src
